import PersimVerif.Lemmas.GraphBasic
/-!
  C17 helper lemmas, part 6 (core Lean only): the pair / collection dispatch for an arbitrary `estimate`.
-/
namespace PersimVerif.Graph

theorem mem_pairsOf (N i j : Nat) : (i, j) ∈ pairsOf N ↔ i < j ∧ j < N := by
  simp only [pairsOf, List.mem_flatMap, List.mem_range, List.mem_map, List.mem_range'_1, Prod.mk.injEq]
  constructor
  · rintro ⟨a, ha, b, hb, rfl, rfl⟩; omega
  · rintro ⟨h1, h2⟩; exact ⟨i, by omega, j, by omega, rfl, rfl⟩

theorem pairsOf_two : pairsOf 2 = [(0, 1)] := by decide

section
variable {σ β : Type}

/-! ### symmetrisation -/

@[simp] theorem length_symmetrise (N : Nat) (zero : β) (u : Nat → Nat → β) : (symmetrise N zero u).length = N := by
  simp [symmetrise]

theorem row_length_symmetrise (N : Nat) (zero : β) (u : Nat → Nat → β) :
    ∀ r ∈ symmetrise N zero u, r.length = N := row_length_tab _

theorem ent_symmetrise (N : Nat) (zero : β) (u : Nat → Nat → β) {i j : Nat} (hi : i < N) (hj : j < N) :
    ent zero (symmetrise N zero u) i j = if i < j then u i j else if j < i then u j i else zero :=
  ent_tab zero _ hi hj

theorem symmetrise_symm (N : Nat) (zero : β) (u : Nat → Nat → β) {i j : Nat} (hi : i < N) (hj : j < N) :
    ent zero (symmetrise N zero u) i j = ent zero (symmetrise N zero u) j i := by
  rw [ent_symmetrise N zero u hi hj, ent_symmetrise N zero u hj hi]
  rcases Nat.lt_trichotomy i j with h | h | h
  · rw [if_pos h, if_neg (by omega), if_pos h]
  · subst h; rfl
  · rw [if_neg (by omega), if_pos h, if_pos h]

theorem symmetrise_diag (N : Nat) (zero : β) (u : Nat → Nat → β) {i : Nat} (hi : i < N) :
    ent zero (symmetrise N zero u) i i = zero := by
  rw [ent_symmetrise N zero u hi hi, if_neg (Nat.lt_irrefl i), if_neg (Nat.lt_irrefl i)]

theorem symmetrise_upper (N : Nat) (zero : β) (u : Nat → Nat → β) {i j : Nat} (hij : i < j) (hj : j < N) :
    ent zero (symmetrise N zero u) i j = u i j := by
  rw [ent_symmetrise N zero u (by omega) hj, if_pos hij]

/-! ### the loop -/

variable (est : σ → Mat → Mat → (β × β) × σ) (As : List Mat)

theorem collect_cons (i j : Nat) (ps : List (Nat × Nat)) (s : σ) :
    collect est As ((i, j) :: ps) s =
      match makeDist (As.getD i []) with
      | .error e => .error e
      | .ok DX =>
        match makeDist (As.getD j []) with
        | .error e => .error e
        | .ok DY =>
          match collect est As ps (est s DX.dist DY.dist).2 with
          | .error e => .error e
          | .ok (rs, s') => .ok ((est s DX.dist DY.dist).1 :: rs, s') := rfl

theorem collect_append (ps qs : List (Nat × Nat)) (s : σ) :
    collect est As (ps ++ qs) s =
      match collect est As ps s with
      | .error e => .error e
      | .ok (v1, s1) =>
        match collect est As qs s1 with
        | .error e => .error e
        | .ok (v2, s2) => .ok (v1 ++ v2, s2) := by
  induction ps generalizing s with
  | nil =>
    simp only [List.nil_append, collect]
    cases collect est As qs s with
    | error e => rfl
    | ok r => rfl
  | cons p ps ih =>
    obtain ⟨i, j⟩ := p
    simp only [List.cons_append, collect_cons]
    cases makeDist (As.getD i []) with
    | error e => rfl
    | ok DX =>
      cases makeDist (As.getD j []) with
      | error e => rfl
      | ok DY =>
        simp only
        rw [ih]
        cases collect est As ps (est s DX.dist DY.dist).2 with
        | error e => rfl
        | ok r1 =>
          obtain ⟨v1, s1⟩ := r1
          simp only
          cases collect est As qs s1 with
          | error e => rfl
          | ok r2 => rfl

theorem collect_length {ps : List (Nat × Nat)} {s s' : σ} {vals : List (β × β)}
    (h : collect est As ps s = .ok (vals, s')) : vals.length = ps.length := by
  induction ps generalizing s s' vals with
  | nil => simp only [collect, Except.ok.injEq, Prod.mk.injEq] at h; rw [← h.1]; rfl
  | cons p ps ih =>
    obtain ⟨i, j⟩ := p
    rw [collect_cons] at h
    cases h1 : makeDist (As.getD i []) with
    | error e => rw [h1] at h; simp at h
    | ok DX =>
      cases h2 : makeDist (As.getD j []) with
      | error e => rw [h1, h2] at h; simp at h
      | ok DY =>
        rw [h1, h2] at h
        simp only at h
        cases h3 : collect est As ps (est s DX.dist DY.dist).2 with
        | error e => rw [h3] at h; simp at h
        | ok r =>
          obtain ⟨rs, s2⟩ := r
          rw [h3] at h
          simp only [Except.ok.injEq, Prod.mk.injEq] at h
          rw [← h.1, List.length_cons, List.length_cons, ih h3]

/-- the value the loop stores for the pair `(i, j)`, and the RNG state it starts from -/
theorem collect_at {ps : List (Nat × Nat)} {s s' : σ} {vals : List (β × β)} {i j : Nat}
    (h : collect est As ps s = .ok (vals, s')) (hmem : (i, j) ∈ ps) :
    ∃ (pre : List (β × β)) (s1 : σ) (DX DY : DistResult),
      collect est As (ps.take (ps.idxOf (i, j))) s = .ok (pre, s1) ∧
      makeDist (As.getD i []) = .ok DX ∧ makeDist (As.getD j []) = .ok DY ∧
      vals[ps.idxOf (i, j)]? = some (est s1 DX.dist DY.dist).1 := by
  have hk : ps.idxOf (i, j) < ps.length := List.idxOf_lt_length_of_mem hmem
  have hget : ps[ps.idxOf (i, j)] = (i, j) := List.getElem_idxOf hk
  have hsplit : ps = ps.take (ps.idxOf (i, j)) ++ ps[ps.idxOf (i, j)] :: ps.drop (ps.idxOf (i, j) + 1) := by
    rw [List.getElem_cons_drop, List.take_append_drop]
  rw [hget] at hsplit
  rw [hsplit, collect_append] at h
  cases h1 : collect est As (ps.take (ps.idxOf (i, j))) s with
  | error e => rw [h1] at h; simp at h
  | ok r1 =>
    obtain ⟨pre, s1⟩ := r1
    rw [h1] at h
    simp only [collect_cons] at h
    cases h2 : makeDist (As.getD i []) with
    | error e => rw [h2] at h; simp at h
    | ok DX =>
      cases h3 : makeDist (As.getD j []) with
      | error e => rw [h2, h3] at h; simp at h
      | ok DY =>
        rw [h2, h3] at h
        simp only at h
        cases h4 : collect est As (ps.drop (ps.idxOf (i, j) + 1)) (est s1 DX.dist DY.dist).2 with
        | error e => rw [h4] at h; simp at h
        | ok r4 =>
          obtain ⟨rs, s4⟩ := r4
          rw [h4] at h
          simp only [Except.ok.injEq, Prod.mk.injEq] at h
          refine ⟨pre, s1, DX, DY, rfl, rfl, rfl, ?_⟩
          have hl : pre.length = ps.idxOf (i, j) := by
            rw [collect_length est As h1, List.length_take]; omega
          rw [← h.1, List.getElem?_append_right (by omega), hl, Nat.sub_self]
          rfl

/-- the pair call is one turn of the loop -/
theorem gh_pair_eq (zero : β) (G H : Mat) (s : σ) :
    gromovHausdorff est zero (.pair G H) s =
      match makeDist G with
      | .error e => .error e
      | .ok DX =>
        match makeDist H with
        | .error e => .error e
        | .ok DY =>
          .ok (.pair (est s DX.dist DY.dist).1.1 (est s DX.dist DY.dist).1.2, (est s DX.dist DY.dist).2) := by
  unfold gromovHausdorff
  simp only [pairsOf_two, collect_cons, collect]
  have e0 : [G, H].getD 0 [] = G := rfl
  have e1 : [G, H].getD 1 [] = H := rfl
  rw [e0, e1]
  cases makeDist G with
  | error e => rfl
  | ok DX =>
    cases makeDist H with
    | error e => rfl
    | ok DY => simp [upperVal]

/-- the loop depends on the graphs only through `makeDist` -/
theorem collect_congr (Bs : List Mat) (h : ∀ i, makeDist (As.getD i []) = makeDist (Bs.getD i []))
    (ps : List (Nat × Nat)) (s : σ) : collect est As ps s = collect est Bs ps s := by
  induction ps generalizing s with
  | nil => rfl
  | cons p ps ih =>
    obtain ⟨i, j⟩ := p
    rw [collect_cons, collect_cons, h i, h j]
    cases makeDist (Bs.getD i []) with
    | error e => rfl
    | ok DX =>
      cases makeDist (Bs.getD j []) with
      | error e => rfl
      | ok DY => simp only [ih]

/-- if two estimators have the same lower-bound function (whatever the RNG state or the sampling
    parameter), the loop stores the same lower bounds and fails on the same inputs -/
theorem collect_lb_indep {σ' : Type} (est' : σ' → Mat → Mat → (β × β) × σ')
    (hlb : ∀ s s' X Y, (est s X Y).1.1 = (est' s' X Y).1.1) (ps : List (Nat × Nat)) (s : σ) (s' : σ') :
    match collect est As ps s, collect est' As ps s' with
    | .ok (v, _), .ok (v', _) => v.map Prod.fst = v'.map Prod.fst
    | .error e, .error e' => e = e'
    | _, _ => False := by
  induction ps generalizing s s' with
  | nil => simp [collect]
  | cons p ps ih =>
    obtain ⟨i, j⟩ := p
    rw [collect_cons, collect_cons]
    cases makeDist (As.getD i []) with
    | error e => simp
    | ok DX =>
      cases makeDist (As.getD j []) with
      | error e => simp
      | ok DY =>
        simp only
        have := ih (est s DX.dist DY.dist).2 (est' s' DX.dist DY.dist).2
        cases h1 : collect est As ps (est s DX.dist DY.dist).2 with
        | error e =>
          cases h2 : collect est' As ps (est' s' DX.dist DY.dist).2 with
          | error e' => rw [h1, h2] at this; simpa using this
          | ok r' => rw [h1, h2] at this; simp at this
        | ok r =>
          cases h2 : collect est' As ps (est' s' DX.dist DY.dist).2 with
          | error e' => rw [h1, h2] at this; simp at this
          | ok r' =>
            rw [h1, h2] at this
            obtain ⟨v, t⟩ := r
            obtain ⟨v', t'⟩ := r'
            simp only at this ⊢
            simp [this, hlb s s']

end
end PersimVerif.Graph
