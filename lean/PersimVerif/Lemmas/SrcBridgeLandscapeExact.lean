import PersimVerif.Model.PLArith
import PersimVerif.Lemmas.SrcLibLandscape

/-!
# Bridge between the translated arithmetic of `PersLandscapeExact` and Model/PLArith.lean (C09)

`Generated/SrcPLExact.lean` (written by harness/translator/py2lean_landscape.py from persim/landscapes/exact.py and
auxiliary.py on every run) holds `__neg__`, `__add__`, `__sub__`, `__mul__`, `__rmul__`, `__truediv__`, `__getitem__` of
`PersLandscapeExact` and `auxiliary.union_crit_pairs`, translated statement by statement.  This hand-written file has

* `Ref.*` -- the REVIEWED Lean text of that translation: definitions of exactly the shape the translator emits for the
  reviewed source (same statements, same guards, same order).  The generated file proves `generated = Ref.*`
  (`src_<def>_eq_ref`, by `rfl`); the generated callees of other definitions (`pos_to_slope_interp`, `sum_slopes`,
  `slope_to_pos_interp` of Generated/SrcPLArith.lean, `exact_neg`, `exact_add`, `exact_mul`, `union_crit_pairs`) are
  parameters of the `Ref` definitions, so this file does not depend on generated text;
* the proofs that `Ref.*` equal the models `Exact.neg/add/sub/smul/sdiv`, `unionCritPairs`, `hasEmptyDepth` for EVERY
  landscape object, computed or lazy (`compute=False`): the model's operand is the object after `compute_landscape()`.
Mathlib-free.
-/
set_option linter.unusedVariables false
set_option linter.unusedSectionVars false
set_option linter.unusedSimpArgs false

namespace PersimVerif.SrcBridge.LandscapeExact
open PersimVerif.PLArith PersimVerif.SrcLib.Landscape

/-- the model's view of a landscape object -/
def toModel {α β : Type} (o : ExactObj α β) : Exact α := ⟨o.hom_deg, o.critical_pairs⟩

/-- the object the constructor makes from `hom_deg` and `critical_pairs` (no diagrams) -/
def ofModel {α β : Type} (e : Exact α) : ExactObj α β := ⟨e.homDeg, [], e.cps⟩

/-! ## `Ref`: the reviewed Lean text of the translation -/
namespace Ref

section
variable {α β : Type} [Add α] [Sub α] [Mul α] [Div α] [Neg α] [Zero α] [One α] [LT α] [DecidableLT α]
  [LE α] [DecidableLE α] [Max α] [Min α] [DecidableEq α] [NatCast α]

/-- one round of `for a, b in list(itertools.zip_longest(A.critical_pairs, B.critical_pairs))` -/
def union_crit_pairs_round (p2s s2p : List (α × α) → Except Err (List (α × α)))
    (ss : List (α × α) → List (α × α) → List (α × α))
    (result_pairs : List (List (α × α))) (a_b : These (List (α × α)) (List (α × α))) :
    Except Err (List (List (α × α))) :=
  match a_b with
  | .right b =>
    let result_pairs_1 : List (List (α × α)) := result_pairs ++ [b]
    .ok result_pairs_1
  | .left a =>
    let result_pairs_1 : List (List (α × α)) := result_pairs ++ [a]
    .ok result_pairs_1
  | .both a b =>
    match p2s a with
    | .error e => .error e
    | .ok t =>
    match p2s b with
    | .error e => .error e
    | .ok t_1 =>
    match s2p (ss t t_1) with
    | .error e => .error e
    | .ok t_2 =>
    let result_pairs_1 : List (List (α × α)) := result_pairs ++ [t_2]
    .ok result_pairs_1

/-- `union_crit_pairs(A, B)` -/
def union_crit_pairs
    (round : List (List (α × α)) → These (List (α × α)) (List (α × α)) → Except Err (List (List (α × α))))
    (sweep : List β → List (List (α × α))) (A B : ExactObj α β) : Except Err (List (List (α × α))) :=
  let result_pairs : List (List (α × α)) := []
  let A_1 : ExactObj α β := ExactObj.compute_landscape sweep A
  let B_1 : ExactObj α β := ExactObj.compute_landscape sweep B
  (zipLongest A_1.critical_pairs B_1.critical_pairs).foldlM round result_pairs

/-- `PersLandscapeExact.__neg__` -/
def exact_neg (sweep : List β → List (List (α × α))) (self : ExactObj α β) : Except Err (ExactObj α β) :=
  let self_1 : ExactObj α β := ExactObj.compute_landscape sweep self
  ExactObj.new Err.bothEmpty self_1.hom_deg (self_1.critical_pairs.map fun depth_list => depth_list.map fun a_b => (a_b.1, -a_b.2))

/-- `PersLandscapeExact.__add__` -/
def exact_add (ucp : ExactObj α β → ExactObj α β → Except Err (List (List (α × α))))
    (self other : ExactObj α β) : Except Err (ExactObj α β) :=
  if self.hom_deg ≠ other.hom_deg then
    .error Err.homDeg
  else
    match ucp self other with
    | .error e => .error e
    | .ok t =>
    ExactObj.new Err.bothEmpty self.hom_deg t

/-- `PersLandscapeExact.__sub__` -/
def exact_sub (neg : ExactObj α β → Except Err (ExactObj α β))
    (add : ExactObj α β → ExactObj α β → Except Err (ExactObj α β))
    (self other : ExactObj α β) : Except Err (ExactObj α β) :=
  match neg other with
  | .error e => .error e
  | .ok t =>
  add self t

/-- `PersLandscapeExact.__mul__` -/
def exact_mul (sweep : List β → List (List (α × α))) (self : ExactObj α β) (other : α) : Except Err (ExactObj α β) :=
  let self_1 : ExactObj α β := ExactObj.compute_landscape sweep self
  ExactObj.new Err.bothEmpty self_1.hom_deg (self_1.critical_pairs.map fun depth_list => depth_list.map fun a_b => (a_b.1, other * a_b.2))

/-- `PersLandscapeExact.__rmul__` -/
def exact_rmul (mul : ExactObj α β → α → Except Err (ExactObj α β)) (self : ExactObj α β) (other : α) :
    Except Err (ExactObj α β) :=
  mul self other

/-- `PersLandscapeExact.__truediv__` -/
def exact_truediv (mul : ExactObj α β → α → Except Err (ExactObj α β)) (self : ExactObj α β) (other : α) :
    Except Err (ExactObj α β) :=
  if other = 0 then
    .error Err.divZero
  else
    mul self (1 / other)

/-- `PersLandscapeExact.__getitem__` with an integer key -/
def exact_getitem (sweep : List β → List (List (α × α))) (self : ExactObj α β) (key : Int) :
    Except Err (List (α × α)) :=
  let self_1 : ExactObj α β := ExactObj.compute_landscape sweep self
  match pyGet? self_1.critical_pairs key with
  | none => .error Err.indexError
  | some t =>
  .ok t

end
end Ref

/-! ## the reviewed text against the models -/

section
variable {α β : Type} [Add α] [Sub α] [Mul α] [Div α] [Neg α] [Zero α] [One α] [LT α] [DecidableLT α]
  [LE α] [DecidableLE α] [Max α] [Min α] [DecidableEq α] [NatCast α]

theorem posToSlope_ne_nil : ∀ (l : List (α × α)), l ≠ [] → posToSlope l ≠ []
  | [], h => absurd rfl h
  | [p], _ => by simp [posToSlope]
  | p :: q :: r, _ => by
    have ih := posToSlope_ne_nil (q :: r) (by simp)
    simp only [posToSlope]
    split
    · exact ih
    · simp

theorem sumSlopes_ne_nil_left (am bm : α) (a b : List (α × α)) (h : a ≠ []) : sumSlopes am bm a b ≠ [] := by
  cases a with
  | nil => exact absurd rfl h
  | cons x a =>
    cases b with
    | nil => obtain ⟨ax, am'⟩ := x; simp [sumSlopes]
    | cons y b =>
      obtain ⟨ax, am'⟩ := x
      obtain ⟨bx, bm'⟩ := y
      simp only [sumSlopes]
      split
      · simp
      · split <;> simp

/-- the computed object has the same degree -/
theorem compute_hom_deg (sweep : List β → List (List (α × α))) (o : ExactObj α β) :
    (ExactObj.compute_landscape sweep o).hom_deg = o.hom_deg := by
  unfold ExactObj.compute_landscape
  split <;> rfl

/-- `compute_landscape()` of an object made by the constructor from non-empty critical pairs is the object -/
theorem compute_ofModel (sweep : List β → List (List (α × α))) (e : Exact α) (h : e.cps.isEmpty = false) :
    ExactObj.compute_landscape sweep (ofModel e : ExactObj α β) = ofModel e := by
  simp [ExactObj.compute_landscape, ofModel, h]

/-- the constructor call is the model's `Exact.mk'` -/
theorem new_eq_mk' (hd : Nat) (cps : List (List (α × α))) :
    (ExactObj.new Err.bothEmpty hd cps : Except Err (ExactObj α β)) = (Exact.mk' hd cps).map ofModel := by
  unfold ExactObj.new Exact.mk'
  split <;> rfl

/-- what the constructor returns has non-empty critical pairs -/
theorem mk'_ok_cps (hd : Nat) (cps : List (List (α × α))) (e : Exact α) (h : Exact.mk' hd cps = .ok e) :
    e.cps.isEmpty = false := by
  unfold Exact.mk' at h
  split at h
  · cases h
  · cases h; simpa using ‹¬ cps.isEmpty = true›

/-- the loop of `union_crit_pairs` against `hasEmptyDepth` / `unionCritPairs` -/
theorem union_loop (p2s s2p : List (α × α) → Except Err (List (α × α)))
    (ss : List (α × α) → List (α × α) → List (α × α))
    (hp : ∀ l, l ≠ [] → p2s l = .ok (posToSlope l)) (hp0 : p2s [] = .error Err.indexError)
    (hs : ∀ l, l ≠ [] → s2p l = .ok (slopeToPos l)) (hss : ∀ a b, ss a b = sumSlopes 0 0 a b) :
    ∀ (as bs : List (List (α × α))) (acc : List (List (α × α))),
      (zipLongest as bs).foldlM (Ref.union_crit_pairs_round p2s s2p ss) acc =
        if hasEmptyDepth as bs then .error Err.indexError else .ok (acc ++ unionCritPairs as bs)
  | [], bs, acc => by
    have : ∀ (l : List (List (α × α))) acc, (l.map These.right).foldlM (Ref.union_crit_pairs_round p2s s2p ss) acc
        = (.ok (acc ++ l) : Except Err _) := by
      intro l
      induction l with
      | nil => intro acc; simp [List.foldlM, pure, Except.pure]
      | cons b l ih =>
        intro acc
        simp only [List.map_cons, List.foldlM_cons, Ref.union_crit_pairs_round, bind, Except.bind]
        rw [ih]; simp
    simp only [zipLongest, hasEmptyDepth, unionCritPairs]
    rw [this]; simp
  | a :: as, [], acc => by
    have : ∀ (l : List (List (α × α))) acc, (l.map These.left).foldlM (Ref.union_crit_pairs_round p2s s2p ss) acc
        = (.ok (acc ++ l) : Except Err _) := by
      intro l
      induction l with
      | nil => intro acc; simp [List.foldlM, pure, Except.pure]
      | cons b l ih =>
        intro acc
        simp only [List.map_cons, List.foldlM_cons, Ref.union_crit_pairs_round, bind, Except.bind]
        rw [ih]; simp
    simp only [zipLongest, hasEmptyDepth, unionCritPairs]
    rw [this]; simp
  | a :: as, b :: bs, acc => by
    have ih := union_loop p2s s2p ss hp hp0 hs hss as bs
    simp only [zipLongest, List.foldlM_cons, hasEmptyDepth, unionCritPairs, bind, Except.bind]
    by_cases ha : a = []
    · subst ha
      simp [Ref.union_crit_pairs_round, hp0]
    · by_cases hb : b = []
      · subst hb
        simp [Ref.union_crit_pairs_round, hp0, hp a ha, ha]
      · have hne : sumSlopes 0 0 (posToSlope a) (posToSlope b) ≠ [] :=
          sumSlopes_ne_nil_left 0 0 _ _ (posToSlope_ne_nil a ha)
        have e1 : a.isEmpty = false := by simpa using ha
        have e2 : b.isEmpty = false := by simpa using hb
        simp only [Ref.union_crit_pairs_round, hp a ha, hp b hb, hss, hs _ hne, e1, e2, Bool.false_or]
        rw [ih]
        simp [addDepth]

/-- `union_crit_pairs` on any two landscape objects -/
theorem union_crit_pairs_eq_model (p2s s2p : List (α × α) → Except Err (List (α × α)))
    (ss : List (α × α) → List (α × α) → List (α × α))
    (hp : ∀ l, l ≠ [] → p2s l = .ok (posToSlope l)) (hp0 : p2s [] = .error Err.indexError)
    (hs : ∀ l, l ≠ [] → s2p l = .ok (slopeToPos l)) (hss : ∀ a b, ss a b = sumSlopes 0 0 a b)
    (sweep : List β → List (List (α × α))) (A B : ExactObj α β) :
    Ref.union_crit_pairs (Ref.union_crit_pairs_round p2s s2p ss) sweep A B =
      if hasEmptyDepth (ExactObj.compute_landscape sweep A).critical_pairs (ExactObj.compute_landscape sweep B).critical_pairs
      then .error Err.indexError
      else .ok (unionCritPairs (ExactObj.compute_landscape sweep A).critical_pairs
                  (ExactObj.compute_landscape sweep B).critical_pairs) := by
  unfold Ref.union_crit_pairs
  simp only
  rw [union_loop p2s s2p ss hp hp0 hs hss]
  by_cases h : hasEmptyDepth (ExactObj.compute_landscape sweep A).critical_pairs
      (ExactObj.compute_landscape sweep B).critical_pairs = true
  · simp only [h, if_true]
  · simp only [h, if_false, List.nil_append]

theorem exact_neg_eq_model (sweep : List β → List (List (α × α))) (self : ExactObj α β) :
    Ref.exact_neg sweep self = (Exact.neg (toModel (ExactObj.compute_landscape sweep self))).map ofModel := by
  unfold Ref.exact_neg Exact.neg
  simp only [new_eq_mk']
  rfl

theorem exact_mul_eq_model (sweep : List β → List (List (α × α))) (self : ExactObj α β) (c : α) :
    Ref.exact_mul sweep self c = (Exact.smul c (toModel (ExactObj.compute_landscape sweep self))).map ofModel := by
  unfold Ref.exact_mul Exact.smul
  simp only [new_eq_mk']
  rfl

theorem exact_add_eq_model (ucp : ExactObj α β → ExactObj α β → Except Err (List (List (α × α))))
    (sweep : List β → List (List (α × α)))
    (hu : ∀ A B, ucp A B =
      if hasEmptyDepth (ExactObj.compute_landscape sweep A).critical_pairs (ExactObj.compute_landscape sweep B).critical_pairs
      then .error Err.indexError
      else .ok (unionCritPairs (ExactObj.compute_landscape sweep A).critical_pairs
                  (ExactObj.compute_landscape sweep B).critical_pairs))
    (self other : ExactObj α β) :
    Ref.exact_add ucp self other =
      (Exact.add (toModel (ExactObj.compute_landscape sweep self)) (toModel (ExactObj.compute_landscape sweep other))).map ofModel := by
  unfold Ref.exact_add Exact.add
  simp only [toModel, compute_hom_deg, hu]
  by_cases hd : self.hom_deg ≠ other.hom_deg
  · rw [if_pos hd, if_pos hd]; rfl
  · rw [if_neg hd, if_neg hd]
    by_cases h : hasEmptyDepth (ExactObj.compute_landscape sweep self).critical_pairs
        (ExactObj.compute_landscape sweep other).critical_pairs = true
    · simp only [h, if_true]; rfl
    · simp only [h, if_false, new_eq_mk']; rfl

theorem exact_sub_eq_model (neg : ExactObj α β → Except Err (ExactObj α β))
    (add : ExactObj α β → ExactObj α β → Except Err (ExactObj α β)) (sweep : List β → List (List (α × α)))
    (hn : ∀ o, neg o = (Exact.neg (toModel (ExactObj.compute_landscape sweep o))).map ofModel)
    (ha : ∀ o o', add o o' = (Exact.add (toModel (ExactObj.compute_landscape sweep o))
                                (toModel (ExactObj.compute_landscape sweep o'))).map ofModel)
    (self other : ExactObj α β) :
    Ref.exact_sub neg add self other =
      (Exact.sub (toModel (ExactObj.compute_landscape sweep self)) (toModel (ExactObj.compute_landscape sweep other))).map ofModel := by
  unfold Ref.exact_sub Exact.sub
  rw [hn]
  cases hq : Exact.neg (toModel (ExactObj.compute_landscape sweep other)) with
  | error e => rfl
  | ok nq =>
    have hne : nq.cps.isEmpty = false := mk'_ok_cps _ _ nq (by simpa [Exact.neg] using hq)
    simp only [Except.map, bind, Except.bind]
    rw [ha, compute_ofModel sweep nq hne]
    rfl

theorem exact_rmul_eq_model (mul : ExactObj α β → α → Except Err (ExactObj α β)) (sweep : List β → List (List (α × α)))
    (hm : ∀ o c, mul o c = (Exact.smul c (toModel (ExactObj.compute_landscape sweep o))).map ofModel)
    (self : ExactObj α β) (c : α) :
    Ref.exact_rmul mul self c = (Exact.smul c (toModel (ExactObj.compute_landscape sweep self))).map ofModel := by
  unfold Ref.exact_rmul
  exact hm self c

theorem exact_truediv_eq_model (mul : ExactObj α β → α → Except Err (ExactObj α β)) (sweep : List β → List (List (α × α)))
    (hm : ∀ o c, mul o c = (Exact.smul c (toModel (ExactObj.compute_landscape sweep o))).map ofModel)
    (self : ExactObj α β) (c : α) :
    Ref.exact_truediv mul self c = (Exact.sdiv (toModel (ExactObj.compute_landscape sweep self)) c).map ofModel := by
  unfold Ref.exact_truediv Exact.sdiv
  split
  · rfl
  · exact hm self _

/-- `self[key]` for an integer key: depth `key` of the computed landscape (Python indexing), `IndexError` beyond -/
theorem exact_getitem_eq_model (sweep : List β → List (List (α × α))) (self : ExactObj α β) (key : Int) :
    Ref.exact_getitem sweep self key =
      match pyGet? (ExactObj.compute_landscape sweep self).critical_pairs key with
      | none => .error Err.indexError
      | some d => .ok d := rfl

end
end PersimVerif.SrcBridge.LandscapeExact
