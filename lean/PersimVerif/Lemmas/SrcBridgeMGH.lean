import PersimVerif.Lemmas.SrcLibNp
import PersimVerif.Lemmas.MGHGreedy
import PersimVerif.Lemmas.MGHLb
import PersimVerif.Lemmas.MGHUb
import Mathlib.Tactic.Ring
/-
  Bridging lemmas between the mGH source translator's library (`Lemmas/SrcLibNp.lean`) and `Model/MGH.lean`, used by the
  generated obligations of `Generated/SrcMGH.lean` (C05).  Hand-written; about model and library definitions only (no
  generated definition is mentioned here).
-/
namespace PersimVerif.SrcBridge.MGH
open PersimVerif.SrcNp PersimVerif.MGH

theorem getElemOpt_eq_some_getD {l : List Nat} {k : Nat} (h : k < l.length) : l[k]? = some (l.getD k 0) := by
  simp [List.getD, h]

theorem getItem_eq_getElem {α : Type} {l : List α} {k : Nat} (h : k < l.length) : getItem l k = .ok l[k] := by
  simp [getItem, h]

theorem getItem_of_lt {l : List Nat} {k : Nat} (h : k < l.length) : getItem l k = .ok (l.getD k 0) := by
  simp only [getItem, getElemOpt_eq_some_getD h]

theorem setItem_of_lt {l : List Nat} {k : Nat} (v : Nat) (h : k < l.length) : setItem l k v = .ok (l.set k v) := by
  simp only [setItem, h, if_true]

/-- the generator `next(k for k in range(lo, lo + n) if l[k] > 0)` with all of the range inside `l`: no `IndexError`, and the
    model's bounded scan -/
theorem nextWhere_pos_range' (l : List Nat) (n lo : Nat) (h : lo + n ≤ l.length) :
    nextWhere (fun k => (getItem l k).bind (fun t => .ok (decide (0 < t)))) (List.range' lo n) = .ok (firstPosFrom l n lo) := by
  induction n generalizing lo with
  | zero => rfl
  | succ n ih =>
    have hlo : lo < l.length := by omega
    simp only [List.range'_succ, nextWhere, firstPosFrom, getItem_of_lt hlo, Except.bind]
    by_cases hp : 0 < l.getD lo 0
    · simp only [hp, decide_true, if_true]
    · simp only [hp, decide_false, if_false]
      exact ih (lo + 1) (by omega)

theorem nextWhere_pos_pyRange (l : List Nat) (lo : Nat) (hi : Int) (h : hi.toNat ≤ l.length) :
    nextWhere (fun k => (getItem l k).bind (fun t => .ok (decide (0 < t)))) (pyRange lo hi) = .ok (firstPos l lo hi.toNat) := by
  unfold pyRange firstPos
  by_cases hlo : lo ≤ hi.toNat
  · exact nextWhere_pos_range' l _ lo (by omega)
  · have : hi.toNat - lo = 0 := by omega
    rw [this]; rfl

theorem nextIAndJ_none {w : Nat} {rv ru : List Nat} {minI minJ : Nat} {oj : Option Nat}
    (h : nextIAndJ w rv ru minI minJ = (none, oj)) : oj = some minJ := by
  unfold nextIAndJ at h
  split at h
  · simp only [Prod.mk.injEq, true_and] at h; exact h.symm
  · simp at h

/-! ### one round of the greedy: where the next indices lie (termination measure of the `while` loop) -/

theorem nextIAndJ_step {w : Nat} {rv ru : List Nat} {i j i' j' : Nat}
    (h : nextIAndJ w (rv.set i 0) ru i j = (some i', some j')) :
    i < i' ∧ i' < rv.length ∧ j ≤ j' ∧ j' < ru.length := by
  obtain ⟨hfp, hnj⟩ := nextIAndJ_some h
  obtain ⟨h1, h2, h3, _⟩ := firstPos_some hfp
  obtain ⟨hj1, _, hj3, _, _⟩ := nextJ_some hnj.symm
  have hne : i' ≠ i := by
    intro e; rw [e, getD_set_self_zero] at h3; omega
  have hjj : j ≤ j' := le_trans (le_max_right _ _) hj1
  simp only [List.length_set] at h2
  omega

theorem nextJ_step {w : Nat} {ru : List Nat} {i j j' : Nat} (h : nextJ w (ru.set j 0) i j = some j') :
    j < j' ∧ j' < ru.length := by
  obtain ⟨hj1, _, hj3, hj4, _⟩ := nextJ_some h
  have hne : j' ≠ j := by
    intro e; rw [e, getD_set_self_zero] at hj4; omega
  simp only [List.length_set] at hj3
  omega

/-! ### `np.unique` and the scatter assignment of `represent_distance_matrix_rows_as_distributions` -/

theorem mem_insertUniq {α : Type} [DecidableEq α] (lt : α → α → Bool) (a x : α) (l : List α) :
    a ∈ insertUniq lt x l ↔ a = x ∨ a ∈ l := by
  induction l with
  | nil => simp [insertUniq]
  | cons y ys ih =>
    unfold insertUniq
    split
    · simp
    · split
      · rename_i h; subst h; simp
      · simp only [List.mem_cons, ih]
        constructor
        · rintro (h | h | h) <;> simp [h]
        · rintro (h | h | h) <;> simp [h]

theorem mem_uniqueSorted {α : Type} [DecidableEq α] (lt : α → α → Bool) (a : α) (l : List α) :
    a ∈ uniqueSorted lt l ↔ a ∈ l := by
  induction l with
  | nil => simp [uniqueSorted]
  | cons y ys ih =>
    have : uniqueSorted lt (y :: ys) = insertUniq lt y (uniqueSorted lt ys) := rfl
    rw [this, mem_insertUniq, ih]; simp

theorem count_map_tag (row : List Nat) (x r r0 : Nat) :
    (row.map (fun y => (y, r0))).count (x, r) = if r = r0 then row.count x else 0 := by
  induction row with
  | nil => simp
  | cons y ys ih =>
    simp only [List.map_cons, List.count_cons, ih]
    by_cases hr : r = r0
    · subst hr; by_cases hy : y = x <;> simp [hy]
    · have : ((y, r0) == (x, r)) = false := by simp; intro _; exact fun h => hr h.symm
      simp [hr, this]

theorem count_tagRowsFrom (D : List (List Nat)) (r0 x r : Nat) :
    (tagRowsFrom r0 D).count (x, r) = if r0 ≤ r then (D.getD (r - r0) []).count x else 0 := by
  induction D generalizing r0 with
  | nil => simp [tagRowsFrom]
  | cons row rest ih =>
    simp only [tagRowsFrom, List.count_append, count_map_tag, ih]
    by_cases h1 : r = r0
    · subst h1; simp
    · by_cases h2 : r0 ≤ r
      · have h3 : r0 + 1 ≤ r := by omega
        have h4 : r - r0 = (r - (r0 + 1)) + 1 := by omega
        simp [h1, h2, h3, h4]
      · have h3 : ¬ r0 + 1 ≤ r := by omega
        simp [h1, h2, h3]

theorem count_tagRows (D : List (List Nat)) (x r : Nat) : (tagRows D).count (x, r) = (D.getD r []).count x := by
  simp [tagRows, count_tagRowsFrom]

theorem mem_tagRowsFrom {D : List (List Nat)} {r0 : Nat} {k : Nat × Nat} (h : k ∈ tagRowsFrom r0 D) :
    r0 ≤ k.2 ∧ k.2 < r0 + D.length ∧ k.1 ∈ D.getD (k.2 - r0) [] := by
  induction D generalizing r0 with
  | nil => simp [tagRowsFrom] at h
  | cons row rest ih =>
    simp only [tagRowsFrom, List.mem_append, List.mem_map] at h
    rcases h with ⟨y, hy, rfl⟩ | h
    · simp [hy]
    · obtain ⟨h1, h2, h3⟩ := ih h
      have h4 : k.2 - r0 = (k.2 - (r0 + 1)) + 1 := by omega
      refine ⟨by omega, by simp; omega, ?_⟩
      rw [h4]; simpa using h3

/-- the entry `M[r][c]` (0 outside the matrix) -/
def cell (M : List (List Nat)) (r c : Nat) : Nat := (M.getD r []).getD c 0



theorem getD_set_row (M : List (List Nat)) (r0 r : Nat) (x : List Nat) (h : r0 < M.length) :
    (M.set r0 x).getD r [] = if r = r0 then x else M.getD r [] := by
  by_cases e : r = r0
  · subst e; simp [List.getD, h]
  · simp [List.getD, e, Ne.symm e]

theorem getD_set_nat (l : List Nat) (c0 c v : Nat) (h : c0 < l.length) :
    (l.set c0 v).getD c 0 = if c = c0 then v else l.getD c 0 := by
  by_cases e : c = c0
  · subst e; simp [List.getD, h]
  · simp [List.getD, e, Ne.symm e]

theorem cell_set (M : List (List Nat)) (r0 c0 v r c : Nat) (row : List Nat) (hr : M[r0]? = some row) (hc : c0 < row.length) :
    cell (M.set r0 (row.set c0 v)) r c = if r = r0 ∧ c = c0 then v else cell M r c := by
  have hr0 : r0 < M.length := by
    rcases Nat.lt_or_ge r0 M.length with h | h
    · exact h
    · simp [List.getElem?_eq_none h] at hr
  have hrow : M.getD r0 [] = row := by simp [List.getD, hr]
  unfold cell
  rw [getD_set_row _ _ _ _ hr0]
  by_cases h1 : r = r0
  · subst h1
    simp only [if_true, true_and, getD_set_nat _ _ _ _ hc, hrow]
  · simp [h1]

/-- the scatter assignment of values `f k` at the positions `(k.2, maxD - k.1)` for the keys `k` of a list: no exception, and
    entry by entry the value of the key that addresses the entry, if there is one -/
theorem scatter2_keys (maxD n : Nat) (f : Nat × Nat → Nat) (ks : List (Nat × Nat)) :
    ∀ (M : List (List Nat)), M.length = n → (∀ row ∈ M, row.length = maxD + 1) → (∀ k ∈ ks, k.1 ≤ maxD ∧ k.2 < n) →
    ∃ M', scatter2 M (ks.map (fun x => x.2)) (ks.map (fun x => (maxD : Int) - (x.1 : Int))) (ks.map f) = .ok M' ∧
      M'.length = n ∧ (∀ row ∈ M', row.length = maxD + 1) ∧
      ∀ r c, r < n → c ≤ maxD → cell M' r c = if (maxD - c, r) ∈ ks then f (maxD - c, r) else cell M r c := by
  induction ks with
  | nil => intro M h1 h2 _; exact ⟨M, rfl, h1, h2, fun r c _ _ => by simp⟩
  | cons k rest ih =>
    intro M h1 h2 hk
    obtain ⟨hk1, hk2⟩ := hk k (List.mem_cons_self ..)
    have hlt : k.2 < M.length := by omega
    have hrow : M[k.2]? = some M[k.2] := List.getElem?_eq_getElem hlt
    have hlen : M[k.2].length = maxD + 1 := h2 _ (List.getElem_mem hlt)
    have hc : ((maxD : Int) - (k.1 : Int)).toNat = maxD - k.1 := by omega
    have hstep : scatterStep M k.2 ((maxD : Int) - (k.1 : Int)) (f k) = .ok (M.set k.2 (M[k.2].set (maxD - k.1) (f k))) := by
      unfold scatterStep
      have : ¬ ((maxD : Int) - (k.1 : Int) < 0) := by omega
      simp only [this, if_false, hrow, hc]
      rw [if_pos (by omega)]
    obtain ⟨M', e1, e2, e3, e4⟩ := ih (M.set k.2 (M[k.2].set (maxD - k.1) (f k))) (by simpa using h1)
      (by
        intro row hrow'
        rcases List.mem_or_eq_of_mem_set hrow' with h | h
        · exact h2 _ h
        · subst h; simpa using hlen)
      (fun k' hk' => hk k' (List.mem_cons_of_mem _ hk'))
    refine ⟨M', ?_, e2, e3, ?_⟩
    · simp only [List.map_cons, scatter2, hstep]; exact e1
    · intro r c hr hcm
      rw [e4 r c hr hcm, cell_set _ _ _ _ _ _ _ hrow (by omega)]
      obtain ⟨x0, r0⟩ := k
      simp only [List.mem_cons, Prod.mk.injEq] at hk1 hk2 ⊢
      by_cases hin : (maxD - c, r) ∈ rest
      · simp only [hin, if_true, or_true]
      · simp only [hin, if_false, or_false]
        by_cases hk' : maxD - c = x0 ∧ r = r0
        · have h3 : r = r0 ∧ c = maxD - x0 := ⟨hk'.2, by omega⟩
          rw [if_pos h3, if_pos hk', hk'.1, hk'.2]
        · have h3 : ¬ (r = r0 ∧ c = maxD - x0) := by
            rintro ⟨e1', e2'⟩
            exact hk' ⟨by omega, e1'⟩
          rw [if_neg h3, if_neg hk']


theorem cell_zeros2 (a b r c : Nat) : cell (zeros2 a b) r c = 0 := by
  unfold cell zeros2
  by_cases hr : r < a
  · by_cases hc : c < b <;> simp [List.getD, hr, hc]
  · simp [List.getD, hr]

/-- `represent_distance_matrix_rows_as_distributions`: the scatter of the `np.unique` counts into the zero matrix raises nothing,
    and without its last column it is the model's `rowsAsDistributions` (for entries `≤ max_d`, the docstring's "upper bound of the
    entries in DX") -/
theorem represent_scatter (DX : List (List Nat)) (maxD : Nat) (h : ∀ row ∈ DX, ∀ x ∈ row, x ≤ maxD) :
    ∃ M, scatter2 (zeros2 DX.length (maxD + 1)) ((uniqueCounts cpxLt (tagRows DX)).1.map (fun x => x.2))
        ((uniqueCounts cpxLt (tagRows DX)).1.map (fun x => (maxD : Int) - (x.1 : Int))) (uniqueCounts cpxLt (tagRows DX)).2 = .ok M ∧
      dropLastCol M = rowsAsDistributions DX maxD := by
  have hkeys : ∀ k ∈ uniqueSorted cpxLt (tagRows DX), k.1 ≤ maxD ∧ k.2 < DX.length := by
    intro k hk
    rw [mem_uniqueSorted] at hk
    obtain ⟨_, h2, h3⟩ := mem_tagRowsFrom hk
    simp only [Nat.sub_zero, Nat.zero_add] at h2 h3
    have hrow : DX.getD k.2 [] ∈ DX := by simp [List.getD, h2]
    exact ⟨h _ hrow _ h3, h2⟩
  obtain ⟨M, e1, e2, e3, e4⟩ := scatter2_keys maxD DX.length (fun x => (tagRows DX).count x) (uniqueSorted cpxLt (tagRows DX))
    (zeros2 DX.length (maxD + 1)) (by simp [zeros2]) (by intro row hrow; simp [zeros2] at hrow; simp [hrow.2]) hkeys
  refine ⟨M, by simpa only [uniqueCounts] using e1, ?_⟩
  have hcell : ∀ r c, r < DX.length → c ≤ maxD → cell M r c = (DX.getD r []).count (maxD - c) := by
    intro r c hr hc
    rw [e4 r c hr hc, cell_zeros2, ← count_tagRows]
    split
    · rfl
    · rename_i hn
      rw [mem_uniqueSorted] at hn
      exact (List.count_eq_zero.mpr hn).symm
  unfold dropLastCol rowsAsDistributions
  apply List.ext_getElem
  · simp [e2]
  · intro r h1 h2
    simp only [List.getElem_map]
    have hr : r < DX.length := by simpa using h2
    have hrM : r < M.length := by omega
    have hlen : M[r].length = maxD + 1 := e3 _ (List.getElem_mem hrM)
    unfold rowDistribution
    apply List.ext_getElem
    · simp [hlen]
    · intro c h3 h4
      have hc : c < maxD := by simpa using h4
      have := hcell r c hr (by omega)
      simp only [cell, List.getD, List.getElem?_eq_getElem hrM, List.getElem?_eq_getElem hr, Option.getD_some,
        List.getElem?_eq_getElem (show c < M[r].length by omega)] at this
      simp [List.getElem_dropLast, this]

/-! ### `find_largest_size_bounded_curvature` -/

/-- a square matrix (every row as long as the matrix has rows) -/
def Sq (K : List (List Nat)) : Prop := ∀ row ∈ K, row.length = K.length

instance (K : List (List Nat)) : Decidable (Sq K) := by unfold Sq; infer_instance

theorem ncols_sq {K : List (List Nat)} (h : Sq K) : ncols K = K.length := by
  cases K with
  | nil => rfl
  | cons r rs => exact h r (List.mem_cons_self ..)

theorem drop_eq_map_range' (r : List Nat) (m : Nat) :
    r.drop m = (List.range' m (r.length - m)).map (fun j => r.getD j 0) := by
  apply List.ext_getElem
  · simp
  · intro i h1 h2
    have hi : m + i < r.length := by simp at h1; omega
    simp [List.getD, hi]

theorem anyUpperLess_eq_range (rows : List (List Nat)) (n k d : Nat) (h : ∀ row ∈ rows, row.length = n) :
    anyUpperLess k rows d = (List.range rows.length).any fun i =>
      (List.range' (k + i + 1) (n - (k + i + 1))).any fun j => decide ((rows.getD i []).getD j 0 < d) := by
  induction rows generalizing k with
  | nil => rfl
  | cons r rs ih =>
    have hr : r.length = n := h r (List.mem_cons_self ..)
    rw [anyUpperLess, ih (k + 1) (fun row hrow => h row (List.mem_cons_of_mem _ hrow)), List.length_cons, List.range_succ_eq_map,
      List.any_cons, List.any_map, drop_eq_map_range', List.any_map, hr]
    congr 1
    apply List.any_congr rfl
    intro i
    have : k + 1 + i + 1 = k + (i + 1) + 1 := by omega
    simp [this]

theorem anyUpperLt_eq {K : List (List Nat)} (h : Sq K) (d : Nat) : anyUpperLt K d = anyUpperLess 0 K d := by
  rw [anyUpperLess_eq_range K K.length 0 d h]
  unfold anyUpperLt
  rw [ncols_sq h]
  apply List.any_congr rfl
  intro i
  simp


/-- the row-by-row accumulation of the model's `colStats`, column by column -/
theorem colStats_fold (d n : Nat) (rows : List (List Nat)) (h : ∀ row ∈ rows, row.length = n) :
    ∀ acc : List (Nat × Nat), acc.length = n →
    rows.foldl (fun acc row => List.zipWith (fun (cs : Nat × Nat) x =>
        if x < d then (cs.1 + 1, cs.2) else (cs.1, cs.2 + x)) acc row) acc =
      (List.range n).map fun j => ((acc.getD j (0, 0)).1 + (column rows j).countP (fun x => decide (x < d)),
        (acc.getD j (0, 0)).2 + ((column rows j).filter (fun x => decide (d ≤ x))).sum) := by
  induction rows with
  | nil =>
    intro acc hacc
    apply List.ext_getElem
    · simp [hacc]
    · intro j h1 h2
      have hj : j < acc.length := by simpa using h1
      simp [column, List.getD, hj]
  | cons row rest ih =>
    intro acc hacc
    have hrow : row.length = n := h row (List.mem_cons_self ..)
    rw [List.foldl_cons, ih (fun r hr => h r (List.mem_cons_of_mem _ hr)) _ (by simp [hacc, hrow])]
    apply List.map_congr_left
    intro j hj
    have hj' : j < n := by simpa using hj
    have h1 : j < acc.length := by omega
    have h2 : j < row.length := by omega
    simp only [column, List.map_cons, List.getD, List.getElem?_zipWith, List.getElem?_eq_getElem h1,
      List.getElem?_eq_getElem h2, Option.getD_some, List.countP_cons, List.filter_cons]
    by_cases hx : row[j] < d
    · have : ¬ d ≤ row[j] := by omega
      simp [hx, this]; omega
    · have : d ≤ row[j] := by omega
      simp [hx, this]; omega

theorem colStats_eq {K : List (List Nat)} (h : Sq K) (d : Nat) :
    colStats K d = List.zipWith Prod.mk (colCountLt K d) (colSumGe K d) := by
  unfold colStats colCountLt colSumGe
  rw [colStats_fold d K.length K h _ (by simp), ncols_sq h]
  apply List.ext_getElem
  · simp
  · intro j h1 h2
    have hj : j < K.length := by simpa using h1
    simp [List.getD, hj]

/-- the sort keys as the source computes them (elementwise over the two column sums, the product `len(K) * int(diam_X)` exact) -/
theorem sortKeys_eq {K : List (List Nat)} (h : Sq K) (diam d : Nat) :
    List.zipWith (fun (x : Nat) (y : Nat) => -(x : Int) * ((K.length * diam : Nat) : Int) + (y : Int)) (colCountLt K d) (colSumGe K d) =
      sortKeys exactMul K diam d := by
  unfold sortKeys
  rw [colStats_eq h, List.map_zipWith]
  have : (fun (x y : Nat) => -(x : Int) * ((K.length * diam : Nat) : Int) + (y : Int)) =
      fun x y => (((x, y) : Nat × Nat).2 : Int) - (((x, y) : Nat × Nat).1 : Int) * exactMul K.length diam := by
    funext a b
    simp only [exactMul]
    ring
  rw [this]

theorem argminFrom_eq {α : Type} [LT α] [DecidableLT α] (xs : List α) (k : Nat) (best : α) (bi : Nat) : argminFrom xs k best bi = argminAux xs k best bi := by
  induction xs generalizing k best bi with
  | nil => rfl
  | cons x xs ih => simp only [argminFrom, argminAux, ih]

theorem npArgmin_eq {α : Type} [LT α] [DecidableLT α] {l : List α} (h : l ≠ []) : npArgmin l = .ok (argmin l) := by
  cases l with
  | nil => exact absurd rfl h
  | cons x xs => simp only [npArgmin, argmin, argminFrom_eq]


theorem two_le_of_anyUpperLess {K : List (List Nat)} {d : Nat} (h : Sq K) (hc : anyUpperLess 0 K d = true) : 2 ≤ K.length := by
  match K, h, hc with
  | [], _, hc => simp [anyUpperLess] at hc
  | [r], h, hc =>
    have : r.length = 1 := h r (List.mem_cons_self ..)
    simp [anyUpperLess, List.drop_of_length_le (Nat.le_of_eq this)] at hc
  | _ :: _ :: _, _, _ => simp

theorem sq_delRowCol {K : List (List Nat)} (h : Sq K) {r : Nat} (hr : r < K.length) : Sq (delRowCol K r) := by
  intro row hrow
  unfold delRowCol at hrow ⊢
  simp only [List.mem_map] at hrow
  obtain ⟨row', hmem, rfl⟩ := hrow
  have h1 : row'.length = K.length := h row' (List.mem_of_mem_eraseIdx hmem)
  simp [List.length_eraseIdx, h1, hr]

theorem length_delRowCol {K : List (List Nat)} {r : Nat} (hr : r < K.length) : (delRowCol K r).length + 1 = K.length := by
  simp [delRowCol, List.length_eraseIdx, hr]; omega

/-- one round of the `while` loop of `find_largest_size_bounded_curvature` on a square `K` whose loop test holds: `np.argmin`
    of the sort keys does not raise, the two `np.delete` are in range, and the new `K` is the model's `delRowCol`, square again,
    one row shorter -/
theorem curv_step {K : List (List Nat)} (hK : Sq K) (diam d : Nat) (hc : anyUpperLess 0 K d = true) :
    npArgmin (List.zipWith (fun (x : Nat) (y : Nat) => -(x : Int) * ((K.length * diam : Nat) : Int) + (y : Int)) (colCountLt K d) (colSumGe K d))
        = .ok (argmin (sortKeys exactMul K diam d)) ∧
      deleteRow K (argmin (sortKeys exactMul K diam d)) = .ok (K.eraseIdx (argmin (sortKeys exactMul K diam d))) ∧
      deleteCol (K.eraseIdx (argmin (sortKeys exactMul K diam d))) (argmin (sortKeys exactMul K diam d))
        = .ok (delRowCol K (argmin (sortKeys exactMul K diam d))) ∧
      Sq (delRowCol K (argmin (sortKeys exactMul K diam d))) ∧
      (delRowCol K (argmin (sortKeys exactMul K diam d))).length + 1 = K.length := by
  have h2 := two_le_of_anyUpperLess hK hc
  have hne : K ≠ [] := by intro e; subst e; simp at h2
  have hlt := argmin_sortKeys_lt exactMul diam d hne
  have hkeys : sortKeys exactMul K diam d ≠ [] := by
    rw [← sortKeys_eq hK]
    intro e
    have := congrArg List.length e
    simp only [colCountLt, colSumGe, ncols_sq hK, List.length_zipWith, List.length_map, List.length_range, List.length_nil,
      Nat.min_self] at this
    omega
  refine ⟨?_, ?_, ?_, sq_delRowCol hK hlt, length_delRowCol hlt⟩
  · rw [sortKeys_eq hK]; exact npArgmin_eq hkeys
  · simp [deleteRow, hlt]
  · generalize argmin (sortKeys exactMul K diam d) = r at hlt ⊢
    have hsq : ncols (K.eraseIdx r) = K.length := by
      match K, hK, h2 with
      | a :: b :: rest, hK, _ =>
        cases r with
        | zero => simpa [ncols] using hK b (by simp)
        | succ r => simpa [ncols] using hK a (by simp)
    simp [deleteCol, hsq, hlt, delRowCol]


/-- the curvature that the model's loop returns does not depend on the (ghost) list of original indices it carries -/
theorem curvLoop_fst_idx (km : Nat → Nat → Int) (diam d fuel : Nat) (K : List (List Nat)) (idx idx' : List Nat) :
    (curvLoop km diam d fuel K idx).1 = (curvLoop km diam d fuel K idx').1 := by
  induction fuel generalizing K idx idx' with
  | zero => rfl
  | succ fuel ih =>
    simp only [curvLoop]
    split
    · exact ih _ _ _
    · rfl

/-! ### `find_lb` -/

theorem foldl_max_init (l : List Nat) (a : Nat) : l.foldl max a = max a (l.foldl max 0) := by
  induction l generalizing a with
  | nil => simp
  | cons x xs ih => simp only [List.foldl_cons]; rw [ih (max a x), ih (max 0 x)]; omega

theorem foldl_max_flatten (D : List (List Nat)) (a : Nat) :
    D.flatten.foldl max a = (D.map fun r => r.foldl max 0).foldl max a := by
  induction D generalizing a with
  | nil => rfl
  | cons r D ih => simp only [List.flatten_cons, List.foldl_append, List.map_cons, List.foldl_cons, ih, ← foldl_max_init]

/-- `np.max` of a matrix with at least one entry is the model's `matMax` -/
theorem npMax_eq {D : List (List Nat)} (h : D.flatten ≠ []) : npMax D = .ok (matMax D) := by
  unfold npMax matMax
  rw [← foldl_max_flatten]
  cases hf : D.flatten with
  | nil => exact absurd hf h
  | cons x xs => simp

theorem flatten_ne_nil_of_sq {D : List (List Nat)} (h : Sq D) (hne : D ≠ []) : D.flatten ≠ [] := by
  cases D with
  | nil => exact absurd rfl hne
  | cons r rs =>
    have : r.length = rs.length + 1 := h r (List.mem_cons_self ..)
    cases r with
    | nil => simp at this
    | cons x xs => simp

theorem natAbs_sub_eq_absDiff (a b : Nat) : ((a : Int) - (b : Int)).natAbs = absDiff a b := by
  unfold absDiff; omega

theorem le_foldl_max {l : List Nat} {x a : Nat} (h : x ∈ l) : x ≤ l.foldl max a := by
  induction l generalizing a with
  | nil => simp at h
  | cons y ys ih =>
    simp only [List.foldl_cons]
    rcases List.mem_cons.1 h with rfl | h
    · rw [foldl_max_init]; omega
    · exact ih h

theorem le_matMax_of_mem {D : List (List Nat)} {row : List Nat} {x : Nat} (hr : row ∈ D) (hx : x ∈ row) : x ≤ matMax D := by
  unfold matMax
  exact le_trans (le_foldl_max (a := 0) hx) (le_foldl_max (List.mem_map_of_mem hr))

theorem entries_delRowCol {K : List (List Nat)} {m r : Nat} (h : ∀ row ∈ K, ∀ x ∈ row, x ≤ m) :
    ∀ row ∈ delRowCol K r, ∀ x ∈ row, x ≤ m := by
  intro row hrow x hx
  simp only [delRowCol, List.mem_map] at hrow
  obtain ⟨row', h1, rfl⟩ := hrow
  exact h row' (List.mem_of_mem_eraseIdx h1) x (List.mem_of_mem_eraseIdx hx)

/-- the entries of the curvature the model's loop returns are entries of the matrix it started from -/
theorem entries_curvLoop (km : Nat → Nat → Int) (diam d m : Nat) (fuel : Nat) (K : List (List Nat)) (idx : List Nat)
    (h : ∀ row ∈ K, ∀ x ∈ row, x ≤ m) : ∀ row ∈ (curvLoop km diam d fuel K idx).1, ∀ x ∈ row, x ≤ m := by
  induction fuel generalizing K idx with
  | zero => simp [curvLoop]
  | succ fuel ih =>
    simp only [curvLoop]
    split
    · exact ih _ _ (entries_delRowCol h)
    · exact h

/-! ### `construct_mapping` -/

theorem takeIdx_eq (l : List Nat) (ks : List Nat) (h : ∀ k ∈ ks, k < l.length) :
    takeIdx l ks = .ok (ks.map fun k => l.getD k 0) := by
  induction ks with
  | nil => rfl
  | cons k ks ih =>
    simp only [takeIdx, getItem_of_lt (h k (List.mem_cons_self ..)), ih (fun k' hk' => h k' (List.mem_cons_of_mem _ hk')),
      List.map_cons]

theorem takeCols_eq (D : List (List Nat)) (ks : List Nat) (h : ∀ r ∈ D, ∀ k ∈ ks, k < r.length) :
    takeCols D ks = .ok (D.map fun r => ks.map fun k => r.getD k 0) := by
  induction D with
  | nil => rfl
  | cons r rs ih =>
    simp only [takeCols, takeIdx_eq r ks (h r (List.mem_cons_self ..)), ih (fun r' hr' => h r' (List.mem_cons_of_mem _ hr')),
      List.map_cons]

theorem zipWith_map_absDiff (f g : Nat → Nat) (xs ys : List Nat) :
    List.zipWith (fun (p q : Nat) => ((p : Int) - (q : Int)).natAbs) (xs.map f) (ys.map g) =
      (xs.zip ys).map fun p => absDiff (f p.1) (g p.2) := by
  have e : (fun (p q : Nat) => ((p : Int) - (q : Int)).natAbs) = absDiff := by
    funext p q; exact natAbs_sub_eq_absDiff p q
  rw [e]
  induction xs generalizing ys with
  | nil => simp
  | cons x xs ih =>
    cases ys with
    | nil => simp
    | cons y ys => simp only [List.map_cons, List.zipWith_cons_cons, List.zip_cons_cons, ih]

/-- the vector `np.max(np.abs(DX[x, xs] - DY[:, ys]), axis=1)` with all indices in range is the list of the model's `bottleneck`s -/
theorem bottlenecksFrom_eq (DX DY : List (List Nat)) (x : Nat) (xs ys : List Nat) (hx : x < DX.length)
    (hxs : ∀ k ∈ xs, k < (DX.getD x []).length) (hys : ∀ r ∈ DY, ∀ k ∈ ys, k < r.length) (hl : xs.length = ys.length)
    (hne : xs ≠ []) :
    bottlenecksFrom DX DY x xs ys = .ok ((List.range DY.length).map (bottleneck DX DY x (xs.zip ys))) := by
  unfold bottlenecksFrom
  have hrow : getItem DX x = .ok (DX.getD x []) := by simp [getItem, List.getD, hx]
  simp only [hrow, takeIdx_eq _ _ hxs, takeCols_eq _ _ hys]
  have : ¬ (xs.length ≠ ys.length ∨ xs = []) := by simp [hl, hne]
  rw [if_neg this, List.map_map, ← map_range_getD DY]
  congr 1
  apply List.map_congr_left
  intro y _
  simp only [Function.comp, bottleneck, ent, zipWith_map_absDiff]

/-! ### the recorded draws of the random generator -/

/-- the hypotheses on the recorded draws of one direction: at least one permutation, every permutation non-empty with entries
    `< len(DX)` (contract of `np.random.permutation(len(DX))`), every first image `< len(DY)` (contract of `np.random.choice(len(DY))`),
    at least as many first images as permutations -/
def DrawsOk (DX DY : List (List Nat)) (perms : List (List Nat)) (y0s : List Nat) : Prop :=
  perms ≠ [] ∧ perms.length ≤ y0s.length ∧ (∀ p ∈ perms, p ≠ [] ∧ ∀ x ∈ p, x < DX.length) ∧ ∀ y ∈ y0s, y < DY.length

instance (DX DY : List (List Nat)) (perms : List (List Nat)) (y0s : List Nat) : Decidable (DrawsOk DX DY perms y0s) := by
  unfold DrawsOk; infer_instance

end PersimVerif.SrcBridge.MGH
