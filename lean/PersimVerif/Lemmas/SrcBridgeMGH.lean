import PersimVerif.Lemmas.SrcLibNp
import PersimVerif.Lemmas.MGHGreedy
/-
  Bridging lemmas between the mGH source translator's library (`Lemmas/SrcLibNp.lean`) and `Model/MGH.lean`, used by the
  generated obligations of `Generated/SrcMGH.lean` (C05).  Hand-written; about model and library definitions only (no
  generated definition is mentioned here).
-/
namespace PersimVerif.SrcBridge.MGH
open PersimVerif.SrcNp PersimVerif.MGH

theorem getElemOpt_eq_some_getD {l : List Nat} {k : Nat} (h : k < l.length) : l[k]? = some (l.getD k 0) := by
  simp [List.getD, h]

theorem getItem_of_lt {l : List Nat} {k : Nat} (h : k < l.length) : getItem l k = .ok (l.getD k 0) := by
  simp only [getItem, getElemOpt_eq_some_getD h]

theorem setItem_of_lt {l : List Nat} {k : Nat} (v : Nat) (h : k < l.length) : setItem l k v = .ok (l.set k v) := by
  simp only [setItem, h, if_true]

/-- the generator `next(k for k in range(lo, lo + n) if l[k] > 0)` with all of the range inside `l`: no `IndexError`, and the
    model's bounded scan -/
theorem nextWhere_pos_range' (l : List Nat) (n lo : Nat) (h : lo + n ≤ l.length) :
    nextWhere (fun k => (getItem l k).bind (fun t => .ok (decide (0 < t)))) (List.range' lo n) = .ok (firstPosFrom l n lo) := by
  induction n generalizing lo with
  | zero => rfl
  | succ n ih =>
    have hlo : lo < l.length := by omega
    simp only [List.range'_succ, nextWhere, firstPosFrom, getItem_of_lt hlo, Except.bind]
    by_cases hp : 0 < l.getD lo 0
    · simp only [hp, decide_true, if_true]
    · simp only [hp, decide_false, if_false]
      exact ih (lo + 1) (by omega)

theorem nextWhere_pos_pyRange (l : List Nat) (lo : Nat) (hi : Int) (h : hi.toNat ≤ l.length) :
    nextWhere (fun k => (getItem l k).bind (fun t => .ok (decide (0 < t)))) (pyRange lo hi) = .ok (firstPos l lo hi.toNat) := by
  unfold pyRange firstPos
  by_cases hlo : lo ≤ hi.toNat
  · exact nextWhere_pos_range' l _ lo (by omega)
  · have : hi.toNat - lo = 0 := by omega
    rw [this]; rfl

theorem nextIAndJ_none {w : Nat} {rv ru : List Nat} {minI minJ : Nat} {oj : Option Nat}
    (h : nextIAndJ w rv ru minI minJ = (none, oj)) : oj = some minJ := by
  unfold nextIAndJ at h
  split at h
  · simp only [Prod.mk.injEq, true_and] at h; exact h.symm
  · simp at h

/-! ### one round of the greedy: where the next indices lie (termination measure of the `while` loop) -/

theorem nextIAndJ_step {w : Nat} {rv ru : List Nat} {i j i' j' : Nat}
    (h : nextIAndJ w (rv.set i 0) ru i j = (some i', some j')) :
    i < i' ∧ i' < rv.length ∧ j ≤ j' ∧ j' < ru.length := by
  obtain ⟨hfp, hnj⟩ := nextIAndJ_some h
  obtain ⟨h1, h2, h3, _⟩ := firstPos_some hfp
  obtain ⟨hj1, _, hj3, _, _⟩ := nextJ_some hnj.symm
  have hne : i' ≠ i := by
    intro e; rw [e, getD_set_self_zero] at h3; omega
  have hjj : j ≤ j' := le_trans (le_max_right _ _) hj1
  simp only [List.length_set] at h2
  omega

theorem nextJ_step {w : Nat} {ru : List Nat} {i j j' : Nat} (h : nextJ w (ru.set j 0) i j = some j') :
    j < j' ∧ j' < ru.length := by
  obtain ⟨hj1, _, hj3, hj4, _⟩ := nextJ_some h
  have hne : j' ≠ j := by
    intro e; rw [e, getD_set_self_zero] at hj4; omega
  simp only [List.length_set] at hj3
  omega

end PersimVerif.SrcBridge.MGH
