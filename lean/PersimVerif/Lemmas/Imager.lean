import PersimVerif.Model.Imager
import Mathlib.Algebra.Order.Floor.Ring
import Mathlib.Algebra.Order.Field.Basic
import Mathlib.Tactic.Linarith
import Mathlib.Tactic.FieldSimp
import Mathlib.Tactic.Ring

/-!
# Helper lemmas for C12/C18: one axis of the imager geometry, the setters as equations

Everything is over an arbitrary linear ordered field with a floor function (`ℚ`, `ℝ`, …);
the model's `ceil` parameter is instantiated with `Int.ceil`.
-/
namespace PersimVerif.Imager
set_option linter.unusedSectionVars false

variable {K : Type} [Field K] [LinearOrder K] [IsStrictOrderedRing K] [FloorRing K]

/-- the model at the theorems' instantiation -/
abbrev cl : K → Int := Int.ceil

/-- the geometry invariant of C12 (the stated six clauses and the positivity of the pixel size,
    which the induction needs) -/
structure Inv (s : State K) : Prop where
  w_eq : s.w = (s.rx : K) * s.ps
  h_eq : s.h = (s.ry : K) * s.ps
  bw : s.b1 - s.b0 = s.w
  ph : s.p1 - s.p0 = s.h
  rx_pos : 1 ≤ s.rx
  ry_pos : 1 ≤ s.ry
  ps_pos : 0 < s.ps

/-! ### one axis: `n = ⌈extent/ps⌉`, `width = n·ps`, padding `width − extent` -/

theorem axis_count_pos {ps e : K} (hps : 0 < ps) (he : 0 < e) : 1 ≤ ⌈e / ps⌉ :=
  Int.one_le_ceil_iff.mpr (div_pos he hps)

/-- the padded width is at least the extent … -/
theorem axis_pad_nonneg {ps e : K} (hps : 0 < ps) : 0 ≤ (⌈e / ps⌉ : K) * ps - e := by
  have h := Int.le_ceil (e / ps)
  have := mul_le_mul_of_nonneg_right h hps.le
  rw [div_mul_cancel₀ _ hps.ne'] at this
  linarith

/-- … and exceeds it by less than one pixel -/
theorem axis_pad_lt {ps e : K} (hps : 0 < ps) : (⌈e / ps⌉ : K) * ps - e < ps := by
  have h := Int.ceil_lt_add_one (e / ps)
  have := mul_lt_mul_of_pos_right h hps
  rw [add_mul, div_mul_cancel₀ _ hps.ne', one_mul] at this
  linarith

/-! ### the mutators as equations -/

theorem createMesh_ok (s : State K) (hx : 0 ≤ s.rx + 1) (hy : 0 ≤ s.ry + 1) :
    createMesh s = .ok { s with b0 := s.b0 - (s.w - (s.b1 - s.b0)) / 2, b1 := s.b1 + (s.w - (s.b1 - s.b0)) / 2,
                                p0 := s.p0 - (s.h - (s.p1 - s.p0)) / 2, p1 := s.p1 + (s.h - (s.p1 - s.p0)) / 2 } := by
  have : ¬ (s.rx + 1 < 0 ∨ s.ry + 1 < 0) := by omega
  simp [createMesh, this]

/-- a state produced by `createMesh` has resolutions `≥ -1` (what `np.linspace` accepted) -/
theorem createMesh_counts {s s' : State K} (h : createMesh s = .ok s') :
    0 ≤ s'.rx + 1 ∧ 0 ≤ s'.ry + 1 ∧ s'.ps = s.ps := by
  unfold createMesh at h
  split at h
  · cases h
  · cases h
    refine ⟨?_, ?_, rfl⟩ <;> simp only <;> omega

/-- the state after `birth_range = (v0, v1)` -/
def afterBirth (s : State K) (v0 v1 : K) : State K :=
  let n : Int := ⌈(v1 - v0) / s.ps⌉
  let db := (n : K) * s.ps - (v1 - v0)
  let dp := s.h - (s.p1 - s.p0)
  { s with b0 := v0 - db / 2, b1 := v1 + db / 2, p0 := s.p0 - dp / 2, p1 := s.p1 + dp / 2,
           rx := n, w := (n : K) * s.ps }

/-- the state after `pers_range = (v0, v1)` -/
def afterPers (s : State K) (v0 v1 : K) : State K :=
  let n : Int := ⌈(v1 - v0) / s.ps⌉
  let dp := (n : K) * s.ps - (v1 - v0)
  let db := s.w - (s.b1 - s.b0)
  { s with b0 := s.b0 - db / 2, b1 := s.b1 + db / 2, p0 := v0 - dp / 2, p1 := v1 + dp / 2,
           ry := n, h := (n : K) * s.ps }

/-- the state after `pixel_size = v` -/
def afterPixel (s : State K) (v : K) : State K :=
  let nx : Int := ⌈(s.b1 - s.b0) / v⌉
  let ny : Int := ⌈(s.p1 - s.p0) / v⌉
  let db := (nx : K) * v - (s.b1 - s.b0)
  let dp := (ny : K) * v - (s.p1 - s.p0)
  { s with b0 := s.b0 - db / 2, b1 := s.b1 + db / 2, p0 := s.p0 - dp / 2, p1 := s.p1 + dp / 2,
           ps := v, rx := nx, ry := ny, w := (nx : K) * v, h := (ny : K) * v }

theorem setBirth_eq (s : State K) (v0 v1 : K) (hps : s.ps ≠ 0)
    (hx : 0 ≤ ⌈(v1 - v0) / s.ps⌉ + 1) (hy : 0 ≤ s.ry + 1) :
    setBirth cl s v0 v1 = .ok (afterBirth s v0 v1) := by
  simp only [setBirth, hps, if_false, nPixels, cl]
  refine (createMesh_ok _ ?_ ?_).trans rfl
  · exact hx
  · exact hy

theorem setPers_eq (s : State K) (v0 v1 : K) (hps : s.ps ≠ 0)
    (hx : 0 ≤ s.rx + 1) (hy : 0 ≤ ⌈(v1 - v0) / s.ps⌉ + 1) :
    setPers cl s v0 v1 = .ok (afterPers s v0 v1) := by
  simp only [setPers, hps, if_false, nPixels, cl]
  refine (createMesh_ok _ ?_ ?_).trans rfl
  · exact hx
  · exact hy

theorem setPixel_eq (s : State K) (v : K) (hv : v ≠ 0)
    (hx : 0 ≤ ⌈(s.b1 - s.b0) / v⌉ + 1) (hy : 0 ≤ ⌈(s.p1 - s.p0) / v⌉ + 1) :
    setPixel cl s v = .ok (afterPixel s v) := by
  simp only [setPixel, hv, if_false, nPixels, cl]
  refine (createMesh_ok _ ?_ ?_).trans rfl
  · exact hx
  · exact hy

/-! ### the invariant is established by the constructor and preserved by every mutator -/

theorem inv_afterBirth {s : State K} (hs : Inv s) {v0 v1 : K} (hv : v0 < v1) : Inv (afterBirth s v0 v1) := by
  obtain ⟨hw, hh, hbw, hph, hrx, hry, hps⟩ := hs
  refine ⟨rfl, hh, ?_, ?_, axis_count_pos hps (sub_pos.mpr hv), hry, hps⟩
  · simp only [afterBirth]; ring
  · simp only [afterBirth]; ring

theorem inv_afterPers {s : State K} (hs : Inv s) {v0 v1 : K} (hv : v0 < v1) : Inv (afterPers s v0 v1) := by
  obtain ⟨hw, hh, hbw, hph, hrx, hry, hps⟩ := hs
  refine ⟨hw, rfl, ?_, ?_, hrx, axis_count_pos hps (sub_pos.mpr hv), hps⟩
  · simp only [afterPers]; ring
  · simp only [afterPers]; ring

theorem inv_afterPixel {s : State K} (hs : Inv s) {v : K} (hv : 0 < v) : Inv (afterPixel s v) := by
  obtain ⟨hw, hh, hbw, hph, hrx, hry, hps⟩ := hs
  have hb : 0 < s.b1 - s.b0 := by
    rw [hbw, hw]; exact mul_pos (by exact_mod_cast (by omega : 0 < s.rx)) hps
  have hp : 0 < s.p1 - s.p0 := by
    rw [hph, hh]; exact mul_pos (by exact_mod_cast (by omega : 0 < s.ry)) hps
  refine ⟨rfl, rfl, ?_, ?_, axis_count_pos hv hb, axis_count_pos hv hp, hv⟩
  · simp only [afterPixel]; ring
  · simp only [afterPixel]; ring

theorem setBirth_inv {s : State K} (hs : Inv s) {v0 v1 : K} (hv : v0 < v1) :
    setBirth cl s v0 v1 = .ok (afterBirth s v0 v1) ∧ Inv (afterBirth s v0 v1) := by
  refine ⟨setBirth_eq s v0 v1 hs.ps_pos.ne' ?_ ?_, inv_afterBirth hs hv⟩
  · have := axis_count_pos hs.ps_pos (sub_pos.mpr hv); omega
  · have := hs.ry_pos; omega

theorem setPers_inv {s : State K} (hs : Inv s) {v0 v1 : K} (hv : v0 < v1) :
    setPers cl s v0 v1 = .ok (afterPers s v0 v1) ∧ Inv (afterPers s v0 v1) := by
  refine ⟨setPers_eq s v0 v1 hs.ps_pos.ne' ?_ ?_, inv_afterPers hs hv⟩
  · have := hs.rx_pos; omega
  · have := axis_count_pos hs.ps_pos (sub_pos.mpr hv); omega

theorem setPixel_inv {s : State K} (hs : Inv s) {v : K} (hv : 0 < v) :
    setPixel cl s v = .ok (afterPixel s v) ∧ Inv (afterPixel s v) := by
  have hi := inv_afterPixel hs hv
  refine ⟨setPixel_eq s v hv.ne' ?_ ?_, hi⟩
  · have := hi.rx_pos; simp only [afterPixel] at this; omega
  · have := hi.ry_pos; simp only [afterPixel] at this; omega

/-- the state the constructor builds -/
def afterCtor (b0 b1 p0 p1 ps : K) : State K :=
  let nx : Int := ⌈(b1 - b0) / ps⌉
  let ny : Int := ⌈(p1 - p0) / ps⌉
  let db := (nx : K) * ps - (b1 - b0)
  let dp := (ny : K) * ps - (p1 - p0)
  { b0 := b0 - db / 2, b1 := b1 + db / 2, p0 := p0 - dp / 2, p1 := p1 + dp / 2,
    ps := ps, rx := nx, ry := ny, w := (nx : K) * ps, h := (ny : K) * ps }

theorem ctor_inv {b0 b1 p0 p1 ps : K} (hb : b0 < b1) (hp : p0 < p1) (hps : 0 < ps) :
    ctor cl b0 b1 p0 p1 ps = .ok (afterCtor b0 b1 p0 p1 ps) ∧ Inv (afterCtor b0 b1 p0 p1 ps) := by
  have hx := axis_count_pos hps (sub_pos.mpr hb)
  have hy := axis_count_pos hps (sub_pos.mpr hp)
  constructor
  · simp only [ctor, hps.ne', if_false, nPixels, cl]
    refine (createMesh_ok _ ?_ ?_).trans rfl
    · show 0 ≤ ⌈(b1 - b0) / ps⌉ + 1; omega
    · show 0 ≤ ⌈(p1 - p0) / ps⌉ + 1; omega
  · refine ⟨rfl, rfl, ?_, ?_, hx, hy, hps⟩
    · simp only [afterCtor]; ring
    · simp only [afterCtor]; ring

/-! ### what each mutator covers (C12 `covers_request`) -/

/-- after `birth_range = (v0, v1)`: the new birth range contains `[v0, v1]`, the padding is split
    evenly, the excess is less than one pixel, and the persistence range is untouched -/
theorem afterBirth_covers {s : State K} (hs : Inv s) (v0 v1 : K) :
    let s' := afterBirth s v0 v1
    s'.b0 ≤ v0 ∧ v1 ≤ s'.b1 ∧ v0 - s'.b0 = s'.b1 - v1 ∧ (s'.b1 - s'.b0) - (v1 - v0) < s'.ps ∧
      s'.p0 = s.p0 ∧ s'.p1 = s.p1 := by
  have h0 := axis_pad_nonneg (e := v1 - v0) hs.ps_pos
  have h1 := axis_pad_lt (e := v1 - v0) hs.ps_pos
  have hph := hs.ph
  simp only [afterBirth]
  refine ⟨by linarith, by linarith, by ring, by linarith, ?_, ?_⟩
  · rw [hph]; ring
  · rw [hph]; ring

theorem afterPers_covers {s : State K} (hs : Inv s) (v0 v1 : K) :
    let s' := afterPers s v0 v1
    s'.p0 ≤ v0 ∧ v1 ≤ s'.p1 ∧ v0 - s'.p0 = s'.p1 - v1 ∧ (s'.p1 - s'.p0) - (v1 - v0) < s'.ps ∧
      s'.b0 = s.b0 ∧ s'.b1 = s.b1 := by
  have h0 := axis_pad_nonneg (e := v1 - v0) hs.ps_pos
  have h1 := axis_pad_lt (e := v1 - v0) hs.ps_pos
  have hbw := hs.bw
  simp only [afterPers]
  refine ⟨by linarith, by linarith, by ring, by linarith, ?_, ?_⟩
  · rw [hbw]; ring
  · rw [hbw]; ring

/-- after `pixel_size = v`: both new ranges contain the previous ones, padded evenly by less than
    one (new) pixel -/
theorem afterPixel_covers (s : State K) {v : K} (hv : 0 < v) :
    let s' := afterPixel s v
    (s'.b0 ≤ s.b0 ∧ s.b1 ≤ s'.b1 ∧ s.b0 - s'.b0 = s'.b1 - s.b1 ∧ (s'.b1 - s'.b0) - (s.b1 - s.b0) < v) ∧
    (s'.p0 ≤ s.p0 ∧ s.p1 ≤ s'.p1 ∧ s.p0 - s'.p0 = s'.p1 - s.p1 ∧ (s'.p1 - s'.p0) - (s.p1 - s.p0) < v) := by
  have hb0 := axis_pad_nonneg (e := s.b1 - s.b0) hv
  have hb1 := axis_pad_lt (e := s.b1 - s.b0) hv
  have hp0 := axis_pad_nonneg (e := s.p1 - s.p0) hv
  have hp1 := axis_pad_lt (e := s.p1 - s.p0) hv
  simp only [afterPixel]
  refine ⟨⟨by linarith, by linarith, by ring, by linarith⟩, ⟨by linarith, by linarith, by ring, by linarith⟩⟩

theorem afterCtor_covers (b0 b1 p0 p1 : K) {ps : K} (hps : 0 < ps) :
    let s' := afterCtor b0 b1 p0 p1 ps
    (s'.b0 ≤ b0 ∧ b1 ≤ s'.b1 ∧ b0 - s'.b0 = s'.b1 - b1 ∧ (s'.b1 - s'.b0) - (b1 - b0) < ps) ∧
    (s'.p0 ≤ p0 ∧ p1 ≤ s'.p1 ∧ p0 - s'.p0 = s'.p1 - p1 ∧ (s'.p1 - s'.p0) - (p1 - p0) < ps) := by
  have hb0 := axis_pad_nonneg (e := b1 - b0) hps
  have hb1 := axis_pad_lt (e := b1 - b0) hps
  have hp0 := axis_pad_nonneg (e := p1 - p0) hps
  have hp1 := axis_pad_lt (e := p1 - p0) hps
  simp only [afterCtor]
  refine ⟨⟨by linarith, by linarith, by ring, by linarith⟩, ⟨by linarith, by linarith, by ring, by linarith⟩⟩

end PersimVerif.Imager
