import PersimVerif.Lemmas.ApproxKth
import PersimVerif.Lemmas.ApproxRamps
import Mathlib.Algebra.Order.Group.MinMax

/-!
# From `W` to the values array; tents (helpers for C08)
-/
namespace PersimVerif.ApproxLemmas
open PersimVerif.PL PersimVerif.Approx List

set_option linter.unusedSectionVars false

variable {K : Type} [Field K] [LinearOrder K] [IsStrictOrderedRing K]

/-! ### tents -/

theorem tent_nonneg (b d t : K) : 0 ≤ tent b d t := le_max_left _ _

/-- moving both endpoints of a bar by at most `δ` moves its tent by at most `δ`, at every `t` -/
theorem tent_lipschitz' {b d b' d' δ : K} (hb : |b' - b| ≤ δ) (hd : |d' - d| ≤ δ) (t : K) :
    |tent b' d' t - tent b d t| ≤ δ := by
  unfold tent
  have h1 := abs_max_sub_max_le_max (0 : K) (min (t - b') (d' - t)) 0 (min (t - b) (d - t))
  have h2 := abs_min_sub_min_le_max (t - b') (d' - t) (t - b) (d - t)
  have e1 : t - b' - (t - b) = -(b' - b) := by ring
  have e2 : d' - t - (d - t) = d' - d := by ring
  rw [e1, abs_neg, e2] at h2
  have h3 : max |b' - b| |d' - d| ≤ δ := max_le hb hd
  have h4 : max |(0 : K) - 0| |min (t - b') (d' - t) - min (t - b) (d - t)| ≤ δ := by
    rw [sub_zero, abs_zero]
    exact max_le (le_trans (abs_nonneg _) hb) (le_trans h2 h3)
  exact le_trans h1 h4

/-! ### `K = max len`, the zero matrix and the fill loop -/

theorem le_foldl_max (l : List Nat) (a : Nat) : a ≤ l.foldl max a ∧ ∀ x ∈ l, x ≤ l.foldl max a := by
  induction l generalizing a with
  | nil => simp
  | cons b t ih =>
    obtain ⟨h1, h2⟩ := ih (max a b)
    refine ⟨le_trans (le_max_left a b) h1, ?_⟩
    intro x hx
    rcases List.mem_cons.mp hx with rfl | hx
    · exact le_trans (le_max_right a x) h1
    · exact h2 x hx

/-- entry `(k, i)` of the values array is the `k`-th largest entry of `W[i]`, `0` beyond the rows -/
theorem entry_valuesOfW (W : List (List K)) (k i : Nat) (w : List K) (hw : W[i]? = some w) :
    (valuesOfW W).entry k i = kth w k := by
  have hi : i < W.length := by
    by_contra h
    rw [List.getElem?_eq_none (by omega)] at hw
    exact absurd hw (by simp)
  have hlen : (sortDesc w).length ≤ ((W.map sortDesc).map List.length).foldl max 0 := by
    apply (le_foldl_max _ 0).2
    refine List.mem_map.mpr ⟨sortDesc w, List.mem_map.mpr ⟨w, ?_, rfl⟩, rfl⟩
    exact List.mem_of_getElem? hw
  unfold valuesOfW
  simp only
  split
  · rename_i hK
    rw [hK] at hlen
    have : sortDesc w = [] := List.eq_nil_of_length_eq_zero (by omega)
    cases k with
    | zero => simp [Values.entry, Values.rows, kth, this, List.getD_eq_getElem?_getD, hi]
    | succ k => simp [Values.entry, Values.rows, kth, this]
  · rename_i hK
    by_cases hk : k < ((W.map sortDesc).map List.length).foldl max 0
    · simp only [Values.entry, Values.rows]
      rw [List.getElem?_map, List.getElem?_range hk]
      simp only [Option.map_some]
      rw [List.getD_eq_getElem?_getD, List.getElem?_map, List.getElem?_map, hw]
      rfl
    · simp only [Values.entry, Values.rows]
      rw [List.getElem?_map, List.getElem?_eq_none (by simpa using hk)]
      simp only [Option.map_none]
      unfold kth
      rw [List.getD_eq_getElem?_getD, List.getElem?_eq_none (by omega)]
      rfl

/-- every row of the values array has one entry per node -/
theorem rows_valuesOfW_length (W : List (List K)) : ∀ row ∈ (valuesOfW W).rows, row.length = W.length := by
  unfold valuesOfW
  simp only
  split
  · simp [Values.rows]
  · intro row hrow
    simp only [Values.rows, List.mem_map] at hrow
    obtain ⟨k, _, rfl⟩ := hrow
    simp

/-- the values array always has at least one row (`max_depth ≥ 1`) -/
theorem rows_valuesOfW_ne_nil (W : List (List K)) : (valuesOfW W).rows ≠ [] := by
  unfold valuesOfW
  simp only
  split
  · simp [Values.rows]
  · rename_i hK
    simp only [Values.rows, ne_eq, List.map_eq_nil_iff, List.range_eq_nil]
    exact hK

theorem foldl_max_eq_zero (l : List Nat) (h : ∀ x ∈ l, x = 0) : l.foldl max 0 = 0 := by
  induction l with
  | nil => rfl
  | cons a t ih =>
    have ha : a = 0 := h a (by simp)
    subst ha
    simpa using ih (fun x hx => h x (by simp [hx]))

/-- no node received a value: ONE zero row -/
theorem valuesOfW_all_nil (W : List (List K)) (h : ∀ w ∈ W, w = []) :
    (valuesOfW W).rows = [List.replicate W.length 0] := by
  unfold valuesOfW
  simp only
  rw [if_pos]
  · rfl
  · apply foldl_max_eq_zero
    intro x hx
    simp only [List.map_map, List.mem_map, Function.comp_apply] at hx
    obtain ⟨w, hw, rfl⟩ := hx
    rw [h w hw]
    simp [sortDesc]

/-- some node received a value: the rows are the `K = max len` padded rows (no extra zero row) -/
theorem valuesOfW_rows_length (W : List (List K)) :
    (valuesOfW W).rows.length = max 1 ((W.map List.length).foldl max 0) := by
  have hlen : (W.map sortDesc).map List.length = W.map List.length := by
    rw [List.map_map]
    apply List.map_congr_left
    intro w _
    simp [sortDesc]
  unfold valuesOfW
  simp only
  rw [hlen]
  split
  · rename_i hK
    simp [Values.rows, hK]
  · rename_i hK
    simp only [Values.rows, List.length_map, List.length_range]
    omega

theorem flatMap_filter_singleton {β : Type} (l : List β) (f : β → K) (q : K → Bool) :
    (l.flatMap fun p => [f p].filter q) = (l.map f).filter q := by
  induction l with
  | nil => rfl
  | cons a t ih =>
    simp only [List.flatMap_cons, List.map_cons, ih]
    by_cases h : q (f a) = true
    · simp [h]
    · simp [h]

/-- row-major flattening: entry `k*n + i` of the flattened array is entry `(k, i)` -/
theorem flatten_getElem? (rows : List (List K)) (n : Nat) (h : ∀ row ∈ rows, row.length = n)
    (k i : Nat) (hi : i < n) : rows.flatten[k * n + i]? = (rows[k]?).bind (·[i]?) := by
  induction rows generalizing k with
  | nil => simp
  | cons r t ih =>
    have hr : r.length = n := h r (by simp)
    have ht : ∀ row ∈ t, row.length = n := fun row hrow => h row (by simp [hrow])
    cases k with
    | zero =>
      simp only [Nat.zero_mul, Nat.zero_add, List.flatten_cons, List.getElem?_cons_zero, Option.bind_some]
      rw [List.getElem?_append_left (by omega)]
    | succ k =>
      simp only [List.flatten_cons, List.getElem?_cons_succ]
      rw [List.getElem?_append_right (by rw [hr, Nat.succ_mul]; omega)]
      have : (k + 1) * n + i - r.length = k * n + i := by rw [hr, Nat.succ_mul]; omega
      rw [this]
      exact ih ht k

end PersimVerif.ApproxLemmas
