import PersimVerif.Model.Transformers
import PersimVerif.Lemmas.ImagerForget

/-!
# Helper lemmas for C18: the landscaper's user-fixed values along a history
-/
namespace PersimVerif.Transformers
open PersimVerif.Imager
set_option linter.unusedSectionVars false

variable {L β : Type} [LinearOrder L]

/-- the user's last assignment of `start` in a history (`init` = the constructor argument) —
    defined on the call list alone, without running the state machine -/
def userStart (init : Option L) : List (LCall L) → Option L
  | [] => init
  | .setStart v :: cs => userStart v cs
  | _ :: cs => userStart init cs

def userStop (init : Option L) : List (LCall L) → Option L
  | [] => init
  | .setStop v :: cs => userStop v cs
  | _ :: cs => userStop init cs

/-- the state knows exactly what the user fixed: the flag says whether, the field says what -/
structure LInv (us ut : Option L) (s : LState L) : Prop where
  sf : s.startFixed = us.isSome
  sv : us.isSome → s.start = us
  tf : s.stopFixed = ut.isSome
  tv : ut.isSome → s.stop = ut

theorem lctor_linv (k : Int) (st sp : Option L) (n : Int) (f : Bool) : LInv st sp (lctor k st sp n f) :=
  ⟨rfl, fun _ => rfl, rfl, fun _ => rfl⟩

/-- `fit` changes nothing but `start/stop`, and those only where the user fixed nothing -/
theorem lfit_fields {fin : L → Bool} {s s' : LState L} {X : List (Dgm L)} (h : lfit fin s X = .ok s') :
    s'.startFixed = s.startFixed ∧ s'.stopFixed = s.stopFixed ∧ s'.numSteps = s.numSteps ∧
    s'.flatten = s.flatten ∧ s'.homDeg = s.homDeg ∧
    (s.startFixed = true → s'.start = s.start) ∧ (s.stopFixed = true → s'.stop = s.stop) := by
  unfold lfit at h
  split at h
  · cases h
  · rename_i d _
    split at h
    · cases h
    · rename_i st hst
      split at h
      · cases h
      · rename_i sp hsp
        cases h
        refine ⟨rfl, rfl, rfl, rfl, rfl, ?_, ?_⟩
        · intro hf; simp only [learn, hf, if_true] at hst; cases hst; rfl
        · intro hf; simp only [learn, hf, if_true] at hsp; cases hsp; rfl

theorem lfit_linv {fin : L → Bool} {us ut : Option L} {s s' : LState L} {X : List (Dgm L)} (hs : LInv us ut s)
    (h : lfit fin s X = .ok s') : LInv us ut s' := by
  obtain ⟨a, b, _, _, _, c, d⟩ := lfit_fields h
  refine ⟨a.trans hs.sf, fun hu => ?_, b.trans hs.tf, fun hu => ?_⟩
  · rw [c (by rw [hs.sf]; exact hu)]; exact hs.sv hu
  · rw [d (by rw [hs.tf]; exact hu)]; exact hs.tv hu

/-- what `get_params` reports is what the user fixed -/
theorem getStart_eq {us ut : Option L} {s : LState L} (hs : LInv us ut s) : getStart s = us := by
  unfold getStart
  cases us with
  | none => have := hs.sf; simp_all
  | some v => have h1 := hs.sf; have h2 := hs.sv rfl; simp_all

theorem getStop_eq {us ut : Option L} {s : LState L} (hs : LInv us ut s) : getStop s = ut := by
  unfold getStop
  cases ut with
  | none => have := hs.tf; simp_all
  | some v => have h1 := hs.tf; have h2 := hs.tv rfl; simp_all

/-- **a clone is the unfitted object with the user's parameters** -/
theorem lclone_eq {us ut : Option L} {s : LState L} (hs : LInv us ut s) :
    lclone s = lctor s.homDeg us ut s.numSteps s.flatten := by
  unfold lclone; rw [getStart_eq hs, getStop_eq hs]

theorem lclone_linv {us ut : Option L} {s : LState L} (hs : LInv us ut s) : LInv us ut (lclone s) := by
  rw [lclone_eq hs]; exact lctor_linv _ _ _ _ _

theorem lsetParamsFromGet_linv {us ut : Option L} {s : LState L} (hs : LInv us ut s) :
    LInv us ut (lsetParamsFromGet s) := by
  unfold lsetParamsFromGet; rw [getStart_eq hs, getStop_eq hs]
  exact ⟨rfl, fun _ => rfl, rfl, fun _ => rfl⟩

/-- the invariant along a whole history (calls that raise leave the object unchanged) -/
theorem lrun_linv (fin : L → Bool) (approx : List (Dgm L) → Option L → Option L → Int → Int → β) (flat : β → β)
    (cs : List (LCall L)) (us ut : Option L) (s : LState L) (hs : LInv us ut s) :
    LInv (userStart us cs) (userStop ut cs) (lrun fin approx flat s cs) := by
  induction cs generalizing us ut s with
  | nil => exact hs
  | cons c cs ih =>
    cases c with
    | setStart v =>
      simp only [lrun, lcall, userStart, userStop]
      exact ih _ _ _ ⟨rfl, fun _ => rfl, hs.tf, hs.tv⟩
    | setStop v =>
      simp only [lrun, lcall, userStart, userStop]
      exact ih _ _ _ ⟨hs.sf, hs.sv, rfl, fun _ => rfl⟩
    | setNumSteps n =>
      simp only [lrun, lcall, userStart, userStop]
      exact ih _ _ _ ⟨hs.sf, hs.sv, hs.tf, hs.tv⟩
    | setFlatten b =>
      simp only [lrun, lcall, userStart, userStop]
      exact ih _ _ _ ⟨hs.sf, hs.sv, hs.tf, hs.tv⟩
    | setHomDeg k =>
      simp only [lrun, lcall, userStart, userStop]
      exact ih _ _ _ ⟨hs.sf, hs.sv, hs.tf, hs.tv⟩
    | fit X =>
      simp only [lrun, lcall, userStart, userStop]
      cases hf : lfit fin s X with
      | error e => exact ih _ _ _ hs
      | ok s' => exact ih _ _ _ (lfit_linv hs hf)
    | transform X =>
      simp only [lrun, lcall, userStart, userStop]
      exact ih _ _ _ hs
    | fitTransform X =>
      simp only [lrun, lcall, lfitTransform, userStart, userStop]
      cases hf : lfit fin s X with
      | error e => exact ih _ _ _ hs
      | ok s' => exact ih _ _ _ (lfit_linv hs hf)
    | clone =>
      simp only [lrun, lcall, userStart, userStop]
      exact ih _ _ _ (lclone_linv hs)
    | setParamsFromGet =>
      simp only [lrun, lcall, userStart, userStop]
      exact ih _ _ _ (lsetParamsFromGet_linv hs)

/-! ### `min(..., key=itemgetter(0))[0]` is the minimum birth, `max(..., key=itemgetter(1))[1]` the maximum death -/

theorem minBirth_spec {d : Dgm L} (hd : d ≠ []) :
    ∃ m, minBirth d = some m ∧ (∃ p ∈ d, p.1 = m) ∧ ∀ p ∈ d, m ≤ p.1 := by
  cases d with
  | nil => exact absurd rfl hd
  | cons p t =>
    refine ⟨_, rfl, ?_⟩
    suffices H : ∀ (t : Dgm L) (a : L),
        let r := t.foldl (fun a q => if q.1 < a then q.1 else a) a
        (r = a ∨ ∃ q ∈ t, q.1 = r) ∧ r ≤ a ∧ ∀ q ∈ t, r ≤ q.1 by
      obtain ⟨h1, h2, h3⟩ := H t p.1
      refine ⟨?_, ?_⟩
      · rcases h1 with h1 | ⟨q, hq, hq'⟩
        · exact ⟨p, List.mem_cons_self, h1.symm⟩
        · exact ⟨q, List.mem_cons_of_mem _ hq, hq'⟩
      · intro q hq
        rcases List.mem_cons.mp hq with rfl | hq
        · exact h2
        · exact h3 q hq
    intro t
    induction t with
    | nil => intro a; simp
    | cons x t ih =>
      intro a
      simp only [List.foldl_cons]
      obtain ⟨h1, h2, h3⟩ := ih (if x.1 < a then x.1 else a)
      split_ifs at h1 h2 h3 ⊢ with hx
      · refine ⟨?_, h2.trans hx.le, ?_⟩
        · rcases h1 with h1 | ⟨q, hq, hq'⟩
          · exact Or.inr ⟨x, List.mem_cons_self, h1.symm⟩
          · exact Or.inr ⟨q, List.mem_cons_of_mem _ hq, hq'⟩
        · intro q hq
          rcases List.mem_cons.mp hq with rfl | hq
          · exact h2
          · exact h3 q hq
      · refine ⟨?_, h2, ?_⟩
        · rcases h1 with h1 | ⟨q, hq, hq'⟩
          · exact Or.inl h1
          · exact Or.inr ⟨q, List.mem_cons_of_mem _ hq, hq'⟩
        · intro q hq
          rcases List.mem_cons.mp hq with rfl | hq
          · exact h2.trans (not_lt.mp hx)
          · exact h3 q hq

theorem maxDeath_spec {d : Dgm L} (hd : d ≠ []) :
    ∃ m, maxDeath d = some m ∧ (∃ p ∈ d, p.2 = m) ∧ ∀ p ∈ d, p.2 ≤ m := by
  cases d with
  | nil => exact absurd rfl hd
  | cons p t =>
    refine ⟨_, rfl, ?_⟩
    suffices H : ∀ (t : Dgm L) (a : L),
        let r := t.foldl (fun a q => if a < q.2 then q.2 else a) a
        (r = a ∨ ∃ q ∈ t, q.2 = r) ∧ a ≤ r ∧ ∀ q ∈ t, q.2 ≤ r by
      obtain ⟨h1, h2, h3⟩ := H t p.2
      refine ⟨?_, ?_⟩
      · rcases h1 with h1 | ⟨q, hq, hq'⟩
        · exact ⟨p, List.mem_cons_self, h1.symm⟩
        · exact ⟨q, List.mem_cons_of_mem _ hq, hq'⟩
      · intro q hq
        rcases List.mem_cons.mp hq with rfl | hq
        · exact h2
        · exact h3 q hq
    intro t
    induction t with
    | nil => intro a; simp
    | cons x t ih =>
      intro a
      simp only [List.foldl_cons]
      obtain ⟨h1, h2, h3⟩ := ih (if a < x.2 then x.2 else a)
      split_ifs at h1 h2 h3 ⊢ with hx
      · refine ⟨?_, hx.le.trans h2, ?_⟩
        · rcases h1 with h1 | ⟨q, hq, hq'⟩
          · exact Or.inr ⟨x, List.mem_cons_self, h1.symm⟩
          · exact Or.inr ⟨q, List.mem_cons_of_mem _ hq, hq'⟩
        · intro q hq
          rcases List.mem_cons.mp hq with rfl | hq
          · exact h2
          · exact h3 q hq
      · refine ⟨?_, h2, ?_⟩
        · rcases h1 with h1 | ⟨q, hq, hq'⟩
          · exact Or.inl h1
          · exact Or.inr ⟨q, List.mem_cons_of_mem _ hq, hq'⟩
        · intro q hq
          rcases List.mem_cons.mp hq with rfl | hq
          · exact (not_lt.mp hx).trans h2
          · exact h3 q hq

end PersimVerif.Transformers
