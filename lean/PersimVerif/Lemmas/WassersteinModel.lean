import PersimVerif.Model.Wasserstein
import PersimVerif.Lemmas.WassersteinAug
import PersimVerif.Lemmas.WassersteinEmpty
import PersimVerif.Lemmas.WassersteinCost
import Mathlib.Logic.Equiv.Fin.Basic
import Mathlib.Algebra.BigOperators.Fin
import Mathlib.Data.List.OfFn

/-!
# From the executable list model of `wasserstein` to the abstract augmented matrix

* `toTop` reads the model's `Option K` entries (`none` = `np.inf`) as `WithTop K`;
* `optSum` is the sum in `WithTop K`;
* `augEntry` at the indices `rowE x`, `colE y` is `augD … x y` (bridge `finSumFinEquiv`);
* `LsaContract` — the contract of the parameter `lsa` (`scipy.optimize.linear_sum_assignment`);
* `model_value` — for every `lsa` meeting the contract the model returns `some w` with `w` the
  min-sum cost of the *prepared* diagrams (placeholders included).
-/
namespace PersimVerif.WsLemmas
open PersimVerif.Wasserstein PersimVerif.Spec PersimVerif.Aug

section general
variable {K : Type}

/-- an entry of the model's matrix (`none` = `np.inf`) as an element of `WithTop K` -/
def toTop (e : Option K) : WithTop K := e

@[simp] theorem toTop_some (x : K) : toTop (some x) = (x : WithTop K) := rfl
@[simp] theorem toTop_none : toTop (none : Option K) = ⊤ := rfl

theorem toTop_eq_coe_iff (e : Option K) (w : K) : toTop e = (w : WithTop K) ↔ e = some w := Iff.rfl

/-- the contract of `scipy.optimize.linear_sum_assignment` on a square matrix: whenever an
    assignment of finite cost exists, the result is `zip(arange n, σ)` for a permutation `σ` whose
    cost is minimal among all permutations -/
def LsaContract [AddCommMonoid K] [LinearOrder K] (lsa : Mat K → List (Nat × Nat)) : Prop :=
  ∀ (n : Nat) (D : Fin n → Fin n → Option K),
    (∃ σ : Equiv.Perm (Fin n), ∀ i, D i (σ i) ≠ none) →
    ∃ σ : Equiv.Perm (Fin n),
      lsa (List.ofFn fun i => List.ofFn fun j => D i j) = List.ofFn (fun i => (i.val, (σ i).val)) ∧
      ∀ τ : Equiv.Perm (Fin n), ∑ i, toTop (D i (σ i)) ≤ ∑ i, toTop (D i (τ i))

theorem lookup_ofFn {n : Nat} (D : Fin n → Fin n → Option K) (i j : Fin n) :
    lookup (List.ofFn fun i => List.ofFn fun j => D i j) i.val j.val = some (D i j) := by
  simp [lookup]

theorem mapM_eq_some_map {α β : Type} (f : α → Option β) (g : α → β) :
    ∀ l : List α, (∀ x ∈ l, f x = some (g x)) → l.mapM f = some (l.map g)
  | [], _ => rfl
  | a :: l, h => by
    have h1 := h a (by simp)
    have h2 := mapM_eq_some_map f g l (fun x hx => h x (by simp [hx]))
    simp [List.mapM_cons, h1, h2]

/-- the selected entries `D[matchi, matchj]` for an assignment `zip(arange n, σ)` -/
theorem selected_ofFn {n : Nat} (D : Fin n → Fin n → Option K) (σ : Fin n → Fin n) :
    (List.ofFn fun i : Fin n => (i.val, (σ i).val)).mapM
        (fun p => lookup (List.ofFn fun i => List.ofFn fun j => D i j) p.1 p.2)
      = some (List.ofFn fun i => D i (σ i)) := by
  rw [mapM_eq_some_map _ (fun p => ((lookup (List.ofFn fun i => List.ofFn fun j => D i j) p.1 p.2).getD none))]
  · congr 1
    rw [List.map_ofFn]
    congr 1
    funext i
    simp [lookup_ofFn]
  · intro p hp
    obtain ⟨i, rfl⟩ := (List.mem_ofFn' _ _).mp hp
    simp [lookup_ofFn]

section sum
variable [AddCommMonoid K]

theorem toTop_optAdd (x y : Option K) : toTop (optAdd x y) = toTop x + toTop y := by
  cases x <;> cases y <;> simp [optAdd, toTop]
  all_goals rfl

theorem toTop_foldl_optAdd (l : List (Option K)) (acc : Option K) :
    toTop (l.foldl optAdd acc) = toTop acc + (l.map toTop).sum := by
  induction l generalizing acc with
  | nil => simp
  | cons a l ih => simp [List.foldl_cons, ih, toTop_optAdd, add_assoc]

/-- `np.sum` of the selected entries is the sum in `WithTop K` -/
theorem toTop_optSum (l : List (Option K)) : toTop (optSum l) = (l.map toTop).sum := by
  simp [optSum, toTop_foldl_optAdd]

theorem toTop_optSum_ofFn {n : Nat} (f : Fin n → Option K) :
    toTop (optSum (List.ofFn f)) = ∑ i, toTop (f i) := by
  rw [toTop_optSum, List.map_ofFn, List.sum_ofFn]
  rfl

end sum
end general

section filtering
variable {α : Type}

theorem finitePart_cons_none (b : α) (d : Dgm α) : finitePart ((b, none) :: d) = finitePart d := rfl

theorem finitePart_cons_some (b e : α) (d : Dgm α) :
    finitePart ((b, some e) :: d) = (b, e) :: finitePart d := rfl

theorem finitePart_lift (s : List (α × α)) : finitePart (lift s) = s := by
  induction s with
  | nil => rfl
  | cons p s ih =>
    show finitePart ((p.1, some p.2) :: lift s) = p :: s
    rw [finitePart_cons_some, ih]

theorem warned_lift (s : List (α × α)) : warned (lift s) = false := by
  rw [warned, finitePart_lift]; simp [lift]

theorem length_finitePart_le (d : Dgm α) : (finitePart d).length ≤ d.length :=
  List.length_filterMap_le _ _

/-- the warning is emitted iff some point has a non-finite death -/
theorem warned_iff (d : Dgm α) : warned d = true ↔ ∃ p ∈ d, p.2 = none := by
  simp only [warned, decide_eq_true_eq]
  induction d with
  | nil => simp [finitePart]
  | cons p d ih =>
    have hle := length_finitePart_le d
    rcases p with ⟨b, _ | e⟩
    · rw [finitePart_cons_none]
      constructor
      · intro _; exact ⟨(b, none), by simp, rfl⟩
      · intro _; simp only [List.length_cons]; omega
    · rw [finitePart_cons_some]
      simp only [List.length_cons, Nat.add_lt_add_iff_right]
      rw [ih]
      constructor
      · rintro ⟨q, hq, hn⟩; exact ⟨q, by simp [hq], hn⟩
      · rintro ⟨q, hq, hn⟩
        rcases List.mem_cons.mp hq with rfl | hq
        · cases hn
        · exact ⟨q, hq, hn⟩

end filtering

section indices
variable {K : Type} (S T : List (K × K))

/-- rows of the augmented matrix: `S` first, then the diagonal slots of `T` -/
def rowE : Fin S.length ⊕ Fin T.length ≃ Fin (S.length + T.length) := finSumFinEquiv

/-- columns: `T` first, then the diagonal slots of `S` -/
def colE : Fin T.length ⊕ Fin S.length ≃ Fin (S.length + T.length) :=
  finSumFinEquiv.trans (finCongr (Nat.add_comm _ _))

@[simp] theorem rowE_inl (i : Fin S.length) : (rowE S T (.inl i)).val = i.val := rfl
@[simp] theorem rowE_inr (j : Fin T.length) : (rowE S T (.inr j)).val = S.length + j.val := rfl
@[simp] theorem colE_inl (j : Fin T.length) : (colE S T (.inl j)).val = j.val := rfl
@[simp] theorem colE_inr (i : Fin S.length) : (colE S T (.inr i)).val = T.length + i.val := rfl

/-- a permutation of `Fin (M+N)` as a perfect assignment rows → columns -/
def equivOf (τ : Equiv.Perm (Fin (S.length + T.length))) :
    Fin S.length ⊕ Fin T.length ≃ Fin T.length ⊕ Fin S.length :=
  (rowE S T).trans (τ.trans (colE S T).symm)

/-- … and back -/
def permOf (σ : Fin S.length ⊕ Fin T.length ≃ Fin T.length ⊕ Fin S.length) :
    Equiv.Perm (Fin (S.length + T.length)) :=
  (rowE S T).symm.trans (σ.trans (colE S T))

theorem equivOf_permOf (σ : Fin S.length ⊕ Fin T.length ≃ Fin T.length ⊕ Fin S.length) :
    equivOf S T (permOf S T σ) = σ := by
  ext x; simp [equivOf, permOf]

end indices

section bridge
variable {K : Type} [Field K] [LinearOrder K]
variable (sqrt : K → K) (S T : List (K × K))

omit [LinearOrder K] in
theorem dist_eq_euclid (p q : K × K) : dist sqrt p q = euclid sqrt p q := by
  simp [dist, euclid, pow_two]

omit [LinearOrder K] in
/-- the model's diagonal cost `(d - b) / sqrt 2` is the specification's, as written -/
theorem diagc_eq_diagL2 (p : K × K) : diagc sqrt p = diagL2 sqrt p := rfl

/-- the function form of the model's matrix -/
def Dfn (i j : Fin (S.length + T.length)) : Option K := augEntry sqrt S T i.val j.val

omit [LinearOrder K] in
theorem augMatrix_eq : augMatrix sqrt S T = List.ofFn fun i => List.ofFn fun j => Dfn sqrt S T i j := rfl

variable {sqrt}

/-- **the model's matrix is the abstract augmented matrix** of the Euclidean / diagonal costs -/
theorem Dfn_eq_augD (_hs : SqrtSpec sqrt)
    (x : Fin S.length ⊕ Fin T.length) (y : Fin T.length ⊕ Fin S.length) :
    toTop (Dfn sqrt S T (rowE S T x) (colE S T y))
      = augD (pairCost sqrt S T) (diagCost sqrt S) (diagCost sqrt T) x y := by
  have hrot : ∀ p : K × K, diagc sqrt p = diagL2 sqrt p := fun _ => rfl
  rcases x with i | j <;> rcases y with j' | i'
  · have hi := i.isLt
    have hj := j'.isLt
    simp [Dfn, augEntry, augD, hi, hj, dist_eq_euclid, pairCost]
  · have hi := i.isLt
    by_cases e : i = i'
    · subst e
      simp [Dfn, augEntry, augD, hi, hrot, diagCost]
    · have : ¬ (i'.val = i.val) := fun h => e (Fin.ext h.symm)
      simp [Dfn, augEntry, augD, hi, e, this]
  · have hj := j'.isLt
    by_cases e : j = j'
    · subst e
      simp [Dfn, augEntry, augD, hj, hrot, diagCost]
    · have : ¬ (j.val = j'.val) := fun h => e (Fin.ext h)
      simp [Dfn, augEntry, augD, hj, e, this]
  · simp [Dfn, augEntry, augD]

theorem sum_Dfn_perm (hs : SqrtSpec sqrt) (τ : Equiv.Perm (Fin (S.length + T.length))) :
    ∑ i, toTop (Dfn sqrt S T i (τ i))
      = ∑ x, augD (pairCost sqrt S T) (diagCost sqrt S) (diagCost sqrt T) x (equivOf S T τ x) := by
  rw [← Equiv.sum_comp (rowE S T)]
  refine Finset.sum_congr rfl fun x _ => ?_
  rw [← Dfn_eq_augD S T hs]
  simp [equivOf]

/-- **the model's value**: for every `lsa` meeting its contract the routine, run on the prepared
    (filtered, placeholder-substituted) diagrams `S`, `T`, selects entries whose sum is `some w` with
    `w` the min-sum matching cost of `S` and `T` -/
theorem model_value (hs : SqrtSpec sqrt) (lsa : Mat K → List (Nat × Nat))
    (hl : LsaContract lsa) :
    ∃ sel w, (lsa (augMatrix sqrt S T)).mapM
          (fun p => lookup (augMatrix sqrt S T) p.1 p.2) = some sel ∧
      optSum sel = some w ∧
      IsMinSum (pairCost sqrt S T) (diagCost sqrt S) (diagCost sqrt T) w := by
  classical
  set cc := pairCost sqrt S T
  set u := diagCost sqrt S
  set v := diagCost sqrt T
  -- a finite assignment exists: everything to the diagonal
  have hcost0 := sum_aug_toEquiv cc u v (PM.empty : PM (Fin S.length) (Fin T.length))
  have hsum0 := sum_Dfn_perm S T hs (permOf S T (toEquiv PM.empty))
  rw [equivOf_permOf, hcost0] at hsum0
  have hfeas : ∃ σ : Equiv.Perm (Fin (S.length + T.length)), ∀ i, Dfn sqrt S T i (σ i) ≠ none := by
    refine ⟨permOf S T (toEquiv PM.empty), fun i hi => ?_⟩
    have : ∑ i, toTop (Dfn sqrt S T i (permOf S T (toEquiv PM.empty) i)) = ⊤ :=
      WithTop.sum_eq_top.mpr ⟨i, Finset.mem_univ _, by rw [hi]; rfl⟩
    rw [hsum0] at this
    exact WithTop.coe_ne_top this
  obtain ⟨σ, hσ, hmin⟩ := hl _ (Dfn sqrt S T) hfeas
  -- the optimum is finite
  have hle0 := hmin (permOf S T (toEquiv PM.empty))
  rw [hsum0] at hle0
  obtain ⟨w, hw⟩ := WithTop.ne_top_iff_exists.mp (ne_top_of_le_ne_top WithTop.coe_ne_top hle0)
  refine ⟨List.ofFn fun i => Dfn sqrt S T i (σ i), w, ?_, ?_, ?_⟩
  · rw [augMatrix_eq, hσ]; exact selected_ofFn _ _
  · rw [← toTop_eq_coe_iff, toTop_optSum_ofFn, hw]
  · rw [isMinSum_iff_aug]
    refine ⟨⟨equivOf S T σ, ?_⟩, fun σ' => ?_⟩
    · rw [← sum_Dfn_perm S T hs, hw]
    · have := hmin (permOf S T σ')
      rw [← hw, sum_Dfn_perm S T hs (permOf S T σ'), equivOf_permOf] at this
      exact this

end bridge
end PersimVerif.WsLemmas
