import PersimVerif.Model.Heat
import PersimVerif.Lemmas.Sums
import PersimVerif.Lemmas.GaussPSD
import Mathlib.Algebra.BigOperators.Fin
import Mathlib.Algebra.BigOperators.Ring.List
import Mathlib.Algebra.QuadraticDiscriminant
import Mathlib.Analysis.Real.Sqrt
import Mathlib.Tactic.Ring
import Mathlib.Tactic.Linarith

/-!
# The heat kernel as a positive semi-definite quadratic form on signed point lists (helper for C14)

A *signed list* is a list of pairs (coefficient, point).  `Q σ S T = Σ_{(a,x)∈S} Σ_{(b,y)∈T} a b e^{-|x-y|²/8σ}`
is a symmetric bilinear form (w.r.t. `++` and scaling of coefficients) that is positive semi-definite
(`Q_self_nonneg`, from the positive semi-definiteness of the Gaussian kernel), hence obeys
Cauchy–Schwarz and Minkowski.  A diagram `F` is represented by `sg F = Σ_p (δ_p − δ_p̄)` and
`Q (sg F) (sg G) = 2 · kSum F G` (the accumulator of `evalHeatKernel`).
-/
namespace PersimVerif.Lemmas.HeatForm
open PersimVerif.Heat PersimVerif.Lemmas

abbrev SList := List (ℝ × (ℝ × ℝ))

/-- the Gaussian `e^{-|x-y|²/(8σ)}` -/
noncomputable def E (σ : ℝ) (x y : ℝ × ℝ) : ℝ := Real.exp (-(sqDist x y) / (8 * σ))

theorem E_symm (σ : ℝ) (x y : ℝ × ℝ) : E σ x y = E σ y x := by
  unfold E sqDist; congr 2; ring

theorem E_mirror_mirror (σ : ℝ) (x y : ℝ × ℝ) : E σ (mirror x) (mirror y) = E σ x y := by
  unfold E sqDist mirror; congr 2; ring

theorem E_mirror_left (σ : ℝ) (x y : ℝ × ℝ) : E σ (mirror x) y = E σ x (mirror y) := by
  unfold E sqDist mirror; congr 2; ring

theorem kTerm_eq (σ : ℝ) (p q : ℝ × ℝ) : kTerm Real.exp σ p q = E σ p q - E σ p (mirror q) := rfl

/-- the bilinear form -/
noncomputable def Q (σ : ℝ) (S T : SList) : ℝ :=
  (S.map fun a => (T.map fun b => a.1 * b.1 * E σ a.2 b.2).sum).sum

theorem Q_nil_left (σ : ℝ) (T : SList) : Q σ [] T = 0 := by simp [Q]

theorem Q_append_left (σ : ℝ) (S1 S2 T : SList) : Q σ (S1 ++ S2) T = Q σ S1 T + Q σ S2 T := by
  simp [Q]

theorem Q_symm (σ : ℝ) (S T : SList) : Q σ S T = Q σ T S := by
  unfold Q
  rw [sum_map_sum_comm]
  refine sum_map_congr fun b _ => ?_
  refine sum_map_congr fun a _ => ?_
  rw [E_symm]; ring

theorem Q_append_right (σ : ℝ) (S T1 T2 : SList) : Q σ S (T1 ++ T2) = Q σ S T1 + Q σ S T2 := by
  rw [Q_symm, Q_append_left, Q_symm σ T1, Q_symm σ T2]

/-- scale all coefficients -/
def smul (t : ℝ) (S : SList) : SList := S.map fun a => (t * a.1, a.2)

theorem Q_smul_left (σ t : ℝ) (S T : SList) : Q σ (smul t S) T = t * Q σ S T := by
  unfold Q smul
  rw [List.map_map, ← List.sum_map_mul_left]
  refine sum_map_congr fun a _ => ?_
  simp only [Function.comp_apply]
  rw [← List.sum_map_mul_left]
  refine sum_map_congr fun b _ => ?_
  ring

theorem Q_smul_right (σ t : ℝ) (S T : SList) : Q σ S (smul t T) = t * Q σ S T := by
  rw [Q_symm, Q_smul_left, Q_symm]

/-- **positive semi-definiteness** -/
theorem Q_self_nonneg (σ : ℝ) (hσ : 0 < σ) (S : SList) : 0 ≤ Q σ S S := by
  have h := GaussPSD.gauss_psd (ι := Fin S.length) (fun i => S[i.1].1) (fun i => S[i.1].2.1)
    (fun i => S[i.1].2.2) (4 * σ) (by linarith)
  have e : Q σ S S = ∑ i : Fin S.length, ∑ j : Fin S.length, S[i.1].1 * S[j.1].1 *
      Real.exp (-((S[i.1].2.1 - S[j.1].2.1) * (S[i.1].2.1 - S[j.1].2.1) +
        (S[i.1].2.2 - S[j.1].2.2) * (S[i.1].2.2 - S[j.1].2.2)) / (2 * (4 * σ))) := by
    unfold Q
    rw [← Fin.sum_univ_fun_getElem S (fun a => (S.map fun b => a.1 * b.1 * E σ a.2 b.2).sum)]
    refine Finset.sum_congr rfl fun i _ => ?_
    rw [← Fin.sum_univ_fun_getElem S (fun b => S[i.1].1 * b.1 * E σ S[i.1].2 b.2)]
    refine Finset.sum_congr rfl fun j _ => ?_
    unfold E sqDist
    rw [show 2 * (4 * σ) = 8 * σ by ring]
  rw [e]; exact h

/-- Cauchy–Schwarz -/
theorem Q_cauchy_schwarz (σ : ℝ) (hσ : 0 < σ) (S T : SList) :
    Q σ S T * Q σ S T ≤ Q σ S S * Q σ T T := by
  have h : ∀ t : ℝ, 0 ≤ Q σ T T * (t * t) + 2 * Q σ S T * t + Q σ S S := by
    intro t
    have := Q_self_nonneg σ hσ (S ++ smul t T)
    rw [Q_append_left, Q_append_right, Q_append_right, Q_smul_left, Q_smul_right, Q_smul_right,
      Q_smul_left, Q_symm σ T S] at this
    linarith
  have := discrim_le_zero h
  unfold discrim at this
  nlinarith

/-- the semi-norm of the form -/
noncomputable def N (σ : ℝ) (S : SList) : ℝ := Real.sqrt (Q σ S S)

theorem N_nonneg (σ : ℝ) (S : SList) : 0 ≤ N σ S := Real.sqrt_nonneg _

/-- Minkowski -/
theorem N_append_le (σ : ℝ) (hσ : 0 < σ) (S T : SList) : N σ (S ++ T) ≤ N σ S + N σ T := by
  unfold N
  have hS := Q_self_nonneg σ hσ S
  have hT := Q_self_nonneg σ hσ T
  have hcs := Q_cauchy_schwarz σ hσ S T
  rw [Real.sqrt_le_left (add_nonneg (Real.sqrt_nonneg _) (Real.sqrt_nonneg _))]
  have e : Q σ (S ++ T) (S ++ T) = Q σ S S + 2 * Q σ S T + Q σ T T := by
    rw [Q_append_left, Q_append_right, Q_append_right, Q_symm σ T S]; ring
  have hb : Q σ S T ≤ Real.sqrt (Q σ S S) * Real.sqrt (Q σ T T) := by
    rw [← Real.sqrt_mul hS]
    exact le_trans (le_abs_self _) (Real.abs_le_sqrt (by rw [sq]; exact hcs))
  rw [e, add_sq, Real.sq_sqrt hS, Real.sq_sqrt hT]
  linarith

/-- two signed lists that act equally on every list have the same norm -/
theorem N_congr (σ : ℝ) {S S' : SList} (h : ∀ T, Q σ S T = Q σ S' T) : N σ S = N σ S' := by
  unfold N
  rw [h S, Q_symm σ S' S, h S']

/-! ### diagrams as signed lists -/

/-- `Σ_p (δ_p − δ_p̄)` -/
def sg (F : List (ℝ × ℝ)) : SList :=
  F.map (fun p => ((1 : ℝ), p)) ++ F.map (fun p => ((-1 : ℝ), mirror p))

theorem Q_sg_sg (σ : ℝ) (F G : List (ℝ × ℝ)) : Q σ (sg F) (sg G) = 2 * kSum Real.exp σ F G := by
  have hk : kSum Real.exp σ F G = (F.map fun p => (G.map fun q => kTerm Real.exp σ p q).sum).sum := by
    unfold kSum
    simp only [foldl_add_eq_sum, zero_add]
  rw [hk, ← List.sum_map_mul_left]
  unfold Q sg
  simp only [List.map_append, List.sum_append, List.map_map, Function.comp_def]
  rw [← sum_map_add']
  refine sum_map_congr fun p _ => ?_
  rw [← sum_map_add', ← sum_map_add', ← sum_map_add', ← List.sum_map_mul_left]
  refine sum_map_congr fun q _ => ?_
  rw [kTerm_eq, E_mirror_mirror, E_mirror_left]
  ring

/-- the signed list of `F − G` -/
def diff (F G : List (ℝ × ℝ)) : SList := sg F ++ smul (-1) (sg G)

theorem Q_diff_left (σ : ℝ) (F G : List (ℝ × ℝ)) (T : SList) :
    Q σ (diff F G) T = Q σ (sg F) T - Q σ (sg G) T := by
  unfold diff; rw [Q_append_left, Q_smul_left]; ring

theorem Q_diff_diff (σ : ℝ) (F G : List (ℝ × ℝ)) :
    Q σ (diff F G) (diff F G) =
      2 * (kSum Real.exp σ F F + kSum Real.exp σ G G - 2 * kSum Real.exp σ F G) := by
  have h4 : Q σ (sg G) (sg F) = 2 * kSum Real.exp σ F G := by rw [Q_symm, Q_sg_sg]
  rw [Q_diff_left, Q_symm σ (sg F) (diff F G), Q_symm σ (sg G) (diff F G), Q_diff_left, Q_diff_left,
    Q_sg_sg σ F F, Q_sg_sg σ G G, Q_sg_sg σ F G, h4]
  ring

/-- `(F − G) + (G − H)` acts like `F − H` -/
theorem N_diff_append (σ : ℝ) (F G H : List (ℝ × ℝ)) :
    N σ (diff F G ++ diff G H) = N σ (diff F H) :=
  N_congr σ fun T => by rw [Q_append_left, Q_diff_left, Q_diff_left, Q_diff_left]; ring

theorem N_diff_triangle (σ : ℝ) (hσ : 0 < σ) (F G H : List (ℝ × ℝ)) :
    N σ (diff F H) ≤ N σ (diff F G) + N σ (diff G H) := by
  rw [← N_diff_append σ F G H]; exact N_append_le σ hσ _ _

end PersimVerif.Lemmas.HeatForm
