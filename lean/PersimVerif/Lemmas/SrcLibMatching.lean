import PersimVerif.Model.Bottleneck
import PersimVerif.Model.Wasserstein
/-
  Runtime library of the matching translator (harness/translator/py2lean_matching.py, DESIGN.md 3.2): the Lean meaning of
  the few Python / NumPy builtins that the generated definitions of `Generated/SrcBottleneckSearch.lean` and
  `Generated/SrcWassersteinAssign.lean` use directly.  Mathlib-free (imports the two import-free models only, for `Ext`,
  `Graph`, `Matching`, `Mat`, `lookup`).  Part of the translator's conventions (trusted like them); the lemmas that relate
  the generated definitions to `Model/Bottleneck.lean` / `Model/Wasserstein.lean` are in `Lemmas/SrcBridgeMatching.lean`.
-/
namespace PersimVerif.SrcLib.Matching

/-- CPython's `bisect.bisect_left(a, x)` on `a = range(n)` (`a[mid] = mid`):
    `lo, hi = 0, len(a);  while lo < hi: mid = (lo + hi) // 2;  if a[mid] < x: lo = mid + 1  else: hi = mid;  return lo` -/
def bisectLeftRange.go (x : Nat) (lo hi : Nat) : Nat :=
  if lo < hi then
    let mid := (lo + hi) / 2
    if mid < x then go x (mid + 1) hi else go x lo mid
  else lo
termination_by hi - lo
decreasing_by all_goals omega

/-- `bisect_left(range(n), x)` for a non-negative `x` -/
def bisectLeftRange (n x : Nat) : Nat := bisectLeftRange.go x 0 n

/-- `g['{}'.format(i)] = e` on a dict whose keys are `'0'`, `'1'`, …, `str(len(g) - 1)`, represented by the list of its
    values: a new key `str(len(g))` appends, an existing key overwrites; `none`: the key set would no longer be an initial
    segment of the naturals (outside the representation) -/
def dictPut {β : Type} (g : List β) (i : Nat) (e : β) : Option (List β) :=
  if i = g.length then some (g ++ [e])
  else if i < g.length then some (g.set i e)
  else none

section
variable {γ : Type}

/-- `D[rows, cols]` with two index arrays (NumPy pairs them up; arrays of different lengths do not broadcast, and an index
    outside the matrix raises): `none` = the exception -/
def fancy (D : PersimVerif.Wasserstein.Mat γ) (rows cols : List Nat) : Option (List (Option γ)) :=
  if rows.length = cols.length then (rows.zip cols).mapM fun p => PersimVerif.Wasserstein.lookup D p.1 p.2
  else none

/-- `ret[:, 0:2] = np.array(pairs)` on a 3-column array given by its rows: `none` = the shapes differ (ValueError) -/
def setCols01 (ret : List (Int × Int × γ)) (pairs : List (Nat × Nat)) : Option (List (Int × Int × γ)) :=
  if ret.length = pairs.length then
    some (List.zipWith (fun r p => ((p.1 : Int), (p.2 : Int), r.2.2)) ret pairs)
  else none

/-- `ret[:, 2] = v`: `none` = the shapes differ (ValueError) -/
def setCol2 (ret : List (Int × Int × γ)) (v : List γ) : Option (List (Int × Int × γ)) :=
  if ret.length = v.length then some (List.zipWith (fun r x => (r.1, r.2.1, x)) ret v) else none

end
end PersimVerif.SrcLib.Matching
