import PersimVerif.Lemmas.LandscapeOrder

/-!
# Helper lemmas for C03, part 4 (towards correctness of the sweep): list-level facts

* order statistics: `kth` is permutation invariant, dropping a `0` or the maximum shifts it as expected;
* `popFirst` specification;
* the work list stays sorted by the key `(b ascending, d descending)` under removal and under the
  code's re-insertion index logic (`insertPos` / `pyInsert`);
* the model's insertion sort returns a key-sorted list.
-/
set_option linter.unusedSectionVars false

namespace PersimVerif.LandscapeLemmas
open PersimVerif.PL PersimVerif.Landscape

variable {K : Type} [Field K] [LinearOrder K] [IsStrictOrderedRing K]

/-! ### order statistics -/

theorem kth_perm {vs vs' : List K} (h : vs.Perm vs') (k : Nat) : kth vs k = kth vs' k := by
  rw [kth_eq_of_perm_pairwise ((sortDesc_perm vs').trans h.symm) (sortDesc_pairwise vs') k]
  rfl

/-- the maximum comes first and the rest is shifted by one -/
theorem sortDesc_cons_max {m : K} {vs : List K} (h : ∀ v ∈ vs, v ≤ m) :
    sortDesc (m :: vs) = m :: sortDesc vs := by
  apply sortDesc_eq_of_perm_pairwise
  · exact (sortDesc_perm vs).cons m
  · rw [List.pairwise_cons]
    exact ⟨fun v hv => h v ((sortDesc_perm vs).mem_iff.mp hv), sortDesc_pairwise vs⟩

theorem kth_cons_max_zero {m : K} {vs : List K} (h : ∀ v ∈ vs, v ≤ m) : kth (m :: vs) 0 = m := by
  unfold kth; rw [sortDesc_cons_max h]; rfl

theorem kth_cons_max_succ {m : K} {vs : List K} (h : ∀ v ∈ vs, v ≤ m) (k : Nat) :
    kth (m :: vs) (k + 1) = kth vs k := by
  unfold kth; rw [sortDesc_cons_max h]; rfl

/-- a zero entry can be dropped from a list of non-negative values (the default beyond the length is 0) -/
theorem kth_cons_zero {vs : List K} (h : ∀ v ∈ vs, 0 ≤ v) (k : Nat) : kth (0 :: vs) k = kth vs k := by
  have e : sortDesc (0 :: vs) = sortDesc vs ++ [0] := by
    apply sortDesc_eq_of_perm_pairwise
    · exact (List.perm_append_comm (l₁ := sortDesc vs) (l₂ := [0])).trans ((sortDesc_perm vs).cons 0)
    · rw [List.pairwise_append]
      refine ⟨sortDesc_pairwise vs, by simp, ?_⟩
      intro a ha b hb
      have : b = 0 := by simpa using hb
      subst this
      exact h a ((sortDesc_perm vs).mem_iff.mp ha)
  unfold kth
  rw [e, List.getD_eq_getElem?_getD, List.getD_eq_getElem?_getD]
  by_cases hk : k < (sortDesc vs).length
  · rw [List.getElem?_append_left hk]
  · have hk' : (sortDesc vs).length ≤ k := not_lt.mp hk
    rw [List.getElem?_append_right hk', List.getElem?_eq_none hk']
    cases h2 : k - (sortDesc vs).length with
    | zero => rfl
    | succ n => simp

/-- two entries may be replaced by their maximum and minimum -/
theorem perm_max_min (a b : K) (vs : List K) : (a :: b :: vs).Perm (max a b :: min a b :: vs) := by
  rcases le_total a b with h | h
  · rw [max_eq_right h, min_eq_left h]; exact List.Perm.swap b a vs
  · rw [max_eq_left h, min_eq_right h]

/-! ### `popFirst` -/

omit [Field K] [LinearOrder K] [IsStrictOrderedRing K] in
theorem popFirst_spec {β : Type} (p : β → Bool) : ∀ (A : List β) (x : β) (A1 : List β),
    popFirst p A = some (x, A1) →
      ∃ pre post, A = pre ++ x :: post ∧ A1 = pre ++ post ∧ (∀ y ∈ pre, p y = false) ∧ p x = true
  | [], x, A1, h => by simp [popFirst] at h
  | a :: t, x, A1, h => by
    unfold popFirst at h
    by_cases hp : p a = true
    · rw [if_pos hp] at h
      simp only [Option.some.injEq, Prod.mk.injEq] at h
      obtain ⟨rfl, rfl⟩ := h
      exact ⟨[], t, rfl, rfl, by simp, hp⟩
    · rw [if_neg hp] at h
      cases hr : popFirst p t with
      | none => rw [hr] at h; simp at h
      | some yr =>
        obtain ⟨y, r⟩ := yr
        rw [hr] at h
        simp only [Option.map_some, Option.some.injEq, Prod.mk.injEq] at h
        obtain ⟨rfl, rfl⟩ := h
        obtain ⟨pre, post, e1, e2, e3, e4⟩ := popFirst_spec p t y r hr
        refine ⟨a :: pre, post, by rw [e1]; rfl, by rw [e2]; rfl, ?_, e4⟩
        intro z hz
        rcases List.mem_cons.mp hz with rfl | hz
        · simpa using hp
        · exact e3 z hz

/-! ### the key order -/

/-- the sort key of the work list as a relation: birth ascending, death descending among equal births -/
def KLe (p q : K × K) : Prop := p.1 < q.1 ∨ (p.1 = q.1 ∧ q.2 ≤ p.2)

def KeySorted (A : List (K × K)) : Prop := A.Pairwise KLe

theorem keyLe_iff (p q : K × K) : keyLe p q = true ↔ KLe p q := by
  unfold keyLe KLe
  by_cases h : p.1 = q.1
  · simp [h]
  · have : (p.1 == q.1) = false := by simpa using h
    simp only [this, Bool.false_eq_true, if_false, Bool.not_eq_true', decide_eq_false_iff_not, not_lt]
    constructor
    · intro hle; exact Or.inl (lt_of_le_of_ne hle h)
    · rintro (hlt | ⟨he, _⟩)
      · exact hlt.le
      · exact absurd he h

theorem KLe.total (p q : K × K) : KLe p q ∨ KLe q p := by
  unfold KLe
  rcases lt_trichotomy p.1 q.1 with h | h | h
  · exact Or.inl (Or.inl h)
  · rcases le_total q.2 p.2 with h2 | h2
    · exact Or.inl (Or.inr ⟨h, h2⟩)
    · exact Or.inr (Or.inr ⟨h.symm, h2⟩)
  · exact Or.inr (Or.inl h)

theorem KLe.trans {p q r : K × K} (h1 : KLe p q) (h2 : KLe q r) : KLe p r := by
  unfold KLe at *
  rcases h1 with h1 | ⟨e1, l1⟩ <;> rcases h2 with h2 | ⟨e2, l2⟩
  · exact Or.inl (lt_trans h1 h2)
  · exact Or.inl (e2 ▸ h1)
  · exact Or.inl (e1 ▸ h2)
  · exact Or.inr ⟨e1.trans e2, le_trans l2 l1⟩

theorem KLe.fst_le {p q : K × K} (h : KLe p q) : p.1 ≤ q.1 := by
  rcases h with h | ⟨h, _⟩
  · exact h.le
  · exact h.le

/-- the model's insertion sort produces a key-sorted list -/
theorem insSorted_keySorted (x : K × K) : ∀ {l : List (K × K)}, KeySorted l → KeySorted (insSorted keyLe x l)
  | [], _ => by simp [insSorted, KeySorted]
  | y :: ys, h => by
    unfold insSorted
    have hy : ∀ z ∈ ys, KLe y z := (List.pairwise_cons.mp h).1
    have hys : KeySorted ys := (List.pairwise_cons.mp h).2
    by_cases hle : keyLe x y = true
    · rw [if_pos hle]
      have hxy := (keyLe_iff x y).mp hle
      refine List.pairwise_cons.mpr ⟨?_, h⟩
      intro z hz
      rcases List.mem_cons.mp hz with rfl | hz
      · exact hxy
      · exact hxy.trans (hy z hz)
    · rw [if_neg hle]
      have hyx : KLe y x := by
        rcases KLe.total x y with h1 | h1
        · exact absurd ((keyLe_iff x y).mpr h1) hle
        · exact h1
      refine List.pairwise_cons.mpr ⟨?_, insSorted_keySorted x hys⟩
      intro z hz
      have hz' : z ∈ x :: ys := (insSorted_perm keyLe x ys).mem_iff.mp hz
      rcases List.mem_cons.mp hz' with rfl | hz'
      · exact hyx
      · exact hy z hz'

theorem stableSort_keySorted : ∀ (l : List (K × K)), KeySorted (stableSort keyLe l)
  | [] => List.Pairwise.nil
  | x :: xs => by
    show KeySorted (insSorted keyLe x (stableSort keyLe xs))
    exact insSorted_keySorted x (stableSort_keySorted xs)

/-! ### re-insertion keeps the work list key-sorted -/

omit [Field K] [LinearOrder K] [IsStrictOrderedRing K] in
/-- a predicate that is closed towards the front of the list holds exactly on the first `countP` entries -/
theorem countP_prefix {β : Type} (P : β → Bool) : ∀ {l : List β}, l.Pairwise (fun a b => P b = true → P a = true) →
    (∀ a ∈ l.take (l.countP P), P a = true) ∧ (∀ a ∈ l.drop (l.countP P), P a = false)
  | [], _ => by simp
  | a :: t, h => by
    have h1 : ∀ b ∈ t, P b = true → P a = true := (List.pairwise_cons.mp h).1
    have ih := countP_prefix P (List.pairwise_cons.mp h).2
    by_cases ha : P a = true
    · rw [List.countP_cons_of_pos ha]
      simp only [List.take_succ_cons, List.drop_succ_cons, List.mem_cons]
      refine ⟨?_, ih.2⟩
      rintro b (rfl | hb)
      · exact ha
      · exact ih.1 b hb
    · have hnone : ∀ b ∈ t, P b = false := by
        intro b hb
        by_contra hb'
        exact ha (h1 b hb (by simpa using hb'))
      have h0 : t.countP P = 0 := by
        rw [List.countP_eq_zero]
        intro b hb; simp [hnone b hb]
      rw [List.countP_cons_of_neg ha, h0]
      simp only [List.take_zero, List.not_mem_nil, false_imp_iff, implies_true, List.drop_zero,
        List.mem_cons, true_and]
      rintro b (rfl | hb)
      · simpa using ha
      · exact hnone b hb

omit [Field K] [LinearOrder K] [IsStrictOrderedRing K] in
theorem findIdx?_spec {β : Type} (p : β → Bool) : ∀ (l : List β),
    (l.findIdx? p = none → ∀ a ∈ l, p a = false) ∧
    (∀ i, l.findIdx? p = some i → (∀ a ∈ l.take i, p a = false) ∧ ∃ y, l[i]? = some y ∧ p y = true)
  | [] => by simp
  | a :: t => by
    have ih := findIdx?_spec p t
    rw [List.findIdx?_cons]
    by_cases ha : p a = true
    · simp only [ha, if_true]
      refine ⟨by simp, ?_⟩
      intro i hi
      have : i = 0 := by simpa using hi.symm
      subst this
      exact ⟨by simp, a, rfl, ha⟩
    · have ha' : p a = false := by simpa using ha
      simp only [ha', Bool.false_eq_true, if_false]
      constructor
      · intro hn
        have hn' : t.findIdx? p = none := by
          cases h : t.findIdx? p with
          | none => rfl
          | some j => rw [h] at hn; simp at hn
        intro b hb
        rcases List.mem_cons.mp hb with rfl | hb
        · exact ha'
        · exact ih.1 hn' b hb
      · intro i hi
        cases h : t.findIdx? p with
        | none => rw [h] at hi; simp at hi
        | some j =>
          rw [h] at hi
          have : i = j + 1 := by simpa using hi.symm
          subst this
          obtain ⟨h1, y, h2, h3⟩ := ih.2 j h
          refine ⟨?_, y, by simpa using h2, h3⟩
          intro b hb
          rw [List.take_succ_cons] at hb
          rcases List.mem_cons.mp hb with rfl | hb
          · exact ha'
          · exact h1 b hb

omit [Field K] [LinearOrder K] [IsStrictOrderedRing K] in
theorem pairwise_pyInsert {β : Type} {R : β → β → Prop} {A : List β} (hA : A.Pairwise R) (pos : Nat) (x : β)
    (hL : ∀ a ∈ A.take pos, R a x) (hR : ∀ c ∈ A.drop pos, R x c) : (pyInsert pos x A).Pairwise R := by
  unfold pyInsert
  rw [List.pairwise_append]
  have hsplit : (A.take pos ++ A.drop pos).Pairwise R := by rw [List.take_append_drop]; exact hA
  rw [List.pairwise_append] at hsplit
  refine ⟨hsplit.1, List.pairwise_cons.mpr ⟨hR, hsplit.2.1⟩, ?_⟩
  intro a ha c hc
  rcases List.mem_cons.mp hc with rfl | hc
  · exact hL a ha
  · exact hsplit.2.2 a ha c hc

omit [Field K] [LinearOrder K] [IsStrictOrderedRing K] in
theorem pyInsert_perm {β : Type} (pos : Nat) (x : β) (A : List β) : (pyInsert pos x A).Perm (x :: A) := by
  unfold pyInsert
  have h : (A.take pos ++ x :: A.drop pos).Perm (x :: (A.take pos ++ A.drop pos)) := List.perm_middle
  rw [List.take_append_drop] at h
  exact h

/-- **the re-insertion index of Case III keeps the work list sorted by the key** -/
theorem keySorted_reinsert {A : List (K × K)} (hA : KeySorted A) (b' d : K) :
    KeySorted (pyInsert (insertPos b' d A) (b', d) A) := by
  obtain ⟨hnone, hsome⟩ := findIdx?_spec (fun x : K × K => decide (b' ≤ x.1)) A
  unfold insertPos
  cases hf : A.findIdx? (fun x : K × K => decide (b' ≤ x.1)) with
  | none =>
    -- every birth is smaller: append at the end
    have hall := hnone hf
    apply pairwise_pyInsert hA
    · intro a ha
      have := hall a (List.mem_of_mem_take ha)
      simp only [decide_eq_false_iff_not, not_le] at this
      exact Or.inl this
    · intro c hc; simp at hc
  | some ind =>
    obtain ⟨hbefore, y, hy, hpy⟩ := hsome ind hf
    have hby : b' ≤ y.1 := by simpa using hpy
    have hlt : ∀ a ∈ A.take ind, a.1 < b' := by
      intro a ha
      have := hbefore a ha
      simpa using this
    have hymem : y ∈ A.drop ind := by
      rw [List.mem_iff_getElem?]
      exact ⟨0, by rw [List.getElem?_drop]; simpa using hy⟩
    have hsplit : (A.take ind ++ A.drop ind).Pairwise KLe := by rw [List.take_append_drop]; exact hA
    rw [List.pairwise_append] at hsplit
    have hdrop_sorted : (A.drop ind).Pairwise KLe := hsplit.2.1
    -- everything from `ind` on has birth ≥ y.1 ≥ b'
    have hge : ∀ c ∈ A.drop ind, y.1 ≤ c.1 := by
      intro c hc
      obtain ⟨i, hi⟩ := List.mem_iff_getElem?.mp hc
      cases i with
      | zero =>
        have : (A.drop ind)[0]? = some y := by rw [List.getElem?_drop]; simpa using hy
        rw [this] at hi
        have : y = c := by simpa using hi
        rw [this]
      | succ i =>
        have h0 : (A.drop ind)[0]? = some y := by rw [List.getElem?_drop]; simpa using hy
        have := List.pairwise_iff_getElem.mp hdrop_sorted 0 (i + 1)
          (by have := (List.getElem?_eq_some_iff.mp h0).1; exact this)
          (List.getElem?_eq_some_iff.mp hi).1 (by omega)
        rw [(List.getElem?_eq_some_iff.mp h0).2, (List.getElem?_eq_some_iff.mp hi).2] at this
        exact this.fst_le
    simp only [hy]
    by_cases hbeq : (b' == y.1) = true
    · -- equal births: move right past the entries with the same birth and a larger death
      have hbe : b' = y.1 := by simpa using hbeq
      rw [if_pos hbeq]
      let P : K × K → Bool := fun x => (x.1 == b') && decide (d < x.2)
      have hcount : (A.filter fun x => x.1 == b').countP (fun x => decide (d < x.2)) = (A.drop ind).countP P := by
        rw [List.countP_filter]
        have e : A.countP (fun x => decide (d < x.2) && (x.1 == b')) = A.countP P := by
          apply List.countP_congr
          intro x _
          simp [P, Bool.and_comm]
        rw [e]
        conv_lhs => rw [← List.take_append_drop ind A]
        rw [List.countP_append]
        have : (A.take ind).countP P = 0 := by
          rw [List.countP_eq_zero]
          intro a ha
          have := hlt a ha
          simp only [P, Bool.and_eq_true, beq_iff_eq, decide_eq_true_eq, not_and]
          intro h; exact absurd h this.ne
        rw [this, Nat.zero_add]
      rw [hcount]
      have hclosed : (A.drop ind).Pairwise (fun a c => P c = true → P a = true) := by
        refine hdrop_sorted.imp_of_mem ?_
        intro a c ha hc hac hPc
        simp only [P, Bool.and_eq_true, beq_iff_eq, decide_eq_true_eq] at hPc ⊢
        have hage : b' ≤ a.1 := le_trans hby (hge a ha)
        rcases hac with h | ⟨h1, h2⟩
        · exact absurd (hPc.1 ▸ h) (not_lt.mpr hage)
        · exact ⟨h1.trans hPc.1, lt_of_lt_of_le hPc.2 h2⟩
      obtain ⟨htake, hdropP⟩ := countP_prefix P hclosed
      apply pairwise_pyInsert hA
      · intro a ha
        rw [List.take_add] at ha
        rcases List.mem_append.mp ha with ha | ha
        · exact Or.inl (hlt a ha)
        · have := htake a ha
          simp only [P, Bool.and_eq_true, beq_iff_eq, decide_eq_true_eq] at this
          exact Or.inr ⟨this.1, this.2.le⟩
      · intro c hc
        rw [← List.drop_drop] at hc
        have hP := hdropP c hc
        have hcm : c ∈ A.drop ind := List.mem_of_mem_drop hc
        have hcge : b' ≤ c.1 := le_trans hby (hge c hcm)
        simp only [P, Bool.and_eq_false_iff, beq_eq_false_iff_ne, decide_eq_false_iff_not, not_lt] at hP
        rcases lt_or_eq_of_le hcge with h | h
        · exact Or.inl h
        · rcases hP with hP | hP
          · exact absurd h.symm hP
          · exact Or.inr ⟨h, hP⟩
    · -- strictly smaller birth than everything from `ind` on
      rw [if_neg hbeq]
      have hbne : b' ≠ y.1 := by simpa using hbeq
      have hblt : b' < y.1 := lt_of_le_of_ne hby hbne
      apply pairwise_pyInsert hA
      · intro a ha; exact Or.inl (hlt a ha)
      · intro c hc; exact Or.inl (lt_of_lt_of_le hblt (hge c hc))

end PersimVerif.LandscapeLemmas
