import PersimVerif.Model.PLBase
import Mathlib.Algebra.Order.Field.Basic
import Mathlib.Algebra.Order.AbsoluteValue.Basic
import Mathlib.Data.List.Forall2
import Mathlib.Tactic.Linarith

/-!
# The k-th largest entry of a list: counting characterisation and consequences (helpers for C08)

`kth l k` (Model/PLBase) is entry `k` of the descending sort of `l`, `0` beyond the length.
Everything here is over a linear ordered field `K`.
-/
namespace PersimVerif.ApproxLemmas
open PersimVerif.PL List

set_option linter.unusedSectionVars false

variable {K : Type} [Field K] [LinearOrder K] [IsStrictOrderedRing K]

/-- counting characterisation of the `k`-th entry of a descending list (DESIGN-calibration file K) -/
theorem countP_sorted_desc (l : List K) (h : l.Pairwise (· ≥ ·)) (v : K) (k : Nat)
    (hk : k < l.length) : v ≤ l[k] ↔ k < l.countP (fun x => decide (v ≤ x)) := by
  induction l generalizing k with
  | nil => simp at hk
  | cons a t ih =>
    rw [List.pairwise_cons] at h
    obtain ⟨ha, ht⟩ := h
    cases k with
    | zero =>
      simp only [List.getElem_cons_zero, List.countP_cons]
      constructor
      · intro hv; simp [hv]
      · intro hc
        by_contra hna
        have : t.countP (fun x => decide (v ≤ x)) = 0 := by
          rw [List.countP_eq_zero]
          intro x hx
          have := ha x hx
          simp only [decide_eq_true_eq]
          intro hvx; exact hna (le_trans hvx this)
        simp [this, hna] at hc
    | succ k =>
      have hk' : k < t.length := by simpa using hk
      simp only [List.getElem_cons_succ, List.countP_cons]
      rw [ih ht k hk']
      constructor
      · intro hc
        have hv : v ≤ a := by
          have := (ih ht k hk').mpr hc
          exact le_trans this (ha _ (List.getElem_mem hk'))
        simp [hv]; omega
      · intro hc
        split at hc <;> omega

theorem sortDesc_perm (l : List K) : (sortDesc l).Perm l := List.mergeSort_perm l _

theorem sortDesc_length (l : List K) : (sortDesc l).length = l.length := (sortDesc_perm l).length_eq

theorem sortDesc_pairwise (l : List K) : (sortDesc l).Pairwise (· ≥ ·) := by
  have := List.pairwise_mergeSort (le := fun a b : K => decide (b ≤ a))
    (fun a b c hab hbc => by
      simp only [decide_eq_true_eq] at *; exact le_trans hbc hab)
    (fun a b => by
      simp only [Bool.or_eq_true, decide_eq_true_eq]; exact (le_total b a))
    l
  simpa [sortDesc, ge_iff_le] using this

theorem kth_of_lt (l : List K) (k : Nat) (hk : k < l.length) :
    kth l k = (sortDesc l)[k]'(by rw [sortDesc_length]; exact hk) := by
  unfold kth
  rw [List.getD_eq_getElem?_getD, List.getElem?_eq_getElem (by rw [sortDesc_length]; exact hk)]
  rfl

theorem kth_of_ge (l : List K) (k : Nat) (hk : l.length ≤ k) : kth l k = 0 := by
  unfold kth
  rw [List.getD_eq_getElem?_getD, List.getElem?_eq_none (by rw [sortDesc_length]; exact hk)]
  rfl

/-- `v ≤ kth l k ↔` more than `k` entries of `l` are `≥ v`, for `k` within the list -/
theorem le_kth_iff (l : List K) (k : Nat) (hk : k < l.length) (v : K) :
    v ≤ kth l k ↔ k < l.countP (fun x => decide (v ≤ x)) := by
  rw [kth_of_lt l k hk, countP_sorted_desc _ (sortDesc_pairwise l) v k,
    (sortDesc_perm l).countP_eq]

/-- `kth l k` is an entry of `l`, or `0` -/
theorem kth_mem_or_zero (l : List K) (k : Nat) : kth l k ∈ l ∨ kth l k = 0 := by
  by_cases hk : k < l.length
  · left
    rw [kth_of_lt l k hk]
    exact (sortDesc_perm l).mem_iff.mp (List.getElem_mem _)
  · right; exact kth_of_ge l k (by omega)

theorem kth_nonneg (l : List K) (h : ∀ x ∈ l, 0 ≤ x) (k : Nat) : 0 ≤ kth l k := by
  rcases kth_mem_or_zero l k with hm | hz
  · exact h _ hm
  · rw [hz]

/-- for a list of non-negative numbers and a positive threshold the characterisation needs no
    bound on `k` (beyond the length the value is the padding `0`) -/
theorem pos_le_kth_iff (l : List K) (k : Nat) (v : K) (hv : 0 < v) :
    v ≤ kth l k ↔ k < l.countP (fun x => decide (v ≤ x)) := by
  by_cases hk : k < l.length
  · exact le_kth_iff l k hk v
  · have hk' : l.length ≤ k := by omega
    rw [kth_of_ge l k hk']
    constructor
    · intro h; exact absurd h (not_le.mpr hv)
    · intro h
      have := List.countP_le_length (p := fun x => decide (v ≤ x)) (l := l)
      omega

/-- two lists of non-negative numbers with the same counts above every positive threshold have
    the same `kth` values -/
theorem kth_eq_of_countP_eq (l₁ l₂ : List K) (h₁ : ∀ x ∈ l₁, 0 ≤ x) (h₂ : ∀ x ∈ l₂, 0 ≤ x)
    (hc : ∀ v : K, 0 < v → l₁.countP (fun x => decide (v ≤ x)) = l₂.countP (fun x => decide (v ≤ x)))
    (k : Nat) : kth l₁ k = kth l₂ k := by
  have key : ∀ (a b : List K), (∀ x ∈ a, 0 ≤ x) → (∀ x ∈ b, 0 ≤ x) →
      (∀ v : K, 0 < v → a.countP (fun x => decide (v ≤ x)) = b.countP (fun x => decide (v ≤ x))) →
      kth a k ≤ kth b k := by
    intro a b ha hb hab
    rcases (kth_nonneg a ha k).lt_or_eq with hpos | hz
    · have := (pos_le_kth_iff a k _ hpos).mp le_rfl
      rw [hab _ hpos] at this
      exact (pos_le_kth_iff b k _ hpos).mpr this
    · rw [← hz]; exact kth_nonneg b hb k
  exact le_antisymm (key l₁ l₂ h₁ h₂ hc) (key l₂ l₁ h₂ h₁ (fun v hv => (hc v hv).symm))

/-- dropping the entries that are not positive does not change any `kth` value (the padding is `0`) -/
theorem kth_filter_pos (l : List K) (h : ∀ x ∈ l, 0 ≤ x) (k : Nat) :
    kth (l.filter fun x => decide (0 < x)) k = kth l k := by
  apply kth_eq_of_countP_eq
  · intro x hx; exact h x (List.mem_filter.mp hx).1
  · exact h
  · intro v hv
    rw [List.countP_filter]
    congr 1
    funext x
    by_cases hx : v ≤ x
    · have : 0 < x := lt_of_lt_of_le hv hx
      simp [hx, this]
    · simp [hx]

/-- `kth` only depends on the multiset of entries -/
theorem kth_perm {l₁ l₂ : List K} (h : l₁.Perm l₂) (k : Nat) : kth l₁ k = kth l₂ k := by
  by_cases hk : k < l₁.length
  · have hk2 : k < l₂.length := h.length_eq ▸ hk
    apply le_antisymm
    · exact (le_kth_iff l₂ k hk2 _).mpr (by rw [← h.countP_eq]; exact (le_kth_iff l₁ k hk _).mp le_rfl)
    · exact (le_kth_iff l₁ k hk _).mpr (by rw [h.countP_eq]; exact (le_kth_iff l₂ k hk2 _).mp le_rfl)
  · rw [kth_of_ge l₁ k (by omega), kth_of_ge l₂ k (by rw [← h.length_eq]; omega)]

private theorem countP_mono_of_forall₂ {ε : K} {x y : List K}
    (h : List.Forall₂ (fun a b => |a - b| ≤ ε) x y) (v : K) :
    y.countP (fun b => decide (v ≤ b)) ≤ x.countP (fun a => decide (v - ε ≤ a)) := by
  induction h with
  | nil => simp
  | @cons a b x y hab _ ih =>
    simp only [List.countP_cons]
    have : v ≤ b → v - ε ≤ a := by
      intro hv
      have := (abs_le.mp hab).1
      linarith
    by_cases hv : v ≤ b
    · have hv' := this hv
      simp only [hv, hv', decide_true, ↓reduceIte]; omega
    · simp only [hv, decide_false, Bool.false_eq_true, ↓reduceIte, Nat.add_zero]
      split <;> omega

private theorem kth_sub_le_of_forall₂ {ε : K} {x y : List K}
    (h : List.Forall₂ (fun a b => |a - b| ≤ ε) x y) (hε : 0 ≤ ε) (k : Nat) :
    kth y k - ε ≤ kth x k := by
  have hlen := h.length_eq
  by_cases hk : k < y.length
  · have hkx : k < x.length := by omega
    rw [le_kth_iff x k hkx]
    have h1 := (le_kth_iff y k hk (kth y k)).mp le_rfl
    exact lt_of_lt_of_le h1 (countP_mono_of_forall₂ h _)
  · rw [kth_of_ge y k (by omega), kth_of_ge x k (by omega)]
    linarith

/-- the `k`-th largest value is 1-Lipschitz for the sup distance (pointwise-related lists) -/
theorem kth_lipschitz_forall₂ {ε : K} {x y : List K}
    (h : List.Forall₂ (fun a b => |a - b| ≤ ε) x y) (hε : 0 ≤ ε) (k : Nat) :
    |kth x k - kth y k| ≤ ε := by
  have h' : List.Forall₂ (fun a b => |a - b| ≤ ε) y x := by
    have := h.flip
    refine this.imp ?_
    intro a b hab; rwa [abs_sub_comm]
  have h1 := kth_sub_le_of_forall₂ h hε k
  have h2 := kth_sub_le_of_forall₂ h' hε k
  rw [abs_le]; constructor <;> linarith

/-- … for two images of the same list -/
theorem kth_map_lipschitz {β : Type} {ε : K} (l : List β) (f g : β → K)
    (h : ∀ p ∈ l, |f p - g p| ≤ ε) (hε : 0 ≤ ε) (k : Nat) :
    |kth (l.map f) k - kth (l.map g) k| ≤ ε := by
  apply kth_lipschitz_forall₂ _ hε
  rw [List.forall₂_map_left_iff, List.forall₂_map_right_iff]
  exact List.forall₂_same.mpr h

end PersimVerif.ApproxLemmas
