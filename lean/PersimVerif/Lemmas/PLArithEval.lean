import PersimVerif.Lemmas.PLArithHinge

/-!
# Evaluation lemmas for C09: `evalPL` of a well-formed depth list is the hinge sum of its slopes
-/
namespace PersimVerif.PLArith
open PersimVerif.PL
set_option linter.unusedSectionVars false
variable {K : Type} [Field K] [LinearOrder K] [IsStrictOrderedRing K]

/-- consecutive points either move right or repeat the same point -/
def Chain : List (K × K) → Prop
  | [] => True
  | [_] => True
  | p :: q :: r => (p.1 < q.1 ∨ p = q) ∧ Chain (q :: r)

@[simp] theorem chain_nil : Chain ([] : List (K × K)) = True := rfl
@[simp] theorem chain_single (p : K × K) : Chain [p] = True := rfl
@[simp] theorem chain_cons2 (p q : K × K) (r : List (K × K)) :
    Chain (p :: q :: r) = ((p.1 < q.1 ∨ p = q) ∧ Chain (q :: r)) := rfl

/-- the class of depth lists the theorems are about: non-empty, ordinate 0 at both ends, abscissae
    non-decreasing with a zero-width step only between two copies of the same point -/
structure WF (l : List (K × K)) : Prop where
  ne : l ≠ []
  first : ∀ p, l.head? = some p → p.2 = 0
  last : ∀ q, l.getLast? = some q → q.2 = 0
  chain : Chain l

/-! ### `evalPL` at `K` -/

theorem evalPL_nil (t : K) : evalPL ([] : List (K × K)) t = 0 := by simp only [evalPL]
theorem evalPL_single (p : K × K) (t : K) : evalPL [p] t = 0 := by
  obtain ⟨x, y⟩ := p; simp only [evalPL]
theorem evalPL_cons2 (p q : K × K) (r : List (K × K)) (t : K) :
    evalPL (p :: q :: r) t =
      if t < p.1 then 0
      else if t ≤ q.1 then p.2 + (q.2 - p.2) * (t - p.1) / (q.1 - p.1)
      else evalPL (q :: r) t := by
  obtain ⟨x0, y0⟩ := p; obtain ⟨x1, y1⟩ := q; simp only [evalPL]

theorem evalPL_left (l : List (K × K)) (p : K × K) (r : List (K × K)) (hl : l = p :: r) (t : K)
    (ht : t < p.1) : evalPL l t = 0 := by
  subst hl
  cases r with
  | nil => exact evalPL_single p t
  | cons q r => rw [evalPL_cons2, if_pos ht]

/-- right of every abscissa the function is 0 -/
theorem evalPL_right : ∀ (l : List (K × K)) (t : K), (∀ p ∈ l, p.1 < t) → evalPL l t = 0
  | [], t, _ => evalPL_nil t
  | [p], t, _ => evalPL_single p t
  | p :: q :: r, t, h => by
    have hp : p.1 < t := h p (by simp)
    have hq : q.1 < t := h q (by simp)
    rw [evalPL_cons2, if_neg (not_lt.mpr hp.le), if_neg (not_le.mpr hq)]
    exact evalPL_right (q :: r) t (fun x hx => h x (by simp [hx]))

/-! ### `posToSlope` on chains -/

theorem chain_tail {p : K × K} {r : List (K × K)} (h : Chain (p :: r)) : Chain r := by
  cases r with
  | nil => trivial
  | cons q r => exact h.2

theorem chain_le {p : K × K} : ∀ {r : List (K × K)}, Chain (p :: r) → ∀ x ∈ xs r, p.1 ≤ x
  | [], _, x, hx => by simp at hx
  | q :: r, h, x, hx => by
    have hpq : p.1 ≤ q.1 := by
      rcases h.1 with h1 | h1
      · exact h1.le
      · rw [h1]
    simp only [xs, List.map_cons, List.mem_cons] at hx
    rcases hx with rfl | hx
    · exact hpq
    · exact le_trans hpq (chain_le (p := q) h.2 x hx)

theorem posToSlope_subset : ∀ (l : List (K × K)), ∀ x ∈ xs (posToSlope l), x ∈ xs l
  | [], x, hx => by simp [posToSlope_nil] at hx
  | [p], x, hx => by simpa [posToSlope_single] using hx
  | p :: q :: r, x, hx => by
    rw [posToSlope_cons2] at hx
    split at hx
    · have := posToSlope_subset (q :: r) x hx
      simp only [xs, List.map_cons, List.mem_cons] at this ⊢
      right; exact this
    · simp only [xs, List.map_cons, List.mem_cons] at hx ⊢
      rcases hx with rfl | hx
      · left; rfl
      · right
        have := posToSlope_subset (q :: r) x hx
        simpa [xs] using this

/-- the slope list starts at the first abscissa -/
theorem posToSlope_head : ∀ (p : K × K) (r : List (K × K)),
    ∃ m S, posToSlope (p :: r) = (p.1, m) :: S
  | p, [] => ⟨0, [], posToSlope_single p⟩
  | p, q :: r => by
    rw [posToSlope_cons2]
    split
    · rename_i h
      obtain ⟨m, S, hS⟩ := posToSlope_head q r
      exact ⟨m, S, by rw [hS, h]⟩
    · exact ⟨_, _, rfl⟩

theorem posToSlope_ne_nil (l : List (K × K)) (h : l ≠ []) : posToSlope l ≠ [] := by
  obtain ⟨p, r, rfl⟩ := List.exists_cons_of_ne_nil h
  obtain ⟨m, S, hS⟩ := posToSlope_head p r
  simp [hS]

theorem strictX_posToSlope : ∀ (l : List (K × K)), Chain l → StrictX (posToSlope l)
  | [], _ => by simp [StrictX, posToSlope_nil]
  | [p], _ => by simp [StrictX, posToSlope_single]
  | p :: q :: r, h => by
    rw [posToSlope_cons2]
    have ih := strictX_posToSlope (q :: r) h.2
    split
    · exact ih
    · rename_i hne
      have hlt : p.1 < q.1 := by
        rcases h.1 with h1 | h1
        · exact h1
        · exact absurd (by rw [h1]) hne
      unfold StrictX at *
      simp only [xs, List.map_cons, List.pairwise_cons]
      refine ⟨fun x hx => ?_, ih⟩
      have hx' := posToSlope_subset (q :: r) x hx
      simp only [xs, List.map_cons, List.mem_cons] at hx'
      rcases hx' with rfl | hx'
      · exact hlt
      · exact lt_of_lt_of_le hlt (chain_le h.2 x hx')

theorem lastSlope_posToSlope : ∀ (l : List (K × K)) (p0 : K), l ≠ [] → lastSlope p0 (posToSlope l) = 0
  | [], _, h => absurd rfl h
  | [p], _, _ => by simp [posToSlope_single]
  | p :: q :: r, p0, _ => by
    rw [posToSlope_cons2]
    split
    · exact lastSlope_posToSlope (q :: r) p0 (by simp)
    · rw [lastSlope_cons]; exact lastSlope_posToSlope (q :: r) _ (by simp)

/-- the last abscissa survives -/
theorem posToSlope_last_mem : ∀ (l : List (K × K)) (q : K × K), l.getLast? = some q → q.1 ∈ xs (posToSlope l)
  | [], q, h => by simp at h
  | [p], q, h => by
    simp only [List.getLast?_singleton, Option.some.injEq] at h
    subst h; simp [posToSlope_single]
  | p :: p' :: r, q, h => by
    have h' : (p' :: r).getLast? = some q := by simpa [List.getLast?_cons_cons] using h
    have ih := posToSlope_last_mem (p' :: r) q h'
    rw [posToSlope_cons2]
    split
    · exact ih
    · simp only [xs, List.map_cons, List.mem_cons]; right; simpa [xs] using ih

theorem chain_le_last : ∀ (l : List (K × K)) (q : K × K), Chain l → l.getLast? = some q → ∀ x ∈ xs l, x ≤ q.1
  | [], q, _, h, _, _ => by simp at h
  | [p], q, _, h, x, hx => by
    simp only [List.getLast?_singleton, Option.some.injEq] at h
    subst h; simp only [xs, List.map_cons, List.map_nil, List.mem_singleton] at hx; rw [hx]
  | p :: p' :: r, q, hc, h, x, hx => by
    have h' : (p' :: r).getLast? = some q := by simpa [List.getLast?_cons_cons] using h
    have ih := chain_le_last (p' :: r) q hc.2 h'
    simp only [xs, List.map_cons, List.mem_cons] at hx
    rcases hx with rfl | hx
    · have : p.1 ≤ p'.1 := chain_le hc p'.1 (by simp [xs])
      exact le_trans this (ih p'.1 (by simp [xs]))
    · exact ih x (by simpa [xs] using hx)

/-- **core**: on a chain whose last ordinate is 0, `evalPL` right of the first abscissa is the first
    ordinate plus the hinge sum of the slopes -/
theorem evalPL_eq_hinge_aux : ∀ (l : List (K × K)) (p : K × K) (r : List (K × K)), l = p :: r → Chain l →
    (∀ q, l.getLast? = some q → q.2 = 0) → ∀ t, p.1 ≤ t → evalPL l t = p.2 + hinge t 0 (posToSlope l)
  | _, p, [], rfl, _, hl, t, ht => by
    have hp : p.2 = 0 := hl p (by simp)
    rw [evalPL_single, posToSlope_single, hinge_cons, hinge_nil, hp]; ring
  | _, p, q :: r, rfl, hc, hl, t, ht => by
    have hl' : ∀ q', (q :: r).getLast? = some q' → q'.2 = 0 := by
      intro q' hq'; exact hl q' (by simpa [List.getLast?_cons_cons] using hq')
    rw [evalPL_cons2, if_neg (not_lt.mpr ht), posToSlope_cons2]
    by_cases hpq : q.1 = p.1
    · -- a repeated point
      have hpq' : p = q := by
        rcases hc.1 with h1 | h1
        · exact absurd hpq.symm (ne_of_lt h1)
        · exact h1
      rw [if_pos hpq]
      by_cases htq : t ≤ q.1
      · rw [if_pos htq]
        have htp : t = p.1 := le_antisymm (by rw [← hpq]; exact htq) ht
        have hz : hinge t 0 (posToSlope (q :: r)) = 0 := by
          apply hinge_eq_zero_of_le
          intro s hs
          have hs' := posToSlope_subset (q :: r) s.1 (List.mem_map_of_mem (f := Prod.fst) hs)
          simp only [xs, List.map_cons, List.mem_cons] at hs'
          rcases hs' with h2 | h2
          · rw [h2, htp, hpq]
          · rw [htp, ← hpq]; exact chain_le hc.2 s.1 h2
        rw [hz, htp, sub_self, mul_zero, zero_div]
      · rw [if_neg htq]
        have := evalPL_eq_hinge_aux (q :: r) q r rfl hc.2 hl' t (le_of_lt (not_le.mp htq))
        rw [this, hpq']
    · -- a proper segment
      have hlt : p.1 < q.1 := by
        rcases hc.1 with h1 | h1
        · exact h1
        · exact absurd (by rw [h1]) hpq
      have hne : q.1 - p.1 ≠ 0 := sub_ne_zero.mpr hpq
      rw [if_neg hpq]
      obtain ⟨m1, S1, hS1⟩ := posToSlope_head q r
      by_cases htq : t ≤ q.1
      · rw [if_pos htq, hinge_cons]
        have hz : hinge t ((q.2 - p.2) / (q.1 - p.1)) (posToSlope (q :: r)) = 0 := by
          apply hinge_eq_zero_of_le
          intro s hs
          have hs' := posToSlope_subset (q :: r) s.1 (List.mem_map_of_mem (f := Prod.fst) hs)
          simp only [xs, List.map_cons, List.mem_cons] at hs'
          rcases hs' with h2 | h2
          · rw [h2]; exact htq
          · exact le_trans htq (chain_le hc.2 s.1 h2)
        have hmax : max 0 (t - p.1) = t - p.1 := max_eq_right (by linarith)
        rw [hz, hmax]; ring
      · rw [if_neg htq]
        have htq' : q.1 ≤ t := le_of_lt (not_le.mp htq)
        have ih := evalPL_eq_hinge_aux (q :: r) q r rfl hc.2 hl' t htq'
        have hmax : max 0 (t - p.1) = t - p.1 := max_eq_right (by linarith)
        have e := hinge_shift t ((q.2 - p.2) / (q.1 - p.1)) q.1 m1 S1 htq'
        rw [ih, hinge_cons, hmax, hS1, e]
        generalize hinge t 0 ((q.1, m1) :: S1) = H
        field_simp
        ring

/-- **a well-formed depth list evaluates to the hinge sum of its slope list, everywhere** -/
theorem evalPL_eq_hinge (l : List (K × K)) (h : WF l) (t : K) :
    evalPL l t = hinge t 0 (posToSlope l) := by
  obtain ⟨p, r, rfl⟩ := List.exists_cons_of_ne_nil h.ne
  have hp : p.2 = 0 := h.first p rfl
  by_cases ht : p.1 ≤ t
  · rw [evalPL_eq_hinge_aux _ p r rfl h.chain h.last t ht, hp, zero_add]
  · have ht' : t < p.1 := not_le.mp ht
    rw [evalPL_left _ p r rfl t ht']
    symm
    apply hinge_eq_zero_of_le
    intro s hs
    have hs' := posToSlope_subset (p :: r) s.1 (List.mem_map_of_mem (f := Prod.fst) hs)
    simp only [xs, List.map_cons, List.mem_cons] at hs'
    rcases hs' with h2 | h2
    · rw [h2]; exact ht'.le
    · exact le_trans ht'.le (chain_le h.chain s.1 h2)

/-! ### `slopeToPos` of a strictly increasing slope list -/

theorem xs_slopeToPosAux : ∀ (S : List (K × K)) (y0 : K), xs (slopeToPosAux y0 S) = (xs S).tail
  | [], _ => by simp [slopeToPosAux]
  | [_], _ => by simp [slopeToPosAux]
  | p :: q :: r, y0 => by
    rw [slopeToPosAux_cons2]
    simp only [xs, List.map_cons, List.tail_cons]
    have := xs_slopeToPosAux (q :: r) (y0 + (q.1 - p.1) * p.2)
    simp only [xs, List.map_cons, List.tail_cons] at this
    rw [this]

theorem xs_slopeToPos (S : List (K × K)) : xs (slopeToPos S) = xs S := by
  cases S with
  | nil => simp [slopeToPos]
  | cons p r => rw [slopeToPos_cons]; simp only [xs, List.map_cons]; rw [← xs, xs_slopeToPosAux]; simp [xs]

theorem chain_of_strict : ∀ (l : List (K × K)), StrictX l → Chain l
  | [], _ => trivial
  | [_], _ => trivial
  | p :: q :: r, h => by
    unfold StrictX at h
    simp only [xs, List.map_cons, List.pairwise_cons] at h
    refine ⟨Or.inl (h.1 q.1 (by simp)), chain_of_strict (q :: r) ?_⟩
    unfold StrictX; simp only [xs, List.map_cons, List.pairwise_cons]; exact h.2

/-- the inverse direction: slopes of the reconstructed points are the slopes we started from -/
theorem posToSlope_slopeToPosAux : ∀ (S : List (K × K)) (p : K × K) (r : List (K × K)) (y0 p0 : K), S = p :: r →
    StrictX S → lastSlope p0 S = 0 → posToSlope ((p.1, y0) :: slopeToPosAux y0 S) = S
  | _, p, [], y0, p0, rfl, _, hl => by
    obtain ⟨x, m⟩ := p
    simp only [lastSlope_cons, lastSlope_nil] at hl
    subst hl
    simp [slopeToPosAux, posToSlope_single]
  | _, p, q :: r, y0, p0, rfl, hs, hl => by
    obtain ⟨x0, m0⟩ := p
    have hlt : x0 < q.1 := by
      unfold StrictX at hs; simp only [xs, List.map_cons, List.pairwise_cons] at hs
      exact hs.1 q.1 (by simp)
    have hs' : StrictX (q :: r) := by
      unfold StrictX at hs ⊢; simp only [xs, List.map_cons, List.pairwise_cons] at hs ⊢; exact hs.2
    have hne : q.1 - x0 ≠ 0 := sub_ne_zero.mpr (ne_of_gt hlt)
    rw [slopeToPosAux_cons2, posToSlope_cons2]
    simp only
    rw [if_neg (ne_of_gt hlt)]
    have ih := posToSlope_slopeToPosAux (q :: r) q r (y0 + (q.1 - x0) * m0) m0 rfl hs' (by simpa using hl)
    rw [ih]
    congr 2
    field_simp
    ring

/-- ordinate of the last reconstructed point -/
theorem slopeToPosAux_last : ∀ (S : List (K × K)) (p : K × K) (r : List (K × K)) (y0 : K), S = p :: r → StrictX S →
    ∀ q s, ((p.1, y0) :: slopeToPosAux y0 S).getLast? = some q → S.getLast? = some s →
      q.2 = y0 + hinge s.1 0 S
  | _, p, [], y0, rfl, _, q, s, hq, hs => by
    obtain ⟨x, m⟩ := p
    simp only [slopeToPosAux, List.getLast?_singleton, Option.some.injEq] at hq hs
    subst hq; subst hs
    simp
  | _, p, p' :: r, y0, rfl, hst, q, s, hq, hs => by
    obtain ⟨x0, m0⟩ := p
    have hs' : StrictX (p' :: r) := by
      unfold StrictX at hst ⊢; simp only [xs, List.map_cons, List.pairwise_cons] at hst ⊢; exact hst.2
    have hlt : x0 < p'.1 := by
      unfold StrictX at hst; simp only [xs, List.map_cons, List.pairwise_cons] at hst
      exact hst.1 p'.1 (by simp)
    rw [slopeToPosAux_cons2] at hq
    have hq' : ((p'.1, y0 + (p'.1 - x0) * m0) :: slopeToPosAux (y0 + (p'.1 - x0) * m0) (p' :: r)).getLast? = some q := by
      simpa [List.getLast?_cons_cons] using hq
    have hs2 : (p' :: r).getLast? = some s := by simpa [List.getLast?_cons_cons] using hs
    have ih := slopeToPosAux_last (p' :: r) p' r _ rfl hs' q s hq' hs2
    have hle : p'.1 ≤ s.1 := by
      have hc := chain_of_strict (p' :: r) hs'
      exact chain_le_last (p' :: r) s hc hs2 p'.1 (by simp [xs])
    obtain ⟨x1, m1⟩ := p'
    have hmax : max 0 (s.1 - x0) = s.1 - x0 := max_eq_right (by simp only at hle hlt; linarith)
    have e1 : hinge s.1 0 ((x0, m0) :: (x1, m1) :: r) =
        (m0 - 0) * max 0 (s.1 - x0) + hinge s.1 m0 ((x1, m1) :: r) := hinge_cons _ _ _ _ _
    have e2 := hinge_shift s.1 m0 x1 m1 r hle
    rw [ih, e1, hmax, e2]
    ring

/-- a strictly increasing slope list that ends with slope 0 and whose hinge sum returns to 0 at the
    last abscissa reconstructs to a well-formed depth list with exactly these slopes -/
theorem wf_slopeToPos (S : List (K × K)) (hne : S ≠ []) (hs : StrictX S) (hl : lastSlope 0 S = 0)
    (hz : ∀ s, S.getLast? = some s → hinge s.1 0 S = 0) :
    WF (slopeToPos S) ∧ StrictX (slopeToPos S) ∧ posToSlope (slopeToPos S) = S := by
  obtain ⟨p, r, rfl⟩ := List.exists_cons_of_ne_nil hne
  have hstrict : StrictX (slopeToPos (p :: r)) := by unfold StrictX; rw [xs_slopeToPos]; exact hs
  refine ⟨⟨?_, ?_, ?_, chain_of_strict _ hstrict⟩, hstrict, ?_⟩
  · rw [slopeToPos_cons]; simp
  · intro q hq; rw [slopeToPos_cons] at hq; simp only [List.head?_cons, Option.some.injEq] at hq; rw [← hq]
  · intro q hq
    rw [slopeToPos_cons] at hq
    obtain ⟨s, hs'⟩ : ∃ s, (p :: r).getLast? = some s := ⟨(p :: r).getLast (by simp), List.getLast?_eq_some_getLast (by simp)⟩
    rw [slopeToPosAux_last (p :: r) p r 0 rfl hs q s hq hs', hz s hs', add_zero]
  · rw [slopeToPos_cons]; exact posToSlope_slopeToPosAux (p :: r) p r 0 0 rfl hs hl

theorem evalPL_slopeToPos (S : List (K × K)) (hne : S ≠ []) (hs : StrictX S) (hl : lastSlope 0 S = 0)
    (hz : ∀ s, S.getLast? = some s → hinge s.1 0 S = 0) (t : K) :
    evalPL (slopeToPos S) t = hinge t 0 S := by
  obtain ⟨hwf, _, hps⟩ := wf_slopeToPos S hne hs hl hz
  rw [evalPL_eq_hinge _ hwf t, hps]

/-! ### the sum of two well-formed depth lists -/

theorem wf_lt_of_gt_last (a : List (K × K)) (ha : WF a) (u : K)
    (hu : ∀ x ∈ xs (posToSlope a), x < u) : ∀ p ∈ a, p.1 < u := by
  intro p hp
  obtain ⟨q, hq⟩ : ∃ q, a.getLast? = some q := ⟨a.getLast ha.ne, List.getLast?_eq_some_getLast ha.ne⟩
  have h1 : p.1 ≤ q.1 := chain_le_last a q ha.chain hq p.1 (List.mem_map_of_mem (f := Prod.fst) hp)
  exact lt_of_le_of_lt h1 (hu q.1 (posToSlope_last_mem a q hq))

/-- facts about the merged slope list of two well-formed depth lists -/
theorem sum_facts (a b : List (K × K)) (ha : WF a) (hb : WF b) :
    let S := sumSlopes 0 0 (posToSlope a) (posToSlope b)
    S ≠ [] ∧ StrictX S ∧ lastSlope 0 S = 0 ∧ (∀ s, S.getLast? = some s → hinge s.1 0 S = 0) ∧
      ∀ t, hinge t 0 S = evalPL a t + evalPL b t := by
  intro S
  have hA := posToSlope_ne_nil a ha.ne
  have hSne : S ≠ [] := sumSlopes_ne_nil_left 0 0 _ _ hA
  have hSs : StrictX S := strictX_sumSlopes 0 0 _ _ (strictX_posToSlope a ha.chain) (strictX_posToSlope b hb.chain)
  have hsum : ∀ t, hinge t 0 S = evalPL a t + evalPL b t := by
    intro t
    have := hinge_sumSlopes t (posToSlope a) (posToSlope b) 0 0
    rw [add_zero] at this
    rw [evalPL_eq_hinge a ha t, evalPL_eq_hinge b hb t]; exact this
  have hlast : lastSlope 0 S = 0 := by
    have := lastSlope_sumSlopes (0 : K) 0 (posToSlope a) (posToSlope b)
    rw [add_zero] at this
    rw [this, lastSlope_posToSlope a 0 ha.ne, lastSlope_posToSlope b 0 hb.ne, add_zero]
  refine ⟨hSne, hSs, hlast, ?_, hsum⟩
  intro s hs
  have hle : ∀ x ∈ xs S, x ≤ s.1 := chain_le_last S s (chain_of_strict S hSs) hs
  have hbey := hinge_beyond s.1 (s.1 + 1) (by linarith) S 0
    (fun q hq => hle q.1 (List.mem_map_of_mem (f := Prod.fst) hq))
  rw [hlast, sub_zero, zero_mul] at hbey
  have h1 : hinge (s.1 + 1) 0 S = 0 := by
    rw [hsum]
    have ea : evalPL a (s.1 + 1) = 0 := by
      apply evalPL_right
      apply wf_lt_of_gt_last a ha
      intro x hx
      have := hle x (sumSlopes_mem_left 0 0 _ _ x hx)
      linarith
    have eb : evalPL b (s.1 + 1) = 0 := by
      apply evalPL_right
      apply wf_lt_of_gt_last b hb
      intro x hx
      have := hle x (sumSlopes_mem_right 0 0 _ _ x hx)
      linarith
    rw [ea, eb, add_zero]
  linarith

/-- **the merged-slope sum is the pointwise sum, at every `t`, and is well-formed** -/
theorem addDepth_spec (a b : List (K × K)) (ha : WF a) (hb : WF b) :
    WF (addDepth a b) ∧ StrictX (addDepth a b) ∧ ∀ t, evalPL (addDepth a b) t = evalPL a t + evalPL b t := by
  obtain ⟨hne, hs, hl, hz, hsum⟩ := sum_facts a b ha hb
  obtain ⟨hwf, hst, _⟩ := wf_slopeToPos _ hne hs hl hz
  refine ⟨hwf, hst, fun t => ?_⟩
  unfold addDepth
  rw [evalPL_slopeToPos _ hne hs hl hz t, hsum t]

end PersimVerif.PLArith
