/-
  Runtime library of the statement-level source translator (harness/translator/py2lean_stmt.py, DESIGN.md 3.2):
  the Lean meaning of the few Python builtins that the generated definitions of `Generated/Src*.lean` use directly.
  Import-free.  Part of the translator's conventions (trusted like them); the model-specific bridging lemmas are in
  `Lemmas/SrcBridge*.lean`.
-/
namespace PersimVerif.SrcLib

/-- `x < acc` where `acc` is a running minimum that started at `np.inf` (`none` = +∞) -/
def ltTop {α : Type} [LT α] [DecidableLT α] (x : α) (acc : Option α) : Bool :=
  match acc with
  | none => true
  | some a => decide (x < a)

/-- `x > acc` where `acc` is a running maximum that started at `-np.inf` (`none` = -∞) -/
def gtBot {α : Type} [LT α] [DecidableLT α] (x : α) (acc : Option α) : Bool :=
  match acc with
  | none => true
  | some a => decide (a < x)

/-- Python `min(l, key=k)`: the FIRST minimal element (a later one wins only if its key is strictly smaller);
    `none` = ValueError on an empty sequence -/
def pyMinBy {β κ : Type} [LT κ] [DecidableLT κ] (key : β → κ) : List β → Option β
  | [] => none
  | p :: t => some (t.foldl (fun a q => if key q < key a then q else a) p)

/-- Python `max(l, key=k)`: the FIRST maximal element -/
def pyMaxBy {β κ : Type} [LT κ] [DecidableLT κ] (key : β → κ) : List β → Option β
  | [] => none
  | p :: t => some (t.foldl (fun a q => if key a < key q then q else a) p)

/-- the positions at which a Boolean mask is `True`, increasing: what `A[mask]` selects -/
def maskIdx (mask : List Bool) : List Nat := (List.range mask.length).filter fun v => mask.getD v false

/-- exceptions of Python builtins for which the model of a property has no error value of its own (the generated
    definition can raise them syntactically; the obligation shows that it does not under the stated hypotheses) -/
inductive PyErr where
  | indexError
  | valueError
  deriving DecidableEq, Repr

end PersimVerif.SrcLib
