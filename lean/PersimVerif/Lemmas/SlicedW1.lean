import PersimVerif.Lemmas.SortedL1
import PersimVerif.Lemmas.PMSum
import Mathlib.Algebra.BigOperators.Fin
import Mathlib.Algebra.BigOperators.Group.Multiset.Basic
import Mathlib.Analysis.Real.Sqrt
import Mathlib.Tactic.Ring
import Mathlib.Tactic.Linarith
import Mathlib.Tactic.Positivity

/-!
# One direction of the sliced Wasserstein distance against a partial matching (helper for C15)

For a unit direction `d`, the sorted L1 cost between `proj_d(F) ∪ proj_d(Δ G)` and `proj_d(G) ∪ proj_d(Δ F)`
is at most twice the cost of any partial matching between `F` and `G`: pair a matched `p ↔ q` as
`p ↔ q` and `Δq ↔ Δp`, an unmatched `p` as `p ↔ Δp`; the sorted pairing is no more expensive than this one.
-/
namespace PersimVerif.Lemmas.SlicedW1
open PersimVerif.Sliced PersimVerif.Lemmas PersimVerif.Lemmas.SortedL1 PersimVerif.Spec List

noncomputable def euclid (p q : ℝ × ℝ) : ℝ := Real.sqrt ((p.1 - q.1) ^ 2 + (p.2 - q.2) ^ 2)
noncomputable def toDiag (p : ℝ × ℝ) : ℝ := |p.2 - p.1| / Real.sqrt 2

/-- the orthogonal projection onto the diagonal -/
noncomputable def mid (p : ℝ × ℝ) : ℝ × ℝ := ((p.1 + p.2) / 2, (p.1 + p.2) / 2)

/-! ### the cost of a list of pairs dominates the sorted cost -/

/-- total cost `Σ |a − b|` of a list of pairs -/
noncomputable def pairCost (ps : List (ℝ × ℝ)) : ℝ := (ps.map fun ab => |ab.1 - ab.2|).sum

theorem cb_unzip (ps : List (ℝ × ℝ)) : cityblock (ps.map Prod.fst) (ps.map Prod.snd) = pairCost ps := by
  induction ps with
  | nil => simp [pairCost]
  | cons a t ih => simp [pairCost, cb_cons] at ih ⊢; rw [ih]

theorem sortedCost_le_pairCost {U V : List ℝ} (ps : List (ℝ × ℝ))
    (hU : (ps.map Prod.fst).Perm U) (hV : (ps.map Prod.snd).Perm V) :
    sortedCost U V ≤ pairCost ps := by
  rw [← sortedCost_perm hU hV, ← cb_unzip]
  exact sortedCost_le_cb _ _ (by simp)

theorem pairCost_append (a b : List (ℝ × ℝ)) : pairCost (a ++ b) = pairCost a + pairCost b := by
  simp [pairCost]

theorem pairCost_flatten (Ls : List (List (ℝ × ℝ))) :
    pairCost Ls.flatten = (Ls.map pairCost).sum := by
  induction Ls with
  | nil => simp [pairCost]
  | cons l t ih => simp [pairCost_append, ih]

/-! ### multisets of flattened families -/

theorem coe_flatten_eq_sum {α : Type} (Ls : List (List α)) :
    ((Ls.flatten : List α) : Multiset α) = (Ls.map fun l => ((l : List α) : Multiset α)).sum := by
  induction Ls with
  | nil => simp
  | cons l t ih =>
    rw [List.flatten_cons, ← Multiset.coe_add, ih, List.map_cons, List.sum_cons]

theorem coe_flatten_ofFn {α : Type} {n : ℕ} (L : Fin n → List α) :
    (((List.ofFn L).flatten : List α) : Multiset α) = ∑ i, ((L i : List α) : Multiset α) := by
  rw [coe_flatten_eq_sum, List.map_ofFn, List.sum_ofFn]; rfl

theorem coe_map_eq_sum_singletons {α β : Type} (l : List α) (h : α → β) :
    ((l.map h : List β) : Multiset β) = (l.map fun p => ({h p} : Multiset β)).sum := by
  induction l with
  | nil => simp
  | cons a t ih =>
    rw [List.map_cons, List.map_cons, List.sum_cons, ← ih, Multiset.singleton_add, Multiset.cons_coe]

theorem coe_map_eq_finsum {α β : Type} (l : List α) (h : α → β) :
    ((l.map h : List β) : Multiset β) = ∑ i : Fin l.length, ({h (l.get i)} : Multiset β) := by
  rw [coe_map_eq_sum_singletons]
  exact (Fin.sum_univ_fun_getElem l (fun p => ({h p} : Multiset β))).symm

/-! ### elementary inequalities for one direction -/

section Ineq
variable {d : ℝ × ℝ} (hd : d.1 * d.1 + d.2 * d.2 = 1)
include hd

theorem abs_dot_sub_le (p q : ℝ × ℝ) : |dot d p - dot d q| ≤ euclid p q := by
  unfold euclid
  apply Real.abs_le_sqrt
  unfold dot
  nlinarith [sq_nonneg (d.1 * (p.2 - q.2) - d.2 * (p.1 - q.1))]

theorem abs_dot_mid_sub_le (p q : ℝ × ℝ) : |dot d (mid q) - dot d (mid p)| ≤ euclid p q := by
  unfold euclid
  apply Real.abs_le_sqrt
  unfold dot mid
  simp only
  have h1 : (d.1 + d.2) ^ 2 ≤ 2 := by nlinarith [sq_nonneg (d.1 - d.2)]
  have h2 : ((q.1 + q.2) - (p.1 + p.2)) ^ 2 ≤ 2 * ((p.1 - q.1) ^ 2 + (p.2 - q.2) ^ 2) := by
    nlinarith [sq_nonneg ((p.1 - q.1) - (p.2 - q.2))]
  have e : d.1 * ((q.1 + q.2) / 2) + d.2 * ((q.1 + q.2) / 2) - (d.1 * ((p.1 + p.2) / 2) + d.2 * ((p.1 + p.2) / 2))
      = (d.1 + d.2) * (((q.1 + q.2) - (p.1 + p.2)) / 2) := by ring
  rw [e, mul_pow, div_pow]
  have h3 : 0 ≤ ((q.1 + q.2) - (p.1 + p.2)) ^ 2 := sq_nonneg _
  have h4 : 0 ≤ (d.1 + d.2) ^ 2 := sq_nonneg _
  nlinarith [mul_le_mul h1 h2 h3 (by norm_num : (0 : ℝ) ≤ 2)]

theorem abs_dot_sub_mid_le (p : ℝ × ℝ) : |dot d p - dot d (mid p)| ≤ toDiag p := by
  have ht : toDiag p = Real.sqrt ((p.1 - p.2) ^ 2 / 2) := by
    unfold toDiag
    rw [Real.sqrt_div (sq_nonneg _), Real.sqrt_sq_eq_abs, abs_sub_comm]
  have e : dot d p - dot d (mid p) = (d.1 - d.2) * ((p.1 - p.2) / 2) := by unfold dot mid; ring
  rw [ht, e]
  apply Real.abs_le_sqrt
  have h1 : (d.1 - d.2) ^ 2 ≤ 2 := by nlinarith [sq_nonneg (d.1 + d.2)]
  rw [mul_pow, div_pow]
  nlinarith [sq_nonneg (p.1 - p.2), mul_le_mul_of_nonneg_right h1 (sq_nonneg (p.1 - p.2))]

end Ineq

/-! ### the pairing induced by a partial matching -/

section Match
variable {F G : List (ℝ × ℝ)} (d : ℝ × ℝ)

/-- pairs contributed by row `i`: a matched `p ↔ q` gives `p ↔ q` and `Δq ↔ Δp`, an unmatched `p` gives `p ↔ Δp` -/
noncomputable def rowPairs (m : PM (Fin F.length) (Fin G.length)) (i : Fin F.length) : List (ℝ × ℝ) :=
  match m.f i with
  | some j => [(dot d (F.get i), dot d (G.get j)), (dot d (mid (G.get j)), dot d (mid (F.get i)))]
  | none => [(dot d (F.get i), dot d (mid (F.get i)))]

/-- an unmatched column `q` gives `Δq ↔ q` -/
noncomputable def colPairs (m : PM (Fin F.length) (Fin G.length)) (j : Fin G.length) : List (ℝ × ℝ) :=
  match m.g j with
  | some _ => []
  | none => [(dot d (mid (G.get j)), dot d (G.get j))]

noncomputable def allPairs (m : PM (Fin F.length) (Fin G.length)) : List (ℝ × ℝ) :=
  (List.ofFn (rowPairs d m)).flatten ++ (List.ofFn (colPairs d m)).flatten

private lemma coe_map_allPairs (m : PM (Fin F.length) (Fin G.length)) (pr : ℝ × ℝ → ℝ) :
    (((allPairs d m).map pr : List ℝ) : Multiset ℝ) =
      (∑ i, (((rowPairs d m i).map pr : List ℝ) : Multiset ℝ)) +
        ∑ j, (((colPairs d m j).map pr : List ℝ) : Multiset ℝ) := by
  unfold allPairs
  rw [List.map_append, List.map_flatten, List.map_flatten, List.map_ofFn, List.map_ofFn,
    ← Multiset.coe_add, coe_flatten_ofFn, coe_flatten_ofFn]
  rfl

theorem allPairs_fst_perm (m : PM (Fin F.length) (Fin G.length)) :
    ((allPairs d m).map Prod.fst).Perm (slice d F (G.map mid)) := by
  rw [← Multiset.coe_eq_coe, coe_map_allPairs]
  unfold slice
  rw [← Multiset.coe_add, List.map_map, coe_map_eq_finsum, coe_map_eq_finsum]
  have hr : ∀ i, (((rowPairs d m i).map Prod.fst : List ℝ) : Multiset ℝ) =
      {dot d (F.get i)} + (m.f i).elim 0 (fun j => ({dot d (mid (G.get j))} : Multiset ℝ)) := by
    intro i; unfold rowPairs
    cases m.f i with
    | none => simp
    | some j => simp; rfl
  have hc : ∀ j, (((colPairs d m j).map Prod.fst : List ℝ) : Multiset ℝ) =
      (m.g j).elim ({dot d (mid (G.get j))} : Multiset ℝ) (fun _ => 0) := by
    intro j; unfold colPairs
    cases m.g j with
    | none => simp
    | some i => simp
  simp only [hr, hc, Finset.sum_add_distrib, Function.comp_apply]
  rw [add_assoc, PM.sum_reindex m (fun j => ({dot d (mid (G.get j))} : Multiset ℝ))]

theorem allPairs_snd_perm (m : PM (Fin F.length) (Fin G.length)) :
    ((allPairs d m).map Prod.snd).Perm (slice d G (F.map mid)) := by
  rw [← Multiset.coe_eq_coe, coe_map_allPairs]
  unfold slice
  rw [← Multiset.coe_add, List.map_map, coe_map_eq_finsum, coe_map_eq_finsum]
  have hr : ∀ i, (((rowPairs d m i).map Prod.snd : List ℝ) : Multiset ℝ) =
      {dot d (mid (F.get i))} + (m.f i).elim 0 (fun j => ({dot d (G.get j)} : Multiset ℝ)) := by
    intro i; unfold rowPairs
    cases m.f i with
    | none => simp
    | some j =>
      simp only [List.map_cons, List.map_nil, Option.elim_some]
      rw [add_comm]; rfl
  have hc : ∀ j, (((colPairs d m j).map Prod.snd : List ℝ) : Multiset ℝ) =
      (m.g j).elim ({dot d (G.get j)} : Multiset ℝ) (fun _ => 0) := by
    intro j; unfold colPairs
    cases m.g j with
    | none => simp
    | some i => simp
  simp only [hr, hc, Finset.sum_add_distrib, Function.comp_apply]
  rw [add_assoc, PM.sum_reindex m (fun j => ({dot d (G.get j)} : Multiset ℝ)), add_comm]

theorem toDiag_nonneg (p : ℝ × ℝ) : 0 ≤ toDiag p := by unfold toDiag; positivity

theorem pairCost_allPairs_le (hd : d.1 * d.1 + d.2 * d.2 = 1) (m : PM (Fin F.length) (Fin G.length)) :
    pairCost (allPairs d m) ≤
      2 * m.sumCost (fun i j => euclid (F.get i) (G.get j)) (fun i => toDiag (F.get i))
        (fun j => toDiag (G.get j)) := by
  unfold allPairs PM.sumCost
  rw [pairCost_append, pairCost_flatten, pairCost_flatten, List.map_ofFn, List.map_ofFn, List.sum_ofFn,
    List.sum_ofFn, mul_add, Finset.mul_sum, Finset.mul_sum]
  refine add_le_add (Finset.sum_le_sum fun i _ => ?_) (Finset.sum_le_sum fun j _ => ?_)
  · simp only [Function.comp_apply, rowPairs, PM.rowCost]
    cases m.f i with
    | none =>
      have h1 := abs_dot_sub_mid_le hd (F.get i)
      have h2 := toDiag_nonneg (F.get i)
      simp only [pairCost, List.map_cons, List.map_nil, List.sum_cons, List.sum_nil, add_zero]
      linarith
    | some j =>
      have h1 := abs_dot_sub_le hd (F.get i) (G.get j)
      have h2 := abs_dot_mid_sub_le hd (F.get i) (G.get j)
      simp only [pairCost, List.map_cons, List.map_nil, List.sum_cons, List.sum_nil, add_zero]
      linarith
  · simp only [Function.comp_apply, colPairs, PM.colCost]
    cases m.g j with
    | none =>
      have h1 := abs_dot_sub_mid_le hd (G.get j)
      have h2 := toDiag_nonneg (G.get j)
      rw [abs_sub_comm] at h1
      simp only [pairCost, List.map_cons, List.map_nil, List.sum_cons, List.sum_nil, add_zero]
      linarith
    | some i => simp [pairCost]

/-- **one unit direction**: the sorted cost of the augmented projections is at most twice the cost of any
    partial matching -/
theorem sortedCost_slice_le (hd : d.1 * d.1 + d.2 * d.2 = 1) (m : PM (Fin F.length) (Fin G.length)) :
    sortedCost (slice d F (G.map mid)) (slice d G (F.map mid)) ≤
      2 * m.sumCost (fun i j => euclid (F.get i) (G.get j)) (fun i => toDiag (F.get i))
        (fun j => toDiag (G.get j)) :=
  le_trans (sortedCost_le_pairCost _ (allPairs_fst_perm d m) (allPairs_snd_perm d m))
    (pairCost_allPairs_le d hd m)

end Match

end PersimVerif.Lemmas.SlicedW1
