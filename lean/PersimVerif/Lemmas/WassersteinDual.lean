import PersimVerif.Lemmas.WassersteinModel
import Mathlib.Algebra.Order.Monoid.WithTop
import Mathlib.Algebra.Order.BigOperators.Group.Finset
import Mathlib.Data.List.Perm.Subperm
import Mathlib.Data.List.Nodup
import Mathlib.Data.Fintype.EquivFin
import Mathlib.Tactic.Linarith

/-!
# Weak duality for the assignment problem, and soundness of the executable checker `dualCheck`

`dualCheck D cols a b` (Model/Wasserstein.lean) is what the driver runs, at `Rat`, for the harness
command `cert.dual`.  `dualCheck_sound'`: an accepted certificate proves that the claimed value is
the optimum of the linear sum assignment problem on `D`.
-/
namespace PersimVerif.WsLemmas
open PersimVerif.Wasserstein

section abstract
variable {R C K : Type} [Fintype R] [Fintype C] [AddCommMonoid K] [LinearOrder K] [IsOrderedAddMonoid K]

/-- weak duality: feasible potentials bound every assignment from below -/
theorem weak_duality (D : R → C → WithTop K) (a : R → K) (b : C → K)
    (hfeas : ∀ i j, ((a i + b j : K) : WithTop K) ≤ D i j) (τ : R ≃ C) :
    (((∑ i, a i) + ∑ j, b j : K) : WithTop K) ≤ ∑ i, D i (τ i) := by
  have e : (∑ i, a i) + ∑ j, b j = ∑ i, (a i + b (τ i)) := by
    rw [Finset.sum_add_distrib, Equiv.sum_comp τ b]
  rw [e, WithTop.coe_sum]
  exact Finset.sum_le_sum fun i _ => hfeas i (τ i)

end abstract

section lists
variable {K : Type}

/-- the function form of a list-of-lists matrix (`⊤` for `np.inf`; an index outside the lists also
    reads `⊤`, which the checker excludes) -/
def matFn (D : Mat K) (i j : Fin D.length) : WithTop K := toTop ((lookup D i.val j.val).getD none)

theorem perm_of_isPermOfRange (n : Nat) (cols : List Nat) (h : isPermOfRange n cols = true) :
    cols.length = n ∧
      ∃ σ : Equiv.Perm (Fin n), ∀ i : Fin n, cols[i.val]? = some (σ i).val := by
  simp only [isPermOfRange, Bool.and_eq_true, beq_iff_eq, List.all_eq_true, List.mem_range,
    List.contains_iff_mem] at h
  obtain ⟨hlen, hall⟩ := h
  have hsub : List.range n ⊆ cols := fun j hj => hall j (List.mem_range.mp hj)
  have hperm : (List.range n).Perm cols :=
    (List.subperm_of_subset List.nodup_range hsub).perm_of_length_le (by simp [hlen])
  have hnd : cols.Nodup := hperm.nodup_iff.mp List.nodup_range
  have hlt : ∀ x ∈ cols, x < n := fun x hx => List.mem_range.mp (hperm.mem_iff.mpr hx)
  let f : Fin n → Fin n := fun i => ⟨cols[i.val]'(hlen ▸ i.isLt), hlt _ (List.getElem_mem _)⟩
  have finj : Function.Injective f := fun i j hij => by
    have := congrArg Fin.val hij
    simp only [f] at this
    exact Fin.ext ((hnd.getElem_inj_iff).mp this)
  refine ⟨hlen, Equiv.ofBijective f (Finite.injective_iff_bijective.mp finj), fun i => ?_⟩
  rw [List.getElem?_eq_getElem (hlen ▸ i.isLt)]
  rfl

theorem zip_range_eq_ofFn (n : Nat) (cols : List Nat) (hlen : cols.length = n) :
    (List.range n).zip cols = List.ofFn fun i : Fin n => (i.val, cols[i.val]'(hlen ▸ i.isLt)) := by
  apply List.ext_getElem
  · simp [hlen]
  · intro i h1 h2
    simp

variable [AddCommMonoid K]

theorem foldl_add_eq (l : List K) (acc : K) : l.foldl (· + ·) acc = acc + l.sum := by
  induction l generalizing acc with
  | nil => simp
  | cons x l ih => simp [List.foldl_cons, ih, add_assoc]

theorem listSum_eq_sum (l : List K) : listSum l = l.sum := by
  simp [listSum, foldl_add_eq]

theorem sum_fin_getElem (l : List K) (n : Nat) (h : l.length = n) :
    ∑ i : Fin n, l[i.val]'(h ▸ i.isLt) = l.sum := by
  subst h; exact Fin.sum_univ_getElem l

end lists

section check
variable {K : Type} [Field K] [LinearOrder K] [IsStrictOrderedRing K]

omit [IsStrictOrderedRing K] in
theorem feasible_of_dualFeasible (D : Mat K) (a b : List K) (ha : a.length = D.length)
    (hb : b.length = D.length) (h : dualFeasible D D.length a b = true) (i j : Fin D.length) :
    (lookup D i.val j.val).isSome ∧
      ((a[i.val]'(lt_of_lt_of_eq i.isLt ha.symm) + b[j.val]'(lt_of_lt_of_eq j.isLt hb.symm) : K) : WithTop K) ≤ matFn D i j := by
  simp only [dualFeasible, List.all_eq_true, List.mem_range] at h
  have hij := h i.val i.isLt j.val j.isLt
  have hai : a[i.val]? = some (a[i.val]'(lt_of_lt_of_eq i.isLt ha.symm)) := List.getElem?_eq_getElem _
  have hbj : b[j.val]? = some (b[j.val]'(lt_of_lt_of_eq j.isLt hb.symm)) := List.getElem?_eq_getElem _
  rw [hai, hbj] at hij
  unfold matFn
  cases hl : lookup D i.val j.val with
  | none => rw [hl] at hij; simp at hij
  | some e =>
    rw [hl] at hij
    cases e with
    | none => exact ⟨rfl, le_top⟩
    | some x =>
      simp only [decide_eq_true_eq] at hij
      exact ⟨rfl, WithTop.coe_le_coe.mpr hij⟩

/-- **soundness of the executable dual-certificate checker** -/
theorem dualCheck_sound' (D : Mat K) (cols : List Nat) (a b : List K) (w : K)
    (h : dualCheck D cols a b = some w) :
    ∃ σ : Equiv.Perm (Fin D.length), (∀ i : Fin D.length, cols[i.val]? = some (σ i).val) ∧
      ∑ i, matFn D i (σ i) = (w : WithTop K) ∧
      ∀ τ : Equiv.Perm (Fin D.length), (w : WithTop K) ≤ ∑ i, matFn D i (τ i) := by
  unfold dualCheck at h
  simp only at h
  split at h
  case isFalse => cases h
  case isTrue hc =>
    simp only [Bool.and_eq_true, beq_iff_eq] at hc
    obtain ⟨⟨⟨hperm, hfeas⟩, ha⟩, hb⟩ := hc
    obtain ⟨hlen, σ, hσ⟩ := perm_of_isPermOfRange _ _ hperm
    have hF := feasible_of_dualFeasible D a b ha hb hfeas
    split at h
    case h_2 => cases h
    case h_1 sel hsel =>
      split at h
      case h_2 => cases h
      case h_1 w' hw' =>
        split at h
        case isFalse => cases h
        case isTrue hsum =>
          cases h
          -- the selected entries
          have hcols : ∀ i : Fin D.length, cols[i.val]'(lt_of_lt_of_eq i.isLt hlen.symm) = (σ i).val := fun i => by
            have := hσ i
            rw [List.getElem?_eq_getElem (lt_of_lt_of_eq i.isLt hlen.symm)] at this
            exact Option.some.inj this
          have hsel' : sel = List.ofFn fun i : Fin D.length => (lookup D i.val (σ i).val).getD none := by
            rw [zip_range_eq_ofFn _ _ hlen,
              mapM_eq_some_map _ (fun p => (lookup D p.1 p.2).getD none)] at hsel
            · rw [← Option.some.inj hsel, List.map_ofFn]
              congr 1
              funext i
              simp [hcols]
            · intro p hp
              obtain ⟨i, rfl⟩ := (List.mem_ofFn' _ _).mp hp
              have := (hF i (σ i)).1
              simp only [hcols]
              obtain ⟨e, he⟩ := Option.isSome_iff_exists.mp this
              simp [he]
          have hval : ∑ i, matFn D i (σ i) = (w : WithTop K) := by
            have := toTop_optSum_ofFn (fun i : Fin D.length => (lookup D i.val (σ i).val).getD none)
            rw [← hsel', hw'] at this
            exact this.symm
          refine ⟨σ, hσ, hval, fun τ => ?_⟩
          have hwd := weak_duality (matFn D) (fun i => a[i.val]'(lt_of_lt_of_eq i.isLt ha.symm))
            (fun j => b[j.val]'(lt_of_lt_of_eq j.isLt hb.symm)) (fun i j => (hF i j).2) τ
          rw [sum_fin_getElem a _ ha, sum_fin_getElem b _ hb, ← listSum_eq_sum, ← listSum_eq_sum,
            hsum] at hwd
          exact hwd

end check
end PersimVerif.WsLemmas
