import PersimVerif.Model.Approx
import PersimVerif.Model.PLArith
import PersimVerif.Lemmas.SrcLibLandscape

/-!
# Bridge between the translated `tools.vectorize` and Model/Approx.lean (C08)

`Generated/SrcPLVec.lean` (written by harness/translator/py2lean_landscape.py from persim/landscapes/tools.py on every run)
holds `vectorize`, translated statement by statement.  This hand-written file has

* `Ref.*` -- the REVIEWED Lean text of that translation (the generated file proves `generated = Ref.*`, `src_<def>_eq_ref`, by `rfl`);
* the proof that the values of `Ref.vectorize` are the model's `Approx.vectorize` for every exact landscape object (computed or
  lazy) with at least one depth, every optional `start` / `stop`, every `num_steps`, with `np.linspace` the model's `linspace`
  and `np.interp` the parameter `interp` (its contract `npInterp` is a hypothesis of C08's theorem `vectorize_samples_evalPL`);
  and what the source does on a landscape with no depth (`IndexError` only when a bound has to be computed; with both bounds
  given the constructor's `ValueError` -- the model answers `noDepths` for both).
Mathlib-free.
-/
set_option linter.unusedVariables false
set_option linter.unusedSectionVars false
set_option linter.unusedSimpArgs false

namespace PersimVerif.SrcBridge.LandscapeVec
open PersimVerif.Approx PersimVerif.SrcLib PersimVerif.SrcLib.Landscape

/-! ## `Ref`: the reviewed Lean text of the translation -/
namespace Ref

section
variable {α β : Type} [Add α] [Sub α] [Mul α] [Div α] [Neg α] [Zero α] [NatCast α] [LT α]
  [DecidableLT α] [LE α] [DecidableLE α] [Max α] [Min α] [DecidableEq α]

/-- one round of `for depth in l.critical_pairs` of `vectorize` -/
def vectorize_round (interp : List (α × α) → α → α) (grid : List α) (result : List (List α)) (depth : List (α × α)) :
    Except Err (List (List α)) :=
  if depth.isEmpty then
    .error Err.emptyDepth
  else
    let xs : List α := depth.map fun q => q.1
    let ys : List α := depth.map fun q => q.2
    let result_1 : List (List α) := result ++ [interpEach interp grid xs ys]
    .ok result_1

/-- `tools.vectorize` -/
def vectorize (round : List α → List (List α) → List (α × α) → Except Err (List (List α)))
    (linspace : α → α → Nat → List α) (sweep : List β → List (List (α × α))) (l : ExactObj α β)
    (start stop : Option α) (num_steps : Nat) : Except Err (GridObj α β) :=
  let l_1 : ExactObj α β := ExactObj.compute_landscape sweep l
  let start_1 : Except Err α :=
    match start with
    | some start_2 => .ok start_2
    | none =>
      match pyGet? l_1.critical_pairs 0 with
      | none => .error Err.noDepths
      | some t =>
      match pyMinBy (fun (it : α × α) => it.1) t with
      | none => .error Err.emptyDepth
      | some t_1 =>
      let start_2 : α := t_1.1
      .ok start_2
  match start_1 with
  | .error e => .error e
  | .ok start_3 =>
  let stop_1 : Except Err α :=
    match stop with
    | some stop_2 => .ok stop_2
    | none =>
      match pyGet? l_1.critical_pairs 0 with
      | none => .error Err.noDepths
      | some t_2 =>
      match pyMaxBy (fun (it : α × α) => it.1) t_2 with
      | none => .error Err.emptyDepth
      | some t_3 =>
      let stop_2 : α := t_3.1
      .ok stop_2
  match stop_1 with
  | .error e => .error e
  | .ok stop_3 =>
  let grid : List α := linspace start_3 stop_3 num_steps
  let result : List (List α) := []
  match l_1.critical_pairs.foldlM (round grid) result with
  | .error e => .error e
  | .ok result_1 =>
  GridObj.new Err.noSteps Err.startAfterStop l_1.hom_deg start_3 stop_3 num_steps result_1

end
end Ref

/-! ## the reviewed text against the model -/

section
variable {α β : Type} [Add α] [Sub α] [Mul α] [Div α] [Neg α] [Zero α] [NatCast α] [LT α]
  [DecidableLT α] [LE α] [DecidableLE α] [Max α] [Min α] [DecidableEq α]

theorem foldl_key_min {γ : Type} (key : γ → α) (t : List γ) (p : γ) :
    key (t.foldl (fun a q => if key q < key a then q else a) p) =
      t.foldl (fun m q => if key q < m then key q else m) (key p) := by
  induction t generalizing p with
  | nil => rfl
  | cons q t ih =>
    simp only [List.foldl]
    rw [ih]
    by_cases h : key q < key p <;> simp [h]

theorem foldl_key_max {γ : Type} (key : γ → α) (t : List γ) (p : γ) :
    key (t.foldl (fun a q => if key a < key q then q else a) p) =
      t.foldl (fun m q => if m < key q then key q else m) (key p) := by
  induction t generalizing p with
  | nil => rfl
  | cons q t ih =>
    simp only [List.foldl]
    rw [ih]
    by_cases h : key p < key q <;> simp [h]

/-- `min(d, key=itemgetter(0))[0]` is the model's `minAbscissa` -/
theorem pyMinBy_fst (d : List (α × α)) : (pyMinBy (fun (it : α × α) => it.1) d).map (·.1) = minAbscissa d := by
  cases d with
  | nil => rfl
  | cons p t => simp only [pyMinBy, minAbscissa, Option.map, foldl_key_min]

/-- `max(d, key=itemgetter(0))[0]` is the model's `maxAbscissa` -/
theorem pyMaxBy_fst (d : List (α × α)) : (pyMaxBy (fun (it : α × α) => it.1) d).map (·.1) = maxAbscissa d := by
  cases d with
  | nil => rfl
  | cons p t => simp only [pyMaxBy, maxAbscissa, Option.map, foldl_key_max]

theorem zip_unzip : ∀ (d : List (α × α)), (d.map fun q => q.1).zip (d.map fun q => q.2) = d
  | [] => rfl
  | p :: d => by simp [zip_unzip d]

/-- the loop: `ValueError` at the first empty depth, else one interpolated row per depth -/
theorem round_fold (interp : List (α × α) → α → α) (grid : List α) : ∀ (cps : List (List (α × α))) (acc : List (List α)),
    cps.foldlM (Ref.vectorize_round interp grid) acc =
      if cps.any List.isEmpty then .error Err.emptyDepth else .ok (acc ++ cps.map fun depth => grid.map (interp depth))
  | [], acc => by simp [List.foldlM, pure, Except.pure]
  | d :: cps, acc => by
    rw [List.foldlM_cons]
    by_cases hd : d.isEmpty = true
    · simp [Ref.vectorize_round, hd, bind, Except.bind]
    · have hd' : d.isEmpty = false := by simpa using hd
      simp only [Ref.vectorize_round, hd', Bool.false_eq_true, if_false, bind, Except.bind, List.any_cons, Bool.false_or]
      rw [round_fold interp grid cps]
      simp [Landscape.interpEach, zip_unzip]

theorem linspace_isEmpty (s e : α) (n : Nat) : (linspace s e n).isEmpty = decide (n = 0) := by
  cases n <;> simp [linspace, List.range_succ]

theorem sizeZero_rows (grid : List α) (f : List (α × α) → α → α) (d : List (α × α)) (cps : List (List (α × α))) :
    sizeZero ((d :: cps).map fun depth => grid.map (f depth)) = grid.isEmpty := by
  unfold sizeZero
  simp only [List.all_map, Function.comp_def, List.isEmpty_map, List.all_cons]
  cases grid.isEmpty <;> simp

/-- behind the two bounds: the loop and the constructor against the model's last three guards -/
theorem vectorize_tail (interp : List (α × α) → α → α) (hd : Nat) (d0 : List (α × α)) (rest : List (List (α × α)))
    (s e : α) (n : Nat) :
    (match (d0 :: rest).foldlM (Ref.vectorize_round interp (linspace s e n)) ([] : List (List α)) with
      | Except.error err => Except.error err
      | Except.ok result_1 =>
        (GridObj.new Err.noSteps Err.startAfterStop hd s e n result_1 : Except Err (GridObj α β))).map (fun (g : GridObj α β) => g.values) =
      if (d0 :: rest).any List.isEmpty then Except.error Err.emptyDepth
      else if n = 0 then Except.error Err.noSteps
      else if e < s then Except.error Err.startAfterStop
      else Except.ok ((d0 :: rest).map fun depth => (linspace s e n).map (interp depth)) := by
  rw [round_fold]
  by_cases ha : (d0 :: rest).any List.isEmpty = true
  · rw [if_pos ha, if_pos ha]; rfl
  · rw [if_neg ha, if_neg ha]
    simp only [List.nil_append, GridObj.new, sizeZero_rows, linspace_isEmpty]
    by_cases hn : n = 0
    · simp [hn, Except.map]
    · simp only [hn, decide_false, Bool.false_eq_true, if_false]
      by_cases hes : e < s
      · simp [hes, Except.map]
      · simp [hes, Except.map]

/-- the values of `vectorize` on a landscape with at least one depth: the model's `Approx.vectorize` -/
theorem vectorize_eq_model (interp : List (α × α) → α → α) (sweep : List β → List (List (α × α))) (l : ExactObj α β)
    (start stop : Option α) (n : Nat) (hne : (ExactObj.compute_landscape sweep l).critical_pairs ≠ []) :
    (Ref.vectorize (Ref.vectorize_round interp) linspace sweep l start stop n).map (fun (g : GridObj α β) => g.values) =
      Approx.vectorize interp (ExactObj.compute_landscape sweep l).critical_pairs start stop n := by
  simp only [Ref.vectorize, Approx.vectorize]
  generalize (ExactObj.compute_landscape sweep l).hom_deg = hd
  generalize (ExactObj.compute_landscape sweep l).critical_pairs = cps at hne ⊢
  cases cps with
  | nil => exact absurd rfl hne
  | cons d0 rest =>
    have hget : pyGet? (d0 :: rest) 0 = some d0 := rfl
    have hmin := pyMinBy_fst d0
    have hmax := pyMaxBy_fst d0
    simp only [hget]
    cases start with
    | some s =>
      cases stop with
      | some e => simp only [optOr]; exact vectorize_tail interp hd d0 rest s e n
      | none =>
        simp only [optOr]
        cases hM : pyMaxBy (fun (it : α × α) => it.1) d0 with
        | none => rw [hM] at hmax; simp only [Option.map] at hmax; rw [← hmax]; rfl
        | some t =>
          rw [hM] at hmax; simp only [Option.map] at hmax; rw [← hmax]
          exact vectorize_tail interp hd d0 rest s t.1 n
    | none =>
      simp only [optOr]
      cases hm : pyMinBy (fun (it : α × α) => it.1) d0 with
      | none => rw [hm] at hmin; simp only [Option.map] at hmin; rw [← hmin]; rfl
      | some t =>
        rw [hm] at hmin; simp only [Option.map] at hmin; rw [← hmin]
        cases stop with
        | some e => exact vectorize_tail interp hd d0 rest t.1 e n
        | none =>
          cases hM : pyMaxBy (fun (it : α × α) => it.1) d0 with
          | none => rw [hM] at hmax; simp only [Option.map] at hmax; rw [← hmax]; rfl
          | some t' =>
            rw [hM] at hmax; simp only [Option.map] at hmax; rw [← hmax]
            exact vectorize_tail interp hd d0 rest t.1 t'.1 n

/-- the attributes of the landscape `vectorize` returns: the degree of `l`, the grid parameters it was given or computed -/
theorem vectorize_attrs (interp : List (α × α) → α → α) (sweep : List β → List (List (α × α))) (l : ExactObj α β)
    (s e : α) (n : Nat) (g : GridObj α β)
    (h : Ref.vectorize (Ref.vectorize_round interp) linspace sweep l (some s) (some e) n = .ok g) :
    g.hom_deg = l.hom_deg ∧ g.start = s ∧ g.stop = e ∧ g.num_steps = n ∧ g.dgms = [] := by
  unfold Ref.vectorize at h
  simp only at h
  split at h
  · cases h
  · unfold GridObj.new at h
    split at h
    · cases h
    · split at h
      · cases h
      · cases h
        refine ⟨?_, rfl, rfl, rfl, rfl⟩
        unfold ExactObj.compute_landscape
        split <;> rfl

/-- a landscape with NO depth: `l.critical_pairs[0]` raises IndexError when a bound has to be computed; with both bounds
    given the loop does nothing and the constructor raises ValueError (empty `values`) -/
theorem vectorize_no_depths (interp : List (α × α) → α → α) (sweep : List β → List (List (α × α))) (l : ExactObj α β)
    (start stop : Option α) (n : Nat) (h0 : (ExactObj.compute_landscape sweep l).critical_pairs = []) :
    Ref.vectorize (Ref.vectorize_round interp) linspace sweep l start stop n =
      if start.isNone || stop.isNone then .error Err.noDepths else .error Err.noSteps := by
  unfold Ref.vectorize
  simp only [h0]
  cases start <;> cases stop <;> simp [pyGet?, List.foldlM, pure, Except.pure, GridObj.new, sizeZero]

end

/-! non-vacuity of the hypotheses of `vectorize_eq_model` (a stored tent; a lazy object whose sweep gives a tent) and of
    `vectorize_no_depths` (an empty diagram) -/
example : (ExactObj.compute_landscape (fun _ => []) (⟨0, ([] : List Unit), [[(0, 0), (1, 1), (2, 0)]]⟩ : ExactObj Rat Unit)).critical_pairs ≠ [] := by
  decide
example : (ExactObj.compute_landscape (fun _ => [[(0, 0), (1, 1), (2, 0)]]) (⟨0, [()], []⟩ : ExactObj Rat Unit)).critical_pairs ≠ [] := by
  decide
example : (ExactObj.compute_landscape (fun _ => []) (⟨0, ([] : List Unit), []⟩ : ExactObj Rat Unit)).critical_pairs = [] := rfl

end PersimVerif.SrcBridge.LandscapeVec
