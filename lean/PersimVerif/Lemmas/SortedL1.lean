import PersimVerif.Model.Sliced
import Mathlib.Data.List.Sort
import Mathlib.Data.Real.Basic
import Mathlib.Algebra.Order.Group.Abs
import Mathlib.Algebra.Order.Ring.Abs
import Mathlib.Algebra.BigOperators.Group.List.Basic
import Mathlib.Order.Bounds.Basic
import Mathlib.Tactic.Linarith
import Mathlib.Tactic.Ring

/-!
# Sorted L1 cost of two real lists (helper theory for C15)

`cityblock (sort u) (sort v)` — what `sliced_wasserstein` computes for one direction — at the reals:
* `sort` (core `mergeSort`) is *the* sorted permutation; it commutes with monotone maps;
* inserting one element into each of two sorted lists raises the cost by at most `|x - y|`
  (`cb_ins_ins_le`), inserting the *same* element into both leaves it unchanged (`cb_ins_ins_same`);
* hence the sorted pairing is the cheapest of all pairings (`sortedCost_le_cb`,
  `sortedCost_isLeast`) and common elements do not matter (`sortedCost_append_common`);
* triangle inequality of the sorted cost.
-/
namespace PersimVerif.Lemmas.SortedL1
open PersimVerif.Sliced List

/-! ### `absv`, `cityblock` -/

theorem absv_eq_abs (x : ℝ) : absv x = |x| := (abs_eq_max_neg (a := x)).symm

@[simp] theorem cb_nil_left (v : List ℝ) : cityblock [] v = 0 := by simp [cityblock]
@[simp] theorem cb_nil_right (u : List ℝ) : cityblock u [] = 0 := by simp [cityblock]
@[simp] theorem cb_cons (a b : ℝ) (u v : List ℝ) :
    cityblock (a :: u) (b :: v) = |a - b| + cityblock u v := by
  simp [cityblock, absv_eq_abs]

theorem cb_symm : ∀ (u v : List ℝ), cityblock u v = cityblock v u
  | [], v => by simp
  | _ :: _, [] => by simp
  | a :: u, b :: v => by simp [cb_symm u v, abs_sub_comm a b]

theorem cb_self : ∀ (u : List ℝ), cityblock u u = 0
  | [] => by simp
  | a :: u => by simp [cb_self u]

theorem cb_nonneg : ∀ (u v : List ℝ), 0 ≤ cityblock u v
  | [], v => by simp
  | _ :: _, [] => by simp
  | a :: u, b :: v => by
    have := cb_nonneg u v
    have := abs_nonneg (a - b)
    simp only [cb_cons]; linarith

theorem cb_map_add (k : ℝ) : ∀ (u v : List ℝ),
    cityblock (u.map (· + k)) (v.map (· + k)) = cityblock u v
  | [], v => by simp
  | _ :: _, [] => by simp
  | a :: u, b :: v => by simp [cb_map_add k u v]

theorem cb_map_mul {lam : ℝ} (h : 0 ≤ lam) : ∀ (u v : List ℝ),
    cityblock (u.map (lam * ·)) (v.map (lam * ·)) = lam * cityblock u v
  | [], v => by simp
  | _ :: _, [] => by simp
  | a :: u, b :: v => by
    simp only [map_cons, cb_cons, cb_map_mul h u v, ← mul_sub, abs_mul, abs_of_nonneg h]; ring

theorem cb_triangle : ∀ (u v w : List ℝ), u.length = v.length → v.length = w.length →
    cityblock u w ≤ cityblock u v + cityblock v w
  | [], _, _, _, _ => by simp; exact cb_nonneg _ _
  | _ :: _, [], _, h, _ => by simp at h
  | _ :: _, _ :: _, [], _, h => by simp at h
  | a :: u, b :: v, c :: w, h1, h2 => by
    have ih := cb_triangle u v w (by simpa using h1) (by simpa using h2)
    have := abs_sub_le a b c
    simp only [cb_cons]; linarith

/-! ### `sort` -/

theorem sort_perm (l : List ℝ) : (sort l).Perm l := mergeSort_perm _ _

@[simp] theorem length_sort (l : List ℝ) : (sort l).length = l.length := (sort_perm l).length_eq

theorem sort_pairwise (l : List ℝ) : (sort l).Pairwise (· ≤ ·) := by
  have h := pairwise_mergeSort (le := fun a b : ℝ => decide (a ≤ b))
    (fun a b c hab hbc => by simp only [decide_eq_true_eq] at *; exact le_trans hab hbc)
    (fun a b => by simp only [Bool.or_eq_true, decide_eq_true_eq]; exact le_total a b) l
  exact h.imp (fun hab => by simpa using hab)

/-- a sorted permutation of `l` is `sort l` -/
theorem sort_eq_of_pairwise_perm {s l : List ℝ} (hs : s.Pairwise (· ≤ ·)) (hp : s.Perm l) :
    sort l = s :=
  Perm.eq_of_pairwise (fun _ _ _ _ hab hba => le_antisymm hab hba) (sort_pairwise l) hs
    ((sort_perm l).trans hp.symm)

theorem sort_eq_of_perm {l l' : List ℝ} (h : l.Perm l') : sort l = sort l' :=
  sort_eq_of_pairwise_perm (sort_pairwise l') ((sort_perm l').trans h.symm)

/-- `sort` commutes with monotone maps -/
theorem sort_map_of_monotone {f : ℝ → ℝ} (hf : Monotone f) (l : List ℝ) :
    sort (l.map f) = (sort l).map f :=
  sort_eq_of_pairwise_perm ((sort_pairwise l).map f (fun _ _ h => hf h)) ((sort_perm l).map f)

/-- insertion into a sorted list -/
noncomputable abbrev ins (x : ℝ) (l : List ℝ) : List ℝ := l.orderedInsert (· ≤ ·) x

theorem sort_cons (x : ℝ) (l : List ℝ) : sort (x :: l) = ins x (sort l) :=
  sort_eq_of_pairwise_perm ((sort_pairwise l).orderedInsert x _)
    ((perm_orderedInsert _ x _).trans ((sort_perm l).cons x))

theorem ins_eq_cons_of_forall_le {a : ℝ} {l : List ℝ} (h : ∀ z ∈ l, a ≤ z) : ins a l = a :: l := by
  cases l with
  | nil => rfl
  | cons b t => exact orderedInsert_cons_of_le _ t (h b (by simp))

@[simp] theorem length_ins (x : ℝ) (l : List ℝ) : (ins x l).length = l.length + 1 :=
  orderedInsert_length _ l x

/-! ### inserting into two sorted lists -/

/-- the non-crossing pairing of four points is the cheaper one -/
theorem four_point {x a b y : ℝ} (h1 : x ≤ a) (h2 : b ≤ y) :
    |x - b| + |a - y| ≤ |x - y| + |a - b| := by
  rcases abs_cases (x - b) with ⟨e1, _⟩ | ⟨e1, _⟩ <;> rcases abs_cases (a - y) with ⟨e2, _⟩ | ⟨e2, _⟩ <;>
  rcases abs_cases (x - y) with ⟨e3, _⟩ | ⟨e3, _⟩ <;> rcases abs_cases (a - b) with ⟨e4, _⟩ | ⟨e4, _⟩ <;>
  rw [e1, e2, e3, e4] <;> linarith

/-- inserting `x` into `A` and `y` into `B` (sorted, equally long) costs at most `|x - y|` more -/
theorem cb_ins_ins_le : ∀ (A B : List ℝ), A.Pairwise (· ≤ ·) → B.Pairwise (· ≤ ·) →
    A.length = B.length → ∀ x y : ℝ, cityblock (ins x A) (ins y B) ≤ |x - y| + cityblock A B
  | [], [], _, _, _, x, y => by simp [ins]
  | [], _ :: _, _, _, h, _, _ => by simp at h
  | _ :: _, [], _, _, h, _, _ => by simp at h
  | a :: A, b :: B, hA, hB, hl, x, y => by
    have hl' : A.length = B.length := by simpa using hl
    obtain ⟨haA, hA'⟩ := pairwise_cons.mp hA
    obtain ⟨hbB, hB'⟩ := pairwise_cons.mp hB
    by_cases hxa : x ≤ a <;> by_cases hyb : y ≤ b
    · simp [ins, orderedInsert_cons, hxa, hyb]
    · have ih := cb_ins_ins_le A B hA' hB' hl' a y
      rw [ins_eq_cons_of_forall_le haA] at ih
      have fp := four_point hxa (le_of_lt (not_le.mp hyb))
      simp only [ins, orderedInsert_cons, hxa, hyb, if_true, if_false, cb_cons] at ih ⊢
      linarith
    · have ih := cb_ins_ins_le A B hA' hB' hl' x b
      rw [ins_eq_cons_of_forall_le hbB] at ih
      have fp := four_point hyb (le_of_lt (not_le.mp hxa))
      rw [abs_sub_comm y a, abs_sub_comm b x, abs_sub_comm y x, abs_sub_comm b a] at fp
      simp only [ins, orderedInsert_cons, hxa, hyb, if_true, if_false, cb_cons] at ih ⊢
      linarith
    · have ih := cb_ins_ins_le A B hA' hB' hl' x y
      simp only [ins, orderedInsert_cons, hxa, hyb, if_false, cb_cons] at ih ⊢
      linarith

/-- `x` below the whole sorted list `a :: A`: pairing `a :: A` with `ins x B` shifts every partner by one -/
theorem cb_cons_ins : ∀ (A B : List ℝ) (a x : ℝ), (a :: A).Pairwise (· ≤ ·) → B.Pairwise (· ≤ ·) →
    A.length = B.length → x ≤ a → cityblock (a :: A) (ins x B) = (a - x) + cityblock A B
  | [], [], a, x, _, _, _, hx => by simp [ins, abs_of_nonneg (sub_nonneg.mpr hx)]
  | [], _ :: _, _, _, _, _, h, _ => by simp at h
  | _ :: _, [], _, _, _, _, h, _ => by simp at h
  | a' :: A, b' :: B, a, x, hA, hB, hl, hx => by
    have hl' : A.length = B.length := by simpa using hl
    obtain ⟨haA, hA'⟩ := pairwise_cons.mp hA
    obtain ⟨_, hB'⟩ := pairwise_cons.mp hB
    have haa' : a ≤ a' := haA a' (by simp)
    by_cases hxb : x ≤ b'
    · simp [ins, orderedInsert_cons, hxb, abs_of_nonneg (sub_nonneg.mpr hx)]
    · have ih := cb_cons_ins A B a' x hA' hB' hl' (le_trans hx haa')
      have hb : b' < x := not_le.mp hxb
      simp only [ins, orderedInsert_cons, hxb, if_false, cb_cons] at ih ⊢
      rw [ih, abs_of_nonneg (by linarith : 0 ≤ a - b'), abs_of_nonneg (by linarith : 0 ≤ a' - b')]
      ring

/-- inserting the *same* element into two sorted, equally long lists leaves the cost unchanged -/
theorem cb_ins_ins_same : ∀ (A B : List ℝ), A.Pairwise (· ≤ ·) → B.Pairwise (· ≤ ·) →
    A.length = B.length → ∀ x : ℝ, cityblock (ins x A) (ins x B) = cityblock A B
  | [], [], _, _, _, x => by simp [ins]
  | [], _ :: _, _, _, h, _ => by simp at h
  | _ :: _, [], _, _, h, _ => by simp at h
  | a :: A, b :: B, hA, hB, hl, x => by
    have hl' : A.length = B.length := by simpa using hl
    obtain ⟨_, hA'⟩ := pairwise_cons.mp hA
    obtain ⟨_, hB'⟩ := pairwise_cons.mp hB
    by_cases hxa : x ≤ a <;> by_cases hxb : x ≤ b
    · simp [ins, orderedInsert_cons, hxa, hxb]
    · have h := cb_cons_ins A B a x hA hB' hl' hxa
      have hb : b < x := not_le.mp hxb
      simp only [ins, orderedInsert_cons, hxa, hxb, if_true, if_false, cb_cons] at h ⊢
      rw [h, abs_of_nonneg (by linarith : 0 ≤ x - b), abs_of_nonneg (by linarith : 0 ≤ a - b)]
      ring
    · have h := cb_cons_ins B A b x hB hA' hl'.symm hxb
      have ha : a < x := not_le.mp hxa
      simp only [ins, orderedInsert_cons, hxa, hxb, if_true, if_false, cb_cons] at h ⊢
      rw [cb_symm (orderedInsert _ x A) (b :: B), h, cb_symm B A,
        abs_of_nonpos (by linarith : a - x ≤ 0), abs_of_nonpos (by linarith : a - b ≤ 0)]
      ring
    · have ih := cb_ins_ins_same A B hA' hB' hl' x
      simp only [ins, orderedInsert_cons, hxa, hxb, if_false, cb_cons] at ih ⊢
      rw [ih]

/-! ### the sorted cost -/

/-- what the code computes for one direction -/
noncomputable def sortedCost (u v : List ℝ) : ℝ := cityblock (sort u) (sort v)

theorem sortedCost_symm (u v : List ℝ) : sortedCost u v = sortedCost v u := cb_symm _ _

theorem sortedCost_nonneg (u v : List ℝ) : 0 ≤ sortedCost u v := cb_nonneg _ _

theorem sortedCost_perm {u u' v v' : List ℝ} (hu : u.Perm u') (hv : v.Perm v') :
    sortedCost u v = sortedCost u' v' := by
  unfold sortedCost; rw [sort_eq_of_perm hu, sort_eq_of_perm hv]

theorem sortedCost_self_perm {u v : List ℝ} (h : u.Perm v) : sortedCost u v = 0 := by
  unfold sortedCost; rw [sort_eq_of_perm h]; exact cb_self _

theorem sortedCost_cons_cons_le (x y : ℝ) (u v : List ℝ) (h : u.length = v.length) :
    sortedCost (x :: u) (y :: v) ≤ |x - y| + sortedCost u v := by
  unfold sortedCost; rw [sort_cons, sort_cons]
  exact cb_ins_ins_le _ _ (sort_pairwise u) (sort_pairwise v) (by simpa using h) x y

/-- a common element does not matter -/
theorem sortedCost_cons_same (x : ℝ) (u v : List ℝ) (h : u.length = v.length) :
    sortedCost (x :: u) (x :: v) = sortedCost u v := by
  unfold sortedCost; rw [sort_cons, sort_cons]
  exact cb_ins_ins_same _ _ (sort_pairwise u) (sort_pairwise v) (by simpa using h) x

/-- a common sub-list does not matter -/
theorem sortedCost_append_common (w u v : List ℝ) (h : u.length = v.length) :
    sortedCost (w ++ u) (w ++ v) = sortedCost u v := by
  induction w with
  | nil => rfl
  | cons x t ih =>
    rw [cons_append, cons_append, sortedCost_cons_same x _ _ (by simp [h]), ih]

/-- the sorted pairing costs no more than the given one -/
theorem sortedCost_le_cb : ∀ (u v : List ℝ), u.length = v.length → sortedCost u v ≤ cityblock u v
  | [], [], _ => by simp [sortedCost, sort]
  | [], _ :: _, h => by simp at h
  | _ :: _, [], h => by simp at h
  | a :: u, b :: v, h => by
    have hl : u.length = v.length := by simpa using h
    have := sortedCost_cons_cons_le a b u v hl
    have := sortedCost_le_cb u v hl
    simp only [cb_cons]; linarith

/-- the sorted cost obeys the triangle inequality -/
theorem sortedCost_triangle (u v w : List ℝ) (h1 : u.length = v.length) (h2 : v.length = w.length) :
    sortedCost u w ≤ sortedCost u v + sortedCost v w :=
  cb_triangle _ _ _ (by simpa using h1) (by simpa using h2)

/-- re-pairing: permuting the first list can be undone by permuting the second -/
theorem exists_perm_cb {a' a : List ℝ} (h : a'.Perm a) :
    ∀ c : List ℝ, a'.length = c.length → ∃ c', c'.Perm c ∧ cityblock a c' = cityblock a' c := by
  induction h with
  | nil => intro c _; exact ⟨c, Perm.refl _, rfl⟩
  | cons x _ ih =>
    intro c hc
    cases c with
    | nil => simp at hc
    | cons y c0 =>
      obtain ⟨c0', hp, he⟩ := ih c0 (by simpa using hc)
      exact ⟨y :: c0', hp.cons y, by simp [he]⟩
  | swap x y l =>
    intro c hc
    match c, hc with
    | c1 :: c2 :: c0, _ =>
      exact ⟨c2 :: c1 :: c0, Perm.swap _ _ _, by simp only [cb_cons]; ring⟩
  | trans h1 _ ih1 ih2 =>
    intro c hc
    obtain ⟨c1, hp1, he1⟩ := ih1 c hc
    obtain ⟨c2, hp2, he2⟩ := ih2 c1 (by rw [← h1.length_eq, hc, hp1.length_eq])
    exact ⟨c2, hp2.trans hp1, he2.trans he1⟩

/-- **the sorted L1 cost is the minimum over all pairings** of the elements of `a` with the elements
    of `b` (1-D optimal transport between equally many points) -/
theorem sortedCost_isLeast (a b : List ℝ) (h : a.length = b.length) :
    IsLeast {c | ∃ b' : List ℝ, b'.Perm b ∧ c = cityblock a b'} (sortedCost a b) := by
  constructor
  · obtain ⟨c', hp, he⟩ := exists_perm_cb (sort_perm a) (sort b) (by simp [h])
    exact ⟨c', hp.trans (sort_perm b), he.symm⟩
  · rintro c ⟨b', hp, rfl⟩
    rw [sortedCost_perm (Perm.refl a) hp.symm]
    exact sortedCost_le_cb a b' (by rw [h, hp.length_eq])

end PersimVerif.Lemmas.SortedL1
