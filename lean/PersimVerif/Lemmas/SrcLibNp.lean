/-
  Runtime library of the mGH source translator (harness/translator/py2lean_mgh.py, DESIGN.md 3.2): the Lean meaning of
  the Python builtins and NumPy functions that the generated definitions of `Generated/SrcMGH.lean` use as TABLE ENTRIES
  (each with the convention stated at its definition).  Import-free (core Lean only).  Part of the translator's
  conventions (trusted like them); the lemmas relating these definitions to `Model/MGH.lean` are in
  `Lemmas/SrcBridgeMGH.lean`.

  Standing conventions: Python / NumPy integers are unbounded here (`Nat` where the value is a count, a distance, a length
  or an index, `Int` where a subtraction may go below zero); the fixed-width integer dtypes of the code are wide enough by
  `determine_optimal_int_type` (tied to its model in `Generated/SrcGraph.lean`, `C17.int_type_sufficient`) and by the
  `int(...)` conversions of the repaired code, so casts between them (`astype`, `dtype=`) are the identity.
-/
namespace PersimVerif.SrcNp

/-- what a generated definition can fail with.  The first four are Python exceptions.  `negativeIndex`: an index below 0
    reached a subscript (Python would wrap around; the translation does not model that and flags it instead).  `bound`:
    the iteration bound of a `while` loop (the translator's table gives it) was exhausted -- not a Python behaviour; every
    obligation `… = .ok …` proves that it does not occur, i.e. that the loop terminates within the bound. -/
inductive PyErr where
  | indexError
  | valueError
  | stopIteration
  | negativeIndex
  | bound
  deriving DecidableEq, Repr

/-- `l[k]` for a list / 1-D array and an index `k ≥ 0`: `IndexError` beyond the end -/
def getItem {α : Type} (l : List α) (k : Nat) : Except PyErr α :=
  match l[k]? with
  | some x => .ok x
  | none => .error PyErr.indexError

/-- `l[k] = v` for a list / 1-D array and an index `k ≥ 0` (the updated list): `IndexError` beyond the end -/
def setItem {α : Type} (l : List α) (k : Nat) (v : α) : Except PyErr (List α) :=
  if k < l.length then .ok (l.set k v) else .error PyErr.indexError

/-- `range(a, b)` for `a ≥ 0` (empty when `b ≤ a`, in particular for negative `b`) -/
def pyRange (a : Nat) (b : Int) : List Nat := List.range' a (b.toNat - a)

/-- `next(k for k in ks if p k)`: the first element of `ks` that satisfies `p`, evaluating `p` in order (an exception
    raised by `p` leaves the generator at that element); `none` = `StopIteration` -/
def nextWhere {ε : Type} (p : Nat → Except ε Bool) : List Nat → Except ε (Option Nat)
  | [] => .ok none
  | k :: ks =>
    match p k with
    | .error e => .error e
    | .ok true => .ok (some k)
    | .ok false => nextWhere p ks

end PersimVerif.SrcNp
