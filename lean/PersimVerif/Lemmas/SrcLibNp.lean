/-
  Runtime library of the mGH source translator (harness/translator/py2lean_mgh.py, DESIGN.md 3.2): the Lean meaning of
  the Python builtins and NumPy functions that the generated definitions of `Generated/SrcMGH.lean` use as TABLE ENTRIES
  (each with the convention stated at its definition).  Import-free (core Lean only).  Part of the translator's
  conventions (trusted like them); the lemmas relating these definitions to `Model/MGH.lean` are in
  `Lemmas/SrcBridgeMGH.lean`.

  Standing conventions: Python / NumPy integers are unbounded here (`Nat` where the value is a count, a distance, a length
  or an index, `Int` where a subtraction may go below zero); the fixed-width integer dtypes of the code are wide enough by
  `determine_optimal_int_type` (tied to its model in `Generated/SrcGraph.lean`, `C17.int_type_sufficient`) and by the
  `int(...)` conversions of the repaired code, so casts between them (`astype`, `dtype=`) are the identity.
-/
namespace PersimVerif.SrcNp

/-- what a generated definition can fail with.  The first four are Python exceptions.  `negativeIndex`: an index below 0
    reached a subscript (Python would wrap around; the translation does not model that and flags it instead).  `bound`:
    the iteration bound of a `while` loop (the translator's table gives it) was exhausted -- not a Python behaviour; every
    obligation `… = .ok …` proves that it does not occur, i.e. that the loop terminates within the bound.  `draws`: the list of
    recorded `np.random.choice` draws that a definition receives as a parameter is used up -- not a Python behaviour either; the
    obligations assume at least as many draws as permutations.  `infinite`: a running minimum that is still `np.inf` reached a
    `return` whose value the translation needs as a finite number (Python would return `inf`; flagged, not modelled). -/
inductive PyErr where
  | indexError
  | valueError
  | stopIteration
  | negativeIndex
  | bound
  | draws
  | infinite
  deriving DecidableEq, Repr

/-- `l[k]` for a list / 1-D array and an index `k ≥ 0`: `IndexError` beyond the end -/
def getItem {α : Type} (l : List α) (k : Nat) : Except PyErr α :=
  match l[k]? with
  | some x => .ok x
  | none => .error PyErr.indexError

/-- `l[k] = v` for a list / 1-D array and an index `k ≥ 0` (the updated list): `IndexError` beyond the end -/
def setItem {α : Type} (l : List α) (k : Nat) (v : α) : Except PyErr (List α) :=
  if k < l.length then .ok (l.set k v) else .error PyErr.indexError

/-- `range(a, b)` for `a ≥ 0` (empty when `b ≤ a`, in particular for negative `b`) -/
def pyRange (a : Nat) (b : Int) : List Nat := List.range' a (b.toNat - a)

/-- `next(k for k in ks if p k)`: the first element of `ks` that satisfies `p`, evaluating `p` in order (an exception
    raised by `p` leaves the generator at that element); `none` = `StopIteration` -/
def nextWhere {ε : Type} (p : Nat → Except ε Bool) : List Nat → Except ε (Option Nat)
  | [] => .ok none
  | k :: ks =>
    match p k with
    | .error e => .error e
    | .ok true => .ok (some k)
    | .ok false => nextWhere p ks

/-! ### NumPy idioms of `represent_distance_matrix_rows_as_distributions` -/

/-- `M + 1j * np.arange(len(M))[:, None]`, flattened row-major (as `np.unique` flattens its argument): the complex number
    `M[r][c] + r·j` is the pair `(M[r][c], r)` (real part, imaginary part); `tagRowsFrom r0` numbers the rows from `r0` -/
def tagRowsFrom : Nat → List (List Nat) → List (Nat × Nat)
  | _, [] => []
  | r, row :: rest => row.map (fun x => (x, r)) ++ tagRowsFrom (r + 1) rest

def tagRows (M : List (List Nat)) : List (Nat × Nat) := tagRowsFrom 0 M

/-- NumPy's order of complex numbers: by real part, then by imaginary part -/
def cpxLt (a b : Nat × Nat) : Bool := a.1 < b.1 || (a.1 == b.1 && a.2 < b.2)

/-- insertion into a sorted duplicate-free list -/
def insertUniq {α : Type} [DecidableEq α] (lt : α → α → Bool) (x : α) : List α → List α
  | [] => [x]
  | y :: ys => if lt x y then x :: y :: ys else if x = y then y :: ys else y :: insertUniq lt x ys

/-- the sorted distinct values of a flattened array: the first component of `np.unique(a, return_counts=True)` -/
def uniqueSorted {α : Type} [DecidableEq α] (lt : α → α → Bool) (l : List α) : List α := l.foldr (insertUniq lt) []

/-- `np.unique(a, return_counts=True)` of the flattened array `l`: its distinct values in increasing order, and for each the
    number of its occurrences -/
def uniqueCounts {α : Type} [BEq α] [DecidableEq α] (lt : α → α → Bool) (l : List α) : List α × List Nat :=
  (uniqueSorted lt l, (uniqueSorted lt l).map (fun x => l.count x))

/-- `np.zeros((a, b), dtype=<integer type>)` -/
def zeros2 (a b : Nat) : List (List Nat) := List.replicate a (List.replicate b 0)

/-- one assignment `M[r, c] = v` with `r ≥ 0`: a negative `c` (NumPy would wrap around) is flagged, not modelled -/
def scatterStep (M : List (List Nat)) (r : Nat) (c : Int) (v : Nat) : Except PyErr (List (List Nat)) :=
  if c < 0 then .error PyErr.negativeIndex else
  match M[r]? with
  | none => .error PyErr.indexError
  | some row => if c.toNat < row.length then .ok (M.set r (row.set c.toNat v)) else .error PyErr.indexError

/-- `M[(rows, cols)] = vals` (integer-array indexing with a pair of index arrays): the assignments `M[rows[k], cols[k]] =
    vals[k]` in order of `k` (a later one overwrites an earlier one); index arrays of different lengths do not broadcast -/
def scatter2 : List (List Nat) → List Nat → List Int → List Nat → Except PyErr (List (List Nat))
  | M, [], [], [] => .ok M
  | M, r :: rs, c :: cs, v :: vs =>
    match scatterStep M r c v with
    | .error e => .error e
    | .ok M' => scatter2 M' rs cs vs
  | _, _, _, _ => .error PyErr.valueError

/-- `M[:, :-1]` -/
def dropLastCol (M : List (List Nat)) : List (List Nat) := M.map List.dropLast

/-! ### NumPy idioms of `find_largest_size_bounded_curvature`
  A 2-D array is the list of its rows; the definitions below read it as a RECTANGULAR array whose number of columns is the
  length of its first row (the obligations assume square matrices). -/

/-- number of columns of a 2-D array -/
def ncols (K : List (List Nat)) : Nat :=
  match K with
  | [] => 0
  | r :: _ => r.length

/-- column `j` of a 2-D array -/
def column (K : List (List Nat)) (j : Nat) : List Nat := K.map (fun r => r.getD j 0)

/-- `np.sum(K < d, axis=0)`: per column, the number of entries `< d` -/
def colCountLt (K : List (List Nat)) (d : Nat) : List Nat :=
  (List.range (ncols K)).map fun j => (column K j).countP (fun x => decide (x < d))

/-- `np.sum(np.ma.masked_less(K, d), axis=0).data`: per column, the sum of the entries that are not masked (`≥ d`); a fully
    masked column has data `0` -/
def colSumGe (K : List (List Nat)) (d : Nat) : List Nat :=
  (List.range (ncols K)).map fun j => ((column K j).filter (fun x => decide (d ≤ x))).sum

/-- `np.any(K[np.triu_indices_from(K, 1)] < d)`: is some entry strictly above the diagonal `< d` -/
def anyUpperLt (K : List (List Nat)) (d : Nat) : Bool :=
  (List.range K.length).any fun i => (List.range' (i + 1) (ncols K - (i + 1))).any fun j => decide ((K.getD i []).getD j 0 < d)

/-- index of the first minimum -/
def argminFrom {α : Type} [LT α] [DecidableLT α] : List α → Nat → α → Nat → Nat
  | [], _, _, bi => bi
  | x :: xs, k, best, bi => if x < best then argminFrom xs (k + 1) x k else argminFrom xs (k + 1) best bi

/-- `np.argmin(v)` of a 1-D array: the index of the FIRST minimum; `ValueError` on an empty array -/
def npArgmin {α : Type} [LT α] [DecidableLT α] : List α → Except PyErr Nat
  | [] => .error PyErr.valueError
  | x :: xs => .ok (argminFrom xs 1 x 0)

/-- `np.delete(K, r, axis=0)` for `r ≥ 0` -/
def deleteRow (K : List (List Nat)) (r : Nat) : Except PyErr (List (List Nat)) :=
  if r < K.length then .ok (K.eraseIdx r) else .error PyErr.indexError

/-- `np.delete(K, r, axis=1)` for `r ≥ 0` -/
def deleteCol (K : List (List Nat)) (r : Nat) : Except PyErr (List (List Nat)) :=
  if r < ncols K then .ok (K.map fun row => row.eraseIdx r) else .error PyErr.indexError

/-- `np.max(D)` of a 2-D array of non-negative integers: `ValueError` for an array without entries -/
def npMax (D : List (List Nat)) : Except PyErr Nat :=
  match D.flatten with
  | [] => .error PyErr.valueError
  | x :: xs => .ok (xs.foldl max x)

/-! ### NumPy idioms of `construct_mapping` / `find_ub_of_min_distortion` -/

/-- `l[ks]` (integer-array indexing of a 1-D array with non-negative indices) -/
def takeIdx (l : List Nat) : List Nat → Except PyErr (List Nat)
  | [] => .ok []
  | k :: ks =>
    match getItem l k with
    | .error e => .error e
    | .ok v =>
      match takeIdx l ks with
      | .error e => .error e
      | .ok vs => .ok (v :: vs)

/-- `D[:, ks]` -/
def takeCols : List (List Nat) → List Nat → Except PyErr (List (List Nat))
  | [], _ => .ok []
  | r :: rs, ks =>
    match takeIdx r ks with
    | .error e => .error e
    | .ok v =>
      match takeCols rs ks with
      | .error e => .error e
      | .ok vs => .ok (v :: vs)

/-- `np.max(np.abs(DX[x, xs] - DY[:, ys]), axis=1)` read entry-wise: for every row `r` of `DY` the largest
    `|DX[x][xs[c]] - DY[r][ys[c]]|` over the positions `c`.  Index arrays of different lengths are flagged (`ValueError`; NumPy
    would broadcast a length-1 axis), and so is an empty one (`np.max` over an axis of length 0). -/
def bottlenecksFrom (DX DY : List (List Nat)) (x : Nat) (xs ys : List Nat) : Except PyErr (List Nat) :=
  match getItem DX x with
  | .error e => .error e
  | .ok rowX =>
    match takeIdx rowX xs with
    | .error e => .error e
    | .ok a =>
      match takeCols DY ys with
      | .error e => .error e
      | .ok B =>
        if xs.length ≠ ys.length ∨ xs = [] then .error PyErr.valueError
        else .ok (B.map fun b => (List.zipWith (fun (p q : Nat) => ((p : Int) - (q : Int)).natAbs) a b).foldl max 0)

/-- `min(a, acc)` where `acc` is a running minimum that started at `np.inf` (`none`) -/
def minTop (a : Nat) : Option Nat → Nat
  | none => a
  | some b => min a b

/-- `acc <= g` where `acc` is a running minimum that started at `np.inf` (`none`) -/
def leTop (acc : Option Nat) (g : Nat) : Bool :=
  match acc with
  | none => false
  | some b => decide (b ≤ g)

end PersimVerif.SrcNp
