import PersimVerif.Lemmas.MGHBasic
import Mathlib.SetTheory.Cardinal.Finite
import Mathlib.Data.Finset.Card
import Mathlib.Data.Fintype.Card

/-! frequency distributions: the list-level `rowDistribution` counts what a cardinality counts -/
namespace PersimVerif.MGH
open PersimVerif.MGHSpec

/-- distribution of a vector indexed by any type: frequencies of the values `maxD, …, 1` -/
noncomputable def distOf {ι : Type*} (v : ι → ℕ) (maxD : ℕ) : List ℕ :=
  (List.range maxD).map fun c => Nat.card {k // v k = maxD - c}

theorem count_map_eq_card {n : ℕ} {S : List ℕ} (hnd : S.Nodup) (hlt : ∀ s ∈ S, s < n)
    (g : ℕ → ℕ) (t : ℕ) :
    (S.map g).count t = Nat.card {s : Fin n // s.val ∈ S ∧ g s.val = t} := by
  classical
  rw [Nat.card_eq_fintype_card, Fintype.card_subtype]
  have h1 : (Finset.univ.filter fun s : Fin n => s.val ∈ S ∧ g s.val = t).map Fin.valEmbedding
      = (S.filter (fun s => g s = t)).toFinset := by
    ext x
    simp only [Finset.mem_map, Finset.mem_filter, Finset.mem_univ, true_and, Fin.valEmbedding_apply,
      List.mem_toFinset, List.mem_filter, decide_eq_true_eq]
    constructor
    · rintro ⟨s, ⟨hs, hg⟩, rfl⟩; exact ⟨hs, hg⟩
    · rintro ⟨hs, hg⟩; exact ⟨⟨x, hlt x hs⟩, ⟨hs, hg⟩, rfl⟩
  rw [← Finset.card_map Fin.valEmbedding, h1, List.toFinset_card_of_nodup (hnd.filter _)]
  rw [List.count, List.countP_map, List.countP_eq_length_filter]
  congr 1

/-- the distribution of `g` over a sub-type of `Fin n` that agrees with the list `S` on all
    positive values is the list-level distribution of `S.map g` -/
theorem distOf_subtype {n : ℕ} {S : List ℕ} (hnd : S.Nodup) (hlt : ∀ s ∈ S, s < n) (g : ℕ → ℕ)
    (Q : Fin n → Prop) (maxD : ℕ)
    (hQ : ∀ s : Fin n, ∀ t, 1 ≤ t → ((Q s ∧ g s.val = t) ↔ (s.val ∈ S ∧ g s.val = t))) :
    distOf (fun k : {s : Fin n // Q s} => g k.val.val) maxD = rowDistribution maxD (S.map g) := by
  unfold distOf rowDistribution
  apply List.map_congr_left
  intro c hc
  have hc' : c < maxD := List.mem_range.1 hc
  rw [count_map_eq_card hnd hlt]
  apply Nat.card_congr
  exact (Equiv.subtypeSubtypeEquivSubtypeInter Q (fun s => g s.val = maxD - c)).trans
    (Equiv.subtypeEquivRight (fun s => hQ s _ (by omega)))

/-- a vector given as a list: its distribution over `Fin v.length` is `rowDistribution` -/
theorem distOf_list (v : List ℕ) (maxD : ℕ) :
    distOf (fun k : Fin v.length => v[k]) maxD = rowDistribution maxD v := by
  classical
  unfold distOf rowDistribution
  apply List.map_congr_left
  intro c _
  rw [Nat.card_eq_fintype_card, Fintype.card_subtype]
  induction v with
  | nil => simp
  | cons a v ih =>
    rw [List.count_cons, ← ih]
    rw [← Finset.card_map (Fin.succEmb v.length)]
    by_cases ha : a = maxD - c
    · subst ha
      have : (Finset.univ.filter fun x : Fin (v.length + 1) => ((maxD - c) :: v)[x] = maxD - c) =
          insert 0 ((Finset.univ.filter fun x : Fin v.length => v[x] = maxD - c).map (Fin.succEmb v.length)) := by
        ext x
        refine Fin.cases ?_ (fun y => ?_) x
        · simp
        · simp [Fin.succ_ne_zero]
      simp only [List.length_cons, beq_self_eq_true, if_true]
      rw [this, Finset.card_insert_of_notMem]
      simp [Fin.succ_ne_zero]
    · have : (Finset.univ.filter fun x : Fin (v.length + 1) => (a :: v)[x] = maxD - c) =
          ((Finset.univ.filter fun x : Fin v.length => v[x] = maxD - c).map (Fin.succEmb v.length)) := by
        ext x
        refine Fin.cases ?_ (fun y => ?_) x
        · simp [ha, Fin.succ_ne_zero]
        · simp
      have hb : (a == maxD - c) = false := by simpa using ha
      simp only [List.length_cons, hb]
      rw [this]; simp

end PersimVerif.MGH
