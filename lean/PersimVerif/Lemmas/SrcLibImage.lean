import PersimVerif.Model.Image
import PersimVerif.Model.Imager
/-
  Runtime library of the image translator (harness/translator/py2lean_image.py, DESIGN.md 3.2): the Lean meaning of the
  NumPy values and operations that the generated definitions of `Generated/SrcImage.lean` use directly.  Mathlib-free
  (only the two model files, for the types `Image.Sigma`, `Image.Mat` and `Imager.Input`).  Part of the translator's
  conventions (trusted like them); the bridging lemmas that relate the generated definitions to `Model/Image.lean` are
  in `Lemmas/SrcBridgeImage.lean`.

  NumPy arrays of floats are read ENTRY-WISE: an array is its shape and the function `index ↦ entry`.  Entries at
  indices outside the shape are never read by `toList` / `toMat` (what a definition returns), and every operation below
  reads, for an entry inside the shape of its result, only entries inside the shapes of its operands.
-/
namespace PersimVerif.SrcLib.Image
open PersimVerif

/-- a 1-D array: its length `n` and `a[k]` -/
structure Arr1 (α : Type) where
  n : Nat
  get : Nat → α

/-- a 2-D array (first NumPy axis first): its shape `(r, c)` and `a[i][j]` -/
structure Arr2 (α : Type) where
  r : Nat
  c : Nat
  get : Nat → Nat → α

section
variable {α : Type}

/-- a 1-D array given by its entries (`l.getD k 0` is `l[k]` for every `k < len(l)`; beyond it is never read) -/
def Arr1.ofList [Zero α] (l : List α) : Arr1 α := ⟨l.length, fun k => l.getD k 0⟩

/-- the entries of a 1-D array, in order -/
def Arr1.toList (a : Arr1 α) : List α := (List.range a.n).map a.get

/-- the entries of a 2-D array as rows (`m[i][j]`, row-major): what a function that returns the array returns -/
def Arr2.toMat (a : Arr2 α) : Image.Mat α :=
  (List.range a.r).map fun i => (List.range a.c).map fun j => a.get i j

/-- `np.zeros(shape)` for a pair of Python ints: a negative dimension raises (`none`) -/
def Arr2.zeros? [Zero α] (r c : Int) : Option (Arr2 α) :=
  if r < 0 ∨ c < 0 then none else some ⟨r.toNat, c.toNat, fun _ _ => 0⟩

/-- `a += b` on 2-D arrays of EQUAL shape (entry-wise sum, the shape of `a`).  Unequal shapes: `none`; NumPy raises there
    unless the axis of `b` has length 1, which it would broadcast — a shape that does not occur when the mesh has
    `resolution + 1` points per axis (the hypothesis of the obligations). -/
def Arr2.iadd? [Add α] (a b : Arr2 α) : Option (Arr2 α) :=
  if a.r = b.r ∧ a.c = b.c then some ⟨a.r, a.c, fun i j => a.get i j + b.get i j⟩ else none

/-- `np.reshape(v, (r, c), order="C")` for Python ints `r`, `c`: entry `[i][j]` is `v[i * c + j]`; a size mismatch raises
    (`none`; so does a negative dimension other than NumPy's `-1` placeholder, which is not in the subset) -/
def Arr1.reshape? (v : Arr1 α) (r c : Int) : Option (Arr2 α) :=
  if r < 0 ∨ c < 0 then none
  else if v.n = r.toNat * c.toNat then some ⟨r.toNat, c.toNat, fun i j => v.get (i * c.toNat + j)⟩ else none

/-- a kernel callable as `_transform` uses it: whether it `== images_kernels.gaussian`, and its value
    `kernel(bb, pp, mu=row, **kernel_params)` on the two flat coordinate arrays (a flat array of values) -/
structure Kernel (α KP : Type) where
  isGaussian : Bool
  call : KP → α × α → List α → List α → List α

/-- `len(pers_dgms)` of what the user may pass: the rows of one `(n, 2)` array, or the diagrams of a collection -/
def inputLen : Imager.Input α → Nat
  | .single d => d.length
  | .coll ds => ds.length

end
end PersimVerif.SrcLib.Image
