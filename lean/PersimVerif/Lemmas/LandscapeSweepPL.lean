import PersimVerif.Lemmas.LandscapeAffine

/-!
# Helper lemmas for C03, part 5 (towards correctness of the sweep): the envelope built point by point

`Gf cur b d` is the function the sweep has built so far while `(b,d)` is the current bar: the
interpolation of the points collected up to the peak of `(b,d)`, continued by the falling edge of
`(b,d)`.  One step of the inner loop (Cases I–III) turns it into its pointwise maximum with the tent of
the next bar `(b',d')`; the pointwise minimum is the tent of the residual bar `(b',d)` (Case III) or `0`.
-/
set_option linter.unusedSectionVars false

namespace PersimVerif.LandscapeLemmas
open PersimVerif.PL PersimVerif.Landscape

variable {K : Type} [Field K] [LinearOrder K] [IsStrictOrderedRing K]

/-! ### two tents -/

/-- nested bars have ordered tents -/
theorem tent_mono {b d b' d' : K} (hb : b ≤ b') (hd : d' ≤ d) (t : K) : tent b' d' t ≤ tent b d t := by
  rw [tent_def, tent_def]
  exact max_le_max le_rfl (min_le_min (by linarith) (by linarith))

/-- left of the crossing abscissa `(b'+d)/2` the later bar is below the earlier one -/
theorem tent_le_of_le_cross {b d b' d' t : K} (hb : b ≤ b') (ht : t ≤ (b' + d) / 2) :
    tent b' d' t ≤ tent b d t := by
  have h2 : 2 * t ≤ b' + d := by
    have := (le_div_iff₀ (by norm_num : (0 : K) < 2)).mp ht; linarith
  rw [tent_def, tent_def]
  apply max_le_max le_rfl
  apply le_min
  · exact le_trans (min_le_left _ _) (by linarith)
  · exact le_trans (min_le_left _ _) (by linarith)

/-- right of the crossing abscissa the earlier bar is below the later one -/
theorem tent_le_of_cross_le {b d b' d' t : K} (hd : d ≤ d') (ht : (b' + d) / 2 ≤ t) :
    tent b d t ≤ tent b' d' t := by
  have h2 : b' + d ≤ 2 * t := by
    have := (div_le_iff₀ (by norm_num : (0 : K) < 2)).mp ht; linarith
  rw [tent_def, tent_def]
  apply max_le_max le_rfl
  apply le_min
  · exact le_trans (min_le_right _ _) (by linarith)
  · exact le_trans (min_le_right _ _) (by linarith)

/-- the residual bar `(b',d)` agrees with `(b',d')` left of the crossing … -/
theorem tent_residual_left {d b' d' t : K} (hd : d ≤ d') (ht : t ≤ (b' + d) / 2) :
    tent b' d t = tent b' d' t := by
  have h2 : 2 * t ≤ b' + d := by
    have := (le_div_iff₀ (by norm_num : (0 : K) < 2)).mp ht; linarith
  rw [tent_def, tent_def, min_eq_left (by linarith : t - b' ≤ d - t), min_eq_left (by linarith : t - b' ≤ d' - t)]

/-- … and with `(b,d)` right of it -/
theorem tent_residual_right {b d b' t : K} (hb : b ≤ b') (ht : (b' + d) / 2 ≤ t) :
    tent b' d t = tent b d t := by
  have h2 : b' + d ≤ 2 * t := by
    have := (div_le_iff₀ (by norm_num : (0 : K) < 2)).mp ht; linarith
  rw [tent_def, tent_def, min_eq_right (by linarith : d - t ≤ t - b'), min_eq_right (by linarith : d - t ≤ t - b)]

/-! ### `evalPL` of a list extended at its end -/

/-- the line through two points -/
def interp (p q : K × K) (t : K) : K := p.2 + (q.2 - p.2) * (t - p.1) / (q.1 - p.1)

/-- strictly increasing abscissae -/
def Asc (c : List (K × K)) : Prop := (c.map Prod.fst).Pairwise (· < ·)

theorem Asc.snoc {pre : List (K × K)} {pl q : K × K} (h : Asc (pre ++ [pl])) (hq : pl.1 < q.1) :
    Asc (pre ++ [pl] ++ [q]) := by
  unfold Asc at *
  rw [List.map_append, List.pairwise_append]
  refine ⟨h, by simp, ?_⟩
  intro a ha c hc
  have hc' : c = q.1 := by simpa using hc
  subst hc'
  rw [List.map_append, List.pairwise_append] at h
  rw [List.map_append, List.mem_append] at ha
  rcases ha with ha | ha
  · exact lt_trans (h.2.2 a ha pl.1 (by simp)) hq
  · have : a = pl.1 := by simpa using ha
    rw [this]; exact hq

theorem Asc.head_lt_last {p0 : K × K} {r : List (K × K)} {pl : K × K} (h : Asc (p0 :: r ++ [pl])) : p0.1 < pl.1 := by
  unfold Asc at h
  rw [List.cons_append, List.map_cons, List.pairwise_cons] at h
  exact h.1 pl.1 (by simp)

theorem Asc.tail {p0 : K × K} {c : List (K × K)} (h : Asc (p0 :: c)) : Asc c := by
  unfold Asc at *
  rw [List.map_cons, List.pairwise_cons] at h
  exact h.2

/-- **`evalPL` after appending one point**: unchanged up to the old last abscissa, then the new
    segment, then `0` -/
theorem evalPL_snoc : ∀ (pre : List (K × K)) (pl q : K × K), pre ≠ [] → Asc (pre ++ [pl]) → pl.1 < q.1 →
    ∀ t, evalPL (pre ++ [pl] ++ [q]) t =
      if t ≤ pl.1 then evalPL (pre ++ [pl]) t else if t ≤ q.1 then interp pl q t else 0
  | [], _, _, h, _, _ => absurd rfl h
  | [p0], pl, q, _, hasc, hq => by
    intro t
    obtain ⟨x0, y0⟩ := p0
    obtain ⟨x1, y1⟩ := pl
    obtain ⟨xq, yq⟩ := q
    have h01 : x0 < x1 := Asc.head_lt_last (r := []) hasc
    show evalPL [(x0, y0), (x1, y1), (xq, yq)] t = if t ≤ x1 then evalPL [(x0, y0), (x1, y1)] t
      else if t ≤ xq then interp (x1, y1) (xq, yq) t else 0
    rw [evalPL_cons_cons, evalPL_cons_cons, evalPL_cons_cons]
    by_cases h1 : t ≤ x1
    · rw [if_pos h1, if_pos h1, if_pos h1]
    · have h1' : x1 < t := not_le.mp h1
      rw [if_neg h1, if_neg h1, if_neg (not_lt.mpr (le_trans h01.le h1'.le)), if_neg (not_lt.mpr h1'.le)]
      by_cases h2 : t ≤ xq
      · rw [if_pos h2, if_pos h2]; rfl
      · rw [if_neg h2, if_neg h2]; rfl
  | p0 :: p1 :: r, pl, q, _, hasc, hq => by
    intro t
    obtain ⟨x0, y0⟩ := p0
    obtain ⟨x1, y1⟩ := p1
    have ih := evalPL_snoc ((x1, y1) :: r) pl q (by simp) (Asc.tail hasc) hq t
    have h01 : x0 < x1 := by
      unfold Asc at hasc
      simp only [List.cons_append, List.map_cons, List.pairwise_cons] at hasc
      exact hasc.1 x1 (by simp)
    have h1l : x1 < pl.1 := Asc.head_lt_last (Asc.tail hasc)
    show evalPL ((x0, y0) :: (x1, y1) :: (r ++ [pl] ++ [q])) t =
      if t ≤ pl.1 then evalPL ((x0, y0) :: (x1, y1) :: (r ++ [pl])) t else if t ≤ q.1 then interp pl q t else 0
    rw [evalPL_cons_cons, evalPL_cons_cons]
    have ih' : evalPL ((x1, y1) :: (r ++ [pl] ++ [q])) t =
        if t ≤ pl.1 then evalPL ((x1, y1) :: (r ++ [pl])) t else if t ≤ q.1 then interp pl q t else 0 := by
      simpa using ih
    by_cases h0 : t < x0
    · rw [if_pos h0, if_pos h0, if_pos (le_trans h0.le (le_trans h01.le h1l.le))]
    · rw [if_neg h0, if_neg h0]
      by_cases h1 : t ≤ x1
      · rw [if_pos h1, if_pos h1, if_pos (le_trans h1 h1l.le)]
      · rw [if_neg h1, if_neg h1, ih']

theorem evalPL_snoc_left {pre : List (K × K)} {pl q : K × K} (hpre : pre ≠ []) (hasc : Asc (pre ++ [pl]))
    (hq : pl.1 < q.1) {t : K} (ht : t ≤ pl.1) : evalPL (pre ++ [pl] ++ [q]) t = evalPL (pre ++ [pl]) t := by
  rw [evalPL_snoc pre pl q hpre hasc hq, if_pos ht]

theorem evalPL_snoc_mid {pre : List (K × K)} {pl q : K × K} (hpre : pre ≠ []) (hasc : Asc (pre ++ [pl]))
    (hq : pl.1 < q.1) {t : K} (h1 : pl.1 < t) (h2 : t ≤ q.1) : evalPL (pre ++ [pl] ++ [q]) t = interp pl q t := by
  rw [evalPL_snoc pre pl q hpre hasc hq, if_neg (not_le.mpr h1), if_pos h2]

theorem evalPL_snoc_right {pre : List (K × K)} {pl q : K × K} (hpre : pre ≠ []) (hasc : Asc (pre ++ [pl]))
    (hq : pl.1 < q.1) {t : K} (h2 : q.1 < t) : evalPL (pre ++ [pl] ++ [q]) t = 0 := by
  rw [evalPL_snoc pre pl q hpre hasc hq, if_neg (not_le.mpr (lt_trans hq h2)), if_neg (not_le.mpr h2)]

/-! ### the explicit segments the sweep appends -/

/-- peak of the tent of `(b,d)` -/
def peak (b d : K) : K × K := ((b + d) / 2, (d - b) / 2)

theorem interp_eq {p q : K × K} {t v : K} (hne : q.1 - p.1 ≠ 0)
    (h : (q.2 - p.2) * (t - p.1) = (v - p.2) * (q.1 - p.1)) : interp p q t = v := by
  unfold interp
  rw [h, mul_div_assoc, div_self hne]
  ring

theorem interp_peak_fall {b d x y : K} (t : K) (hy : y = d - x) (hx' : (b + d) / 2 < x) :
    interp (peak b d) (x, y) t = d - t := by
  apply interp_eq
  · exact sub_ne_zero.mpr hx'.ne'
  · subst hy; unfold peak; simp only; ring

theorem interp_rise_peak {b' d' x y : K} (t : K) (hy : y = x - b') (hx : x < (b' + d') / 2) :
    interp (x, y) (peak b' d') t = t - b' := by
  apply interp_eq
  · exact sub_ne_zero.mpr hx.ne'
  · subst hy; unfold peak; simp only; ring

theorem interp_zero (p q : K × K) (hp : p.2 = 0) (hq : q.2 = 0) (t : K) : interp p q t = 0 := by
  unfold interp; rw [hp, hq]; simp

/-! ### the envelope so far -/

/-- the function built so far while `(b,d)` is the current bar -/
def Gf (cur : List (K × K)) (b d t : K) : K := if t ≤ (b + d) / 2 then evalPL cur t else tent b d t

theorem Gf_left {cur : List (K × K)} {b d t : K} (h : t ≤ (b + d) / 2) : Gf cur b d t = evalPL cur t := by
  unfold Gf; rw [if_pos h]

theorem Gf_right {cur : List (K × K)} {b d t : K} (h : (b + d) / 2 < t) : Gf cur b d t = tent b d t := by
  unfold Gf; rw [if_neg (not_le.mpr h)]

theorem mid_lt {b d : K} (h : b < d) : b < (b + d) / 2 ∧ (b + d) / 2 < d := by
  constructor
  · rw [lt_div_iff₀ (by norm_num : (0 : K) < 2)]; linarith
  · rw [div_lt_iff₀ (by norm_num : (0 : K) < 2)]; linarith

theorem mid_lt_mid {a b c d : K} (h : a + b < c + d) : (a + b) / 2 < (c + d) / 2 :=
  div_lt_div_of_pos_right h (by norm_num)

/-- start of a level: `[(b,0), peak]` already is the tent of `(b,d)` -/
theorem Gf_init {b d : K} (hbd : b < d) (t : K) : Gf ([(b, 0)] ++ [peak b d]) b d t = tent b d t := by
  obtain ⟨h1, h2⟩ := mid_lt hbd
  by_cases ht : t ≤ (b + d) / 2
  · rw [Gf_left ht]
    show evalPL [(b, 0), ((b + d) / 2, (d - b) / 2)] t = tent b d t
    rw [evalPL_cons_cons]
    by_cases hb : t < b
    · rw [if_pos hb, tent_zero_left hb.le]
    · rw [if_neg hb, if_pos ht, tent_rise (not_lt.mp hb) ht]
      exact interp_rise_peak (b' := b) (d' := d) (x := b) (y := 0) t (by ring) h1
  · rw [Gf_right (not_le.mp ht)]

theorem Asc_init {b d : K} (hbd : b < d) : Asc ([(b, 0)] ++ [peak b d]) := by
  unfold Asc peak
  simp [(mid_lt hbd).1]

/-- end of a level: appending `(d,0)` gives exactly the function built so far -/
theorem evalPL_close {pre : List (K × K)} {b d : K} (hpre : pre ≠ []) (hbd : b < d)
    (hasc : Asc (pre ++ [peak b d])) (t : K) :
    evalPL (pre ++ [peak b d] ++ [(d, 0)]) t = Gf (pre ++ [peak b d]) b d t := by
  obtain ⟨h1, h2⟩ := mid_lt hbd
  have hq : (peak b d).1 < ((d, 0) : K × K).1 := h2
  by_cases ht : t ≤ (b + d) / 2
  · rw [Gf_left ht, evalPL_snoc_left hpre hasc hq ht]
  · have ht' : (b + d) / 2 < t := not_le.mp ht
    rw [Gf_right ht']
    by_cases htd : t ≤ d
    · rw [evalPL_snoc_mid hpre hasc hq ht' htd, tent_fall htd ht'.le]
      exact interp_peak_fall t (by ring) h2
    · rw [evalPL_snoc_right hpre hasc hq (not_le.mp htd), tent_zero_right (not_le.mp htd).le]

/-! ### one step of the inner loop -/

theorem Gf_nonneg {cur : List (K × K)} {b d : K} (hge : ∀ t, tent b d t ≤ Gf cur b d t) (t : K) :
    0 ≤ Gf cur b d t := le_trans (tent_nonneg b d t) (hge t)

/-- **Case III** (`b < b' < d < d'`): after appending the crossing point and the peak of `(b',d')` the
    function is the pointwise maximum of the old one and the tent of `(b',d')`; the pointwise minimum is
    the tent of the residual bar `(b',d)` -/
theorem Gf_caseIII {pre : List (K × K)} {b d b' d' : K} (hpre : pre ≠ []) (hasc : Asc (pre ++ [peak b d]))
    (h1 : b < b') (h2 : b' < d) (h3 : d < d') (hge : ∀ t, tent b d t ≤ Gf (pre ++ [peak b d]) b d t) :
    Asc (pre ++ [peak b d] ++ [((b' + d) / 2, (d - b') / 2)] ++ [peak b' d']) ∧
    (∀ t, Gf (pre ++ [peak b d] ++ [((b' + d) / 2, (d - b') / 2)] ++ [peak b' d']) b' d' t =
      max (Gf (pre ++ [peak b d]) b d t) (tent b' d' t)) ∧
    (∀ t, min (Gf (pre ++ [peak b d]) b d t) (tent b' d' t) = tent b' d t) := by
  have hm_cx : (b + d) / 2 < (b' + d) / 2 := mid_lt_mid (by linarith)
  have hcx_m' : (b' + d) / 2 < (b' + d') / 2 := mid_lt_mid (by linarith)
  have hcx_d : (b' + d) / 2 < d := (mid_lt h2).2
  have hb'_cx : b' < (b' + d) / 2 := (mid_lt h2).1
  have hq1 : (peak b d).1 < (((b' + d) / 2, (d - b') / 2) : K × K).1 := hm_cx
  have hq2 : (((b' + d) / 2, (d - b') / 2) : K × K).1 < (peak b' d').1 := hcx_m'
  have hasc2 : Asc (pre ++ [peak b d] ++ [((b' + d) / 2, (d - b') / 2)]) := hasc.snoc hq1
  have hasc3 := hasc2.snoc hq2
  have hpre2 : pre ++ [peak b d] ≠ [] := by simp
  refine ⟨hasc3, ?_, ?_⟩
  · intro t
    by_cases ht : t ≤ (b' + d) / 2
    · have hle : tent b' d' t ≤ Gf (pre ++ [peak b d]) b d t :=
        le_trans (tent_le_of_le_cross h1.le ht) (hge t)
      rw [max_eq_left hle, Gf_left (le_trans ht hcx_m'.le), evalPL_snoc_left hpre2 hasc2 hq2 ht]
      by_cases htm : t ≤ (b + d) / 2
      · rw [evalPL_snoc_left hpre hasc hq1 htm, Gf_left htm]
      · have htm' : (b + d) / 2 < t := not_le.mp htm
        rw [evalPL_snoc_mid hpre hasc hq1 htm' ht, Gf_right htm', tent_fall (le_trans ht hcx_d.le) htm'.le]
        exact interp_peak_fall t (by ring) hm_cx
    · have ht' : (b' + d) / 2 < t := not_le.mp ht
      have htm' : (b + d) / 2 < t := lt_trans hm_cx ht'
      rw [Gf_right htm', max_eq_right (tent_le_of_cross_le h3.le ht'.le)]
      by_cases htm2 : t ≤ (b' + d') / 2
      · rw [Gf_left htm2, evalPL_snoc_mid hpre2 hasc2 hq2 ht' htm2, tent_rise (le_trans hb'_cx.le ht'.le) htm2]
        exact interp_rise_peak t (by ring) hcx_m'
      · rw [Gf_right (not_le.mp htm2)]
  · intro t
    by_cases ht : t ≤ (b' + d) / 2
    · have hle : tent b' d' t ≤ Gf (pre ++ [peak b d]) b d t :=
        le_trans (tent_le_of_le_cross h1.le ht) (hge t)
      rw [min_eq_right hle, tent_residual_left h3.le ht]
    · have ht' : (b' + d) / 2 < t := not_le.mp ht
      rw [Gf_right (lt_trans hm_cx ht'), min_eq_left (tent_le_of_cross_le h3.le ht'.le),
        tent_residual_right h1.le ht'.le]

/-- **Case I** (`d < b'`): the points `(d,0)`, `(b',0)` and the peak of `(b',d')` are appended -/
theorem Gf_caseI {pre : List (K × K)} {b d b' d' : K} (hpre : pre ≠ []) (hasc : Asc (pre ++ [peak b d]))
    (hbd : b < d) (h2 : d < b') (h3 : b' < d') (hge : ∀ t, tent b d t ≤ Gf (pre ++ [peak b d]) b d t) :
    Asc (pre ++ [peak b d] ++ [(d, 0)] ++ [(b', 0)] ++ [peak b' d']) ∧
    (∀ t, Gf (pre ++ [peak b d] ++ [(d, 0)] ++ [(b', 0)] ++ [peak b' d']) b' d' t =
      max (Gf (pre ++ [peak b d]) b d t) (tent b' d' t)) ∧
    (∀ t, min (Gf (pre ++ [peak b d]) b d t) (tent b' d' t) = 0) := by
  have hm_d : (b + d) / 2 < d := (mid_lt hbd).2
  have hb'_m' : b' < (b' + d') / 2 := (mid_lt h3).1
  have hq1 : (peak b d).1 < ((d, 0) : K × K).1 := hm_d
  have hq2 : ((d, 0) : K × K).1 < ((b', 0) : K × K).1 := h2
  have hq3 : ((b', 0) : K × K).1 < (peak b' d').1 := hb'_m'
  have hasc2 : Asc (pre ++ [peak b d] ++ [(d, 0)]) := hasc.snoc hq1
  have hasc3 : Asc (pre ++ [peak b d] ++ [(d, 0)] ++ [(b', 0)]) := hasc2.snoc hq2
  have hasc4 := hasc3.snoc hq3
  have hpre2 : pre ++ [peak b d] ≠ [] := by simp
  have hpre3 : pre ++ [peak b d] ++ [(d, 0)] ≠ [] := by simp
  refine ⟨hasc4, ?_, ?_⟩
  · intro t
    by_cases ht : t ≤ d
    · have h0 : tent b' d' t = 0 := tent_zero_left (le_trans ht h2.le)
      rw [h0, max_eq_left (Gf_nonneg hge t), Gf_left (le_trans ht (le_trans h2.le hb'_m'.le)),
        evalPL_snoc_left hpre3 hasc3 hq3 (le_trans ht h2.le), evalPL_snoc_left hpre2 hasc2 hq2 ht,
        evalPL_close hpre hbd hasc]
    · have ht' : d < t := not_le.mp ht
      rw [Gf_right (lt_trans hm_d ht'), tent_zero_right ht'.le, max_eq_right (tent_nonneg b' d' t)]
      by_cases htb : t ≤ b'
      · rw [Gf_left (le_trans htb hb'_m'.le), evalPL_snoc_left hpre3 hasc3 hq3 htb,
          evalPL_snoc_mid hpre2 hasc2 hq2 ht' htb, tent_zero_left htb]
        exact interp_zero _ _ rfl rfl t
      · have htb' : b' < t := not_le.mp htb
        by_cases htm : t ≤ (b' + d') / 2
        · rw [Gf_left htm, evalPL_snoc_mid hpre3 hasc3 hq3 htb' htm, tent_rise htb'.le htm]
          exact interp_rise_peak t (by ring) hb'_m'
        · rw [Gf_right (not_le.mp htm)]
  · intro t
    by_cases ht : t ≤ d
    · rw [tent_zero_left (le_trans ht h2.le), min_eq_right (Gf_nonneg hge t)]
    · have ht' : d < t := not_le.mp ht
      rw [Gf_right (lt_trans hm_d ht'), tent_zero_right ht'.le, min_eq_left (tent_nonneg b' d' t)]

/-- **Case II** (`b' = d`, touching bars): only `(b',0)` and the peak of `(b',d')` are appended -/
theorem Gf_caseII {pre : List (K × K)} {b d d' : K} (hpre : pre ≠ []) (hasc : Asc (pre ++ [peak b d]))
    (hbd : b < d) (h3 : d < d') (hge : ∀ t, tent b d t ≤ Gf (pre ++ [peak b d]) b d t) :
    Asc (pre ++ [peak b d] ++ [(d, 0)] ++ [peak d d']) ∧
    (∀ t, Gf (pre ++ [peak b d] ++ [(d, 0)] ++ [peak d d']) d d' t =
      max (Gf (pre ++ [peak b d]) b d t) (tent d d' t)) ∧
    (∀ t, min (Gf (pre ++ [peak b d]) b d t) (tent d d' t) = 0) := by
  have hm_d : (b + d) / 2 < d := (mid_lt hbd).2
  have hd_m' : d < (d + d') / 2 := (mid_lt h3).1
  have hq1 : (peak b d).1 < ((d, 0) : K × K).1 := hm_d
  have hq3 : ((d, 0) : K × K).1 < (peak d d').1 := hd_m'
  have hasc2 : Asc (pre ++ [peak b d] ++ [(d, 0)]) := hasc.snoc hq1
  have hasc3 := hasc2.snoc hq3
  have hpre2 : pre ++ [peak b d] ≠ [] := by simp
  refine ⟨hasc3, ?_, ?_⟩
  · intro t
    by_cases ht : t ≤ d
    · have h0 : tent d d' t = 0 := tent_zero_left ht
      rw [h0, max_eq_left (Gf_nonneg hge t), Gf_left (le_trans ht hd_m'.le),
        evalPL_snoc_left hpre2 hasc2 hq3 ht, evalPL_close hpre hbd hasc]
    · have ht' : d < t := not_le.mp ht
      rw [Gf_right (lt_trans hm_d ht'), tent_zero_right ht'.le, max_eq_right (tent_nonneg d d' t)]
      by_cases htm : t ≤ (d + d') / 2
      · rw [Gf_left htm, evalPL_snoc_mid hpre2 hasc2 hq3 ht' htm, tent_rise ht'.le htm]
        exact interp_rise_peak t (by ring) hd_m'
      · rw [Gf_right (not_le.mp htm)]
  · intro t
    by_cases ht : t ≤ d
    · rw [tent_zero_left ht, min_eq_right (Gf_nonneg hge t)]
    · have ht' : d < t := not_le.mp ht
      rw [Gf_right (lt_trans hm_d ht'), tent_zero_right ht'.le, min_eq_left (tent_nonneg d d' t)]

end PersimVerif.LandscapeLemmas
