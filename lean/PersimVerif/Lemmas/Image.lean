import PersimVerif.Lemmas.ImageStruct
import Mathlib.Algebra.BigOperators.Group.List.Basic
import Mathlib.Algebra.BigOperators.Ring.List
import Mathlib.Algebra.Order.BigOperators.Group.List
import Mathlib.Algebra.Order.Field.Basic
import Mathlib.Tactic.Ring
import Mathlib.Tactic.Linarith
/-!
  Algebraic lemmas about the model of `_transform` over a field: the accumulated image is, pixel by
  pixel, `Σ_k w_k · rect F_k`; the fast path is the general path of the product kernel; sums over
  the pixel rectangles telescope; collections.
-/
namespace PersimVerif.Image

section sums
variable {R : Type} [Field R]

/-- the specification-side image: on each pixel rectangle, `Σ_k w_k · (corner combination of F_k)` -/
def imageSum {P : Type} (F : P → R → R → R) (bs ps : List R) (pws : List (P × R)) : Mat R :=
  tabulate (pairs bs) (pairs ps) fun q r => (pws.map fun pw => pw.2 * rect (F pw.1) q r).sum

theorem foldl_add_eq_sum {ι : Type} (h : ι → R) (l : List ι) (a : R) :
    l.foldl (fun acc x => acc + h x) a = a + (l.map h).sum := by
  induction l generalizing a with
  | nil => simp
  | cons x t ih => simp only [List.foldl_cons, ih, List.map_cons, List.sum_cons]; ring

theorem imageFold_eq_imageSum {P : Type} (F : P → R → R → R) (bs ps : List R) (pws : List (P × R)) :
    imageFold F bs ps pws = imageSum F bs ps pws := by
  simp only [imageFold, imageSum, foldl_add_eq_sum, zero_add]

/-- the fast loop's kernel is the product kernel (commutativity of the product) -/
theorem fastKernel_eq_prodKernel (sqrt Φ : R → R) (v : R) :
    fastKernel Φ (sqrt v) = prodKernel sqrt Φ v v := by
  funext mu b p
  simp only [fastKernel, prodKernel]
  ring

/-- the kernel that `_transform` effectively uses after its dispatch -/
def effKernel [BEq R] (sqrt Φ : R → R) (kc : KernelChoice R) (F : Pt R → R → R → R) :
    Pt R → R → R → R :=
  match dispatch kc with
  | .fast v => prodKernel sqrt Φ v v
  | .general => F

/-- **master closed form of `_transform`** (elementwise kernel, mesh of `resolution + 1` points) -/
theorem transformOne_closed [BEq R] (sqrt Φ : R → R) (w : Pt R → R) (kc : KernelChoice R)
    (F : Pt R → R → R → R) {rx ry : Nat} {bs ps : List R} (h : meshOk rx ry bs ps)
    (sk : Bool) (dgm : List (Pt R)) :
    transformOne sqrt Φ w kc (vectorize F) rx ry bs ps sk dgm
      = .ok (imageSum (effKernel sqrt Φ kc F) bs ps (withWeights w (toBP sk dgm))) := by
  unfold transformOne effKernel
  cases hd : dispatch kc with
  | fast v =>
    simp only [fastPath_closed sqrt Φ v h, imageFold_eq_imageSum, fastKernel_eq_prodKernel]
  | general =>
    simp only [generalPath_vectorize F h, imageFold_eq_imageSum]

theorem transformOne_shape [BEq R] (sqrt Φ : R → R) (w : Pt R → R) (kc : KernelChoice R)
    (kvec : Pt R → List R → List R → List R) {rx ry : Nat} {bs ps : List R}
    (h : ¬ meshOk rx ry bs ps) (sk : Bool) (dgm : List (Pt R)) :
    transformOne sqrt Φ w kc kvec rx ry bs ps sk dgm = .error .shape := by
  unfold transformOne
  cases dispatch kc with
  | fast v => exact fastPath_shape sqrt Φ v h _
  | general => exact generalPath_shape kvec h _

theorem imageSum_nil {P : Type} (F : P → R → R → R) {rx ry : Nat} {bs ps : List R}
    (h : meshOk rx ry bs ps) : imageSum F bs ps [] = zeros rx ry := by
  rw [zeros_of_meshOk h]; simp [imageSum]

theorem imageSum_append {P : Type} (F : P → R → R → R) (bs ps : List R) (A B : List (P × R)) :
    imageSum F bs ps (A ++ B) = matZip (· + ·) (imageSum F bs ps A) (imageSum F bs ps B) := by
  simp only [imageSum, matZip_tabulate, List.map_append, List.sum_append]

theorem imageSum_perm {P : Type} (F : P → R → R → R) (bs ps : List R) {A B : List (P × R)}
    (h : A.Perm B) : imageSum F bs ps A = imageSum F bs ps B := by
  simp only [imageSum]
  congr 1
  funext q r
  exact (h.map _).sum_eq

theorem imageSum_drop_zero {P : Type} (F : P → R → R → R) (bs ps : List R) (A B : List (P × R))
    (pt : P) : imageSum F bs ps (A ++ (pt, 0) :: B) = imageSum F bs ps (A ++ B) := by
  simp only [imageSum, List.map_append, List.map_cons, List.sum_append, List.sum_cons, zero_mul, zero_add]

end sums

section telescope
variable {R : Type} [Field R]

/-- differences over consecutive mesh points telescope -/
theorem sum_pairs_telescope (g : R → R) : ∀ (l : List R) (a z : R),
    l.head? = some a → l.getLast? = some z → ((pairs l).map fun q => g q.2 - g q.1).sum = g z - g a
  | [], _, _, h, _ => by simp at h
  | [x], a, z, ha, hz => by
    simp only [List.head?_cons, Option.some.injEq] at ha
    simp only [List.getLast?_singleton, Option.some.injEq] at hz
    subst ha; subst hz; simp
  | x :: y :: t, a, z, ha, hz => by
    simp only [List.head?_cons, Option.some.injEq] at ha
    rw [List.getLast?_cons_cons] at hz
    have ih := sum_pairs_telescope g (y :: t) y z rfl hz
    subst ha
    simp only [pairs_cons_cons, List.map_cons, List.sum_cons, ih]
    ring

/-- the sum of all entries of a matrix -/
def matTotal (M : Mat R) : R := (M.map List.sum).sum

theorem matTotal_tabulate {κ ι : Type} (Q : List κ) (Rr : List ι) (g : κ → ι → R) :
    matTotal (tabulate Q Rr g) = (Q.map fun q => (Rr.map fun r => g q r).sum).sum := by
  simp only [matTotal, tabulate, List.map_map, Function.comp_def]

/-- **the pixel rectangles telescope to the whole imaged rectangle** -/
theorem total_rect_telescope (G : R → R → R) (bs ps : List R) (b0 b1 p0 p1 : R)
    (hb0 : bs.head? = some b0) (hb1 : bs.getLast? = some b1)
    (hp0 : ps.head? = some p0) (hp1 : ps.getLast? = some p1) :
    matTotal (tabulate (pairs bs) (pairs ps) (rect G)) = rect G (b0, b1) (p0, p1) := by
  rw [matTotal_tabulate]
  have inner : ∀ q : R × R, ((pairs ps).map fun r => rect G q r).sum
      = (G q.2 p1 - G q.2 p0) - (G q.1 p1 - G q.1 p0) := by
    intro q
    have := sum_pairs_telescope (fun y => G q.2 y - G q.1 y) ps p0 p1 hp0 hp1
    rw [← sub_sub_sub_comm, ← this]
    congr 1
    apply List.map_congr_left
    intro r _
    simp only [rect]; ring
  simp only [inner]
  have := sum_pairs_telescope (fun x => G x p1 - G x p0) bs b0 b1 hb0 hb1
  rw [this]
  simp only [rect]; ring

theorem matTotal_imageSum {P : Type} (F : P → R → R → R) (bs ps : List R) (pws : List (P × R)) :
    matTotal (imageSum F bs ps pws)
      = (pws.map fun pw => pw.2 * matTotal (tabulate (pairs bs) (pairs ps) (rect (F pw.1)))).sum := by
  simp only [imageSum, matTotal_tabulate]
  induction pws with
  | nil => simp
  | cons pw t ih =>
    simp only [List.map_cons, List.sum_cons, List.sum_map_add, ih, List.sum_map_mul_left]

end telescope

section order
variable {R : Type} [Field R] [LinearOrder R] [IsStrictOrderedRing R]

theorem imageSum_nonneg {P : Type} (F : P → R → R → R) (bs ps : List R) (pws : List (P × R))
    (hw : ∀ pw ∈ pws, 0 ≤ pw.2)
    (hm : ∀ pw ∈ pws, ∀ q ∈ pairs bs, ∀ r ∈ pairs ps, 0 ≤ rect (F pw.1) q r) :
    ∀ row ∈ imageSum F bs ps pws, ∀ x ∈ row, 0 ≤ x := by
  intro row hrow x hx
  obtain ⟨q, hq, rfl⟩ := List.mem_map.mp hrow
  obtain ⟨r, hr, rfl⟩ := List.mem_map.mp hx
  apply List.sum_nonneg
  intro y hy
  obtain ⟨pw, hpw, rfl⟩ := List.mem_map.mp hy
  exact mul_nonneg (hw pw hpw) (hm pw hpw q hq r hr)

theorem sum_mul_le_sum {ι : Type} (l : List ι) (w m : ι → R) (hw : ∀ x ∈ l, 0 ≤ w x)
    (hm : ∀ x ∈ l, m x ≤ 1) : (l.map fun x => w x * m x).sum ≤ (l.map w).sum := by
  induction l with
  | nil => simp
  | cons a t ih =>
    have h1 : w a * m a ≤ w a := by
      have := mul_le_mul_of_nonneg_left (hm a (by simp)) (hw a (by simp))
      simpa using this
    have h2 := ih (fun x hx => hw x (by simp [hx])) (fun x hx => hm x (by simp [hx]))
    simp only [List.map_cons, List.sum_cons]
    linarith

end order

section collections
variable {α : Type}

theorem mapM_ok_iff (one : List (Pt α) → Except Err (Mat α)) :
    ∀ (ds : List (List (Pt α))) (ms : List (Mat α)),
      ds.mapM one = .ok ms ↔ List.Forall₂ (fun d m => one d = .ok m) ds ms
  | [], ms => by
    simp only [List.mapM_nil]
    constructor
    · intro h; cases h; exact .nil
    · intro h; cases h; rfl
  | d :: t, ms => by
    rw [List.mapM_cons]
    cases hd : one d with
    | error e =>
      constructor
      · intro h; cases h
      · intro h; cases h with | cons h1 _ => rw [hd] at h1; cases h1
    | ok m =>
      cases ht : t.mapM one with
      | error e =>
        constructor
        · intro h; cases h
        · intro h
          cases h with
          | cons h1 h2 =>
            have := (mapM_ok_iff one t _).mpr h2
            rw [ht] at this; cases this
      | ok ms' =>
        have ih := (mapM_ok_iff one t ms').mp ht
        constructor
        · intro h
          have : ms = m :: ms' := by cases h; rfl
          subst this
          exact .cons hd ih
        · intro h
          cases h with
          | cons h1 h2 =>
            rw [hd] at h1
            have e1 := Except.ok.inj h1
            have := (mapM_ok_iff one t _).mpr h2
            rw [ht] at this
            have e2 := Except.ok.inj this
            subst e1; subst e2; rfl

theorem mapM_all_ok (one : List (Pt α) → Except Err (Mat α)) (f : List (Pt α) → Mat α)
    (h : ∀ d, one d = .ok (f d)) (ds : List (List (Pt α))) : ds.mapM one = .ok (ds.map f) := by
  rw [mapM_ok_iff]
  induction ds with
  | nil => exact .nil
  | cons d t ih => exact .cons (h d) ih

end collections
end PersimVerif.Image
