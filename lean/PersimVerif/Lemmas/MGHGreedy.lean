import PersimVerif.Lemmas.MGHDist
import Mathlib.Algebra.BigOperators.Group.Finset.Basic
import Mathlib.Algebra.BigOperators.Intervals
import Mathlib.Tactic.Linarith
import Mathlib.Algebra.BigOperators.Group.Finset.Piecewise

/-!
# [P2] completeness of the sliding-window greedy `checkAssignmentFeasibility`

If the greedy answers `false`, there is a *Hall violator*: an interval `[a, b]` of values of `v`
whose total frequency exceeds the total frequency of the values of `u` within distance `w = d-1`
of the interval.  A Hall violator excludes every injective assignment (pigeonhole).
-/
namespace PersimVerif.MGH
open PersimVerif.MGHSpec

/-- prefix sums of a list (entries beyond the end count 0) -/
def psum (l : List ℕ) (k : ℕ) : ℕ := ∑ c ∈ Finset.range k, l.getD c 0

theorem psum_zero (l : List ℕ) : psum l 0 = 0 := by simp [psum]

theorem psum_succ (l : List ℕ) (k : ℕ) : psum l (k + 1) = psum l k + l.getD k 0 := by
  simp [psum, Finset.sum_range_succ]

theorem psum_eq_of_zero (l : List ℕ) {x y : ℕ} (hxy : x ≤ y)
    (h : ∀ c, x ≤ c → c < y → l.getD c 0 = 0) : psum l y = psum l x := by
  induction y, hxy using Nat.le_induction with
  | base => rfl
  | succ y hy ih =>
    rw [psum_succ, h y hy (by omega), Nat.add_zero]
    exact ih (fun c h1 h2 => h c h1 (by omega))

theorem psum_mono (l : List ℕ) {x y : ℕ} (hxy : x ≤ y) : psum l x ≤ psum l y := by
  induction y, hxy using Nat.le_induction with
  | base => exact le_rfl
  | succ y hy ih => rw [psum_succ]; omega

/-- a Hall violator for the reversed distributions `rv`, `ru` and window `w` -/
def HallViol (rv ru : List ℕ) (w : ℕ) : Prop :=
  ∃ a b, a ≤ b ∧ psum ru (b + w + 1) + psum rv a < psum rv (b + 1) + psum ru (a - w)

/-! ### facts about `firstPos` and `set` -/

theorem firstPosFrom_some {l : List ℕ} {fuel lo k : ℕ} (h : firstPosFrom l fuel lo = some k) :
    lo ≤ k ∧ k < lo + fuel ∧ 0 < l.getD k 0 ∧ ∀ c, lo ≤ c → c < k → l.getD c 0 = 0 := by
  induction fuel generalizing lo with
  | zero => simp [firstPosFrom] at h
  | succ fuel ih =>
    simp only [firstPosFrom] at h
    split at h
    · rename_i hpos
      simp only [Option.some.injEq] at h; subst h
      exact ⟨le_rfl, by omega, hpos, fun c h1 h2 => by omega⟩
    · rename_i hpos
      obtain ⟨h1, h2, h3, h4⟩ := ih h
      refine ⟨by omega, by omega, h3, fun c hc1 hc2 => ?_⟩
      by_cases e : c = lo
      · subst e; omega
      · exact h4 c (by omega) hc2

theorem firstPosFrom_none {l : List ℕ} {fuel lo : ℕ} (h : firstPosFrom l fuel lo = none) :
    ∀ c, lo ≤ c → c < lo + fuel → l.getD c 0 = 0 := by
  induction fuel generalizing lo with
  | zero => intro c h1 h2; omega
  | succ fuel ih =>
    simp only [firstPosFrom] at h
    split at h
    · simp at h
    · rename_i hpos
      intro c hc1 hc2
      by_cases e : c = lo
      · subst e; omega
      · exact ih h c (by omega) (by omega)

theorem firstPos_some {l : List ℕ} {lo hi k : ℕ} (h : firstPos l lo hi = some k) :
    lo ≤ k ∧ k < hi ∧ 0 < l.getD k 0 ∧ ∀ c, lo ≤ c → c < k → l.getD c 0 = 0 := by
  obtain ⟨h1, h2, h3, h4⟩ := firstPosFrom_some h
  exact ⟨h1, by omega, h3, h4⟩

theorem firstPos_none {l : List ℕ} {lo hi : ℕ} (h : firstPos l lo hi = none) :
    ∀ c, lo ≤ c → c < hi → l.getD c 0 = 0 := by
  intro c h1 h2
  exact firstPosFrom_none h c h1 (by omega)

theorem getD_of_length_le {l : List ℕ} {c : ℕ} (h : l.length ≤ c) : l.getD c 0 = 0 := by
  simp [List.getD, h]

/-- `nextJ = none`: no positive entry of `ru` in the window up to `i + w` -/
theorem nextJ_none {w : ℕ} {ru : List ℕ} {i minJ : ℕ} (h : nextJ w ru i minJ = none) :
    ∀ c, minJ ≤ c → c < i + w + 1 → ru.getD c 0 = 0 := by
  intro c hc1 hc2
  by_cases hl : c < ru.length
  · exact firstPos_none h c hc1 (by simp only [lt_min_iff]; exact ⟨hc2, hl⟩)
  · exact getD_of_length_le (by omega)

theorem nextJ_some {w : ℕ} {ru : List ℕ} {i minJ j : ℕ} (h : nextJ w ru i minJ = some j) :
    minJ ≤ j ∧ j < i + w + 1 ∧ j < ru.length ∧ 0 < ru.getD j 0 ∧
      ∀ c, minJ ≤ c → c < j → ru.getD c 0 = 0 := by
  obtain ⟨h1, h2, h3, h4⟩ := firstPos_some h
  simp only [lt_min_iff] at h2
  exact ⟨h1, h2.1, h2.2, h3, h4⟩

theorem getD_set_self_zero (l : List ℕ) (i : ℕ) : (l.set i 0).getD i 0 = 0 := by
  by_cases h : i < l.length <;> simp [List.getD, h]

theorem getD_set_eq (l : List ℕ) {i : ℕ} (x : ℕ) (h : i < l.length) : (l.set i x).getD i 0 = x := by
  simp [List.getD, h]

theorem getD_set_ne (l : List ℕ) {i c : ℕ} (x : ℕ) (h : c ≠ i) :
    (l.set i x).getD c 0 = l.getD c 0 := by
  simp [List.getD, Ne.symm h]

theorem nextIAndJ_some {w : ℕ} {rv ru : List ℕ} {minI minJ i' : ℕ} {oj : Option ℕ}
    (h : nextIAndJ w rv ru minI minJ = (some i', oj)) :
    firstPos rv minI rv.length = some i' ∧ oj = nextJ w ru i' (max (i' - w) minJ) := by
  unfold nextIAndJ at h
  split at h
  · simp at h
  · rename_i k hk
    simp only [Prod.mk.injEq, Option.some.injEq] at h
    obtain ⟨rfl, rfl⟩ := h
    exact ⟨hk, rfl⟩

/-! ### the loop invariant -/

/-- ghost invariant of `feasLoop`: `rv0`, `ru0` are the distributions the greedy started from, `a` is
    the first value index of the current *block* (since the last time the window's lower end skipped
    unused capacity); all capacity of `ru0` on `[a-w, j)` and the used part of `ru0[j]` went to the
    demand of `rv0` on `[a, i)` and the served part of `rv0[i]`. -/
structure GInv (rv0 ru0 : List ℕ) (w : ℕ) (rv ru : List ℕ) (i j a : ℕ) : Prop where
  ilt : i < rv.length
  jlt : j < ru.length
  vhi : ∀ c, i < c → rv.getD c 0 = rv0.getD c 0
  vi : rv.getD i 0 ≤ rv0.getD i 0
  uhi : ∀ c, j < c → ru.getD c 0 = ru0.getD c 0
  uj : ru.getD j 0 ≤ ru0.getD j 0
  ai : a ≤ i
  aj : a ≤ j + w
  ji : j ≤ i + w
  bal : psum rv0 i + (rv0.getD i 0 - rv.getD i 0) + psum ru0 (a - w) =
    psum ru0 j + (ru0.getD j 0 - ru.getD j 0) + psum rv0 a

/-- facts shared by the two cases that follow a fully served value `i` -/
private theorem after_served {rv0 ru0 : List ℕ} {w : ℕ} {rv ru : List ℕ} {i j a i' : ℕ}
    (I : GInv rv0 ru0 w rv ru i j a)
    (hfp : firstPos (rv.set i 0) i (rv.set i 0).length = some i') :
    i < i' ∧ i' < rv.length ∧ 0 < rv0.getD i' 0 ∧ (rv.set i 0).getD i' 0 = rv0.getD i' 0 ∧
      psum rv0 i' = psum rv0 i + rv0.getD i 0 := by
  obtain ⟨h1, h2, h3, h4⟩ := firstPos_some hfp
  have hne : i' ≠ i := by
    intro e; rw [e, getD_set_eq _ _ I.ilt] at h3; omega
  have hlt : i < i' := by omega
  have e1 : (rv.set i 0).getD i' 0 = rv0.getD i' 0 := by
    rw [getD_set_ne _ _ hne]; exact I.vhi i' hlt
  refine ⟨hlt, by simpa using h2, by omega, e1, ?_⟩
  rw [psum_eq_of_zero rv0 (x := i + 1) (y := i') (by omega), psum_succ]
  intro c hc1 hc2
  have := h4 c (by omega) hc2
  rw [getD_set_ne _ _ (by omega)] at this
  rw [← I.vhi c (by omega)]; exact this

theorem feasLoop_false_hall (rv0 ru0 : List ℕ) (w fuel : ℕ) (rv ru : List ℕ) (i j : ℕ)
    (h : feasLoop w fuel rv ru i j = false) :
    ∀ a, GInv rv0 ru0 w rv ru i j a → HallViol rv0 ru0 w := by
  fun_induction feasLoop w fuel rv ru i j with
  | case1 => simp at h
  | case2 fuel rv ru i j hle snd hn => simp at h
  | case3 fuel rv ru i j hle i' hn =>
    intro a I
    obtain ⟨hfp, hnj⟩ := nextIAndJ_some hn
    obtain ⟨hlt, hi'len, hpos, _, hps⟩ := after_served I hfp
    have hz := nextJ_none hnj.symm
    by_cases hcase : i' - w ≤ j
    · -- the block continues: violator [a, i']
      rw [max_eq_right hcase] at hz
      have hj0 := hz j le_rfl (by have := I.ji; omega)
      rw [getD_set_eq _ _ I.jlt] at hj0
      have hzu : ∀ c, j + 1 ≤ c → c < i' + w + 1 → ru0.getD c 0 = 0 := by
        intro c hc1 hc2
        have := hz c (by omega) hc2
        rw [getD_set_ne _ _ (by omega)] at this
        rw [← I.uhi c (by omega)]; exact this
      have hpu := psum_eq_of_zero ru0 (x := j + 1) (y := i' + w + 1) (by have := I.ji; omega) hzu
      have s1 := psum_succ ru0 j
      have s2 := psum_succ rv0 i'
      refine ⟨a, i', by have := I.ai; omega, ?_⟩
      have := I.bal; have := I.vi; have := I.uj
      omega
    · -- a new block would start at i': violator [i', i']
      have hm : max (i' - w) j = i' - w := max_eq_left (by omega)
      rw [hm] at hz
      have hzu : ∀ c, i' - w ≤ c → c < i' + w + 1 → ru0.getD c 0 = 0 := by
        intro c hc1 hc2
        have := hz c hc1 hc2
        rw [getD_set_ne _ _ (by omega)] at this
        rw [← I.uhi c (by omega)]; exact this
      have hpu := psum_eq_of_zero ru0 (x := i' - w) (y := i' + w + 1) (by omega) hzu
      have s2 := psum_succ rv0 i'
      refine ⟨i', i', le_rfl, ?_⟩
      omega
  | case4 fuel rv ru i j hle i' j' hn ih =>
    intro a I
    obtain ⟨hfp, hnj⟩ := nextIAndJ_some hn
    obtain ⟨hlt, hi'len, hpos, hvi', hps⟩ := after_served I hfp
    obtain ⟨hj1, hj2, hj3, hj4, hj5⟩ := nextJ_some hnj.symm
    have hjj' : j ≤ j' := le_trans (le_max_right _ _) hj1
    have hvhi : ∀ c, i' < c → (rv.set i 0).getD c 0 = rv0.getD c 0 := by
      intro c hc; rw [getD_set_ne _ _ (by omega)]; exact I.vhi c (by omega)
    have huhi : ∀ c, j' < c →
        (ru.set j (ru.getD j 0 - rv.getD i 0)).getD c 0 = ru0.getD c 0 := by
      intro c hc; rw [getD_set_ne _ _ (by omega)]; exact I.uhi c (by omega)
    by_cases hcase : i' - w ≤ j
    · rw [max_eq_right hcase] at hj1 hj5
      apply ih h a
      by_cases hjeq : j' = j
      · subst hjeq
        refine ⟨by simpa using hi'len, hj3, hvhi, by omega, huhi, ?_, by have := I.ai; omega,
          I.aj, by omega, ?_⟩
        · rw [getD_set_eq _ _ I.jlt]; have := I.uj; omega
        · rw [hps, hvi', getD_set_eq _ _ I.jlt]
          have := I.bal; have := I.vi; have := I.uj
          omega
      · have hjlt : j < j' := by omega
        have hj0 := hj5 j le_rfl hjlt
        rw [getD_set_eq _ _ I.jlt] at hj0
        have hzu : ∀ c, j + 1 ≤ c → c < j' → ru0.getD c 0 = 0 := by
          intro c hc1 hc2
          have := hj5 c (by omega) hc2
          rw [getD_set_ne _ _ (by omega)] at this
          rw [← I.uhi c (by omega)]; exact this
        have hpu := psum_eq_of_zero ru0 (x := j + 1) (y := j') (by omega) hzu
        rw [psum_succ] at hpu
        have huj' : (ru.set j (ru.getD j 0 - rv.getD i 0)).getD j' 0 = ru0.getD j' 0 := by
          rw [getD_set_ne _ _ (by omega)]; exact I.uhi j' hjlt
        refine ⟨by simpa using hi'len, hj3, hvhi, by omega, huhi, by omega, by have := I.ai; omega,
          by have := I.aj; omega, by omega, ?_⟩
        rw [hps, hvi', huj', hpu]
        have := I.bal; have := I.vi; have := I.uj
        omega
    · have hm : max (i' - w) j = i' - w := max_eq_left (by omega)
      rw [hm] at hj1 hj5
      apply ih h i'
      have hjlt : j < j' := by omega
      have huj' : (ru.set j (ru.getD j 0 - rv.getD i 0)).getD j' 0 = ru0.getD j' 0 := by
        rw [getD_set_ne _ _ (by omega)]; exact I.uhi j' hjlt
      have hzu : ∀ c, i' - w ≤ c → c < j' → ru0.getD c 0 = 0 := by
        intro c hc1 hc2
        have := hj5 c hc1 hc2
        rw [getD_set_ne _ _ (by omega)] at this
        rw [← I.uhi c (by omega)]; exact this
      have hpu := psum_eq_of_zero ru0 (x := i' - w) (y := j') hj1 hzu
      refine ⟨by simpa using hi'len, hj3, hvhi, by omega, huhi, by omega, le_rfl, by omega,
        by omega, ?_⟩
      rw [hvi', huj', hpu]
      omega
  | case5 fuel rv ru i j hgt hn =>
    intro a I
    have hz := nextJ_none hn
    have hzu : ∀ c, j + 1 ≤ c → c < i + w + 1 → ru0.getD c 0 = 0 := by
      intro c hc1 hc2
      have := hz c (by omega) hc2
      rw [getD_set_ne _ _ (by omega)] at this
      rw [← I.uhi c (by omega)]; exact this
    have hpu := psum_eq_of_zero ru0 (x := j + 1) (y := i + w + 1) (by have := I.ji; omega) hzu
    have s1 := psum_succ ru0 j
    have s2 := psum_succ rv0 i
    refine ⟨a, i, I.ai, ?_⟩
    have := I.bal; have := I.vi; have := I.uj
    omega
  | case6 fuel rv ru i j hgt j' hn ih =>
    intro a I
    obtain ⟨hj1, hj2, hj3, hj4, hj5⟩ := nextJ_some hn
    have hne : j' ≠ j := by
      intro e; rw [e, getD_set_eq _ _ I.jlt] at hj4; omega
    have hjlt : j < j' := by omega
    apply ih h a
    have hzu : ∀ c, j + 1 ≤ c → c < j' → ru0.getD c 0 = 0 := by
      intro c hc1 hc2
      have := hj5 c (by omega) hc2
      rw [getD_set_ne _ _ (by omega)] at this
      rw [← I.uhi c (by omega)]; exact this
    have hpu := psum_eq_of_zero ru0 (x := j + 1) (y := j') (by omega) hzu
    rw [psum_succ] at hpu
    have huj' : (ru.set j 0).getD j' 0 = ru0.getD j' 0 := by
      rw [getD_set_ne _ _ hne]; exact I.uhi j' hjlt
    refine ⟨by simpa using I.ilt, hj3, ?_, ?_, ?_, by omega, I.ai, by have := I.aj; omega,
      by omega, ?_⟩
    · intro c hc; rw [getD_set_ne _ _ (by omega)]; exact I.vhi c hc
    · rw [getD_set_eq _ _ I.ilt]; have := I.vi; omega
    · intro c hc; rw [getD_set_ne _ _ (by omega)]; exact I.uhi c (by omega)
    · rw [getD_set_eq _ _ I.ilt, huj', hpu]
      have := I.bal; have := I.vi; have := I.uj
      omega

/-! ### the fuel of `feasLoop` is never exhausted -/

theorem feasLoop_fuel_succ (w fuel : ℕ) (rv ru : List ℕ) (i j : ℕ)
    (h : (rv.length - i) + (ru.length - j) < fuel) :
    feasLoop w (fuel + 1) rv ru i j = feasLoop w fuel rv ru i j := by
  induction fuel generalizing rv ru i j with
  | zero => omega
  | succ fuel ih =>
    conv_lhs => rw [feasLoop.eq_2]
    conv_rhs => rw [feasLoop.eq_2]
    split
    · split
      · rfl
      · rfl
      · rename_i i' j' hn
        obtain ⟨hfp, hnj⟩ := nextIAndJ_some hn
        obtain ⟨h1, h2, h3, _⟩ := firstPos_some hfp
        obtain ⟨hj1, _, hj3, _, _⟩ := nextJ_some hnj.symm
        have hne : i' ≠ i := by
          intro e; rw [e, getD_set_self_zero] at h3; omega
        have hjj : j ≤ j' := le_trans (le_max_right _ _) hj1
        simp only [List.length_set] at h2 hj3
        apply ih
        simp only [List.length_set]
        omega
    · split
      · rfl
      · rename_i j' hn
        obtain ⟨hj1, _, hj3, hj4, _⟩ := nextJ_some hn
        have hne : j' ≠ j := by
          intro e; rw [e, getD_set_self_zero] at hj4; omega
        simp only [List.length_set] at hj3
        apply ih
        simp only [List.length_set]
        omega

/-- any two sufficient amounts of fuel give the same answer: the `0` case of `feasLoop` is not
    reached from `checkAssignmentFeasibility` -/
theorem feasLoop_fuel_irrelevant (w f1 f2 : ℕ) (rv ru : List ℕ) (i j : ℕ)
    (h1 : (rv.length - i) + (ru.length - j) < f1) (h2 : (rv.length - i) + (ru.length - j) < f2) :
    feasLoop w f1 rv ru i j = feasLoop w f2 rv ru i j := by
  have key : ∀ f, (rv.length - i) + (ru.length - j) < f →
      feasLoop w f rv ru i j = feasLoop w ((rv.length - i) + (ru.length - j) + 1) rv ru i j := by
    intro f hf
    induction f, hf using Nat.le_induction with
    | base => rfl
    | succ f hf ih => rw [feasLoop_fuel_succ w f rv ru i j hf]; exact ih
  rw [key f1 h1, key f2 h2]

/-- **the greedy answers `false` only in the presence of a Hall violator** -/
theorem check_false_hall (v u : List ℕ) (d : ℕ)
    (h : checkAssignmentFeasibility v u d = false) : HallViol v.reverse u.reverse (d - 1) := by
  unfold checkAssignmentFeasibility at h
  simp only at h
  generalize v.reverse = rv at h ⊢
  generalize u.reverse = ru at h ⊢
  generalize d - 1 = w at h ⊢
  split at h
  · simp at h
  · rename_i i hn
    obtain ⟨hfp, hnj⟩ := nextIAndJ_some hn
    obtain ⟨_, _, hpos, _⟩ := firstPos_some hfp
    have hz := nextJ_none hnj.symm
    rw [Nat.max_zero] at hz
    have hpu := psum_eq_of_zero ru (x := i - w) (y := i + w + 1) (by omega) hz
    have s2 := psum_succ rv i
    exact ⟨i, i, le_rfl, by omega⟩
  · rename_i i j hn
    obtain ⟨hfp, hnj⟩ := nextIAndJ_some hn
    obtain ⟨_, hil, hpos, _⟩ := firstPos_some hfp
    obtain ⟨hj1, hj2, hj3, hj4, hj5⟩ := nextJ_some hnj.symm
    rw [Nat.max_zero] at hj1 hj5
    have hpu := psum_eq_of_zero ru (x := i - w) (y := j) hj1 hj5
    refine feasLoop_false_hall rv ru w _ rv ru i j h i
      ⟨hil, hj3, fun _ _ => rfl, le_rfl, fun _ _ => rfl, le_rfl, le_rfl, by omega, by omega, ?_⟩
    omega

/-! ### a Hall violator excludes every injective assignment -/

theorem card_split {ι : Type*} [Finite ι] (p q r : ι → Prop) (h : ∀ k, r k ↔ p k ∨ q k)
    (hd : ∀ k, ¬(p k ∧ q k)) :
    Nat.card {k // r k} = Nat.card {k // p k} + Nat.card {k // q k} := by
  classical
  have := Fintype.ofFinite ι
  simp only [Nat.card_eq_fintype_card, Fintype.card_subtype, Finset.card_filter]
  rw [← Finset.sum_add_distrib]
  apply Finset.sum_congr rfl
  intro k _
  have := h k; have := hd k
  by_cases hp : p k <;> by_cases hq : q k <;> simp_all

theorem getD_reverse_distOf {ι : Type*} (v : ι → ℕ) (maxD : ℕ) (hv : ∀ k, v k ≤ maxD) (y : ℕ) :
    (distOf v maxD).reverse.getD y 0 = Nat.card {k // v k = y + 1} := by
  by_cases hy : y < maxD
  · have hl : y < (distOf v maxD).reverse.length := by simp [distOf, hy]
    have e0 : (distOf v maxD).reverse.getD y 0 = (distOf v maxD).reverse[y] := by
      rw [List.getD, List.getElem?_eq_getElem hl, Option.getD_some]
    rw [e0, List.getElem_reverse]
    simp only [distOf, List.getElem_map, List.getElem_range, List.length_map, List.length_range]
    have e : maxD - (maxD - 1 - y) = y + 1 := by omega
    rw [e]
  · rw [getD_of_length_le (by simp [distOf]; omega)]
    have : IsEmpty {k // v k = y + 1} := ⟨fun ⟨k, hk⟩ => by have := hv k; omega⟩
    simp

/-- the prefix sums of a reversed distribution are the cumulative counts -/
theorem psum_reverse_distOf {ι : Type*} [Finite ι] (v : ι → ℕ) (maxD : ℕ)
    (hv : ∀ k, 1 ≤ v k ∧ v k ≤ maxD) (y : ℕ) :
    psum (distOf v maxD).reverse y = Nat.card {k // v k ≤ y} := by
  induction y with
  | zero =>
    have : IsEmpty {k // v k ≤ 0} := ⟨fun ⟨k, hk⟩ => by have := (hv k).1; omega⟩
    rw [psum_zero]; exact Nat.card_of_isEmpty.symm
  | succ y ih =>
    rw [psum_succ, ih, getD_reverse_distOf v maxD (fun k => (hv k).2)]
    exact (card_split _ _ _ (fun k => by omega) (fun k => by omega)).symm

theorem hall_excludes {ι κ : Type} [Finite ι] [Finite κ] (v : ι → ℕ) (u : κ → ℕ) (maxD d : ℕ)
    (hd : 1 ≤ d) (hv : ∀ k, 1 ≤ v k ∧ v k ≤ maxD) (hu : ∀ l, 1 ≤ u l ∧ u l ≤ maxD)
    (hH : HallViol (distOf v maxD).reverse (distOf u maxD).reverse (d - 1)) : ¬ Assignable v u d := by
  rintro ⟨σ, hinj, hσ⟩
  obtain ⟨a, b, hab, hlt⟩ := hH
  simp only [psum_reverse_distOf v maxD hv, psum_reverse_distOf u maxD hu] at hlt
  have eA := card_split (fun k => a < v k ∧ v k ≤ b + 1) (fun k => v k ≤ a) (fun k => v k ≤ b + 1)
    (fun k => by omega) (fun k => by omega)
  have eB := card_split (fun l => a - (d - 1) < u l ∧ u l ≤ b + (d - 1) + 1) (fun l => u l ≤ a - (d - 1))
    (fun l => u l ≤ b + (d - 1) + 1) (fun l => by omega) (fun l => by omega)
  let g : {k // a < v k ∧ v k ≤ b + 1} → {l // a - (d - 1) < u l ∧ u l ≤ b + (d - 1) + 1} :=
    fun k => ⟨σ k.val, by
      have h1 := hσ k.val
      have h2 := k.2
      have h3 := (hu (σ k.val)).1
      unfold Nat.dist at h1
      omega⟩
  have hg : Function.Injective g := by
    intro k k' e
    have : σ k.val = σ k'.val := congrArg Subtype.val e
    exact Subtype.ext (hinj this)
  have := Nat.card_le_card_of_injective g hg
  omega

/-- **[P2] `greedy_complete`**: `checkAssignmentFeasibility = false` ⇒ no injective assignment. -/
theorem greedyComplete : ∀ {ι κ : Type} [Finite ι] [Finite κ] (v : ι → ℕ) (u : κ → ℕ) (maxD d : ℕ),
    1 ≤ d → (∀ k, 1 ≤ v k ∧ v k ≤ maxD) → (∀ l, 1 ≤ u l ∧ u l ≤ maxD) →
    checkAssignmentFeasibility (distOf v maxD) (distOf u maxD) d = false → ¬ Assignable v u d :=
  fun v u maxD d hd hv hu h => hall_excludes v u maxD d hd hv hu (check_false_hall _ _ d h)

end PersimVerif.MGH
