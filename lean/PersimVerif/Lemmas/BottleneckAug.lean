import PersimVerif.Lemmas.BottleneckGraph
import PersimVerif.Spec.Matching
import Mathlib.Logic.Equiv.Basic
import Mathlib.Data.Fintype.Sum
import Mathlib.Data.Fintype.Card
import Mathlib.Data.Finset.Sort
import Mathlib.Algebra.Order.AbsoluteValue.Basic
import Mathlib.Algebra.Order.Field.Basic
import Mathlib.Tactic.Linarith

/-!
# The augmented matrix: perfect matchings of its threshold graph are partial matchings within `d`
-/
set_option linter.unusedSectionVars false

namespace PersimVerif.Bottleneck
open PersimVerif.Spec

section Costs
variable {K : Type} [Field K] [LinearOrder K] [IsStrictOrderedRing K]

theorem absM_eq (x : K) : absM x = |x| := (abs_eq_max_neg).symm
theorem linfM_eq (p q : K × K) : linfM p q = linf p q := by simp [linfM, linf, absM_eq]
theorem diagM_eq (p : K × K) : diagM p = diagInf p := rfl

theorem linf_nonneg (p q : K × K) : 0 ≤ linf p q := le_max_of_le_left (abs_nonneg _)
theorem diagInf_nonneg {p : K × K} (h : p.1 ≤ p.2) : 0 ≤ diagInf p := by
  unfold diagInf; linarith

/-- pairing a point with the origin is never cheaper than sending it to the diagonal -/
theorem diagInf_le_linf_origin (q : K × K) : diagInf q ≤ linf (0, 0) q := by
  unfold diagInf linf
  simp only [zero_sub, abs_neg]
  have h1 : q.2 ≤ |q.2| := le_abs_self _
  have h2 : -q.1 ≤ |q.1| := neg_le_abs _
  have h3 : |q.1| ≤ max |q.1| |q.2| := le_max_left _ _
  have h4 : |q.2| ≤ max |q.1| |q.2| := le_max_right _ _
  linarith

theorem linf_comm (p q : K × K) : linf p q = linf q p := by
  unfold linf; rw [abs_sub_comm p.1, abs_sub_comm p.2]

/-- index-level costs of two diagrams given as lists (`Fin S.length` respects multiplicity) -/
def cst (S T : List (K × K)) : Fin S.length → Fin T.length → K := fun i j => linf S[i] T[j]
def dgc (S : List (K × K)) : Fin S.length → K := fun i => diagInf S[i]

variable (S T : List (K × K))

theorem augD_ul {i j : ℕ} (hi : i < S.length) (hj : j < T.length) :
    augD S T i j = .fin (linf S[i] T[j]) := by
  simp [augD, hi, hj, linfM_eq]

theorem augD_ur {i j : ℕ} (hi : i < S.length) (hj : T.length ≤ j) :
    augD S T i j = if j - T.length = i then .fin (diagInf S[i]) else .top := by
  simp [augD, hi, not_lt.mpr hj, diagM_eq]

theorem augD_ll {i j : ℕ} (hi : S.length ≤ i) (hj : j < T.length) :
    augD S T i j = if i - S.length = j then .fin (diagInf T[j]) else .top := by
  simp [augD, hj, not_lt.mpr hi, diagM_eq]

theorem augD_lr {i j : ℕ} (hi : S.length ≤ i) (hj : T.length ≤ j) :
    augD S T i j = .fin 0 := by
  simp [augD, not_lt.mpr hi, not_lt.mpr hj]

/-- under the guard `b ≤ d` every entry of the matrix is `≥ 0` -/
theorem augD_nonneg (hS : ∀ p ∈ S, p.1 ≤ p.2) (hT : ∀ p ∈ T, p.1 ≤ p.2) (i j : ℕ) :
    (.fin 0 : Ext K) ≤ augD S T i j := by
  by_cases hi : i < S.length <;> by_cases hj : j < T.length
  · rw [augD_ul S T hi hj]; exact Ext.fin_le_fin.mpr (linf_nonneg _ _)
  · rw [augD_ur S T hi (not_lt.mp hj)]
    split
    · exact Ext.fin_le_fin.mpr (diagInf_nonneg (hS _ (List.getElem_mem hi)))
    · exact Ext.le_top' _
  · rw [augD_ll S T (not_lt.mp hi) hj]
    split
    · exact Ext.fin_le_fin.mpr (diagInf_nonneg (hT _ (List.getElem_mem hj)))
    · exact Ext.le_top' _
  · rw [augD_lr S T (not_lt.mp hi) (not_lt.mp hj)]

end Costs

/-! ### partial matching → perfect matching (the explicit equivalence of DESIGN A.3) -/

section ToEquiv
variable {M N : Type}

/-- the perfect matching of the augmented matrix induced by a partial matching: matched pairs;
    an unmatched `i` takes its own diagonal slot; the diagonal slot of an unmatched `j` takes `j`;
    the diagonal slot of a matched `j` takes the diagonal slot of its partner -/
def pmToEquiv (p : PM M N) : M ⊕ N ≃ N ⊕ M where
  toFun
    | .inl i => match p.f i with | some j => .inl j | none => .inr i
    | .inr j => match p.g j with | some i => .inr i | none => .inl j
  invFun
    | .inl j => match p.g j with | some i => .inl i | none => .inr j
    | .inr i => match p.f i with | some j => .inr j | none => .inl i
  left_inv := by
    rintro (i | j)
    · cases h : p.f i with
      | none => simp [h]
      | some j => simp [h, (p.fg i j).mp h]
    · cases h : p.g j with
      | none => simp [h]
      | some i => simp [h, (p.fg i j).mpr h]
  right_inv := by
    rintro (j | i)
    · cases h : p.g j with
      | none => simp [h]
      | some i => simp [h, (p.fg i j).mpr h]
    · cases h : p.f i with
      | none => simp [h]
      | some j => simp [h, (p.fg i j).mp h]

end ToEquiv

section Aug
variable {K : Type} [Field K] [LinearOrder K] [IsStrictOrderedRing K]
variable (S T : List (K × K))

/-- row number of a point of `S` / of the diagonal copy of a point of `T` -/
def rowOf : Fin S.length ⊕ Fin T.length → ℕ
  | .inl i => i.val
  | .inr j => S.length + j.val

/-- column number of a point of `T` / of the diagonal copy of a point of `S` -/
def colOf : Fin T.length ⊕ Fin S.length → ℕ
  | .inl j => j.val
  | .inr i => T.length + i.val

theorem rowOf_injective : Function.Injective (rowOf S T) := by
  rintro (a | a) (b | b) h <;> simp only [rowOf] at h
  · exact congrArg _ (Fin.ext h)
  · have := a.isLt; omega
  · have := b.isLt; omega
  · exact congrArg _ (Fin.ext (by omega))

theorem colOf_injective : Function.Injective (colOf S T) := by
  rintro (a | a) (b | b) h <;> simp only [colOf] at h
  · exact congrArg _ (Fin.ext h)
  · have := a.isLt; omega
  · have := b.isLt; omega
  · exact congrArg _ (Fin.ext (by omega))

theorem rowOf_lt (r) : rowOf S T r < S.length + T.length := by
  cases r with
  | inl i => have := i.isLt; simp only [rowOf]; omega
  | inr j => have := j.isLt; simp only [rowOf]; omega

theorem colOf_lt (c) : colOf S T c < S.length + T.length := by
  cases c with
  | inl j => have := j.isLt; simp only [colOf]; omega
  | inr i => have := i.isLt; simp only [colOf]; omega

/-- **partial matching within `d` ⟹ perfect matching of the threshold graph at `d`** -/
theorem perfect_of_pm (d : K) (p : PM (Fin S.length) (Fin T.length))
    (hp : p.MaxLE (cst S T) (dgc S) (dgc T) d) :
    ∃ m, IsMatching (thresholdGraph (S.length + T.length) (augD S T) (.fin d)) m ∧
      m.length = S.length + T.length := by
  classical
  obtain ⟨h0, hrow, hcol⟩ := hp
  let τ := pmToEquiv p
  let m : Matching := (Finset.univ : Finset (Fin S.length ⊕ Fin T.length)).toList.map
    fun r => (rowOf S T r, colOf S T (τ r))
  refine ⟨m, ⟨?_, ?_, ?_⟩, ?_⟩
  · intro q hq
    obtain ⟨r, -, rfl⟩ := List.mem_map.mp hq
    rw [edge_threshold]
    refine ⟨rowOf_lt S T r, colOf_lt S T _, ?_⟩
    cases r with
    | inl i =>
      have hri := hrow i
      cases h : p.f i with
      | some j =>
        have : τ (.inl i) = .inl j := by simp [τ, pmToEquiv, h]
        simp only [this, rowOf, colOf]
        rw [augD_ul S T i.isLt j.isLt]
        simpa [PM.rowCost, h, cst] using hri
      | none =>
        have : τ (.inl i) = .inr i := by simp [τ, pmToEquiv, h]
        simp only [this, rowOf, colOf]
        rw [augD_ur S T i.isLt (Nat.le_add_right _ _), if_pos (by omega)]
        simpa [PM.rowCost, h, dgc] using hri
    | inr j =>
      cases h : p.g j with
      | some i =>
        have : τ (.inr j) = .inr i := by simp [τ, pmToEquiv, h]
        simp only [this, rowOf, colOf]
        rw [augD_lr S T (Nat.le_add_right _ _) (Nat.le_add_right _ _)]
        exact Ext.fin_le_fin.mpr h0
      | none =>
        have : τ (.inr j) = .inl j := by simp [τ, pmToEquiv, h]
        simp only [this, rowOf, colOf]
        rw [augD_ll S T (Nat.le_add_right _ _) j.isLt, if_pos (by omega)]
        simpa [dgc] using hcol j h
  · simp only [m, List.map_map]
    exact (Finset.nodup_toList _).map (rowOf_injective S T)
  · simp only [m, List.map_map]
    exact (Finset.nodup_toList _).map ((colOf_injective S T).comp τ.injective)
  · simp [m]

/-- **perfect matching of the threshold graph at `d ≥ 0` ⟹ partial matching within `d`** -/
theorem pm_of_perfect (d : K) (h0 : 0 ≤ d) (m : Matching)
    (hm : IsMatching (thresholdGraph (S.length + T.length) (augD S T) (.fin d)) m)
    (hlen : m.length = S.length + T.length) :
    ∃ p : PM (Fin S.length) (Fin T.length), p.MaxLE (cst S T) (dgc S) (dgc T) d := by
  classical
  have hedge : ∀ {i j}, (i, j) ∈ m → i < S.length + T.length ∧ j < S.length + T.length ∧
      augD S T i j ≤ .fin d := fun h => (edge_threshold _ _ _ _ _).mp (hm.edges _ h)
  -- every row and every column is used
  have hrowcov : ∀ i, i < S.length + T.length → ∃ j, (i, j) ∈ m := by
    intro i hi
    have := mem_of_nodup_lt_full hm.rows (n := S.length + T.length) (by
      intro x hx
      obtain ⟨q, hq, rfl⟩ := List.mem_map.mp hx
      exact (hedge (i := q.1) (j := q.2) hq).1) (by simpa using hlen) hi
    obtain ⟨q, hq, rfl⟩ := List.mem_map.mp this
    exact ⟨q.2, hq⟩
  have hcolcov : ∀ j, j < S.length + T.length → ∃ i, (i, j) ∈ m := by
    intro j hj
    have := mem_of_nodup_lt_full hm.cols (n := S.length + T.length) (by
      intro x hx
      obtain ⟨q, hq, rfl⟩ := List.mem_map.mp hx
      exact (hedge (i := q.1) (j := q.2) hq).2.1) (by simpa using hlen) hj
    obtain ⟨q, hq, rfl⟩ := List.mem_map.mp this
    exact ⟨q.1, hq⟩
  let f : Fin S.length → Option (Fin T.length) := fun i =>
    if h : ∃ j : Fin T.length, (i.val, j.val) ∈ m then some h.choose else none
  let g : Fin T.length → Option (Fin S.length) := fun j =>
    if h : ∃ i : Fin S.length, (i.val, j.val) ∈ m then some h.choose else none
  have hf : ∀ i j, f i = some j ↔ (i.val, j.val) ∈ m := by
    intro i j
    simp only [f]
    split
    · rename_i h
      constructor
      · intro e; rw [← Option.some.inj e]; exact h.choose_spec
      · intro e; exact congrArg some (Fin.ext (hm.row_unique h.choose_spec e))
    · rename_i h
      constructor
      · intro e; cases e
      · intro e; exact absurd ⟨j, e⟩ h
  have hg : ∀ i j, g j = some i ↔ (i.val, j.val) ∈ m := by
    intro i j
    simp only [g]
    split
    · rename_i h
      constructor
      · intro e; rw [← Option.some.inj e]; exact h.choose_spec
      · intro e; exact congrArg some (Fin.ext (hm.col_unique h.choose_spec e))
    · rename_i h
      constructor
      · intro e; cases e
      · intro e; exact absurd ⟨i, e⟩ h
  refine ⟨⟨f, g, fun i j => (hf i j).trans (hg i j).symm⟩, h0, ?_, ?_⟩
  · intro i
    simp only [PM.rowCost]
    cases hfi : f i with
    | some j =>
      have := (hedge ((hf i j).mp hfi)).2.2
      rw [augD_ul S T i.isLt j.isLt] at this
      simpa [cst] using this
    | none =>
      obtain ⟨j', hj'⟩ := hrowcov i.val (by have := i.isLt; omega)
      have hjn : T.length ≤ j' := by
        by_contra hlt
        have := (hf i ⟨j', not_le.mp hlt⟩).mpr hj'
        rw [hfi] at this; cases this
      have := (hedge hj').2.2
      rw [augD_ur S T i.isLt hjn] at this
      split at this
      · simpa [dgc] using this
      · exact absurd this (Ext.top_le_fin d)
  · intro j hgj
    replace hgj : g j = none := hgj
    obtain ⟨i', hi'⟩ := hcolcov j.val (by have := j.isLt; omega)
    have hin : S.length ≤ i' := by
      by_contra hlt
      have := (hg ⟨i', not_le.mp hlt⟩ j).mpr hi'
      rw [hgj] at this; cases this
    have := (hedge hi').2.2
    rw [augD_ll S T hin j.isLt] at this
    split at this
    · simpa [dgc] using this
    · exact absurd this (Ext.top_le_fin d)

end Aug
end PersimVerif.Bottleneck
