import PersimVerif.Generated.SrcPlot
import PersimVerif.Props.C20
/-!
  The plot translator's obligations composed with the theorems of Props/C20.lean, at `ℝ` with the real constants
  `cos (π/4)`, `sin (π/4)`: what C20 proves about the MODEL's figure holds for the figure that the TRANSLATED functions
  leave (hand-written; imports the generated file, so it is rebuilt from the current source on every run).

  Chain: Python source ⟶ (translated, `src_…_eq_model`) ⟶ `Plot.plotDiagrams` / `bottleneckMatching` / `wassersteinMatching`
  ⟶ (`C20.scatters_eq`, `segments_match_rows`, `segments_match_rows_wasserstein`) ⟶ the statement's clauses.
-/
namespace PersimVerif.SrcPlotPublic
open PersimVerif.Plot PersimVerif.SrcPlot PersimVerif.Src.visuals PersimVerif.C20

theorem map_ok {ε β γ : Type} {f : β → γ} {x : Except ε β} {c : γ} (h : x.map f = .ok c) : ∃ b, x = .ok b ∧ c = f b := by
  cases x with
  | error e => cases h
  | ok b => exact ⟨b, rfl, by simpa [Except.map] using h.symm⟩

/-- the translated `plot_diagrams` succeeded: the figure is the model's, and C20's `scatters_eq` speaks about it -/
theorem src_plot_diagrams_scatters {cast : ℝ → ℝ} (infv : ℝ) (fig : SFig ℝ) {diagrams : DgmsArg ℝ} {plot_only : Option (List Int)}
    {title : Option String} {xy_range : Option (ℝ × ℝ × ℝ × ℝ)} {labels : Labels} {diagonal lifetime legend : Bool} {out : SFig ℝ}
    (h : plot_diagrams cast infv Axes.given fig diagrams plot_only title xy_range labels diagonal lifetime legend = .ok out) :
    ∃ m : Fig ℝ, out = SFig.after fig m ∧
      plotDiagrams cast diagrams ⟨plot_only, title, xy_range, labels, diagonal, lifetime, legend⟩ = .ok m ∧
      (∀ a ∈ m.artists, axesOf a = .given) := by
  rw [src_plot_diagrams_eq_model] at h
  obtain ⟨m, hm, rfl⟩ := map_ok h
  exact ⟨m, rfl, hm, diagram_plot_on_given_axes hm⟩

/-- the translated `bottleneck_matching` with NumPy's constants succeeded: C20's `segments_match_rows` holds for what it drew -/
theorem src_bottleneck_matching_segments {cast : ℝ → ℝ} (infv : ℝ) (fig : SFig ℝ) {d1 d2 : Dgm ℝ} {rows : List (Row ℝ)}
    {labels : List String} {out : SFig ℝ}
    (h : bottleneck_matching Real.cos Real.sin Real.pi cast infv Axes.given fig d1 d2 rows labels = .ok out) :
    ∃ m : Fig ℝ, out = SFig.after fig m ∧ ∃ pd segs maxIdx,
      plotDiagrams cast (.many [d1, d2]) (matchOpts labels) = .ok pd ∧
      m = { pd with artists := pd.artists ++ segs } ∧
      (∀ a ∈ m.artists, axesOf a = .given) ∧
      SegmentsMatchRows (placeholder (finitePart d1)) (placeholder (finitePart d2))
        (fun idx => if idx = maxIdx then .matchMax else .matchOther) rows segs := by
  rw [src_bottleneck_matching_eq_model] at h
  obtain ⟨m, hm, rfl⟩ := map_ok h
  obtain ⟨pd, segs, maxIdx, v, h1, h2, h3, _, h5, _⟩ := segments_match_rows real_constants.1 real_constants.2 hm
  exact ⟨m, rfl, pd, segs, maxIdx, h1, h2, h3, h5⟩

/-- the same for `wasserstein_matching` -/
theorem src_wasserstein_matching_segments {cast : ℝ → ℝ} (infv : ℝ) (fig : SFig ℝ) {d1 d2 : Dgm ℝ} {rows : List (Row ℝ)}
    {labels : List String} {out : SFig ℝ}
    (h : wasserstein_matching Real.cos Real.sin Real.pi cast infv Axes.given fig d1 d2 rows labels = .ok out) :
    ∃ m : Fig ℝ, out = SFig.after fig m ∧ ∃ pd segs,
      plotDiagrams cast (.many [placeholderD d1, placeholderD d2]) (matchOpts labels) = .ok pd ∧
      m = { pd with artists := segs ++ pd.artists } ∧
      (∀ a ∈ m.artists, axesOf a = .given) ∧
      SegmentsMatchRows (placeholder (finitePart d1)) (placeholder (finitePart d2)) (fun _ => .wass) rows segs := by
  rw [src_wasserstein_matching_eq_model] at h
  obtain ⟨m, hm, rfl⟩ := map_ok h
  obtain ⟨pd, segs, h1, h2, h3, h4, _⟩ := segments_match_rows_wasserstein real_constants.1 real_constants.2 hm
  exact ⟨m, rfl, pd, segs, h1, h2, h3, h4⟩

/-- non-vacuity: the translated `bottleneck_matching` does succeed on diagrams with points of infinite death -/
example : ∃ out, bottleneck_matching Real.cos Real.sin Real.pi id 0 Axes.given SFig.empty
    [(0, none), (0, some 1), (2, some 5)] [(1, some 3), (7, none)]
    [(0, -1, 1 / 2), (-1, 0, 1), (-1, -1, 0), (1, 0, 2)] ["a", "b"] = .ok out := by
  rw [src_bottleneck_matching_eq_model]
  obtain ⟨m, hm⟩ := bottleneckMatching_succeeds (cast := id) (c := Real.cos (Real.pi / 4)) (s := Real.sin (Real.pi / 4))
    (d1 := [(0, none), (0, some 1), (2, some 5)]) (d2 := [(1, some 3), (7, none)])
    (rows := [(0, -1, 1 / 2), (-1, 0, 1), (-1, -1, 0), (1, 0, 2)]) (labels := ["a", "b"]) (by simp) (Or.inl (by simp))
    (by simp [InRange, placeholder, finitePart])
  exact ⟨_, by rw [hm]; rfl⟩

end PersimVerif.SrcPlotPublic
