import PersimVerif.Lemmas.PNormReal
import Mathlib.MeasureTheory.Integral.MeanInequalities
import Mathlib.MeasureTheory.Integral.Bochner.Basic
import Mathlib.Analysis.MeanInequalities

/-!
# C10 helper lemmas, part 5: Minkowski's inequality for the landscape norm

`(Σ_k ∫|f_k+g_k|^p)^(1/p) ≤ (Σ_k ∫|f_k|^p)^(1/p) + (Σ_k ∫|g_k|^p)^(1/p)` for piecewise-linear depth
functions: Minkowski in `L^p(ℝ)` per depth (Mathlib's `lintegral_Lp_add_le`), then in `ℓ^p` over depths.
-/
namespace PersimVerif.PNormLemmas
open PersimVerif.PNorm PersimVerif.PL MeasureTheory

noncomputable section

/-- Minkowski for non-negative real functions and a real exponent `p ≥ 1`, Bochner integrals -/
theorem mink_real (p : ℝ) (hp1 : 1 ≤ p) (F G H : ℝ → ℝ) (hF0 : ∀ t, 0 ≤ F t) (hG0 : ∀ t, 0 ≤ G t)
    (hH0 : ∀ t, 0 ≤ H t) (hH : ∀ t, H t ≤ F t + G t) (mF : Measurable F) (mG : Measurable G)
    (iF : Integrable (fun t => F t ^ p)) (iG : Integrable (fun t => G t ^ p))
    (iH : Integrable (fun t => H t ^ p)) :
    (∫ t, H t ^ p) ^ (1 / p) ≤ (∫ t, F t ^ p) ^ (1 / p) + (∫ t, G t ^ p) ^ (1 / p) := by
  have hp0 : (0 : ℝ) ≤ p := by linarith
  have hq0 : (0 : ℝ) ≤ 1 / p := by positivity
  have conv : ∀ (K : ℝ → ℝ), (∀ t, 0 ≤ K t) → Integrable (fun t => K t ^ p) →
      ENNReal.ofReal (∫ t, K t ^ p) = ∫⁻ t, (ENNReal.ofReal (K t)) ^ p := by
    intro K hK iK
    rw [ofReal_integral_eq_lintegral_ofReal iK
      (Filter.Eventually.of_forall fun t => Real.rpow_nonneg (hK t) p)]
    congr 1
    funext t
    rw [ENNReal.ofReal_rpow_of_nonneg (hK t) hp0]
  have nnF : 0 ≤ ∫ t, F t ^ p := integral_nonneg fun t => Real.rpow_nonneg (hF0 t) p
  have nnG : 0 ≤ ∫ t, G t ^ p := integral_nonneg fun t => Real.rpow_nonneg (hG0 t) p
  have nnH : 0 ≤ ∫ t, H t ^ p := integral_nonneg fun t => Real.rpow_nonneg (hH0 t) p
  rw [← ENNReal.ofReal_le_ofReal_iff (by positivity), ENNReal.ofReal_add (by positivity) (by positivity),
    ← ENNReal.ofReal_rpow_of_nonneg nnH hq0, ← ENNReal.ofReal_rpow_of_nonneg nnF hq0,
    ← ENNReal.ofReal_rpow_of_nonneg nnG hq0, conv H hH0 iH, conv F hF0 iF, conv G hG0 iG]
  refine le_trans ?_ (ENNReal.lintegral_Lp_add_le (mF.ennreal_ofReal.aemeasurable)
    (mG.ennreal_ofReal.aemeasurable) hp1)
  apply ENNReal.rpow_le_rpow _ hq0
  apply lintegral_mono
  intro t
  apply ENNReal.rpow_le_rpow _ hp0
  simp only [Pi.add_apply]
  rw [← ENNReal.ofReal_add (hF0 t) (hG0 t)]
  exact ENNReal.ofReal_le_ofReal (hH t)

/-! ### measurability and integrability of `|evalPL|^p` -/

theorem evalPL_measurable (l : List (ℝ × ℝ)) : Measurable (evalPL l) := by
  induction l with
  | nil => exact measurable_const
  | cons a r ih =>
    cases r with
    | nil => exact measurable_const
    | cons b r' =>
      obtain ⟨x0, y0⟩ := a
      obtain ⟨x1, y1⟩ := b
      have e : evalPL ((x0, y0) :: (x1, y1) :: r') = fun t =>
          if t < x0 then 0 else if t ≤ x1 then segLine x0 y0 x1 y1 t else evalPL ((x1, y1) :: r') t :=
        funext (evalPL_cons_cons x0 y0 x1 y1 r')
      rw [e]
      refine Measurable.ite (measurableSet_lt measurable_id measurable_const) measurable_const ?_
      refine Measurable.ite (measurableSet_le measurable_id measurable_const) ?_ ih
      unfold segLine
      fun_prop

theorem evalDepth_measurable (cps : List (List (ℝ × ℝ))) (k : ℕ) : Measurable (evalDepth cps k) := by
  unfold evalDepth
  cases cps[k]? with
  | none => exact measurable_const
  | some l => exact evalPL_measurable l

theorem absRpow_integrable (p : ℝ) (hp : 1 ≤ p) (l : List (ℝ × ℝ)) (hs : StrictAbsc l) :
    Integrable (fun t => |evalPL l t| ^ p) := by
  have hp0 : 0 ≤ p := by linarith
  have hle : firstX l ≤ lastX l := by
    cases l with
    | nil => simp [firstX, lastX]
    | cons a r => exact hs.le_lastX
  have h1 := (segSumG_eq_integral (segTermReal p) (fun x => x ^ p) (Real.continuous_rpow_const hp0)
    (fun x0 y0 x1 y1 hx => segTermReal_eq_integral p hp0 x0 y0 x1 y1 hx) l hs).1
  rw [intervalIntegrable_iff_integrableOn_Ioc_of_le hle] at h1
  have h2 : IntegrableOn (fun t => |evalPL l t| ^ p) (Set.Icc (firstX l) (lastX l)) :=
    (integrableOn_Icc_iff_integrableOn_Ioc (by simp)).mpr h1
  apply h2.integrable_of_forall_notMem_eq_zero
  intro t ht
  have hz : (0 : ℝ) ^ p = 0 := Real.zero_rpow (by linarith)
  rw [Set.mem_Icc, not_and_or, not_le, not_le] at ht
  rcases ht with ht | ht
  · simp [evalPL_eq_zero_of_lt l t ht, hz]
  · simp [evalPL_eq_zero_of_gt l hs t ht, hz]

theorem evalDepth_absRpow_integrable (p : ℝ) (hp : 1 ≤ p) (cps : List (List (ℝ × ℝ)))
    (hs : ∀ l ∈ cps, StrictAbsc l) (k : ℕ) : Integrable (fun t => |evalDepth cps k t| ^ p) := by
  unfold evalDepth
  cases hk : cps[k]? with
  | none =>
    have hz : (0 : ℝ) ^ p = 0 := Real.zero_rpow (by linarith)
    simp [hz]
  | some l => exact absRpow_integrable p hp l (hs l (List.mem_of_getElem? hk))

/-- the integral of `|λ_k|^p` for one depth (real exponent) -/
def depthInt (p : ℝ) (cps : List (List (ℝ × ℝ))) (k : ℕ) : ℝ := ∫ t, |evalDepth cps k t| ^ p

theorem depthInt_nonneg (p : ℝ) (cps : List (List (ℝ × ℝ))) (k : ℕ) : 0 ≤ depthInt p cps k :=
  integral_nonneg fun _ => Real.rpow_nonneg (abs_nonneg _) _

theorem depthInt_eq_zero_of_ge (p : ℝ) (hp : 1 ≤ p) (cps : List (List (ℝ × ℝ))) (k : ℕ)
    (hk : cps.length ≤ k) : depthInt p cps k = 0 := by
  have hz : (0 : ℝ) ^ p = 0 := Real.zero_rpow (by linarith)
  simp [depthInt, evalDepth, List.getElem?_eq_none hk, hz]

theorem sum_depthInt_extend (p : ℝ) (hp : 1 ≤ p) (cps : List (List (ℝ × ℝ))) (N : ℕ)
    (hN : cps.length ≤ N) :
    ∑ k ∈ Finset.range cps.length, depthInt p cps k = ∑ k ∈ Finset.range N, depthInt p cps k := by
  apply Finset.sum_subset (Finset.range_subset_range.mpr hN)
  intro k _ hk
  exact depthInt_eq_zero_of_ge p hp cps k (by simpa using hk)

/-- list form → depth-indexed form -/
theorem sum_map_integral_eq_sum_depthInt (p : ℝ) (cps : List (List (ℝ × ℝ))) :
    (cps.map fun l => ∫ t, |evalPL l t| ^ p).sum = ∑ k ∈ Finset.range cps.length, depthInt p cps k := by
  induction cps with
  | nil => simp
  | cons l r ih =>
    rw [List.length_cons, Finset.sum_range_succ', List.map_cons, List.sum_cons, ih, add_comm]
    simp [depthInt, evalDepth]

/-- Minkowski for one depth -/
theorem depthInt_triangle (p : ℝ) (hp : 1 ≤ p) (f g h : List (List (ℝ × ℝ)))
    (hf : ∀ l ∈ f, StrictAbsc l) (hg : ∀ l ∈ g, StrictAbsc l) (hh : ∀ l ∈ h, StrictAbsc l)
    (hsum : ∀ k t, evalDepth h k t = evalDepth f k t + evalDepth g k t) (k : ℕ) :
    (depthInt p h k) ^ (1 / p) ≤ (depthInt p f k) ^ (1 / p) + (depthInt p g k) ^ (1 / p) := by
  apply mink_real p hp (fun t => |evalDepth f k t|) (fun t => |evalDepth g k t|) (fun t => |evalDepth h k t|)
    (fun _ => abs_nonneg _) (fun _ => abs_nonneg _) (fun _ => abs_nonneg _)
  · intro t; rw [hsum]; exact abs_add_le _ _
  · exact continuous_abs.measurable.comp (evalDepth_measurable f k)
  · exact continuous_abs.measurable.comp (evalDepth_measurable g k)
  · exact evalDepth_absRpow_integrable p hp f hf k
  · exact evalDepth_absRpow_integrable p hp g hg k
  · exact evalDepth_absRpow_integrable p hp h hh k

/-- Minkowski over depths: `ℓ^p` of the per-depth `L^p` norms -/
theorem sum_depthInt_triangle (p : ℝ) (hp1 : 1 ≤ p) (f g h : List (List (ℝ × ℝ)))
    (hf : ∀ l ∈ f, StrictAbsc l) (hg : ∀ l ∈ g, StrictAbsc l) (hh : ∀ l ∈ h, StrictAbsc l)
    (hsum : ∀ k t, evalDepth h k t = evalDepth f k t + evalDepth g k t) (N : ℕ) :
    (∑ k ∈ Finset.range N, depthInt p h k) ^ (1 / p)
      ≤ (∑ k ∈ Finset.range N, depthInt p f k) ^ (1 / p)
        + (∑ k ∈ Finset.range N, depthInt p g k) ^ (1 / p) := by
  have hppos : (0 : ℝ) < p := by linarith
  have hq0 : (0 : ℝ) ≤ 1 / p := by positivity
  set a := fun k => (depthInt p f k) ^ (1 / p) with ha
  set b := fun k => (depthInt p g k) ^ (1 / p) with hb
  have ha0 : ∀ k, 0 ≤ a k := fun k => Real.rpow_nonneg (depthInt_nonneg p f k) _
  have hb0 : ∀ k, 0 ≤ b k := fun k => Real.rpow_nonneg (depthInt_nonneg p g k) _
  have hroot : ∀ x : ℝ, 0 ≤ x → (x ^ (1 / p)) ^ p = x := by
    intro x hx
    rw [← Real.rpow_mul hx, one_div, inv_mul_cancel₀ hppos.ne', Real.rpow_one]
  have hap : ∀ k, a k ^ p = depthInt p f k := fun k => hroot _ (depthInt_nonneg p f k)
  have hbp : ∀ k, b k ^ p = depthInt p g k := fun k => hroot _ (depthInt_nonneg p g k)
  have hle : ∀ k, depthInt p h k ≤ (a k + b k) ^ p := by
    intro k
    have := depthInt_triangle p hp1 f g h hf hg hh hsum k
    calc depthInt p h k = ((depthInt p h k) ^ (1 / p)) ^ p := (hroot _ (depthInt_nonneg p h k)).symm
      _ ≤ (a k + b k) ^ p :=
        Real.rpow_le_rpow (Real.rpow_nonneg (depthInt_nonneg p h k) _) this hppos.le
  have h1 : (∑ k ∈ Finset.range N, depthInt p h k) ^ (1 / p)
      ≤ (∑ k ∈ Finset.range N, (a k + b k) ^ p) ^ (1 / p) :=
    Real.rpow_le_rpow (Finset.sum_nonneg fun k _ => depthInt_nonneg p h k)
      (Finset.sum_le_sum fun k _ => hle k) hq0
  have h2 := Real.Lp_add_le_of_nonneg (s := Finset.range N) (f := a) (g := b) hp1
    (fun k _ => ha0 k) (fun k _ => hb0 k)
  simp only [hap, hbp] at h2
  exact h1.trans h2

/-- **Minkowski for landscapes**, stated on the integrals: for every real `p ≥ 1` -/
theorem integral_norm_triangle (p : ℝ) (hp : 1 ≤ p) (f g h : List (List (ℝ × ℝ)))
    (hf : ∀ l ∈ f, StrictAbsc l) (hg : ∀ l ∈ g, StrictAbsc l) (hh : ∀ l ∈ h, StrictAbsc l)
    (hsum : ∀ k t, evalDepth h k t = evalDepth f k t + evalDepth g k t) :
    ((h.map fun l => ∫ t, |evalPL l t| ^ p).sum) ^ (1 / p)
      ≤ ((f.map fun l => ∫ t, |evalPL l t| ^ p).sum) ^ (1 / p)
        + ((g.map fun l => ∫ t, |evalPL l t| ^ p).sum) ^ (1 / p) := by
  set N := max (max f.length g.length) h.length with hN
  have e : ∀ x : List (List (ℝ × ℝ)), x.length ≤ N →
      (x.map fun l => ∫ t, |evalPL l t| ^ p).sum = ∑ k ∈ Finset.range N, depthInt p x k := by
    intro x hlen
    rw [sum_map_integral_eq_sum_depthInt]
    exact sum_depthInt_extend p hp x N hlen
  rw [e f (le_trans (le_max_left _ _) (le_max_left _ _)),
    e g (le_trans (le_max_right _ _) (le_max_left _ _)), e h (le_max_right _ _)]
  exact sum_depthInt_triangle p hp f g h hf hg hh hsum N

end
end PersimVerif.PNormLemmas
