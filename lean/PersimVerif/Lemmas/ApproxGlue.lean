import PersimVerif.Lemmas.ApproxSnap
import Mathlib.Algebra.Order.Field.Basic
import Mathlib.Tactic.Linarith
import Mathlib.Tactic.FieldSimp
import Mathlib.Tactic.Ring

/-!
# `np.interp` against `evalPL`, grid defaults, the death-vector order (helpers for C08)
-/
namespace PersimVerif.ApproxLemmas
open PersimVerif.PL PersimVerif.Approx List

set_option linter.unusedSectionVars false

variable {K : Type} [Field K] [LinearOrder K] [IsStrictOrderedRing K]

/-! ### clamped interpolation = `evalPL` on depths with zero end values -/

/-- abscissae strictly increasing -/
def Increasing (l : List (K × K)) : Prop := l.Pairwise (fun p q => p.1 < q.1)

/-- the last ordinate is `0` -/
def LastZero (l : List (K × K)) : Prop := ∀ p, l.getLast? = some p → p.2 = 0

/-- the first ordinate is `0` -/
def FirstZero (l : List (K × K)) : Prop := ∀ p, l.head? = some p → p.2 = 0

theorem npInterp_at_head (x0 y0 : K) (rest : List (K × K)) (t : K) (ht : t ≤ x0) :
    npInterp ((x0, y0) :: rest) t = y0 := by
  cases rest with
  | nil => simp [npInterp]
  | cons q rest => obtain ⟨x1, y1⟩ := q; simp [npInterp, ht]

/-- from the first abscissa on, clamped interpolation and `evalPL` agree when the last value is 0 -/
theorem npInterp_eq_evalPL_of_ge (l : List (K × K)) (hinc : Increasing l) (hlast : LastZero l) :
    ∀ p, l.head? = some p → ∀ t, p.1 ≤ t → npInterp l t = evalPL l t := by
  induction l with
  | nil => intro p hp; simp at hp
  | cons a tl ih =>
    obtain ⟨x0, y0⟩ := a
    intro p hp t ht
    simp only [List.head?_cons, Option.some.injEq] at hp
    subst hp
    cases tl with
    | nil =>
      have : y0 = 0 := hlast (x0, y0) (by simp)
      simp [npInterp, evalPL, this]
    | cons q rest =>
      obtain ⟨x1, y1⟩ := q
      have hx : x0 < x1 := by
        have := (List.pairwise_cons.mp hinc).1 (x1, y1) (by simp)
        exact this
      have hinc' : Increasing ((x1, y1) :: rest) := (List.pairwise_cons.mp hinc).2
      have hlast' : LastZero ((x1, y1) :: rest) := by
        intro p hp
        exact hlast p (by rw [List.getLast?_cons_cons]; exact hp)
      have hne : x1 - x0 ≠ 0 := by linarith [hx]
      simp only at ht
      rcases lt_trichotomy t x1 with hlt | heq | hgt
      · rcases ht.lt_or_eq with h0 | h0
        · have hn1 : ¬ t ≤ x0 := not_le.mpr h0
          have hn2 : ¬ t < x0 := not_lt.mpr ht
          simp only [npInterp, evalPL, hn1, hn2, hlt, hlt.le, ↓reduceIte]
          field_simp
          ring
        · subst h0
          have hn2 : ¬ x0 < x0 := lt_irrefl _
          simp only [npInterp, evalPL, le_refl, hn2, hx.le, ↓reduceIte]
          simp
      · subst heq
        have hn1 : ¬ t ≤ x0 := not_le.mpr hx
        have hn2 : ¬ t < x0 := not_lt.mpr ht
        have hn3 : ¬ t < t := lt_irrefl _
        simp only [npInterp, evalPL, hn1, hn2, hn3, le_refl, ↓reduceIte]
        rw [npInterp_at_head _ _ _ _ le_rfl]
        field_simp
        ring
      · have hn1 : ¬ t ≤ x0 := not_le.mpr (lt_trans hx hgt)
        have hn2 : ¬ t < x0 := not_lt.mpr ht
        have hn3 : ¬ t < x1 := not_lt.mpr hgt.le
        have hn4 : ¬ t ≤ x1 := not_le.mpr hgt
        simp only [npInterp, evalPL, hn1, hn2, hn3, hn4, ↓reduceIte]
        exact ih hinc' hlast' (x1, y1) (by simp) t hgt.le

/-- `np.interp` samples exactly `evalPL` on a depth with increasing abscissae and zero end values -/
theorem npInterp_eq_evalPL (l : List (K × K)) (hinc : Increasing l) (hfirst : FirstZero l)
    (hlast : LastZero l) (t : K) : npInterp l t = evalPL l t := by
  cases l with
  | nil => simp [npInterp, evalPL]
  | cons a tl =>
    obtain ⟨x0, y0⟩ := a
    by_cases ht : x0 ≤ t
    · exact npInterp_eq_evalPL_of_ge _ hinc hlast (x0, y0) (by simp) t ht
    · rw [not_le] at ht
      have hy : y0 = 0 := hfirst (x0, y0) (by simp)
      rw [npInterp_at_head _ _ _ _ ht.le, hy]
      cases tl with
      | nil => simp [evalPL]
      | cons q rest => obtain ⟨x1, y1⟩ := q; simp [evalPL, ht]

/-! ### grid defaults -/

private theorem foldl_minB (t : List (K × K)) (m : K) :
    t.foldl (fun m q => if q.1 < m then q.1 else m) m ≤ m ∧
    (∀ q ∈ t, t.foldl (fun m q => if q.1 < m then q.1 else m) m ≤ q.1) ∧
    (t.foldl (fun m q => if q.1 < m then q.1 else m) m = m ∨
      ∃ q ∈ t, t.foldl (fun m q => if q.1 < m then q.1 else m) m = q.1) := by
  induction t generalizing m with
  | nil => simp
  | cons a t ih =>
    simp only [List.foldl_cons]
    obtain ⟨h1, h2, h3⟩ := ih (if a.1 < m then a.1 else m)
    have hle : (if a.1 < m then a.1 else m) ≤ m := by split <;> [exact le_of_lt ‹_›; exact le_rfl]
    have hle' : (if a.1 < m then a.1 else m) ≤ a.1 := by
      split
      · exact le_rfl
      · exact not_lt.mp ‹_›
    refine ⟨le_trans h1 hle, ?_, ?_⟩
    · intro q hq
      rcases List.mem_cons.mp hq with rfl | hq
      · exact le_trans h1 hle'
      · exact h2 q hq
    · rcases h3 with h3 | ⟨q, hq, h3⟩
      · by_cases c : a.1 < m
        · right; exact ⟨a, by simp, by rw [h3, if_pos c]⟩
        · left; rw [h3, if_neg c]
      · right; exact ⟨q, by simp [hq], h3⟩

/-- the default start is a birth and a lower bound of the births -/
theorem minBirth_spec (bars : List (K × K)) (s : K) (h : minBirth bars = some s) :
    (∃ p ∈ bars, p.1 = s) ∧ ∀ p ∈ bars, s ≤ p.1 := by
  cases bars with
  | nil => simp [minBirth] at h
  | cons a t =>
    simp only [minBirth, Option.some.injEq] at h
    obtain ⟨h1, h2, h3⟩ := foldl_minB t a.1
    rw [h] at h1 h2 h3
    refine ⟨?_, ?_⟩
    · rcases h3 with h3 | ⟨q, hq, h3⟩
      · exact ⟨a, by simp, h3.symm⟩
      · exact ⟨q, by simp [hq], h3.symm⟩
    · intro p hp
      rcases List.mem_cons.mp hp with rfl | hp
      · exact h1
      · exact h2 p hp

private theorem foldl_maxD (t : List (K × K)) (m : K) :
    m ≤ t.foldl (fun m q => if m < q.2 then q.2 else m) m ∧
    (∀ q ∈ t, q.2 ≤ t.foldl (fun m q => if m < q.2 then q.2 else m) m) ∧
    (t.foldl (fun m q => if m < q.2 then q.2 else m) m = m ∨
      ∃ q ∈ t, t.foldl (fun m q => if m < q.2 then q.2 else m) m = q.2) := by
  induction t generalizing m with
  | nil => simp
  | cons a t ih =>
    simp only [List.foldl_cons]
    obtain ⟨h1, h2, h3⟩ := ih (if m < a.2 then a.2 else m)
    have hle : m ≤ (if m < a.2 then a.2 else m) := by split <;> [exact le_of_lt ‹_›; exact le_rfl]
    have hle' : a.2 ≤ (if m < a.2 then a.2 else m) := by
      split
      · exact le_rfl
      · exact not_lt.mp ‹_›
    refine ⟨le_trans hle h1, ?_, ?_⟩
    · intro q hq
      rcases List.mem_cons.mp hq with rfl | hq
      · exact le_trans hle' h1
      · exact h2 q hq
    · rcases h3 with h3 | ⟨q, hq, h3⟩
      · by_cases c : m < a.2
        · right; exact ⟨a, by simp, by rw [h3, if_pos c]⟩
        · left; rw [h3, if_neg c]
      · right; exact ⟨q, by simp [hq], h3⟩

/-- the default stop is a death and an upper bound of the deaths -/
theorem maxDeath_spec (bars : List (K × K)) (e : K) (h : maxDeath bars = some e) :
    (∃ p ∈ bars, p.2 = e) ∧ ∀ p ∈ bars, p.2 ≤ e := by
  cases bars with
  | nil => simp [maxDeath] at h
  | cons a t =>
    simp only [maxDeath, Option.some.injEq] at h
    obtain ⟨h1, h2, h3⟩ := foldl_maxD t a.2
    rw [h] at h1 h2 h3
    refine ⟨?_, ?_⟩
    · rcases h3 with h3 | ⟨q, hq, h3⟩
      · exact ⟨a, by simp, h3.symm⟩
      · exact ⟨q, by simp [hq], h3.symm⟩
    · intro p hp
      rcases List.mem_cons.mp hp with rfl | hp
      · exact h1
      · exact h2 p hp

theorem finiteBars_embed (d : List (K × K)) : finiteBars (embed d) = d := by
  induction d with
  | nil => rfl
  | cons a t ih =>
    simp only [finiteBars, embed, List.map_cons, List.filterMap_cons] at ih ⊢
    rw [ih]

/-! ### the order used by `death_vector` (`none` = +∞ on top) -/

theorem geOpt_trans (a b c : Option K) (h1 : geOpt a b = true) (h2 : geOpt b c = true) : geOpt a c = true := by
  cases a <;> cases b <;> cases c <;> simp_all [geOpt]
  exact le_trans h2 h1

theorem geOpt_total (a b : Option K) : (geOpt a b || geOpt b a) = true := by
  cases a <;> cases b <;> simp [geOpt]
  exact le_total _ _

end PersimVerif.ApproxLemmas
