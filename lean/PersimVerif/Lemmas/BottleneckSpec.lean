import PersimVerif.Lemmas.BottleneckAug
import Mathlib.Data.Finset.Max

/-!
# Supporting lemmas for Props/C01.lean: candidates, feasible bounds, the `(0,0)` placeholder,
# the non-finite filter
-/
set_option linter.unusedSectionVars false
set_option linter.unusedSimpArgs false

namespace PersimVerif.Bottleneck
open PersimVerif.Spec

section Loop
variable {K : Type} [LinearOrder K]

/-- the threshold graph of `D` at `d` has a perfect matching -/
def HasPerfect (n : ℕ) (D : ℕ → ℕ → Ext K) (d : Ext K) : Prop :=
  ∃ m, IsMatching (thresholdGraph n D d) m ∧ m.length = n


theorem mem_candidates (n : ℕ) (D : ℕ → ℕ → Ext K) (x : Ext K) :
    x ∈ candidates n D ↔ ∃ i < n, ∃ j < n, x = D i j := by
  simp only [candidates, mem_sortUnique, entries, List.mem_flatMap, List.mem_range, List.mem_map]
  constructor
  · rintro ⟨i, hi, j, hj, rfl⟩; exact ⟨i, hi, j, hj, rfl⟩
  · rintro ⟨i, hi, j, hj, rfl⟩; exact ⟨i, hi, j, hj, rfl⟩

/-- a perfect matching at `d` is already one at its own largest entry, which is a candidate -/
theorem perfect_at_candidate {n : ℕ} (hn : 0 < n) (D : ℕ → ℕ → Ext K) {d : Ext K}
    (hp : HasPerfect n D d) : ∃ x ∈ candidates n D, x ≤ d ∧ HasPerfect n D x := by
  obtain ⟨m, hm, hl⟩ := hp
  have hne : m.toFinset.Nonempty := by
    cases m with
    | nil => simp at hl; omega
    | cons a t => exact ⟨a, by simp⟩
  obtain ⟨a, ha, hmax⟩ := Finset.exists_max_image m.toFinset (fun p => D p.1 p.2) hne
  have hae := (edge_threshold _ _ _ _ _).mp (hm.edges a (List.mem_toFinset.mp ha))
  refine ⟨D a.1 a.2, (mem_candidates n D _).mpr ⟨a.1, hae.1, a.2, hae.2.1, rfl⟩, hae.2.2, m, ⟨?_, hm.rows, hm.cols⟩, hl⟩
  intro p hp
  have hpe := (edge_threshold _ _ _ _ _).mp (hm.edges p hp)
  exact (edge_threshold _ _ _ _ _).mpr ⟨hpe.1, hpe.2.1, hmax p (List.mem_toFinset.mpr hp)⟩


end Loop

section Aug
variable {K : Type} [Field K] [LinearOrder K] [IsStrictOrderedRing K]

/-- some partial matching has all its pairings within `d` -/
def Feas {M N : Type} (c : M → N → K) (u : M → K) (v : N → K) (d : K) : Prop :=
  ∃ p : PM M N, p.MaxLE c u v d

theorem isBottleneck_iff {M N : Type} (c : M → N → K) (u : M → K) (v : N → K) (d : K) :
    IsBottleneck c u v d ↔ Feas c u v d ∧ ∀ d', Feas c u v d' → d ≤ d' :=
  ⟨fun h => ⟨h.attained, fun d' ⟨p, hp⟩ => h.least p d' hp⟩,
   fun h => ⟨h.1, fun p d' hp => h.2 d' ⟨p, hp⟩⟩⟩


theorem exists_ub (l : List K) : ∃ B, ∀ x ∈ l, x ≤ B := by
  induction l with
  | nil => exact ⟨0, by simp⟩
  | cons a t ih =>
    obtain ⟨B, hB⟩ := ih
    refine ⟨max a B, fun x hx => ?_⟩
    rcases List.mem_cons.mp hx with rfl | hx
    · exact le_max_left _ _
    · exact le_trans (hB x hx) (le_max_right _ _)

/-- sending everything to the diagonal is a partial matching with a finite bound -/
theorem feas_exists (S T : List (K × K)) : ∃ d, Feas (cst S T) (dgc S) (dgc T) d := by
  obtain ⟨B, hB⟩ := exists_ub ((0 : K) :: (List.ofFn (dgc S) ++ List.ofFn (dgc T)))
  refine ⟨B, PM.empty, hB 0 (by simp), fun i => ?_, fun j _ => ?_⟩
  · simp only [PM.rowCost, PM.empty]
    exact hB _ (by simp [List.mem_ofFn])
  · exact hB _ (by simp [List.mem_ofFn])

/-! ### the `(0,0)` placeholder of an empty side -/

theorem origin_get (i : Fin ([((0:K), (0:K))] : List (K × K)).length) :
    ([((0:K), (0:K))] : List (K × K))[i] = (0, 0) := by
  have : i.val = 0 := by have := i.isLt; simp only [List.length_singleton] at this; omega
  simp [Fin.getElem_fin, this]

theorem feas_placeholder_left (T : List (K × K)) (d : K) :
    Feas (cst [((0:K), (0:K))] T) (dgc [((0:K), (0:K))]) (dgc T) d ↔
      Feas (cst ([] : List (K × K)) T) (dgc []) (dgc T) d := by
  constructor
  · rintro ⟨p, h0, hrow, hcol⟩
    refine ⟨PM.empty, h0, fun i => i.elim0, fun j _ => ?_⟩
    cases hg : p.g j with
    | none => exact hcol j hg
    | some i =>
      have hf := (p.fg i j).mpr hg
      have := hrow i
      simp only [PM.rowCost, hf, cst] at this
      rw [origin_get] at this
      exact le_trans (diagInf_le_linf_origin _) this
  · rintro ⟨p, h0, -, hcol⟩
    refine ⟨PM.empty, h0, fun i => ?_, fun j _ => ?_⟩
    · simp only [PM.rowCost, PM.empty, dgc, origin_get, diagInf]
      simpa using h0
    · cases hg : p.g j with
      | none => exact hcol j hg
      | some i => exact i.elim0

theorem feas_placeholder_right (S : List (K × K)) (d : K) :
    Feas (cst S [((0:K), (0:K))]) (dgc S) (dgc [((0:K), (0:K))]) d ↔
      Feas (cst S ([] : List (K × K))) (dgc S) (dgc []) d := by
  constructor
  · rintro ⟨p, h0, hrow, hcol⟩
    refine ⟨PM.empty, h0, fun i => ?_, fun j _ => j.elim0⟩
    have := hrow i
    simp only [PM.rowCost, PM.empty] at this ⊢
    cases hf : p.f i with
    | none => simpa [hf] using this
    | some j =>
      simp only [hf, cst] at this
      rw [origin_get, linf_comm] at this
      exact le_trans (diagInf_le_linf_origin _) this
  · rintro ⟨p, h0, hrow, -⟩
    refine ⟨PM.empty, h0, fun i => ?_, fun j _ => ?_⟩
    · have := hrow i
      simp only [PM.rowCost, PM.empty] at this ⊢
      cases hf : p.f i with
      | none => simpa [hf] using this
      | some j => exact j.elim0
    · simp only [dgc, origin_get, diagInf]
      simpa using h0

theorem withPlaceholder_of_ne_nil {S : List (K × K)} (h : S ≠ []) : withPlaceholder S = S := by
  cases S with
  | nil => exact absurd rfl h
  | cons a t => simp [withPlaceholder]

theorem withPlaceholder_nil : withPlaceholder ([] : List (K × K)) = [(0, 0)] := by
  simp [withPlaceholder]

/-- lines 69-74 do not change the set of feasible bounds -/
theorem feas_withPlaceholder (S T : List (K × K)) (d : K) :
    Feas (cst (withPlaceholder S) (withPlaceholder T)) (dgc (withPlaceholder S)) (dgc (withPlaceholder T)) d ↔
      Feas (cst S T) (dgc S) (dgc T) d := by
  by_cases hS : S = [] <;> by_cases hT : T = []
  · subst hS; subst hT
    rw [withPlaceholder_nil, feas_placeholder_left, feas_placeholder_right]
  · subst hS
    rw [withPlaceholder_of_ne_nil hT, withPlaceholder_nil, feas_placeholder_left]
  · subst hT
    rw [withPlaceholder_of_ne_nil hS, withPlaceholder_nil, feas_placeholder_right]
  · rw [withPlaceholder_of_ne_nil hS, withPlaceholder_of_ne_nil hT]

theorem withPlaceholder_length_pos (S : List (K × K)) : 0 < (withPlaceholder S).length := by
  cases S with
  | nil => simp [withPlaceholder]
  | cons a t => simp [withPlaceholder]

theorem withPlaceholder_guard {S : List (K × K)} (hS : ∀ p ∈ S, p.1 ≤ p.2) :
    ∀ p ∈ withPlaceholder S, p.1 ≤ p.2 := by
  cases S with
  | nil => simp [withPlaceholder]
  | cons a t => simpa [withPlaceholder] using hS

/-- the points the code keeps (finite death), in order -/
abbrev finitePart (d : List (K × Option K)) : List (K × K) := (filterFinite d).1

/-- a diagram of finite points, as the routine's input type -/
def lift (S : List (K × K)) : List (K × Option K) := S.map fun p => (p.1, some p.2)

theorem filterFinite_lift (S : List (K × K)) : filterFinite (lift S) = (S, false) := by
  have h : (lift S).filterMap (fun p => match p.2 with | some e => some (p.1, e) | none => none) = S := by
    induction S with
    | nil => rfl
    | cons a t ih => simp only [lift, List.map_cons, List.filterMap_cons] at ih ⊢; rw [ih]
  simp only [filterFinite, h]
  simp [lift]

theorem filterFinite_fst_cons_none (b : K) (t : List (K × Option K)) :
    (filterFinite ((b, none) :: t)).1 = (filterFinite t).1 := rfl

theorem filterFinite_fst_cons_some (b e : K) (t : List (K × Option K)) :
    (filterFinite ((b, some e) :: t)).1 = (b, e) :: (filterFinite t).1 := rfl

theorem filterFinite_length_le (t : List (K × Option K)) : (filterFinite t).1.length ≤ t.length := by
  simp only [filterFinite]; exact List.length_filterMap_le _ _

theorem filterFinite_length_lt_iff (d : List (K × Option K)) :
    (filterFinite d).2 = true ↔ ∃ p ∈ d, p.2 = none := by
  have h2 : (filterFinite d).2 = decide ((filterFinite d).1.length < d.length) := rfl
  rw [h2, decide_eq_true_eq]
  induction d with
  | nil => simp [filterFinite]
  | cons a t ih =>
    have hle := filterFinite_length_le t
    have ih' : (filterFinite t).1.length < t.length ↔ ∃ p ∈ t, p.2 = none := ih rfl
    rcases a with ⟨b, e⟩
    cases e with
    | none =>
      rw [filterFinite_fst_cons_none]
      simp only [List.length_cons, List.mem_cons, exists_eq_or_imp, true_or, iff_true]
      omega
    | some e =>
      rw [filterFinite_fst_cons_some]
      simp only [List.length_cons, List.mem_cons, exists_eq_or_imp]
      rw [← ih']
      simp


end Aug
end PersimVerif.Bottleneck
