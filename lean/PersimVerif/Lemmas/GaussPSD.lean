import Mathlib.Analysis.SpecialFunctions.Exponential
import Mathlib.Analysis.Complex.Exponential
import Mathlib.Algebra.BigOperators.Ring.Finset
import Mathlib.Data.Nat.Choose.Sum
import Mathlib.Algebra.BigOperators.Field
import Mathlib.Tactic.Ring
import Mathlib.Tactic.FieldSimp
import Mathlib.Tactic.Positivity

/-!
# The Gaussian kernel on `ℝ²` is positive semi-definite (helper for C14)

`∑ i j, a i * a j * exp (-(|x i - x j|²) / (2 s)) ≥ 0` for every finite family of points and real
coefficients and every `s > 0`.  Proof: `exp(-|x-y|²/2s) = g x * g y * exp(⟨x,y⟩/s)`, the power series of
`exp`, and `⟨x,y⟩ⁿ = ∑ₖ C(n,k) (x₁y₁)ᵏ (x₂y₂)ⁿ⁻ᵏ`, which turns every term into a sum of squares.
-/
namespace PersimVerif.Lemmas.GaussPSD
open Finset

variable {ι : Type*} [Fintype ι]

/-- every power of the Euclidean inner product is a positive semi-definite kernel -/
theorem dot_pow_psd (b : ι → ℝ) (u v : ι → ℝ) (n : ℕ) :
    0 ≤ ∑ i, ∑ j, b i * b j * (u i * u j + v i * v j) ^ n := by
  set c : ℕ → ι → ℝ := fun k i => b i * u i ^ k * v i ^ (n - k) with hc
  have key : ∑ i, ∑ j, b i * b j * (u i * u j + v i * v j) ^ n =
      ∑ k ∈ range (n + 1), (n.choose k : ℝ) * ((∑ i, c k i) * (∑ j, c k j)) := by
    calc ∑ i, ∑ j, b i * b j * (u i * u j + v i * v j) ^ n
        = ∑ i, ∑ j, ∑ k ∈ range (n + 1), (n.choose k : ℝ) * (c k i * c k j) := by
          refine sum_congr rfl fun i _ => sum_congr rfl fun j _ => ?_
          rw [add_pow, mul_sum]
          refine sum_congr rfl fun k _ => ?_
          simp only [hc, mul_pow]; ring
      _ = ∑ k ∈ range (n + 1), ∑ i, ∑ j, (n.choose k : ℝ) * (c k i * c k j) := by
          rw [sum_congr rfl (fun i _ => sum_comm), sum_comm]
      _ = ∑ k ∈ range (n + 1), (n.choose k : ℝ) * ((∑ i, c k i) * (∑ j, c k j)) := by
          refine sum_congr rfl fun k _ => ?_
          rw [sum_mul_sum, mul_sum]
          refine sum_congr rfl fun i _ => ?_
          rw [mul_sum]
  rw [key]
  exact sum_nonneg fun k _ => mul_nonneg (Nat.cast_nonneg _) (mul_self_nonneg _)

/-- `exp ∘ inner product` is a positive semi-definite kernel -/
theorem exp_dot_psd (b : ι → ℝ) (u v : ι → ℝ) (s : ℝ) (hs : 0 < s) :
    0 ≤ ∑ i, ∑ j, b i * b j * Real.exp ((u i * u j + v i * v j) / s) := by
  have hser : ∀ i j, HasSum (fun n : ℕ => b i * b j * (((u i * u j + v i * v j) / s) ^ n / (n.factorial : ℝ)))
      (b i * b j * Real.exp ((u i * u j + v i * v j) / s)) := by
    intro i j
    have h := NormedSpace.expSeries_div_hasSum_exp ((u i * u j + v i * v j) / s)
    rw [← Real.exp_eq_exp_ℝ] at h
    exact h.mul_left _
  have htot : HasSum (fun n : ℕ => ∑ i, ∑ j, b i * b j * (((u i * u j + v i * v j) / s) ^ n / (n.factorial : ℝ)))
      (∑ i, ∑ j, b i * b j * Real.exp ((u i * u j + v i * v j) / s)) :=
    hasSum_sum fun i _ => hasSum_sum fun j _ => hser i j
  refine htot.nonneg fun n => ?_
  have e : ∑ i, ∑ j, b i * b j * (((u i * u j + v i * v j) / s) ^ n / (n.factorial : ℝ)) =
      (∑ i, ∑ j, b i * b j * (u i * u j + v i * v j) ^ n) / (s ^ n * (n.factorial : ℝ)) := by
    rw [Finset.sum_div]
    refine sum_congr rfl fun i _ => ?_
    rw [Finset.sum_div]
    refine sum_congr rfl fun j _ => ?_
    rw [div_pow]; field_simp
  rw [e]
  exact div_nonneg (dot_pow_psd b u v n) (by positivity)

/-- **the Gaussian kernel is positive semi-definite** -/
theorem gauss_psd (a : ι → ℝ) (u v : ι → ℝ) (s : ℝ) (hs : 0 < s) :
    0 ≤ ∑ i, ∑ j, a i * a j *
      Real.exp (-((u i - u j) * (u i - u j) + (v i - v j) * (v i - v j)) / (2 * s)) := by
  set g : ι → ℝ := fun i => Real.exp (-(u i * u i + v i * v i) / (2 * s)) with hg
  have e : ∀ i j, a i * a j *
      Real.exp (-((u i - u j) * (u i - u j) + (v i - v j) * (v i - v j)) / (2 * s)) =
      (a i * g i) * (a j * g j) * Real.exp ((u i * u j + v i * v j) / s) := by
    intro i j
    have : -((u i - u j) * (u i - u j) + (v i - v j) * (v i - v j)) / (2 * s) =
        -(u i * u i + v i * v i) / (2 * s) + -(u j * u j + v j * v j) / (2 * s) +
          (u i * u j + v i * v j) / s := by field_simp; ring
    rw [this, Real.exp_add, Real.exp_add]; simp only [hg]; ring
  simp only [e]
  exact exp_dot_psd (fun i => a i * g i) u v s hs

end PersimVerif.Lemmas.GaussPSD
