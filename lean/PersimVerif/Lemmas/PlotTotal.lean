import PersimVerif.Lemmas.PlotDraw

/-! # Helper lemmas for C20: when the model does NOT reject (Python accepts the indices) -/
set_option linter.unusedSectionVars false
namespace PersimVerif.Plot

variable {K : Type} [Field K] [LinearOrder K] [IsStrictOrderedRing K]

/-- `i` is an index Python accepts for a list of length `n` -/
def InRange (n : Nat) (i : Int) : Prop := -(n : Int) ≤ i ∧ i < n

theorem pyGet_of_inRange {β : Type} {xs : List β} {i : Int} (h : InRange xs.length i) :
    ∃ x, pyGet xs i = some x := by
  obtain ⟨h1, h2⟩ := h
  unfold pyGet
  split
  · rename_i h0
    have : i.toNat < xs.length := by omega
    exact ⟨xs[i.toNat], List.getElem?_eq_getElem this⟩
  · rename_i h0
    have h3 : (-i).toNat ≤ xs.length := by omega
    rw [if_pos h3]
    have : xs.length - (-i).toNat < xs.length := by omega
    exact ⟨xs[xs.length - (-i).toNat], List.getElem?_eq_getElem this⟩

theorem getAll_of_inRange {β : Type} {xs : List β} : ∀ {l : List Int},
    (∀ i ∈ l, InRange xs.length i) → ∃ ys, getAll xs l = some ys
  | [], _ => ⟨[], rfl⟩
  | i :: is, h => by
    obtain ⟨x, hx⟩ := pyGet_of_inRange (h i (by simp))
    obtain ⟨r, hr⟩ := getAll_of_inRange (l := is) (fun j hj => h j (by simp [hj]))
    exact ⟨x :: r, by simp [getAll, hx, hr]⟩

theorem segments_succeeds {c s : K} {d1 d2 : FDgm K} (styleOf : Nat → Style) (axOf : Bool → Axes) :
    ∀ (rows : List (Row K)) (idx : Nat),
      (∀ r ∈ rows, InRange d1.length r.1 ∧ InRange d2.length r.2.1) →
      ∃ segs, segments c s d1 d2 styleOf axOf idx rows = .ok segs
  | [], _, _ => ⟨[], rfl⟩
  | (i, j, d) :: rows, idx, h => by
    obtain ⟨hi, hj⟩ := h (i, j, d) (by simp)
    obtain ⟨p, hp⟩ := pyGet_of_inRange hi
    obtain ⟨q, hq⟩ := pyGet_of_inRange hj
    obtain ⟨rest, hrest⟩ := segments_succeeds styleOf axOf rows (idx + 1) (fun r hr => h r (by simp [hr]))
    have hseg : ∃ o, segment c s d1 d2 i j = .ok o := by
      unfold segment
      simp only [hp, hq]
      split
      · split
        · exact ⟨_, rfl⟩
        · split <;> exact ⟨_, rfl⟩
      · exact ⟨_, rfl⟩
    obtain ⟨o, ho⟩ := hseg
    simp only [segments, ho]
    rw [hrest]
    cases o with
    | none => exact ⟨_, rfl⟩
    | some t => exact ⟨_, rfl⟩

theorem placeholder_length_pos (d : FDgm K) : 0 < (placeholder d).length := by
  cases d <;> simp [placeholder]

end PersimVerif.Plot
