import PersimVerif.Lemmas.PNormSum
import Mathlib.Order.ConditionallyCompleteLattice.Basic
import Mathlib.Order.Bounds.Basic

/-!
# C10 helper lemmas, part 3: sup norm

`|evalPL l t| ≤ max |y_i|` for every `t`, with equality at a breakpoint.
-/
namespace PersimVerif.PNormLemmas
open PersimVerif.PNorm PersimVerif.PL

noncomputable section

theorem segLine_abs_le {x0 y0 x1 y1 t M : ℝ} (hx : x0 < x1) (h0 : x0 ≤ t) (h1 : t ≤ x1)
    (hy0 : |y0| ≤ M) (hy1 : |y1| ≤ M) : |segLine x0 y0 x1 y1 t| ≤ M := by
  have hd : 0 < x1 - x0 := sub_pos.mpr hx
  set lam := (t - x0) / (x1 - x0) with hlam
  have hl0 : 0 ≤ lam := div_nonneg (sub_nonneg.mpr h0) hd.le
  have hl1 : lam ≤ 1 := by rw [hlam, div_le_one hd]; linarith
  have e : segLine x0 y0 x1 y1 t = (1 - lam) * y0 + lam * y1 := by
    simp only [segLine, hlam]; field_simp; ring
  rw [e]
  calc |(1 - lam) * y0 + lam * y1| ≤ |(1 - lam) * y0| + |lam * y1| := abs_add_le _ _
    _ = (1 - lam) * |y0| + lam * |y1| := by
        rw [abs_mul, abs_mul, abs_of_nonneg hl0, abs_of_nonneg (sub_nonneg.mpr hl1)]
    _ ≤ (1 - lam) * M + lam * M := by
        have := mul_le_mul_of_nonneg_left hy0 (sub_nonneg.mpr hl1)
        have := mul_le_mul_of_nonneg_left hy1 hl0
        linarith
    _ = M := by ring

/-- a piecewise-linear function never exceeds the largest magnitude of its breakpoint values -/
theorem evalPL_abs_le (l : List (ℝ × ℝ)) (hs : StrictAbsc l) (M : ℝ) (hM : 0 ≤ M)
    (h : ∀ pt ∈ l, |pt.2| ≤ M) (t : ℝ) : |evalPL l t| ≤ M := by
  induction l with
  | nil => simpa [evalPL] using hM
  | cons a r ih =>
    cases r with
    | nil => simpa [evalPL] using hM
    | cons b r' =>
      obtain ⟨x0, y0⟩ := a
      obtain ⟨x1, y1⟩ := b
      have hlt : x0 < x1 := hs.head_lt
      rw [evalPL_cons_cons]
      split_ifs with h1 h2
      · simpa using hM
      · exact segLine_abs_le hlt (not_lt.mp h1) h2 (h (x0, y0) (by simp)) (h (x1, y1) (by simp))
      · exact ih hs.tail (fun pt hpt => h pt (List.mem_cons_of_mem _ hpt))

/-- … and takes each breakpoint value at its abscissa -/
theorem evalPL_at_breakpoint (l : List (ℝ × ℝ)) (hs : StrictAbsc l) (h2 : 2 ≤ l.length) :
    ∀ pt ∈ l, evalPL l pt.1 = pt.2 := by
  induction l with
  | nil => simp at h2
  | cons a r ih =>
    cases r with
    | nil => simp at h2
    | cons b r' =>
      obtain ⟨x0, y0⟩ := a
      obtain ⟨x1, y1⟩ := b
      have hlt : x0 < x1 := hs.head_lt
      have hd : x1 - x0 ≠ 0 := (sub_pos.mpr hlt).ne'
      intro pt hpt
      rcases List.mem_cons.mp hpt with rfl | hpt
      · rw [evalPL_on_first_seg le_rfl hlt.le]; simp [segLine]
      rcases List.mem_cons.mp hpt with rfl | hpt'
      · rw [evalPL_on_first_seg hlt.le le_rfl]; simp only [segLine]; field_simp; ring
      · have hgt : x1 < pt.1 := (List.pairwise_cons.mp hs.tail).1 pt hpt'
        rw [evalPL_after_first_seg hlt.le hgt]
        have hlen : 2 ≤ ((x1, y1) :: r').length := by
          cases r' with
          | nil => simp at hpt'
          | cons c r'' => simp
        exact ih hs.tail hlen pt hpt

/-! ### Python's `max` / `np.max` -/

theorem foldl_pyMax_spec (rest : List ℝ) (a : ℝ) :
    let m := rest.foldl (fun best v => if best < v then v else best) a
    m ∈ a :: rest ∧ ∀ x ∈ a :: rest, x ≤ m := by
  induction rest generalizing a with
  | nil => simp
  | cons b r ih =>
    simp only [List.foldl_cons]
    obtain ⟨hm, hub⟩ := ih (if a < b then b else a)
    refine ⟨?_, ?_⟩
    · rcases List.mem_cons.mp hm with h | h
      · rw [h]; split_ifs <;> simp
      · exact List.mem_cons_of_mem _ (List.mem_cons_of_mem _ h)
    · intro x hx
      have hstep : a ≤ (if a < b then b else a) ∧ b ≤ (if a < b then b else a) := by
        split_ifs with hab
        · exact ⟨hab.le, le_rfl⟩
        · exact ⟨le_rfl, not_lt.mp hab⟩
      rcases List.mem_cons.mp hx with rfl | hx
      · exact hstep.1.trans (hub _ (by simp))
      rcases List.mem_cons.mp hx with rfl | hx
      · exact hstep.2.trans (hub _ (by simp))
      · exact hub x (List.mem_cons_of_mem _ hx)

theorem pyMax_spec (l : List ℝ) (m : ℝ) (h : pyMax l = some m) : m ∈ l ∧ ∀ x ∈ l, x ≤ m := by
  cases l with
  | nil => simp [pyMax] at h
  | cons a rest =>
    simp only [pyMax, Option.some.injEq] at h
    subst h
    exact foldl_pyMax_spec rest a

theorem foldl_max_spec (rest : List ℝ) (a : ℝ) :
    rest.foldl max a ∈ a :: rest ∧ ∀ x ∈ a :: rest, x ≤ rest.foldl max a := by
  have h := foldl_pyMax_spec rest a
  have e : (fun best v : ℝ => if best < v then v else best) = max := by
    funext x y
    rcases lt_or_ge x y with h | h
    · rw [if_pos h, max_eq_right h.le]
    · rw [if_neg (not_lt.mpr h), max_eq_left h]
  rw [e] at h
  exact h

/-! ### greatest value of `|evalPL|` over all depths -/

/-- the values `|λ_k(t)|`, `k` any depth (beyond the list: the zero function), `t` any real -/
def absValues (cps : List (List (ℝ × ℝ))) : Set ℝ :=
  Set.range fun kt : ℕ × ℝ => |evalDepth cps kt.1 kt.2|

theorem isGreatest_absValues (cps : List (List (ℝ × ℝ)))
    (hwf : ∀ l ∈ cps, StrictAbsc l ∧ 2 ≤ l.length) (m : ℝ)
    (hmem : m ∈ cps.flatten.map fun pt => |pt.2|)
    (hub : ∀ x ∈ cps.flatten.map fun pt => |pt.2|, x ≤ m) :
    IsGreatest (absValues cps) m := by
  obtain ⟨pt, hpt, rfl⟩ := List.mem_map.mp hmem
  obtain ⟨l, hl, hptl⟩ := List.mem_flatten.mp hpt
  constructor
  · obtain ⟨k, hk, rfl⟩ := List.mem_iff_getElem.mp hl
    refine ⟨(k, pt.1), ?_⟩
    simp only [evalDepth, List.getElem?_eq_getElem hk]
    rw [evalPL_at_breakpoint _ (hwf _ hl).1 (hwf _ hl).2 pt hptl]
  · rintro v ⟨⟨k, t⟩, rfl⟩
    simp only [evalDepth]
    cases hk : cps[k]? with
    | none => simp
    | some l' =>
      have hl' : l' ∈ cps := List.mem_of_getElem? hk
      apply evalPL_abs_le l' (hwf _ hl').1 _ (abs_nonneg _)
      intro q hq
      exact hub _ (List.mem_map.mpr ⟨q, List.mem_flatten.mpr ⟨l', hl', hq⟩, rfl⟩)

end
end PersimVerif.PNormLemmas
