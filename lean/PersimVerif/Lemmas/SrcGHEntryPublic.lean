import PersimVerif.Generated.SrcGHEntry
import PersimVerif.Generated.SrcMGH
import PersimVerif.Lemmas.MGHPublic
/-!
# The two translated layers of `persim/gromov_hausdorff.py`, composed (hand-written; DESIGN.md 3.2)

`Generated/SrcGHEntry.lean` translates the public entry point `gromov_hausdorff` with `estimate` a parameter;
`Generated/SrcMGH.lean` translates `estimate` and everything below it with the draws of NumPy's generator as list
parameters.  Here the translated `estimate` is plugged into the translated `gromov_hausdorff` (`srcEstimate`: the draws
of one call come from a `MGHPublic.Sampler`, as in the composed model) and the result is proved equal to the composed
MODEL `MGHPublic.publicGH`, about which `Props/C05C17.lean` proves the bracket of the public entry point.  So

    Python source ⟶ (translated, proved equal here) ⟶ `publicGH` ⟶ (proved, Props/C05C17.lean) ⟶ `lo ≤ mGH ≤ hi`.

Hand-written because it is about two generated files at once; it mentions only the NAMES and types of the generated
definitions `gromov_hausdorff` and `gromov_hausdorff_mgh.estimate` and the generated obligations about them, so an edit of
/repo breaks those obligations (or this file, if a definition no longer has that type), never silently this statement.
-/
namespace PersimVerif.Src.gromov_hausdorff_entry
open PersimVerif.Graph PersimVerif.SrcGH PersimVerif.SrcBridge.GHEntry PersimVerif.MGHPublic
open PersimVerif.SrcBridge.MGH (Sq DrawsOk)

variable {σ : Type}

/-- **the translated `estimate` as the `estimate` parameter of the translated `gromov_hausdorff`**: the draws of the
    call are the sampler's, an exception of `estimate` ends the call (`GhErr.engine`), the two floats it returns are the
    slots `lb`, `ub` -/
def srcEstimate (smp : Sampler σ) (s : σ) (DX DY : Mat) : Except GhErr ((Val × Val) × σ) :=
  match PersimVerif.Src.gromov_hausdorff_mgh.estimate (smp s DX DY).1.pXY (smp s DX DY).1.yXY (smp s DX DY).1.pYX
      (smp s DX DY).1.yYX DX DY with
  | .error e => .error (.engine e)
  | .ok r => .ok ((.ok r.1, .ok r.2), (smp s DX DY).2)

theorem drawsOk_of_valid {DX DY : Mat} {perms : List (List ℕ)} {y0s : List ℕ} (hX : 0 < DX.length)
    (hp : ∀ pi ∈ perms, pi.Perm (List.range DX.length)) (hy : ∀ y ∈ y0s, y < DY.length) (hne : perms ≠ [])
    (hlen : perms.length ≤ y0s.length) : DrawsOk DX DY perms y0s := by
  refine ⟨hne, hlen, ?_, hy⟩
  intro p hpm
  have hperm := hp p hpm
  refine ⟨?_, ?_⟩
  · intro h
    have := hperm.length_eq
    rw [h] at this
    simp at this
    omega
  · intro x hx
    exact List.mem_range.1 (hperm.subset hx)

/-- on the matrices `makeDist` returns and the draws of a sampler meeting NumPy's contract, the translated `estimate`
    raises nothing and returns the slots of the composed model's `publicEst` -/
theorem srcEstimate_eq_publicEst (smp : Sampler σ) (hv : SamplerValid smp) (he : SamplerEnough smp) (s : σ) (A B : Mat)
    (rX rY : DistResult) (hA : makeDist A = .ok rX) (hB : makeDist B = .ok rY) :
    srcEstimate smp s rX.dist rY.dist = .ok (publicEst MGH.exactMul MGH.exactMul smp s rX.dist rY.dist) := by
  obtain ⟨hX0, hXd, -, -⟩ := makeDist_facts hA
  obtain ⟨hY0, hYd, -, -⟩ := makeDist_facts hB
  have hXs : Sq rX.dist := fun r hr => hXd.row r hr
  have hYs : Sq rY.dist := fun r hr => hYd.row r hr
  have hXn : rX.dist ≠ [] := by intro h; rw [h] at hX0; simp at hX0
  have hYn : rY.dist ≠ [] := by intro h; rw [h] at hY0; simp at hY0
  obtain ⟨v1, v2, v3, v4⟩ := hv s rX.dist rY.dist hX0 hY0
  obtain ⟨e1, e2, e3, e4⟩ := he s rX.dist rY.dist hX0 hY0
  have d1 := drawsOk_of_valid (DY := rY.dist) hX0 v1 v2 e1 e3
  have d2 := drawsOk_of_valid (DY := rX.dist) hY0 v3 v4 e2 e4
  obtain ⟨lb, ub, hm, hs⟩ := PersimVerif.Src.gromov_hausdorff_mgh.src_estimate_eq_model _ _ _ _ rX.dist rY.dist hXs hYs hXn hYn d1 d2
  have hlb : lb = MGH.findLb MGH.exactMul MGH.exactMul rX.dist rY.dist := by
    have hm' := hm
    simp only [MGH.estimate] at hm'
    split at hm'
    · cases hm'
    · simp only [Except.ok.injEq, Prod.mk.injEq] at hm'; exact hm'.1.symm
  have half : ∀ n : ℕ, (1 / 2 : ℚ) * (n : ℚ) = (n : ℚ) / 2 := fun n => by ring
  simp only [srcEstimate, publicEst, C05.estimateHalf, hs, hm, Except.map, hlb, half]

/-- **the public entry point, both layers translated from the source, equals the composed model** `publicGH`: for both call
    forms, every collection size, every container kind, every csgraph implementation meeting the contract and every sampler
    meeting NumPy's contract (`SamplerValid`: permutations / values in range; `SamplerEnough`: at least one mapping sampled
    per direction) the translated code raises exactly the model's `ValueError`s and otherwise returns the model's result
    and generator state -/
theorem src_gromov_hausdorff_eq_public (shortest_path : Container → Except GhErr DMat)
    (connected_components : Container → Except GhErr (ℕ × List ℕ))
    (hc : CsgraphContract shortest_path connected_components) (smp : Sampler σ) (hv : SamplerValid smp)
    (he : SamplerEnough smp) (args : GHArgs) (hk : args.Known) (s : σ) :
    gromov_hausdorff shortest_path connected_components (srcEstimate smp) (.ok 0) args s =
      liftE (publicGH MGH.exactMul MGH.exactMul smp args.input s) := by
  rw [src_gromov_hausdorff_eq_model_raising shortest_path connected_components hc _ _ args hk s]
  rw [gromovHausdorffE_congr (srcEstimate smp) (fun s X Y => .ok (publicEst MGH.exactMul MGH.exactMul smp s X Y))
    (fun s A B rX rY hA hB => srcEstimate_eq_publicEst smp hv he s A B rX rY hA hB)]
  exact gromovHausdorffE_pure _ _ _ _

end PersimVerif.Src.gromov_hausdorff_entry
