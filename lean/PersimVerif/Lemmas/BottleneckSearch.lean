import PersimVerif.Model.Bottleneck
import Mathlib.Order.Basic
import Mathlib.Order.Defs.LinearOrder
import Mathlib.Data.List.Basic
import Mathlib.Tactic.Linarith

/-!
# The `while len(ds) >= 1` bisect loop returns the least feasible candidate
-/
namespace PersimVerif.Bottleneck

variable {β σ : Type} [LinearOrder β]

/-- Invariant-style specification of `bsearch` (model of bottleneck.py:104-118).
For a strictly increasing candidate list `ds`, a monotone feasibility test, and a feasible current
best `best` that bounds `ds` from above, the loop ends with
* a feasible value, taken from `ds` or equal to `best`,
* that is below every feasible candidate of `ds` and below `best`,
* and the stored matching is the probe result at that value — unless no candidate was feasible,
  in which case the state is untouched. -/
theorem bsearch_spec (probe : β → σ) (ok : σ → Bool)
    (hmono : ∀ a b, a ≤ b → ok (probe a) = true → ok (probe b) = true) :
    ∀ (n : ℕ) (ds : List β) (best : β) (mt : σ), ds.length = n → ds.Pairwise (· < ·) →
      ok (probe best) = true → (∀ x ∈ ds, x ≤ best) →
      ok (probe (bsearch probe ok ds (best, mt)).1) = true ∧
      ((bsearch probe ok ds (best, mt)).1 = best ∨ (bsearch probe ok ds (best, mt)).1 ∈ ds) ∧
      (∀ x ∈ ds, ok (probe x) = true → (bsearch probe ok ds (best, mt)).1 ≤ x) ∧
      (bsearch probe ok ds (best, mt)).1 ≤ best ∧
      ((bsearch probe ok ds (best, mt)).2 = probe (bsearch probe ok ds (best, mt)).1 ∨
        (bsearch probe ok ds (best, mt) = (best, mt) ∧ ∀ x ∈ ds, ok (probe x) = false)) := by
  intro n
  induction n using Nat.strong_induction_on with
  | _ n ih =>
    intro ds best mt hn hs hb hle
    cases ds with
    | nil => simp [bsearch, hb]
    | cons d0 ds' =>
      rw [bsearch]
      try simp only
      set ds := d0 :: ds' with hds
      set idx := ds.length / 2 with hidx
      have hidxlt : idx < ds.length := by simp [hidx, hds]; omega
      have hmem : ds[idx] ∈ ds := List.getElem_mem hidxlt
      have hsplit : ds = ds.take idx ++ ds[idx] :: ds.drop (idx+1) := by simp
      have hs' := hs
      rw [hsplit, List.pairwise_append] at hs'
      obtain ⟨hs1, hs2, hs3⟩ := hs'
      rw [List.pairwise_cons] at hs2
      by_cases hf : ok (probe ds[idx]) = true
      · have hdle : ds[idx] ≤ best := hle _ hmem
        rw [if_pos ⟨hf, hdle⟩]
        have := ih (ds.take idx).length (by simp [List.length_take]; omega) (ds.take idx) ds[idx]
          (probe ds[idx]) rfl hs1 hf (fun x hx => le_of_lt (hs3 x hx _ List.mem_cons_self))
        obtain ⟨h1, h2, h3, h4, h5⟩ := this
        refine ⟨h1, ?_, ?_, le_trans h4 hdle, ?_⟩
        · rcases h2 with h | h
          · right; rw [h]; exact hmem
          · right; exact List.mem_of_mem_take h
        · intro x hx hfx
          replace hx : x ∈ ds := hx
          rw [hsplit] at hx
          simp only [List.mem_append, List.mem_cons] at hx
          rcases hx with hx | hx | hx
          · exact h3 x hx hfx
          · rw [hx]; exact h4
          · exact le_trans h4 (le_of_lt (hs2.1 x hx))
        · left
          rcases h5 with h | ⟨h, _⟩
          · exact h
          · rw [h]
      · have hf' : ¬ (ok (probe ds[idx]) = true ∧ ds[idx] ≤ best) := fun h => hf h.1
        rw [if_neg hf']
        have := ih (ds.drop (idx+1)).length (by simp [List.length_drop]; omega) (ds.drop (idx+1)) best mt
          rfl hs2.2 hb (fun x hx => hle x (List.mem_of_mem_drop hx))
        obtain ⟨h1, h2, h3, h4, h5⟩ := this
        have hlow : ∀ x ∈ ds.take idx, ok (probe x) = false := by
          intro x hx
          by_contra hx'
          have : x < ds[idx] := hs3 x hx _ List.mem_cons_self
          exact hf (hmono _ _ (le_of_lt this) (by simpa using hx'))
        refine ⟨h1, ?_, ?_, h4, ?_⟩
        · rcases h2 with h | h
          · left; exact h
          · right; exact List.mem_of_mem_drop h
        · intro x hx hfx
          replace hx : x ∈ ds := hx
          rw [hsplit] at hx
          simp only [List.mem_append, List.mem_cons] at hx
          rcases hx with hx | hx | hx
          · exfalso; rw [hlow x hx] at hfx; exact Bool.false_ne_true hfx
          · exfalso; rw [hx] at hfx; exact hf hfx
          · exact h3 x hx hfx
        · rcases h5 with h | ⟨h, hall⟩
          · left; exact h
          · right
            refine ⟨h, fun x hx => ?_⟩
            replace hx : x ∈ ds := hx
            rw [hsplit] at hx
            simp only [List.mem_append, List.mem_cons] at hx
            rcases hx with hx | hx | hx
            · exact hlow x hx
            · rw [hx]; simpa using hf
            · exact hall x hx

end PersimVerif.Bottleneck
