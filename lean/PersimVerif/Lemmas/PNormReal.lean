import PersimVerif.Lemmas.PNormSum
import Mathlib.Analysis.SpecialFunctions.Pow.Real

/-!
# C10 helper lemmas, part 6: real exponents

The same identification for a real exponent `p` (`Real.rpow`), with the code's own
`-expm1((p+1)·log r)` in the one-signed branch, and the segment-to-landscape induction in a form
generic in the term function (any `term` that integrates `φ ∘ |line|` over a segment).
-/
namespace PersimVerif.PNormLemmas
open PersimVerif.PNorm PersimVerif.PL intervalIntegral MeasureTheory

noncomputable section

/-- for `x ≥ 0` and `p ≥ 0`: `x^(p+1) = x * x^p` -/
theorem rpow_succ_nonneg {x p : ℝ} (hx : 0 ≤ x) (hp : 0 ≤ p) : x ^ (p + 1) = x * x ^ p := by
  rcases eq_or_lt_of_le hx with h | h
  · rw [← h, Real.zero_rpow (by linarith)]; simp
  · rw [Real.rpow_add_one h.ne', mul_comm]

theorem int_abs_rpow_zero (p : ℝ) (hp : 0 ≤ p) (b : ℝ) :
    ∫ u in (0:ℝ)..b, |u| ^ p = b * |b| ^ p / (p + 1) := by
  have hp1 : p + 1 ≠ 0 := by linarith
  rcases le_total 0 b with hb | hb
  · have : ∫ u in (0:ℝ)..b, |u| ^ p = ∫ u in (0:ℝ)..b, u ^ p := by
      apply integral_congr
      intro u hu
      have h0 : 0 ≤ u := by
        rw [Set.uIcc_of_le hb] at hu; exact hu.1
      simp [abs_of_nonneg h0]
    rw [this, integral_rpow (Or.inl (by linarith)), abs_of_nonneg hb, Real.zero_rpow hp1,
      rpow_succ_nonneg hb hp]
    ring
  · have : ∫ u in (0:ℝ)..b, |u| ^ p = ∫ u in (0:ℝ)..b, (-u) ^ p := by
      apply integral_congr
      intro u hu
      have h0 : u ≤ 0 := by
        rw [Set.uIcc_of_ge hb] at hu; exact hu.2
      simp [abs_of_nonpos h0]
    rw [this, integral_comp_neg (fun u => u ^ p), integral_rpow (Or.inl (by linarith)),
      abs_of_nonpos hb, neg_zero, Real.zero_rpow hp1, rpow_succ_nonneg (neg_nonneg.mpr hb) hp]
    ring

theorem int_abs_rpow (p : ℝ) (hp : 0 ≤ p) (a b : ℝ) :
    ∫ u in a..b, |u| ^ p = (b * |b| ^ p - a * |a| ^ p) / (p + 1) := by
  have hc : Continuous fun u : ℝ => |u| ^ p := continuous_abs.rpow_const (fun _ => Or.inr hp)
  have h := integral_add_adjacent_intervals (μ := MeasureTheory.volume) (hc.intervalIntegrable a 0)
    (hc.intervalIntegrable 0 b)
  rw [← h, integral_symm 0 a, int_abs_rpow_zero p hp, int_abs_rpow_zero p hp]
  ring

theorem int_abs_line_rpow (p : ℝ) (hp : 0 ≤ p) (x0 x1 m c : ℝ) (hm : m ≠ 0) :
    ∫ x in x0..x1, |m * x + c| ^ p
      = ((m * x1 + c) * |m * x1 + c| ^ p - (m * x0 + c) * |m * x0 + c| ^ p) / (m * (p + 1)) := by
  have hp1 : p + 1 ≠ 0 := by linarith
  have := integral_comp_mul_add (fun u => |u| ^ p) hm c (a := x0) (b := x1)
  rw [this, int_abs_rpow p hp, smul_eq_mul]
  field_simp

theorem int_segLine_nonflat_rpow (p : ℝ) (hp : 0 ≤ p) (x0 y0 x1 y1 : ℝ) (hx : x0 ≠ x1) (hy : y0 ≠ y1) :
    ∫ t in x0..x1, |segLine x0 y0 x1 y1 t| ^ p
      = (x1 - x0) * (y1 * |y1| ^ p - y0 * |y0| ^ p) / ((y1 - y0) * (p + 1)) := by
  have hp1 : p + 1 ≠ 0 := by linarith
  have hx' : x1 - x0 ≠ 0 := sub_ne_zero.mpr (Ne.symm hx)
  have hy' : y1 - y0 ≠ 0 := sub_ne_zero.mpr (Ne.symm hy)
  set m := (y1 - y0) / (x1 - x0) with hm
  set c := y0 - m * x0 with hc
  have hm0 : m ≠ 0 := div_ne_zero hy' hx'
  have hline : ∀ t, segLine x0 y0 x1 y1 t = m * t + c := by
    intro t; simp only [segLine, hm, hc]; field_simp; ring
  have h0 : m * x0 + c = y0 := by simp only [hc]; ring
  have h1 : m * x1 + c = y1 := by simp only [hm, hc]; field_simp; ring
  simp_rw [hline]
  rw [int_abs_line_rpow p hp x0 x1 m c hm0, h0, h1, hm]
  field_simp

theorem int_segLine_flat_rpow (p : ℝ) (x0 y0 x1 : ℝ) :
    ∫ t in x0..x1, |segLine x0 y0 x1 y0 t| ^ p = |y0| ^ p * (x1 - x0) := by
  have : ∀ t, segLine x0 y0 x1 y0 t = y0 := by intro t; simp [segLine]
  simp_rw [this]
  rw [intervalIntegral.integral_const, smul_eq_mul, mul_comm]

/-- the code's `-np.expm1((p + 1) * np.log(r))` at the reals (`expm1 x = exp x − 1`) -/
def oneSubPowReal (p r : ℝ) : ℝ := -(Real.exp ((p + 1) * Real.log r) - 1)

/-- the segment term of the fixed `_p_norm` for a real exponent -/
def segTermReal (p : ℝ) (x0 y0 x1 y1 : ℝ) : ℝ :=
  segTerm (fun x => x ^ p) (fun x => x ^ (p + 1)) (oneSubPowReal p) (p + 1) x0 y0 x1 y1

theorem oneSubPowReal_eq (p r : ℝ) (hr : 0 < r) : oneSubPowReal p r = 1 - r ^ (p + 1) := by
  unfold oneSubPowReal
  rw [Real.rpow_def_of_pos hr, mul_comm]; ring

theorem G_minmax' (F : ℝ → ℝ) (u v : ℝ) :
    (F (max u v) - F (min u v)) / (max u v - min u v) = (F v - F u) / (v - u) := by
  rcases le_total u v with h | h
  · rw [max_eq_right h, min_eq_left h]
  · rw [max_eq_left h, min_eq_right h, ← neg_div_neg_eq]; ring_nf

theorem oneSigned_ratio_real (p : ℝ) (hp : 0 ≤ p) (a M : ℝ) (ha : 0 ≤ a) (haM : a < M) :
    M ^ p * (if (a / M == 0) = true then 1 else oneSubPowReal p (a / M) / (1 - a / M))
      = (M ^ (p + 1) - a ^ (p + 1)) / (M - a) := by
  have hM : 0 < M := lt_of_le_of_lt ha haM
  have hMa : M - a ≠ 0 := (sub_pos.mpr haM).ne'
  have hMp1 : M ^ (p + 1) = M * M ^ p := rpow_succ_nonneg hM.le hp
  by_cases h : a / M = 0
  · have ha0 : a = 0 := by
      rcases div_eq_zero_iff.mp h with h | h
      · exact h
      · exact absurd h hM.ne'
    subst ha0
    have : (0 : ℝ) ^ (p + 1) = 0 := Real.zero_rpow (by linarith)
    simp [hMp1, this, hM.ne']
  · have h' : ¬ ((a / M == 0) = true) := by simpa using h
    have hr : 0 < a / M := lt_of_le_of_ne (div_nonneg ha hM.le) (Ne.symm h)
    rw [if_neg h', oneSubPowReal_eq p _ hr, Real.div_rpow ha hM.le]
    have hMp : M ^ (p + 1) ≠ 0 := (Real.rpow_pos_of_pos hM _).ne'
    have e1 : 1 - a ^ (p + 1) / M ^ (p + 1) = (M ^ (p + 1) - a ^ (p + 1)) / M ^ (p + 1) := by
      field_simp
    have e2 : 1 - a / M = (M - a) / M := by field_simp
    rw [e1, e2, div_div_div_eq, hMp1]
    have hMpp : M ^ p ≠ 0 := (Real.rpow_pos_of_pos hM _).ne'
    field_simp

theorem oneSigned_closed_real (p : ℝ) (hp : 0 ≤ p) (y0 y1 : ℝ)
    (hs : (0 ≤ y0 ∧ 0 ≤ y1) ∨ (y0 ≤ 0 ∧ y1 ≤ 0)) :
    (y1 * |y1| ^ p - y0 * |y0| ^ p) / (y1 - y0)
      = (|y1| ^ (p + 1) - |y0| ^ (p + 1)) / (|y1| - |y0|) := by
  rcases hs with ⟨h0, h1⟩ | ⟨h0, h1⟩
  · rw [abs_of_nonneg h0, abs_of_nonneg h1, rpow_succ_nonneg h0 hp, rpow_succ_nonneg h1 hp]
  · rw [abs_of_nonpos h0, abs_of_nonpos h1, rpow_succ_nonneg (neg_nonneg.mpr h0) hp,
      rpow_succ_nonneg (neg_nonneg.mpr h1) hp]
    have : -y1 * (-y1) ^ p - -y0 * (-y0) ^ p = -(y1 * (-y1) ^ p - y0 * (-y0) ^ p) := by ring
    rw [this, show -y1 - -y0 = -(y1 - y0) by ring, neg_div_neg_eq]

theorem segTermReal_flat (p : ℝ) (x0 y0 x1 : ℝ) :
    segTermReal p x0 y0 x1 y0 = |y0| ^ p * (x1 - x0) := by
  simp [segTermReal, segTerm, absA_eq_abs]

theorem segTermReal_cross (p : ℝ) (hp : 0 ≤ p) (x0 y0 x1 y1 : ℝ) (hx : x0 ≠ x1) (hc : crossing y0 y1) :
    segTermReal p x0 y0 x1 y1
      = (|y1| ^ (p + 1) + |y0| ^ (p + 1)) / (|(y1 - y0) / (x1 - x0)| * (p + 1)) := by
  have hy : y0 ≠ y1 := by
    rcases hc with ⟨h0, h1⟩ | ⟨h0, h1⟩
    · exact (h0.trans h1).ne
    · exact (h1.trans h0).ne'
  have hx' : x1 - x0 ≠ 0 := sub_ne_zero.mpr (Ne.symm hx)
  have hy' : y1 - y0 ≠ 0 := sub_ne_zero.mpr (Ne.symm hy)
  have hm0 : (y1 - y0) / (x1 - x0) ≠ 0 := div_ne_zero hy' hx'
  have hne : ¬ ((y0 == y1) = true) := by simpa using hy
  simp only [segTermReal, segTerm, absA_eq_abs, if_neg hne]
  unfold crossing at hc
  rw [if_pos hc]
  have e1 : (y1 - y0) / (x1 - x0) * x1 + (y0 - (y1 - y0) / (x1 - x0) * x0) = y1 := by
    field_simp; ring
  have e0 : (y1 - y0) / (x1 - x0) * x0 + (y0 - (y1 - y0) / (x1 - x0) * x0) = y0 := by ring
  have ez : (y1 - y0) / (x1 - x0) * (-(y0 - (y1 - y0) / (x1 - x0) * x0) / ((y1 - y0) / (x1 - x0)))
      + (y0 - (y1 - y0) / (x1 - x0) * x0) = 0 := by
    rw [mul_div_cancel₀ _ hm0]; ring
  rw [e1, e0, ez]
  have hp1 : 0 < p + 1 := by linarith
  have hz : (0 : ℝ) ^ (p + 1) = 0 := Real.zero_rpow hp1.ne'
  have hpos : 0 ≤ (|y1| ^ (p + 1) + |y0| ^ (p + 1)) / (|(y1 - y0) / (x1 - x0)| * (p + 1)) := by
    have h1 : 0 ≤ |y1| ^ (p + 1) := Real.rpow_nonneg (abs_nonneg _) _
    have h0 : 0 ≤ |y0| ^ (p + 1) := Real.rpow_nonneg (abs_nonneg _) _
    positivity
  simp only [abs_zero, hz, zero_div, mul_zero, sub_zero]
  rw [← add_div, abs_of_nonneg hpos]

theorem segTermReal_oneSigned (p : ℝ) (hp : 0 ≤ p) (x0 y0 x1 y1 : ℝ) (hy : y0 ≠ y1)
    (hc : ¬ crossing y0 y1) :
    segTermReal p x0 y0 x1 y1
      = (x1 - x0) * ((|y1| ^ (p + 1) - |y0| ^ (p + 1)) / (|y1| - |y0|)) / (p + 1) := by
  have hne : ¬ ((y0 == y1) = true) := by simpa using hy
  simp only [segTermReal, segTerm, if_neg hne]
  have hc0 := hc
  unfold crossing at hc0
  rw [if_neg hc0]
  have habs : |y0| ≠ |y1| := by
    intro h
    rcases abs_eq_abs.mp h with h | h
    · exact hy h
    · apply hc
      rcases lt_trichotomy y1 0 with h1 | h1 | h1
      · right; exact ⟨by linarith, h1⟩
      · exfalso; apply hy; rw [h, h1]; simp
      · left; exact ⟨by linarith, h1⟩
  rw [sortedAbs_real]
  simp only []
  have hlt : min |y0| |y1| < max |y0| |y1| := by
    rcases lt_or_gt_of_ne habs with h | h
    · rw [min_eq_left h.le, max_eq_right h.le]; exact h
    · rw [min_eq_right h.le, max_eq_left h.le]; exact h
  rw [mul_assoc, oneSigned_ratio_real p hp _ _ (le_min (abs_nonneg _) (abs_nonneg _)) hlt,
    G_minmax' (fun u => u ^ (p + 1))]

/-- **one segment, real exponent** `p ≥ 0` -/
theorem segTermReal_eq_integral (p : ℝ) (hp : 0 ≤ p) (x0 y0 x1 y1 : ℝ) (hx : x0 < x1) :
    segTermReal p x0 y0 x1 y1 = ∫ t in x0..x1, |segLine x0 y0 x1 y1 t| ^ p := by
  have hp1 : p + 1 ≠ 0 := by linarith
  have hx' : 0 < x1 - x0 := sub_pos.mpr hx
  by_cases hy : y0 = y1
  · subst hy; rw [segTermReal_flat, int_segLine_flat_rpow]
  have hy' : y1 - y0 ≠ 0 := sub_ne_zero.mpr (Ne.symm hy)
  rw [int_segLine_nonflat_rpow p hp x0 y0 x1 y1 hx.ne hy]
  by_cases hc : crossing y0 y1
  · rw [segTermReal_cross p hp x0 y0 x1 y1 hx.ne hc]
    rcases hc with ⟨h0, h1⟩ | ⟨h0, h1⟩
    · have hm : 0 < (y1 - y0) / (x1 - x0) := div_pos (by linarith) hx'
      rw [abs_of_pos hm, abs_of_pos h1, abs_of_neg h0, rpow_succ_nonneg h1.le hp,
        rpow_succ_nonneg (neg_nonneg.mpr h0.le) hp]
      field_simp; ring
    · have hm : (y1 - y0) / (x1 - x0) < 0 := div_neg_of_neg_of_pos (by linarith) hx'
      rw [abs_of_neg hm, abs_of_neg h1, abs_of_pos h0, rpow_succ_nonneg h0.le hp,
        rpow_succ_nonneg (neg_nonneg.mpr h1.le) hp]
      field_simp; ring
  · rw [segTermReal_oneSigned p hp x0 y0 x1 y1 hy hc,
      ← oneSigned_closed_real p hp y0 y1 ((not_crossing_iff y0 y1).mp hc)]
    field_simp


/-! ### from segments to a landscape, generically -/

section generic
variable (term : ℝ → ℝ → ℝ → ℝ → ℝ) (φ : ℝ → ℝ)

/-- the terms the loop adds for one depth function, for an arbitrary segment-term function -/
def segSumG (l : List (ℝ × ℝ)) : ℝ :=
  ((segs l).map fun s => term s.1.1 s.1.2 s.2.1 s.2.2).sum

theorem segSumG_cons_cons (a b : ℝ × ℝ) (r : List (ℝ × ℝ)) :
    segSumG term (a :: b :: r) = term a.1 a.2 b.1 b.2 + segSumG term (b :: r) := by
  simp [segSumG, segs]

theorem segSumG_eq_integral (hφ : Continuous φ)
    (hterm : ∀ x0 y0 x1 y1, x0 < x1 → term x0 y0 x1 y1 = ∫ t in x0..x1, φ |segLine x0 y0 x1 y1 t|)
    (l : List (ℝ × ℝ)) (hs : StrictAbsc l) :
    IntervalIntegrable (fun t => φ |evalPL l t|) volume (firstX l) (lastX l) ∧
      segSumG term l = ∫ t in firstX l..lastX l, φ |evalPL l t| := by
  induction l with
  | nil => simp [segSumG, segs, firstX, lastX]
  | cons a r ih =>
    cases r with
    | nil => simp [segSumG, segs, firstX, lastX]
    | cons b r' =>
      obtain ⟨x0, y0⟩ := a
      obtain ⟨x1, y1⟩ := b
      have hlt : x0 < x1 := hs.head_lt
      obtain ⟨ihI, ihS⟩ := ih hs.tail
      have hlast : x1 ≤ lastX ((x1, y1) :: r') := hs.tail.le_lastX
      simp only [firstX, lastX] at ihI ihS ⊢
      have hcont : Continuous fun t => φ |segLine x0 y0 x1 y1 t| := by
        apply hφ.comp
        unfold segLine
        fun_prop
      have e1 : Set.EqOn (fun t => φ |segLine x0 y0 x1 y1 t|)
          (fun t => φ |evalPL ((x0, y0) :: (x1, y1) :: r') t|) (Set.uIcc x0 x1) := by
        intro t ht
        rw [Set.uIcc_of_le hlt.le] at ht
        simp only [evalPL_on_first_seg ht.1 ht.2]
      have i1 : IntervalIntegrable (fun t => φ |evalPL ((x0, y0) :: (x1, y1) :: r') t|) volume x0 x1 :=
        (hcont.intervalIntegrable x0 x1).congr (e1.mono Set.uIoc_subset_uIcc)
      have e2 : Set.EqOn (fun t => φ |evalPL ((x1, y1) :: r') t|)
          (fun t => φ |evalPL ((x0, y0) :: (x1, y1) :: r') t|)
          (Set.uIoc x1 (lastX ((x1, y1) :: r'))) := by
        intro t ht
        rw [Set.uIoc_of_le hlast] at ht
        simp only [evalPL_after_first_seg hlt.le ht.1]
      have i2 : IntervalIntegrable (fun t => φ |evalPL ((x0, y0) :: (x1, y1) :: r') t|) volume x1
          (lastX ((x1, y1) :: r')) := ihI.congr e2
      refine ⟨i1.trans i2, ?_⟩
      rw [segSumG_cons_cons, ← integral_add_adjacent_intervals i1 i2, ← integral_congr e1,
        ← integral_congr_ae (Filter.Eventually.of_forall fun t ht => e2 ht), ← ihS,
        hterm x0 y0 x1 y1 hlt]

theorem integral_phi_eq (hφ0 : φ 0 = 0) (l : List (ℝ × ℝ)) (hs : StrictAbsc l) :
    ∫ t in firstX l..lastX l, φ |evalPL l t| = ∫ t, φ |evalPL l t| := by
  have hle : firstX l ≤ lastX l := by
    cases l with
    | nil => simp [firstX, lastX]
    | cons a r => exact hs.le_lastX
  rw [integral_of_le hle, ← integral_Icc_eq_integral_Ioc]
  apply setIntegral_eq_integral_of_forall_compl_eq_zero
  intro t ht
  rw [Set.mem_Icc, not_and_or, not_le, not_le] at ht
  rcases ht with ht | ht
  · simp [evalPL_eq_zero_of_lt l t ht, hφ0]
  · simp [evalPL_eq_zero_of_gt l hs t ht, hφ0]

theorem accumulate_eq_sum_segSumG (cps : List (List (ℝ × ℝ))) :
    accumulate term cps = (cps.map (segSumG term)).sum := by
  unfold accumulate
  rw [foldl_add_eq_sum]
  induction cps with
  | nil => simp [segTerms]
  | cons l r ih =>
    simp only [segTerms, List.flatMap_cons, List.sum_append, List.map_cons, List.sum_cons] at ih ⊢
    rw [ih]
    rfl

end generic

/-- the value `_p_norm` accumulates for a real exponent `p` (what `pNormMethod` takes the root of) -/
def pNormPowReal (p : ℝ) (cps : List (List (ℝ × ℝ))) : ℝ :=
  pNormPowGen (fun x => x ^ p) (fun x => x ^ (p + 1)) (oneSubPowReal p) (p + 1) cps

theorem pNormPowReal_eq_interval (p : ℝ) (hp : 0 ≤ p) (cps : List (List (ℝ × ℝ)))
    (hs : ∀ l ∈ cps, StrictAbsc l) :
    pNormPowReal p cps = (cps.map fun l => ∫ t in firstX l..lastX l, |evalPL l t| ^ p).sum := by
  have h : pNormPowReal p cps = accumulate (segTermReal p) cps := rfl
  rw [h, accumulate_eq_sum_segSumG]
  congr 1
  apply List.map_congr_left
  intro l hl
  exact (segSumG_eq_integral (segTermReal p) (fun x => x ^ p)
    (Real.continuous_rpow_const hp) (fun x0 y0 x1 y1 hx => segTermReal_eq_integral p hp x0 y0 x1 y1 hx)
    l (hs l hl)).2

theorem pNormPowReal_eq_integral (p : ℝ) (hp : 1 ≤ p) (cps : List (List (ℝ × ℝ)))
    (hs : ∀ l ∈ cps, StrictAbsc l) :
    pNormPowReal p cps = (cps.map fun l => ∫ t, |evalPL l t| ^ p).sum := by
  rw [pNormPowReal_eq_interval p (by linarith) cps hs]
  congr 1
  apply List.map_congr_left
  intro l hl
  exact integral_phi_eq (fun x => x ^ p) (Real.zero_rpow (by linarith)) l (hs l hl)

end
end PersimVerif.PNormLemmas
