import PersimVerif.Spec.MGH
import Mathlib.Tactic.Linarith

/-! basic facts about the list primitives of `Model/MGH.lean` -/
namespace PersimVerif.MGH

theorem absDiff_eq_dist (a b : ℕ) : absDiff a b = Nat.dist a b := rfl

theorem foldl_max_le_iff (l : List ℕ) (a c : ℕ) :
    l.foldl max a ≤ c ↔ a ≤ c ∧ ∀ x ∈ l, x ≤ c := by
  induction l generalizing a with
  | nil => simp
  | cons x xs ih =>
    simp only [List.foldl_cons, ih, List.mem_cons, forall_eq_or_imp, max_le_iff]
    tauto

theorem le_foldl_max_init (l : List ℕ) (a : ℕ) : a ≤ l.foldl max a :=
  ((foldl_max_le_iff l a _).1 le_rfl).1

theorem le_foldl_max_of_mem {l : List ℕ} {x : ℕ} (a : ℕ) (h : x ∈ l) : x ≤ l.foldl max a :=
  ((foldl_max_le_iff l a _).1 le_rfl).2 x h

theorem foldl_max_eq_or_mem (l : List ℕ) (a : ℕ) : l.foldl max a = a ∨ l.foldl max a ∈ l := by
  induction l generalizing a with
  | nil => simp
  | cons x xs ih =>
    simp only [List.foldl_cons, List.mem_cons]
    rcases ih (max a x) with h | h
    · rw [h]
      rcases max_cases a x with ⟨e, _⟩ | ⟨e, _⟩
      · left; exact e
      · right; left; exact e
    · right; right; exact h

theorem argminAux_lt {α : Type} [LT α] [DecidableLT α] (xs : List α) (k : ℕ) (best : α) (bi : ℕ)
    (hbi : bi < k) : argminAux xs k best bi < k + xs.length := by
  induction xs generalizing k best bi with
  | nil => simpa [argminAux] using hbi
  | cons x xs ih =>
    simp only [argminAux, List.length_cons]
    split
    · have := ih (k + 1) x k (by omega); omega
    · have := ih (k + 1) best bi (by omega); omega

theorem argmin_lt {α : Type} [LT α] [DecidableLT α] {l : List α} (h : l ≠ []) :
    argmin l < l.length := by
  cases l with
  | nil => exact absurd rfl h
  | cons x xs =>
    simp only [argmin, List.length_cons]
    have := argminAux_lt xs 1 x 0 (by omega)
    omega

end PersimVerif.MGH
