import PersimVerif.Lemmas.SrcLibGH
import PersimVerif.Lemmas.SrcBridgeGraph
import PersimVerif.Lemmas.GraphFallback
import PersimVerif.Lemmas.GraphDispatch
/-
  Bridging lemmas between the library of the mGH entry-point translator (`Lemmas/SrcLibGH.lean`) and `Model/Graph.lean`,
  used by the generated obligations of `Generated/SrcGHEntry.lean` (C17, C05).  Hand-written, core Lean only, about model
  and library definitions only (never about a generated definition).
-/
namespace PersimVerif.SrcBridge.GHEntry
open PersimVerif.Graph PersimVerif.SrcGH PersimVerif.SrcLib

/-! ## `determine_optimal_int_type` on a float that may be `inf` -/

/-- the model's `optimalIntType` for a value that may be `inf` (`none`): no integer type holds `inf` -/
def optimalIntTypeTop : Option Nat → Except GhErr IntType
  | none => .error (.value .tooLarge)
  | some v => liftE (optimalIntType v)

/-! ## `cast_distance_matrix_to_optimal_int_type` -/

/-- the three statements of `cast_distance_matrix_to_optimal_int_type` for any `determine_optimal_int_type` -/
def castRef (det : Option Nat → Except GhErr IntType) (DX : DMat) : Except GhErr IntArr :=
  match npMaxTop DX with
  | .error e => .error e
  | .ok max_distance =>
  match det max_distance with
  | .error e => .error e
  | .ok optimal_int_type =>
  astypeInt DX optimal_int_type

theorem foldl_maxTop_none (l : List (Option Nat)) : l.foldl maxTop none = none := by
  induction l with
  | nil => rfl
  | cons x xs ih => simpa [List.foldl, maxTop] using ih

theorem foldl_maxTop_of_mem_none {l : List (Option Nat)} (h : none ∈ l) (a : Option Nat) : l.foldl maxTop a = none := by
  induction l generalizing a with
  | nil => simp at h
  | cons x xs ih =>
    rcases List.mem_cons.1 h with h | h
    · subst h
      have : maxTop a none = none := by cases a <;> rfl
      simp only [List.foldl, this, foldl_maxTop_none]
    · simp only [List.foldl]; exact ih h _

theorem foldl_maxTop_some (l : List Nat) (a : Nat) : (l.map some).foldl maxTop (some a) = some (l.foldl max a) := by
  induction l generalizing a with
  | nil => rfl
  | cons x xs ih => simp only [List.map, List.foldl, maxTop]; exact ih _

theorem finRow_eq_none_iff (r : List (Option Nat)) : finRow r = none ↔ none ∈ r := by
  induction r with
  | nil => simp [finRow]
  | cons x xs ih =>
    cases x with
    | none => simp [finRow]
    | some v =>
      simp only [finRow, Option.map_eq_none_iff, ih, List.mem_cons]
      constructor
      · intro h; exact Or.inr h
      · rintro (h | h)
        · cases h
        · exact h

theorem finRow_eq_some {r : List (Option Nat)} {a : List Nat} (h : finRow r = some a) : r = a.map some := by
  induction r generalizing a with
  | nil => simp only [finRow, Option.some.injEq] at h; subst h; rfl
  | cons x xs ih =>
    cases x with
    | none => simp [finRow] at h
    | some v =>
      simp only [finRow, Option.map_eq_some_iff] at h
      obtain ⟨b, hb, rfl⟩ := h
      rw [ih hb]; rfl

theorem finMat_eq_none_iff (D : DMat) : finMat D = none ↔ none ∈ D.flatten := by
  induction D with
  | nil => simp [finMat]
  | cons r rs ih =>
    simp only [finMat, List.flatten_cons, List.mem_append]
    cases hr : finRow r with
    | none =>
      simp only [true_iff]
      exact Or.inl ((finRow_eq_none_iff r).1 hr)
    | some a =>
      have hr' : ¬ none ∈ r := fun h => by rw [(finRow_eq_none_iff r).2 h] at hr; cases hr
      cases hrs : finMat rs with
      | none => simp only [true_iff]; exact Or.inr (ih.1 hrs)
      | some as =>
        simp only [reduceCtorEq, false_iff, not_or]
        exact ⟨hr', fun h => by rw [ih.2 h] at hrs; cases hrs⟩

theorem finMat_eq_some {D : DMat} {M : Mat} (h : finMat D = some M) : D = M.map (fun r => r.map some) := by
  induction D generalizing M with
  | nil => simp only [finMat, Option.some.injEq] at h; subst h; rfl
  | cons r rs ih =>
    simp only [finMat] at h
    cases hr : finRow r with
    | none => rw [hr] at h; simp at h
    | some a =>
      cases hrs : finMat rs with
      | none => rw [hr, hrs] at h; simp at h
      | some as =>
        rw [hr, hrs] at h
        simp only [Option.some.injEq] at h
        subst h
        rw [finRow_eq_some hr, ih hrs]; rfl

theorem flatten_map_map_some (M : Mat) : (M.map (fun r => r.map some)).flatten = M.flatten.map some := by
  induction M with
  | nil => rfl
  | cons r rs ih => simp only [List.map, List.flatten_cons, List.map_append, ih]

theorem foldl_max_zero_flatten (M : Mat) (a : Nat) : M.flatten.foldl max a = (M.map maxList).foldl max a := by
  induction M generalizing a with
  | nil => rfl
  | cons r rs ih =>
    simp only [List.flatten_cons, List.foldl_append, List.map, List.foldl]
    rw [ih]
    congr 1
    unfold maxList
    clear ih
    induction r generalizing a with
    | nil => simp
    | cons x xs ih2 =>
      simp only [List.foldl]
      rw [ih2 (max a x), ih2 (max 0 x)]
      omega

theorem maxEntry_eq_foldl (M : Mat) : maxEntry M = M.flatten.foldl max 0 := by
  rw [foldl_max_zero_flatten]; rfl

/-- **the chain `np.max` / `determine_optimal_int_type` / `astype` is the model's `cast`** (on an array with entries) -/
theorem castRef_eq (DX : DMat) (hne : DX.flatten ≠ []) (warned : Bool) :
    (castRef optimalIntTypeTop DX).map (fun r => (⟨r.1, warned, r.2⟩ : DistResult)) = liftE (Graph.cast DX warned) := by
  unfold castRef Graph.cast npMaxTop
  cases hf : finMat DX with
  | none =>
    have hmem := (finMat_eq_none_iff DX).1 hf
    cases hfl : DX.flatten with
    | nil => exact absurd hfl hne
    | cons x xs =>
      rw [hfl] at hmem
      have : xs.foldl maxTop x = none := by
        rcases List.mem_cons.1 hmem with h | h
        · rw [← h]; exact foldl_maxTop_none xs
        · exact foldl_maxTop_of_mem_none h x
      simp only [this, optimalIntTypeTop]
      rfl
  | some M =>
    have hD := finMat_eq_some hf
    have hfl : DX.flatten = M.flatten.map some := by rw [hD, flatten_map_map_some]
    cases hm : M.flatten with
    | nil => rw [hm] at hfl; exact absurd hfl hne
    | cons x xs =>
      rw [hfl, hm]
      simp only [List.map, foldl_maxTop_some, optimalIntTypeTop]
      have hmax : xs.foldl max x = maxEntry M := by
        rw [maxEntry_eq_foldl, hm]; simp only [List.foldl, Nat.zero_max]
      rw [hmax]
      cases optimalIntType (maxEntry M) with
      | error e => rfl
      | ok t => simp only [liftE, astypeInt, hf]; rfl

/-! ## `np.unique(labels, return_counts=True)` -/

section uniq
open PersimVerif.SrcNp

theorem mem_insertUniq (lt : Nat → Nat → Bool) (x y : Nat) (l : List Nat) :
    y ∈ insertUniq lt x l ↔ y = x ∨ y ∈ l := by
  induction l with
  | nil => simp [insertUniq]
  | cons z zs ih =>
    unfold insertUniq
    by_cases h1 : lt x z = true
    · simp [h1]
    · by_cases h2 : x = z
      · subst h2; simp [h1]
      · simp only [h1, h2, Bool.false_eq_true, if_false, List.mem_cons, ih]
        constructor
        · rintro (h | h | h)
          · exact Or.inr (Or.inl h)
          · exact Or.inl h
          · exact Or.inr (Or.inr h)
        · rintro (h | h | h)
          · exact Or.inr (Or.inl h)
          · exact Or.inl h
          · exact Or.inr (Or.inr h)

theorem sorted_insertUniq (x : Nat) (l : List Nat) (h : l.Pairwise (· < ·)) :
    (insertUniq (fun a b => decide (a < b)) x l).Pairwise (· < ·) := by
  induction l with
  | nil => simp [insertUniq]
  | cons z zs ih =>
    have hz := List.pairwise_cons.1 h
    unfold insertUniq
    by_cases h1 : x < z
    · simp only [h1, decide_true, if_true]
      refine List.pairwise_cons.2 ⟨?_, h⟩
      intro y hy
      rcases List.mem_cons.1 hy with rfl | hy
      · exact h1
      · exact Nat.lt_trans h1 (hz.1 y hy)
    · by_cases h2 : x = z
      · simp [h2, h]
      · simp only [h1, h2, decide_false, Bool.false_eq_true, if_false]
        refine List.pairwise_cons.2 ⟨?_, ih hz.2⟩
        intro y hy
        rcases (mem_insertUniq _ x y zs).1 hy with rfl | hy
        · omega
        · exact hz.1 y hy

theorem mem_uniqueSorted (l : List Nat) (y : Nat) : y ∈ uniqueSorted (fun a b => decide (a < b)) l ↔ y ∈ l := by
  induction l with
  | nil => simp [uniqueSorted]
  | cons x xs ih =>
    have : uniqueSorted (fun a b => decide (a < b)) (x :: xs) =
        insertUniq (fun a b => decide (a < b)) x (uniqueSorted (fun a b => decide (a < b)) xs) := rfl
    rw [this, mem_insertUniq, ih, List.mem_cons]

theorem sorted_uniqueSorted (l : List Nat) : (uniqueSorted (fun a b => decide (a < b)) l).Pairwise (· < ·) := by
  induction l with
  | nil => simp [uniqueSorted]
  | cons x xs ih => exact sorted_insertUniq x _ ih

theorem sorted_ext : ∀ (l₁ l₂ : List Nat), l₁.Pairwise (· < ·) → l₂.Pairwise (· < ·) → (∀ x, x ∈ l₁ ↔ x ∈ l₂) → l₁ = l₂
  | [], [], _, _, _ => rfl
  | [], b :: l₂, _, _, h => by have := (h b).2 (by simp); simp at this
  | a :: l₁, [], _, _, h => by have := (h a).1 (by simp); simp at this
  | a :: l₁, b :: l₂, h1, h2, h => by
    have p1 := List.pairwise_cons.1 h1
    have p2 := List.pairwise_cons.1 h2
    have hab : a = b := by
      have ha := (h a).1 (by simp)
      have hb := (h b).2 (by simp)
      rcases List.mem_cons.1 ha with ha | ha
      · exact ha
      · rcases List.mem_cons.1 hb with hb | hb
        · exact hb.symm
        · have := p1.1 b hb; have := p2.1 a ha; omega
    subst hab
    congr 1
    apply sorted_ext l₁ l₂ p1.2 p2.2
    intro x
    constructor
    · intro hx
      rcases List.mem_cons.1 ((h x).1 (List.mem_cons_of_mem _ hx)) with hxa | hx2
      · have := p1.1 x hx; omega
      · exact hx2
    · intro hx
      rcases List.mem_cons.1 ((h x).2 (List.mem_cons_of_mem _ hx)) with hxa | hx2
      · have := p2.1 x hx; omega
      · exact hx2

/-- `np.unique` of labels that are exactly `0 … c-1`: the values `range c` and the model's `sizes` -/
theorem uniqueCountsNat_of_onto (ls : List Nat) (c : Nat) (h : ∀ x, x ∈ ls ↔ x < c) :
    uniqueCountsNat ls = (List.range c, sizes ls c) := by
  have : uniqueSorted (fun a b => decide (a < b)) ls = List.range c :=
    sorted_ext _ _ (sorted_uniqueSorted ls) List.pairwise_lt_range (fun x => by rw [mem_uniqueSorted, h, List.mem_range])
  unfold uniqueCountsNat uniqueCounts sizes
  rw [this]

end uniq

/-! ## the labels of scipy are exactly `0 … c-1` -/

theorem exists_root_of_lt (D : DMat) (k l : Nat) (h : l < countRoots D k) :
    ∃ r, r < k ∧ rep D r = r ∧ countRoots D r = l := by
  induction k with
  | zero => simp [countRoots] at h
  | succ k ih =>
    rw [countRoots_succ] at h
    by_cases hl : l < countRoots D k
    · obtain ⟨r, hr, h1, h2⟩ := ih hl
      exact ⟨r, by omega, h1, h2⟩
    · by_cases hk : rep D k = k
      · rw [if_pos hk] at h
        exact ⟨k, by omega, hk, by omega⟩
      · rw [if_neg hk] at h; omega

theorem mem_labels_iff (rows : BMat) (hsym : Symm rows) (x : Nat) :
    x ∈ labels (bfsAll rows) ↔ x < numComponents (bfsAll rows) := by
  constructor
  · intro h
    simp only [labels, List.mem_map, List.mem_range, length_bfsAll] at h
    obtain ⟨v, hv, rfl⟩ := h
    exact label_lt rows hsym hv
  · intro h
    rw [numComponents_eq, length_bfsAll] at h
    obtain ⟨r, hr, h1, h2⟩ := exists_root_of_lt _ _ _ h
    simp only [labels, List.mem_map, List.mem_range, length_bfsAll]
    exact ⟨r, hr, by rw [label_eq, h1, h2]⟩

/-! ## the disconnected-graph fallback -/

/-- the five statements between `connected_components` and the cast, on what the contract says `connected_components`
    returns: the model's `restrict` -/
theorem fallback_eq (A : Mat) (hsq : isSquare A = true) :
    let D := bfsAll (adjOf A)
    getItem (uniqueCountsNat (labels D)).1 (argmaxFirst (uniqueCountsNat (labels D)).2) = .ok (largestLabel D) ∧
      sub none (maskIdx (eqMask (labels D) (largestLabel D))) D = restrict D := by
  intro D
  have hn : 0 < (adjOf A).length := by
    have := (isSquare_iff A).1 hsq
    simp only [adjOf, tab, List.length_map, List.length_range]
    omega
  have hc : 0 < numComponents D := Nat.lt_of_le_of_lt (Nat.zero_le _) (label_lt (adjOf A) (adjOf_Symm A) hn)
  have hu := uniqueCountsNat_of_onto (labels D) (numComponents D) (mem_labels_iff (adjOf A) (adjOf_Symm A))
  have hl := PersimVerif.SrcBridge.Graph.argmaxFirst_sizes_lt (labels D) hc
  refine ⟨?_, ?_⟩
  · rw [hu]
    simp only [getItem, List.getElem?_range hl]
    rfl
  · unfold eqMask
    rw [PersimVerif.SrcBridge.Graph.maskIdx_eq_members]
    rfl

theorem flatten_bfsAll_ne_nil (A : Mat) (hsq : isSquare A = true) : (bfsAll (adjOf A)).flatten ≠ [] := by
  have hn : 0 < (adjOf A).length := by
    have := (isSquare_iff A).1 hsq
    simp only [adjOf, tab, List.length_map, List.length_range]
    omega
  intro h
  have h2 := congrArg List.length h
  rw [bfsAll_eq_tab] at h2
  obtain ⟨n, hn'⟩ : ∃ n, (adjOf A).length = n + 1 := ⟨(adjOf A).length - 1, by omega⟩
  rw [hn'] at h2
  simp [tab, List.range_succ_eq_map] at h2

theorem flatten_restrict_ne_nil (A : Mat) (hsq : isSquare A = true) : (restrict (bfsAll (adjOf A))).flatten ≠ [] := by
  have hn : 0 < (adjOf A).length := by
    have := (isSquare_iff A).1 hsq
    simp only [adjOf, tab, List.length_map, List.length_range]
    omega
  have hne := largestComponent_ne_nil (adjOf A) (adjOf_Symm A) hn
  unfold restrict sub
  cases hl : largestComponent (bfsAll (adjOf A)) with
  | nil => exact absurd hl hne
  | cons v vs => simp

/-! ## `gromov_hausdorff`: the dispatch with an `estimate` that may raise -/

section gh
variable {σ β : Type}

/-- `Graph.collect` for an `estimate` that may raise (the translated `estimate` of `Generated/SrcMGH.lean` has type
    `Except`): an exception of `estimate` ends the call -/
def collectE (est : σ → Mat → Mat → Except GhErr ((β × β) × σ)) (As : List Mat) :
    List (Nat × Nat) → σ → Except GhErr (List (β × β) × σ)
  | [], s => .ok ([], s)
  | (i, j) :: ps, s =>
    match makeDist (As.getD i []) with
    | .error e => .error (.value e)
    | .ok DX =>
      match makeDist (As.getD j []) with
      | .error e => .error (.value e)
      | .ok DY =>
        match est s DX.dist DY.dist with
        | .error e => .error e
        | .ok r =>
          match collectE est As ps r.2 with
          | .error e => .error e
          | .ok (rs, s') => .ok (r.1 :: rs, s')

/-- `Graph.gromovHausdorff` for an `estimate` that may raise -/
def gromovHausdorffE (est : σ → Mat → Mat → Except GhErr ((β × β) × σ)) (zero : β) (inp : Input) (s : σ) :
    Except GhErr (Result β × σ) :=
  match inp with
  | .coll As =>
    if As.length < 2 then .error (.value .tooFewGraphs)
    else
      match collectE est As (pairsOf As.length) s with
      | .error e => .error e
      | .ok (vals, s') =>
        .ok (.mats (symmetrise As.length zero (upperVal zero (pairsOf As.length) (vals.map Prod.fst)))
                   (symmetrise As.length zero (upperVal zero (pairsOf As.length) (vals.map Prod.snd))), s')
  | .pair G H =>
    match collectE est [G, H] (pairsOf 2) s with
    | .error e => .error e
    | .ok (vals, s') =>
      .ok (.pair (upperVal zero (pairsOf 2) (vals.map Prod.fst) 0 1) (upperVal zero (pairsOf 2) (vals.map Prod.snd) 0 1), s')

/-- with an `estimate` that never raises, `collectE` is the model's `collect` -/
theorem collectE_pure (est : σ → Mat → Mat → (β × β) × σ) (As : List Mat) (ps : List (Nat × Nat)) (s : σ) :
    collectE (fun s X Y => .ok (est s X Y)) As ps s = liftE (collect est As ps s) := by
  induction ps generalizing s with
  | nil => rfl
  | cons p ps ih =>
    obtain ⟨i, j⟩ := p
    simp only [collectE, collect]
    cases makeDist (As.getD i []) with
    | error e => rfl
    | ok DX =>
      cases makeDist (As.getD j []) with
      | error e => rfl
      | ok DY =>
        simp only [ih]
        cases collect est As ps (est s DX.dist DY.dist).2 with
        | error e => rfl
        | ok r => rfl

/-- **with an `estimate` that never raises, `gromovHausdorffE` is the model's `gromovHausdorff`** -/
theorem gromovHausdorffE_pure (est : σ → Mat → Mat → (β × β) × σ) (zero : β) (inp : Input) (s : σ) :
    gromovHausdorffE (fun s X Y => .ok (est s X Y)) zero inp s = liftE (gromovHausdorff est zero inp s) := by
  cases inp with
  | coll As =>
    simp only [gromovHausdorffE, gromovHausdorff, collectE_pure]
    by_cases h : As.length < 2
    · simp only [h, if_true]; rfl
    · simp only [h, if_false]
      cases collect est As (pairsOf As.length) s with
      | error e => rfl
      | ok r => rfl
  | pair G H =>
    simp only [gromovHausdorffE, gromovHausdorff, collectE_pure]
    cases collect est [G, H] (pairsOf 2) s with
    | error e => rfl
    | ok r => rfl

/-- `collectE` reads `estimate` only on matrices that `makeDist` returns -/
theorem collectE_congr (est₁ est₂ : σ → Mat → Mat → Except GhErr ((β × β) × σ)) (As : List Mat)
    (h : ∀ (s : σ) (A B : Mat) (rX rY : DistResult), makeDist A = .ok rX → makeDist B = .ok rY →
      est₁ s rX.dist rY.dist = est₂ s rX.dist rY.dist) (ps : List (Nat × Nat)) (s : σ) :
    collectE est₁ As ps s = collectE est₂ As ps s := by
  induction ps generalizing s with
  | nil => rfl
  | cons p ps ih =>
    obtain ⟨i, j⟩ := p
    simp only [collectE]
    cases h1 : makeDist (As.getD i []) with
    | error e => rfl
    | ok DX =>
      cases h2 : makeDist (As.getD j []) with
      | error e => rfl
      | ok DY =>
        simp only [h s _ _ DX DY h1 h2, ih]

theorem gromovHausdorffE_congr (est₁ est₂ : σ → Mat → Mat → Except GhErr ((β × β) × σ))
    (h : ∀ (s : σ) (A B : Mat) (rX rY : DistResult), makeDist A = .ok rX → makeDist B = .ok rY →
      est₁ s rX.dist rY.dist = est₂ s rX.dist rY.dist) (zero : β) (inp : Input) (s : σ) :
    gromovHausdorffE est₁ zero inp s = gromovHausdorffE est₂ zero inp s := by
  cases inp with
  | coll As => simp only [gromovHausdorffE, collectE_congr est₁ est₂ As h]
  | pair G H => simp only [gromovHausdorffE, collectE_congr est₁ est₂ [G, H] h]

theorem collectE_append (est : σ → Mat → Mat → Except GhErr ((β × β) × σ)) (As : List Mat) (ps qs : List (Nat × Nat)) (s : σ) :
    collectE est As (ps ++ qs) s =
      match collectE est As ps s with
      | .error e => .error e
      | .ok (v1, s1) =>
        match collectE est As qs s1 with
        | .error e => .error e
        | .ok (v2, s2) => .ok (v1 ++ v2, s2) := by
  induction ps generalizing s with
  | nil =>
    simp only [List.nil_append, collectE]
    cases collectE est As qs s with
    | error e => rfl
    | ok r => rfl
  | cons p ps ih =>
    obtain ⟨i, j⟩ := p
    simp only [List.cons_append, collectE]
    cases makeDist (As.getD i []) with
    | error e => rfl
    | ok DX =>
      cases makeDist (As.getD j []) with
      | error e => rfl
      | ok DY =>
        simp only
        cases est s DX.dist DY.dist with
        | error e => rfl
        | ok r =>
          simp only [ih]
          cases collectE est As ps r.2 with
          | error e => rfl
          | ok r1 =>
            obtain ⟨v1, s1⟩ := r1
            simp only
            cases collectE est As qs s1 with
            | error e => rfl
            | ok r2 => rfl

theorem collectE_length (est : σ → Mat → Mat → Except GhErr ((β × β) × σ)) (As : List Mat) {ps : List (Nat × Nat)} {s s' : σ}
    {vals : List (β × β)} (h : collectE est As ps s = .ok (vals, s')) : vals.length = ps.length := by
  induction ps generalizing s s' vals with
  | nil => simp only [collectE, Except.ok.injEq, Prod.mk.injEq] at h; rw [← h.1]; rfl
  | cons p ps ih =>
    obtain ⟨i, j⟩ := p
    simp only [collectE] at h
    cases h1 : makeDist (As.getD i []) with
    | error e => rw [h1] at h; simp at h
    | ok DX =>
      cases h2 : makeDist (As.getD j []) with
      | error e => rw [h1, h2] at h; simp at h
      | ok DY =>
        rw [h1, h2] at h
        simp only at h
        cases h3 : est s DX.dist DY.dist with
        | error e => rw [h3] at h; simp at h
        | ok r =>
          rw [h3] at h
          simp only at h
          cases h4 : collectE est As ps r.2 with
          | error e => rw [h4] at h; simp at h
          | ok r2 =>
            obtain ⟨rs, s2⟩ := r2
            rw [h4] at h
            simp only [Except.ok.injEq, Prod.mk.injEq] at h
            rw [← h.1, List.length_cons, List.length_cons, ih h4]

end gh

/-! ## filling a matrix entry by entry -/

section fill
variable {β : Type}

/-- `M[i, j] = v`, total -/
def set2 (M : List (List β)) (i j : Nat) (v : β) : List (List β) := M.set i ((M.getD i []).set j v)

/-- an `N × N` array -/
def Dim (M : List (List β)) (N : Nat) : Prop := M.length = N ∧ ∀ r ∈ M, r.length = N

/-- the assignments `M[p_k] = v_k` in order of `k` -/
def fillPairs (M : List (List β)) : List (Nat × Nat) → List β → List (List β)
  | p :: ps, v :: vs => fillPairs (set2 M p.1 p.2 v) ps vs
  | _, _ => M

def InRange (ps : List (Nat × Nat)) (N : Nat) : Prop := ∀ p ∈ ps, p.1 < N ∧ p.2 < N

theorem dim_zeros2 (N : Nat) (z : β) : Dim (zeros2 N N z) N := by
  refine ⟨by simp [zeros2], ?_⟩
  intro r hr
  simp only [zeros2, List.mem_replicate] at hr
  rw [hr.2]; simp

theorem ent_zeros2 (z : β) (N a b : Nat) : ent z (zeros2 N N z) a b = z := by
  unfold ent zeros2
  simp only [List.getD_eq_getElem?_getD, List.getElem?_replicate]
  by_cases ha : a < N
  · simp only [ha, if_true, Option.getD_some, List.getElem?_replicate]
    by_cases hb : b < N <;> simp [hb]
  · simp [ha]

theorem row_length_of_dim {M : List (List β)} {N i : Nat} (hM : Dim M N) (hi : i < N) : (M.getD i []).length = N := by
  obtain ⟨hl, hr⟩ := hM
  have hil : i < M.length := by omega
  rw [List.getD_eq_getElem?_getD, List.getElem?_eq_getElem hil]
  exact hr _ (List.getElem_mem hil)

theorem setItem2_eq {M : List (List β)} {N i j : Nat} (hM : Dim M N) (hi : i < N) (hj : j < N) (v : β) :
    setItem2 M i j v = .ok (set2 M i j v) := by
  have hrow := row_length_of_dim hM hi
  have hil : i < M.length := by rw [hM.1]; exact hi
  unfold setItem2 set2
  rw [List.getD_eq_getElem?_getD] at hrow ⊢
  rw [List.getElem?_eq_getElem hil] at hrow ⊢
  simp only [Option.getD_some] at hrow ⊢
  rw [if_pos (by omega)]

theorem dim_set2 {M : List (List β)} {N : Nat} (hM : Dim M N) (i j : Nat) (v : β) : Dim (set2 M i j v) N := by
  obtain ⟨hl, hr⟩ := hM
  refine ⟨by simp [set2, hl], ?_⟩
  intro r hmem
  unfold set2 at hmem
  by_cases hi : i < M.length
  · rcases List.mem_or_eq_of_mem_set hmem with h | h
    · exact hr r h
    · rw [h, List.length_set, List.getD_eq_getElem?_getD, List.getElem?_eq_getElem hi]
      exact hr _ (List.getElem_mem hi)
  · rw [List.set_eq_of_length_le (Nat.le_of_not_lt hi)] at hmem
    exact hr r hmem

theorem ent_set2 (z : β) {M : List (List β)} {N i j : Nat} (hM : Dim M N) (hi : i < N) (hj : j < N) (v : β) (a b : Nat) :
    ent z (set2 M i j v) a b = if a = i ∧ b = j then v else ent z M a b := by
  have hrow := row_length_of_dim hM hi
  have hil : i < M.length := by rw [hM.1]; exact hi
  unfold set2 ent
  simp only [List.getD_eq_getElem?_getD, List.getElem?_set]
  by_cases ha : i = a
  · subst ha
    simp only [hil, if_true, Option.getD_some, List.getElem?_set, true_and]
    rw [List.getD_eq_getElem?_getD] at hrow
    by_cases hb : j = b
    · subst hb
      simp only [hrow, hj, if_true, Option.getD_some]
    · simp only [hb, if_false, Ne.symm hb]
  · simp only [ha, if_false, Ne.symm ha, false_and]

theorem dim_fillPairs {M : List (List β)} {N : Nat} (hM : Dim M N) (ps : List (Nat × Nat)) (vs : List β) :
    Dim (fillPairs M ps vs) N := by
  induction ps generalizing M vs with
  | nil => cases vs <;> exact hM
  | cons p ps ih =>
    cases vs with
    | nil => exact hM
    | cons v vs => exact ih (dim_set2 hM _ _ _) vs

theorem ent_fillPairs (z : β) {M : List (List β)} {N : Nat} (hM : Dim M N) {ps : List (Nat × Nat)} (hps : InRange ps N)
    (hnd : ps.Nodup) {vs : List β} (hlen : vs.length = ps.length) (a b : Nat) :
    ent z (fillPairs M ps vs) a b = if (a, b) ∈ ps then vs.getD (ps.idxOf (a, b)) z else ent z M a b := by
  induction ps generalizing M vs with
  | nil => cases vs <;> simp [fillPairs]
  | cons p ps ih =>
    cases vs with
    | nil => simp at hlen
    | cons v vs =>
      have hp := hps p (List.mem_cons_self ..)
      have hnd' := List.nodup_cons.1 hnd
      simp only [fillPairs]
      rw [ih (dim_set2 hM _ _ _) (fun q hq => hps q (List.mem_cons_of_mem _ hq)) hnd'.2 (by simpa using hlen)]
      rw [ent_set2 z hM hp.1 hp.2]
      by_cases hab : (a, b) = p
      · subst hab
        simp [hnd'.1]
      · have hab' : ¬ (a = p.1 ∧ b = p.2) := fun h => hab (by cases p; simp_all)
        have hne : (p == (a, b)) = false := by simp [Ne.symm hab]
        simp only [List.mem_cons, hab, false_or, hab', if_false, List.idxOf_cons, hne, cond_false]
        by_cases hm : (a, b) ∈ ps
        · simp [hm]
        · simp [hm]

theorem fillPairs_append (M : List (List β)) (ps qs : List (Nat × Nat)) (v1 v2 : List β) (h : v1.length = ps.length) :
    fillPairs M (ps ++ qs) (v1 ++ v2) = fillPairs (fillPairs M ps v1) qs v2 := by
  induction ps generalizing M v1 with
  | nil =>
    cases v1 with
    | nil => cases qs <;> cases v2 <;> rfl
    | cons _ _ => simp at h
  | cons p ps ih =>
    cases v1 with
    | nil => simp at h
    | cons v v1 => simp only [List.cons_append, fillPairs]; exact ih _ _ (by simpa using h)

theorem scatterIdx_eq {M : List (List β)} {N : Nat} (hM : Dim M N) {ps : List (Nat × Nat)} (hps : InRange ps N)
    {vs : List β} (hlen : vs.length = ps.length) : scatterIdx M ps vs = .ok (fillPairs M ps vs) := by
  induction ps generalizing M vs with
  | nil =>
    cases vs with
    | nil => rfl
    | cons _ _ => simp at hlen
  | cons p ps ih =>
    cases vs with
    | nil => simp at hlen
    | cons v vs =>
      have hp := hps p (List.mem_cons_self ..)
      simp only [scatterIdx, fillPairs, setItem2_eq hM hp.1 hp.2]
      exact ih (dim_set2 hM _ _ _) (fun q hq => hps q (List.mem_cons_of_mem _ hq)) (by simpa using hlen)

theorem getItem2_eq (z : β) {M : List (List β)} {N i j : Nat} (hM : Dim M N) (hi : i < N) (hj : j < N) :
    getItem2 M i j = .ok (ent z M i j) := by
  have hrow := row_length_of_dim hM hi
  have hil : i < M.length := by rw [hM.1]; exact hi
  rw [List.getD_eq_getElem?_getD, List.getElem?_eq_getElem hil] at hrow
  simp only [Option.getD_some] at hrow
  have hjl : j < M[i].length := by omega
  simp only [getItem2, ent, List.getD_eq_getElem?_getD, List.getElem?_eq_getElem hil, Option.getD_some,
    List.getElem?_eq_getElem hjl]

theorem gatherT_eq (z : β) {M : List (List β)} {N : Nat} (hM : Dim M N) {ps : List (Nat × Nat)} (hps : InRange ps N) :
    gatherT M ps = .ok (ps.map fun p => ent z M p.2 p.1) := by
  induction ps with
  | nil => rfl
  | cons p ps ih =>
    have hp := hps p (List.mem_cons_self ..)
    simp only [gatherT, getItem2_eq z hM hp.2 hp.1, ih (fun q hq => hps q (List.mem_cons_of_mem _ hq)), List.map]

end fill

/-! ## the reviewed text of `gromov_hausdorff` (the generated definitions are proved equal to it, `src_…_eq_ref`) -/

section ref
variable {σ β : Type}

/-- the inner loop `for j in range(i + 1, N)`: `mk` is `make_distance_matrix_from_adjacency_matrix` -/
def loop2Ref (mk : Container → Except GhErr DistResult) (estimate : σ → Mat → Mat → Except GhErr ((β × β) × σ))
    (As : List Container) (i : Nat) :
    List Nat → List (List β) → List (List β) → σ → Except GhErr (List (List β) × List (List β) × σ)
  | [], lbs, ubs, s => .ok (lbs, ubs, s)
  | j :: js, lbs, ubs, s =>
    match getItem As i with
    | .error e => .error e
    | .ok a =>
    match mk a with
    | .error e => .error e
    | .ok DX =>
    match getItem As j with
    | .error e => .error e
    | .ok b =>
    match mk b with
    | .error e => .error e
    | .ok DY =>
    match estimate s DX.dist DY.dist with
    | .error e => .error e
    | .ok t =>
    match setItem2 lbs i j t.1.1 with
    | .error e => .error e
    | .ok lbs_1 =>
    match setItem2 ubs i j t.1.2 with
    | .error e => .error e
    | .ok ubs_1 =>
    loop2Ref mk estimate As i js lbs_1 ubs_1 t.2

/-- the outer loop `for i in range(N)` -/
def loopRef (mk : Container → Except GhErr DistResult) (estimate : σ → Mat → Mat → Except GhErr ((β × β) × σ))
    (As : List Container) (N : Nat) :
    List Nat → List (List β) → List (List β) → σ → Except GhErr (List (List β) × List (List β) × σ)
  | [], lbs, ubs, s => .ok (lbs, ubs, s)
  | i :: is, lbs, ubs, s =>
    match loop2Ref mk estimate As i (pyRange (i + 1) N) lbs ubs s with
    | .error e => .error e
    | .ok t => loopRef mk estimate As N is t.1 t.2.1 t.2.2

/-- `gromov_hausdorff`, once per call form -/
def ghRef (mk : Container → Except GhErr DistResult) (estimate : σ → Mat → Mat → Except GhErr ((β × β) × σ)) (zero : β)
    (args : GHArgs) (s : σ) : Except GhErr (Result β × σ) :=
  match args with
  | .coll AG =>
    if AG.length < 2 then .error (.value .tooFewGraphs)
    else
    match loopRef mk estimate AG AG.length (List.range AG.length) (zeros2 AG.length AG.length zero)
        (zeros2 AG.length AG.length zero) s with
    | .error e => .error e
    | .ok t =>
    match gatherT t.1 (trilIndices AG.length) with
    | .error e => .error e
    | .ok v =>
    match scatterIdx t.1 (trilIndices AG.length) v with
    | .error e => .error e
    | .ok lbs_2 =>
    match gatherT t.2.1 (trilIndices AG.length) with
    | .error e => .error e
    | .ok v_1 =>
    match scatterIdx t.2.1 (trilIndices AG.length) v_1 with
    | .error e => .error e
    | .ok ubs_2 =>
    .ok (.mats lbs_2 ubs_2, t.2.2)
  | .pair AG AH =>
    match loopRef mk estimate [AG, AH] [AG, AH].length (List.range [AG, AH].length)
        (zeros2 [AG, AH].length [AG, AH].length zero) (zeros2 [AG, AH].length [AG, AH].length zero) s with
    | .error e => .error e
    | .ok t =>
    match getItem2 t.1 0 1 with
    | .error e => .error e
    | .ok a =>
    match getItem2 t.2.1 0 1 with
    | .error e => .error e
    | .ok b =>
    .ok (.pair a b, t.2.2)

variable (mk : Container → Except GhErr DistResult) (hmk : ∀ c, c ≠ Container.other → mk c = liftE (makeDist c.mat))
  (est : σ → Mat → Mat → Except GhErr ((β × β) × σ))

theorem getItem_eq {α : Type} (l : List α) {k : Nat} (h : k < l.length) : getItem l k = .ok l[k] := by
  simp [getItem, List.getElem?_eq_getElem h]

include hmk in
theorem loop2Ref_eq (As : List Container) (hAs : ∀ c ∈ As, c ≠ Container.other) (i : Nat) (hi : i < As.length)
    (js : List Nat) (hjs : ∀ j ∈ js, j < As.length) (lbs ubs : List (List β)) (hl : Dim lbs As.length)
    (hu : Dim ubs As.length) (s : σ) :
    loop2Ref mk est As i js lbs ubs s =
      match collectE est (As.map Container.mat) (js.map fun j => (i, j)) s with
      | .error e => .error e
      | .ok (vals, s') =>
        .ok (fillPairs lbs (js.map fun j => (i, j)) (vals.map Prod.fst),
             fillPairs ubs (js.map fun j => (i, j)) (vals.map Prod.snd), s') := by
  induction js generalizing lbs ubs s with
  | nil => rfl
  | cons j js ih =>
    have hj := hjs j (List.mem_cons_self ..)
    have hgi : (As.map Container.mat).getD i [] = As[i].mat := by simp [hi]
    have hgj : (As.map Container.mat).getD j [] = As[j].mat := by simp [hj]
    simp only [loop2Ref, List.map, collectE, getItem_eq As hi, getItem_eq As hj, hgi, hgj,
      hmk _ (hAs _ (List.getElem_mem hi)), hmk _ (hAs _ (List.getElem_mem hj))]
    cases makeDist As[i].mat with
    | error e => rfl
    | ok DX =>
      cases makeDist As[j].mat with
      | error e => rfl
      | ok DY =>
        simp only [liftE]
        cases est s DX.dist DY.dist with
        | error e => rfl
        | ok r =>
          simp only [setItem2_eq hl hi hj, setItem2_eq hu hi hj]
          rw [ih (fun j' hj' => hjs j' (List.mem_cons_of_mem _ hj')) _ _ (dim_set2 hl _ _ _) (dim_set2 hu _ _ _)]
          cases collectE est (As.map Container.mat) (js.map fun j => (i, j)) r.2 with
          | error e => rfl
          | ok r2 => rfl

include hmk in
theorem loopRef_eq (As : List Container) (hAs : ∀ c ∈ As, c ≠ Container.other) (is : List Nat)
    (his : ∀ i ∈ is, i < As.length) (lbs ubs : List (List β)) (hl : Dim lbs As.length) (hu : Dim ubs As.length) (s : σ) :
    loopRef mk est As As.length is lbs ubs s =
      match collectE est (As.map Container.mat)
          (is.flatMap fun i => (List.range' (i + 1) (As.length - (i + 1))).map fun j => (i, j)) s with
      | .error e => .error e
      | .ok (vals, s') =>
        .ok (fillPairs lbs (is.flatMap fun i => (List.range' (i + 1) (As.length - (i + 1))).map fun j => (i, j))
               (vals.map Prod.fst),
             fillPairs ubs (is.flatMap fun i => (List.range' (i + 1) (As.length - (i + 1))).map fun j => (i, j))
               (vals.map Prod.snd), s') := by
  induction is generalizing lbs ubs s with
  | nil => rfl
  | cons i is ih =>
    have hi := his i (List.mem_cons_self ..)
    have hjs : ∀ j ∈ pyRange (i + 1) As.length, j < As.length := by
      intro j hj
      simp only [pyRange, List.mem_range'_1] at hj
      omega
    simp only [loopRef, List.flatMap_cons, collectE_append]
    rw [loop2Ref_eq mk hmk est As hAs i hi _ hjs lbs ubs hl hu s]
    simp only [pyRange]
    cases h1 : collectE est (As.map Container.mat) ((List.range' (i + 1) (As.length - (i + 1))).map fun j => (i, j)) s with
    | error e => rfl
    | ok r1 =>
      obtain ⟨v1, s1⟩ := r1
      simp only
      rw [ih (fun i' hi' => his i' (List.mem_cons_of_mem _ hi')) _ _ (dim_fillPairs hl _ _) (dim_fillPairs hu _ _)]
      cases collectE est (As.map Container.mat)
          (is.flatMap fun i => (List.range' (i + 1) (As.length - (i + 1))).map fun j => (i, j)) s1 with
      | error e => rfl
      | ok r2 =>
        obtain ⟨v2, s2⟩ := r2
        have hlen := collectE_length est _ h1
        simp only [List.map_append]
        rw [fillPairs_append _ _ _ _ _ (by simpa using hlen), fillPairs_append _ _ _ _ _ (by simpa using hlen)]

end ref

/-! ## the symmetrisation `lbs[tril] = lbs.T[tril]` -/

section symm
variable {σ β : Type}

theorem mem_trilIndices (N a b : Nat) : (a, b) ∈ trilIndices N ↔ b < a ∧ a < N := by
  simp only [trilIndices, List.mem_flatMap, List.mem_range, List.mem_map, Prod.mk.injEq]
  constructor
  · rintro ⟨r, hr, c, hc, rfl, rfl⟩; exact ⟨hc, hr⟩
  · rintro ⟨h1, h2⟩; exact ⟨a, h2, b, h1, rfl, rfl⟩

theorem inRange_trilIndices (N : Nat) : InRange (trilIndices N) N := by
  rintro ⟨a, b⟩ h
  have := (mem_trilIndices N a b).1 h
  exact ⟨this.2, by omega⟩

theorem inRange_pairsOf (N : Nat) : InRange (pairsOf N) N := by
  rintro ⟨a, b⟩ h
  have := (mem_pairsOf N a b).1 h
  exact ⟨by omega, this.2⟩

theorem nodup_trilIndices (N : Nat) : (trilIndices N).Nodup := by
  unfold trilIndices List.Nodup
  rw [List.pairwise_flatMap]
  refine ⟨?_, ?_⟩
  · intro r _
    rw [List.pairwise_map]
    exact List.Pairwise.imp (fun h => by simpa using h) (List.nodup_range (n := r))
  · refine List.Pairwise.imp ?_ (List.nodup_range (n := N))
    intro r r' hne x hx y hy
    simp only [List.mem_map] at hx hy
    obtain ⟨c, _, rfl⟩ := hx
    obtain ⟨c', _, rfl⟩ := hy
    intro h
    exact hne (by simpa using congrArg Prod.fst h)

theorem nodup_pairsOf (N : Nat) : (pairsOf N).Nodup := by
  unfold pairsOf List.Nodup
  rw [List.pairwise_flatMap]
  refine ⟨?_, ?_⟩
  · intro r _
    rw [List.pairwise_map]
    exact List.Pairwise.imp (fun h => by simpa using h) (List.nodup_range' (s := r + 1) (n := N - (r + 1)))
  · refine List.Pairwise.imp ?_ (List.nodup_range (n := N))
    intro r r' hne x hx y hy
    simp only [List.mem_map] at hx hy
    obtain ⟨c, _, rfl⟩ := hx
    obtain ⟨c', _, rfl⟩ := hy
    intro h
    exact hne (by simpa using congrArg Prod.fst h)

theorem getD_map_idxOf {α γ : Type} [BEq α] [LawfulBEq α] (f : α → γ) (z : γ) (l : List α) {x : α} (h : x ∈ l) :
    (l.map f).getD (l.idxOf x) z = f x := by
  have hk : l.idxOf x < l.length := List.idxOf_lt_length_of_mem h
  rw [List.getD_eq_getElem?_getD, List.getElem?_map, List.getElem?_eq_getElem hk]
  simp [List.getElem_idxOf hk]

/-- the upper triangle filled pair by pair, then mirrored below the diagonal: the model's `symmetrise` -/
theorem fill_symmetrise (z : β) (N : Nat) (vs : List β) (hlen : vs.length = (pairsOf N).length) :
    fillPairs (fillPairs (zeros2 N N z) (pairsOf N) vs) (trilIndices N)
        ((trilIndices N).map fun p => ent z (fillPairs (zeros2 N N z) (pairsOf N) vs) p.2 p.1) =
      symmetrise N z (upperVal z (pairsOf N) vs) := by
  have hM1 : Dim (fillPairs (zeros2 N N z) (pairsOf N) vs) N := dim_fillPairs (dim_zeros2 N z) _ _
  have e1 : ∀ a b, ent z (fillPairs (zeros2 N N z) (pairsOf N) vs) a b =
      if (a, b) ∈ pairsOf N then upperVal z (pairsOf N) vs a b else z := by
    intro a b
    rw [ent_fillPairs z (dim_zeros2 N z) (inRange_pairsOf N) (nodup_pairsOf N) hlen, ent_zeros2]
    rfl
  have hM2 := dim_fillPairs hM1 (trilIndices N)
    ((trilIndices N).map fun p => ent z (fillPairs (zeros2 N N z) (pairsOf N) vs) p.2 p.1)
  refine mat_ext z _ _ hM2.1 (length_symmetrise N z _) hM2.2 (row_length_symmetrise N z _) ?_
  intro a b ha hb
  rw [ent_fillPairs z hM1 (inRange_trilIndices N) (nodup_trilIndices N) (by simp), ent_symmetrise N z _ ha hb]
  by_cases h1 : (a, b) ∈ trilIndices N
  · have h1' := (mem_trilIndices N a b).1 h1
    rw [if_pos h1, getD_map_idxOf _ z _ h1, e1, if_pos ((mem_pairsOf N b a).2 ⟨h1'.1, h1'.2⟩),
      if_neg (by omega), if_pos h1'.1]
  · rw [if_neg h1, e1]
    have h1' : ¬ (b < a ∧ a < N) := fun h => h1 ((mem_trilIndices N a b).2 h)
    by_cases h2 : a < b
    · rw [if_pos ((mem_pairsOf N a b).2 ⟨h2, hb⟩), if_pos h2]
    · rw [if_neg (fun h => h2 ((mem_pairsOf N a b).1 h).1), if_neg h2, if_neg (by omega)]

variable (mk : Container → Except GhErr DistResult) (hmk : ∀ c, c ≠ Container.other → mk c = liftE (makeDist c.mat))
  (est : σ → Mat → Mat → Except GhErr ((β × β) × σ))

include hmk in
/-- **the reviewed text of `gromov_hausdorff` is the model's dispatch** (with an `estimate` that may raise), for both call
    forms, every collection size, every `estimate` and every generator state -/
theorem ghRef_eq_model (zero : β) (args : GHArgs) (hk : args.Known) (s : σ) :
    ghRef mk est zero args s = gromovHausdorffE est zero args.input s := by
  cases args with
  | coll AG =>
    simp only [ghRef, gromovHausdorffE, GHArgs.input, List.length_map]
    by_cases h2 : AG.length < 2
    · simp only [h2, if_true]
    · simp only [h2, if_false]
      rw [loopRef_eq mk hmk est AG hk (List.range AG.length) (fun i hi => List.mem_range.1 hi) _ _
        (dim_zeros2 _ zero) (dim_zeros2 _ zero) s]
      have hps : ((List.range AG.length).flatMap fun i =>
          (List.range' (i + 1) (AG.length - (i + 1))).map fun j => (i, j)) = pairsOf AG.length := rfl
      rw [hps]
      cases hc : collectE est (AG.map Container.mat) (pairsOf AG.length) s with
      | error e => rfl
      | ok r =>
        obtain ⟨vals, s'⟩ := r
        have hlen := collectE_length est _ hc
        have d1 : Dim (fillPairs (zeros2 AG.length AG.length zero) (pairsOf AG.length) (vals.map Prod.fst)) AG.length :=
          dim_fillPairs (dim_zeros2 _ zero) _ _
        have d2 : Dim (fillPairs (zeros2 AG.length AG.length zero) (pairsOf AG.length) (vals.map Prod.snd)) AG.length :=
          dim_fillPairs (dim_zeros2 _ zero) _ _
        simp only [gatherT_eq zero d1 (inRange_trilIndices _), gatherT_eq zero d2 (inRange_trilIndices _),
          scatterIdx_eq d1 (inRange_trilIndices _) (List.length_map _),
          scatterIdx_eq d2 (inRange_trilIndices _) (List.length_map _)]
        rw [fill_symmetrise zero AG.length (vals.map Prod.fst) (by simpa using hlen),
          fill_symmetrise zero AG.length (vals.map Prod.snd) (by simpa using hlen)]
  | pair AG AH =>
    simp only [ghRef, gromovHausdorffE, GHArgs.input]
    have hk' : ∀ c ∈ [AG, AH], c ≠ Container.other := by
      intro c hc
      rcases List.mem_cons.1 hc with rfl | hc
      · exact hk.1
      · rcases List.mem_cons.1 hc with rfl | hc
        · exact hk.2
        · simp at hc
    rw [loopRef_eq mk hmk est [AG, AH] hk' (List.range [AG, AH].length) (fun i hi => List.mem_range.1 hi) _ _
      (dim_zeros2 _ zero) (dim_zeros2 _ zero) s]
    have hps : ((List.range [AG, AH].length).flatMap fun i =>
        (List.range' (i + 1) ([AG, AH].length - (i + 1))).map fun j => (i, j)) = pairsOf 2 := rfl
    rw [hps]
    have hm : [AG, AH].map Container.mat = [AG.mat, AH.mat] := rfl
    rw [hm]
    have hlen2 : [AG, AH].length = 2 := rfl
    simp only [hlen2]
    cases hc : collectE est [AG.mat, AH.mat] (pairsOf 2) s with
    | error e => rfl
    | ok r =>
      obtain ⟨vals, s'⟩ := r
      have hlen := collectE_length est _ hc
      have d1 : Dim (fillPairs (zeros2 2 2 zero) (pairsOf 2) (vals.map Prod.fst)) 2 := dim_fillPairs (dim_zeros2 _ zero) _ _
      have d2 : Dim (fillPairs (zeros2 2 2 zero) (pairsOf 2) (vals.map Prod.snd)) 2 := dim_fillPairs (dim_zeros2 _ zero) _ _
      have hmem : (0, 1) ∈ pairsOf 2 := by decide
      have e1 := ent_fillPairs zero (dim_zeros2 2 zero) (inRange_pairsOf 2) (nodup_pairsOf 2)
        (vs := vals.map Prod.fst) (by simpa using hlen) 0 1
      have e2 := ent_fillPairs zero (dim_zeros2 2 zero) (inRange_pairsOf 2) (nodup_pairsOf 2)
        (vs := vals.map Prod.snd) (by simpa using hlen) 0 1
      rw [if_pos hmem] at e1 e2
      simp only [getItem2_eq zero d1 (show 0 < 2 by omega) (show 1 < 2 by omega),
        getItem2_eq zero d2 (show 0 < 2 by omega) (show 1 < 2 by omega), e1, e2]
      rfl

end symm

/-! ## an implementation of the csgraph contract (non-vacuity; used by the examples of the generated file) -/

/-- the model's own BFS as the `shortest_path` parameter -/
def spModel (c : Container) : Except GhErr DMat :=
  if c.accepted then (if isSquare c.mat then .ok (bfsAll (adjOf c.mat)) else .error (.value .notSquare))
  else .error .attribute

/-- the model's own labelling as the `connected_components` parameter -/
def ccModel (c : Container) : Except GhErr (Nat × List Nat) :=
  if c.accepted then .ok (numComponents (bfsAll (adjOf c.mat)), labels (bfsAll (adjOf c.mat))) else .error .attribute

theorem csgraphContract_model : CsgraphContract spModel ccModel :=
  ⟨fun c h => by simp only [spModel, h, if_true], fun c h _ => by simp only [ccModel, h, if_true]⟩

end PersimVerif.SrcBridge.GHEntry
