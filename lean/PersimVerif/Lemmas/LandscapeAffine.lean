import PersimVerif.Model.Landscape
import Mathlib.Algebra.Order.Field.Basic
import Mathlib.Tactic.Linarith
import Mathlib.Tactic.FieldSimp
import Mathlib.Tactic.Ring

/-!
# Helper lemmas for C03, part 1: affine pieces (L1, L2, L3 of DESIGN.md Appendix A.1)

`AffineOn f l r`: on `[l,r]` the function is the linear interpolant of its two end values
(written without division).  Tents are affine on a cell without `b, (b+d)/2, d` inside (L1);
`evalPL` of a well-formed list is affine on a cell without critical abscissa inside (L2); two
affine functions that are ordered / `eps`-close at both ends are so throughout (L3).
-/
set_option linter.unusedSectionVars false

namespace PersimVerif.LandscapeLemmas
open PersimVerif.PL PersimVerif.Landscape

variable {K : Type} [Field K] [LinearOrder K] [IsStrictOrderedRing K]

/-- `f` is the linear interpolant of `f l`, `f r` on `[l,r]` -/
def AffineOn (f : K → K) (l r : K) : Prop :=
  ∀ t, l ≤ t → t ≤ r → f t * (r - l) = f l * (r - t) + f r * (t - l)

theorem affineOn_zero (l r : K) : AffineOn (fun _ => (0 : K)) l r := by
  intro t _ _; simp

theorem affineOn_congr {f g : K → K} {l r : K} (hlr : l ≤ r) (h : ∀ t, l ≤ t → t ≤ r → f t = g t)
    (hg : AffineOn g l r) : AffineOn f l r := by
  intro t h1 h2
  rw [h t h1 h2, h l le_rfl hlr, h r hlr le_rfl]
  exact hg t h1 h2

/-- **L3** (order): affine functions ordered at both ends of a cell are ordered throughout -/
theorem affine_le {f g : K → K} {l r t : K} (hf : AffineOn f l r) (hg : AffineOn g l r) (hlr : l < r)
    (h1 : l ≤ t) (h2 : t ≤ r) (hl : g l ≤ f l) (hr : g r ≤ f r) : g t ≤ f t := by
  have e1 := hf t h1 h2
  have e2 := hg t h1 h2
  have hpos : 0 < r - l := sub_pos.mpr hlr
  have a1 : 0 ≤ r - t := sub_nonneg.mpr h2
  have a2 : 0 ≤ t - l := sub_nonneg.mpr h1
  have : g t * (r - l) ≤ f t * (r - l) := by
    rw [e1, e2]
    have := mul_le_mul_of_nonneg_right hl a1
    have := mul_le_mul_of_nonneg_right hr a2
    linarith
  exact le_of_mul_le_mul_right this hpos

/-- **L3** (distance): affine functions `eps`-close at both ends of a cell are `eps`-close throughout -/
theorem affine_close {f g : K → K} {l r t eps : K} (hf : AffineOn f l r) (hg : AffineOn g l r)
    (hlr : l < r) (h1 : l ≤ t) (h2 : t ≤ r)
    (hl : f l - g l ≤ eps) (hl' : g l - f l ≤ eps) (hr : f r - g r ≤ eps) (hr' : g r - f r ≤ eps) :
    f t - g t ≤ eps ∧ g t - f t ≤ eps := by
  have e1 := hf t h1 h2
  have e2 := hg t h1 h2
  have hpos : 0 < r - l := sub_pos.mpr hlr
  have a1 : 0 ≤ r - t := sub_nonneg.mpr h2
  have a2 : 0 ≤ t - l := sub_nonneg.mpr h1
  constructor
  · have : (f t - g t) * (r - l) ≤ eps * (r - l) := by
      have := mul_le_mul_of_nonneg_right hl a1
      have := mul_le_mul_of_nonneg_right hr a2
      have e : (f t - g t) * (r - l) = (f l - g l) * (r - t) + (f r - g r) * (t - l) := by
        rw [sub_mul, e1, e2]; ring
      rw [e]; linarith
    exact le_of_mul_le_mul_right this hpos
  · have : (g t - f t) * (r - l) ≤ eps * (r - l) := by
      have := mul_le_mul_of_nonneg_right hl' a1
      have := mul_le_mul_of_nonneg_right hr' a2
      have e : (g t - f t) * (r - l) = (g l - f l) * (r - t) + (g r - f r) * (t - l) := by
        rw [sub_mul, e1, e2]; ring
      rw [e]; linarith
    exact le_of_mul_le_mul_right this hpos

/-! ### L1: tents -/

theorem tent_def (b d t : K) : tent b d t = max 0 (min (t - b) (d - t)) := rfl

theorem tent_nonneg (b d t : K) : 0 ≤ tent b d t := le_max_left _ _

theorem tent_zero_left {b d t : K} (h : t ≤ b) : tent b d t = 0 := by
  rw [tent_def]
  apply max_eq_left
  exact le_trans (min_le_left _ _) (sub_nonpos.mpr h)

theorem tent_zero_right {b d t : K} (h : d ≤ t) : tent b d t = 0 := by
  rw [tent_def]
  apply max_eq_left
  exact le_trans (min_le_right _ _) (sub_nonpos.mpr h)

theorem tent_rise {b d t : K} (h1 : b ≤ t) (h2 : t ≤ (b + d) / 2) : tent b d t = t - b := by
  rw [tent_def]
  have h3 : 2 * t ≤ b + d := by
    have := (le_div_iff₀ (by norm_num : (0 : K) < 2)).mp h2
    linarith
  have : min (t - b) (d - t) = t - b := min_eq_left (by linarith)
  rw [this]
  exact max_eq_right (sub_nonneg.mpr h1)

theorem tent_fall {b d t : K} (h1 : t ≤ d) (h2 : (b + d) / 2 ≤ t) : tent b d t = d - t := by
  rw [tent_def]
  have h3 : b + d ≤ 2 * t := by
    have := (div_le_iff₀ (by norm_num : (0 : K) < 2)).mp h2
    linarith
  have : min (t - b) (d - t) = d - t := min_eq_right (by linarith)
  rw [this]
  exact max_eq_right (sub_nonneg.mpr h1)

/-- **L1**: a tent is affine on a cell with none of `b`, `(b+d)/2`, `d` in its interior
    (no hypothesis `b < d` is needed: a bar with `d ≤ b` has the zero tent) -/
theorem tent_affine {b d l r : K}
    (hb : b ≤ l ∨ r ≤ b) (hm : (b + d) / 2 ≤ l ∨ r ≤ (b + d) / 2) (hd : d ≤ l ∨ r ≤ d) :
    AffineOn (fun t => tent b d t) l r := by
  intro t h1 h2
  have hlr : l ≤ r := le_trans h1 h2
  rcases hm with hm | hm
  · -- right of the midpoint
    rcases hd with hd | hd
    · simp only [tent_zero_right (le_trans hd h1), tent_zero_right hd, tent_zero_right (le_trans hd hlr)]
      ring
    · simp only [tent_fall (le_trans h2 hd) (le_trans hm h1), tent_fall (le_trans hlr hd) hm,
        tent_fall hd (le_trans hm hlr)]
      ring
  · -- left of the midpoint
    rcases hb with hb | hb
    · simp only [tent_rise (le_trans hb h1) (le_trans h2 hm), tent_rise hb (le_trans hlr hm),
        tent_rise (le_trans hb hlr) hm]
      ring
    · simp only [tent_zero_left (le_trans h2 hb), tent_zero_left (le_trans hlr hb), tent_zero_left hb]
      ring

/-! ### L2: `evalPL` -/

/-- the part of well-formedness that survives taking tails: strictly increasing abscissae and a zero
    last ordinate -/
def Good : List (K × K) → Prop
  | [] => True
  | [p] => p.2 = 0
  | p :: q :: rest => p.1 < q.1 ∧ Good (q :: rest)

theorem Good.tail {p : K × K} {c : List (K × K)} (h : Good (p :: c)) : Good c := by
  cases c with
  | nil => trivial
  | cons q rest => exact h.2

theorem Good.lt_of_mem {p : K × K} {c : List (K × K)} (h : Good (p :: c)) : ∀ q ∈ c, p.1 < q.1 := by
  induction c generalizing p with
  | nil => intro q hq; simp at hq
  | cons a rest ih =>
    intro q hq
    rcases List.mem_cons.mp hq with rfl | hq
    · exact h.1
    · exact lt_trans h.1 (ih h.2 q hq)

theorem evalPL_cons_cons (x0 y0 x1 y1 : K) (rest : List (K × K)) (t : K) :
    evalPL ((x0, y0) :: (x1, y1) :: rest) t =
      if t < x0 then 0 else if t ≤ x1 then y0 + (y1 - y0) * (t - x0) / (x1 - x0)
      else evalPL ((x1, y1) :: rest) t := rfl

theorem evalPL_lt_first (p : K × K) (c : List (K × K)) {t : K} (h : t < p.1) : evalPL (p :: c) t = 0 := by
  cases c with
  | nil => rfl
  | cons q rest =>
    obtain ⟨x0, y0⟩ := p
    obtain ⟨x1, y1⟩ := q
    rw [evalPL_cons_cons, if_pos h]

/-- at its own abscissa the head of a good list (of length ≥ 2, or with zero ordinate) gives its ordinate -/
theorem evalPL_at_first {x0 y0 : K} {c : List (K × K)} (h : Good ((x0, y0) :: c)) :
    evalPL ((x0, y0) :: c) x0 = if c = [] then 0 else y0 := by
  cases c with
  | nil => rfl
  | cons q rest =>
    obtain ⟨x1, y1⟩ := q
    have hlt : x0 < x1 := h.1
    rw [evalPL_cons_cons, if_neg (lt_irrefl _), if_pos hlt.le]
    simp

/-- one step of the recursion: to the right of the second abscissa the head can be dropped -/
theorem evalPL_step {x0 y0 x1 y1 : K} {rest : List (K × K)} (h : Good ((x0, y0) :: (x1, y1) :: rest))
    {t : K} (ht : x1 ≤ t) : evalPL ((x0, y0) :: (x1, y1) :: rest) t = evalPL ((x1, y1) :: rest) t := by
  have hlt : x0 < x1 := h.1
  rw [evalPL_cons_cons, if_neg (not_lt.mpr (le_trans hlt.le ht))]
  by_cases h1 : t ≤ x1
  · have e : t = x1 := le_antisymm h1 ht
    subst e
    rw [if_pos le_rfl, evalPL_at_first h.2]
    have hne : t - x0 ≠ 0 := sub_ne_zero.mpr hlt.ne'
    cases rest with
    | nil =>
      have : y1 = 0 := h.2
      subst this
      simp only [if_true]
      field_simp
      ring
    | cons q r =>
      simp only [reduceCtorEq, if_false]
      field_simp
      ring
  · rw [if_neg h1]

/-- right of all abscissae the function vanishes -/
theorem evalPL_ge_all {c : List (K × K)} (h : Good c) {t : K} (ht : ∀ p ∈ c, p.1 ≤ t) : evalPL c t = 0 := by
  induction c with
  | nil => rfl
  | cons p c ih =>
    cases c with
    | nil => rfl
    | cons q rest =>
      obtain ⟨x0, y0⟩ := p
      obtain ⟨x1, y1⟩ := q
      rw [evalPL_step h (ht (x1, y1) (by simp))]
      exact ih h.2 (fun p hp => ht p (List.mem_cons_of_mem _ hp))

/-- **L2** for lists that start at or left of the cell -/
theorem evalPL_affine_aux {c : List (K × K)} (h : Good c) {l r : K} (hlr : l < r)
    (hin : ∀ p ∈ c, p.1 ≤ l ∨ r ≤ p.1) (hfirst : ∀ p ∈ c.head?, p.1 ≤ l) :
    AffineOn (evalPL c) l r := by
  induction c with
  | nil => exact affineOn_zero l r
  | cons p c ih =>
    cases c with
    | nil => exact affineOn_zero l r
    | cons q rest =>
      obtain ⟨x0, y0⟩ := p
      obtain ⟨x1, y1⟩ := q
      have hx0 : x0 ≤ l := hfirst (x0, y0) (by simp)
      have hlt : x0 < x1 := h.1
      rcases hin (x1, y1) (by simp) with h1 | h1
      · -- the whole cell lies right of x1: drop the head
        have hx1 : x1 ≤ l := h1
        apply affineOn_congr hlr.le (g := evalPL ((x1, y1) :: rest))
        · intro t ht _
          exact evalPL_step h (le_trans hx1 ht)
        · exact ih h.2 (fun p hp => hin p (List.mem_cons_of_mem _ hp)) (by simpa using hx1)
      · -- the whole cell lies inside the first segment
        have hx1 : r ≤ x1 := h1
        have hne : x1 - x0 ≠ 0 := sub_ne_zero.mpr hlt.ne'
        have cf : ∀ s, l ≤ s → s ≤ r →
            evalPL ((x0, y0) :: (x1, y1) :: rest) s = y0 + (y1 - y0) * (s - x0) / (x1 - x0) := by
          intro s hs1 hs2
          rw [evalPL_cons_cons, if_neg (not_lt.mpr (le_trans hx0 hs1)), if_pos (le_trans hs2 hx1)]
        intro t ht1 ht2
        rw [cf t ht1 ht2, cf l le_rfl hlr.le, cf r hlr.le le_rfl]
        field_simp
        ring

/-- Prop-level reading of `wellFormed` -/
theorem wellFormed_iff_aux : ∀ (c : List (K × K)), c ≠ [] →
    (c.getLast?.map (fun p => p.2 == 0)).getD false = true →
    ((c.zip c.tail).all fun pq => decide (pq.1.1 < pq.2.1)) = true → Good c
  | [], h, _, _ => absurd rfl h
  | [p], _, h2, _ => by
    simpa [Good] using h2
  | p :: q :: rest, _, h2, h3 => by
    have h3' : p.1 < q.1 ∧ (((q :: rest).zip rest).all fun pq => decide (pq.1.1 < pq.2.1)) = true := by
      simpa using h3
    refine ⟨h3'.1, wellFormed_iff_aux (q :: rest) (by simp) ?_ ?_⟩
    · simpa [List.getLast?_cons_cons] using h2
    · simpa using h3'.2

/-- what `wellFormed c = true` gives: at least two points, zero first ordinate, `Good` -/
theorem good_of_wellFormed {c : List (K × K)} (h : wellFormed c = true) :
    ∃ x0 q rest, c = (x0, 0) :: q :: rest ∧ Good c := by
  match c, h with
  | [], h => simp [wellFormed] at h
  | [_], h => simp [wellFormed] at h
  | (x0, y0) :: q :: rest, h =>
    simp only [wellFormed, Bool.and_eq_true, beq_iff_eq] at h
    obtain ⟨⟨hy, hl⟩, hz⟩ := h
    subst hy
    exact ⟨x0, q, rest, rfl, wellFormed_iff_aux _ (by simp) hl (by simpa using hz)⟩

/-- left of (or at) all abscissae a well-formed function vanishes -/
theorem evalPL_le_all {c : List (K × K)} (h : wellFormed c = true) {t : K} (ht : ∀ p ∈ c, t ≤ p.1) :
    evalPL c t = 0 := by
  obtain ⟨x0, q, rest, rfl, hg⟩ := good_of_wellFormed h
  have h0 : t ≤ x0 := ht (x0, 0) (by simp)
  rcases lt_or_eq_of_le h0 with h1 | h1
  · exact evalPL_lt_first _ _ h1
  · subst h1
    rw [evalPL_at_first hg]; simp

theorem evalPL_ge_all' {c : List (K × K)} (h : wellFormed c = true) {t : K} (ht : ∀ p ∈ c, p.1 ≤ t) :
    evalPL c t = 0 := by
  obtain ⟨_, _, _, _, hg⟩ := good_of_wellFormed h
  exact evalPL_ge_all hg ht

/-- **L2**: `evalPL` of a well-formed list is affine on a cell with no critical abscissa in its interior -/
theorem evalPL_affine {c : List (K × K)} (h : wellFormed c = true) {l r : K} (hlr : l < r)
    (hin : ∀ p ∈ c, p.1 ≤ l ∨ r ≤ p.1) : AffineOn (evalPL c) l r := by
  obtain ⟨x0, q, rest, rfl, hg⟩ := good_of_wellFormed h
  rcases hin (x0, 0) (by simp) with h0 | h0
  · exact evalPL_affine_aux hg hlr hin (by simpa using h0)
  · -- the cell lies left of the first abscissa: the function is 0 there
    apply affineOn_congr hlr.le (g := fun _ => 0) _ (affineOn_zero l r)
    intro t _ ht2
    rcases lt_or_eq_of_le (le_trans ht2 h0) with h1 | h1
    · exact evalPL_lt_first _ _ h1
    · subst h1
      rw [evalPL_at_first hg]; simp

end PersimVerif.LandscapeLemmas

namespace PersimVerif.LandscapeLemmas
open PersimVerif.PL PersimVerif.Landscape
variable {K : Type} [Field K] [LinearOrder K] [IsStrictOrderedRing K]

theorem good_pairwise : ∀ {c : List (K × K)}, Good c → (c.map Prod.fst).Pairwise (· < ·)
  | [], _ => List.Pairwise.nil
  | [_], _ => by simp
  | p :: q :: rest, h => by
    rw [List.map_cons, List.pairwise_cons]
    refine ⟨?_, good_pairwise h.2⟩
    intro x hx
    obtain ⟨y, hy, rfl⟩ := List.mem_map.mp hx
    exact Good.lt_of_mem h y hy

theorem good_last : ∀ {c : List (K × K)}, Good c → ∀ p ∈ c.getLast?, p.2 = 0
  | [], _ => by simp
  | [p], h => by
    intro q hq
    have : q = p := by simpa using hq.symm
    subst this
    exact h
  | p :: q :: rest, h => by
    rw [List.getLast?_cons_cons]
    exact good_last h.2

end PersimVerif.LandscapeLemmas
