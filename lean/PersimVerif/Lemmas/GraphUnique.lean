import PersimVerif.Lemmas.GraphExtra
/-!
  C17 helper lemmas, part 7 (core Lean only): a disconnected graph with a UNIQUE largest component.

  `compOf rows v` is the component of `v` (increasing list of the vertices reached from `v`), `compSize`
  its size.  If some component is strictly larger than every other one (`UniqueLargest`), the mask
  `components_by_vertex == components[argmax(sizes)]` selects exactly that component, whatever the labelling —
  so the selection commutes with every relabelling of the vertices (`selected_sub_iff`), and the block
  handed to `estimate` is the relabelled block (`blockOf_sub_unique`).
-/
namespace PersimVerif.Graph

/-- the component of `v`: the vertices reached from `v`, increasing -/
def compOf (rows : BMat) (v : Nat) : List Nat :=
  (List.range rows.length).filter fun u => reachable (bfsAll rows) v u

/-- the size of the component of `v` -/
def compSize (rows : BMat) (v : Nat) : Nat := (compOf rows v).length

/-- some component is strictly larger than every other component (a connected graph qualifies) -/
def UniqueLargest (rows : BMat) : Prop :=
  ∃ v, v < rows.length ∧
    ∀ u, u < rows.length → reachable (bfsAll rows) v u = false → compSize rows u < compSize rows v

theorem mem_compOf (rows : BMat) (v u : Nat) :
    u ∈ compOf rows v ↔ u < rows.length ∧ Reach rows v u := by
  simp [compOf, List.mem_filter, List.mem_range]

theorem compOf_sorted (rows : BMat) (v : Nat) : (compOf rows v).Pairwise (· < ·) :=
  List.Pairwise.filter _ List.pairwise_lt_range

section one
variable (rows : BMat) (hsym : Symm rows)
include hsym

/-- `np.unique(..., return_counts=True)`: the count of a label is the size of that component -/
theorem count_label {v : Nat} (hv : v < rows.length) :
    (labels (bfsAll rows)).count (label (bfsAll rows) v) = compSize rows v := by
  unfold compSize compOf labels
  rw [List.count_eq_countP, List.countP_map, List.countP_eq_length_filter, length_bfsAll]
  congr 1
  apply List.filter_congr
  intro u hu
  have hu' : u < rows.length := List.mem_range.1 hu
  rw [Bool.eq_iff_iff]
  simp only [Function.comp, beq_iff_eq]
  constructor
  · intro h
    exact reach_symm rows hsym
      (reach_of_rep_eq rows hsym hu' hv ((label_eq_iff rows hsym hu' hv).1 h))
  · intro h
    exact (label_eq_iff rows hsym hu' hv).2 (rep_eq_of_reach rows hsym (reach_symm rows hsym h))

/-- with a strictly largest component, the first-maximum rule selects exactly that component -/
theorem largestComponent_of_unique {v : Nat} (hv : v < rows.length)
    (hu : ∀ u, u < rows.length → reachable (bfsAll rows) v u = false → compSize rows u < compSize rows v) :
    largestComponent (bfsAll rows) = compOf rows v := by
  have hn : 0 < rows.length := by omega
  have hc : 0 < numComponents (bfsAll rows) := Nat.lt_of_le_of_lt (Nat.zero_le _) (label_lt rows hsym hn)
  have hne : sizes (labels (bfsAll rows)) (numComponents (bfsAll rows)) ≠ [] := by
    intro h
    have := congrArg List.length h
    simp [sizes] at this
    omega
  obtain ⟨h1, h2, _⟩ := argmaxFirst_spec _ hne
  have hlen : (sizes (labels (bfsAll rows)) (numComponents (bfsAll rows))).length = numComponents (bfsAll rows) := by
    simp [sizes]
  have hget : ∀ l (hl : l < (sizes (labels (bfsAll rows)) (numComponents (bfsAll rows))).length),
      (sizes (labels (bfsAll rows)) (numComponents (bfsAll rows)))[l] = (labels (bfsAll rows)).count l := by
    intro l hl; simp [sizes]
  have hlv : label (bfsAll rows) v < (sizes (labels (bfsAll rows)) (numComponents (bfsAll rows))).length := by
    rw [hlen]; exact label_lt rows hsym hv
  have hle := h2 _ hlv
  rw [hget _ hlv, hget _ h1, count_label rows hsym hv] at hle
  have hpos : 0 < compSize rows v := by
    unfold compSize
    exact List.length_pos_iff.2 (List.ne_nil_of_mem ((mem_compOf rows v v).2 ⟨hv, reach_refl rows hsym hv⟩))
  obtain ⟨w, hw, hlw⟩ := (count_labels_pos_iff rows (argmaxFirst _)).1 (by
    show 0 < (labels (bfsAll rows)).count (largestLabel (bfsAll rows))
    unfold largestLabel; omega)
  have hcw : (labels (bfsAll rows)).count (argmaxFirst (sizes (labels (bfsAll rows)) (numComponents (bfsAll rows))))
      = compSize rows w := by rw [← hlw, count_label rows hsym hw]
  have hreach : Reach rows v w := by
    cases hr : reachable (bfsAll rows) v w with
    | true => exact hr
    | false => have := hu w hw hr; omega
  have hL : largestLabel (bfsAll rows) = label (bfsAll rows) v := by
    unfold largestLabel
    rw [← hlw]
    exact (label_eq_iff rows hsym hw hv).2 (rep_eq_of_reach rows hsym (reach_symm rows hsym hreach))
  unfold largestComponent members compOf
  rw [length_labels, hL]
  apply List.filter_congr
  intro u hu'
  have hu'' : u < rows.length := List.mem_range.1 hu'
  rw [labels_getElem? rows hu'', Bool.eq_iff_iff]
  simp only [beq_iff_eq, Option.some.injEq]
  constructor
  · intro h
    exact reach_symm rows hsym
      (reach_of_rep_eq rows hsym hu'' hv ((label_eq_iff rows hsym hu'' hv).1 h))
  · intro h
    exact (label_eq_iff rows hsym hu'' hv).2 (rep_eq_of_reach rows hsym (reach_symm rows hsym h))

/-- what `makeDist` keeps when a strictly largest component exists -/
theorem selected_of_unique {v : Nat} (hv : v < rows.length)
    (hu : ∀ u, u < rows.length → reachable (bfsAll rows) v u = false → compSize rows u < compSize rows v)
    (u : Nat) : u ∈ selected (bfsAll rows) ↔ u < rows.length ∧ (hasInf (bfsAll rows) = true → Reach rows v u) := by
  unfold selected
  cases hi : hasInf (bfsAll rows) with
  | true =>
    simp only [if_true]
    rw [largestComponent_of_unique rows hsym hv hu, mem_compOf]
    simp
  | false => simp

end one

/-! ### relabelling -/

section perm
variable (rows : BMat) (p : List Nat) (hp : p.Perm (List.range rows.length)) (hsym : Symm rows)
include hp hsym

omit hsym in
theorem length_sub_perm : (sub false p rows).length = rows.length := by
  simp [perm_length rows p hp]

theorem reachable_sub {i j : Nat} (hi : i < rows.length) (hj : j < rows.length) :
    reachable (bfsAll (sub false p rows)) i j = reachable (bfsAll rows) (p.getD i 0) (p.getD j 0) := by
  show (dist (sub false p rows) i j).isSome = (dist rows (p.getD i 0) (p.getD j 0)).isSome
  rw [dist_sub rows p hp hsym hi hj]

omit hsym in
theorem perm_eq_map_range : p = (List.range rows.length).map fun a => p.getD a 0 := by
  have hl := perm_length rows p hp
  apply List.ext_getElem (by simp [hl])
  intro a h1 h2
  simp [List.getD_eq_getElem?_getD, List.getElem?_eq_getElem h1]

/-- the size of a component does not depend on the labelling -/
theorem compSize_sub {i : Nat} (hi : i < rows.length) :
    compSize (sub false p rows) i = compSize rows (p.getD i 0) := by
  unfold compSize compOf
  rw [length_sub_perm rows p hp]
  have e1 : (List.range rows.length).filter (fun u => reachable (bfsAll (sub false p rows)) i u)
      = (List.range rows.length).filter ((fun b => reachable (bfsAll rows) (p.getD i 0) b) ∘ fun a => p.getD a 0) := by
    apply List.filter_congr
    intro u hu
    exact reachable_sub rows p hp hsym hi (List.mem_range.1 hu)
  rw [e1, ← List.length_map (f := fun a => p.getD a 0), ← List.filter_map, ← perm_eq_map_range rows p hp]
  exact (hp.filter _).length_eq

theorem hasInf_sub : hasInf (bfsAll (sub false p rows)) = hasInf (bfsAll rows) := by
  rw [Bool.eq_iff_iff, hasInf_iff, hasInf_iff, length_sub_perm rows p hp]
  constructor
  · rintro ⟨s, t, hs, ht, h⟩
    rw [dist_sub rows p hp hsym hs ht] at h
    exact ⟨_, _, perm_lt rows p hp hs, perm_lt rows p hp ht, h⟩
  · rintro ⟨s, t, hs, ht, h⟩
    obtain ⟨a, ha, rfl⟩ := perm_surj rows p hp hs
    obtain ⟨b, hb, rfl⟩ := perm_surj rows p hp ht
    exact ⟨a, b, ha, hb, by rw [dist_sub rows p hp hsym ha hb]; exact h⟩

/-- a strictly largest component stays one under relabelling -/
theorem uniqueLargest_sub (h : UniqueLargest rows) : UniqueLargest (sub false p rows) := by
  obtain ⟨v, hv, hu⟩ := h
  obtain ⟨i, hi, rfl⟩ := perm_surj rows p hp hv
  refine ⟨i, by rw [length_sub_perm rows p hp]; exact hi, ?_⟩
  intro u hu' hr
  rw [length_sub_perm rows p hp] at hu'
  rw [reachable_sub rows p hp hsym hi hu'] at hr
  rw [compSize_sub rows p hp hsym hi, compSize_sub rows p hp hsym hu']
  exact hu _ (perm_lt rows p hp hu') hr

/-- **the selection commutes with relabelling**: position `a` of the relabelled graph is kept iff the
    vertex `p[a]` of the original graph is -/
theorem selected_sub_iff (h : UniqueLargest rows) {a : Nat} (ha : a < rows.length) :
    a ∈ selected (bfsAll (sub false p rows)) ↔ p.getD a 0 ∈ selected (bfsAll rows) := by
  obtain ⟨v, hv, hu⟩ := h
  obtain ⟨i, hi, rfl⟩ := perm_surj rows p hp hv
  have hl := length_sub_perm rows p hp
  have hu' : ∀ u, u < (sub false p rows).length → reachable (bfsAll (sub false p rows)) i u = false →
      compSize (sub false p rows) u < compSize (sub false p rows) i := by
    intro u hu1 hr
    rw [hl] at hu1
    rw [reachable_sub rows p hp hsym hi hu1] at hr
    rw [compSize_sub rows p hp hsym hi, compSize_sub rows p hp hsym hu1]
    exact hu _ (perm_lt rows p hp hu1) hr
  rw [selected_of_unique _ (symm_sub rows p hp hsym) (by rw [hl]; exact hi) hu' a,
    selected_of_unique rows hsym (perm_lt rows p hp hi) hu (p.getD a 0), hl,
    hasInf_sub rows p hp hsym]
  unfold Reach
  rw [reachable_sub rows p hp hsym hi ha]
  have := perm_lt rows p hp ha
  simp only [ha, this, true_and]

/-- the positions, in the original block, of the vertices kept after relabelling -/
def blockPerm (rows : BMat) (p : List Nat) : List Nat :=
  (selected (bfsAll (sub false p rows))).map fun a => (selected (bfsAll rows)).idxOf (p.getD a 0)

theorem selected_map_perm (h : UniqueLargest rows) :
    ((selected (bfsAll (sub false p rows))).map fun a => p.getD a 0).Perm (selected (bfsAll rows)) := by
  have hl := length_sub_perm rows p hp
  have hnd' : (selected (bfsAll (sub false p rows))).Nodup :=
    (selected_sorted (sub false p rows)).imp (fun h => Nat.ne_of_lt h)
  have hnd : (selected (bfsAll rows)).Nodup := (selected_sorted rows).imp (fun h => Nat.ne_of_lt h)
  have hlt' : ∀ a ∈ selected (bfsAll (sub false p rows)), a < rows.length := by
    intro a ha; have := selected_lt (sub false p rows) ha; omega
  have hmapnd : ((selected (bfsAll (sub false p rows))).map fun a => p.getD a 0).Nodup := by
    rw [List.nodup_iff_pairwise_ne, List.pairwise_map]
    have hpw : (selected (bfsAll (sub false p rows))).Pairwise (· ≠ ·) := hnd'
    refine List.Pairwise.imp_of_mem ?_ hpw
    intro a b ha hb hab he
    exact hab (perm_inj rows p hp (hlt' a ha) (hlt' b hb) he)
  rw [List.perm_ext_iff_of_nodup hmapnd hnd]
  intro x
  constructor
  · intro hx
    obtain ⟨a, ha, rfl⟩ := List.mem_map.1 hx
    exact (selected_sub_iff rows p hp hsym h (hlt' a ha)).1 ha
  · intro hx
    obtain ⟨a, ha, rfl⟩ := perm_surj rows p hp (selected_lt rows hx)
    exact List.mem_map.2 ⟨a, (selected_sub_iff rows p hp hsym h ha).2 hx, rfl⟩

omit hp hsym in
theorem map_idxOf_self {l : List Nat} (h : l.Nodup) : l.map (fun x => l.idxOf x) = List.range l.length := by
  apply List.ext_getElem (by simp)
  intro i h1 h2
  simp only [List.getElem_map, List.getElem_range]
  exact h.idxOf_getElem i (by simpa using h1)

theorem blockPerm_perm (h : UniqueLargest rows) :
    (blockPerm rows p).Perm (List.range (selected (bfsAll rows)).length) := by
  have hnd : (selected (bfsAll rows)).Nodup := (selected_sorted rows).imp (fun h => Nat.ne_of_lt h)
  have := (selected_map_perm rows p hp hsym h).map fun x => (selected (bfsAll rows)).idxOf x
  rw [map_idxOf_self hnd, List.map_map] at this
  exact this

theorem selected_sub_length (h : UniqueLargest rows) :
    (selected (bfsAll (sub false p rows))).length = (selected (bfsAll rows)).length := by
  have := (selected_map_perm rows p hp hsym h).length_eq
  simpa using this

/-- the vertex behind position `q[a]` of the original block is `p[·]` of the vertex behind position `a`
    of the relabelled block -/
theorem vtx_blockPerm (h : UniqueLargest rows) {a : Nat} (ha : a < (selected (bfsAll rows)).length) :
    vtx rows ((blockPerm rows p).getD a 0) = p.getD (vtx (sub false p rows) a) 0 := by
  have hlen := selected_sub_length rows p hp hsym h
  have ha' : a < (selected (bfsAll (sub false p rows))).length := by omega
  have hmem : p.getD (vtx (sub false p rows) a) 0 ∈ selected (bfsAll rows) := by
    have hv := vtx_mem (sub false p rows) ha'
    have hlt := selected_lt (sub false p rows) hv
    rw [length_sub_perm rows p hp] at hlt
    exact (selected_sub_iff rows p hp hsym h hlt).1 hv
  have hq : (blockPerm rows p).getD a 0 = (selected (bfsAll rows)).idxOf (p.getD (vtx (sub false p rows) a) 0) := by
    unfold blockPerm vtx
    simp [List.getD_eq_getElem?_getD, List.getElem?_map, List.getElem?_eq_getElem ha']
  rw [hq]
  have hi := List.idxOf_lt_length_of_mem hmem
  unfold vtx
  rw [List.getD_eq_getElem?_getD, List.getElem?_eq_getElem hi]
  simp

/-- **the block of the relabelled graph is the relabelled block** -/
theorem blockOf_sub_unique (h : UniqueLargest rows) :
    blockOf (sub false p rows) = sub 0 (blockPerm rows p) (blockOf rows) := by
  have hlen := selected_sub_length rows p hp hsym h
  have hsym' := symm_sub rows p hp hsym
  have hql : (blockPerm rows p).length = (selected (bfsAll rows)).length := by
    unfold blockPerm; simpa using hlen
  refine mat_ext 0 (n := (selected (bfsAll rows)).length) (m := (selected (bfsAll rows)).length) _ _
    (by rw [blockOf_length, hlen]) (by simp [hql]) ?_ ?_ ?_
  · intro r hr; rw [blockOf_row_length _ r hr, hlen]
  · intro r hr; rw [row_length_sub 0 _ _ r hr, hql]
  · intro a b ha hb
    have ha' : a < (selected (bfsAll (sub false p rows))).length := by omega
    have hb' : b < (selected (bfsAll (sub false p rows))).length := by omega
    have h1 := dist_vtx (sub false p rows) hsym' ha' hb'
    have hla := vtx_lt (sub false p rows) ha'
    have hlb := vtx_lt (sub false p rows) hb'
    rw [length_sub_perm rows p hp] at hla hlb
    rw [dist_sub rows p hp hsym hla hlb, ← vtx_blockPerm rows p hp hsym h ha,
      ← vtx_blockPerm rows p hp hsym h hb] at h1
    have hqa : (blockPerm rows p).getD a 0 < (selected (bfsAll rows)).length := by
      have := (blockPerm_perm rows p hp hsym h).mem_iff (a := (blockPerm rows p).getD a 0)
      have hm : (blockPerm rows p).getD a 0 ∈ blockPerm rows p := by
        rw [List.getD_eq_getElem?_getD, List.getElem?_eq_getElem (by omega)]
        exact List.getElem_mem _
      simpa using this.1 hm
    have hqb : (blockPerm rows p).getD b 0 < (selected (bfsAll rows)).length := by
      have := (blockPerm_perm rows p hp hsym h).mem_iff (a := (blockPerm rows p).getD b 0)
      have hm : (blockPerm rows p).getD b 0 ∈ blockPerm rows p := by
        rw [List.getD_eq_getElem?_getD, List.getElem?_eq_getElem (by omega)]
        exact List.getElem_mem _
      simpa using this.1 hm
    rw [dist_vtx rows hsym hqa hqb] at h1
    rw [ent_sub 0 _ _ (by omega) (by omega)]
    exact (Option.some.inj h1).symm

end perm
end PersimVerif.Graph
