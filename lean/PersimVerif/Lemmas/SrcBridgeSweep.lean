import PersimVerif.Model.Landscape
import PersimVerif.Lemmas.SrcLibSweep
import PersimVerif.Lemmas.LandscapeSweepTotal

/-!
# Bridge between the translated source of `PersLandscapeExact.compute_landscape` and the model `Landscape.sweep`

`Generated/SrcSweep.lean` (written by harness/translator/py2lean_sweep.py from persim/landscapes/exact.py on every run) holds the
method translated statement by statement.  This hand-written file has

* `Ref.*` — the REVIEWED Lean text of that translation: definitions of exactly the shape the translator emits for the
  reviewed source (same loops, same guards, same order of statements).  The generated file proves `generated = Ref.*`
  (`src_<def>_eq_ref`; every step `rfl`), so these definitions stand for the source as long as those obligations check;
* the proofs that `Ref.*` equal the model of Model/Landscape.lean (`dupLoop`, `popFirst`, `insertPos`, `inner`, `outer`,
  `sweep`, `dropTrailingInf`), for all inputs:
  - the source keeps every depth in `L` with the sentinels `[-inf, 0]`, `[inf, 0]` and addresses the current one as
    `L[landscape_idx]`; the model carries the current depth `cur` without sentinels.  Invariant of the inner loop:
    `L = Lpre ++ [open cur]`, `landscape_idx = Lpre.length` (`open cur = (-inf, 0) :: cur` embedded);
  - the source leaves the inner loop through its test (`L[landscape_idx][-1] == [inf, 0]` after the closing `extend` and the
    `duplicate` copies `L.append(L[-1])`), the model returns from the branch; `closed cur = open cur ++ [(inf, 0)]`,
    `List.replicate (dup + 1) (closed cur)`;
  - the index loops (`pop_loop`, `ind_loop`, `cnt_loop`) are `popFirst`, `List.findIdx?`, `List.countP`; the mutating
    `duplicate` loop is `dupLoop` (its fuel is never exhausted);
  - the sort key `[x[0], -x[1]]` compared as Python compares lists is the model's `keyLe` (this is the only place where the
    order structure of the coefficients is used).
-/
set_option linter.unusedVariables false
set_option linter.unusedSectionVars false

namespace PersimVerif.SrcBridge.Sweep
open PersimVerif.SrcLib.Sweep
open PersimVerif.Landscape hiding pyInsert

/-! ## `Ref`: the reviewed Lean text of the translation -/
namespace Ref
section
variable {α : Type} [Add α] [Sub α] [Mul α] [Div α] [Neg α] [Zero α] [OfNat α 2] [LT α] [DecidableLT α] [LE α]
  [DecidableLE α] [Max α] [Min α] [BEq α]

/-- `if A[-1][1] == np.inf: A.pop(-1)` on a diagram whose deaths may be infinite (`none` = `np.inf`) -/
def trailing_inf (A : List (α × Option α)) : Option (List (α × Option α)) :=
  match A.getLast? with
  | none => none
  | some v =>
  if isInf v.2 then
    match A.getLast? with
    | none => none
    | some pop =>
    let A_1 := A.dropLast
    some A_1
  else
    some A

/-- `for j, itemj in enumerate(A)` -/
def dup_loop (b : α) (d : α) (fuel : Nat) (j : Nat) (A : List (α × α)) (duplicate : Nat) : Option (List (α × α) × Nat) :=
  match A[j]? with
  | none =>
    some (A, duplicate)
  | some itemj =>
  match fuel with
  | 0 => none
  | fuel + 1 =>
  if itemj == (b, d) then
    let duplicate_1 := duplicate + 1
    match A[j]? with
    | none => none
    | some pop =>
    let A_1 := A.eraseIdx j
    dup_loop b d fuel (j + 1) A_1 duplicate_1
  else
    some (A, duplicate)

/-- `for _ in range(duplicate)` -/
def shortcut_loop (range : List Nat) (landscape_idx : Nat) (L : List (List (XR α × α))) : Option (Nat × List (List (XR α × α))) :=
  match range with
  | [] =>
    some (landscape_idx, L)
  | _ :: rest =>
  match L.getLast? with
  | none => none
  | some v =>
  let L_1 := L ++ [v]
  let landscape_idx_1 := landscape_idx + 1
  shortcut_loop rest landscape_idx_1 L_1

/-- `for i, item in enumerate(A)` -/
def pop_loop (d : α) (fuel : Nat) (i : Nat) (A : List (α × α)) : Option (List (α × α) × α × α) :=
  match A[i]? with
  | none =>
    none
  | some item =>
  match fuel with
  | 0 => none
  | fuel + 1 =>
  if d < item.2 then
    match A[i]? with
    | none => none
    | some pop =>
    let A_1 := A.eraseIdx i
    let b_prime := pop.1
    let d_prime := pop.2
    some (A_1, b_prime, d_prime)
  else
    pop_loop d fuel (i + 1) A

/-- `for i in range(len(A))` -/
def ind_loop (A : List (α × α)) (b_prime : α) (range : List Nat) (ind : Nat) : Option Nat :=
  match range with
  | [] =>
    some ind
  | i :: rest =>
  match A[i]? with
  | none => none
  | some v =>
  if b_prime ≤ v.1 then
    let ind_1 := i
    some ind_1
  else
    ind_loop A b_prime rest ind

/-- `for j in range(len(A_i))` -/
def cnt_loop (d : α) (A_i : List (α × α)) (range : List Nat) (ind : Nat) : Option Nat :=
  match range with
  | [] =>
    some ind
  | j :: rest =>
  match A_i[j]? with
  | none => none
  | some v =>
  if d < v.2 then
    let ind_1 := ind + 1
    cnt_loop d A_i rest ind_1
  else
    cnt_loop d A_i rest ind

/-- `while L[landscape_idx][-1] != [np.inf, 0]` -/
def inner_loop (duplicate : Nat) (fuel : Nat) (A : List (α × α)) (landscape_idx : Nat) (L : List (List (XR α × α))) (d : α) : Option (List (α × α) × Nat × List (List (XR α × α))) :=
  match L[landscape_idx]? with
  | none => none
  | some v =>
  match v.getLast? with
  | none => none
  | some v_1 =>
  if v_1 != (XR.posInf, 0) then
    match fuel with
    | 0 => none
    | fuel + 1 =>
    if A.all (fun v_2 => decide (v_2.2 ≤ d)) then
      let L_1 := L.modify landscape_idx (· ++ [(XR.fin d, 0), (XR.posInf, 0)])
      match shortcut_loop (List.range duplicate) landscape_idx L_1 with
      | none => none
      | some (landscape_idx_1, L_2) =>
      inner_loop duplicate fuel A landscape_idx_1 L_2 d
    else
      match pop_loop d (A.length + 1) 0 A with
      | none => none
      | some (A_1, b_prime, d_prime) =>
      let L_4 :=
          if d < b_prime then
            let L_3 := L.modify landscape_idx (· ++ [(XR.fin d, 0)])
            L_3
          else
            L
      match (
          if d ≤ b_prime then
            let L_5 := L_4.modify landscape_idx (· ++ [(XR.fin b_prime, 0)])
            some (A_1, L_5)
          else
            let L_6 := L_4.modify landscape_idx (· ++ [(XR.fin ((b_prime + d) / 2), (d - b_prime) / 2)])
            let ind := A_1.length
            match ind_loop A_1 b_prime (List.range A_1.length) ind with
            | none => none
            | some ind_1 =>
            match (
                if ind_1 == A_1.length then
                  some ind_1
                else
                  match A_1[ind_1]? with
                  | none => none
                  | some v_3 =>
                  if b_prime == v_3.1 then
                    let A_i := A_1.filter (fun item => item.1 == b_prime)
                    match cnt_loop d A_i (List.range A_i.length) ind_1 with
                    | none => none
                    | some ind_2 =>
                    some ind_2
                  else
                    some ind_1) with
            | none => none
            | some ind_3 =>
            let A_2 := pyInsert ind_3 (b_prime, d) A_1
            some (A_2, L_6)) with
      | none => none
      | some (A_3, L_7) =>
      let L_8 := L_7.modify landscape_idx (· ++ [(XR.fin ((b_prime + d_prime) / 2), (d_prime - b_prime) / 2)])
      let b := b_prime
      let d_1 := d_prime
      inner_loop duplicate fuel A_3 landscape_idx L_8 d_1
  else
    some (A, landscape_idx, L)

/-- `while A` -/
def outer_loop (fuel : Nat) (A : List (α × α)) (landscape_idx : Nat) (L : List (List (XR α × α))) : Option (List (List (XR α × α))) :=
  if !A.isEmpty then
    match fuel with
    | 0 => none
    | fuel + 1 =>
    match A[0]? with
    | none => none
    | some pop =>
    let A_1 := A.eraseIdx 0
    let b := pop.1
    let d := pop.2
    let L_1 := L ++ [[(XR.negInf, 0), (XR.fin b, 0), (XR.fin ((b + d) / 2), (d - b) / 2)]]
    let duplicate := 0
    match dup_loop b d (A_1.length + 1) 0 A_1 duplicate with
    | none => none
    | some (A_2, duplicate_1) =>
    match inner_loop duplicate_1 (A_2.length + 1) A_2 landscape_idx L_1 d with
    | none => none
    | some (A_3, landscape_idx_1, L_2) =>
    let landscape_idx_2 := landscape_idx_1 + 1
    outer_loop fuel A_3 landscape_idx_2 L_2
  else
    some L

/-- `compute_landscape` from `landscape_idx = 0` to its end, on the list `A` of finite bars (after the trailing-infinite-bar step): the values written to `self.max_depth`, `self.critical_pairs` -/
def compute_landscape (A : List (α × α)) : Option (Nat × List (List (XR α × α))) :=
  let landscape_idx := 0
  let L := []
  let A_1 := pySortedBy (fun x => [x.1, -x.2]) A
  match outer_loop (A_1.length + 1) A_1 landscape_idx L with
  | none => none
  | some L_1 =>
  let self_max_depth := L_1.length
  let self_critical_pairs := L_1.map (fun item => (item.drop 1).dropLast)
  some (self_max_depth, self_critical_pairs)

end
end Ref

/-! ## the translation equals the model -/

section
variable {α : Type} [Add α] [Sub α] [Mul α] [Div α] [Neg α] [Zero α] [OfNat α 2] [LT α] [DecidableLT α] [LE α]
  [DecidableLE α] [Max α] [Min α] [BEq α]

/-! ### the trailing infinite bar -/

theorem trailing_inf_eq_model (A : List (α × Option α)) :
    Ref.trailing_inf A = (dropTrailingInf A).toOption := by
  unfold Ref.trailing_inf dropTrailingInf
  cases h : A.getLast? with
  | none => rfl
  | some v =>
    obtain ⟨b, od⟩ := v
    cases od <;> rfl

/-! ### sentinels: a depth of the source against a depth of the model -/

/-- the critical point `[x, y]` of the source for the model's `(x, y)` -/
def emb (p : α × α) : XR α × α := (XR.fin p.1, p.2)

/-- a depth under construction: the sentinel `[-inf, 0]`, then the points collected so far -/
def opened (cur : List (α × α)) : List (XR α × α) := (XR.negInf, 0) :: cur.map emb

/-- a finished depth: closed by the sentinel `[inf, 0]` -/
def closed (cur : List (α × α)) : List (XR α × α) := opened cur ++ [(XR.posInf, 0)]

theorem opened_last_ne (cur : List (α × α)) (x : XR α × α) (h : (opened cur).getLast? = some x) :
    (x != (XR.posInf, (0 : α))) = true := by
  have hm : x ∈ opened cur := List.mem_of_getLast? h
  rcases List.mem_cons.mp hm with rfl | hm
  · rfl
  · obtain ⟨p, _, rfl⟩ := List.mem_map.mp hm
    rfl

theorem opened_snoc (cur : List (α × α)) (x y : α) : opened cur ++ [(XR.fin x, y)] = opened (cur ++ [(x, y)]) := by
  simp [opened, emb]

theorem strip_closed (c : List (α × α)) : ((closed c).drop 1).dropLast = c.map fun p => (XR.fin p.1, p.2) := by
  simp [closed, opened, emb]

theorem modify_last {β : Type} (f : β → β) (c : β) : ∀ (Lpre : List β), (Lpre ++ [c]).modify Lpre.length f = Lpre ++ [f c]
  | [] => rfl
  | a :: t => by simp [modify_last f c t]

/-! ### the `for` loops -/

theorem shortcut_loop_eq (x : List (XR α × α)) : ∀ (l : List Nat) (n : Nat) (L : List (List (XR α × α))),
    Ref.shortcut_loop l n (L ++ [x]) = some (n + l.length, L ++ List.replicate (l.length + 1) x)
  | [], n, L => by simp [Ref.shortcut_loop]
  | _ :: l, n, L => by
    rw [Ref.shortcut_loop]
    simp only [List.getLast?_append, List.getLast?_singleton, Option.some_or]
    rw [shortcut_loop_eq x l (n + 1) (L ++ [x])]
    simp only [List.length_cons, List.append_assoc, Option.some.injEq, Prod.mk.injEq]
    refine ⟨by omega, ?_⟩
    rw [List.replicate_succ (n := l.length + 1)]
    simp

theorem pop_loop_eq_aux (d : α) : ∀ (fuel i : Nat) (A : List (α × α)), A.length - i < fuel →
    Ref.pop_loop d fuel i A =
      (popFirst (fun x => decide (d < x.2)) (A.drop i)).map fun r => (A.take i ++ r.2, r.1.1, r.1.2)
  | fuel, i, A, h => by
    rw [Ref.pop_loop]
    cases hi : A[i]? with
    | none =>
      have : A.length ≤ i := by simpa using hi
      simp [List.drop_eq_nil_of_le this, popFirst]
    | some item =>
      have hlt : i < A.length := by
        rcases List.getElem?_eq_some_iff.mp hi with ⟨h', _⟩; exact h'
      have hdrop : A.drop i = item :: A.drop (i + 1) := by
        rw [List.drop_eq_getElem_cons hlt]
        congr 1
        rcases List.getElem?_eq_some_iff.mp hi with ⟨_, h'⟩; exact h'
      cases fuel with
      | zero => omega
      | succ fuel =>
        simp only [hdrop, popFirst]
        by_cases hp : d < item.2
        · simp [hp, List.eraseIdx_eq_take_drop_succ]
        · simp only [hp, if_false, decide_false, Bool.false_eq_true]
          rw [pop_loop_eq_aux d fuel (i + 1) A (by omega)]
          cases popFirst (fun x => decide (d < x.2)) (A.drop (i + 1)) with
          | none => rfl
          | some r =>
            simp only [Option.map_some, Option.some.injEq, Prod.mk.injEq, and_true]
            rw [List.take_add_one, hi]; simp

theorem pop_loop_eq (d : α) (A : List (α × α)) :
    Ref.pop_loop d (A.length + 1) 0 A =
      (popFirst (fun x => decide (d < x.2)) A).map fun r => (r.2, r.1.1, r.1.2) := by
  rw [pop_loop_eq_aux d _ 0 A (by omega)]; simp

theorem ind_loop_eq_aux (A : List (α × α)) (b' : α) (dflt : Nat) : ∀ (len s : Nat), s + len = A.length →
    Ref.ind_loop A b' (List.range' s len) dflt =
      some (match (A.drop s).findIdx? (fun x => decide (b' ≤ x.1)) with | none => dflt | some i => s + i)
  | 0, s, h => by
    have : A.length ≤ s := by omega
    simp [Ref.ind_loop, List.drop_eq_nil_of_le this]
  | len + 1, s, h => by
    have hlt : s < A.length := by omega
    rw [List.range'_succ, Ref.ind_loop]
    simp only [List.getElem?_eq_getElem hlt]
    rw [List.drop_eq_getElem_cons hlt, List.findIdx?_cons]
    by_cases hp : b' ≤ A[s].1
    · simp [hp]
    · simp only [hp, if_false, decide_false, Bool.false_eq_true]
      rw [ind_loop_eq_aux A b' dflt len (s + 1) (by omega)]
      cases (A.drop (s + 1)).findIdx? (fun x => decide (b' ≤ x.1)) with
      | none => rfl
      | some i => simp only [Option.map_some, Nat.add_assoc, Nat.add_comm 1]

theorem ind_loop_eq (A : List (α × α)) (b' : α) :
    Ref.ind_loop A b' (List.range A.length) A.length =
      some (match A.findIdx? (fun x => decide (b' ≤ x.1)) with | none => A.length | some i => i) := by
  rw [List.range_eq_range', ind_loop_eq_aux A b' A.length A.length 0 (by omega)]
  simp only [List.drop_zero, Nat.zero_add]

theorem cnt_loop_eq_aux (d : α) (Ai : List (α × α)) : ∀ (len s ind : Nat), s + len = Ai.length →
    Ref.cnt_loop d Ai (List.range' s len) ind = some (ind + (Ai.drop s).countP (fun x => decide (d < x.2)))
  | 0, s, ind, h => by
    have : Ai.length ≤ s := by omega
    simp [Ref.cnt_loop, List.drop_eq_nil_of_le this]
  | len + 1, s, ind, h => by
    have hlt : s < Ai.length := by omega
    rw [List.range'_succ, Ref.cnt_loop]
    simp only [List.getElem?_eq_getElem hlt]
    rw [List.drop_eq_getElem_cons hlt, List.countP_cons]
    by_cases hp : d < Ai[s].2
    · simp only [hp, if_true, decide_true]
      rw [cnt_loop_eq_aux d Ai len (s + 1) (ind + 1) (by omega)]
      simp; omega
    · simp only [hp, if_false, decide_false, Bool.false_eq_true]
      rw [cnt_loop_eq_aux d Ai len (s + 1) ind (by omega)]
      simp

theorem cnt_loop_eq (d : α) (Ai : List (α × α)) (ind : Nat) :
    Ref.cnt_loop d Ai (List.range Ai.length) ind = some (ind + Ai.countP (fun x => decide (d < x.2))) := by
  rw [List.range_eq_range', cnt_loop_eq_aux d Ai Ai.length 0 ind (by omega)]; simp

/-- the tie-break of Case III (`if ind == len(A): pass / elif b_prime == A[ind][0]: …`) after the index search -/
theorem insert_index_eq (A : List (α × α)) (b' d : α) (ind : Nat)
    (hind : ind = match A.findIdx? (fun x => decide (b' ≤ x.1)) with | none => A.length | some i => i) :
    (if (ind == A.length) = true then some ind
      else match A[ind]? with
        | none => none
        | some v_3 =>
          if (b' == v_3.1) = true then
            match Ref.cnt_loop d (A.filter fun item => item.1 == b') (List.range (A.filter fun item => item.1 == b').length) ind with
            | none => none
            | some ind_2 => some ind_2
          else some ind) = some (insertPos b' d A) := by
  subst hind
  unfold insertPos
  cases hf : A.findIdx? (fun x => decide (b' ≤ x.1)) with
  | none => simp
  | some i =>
    obtain ⟨_, y, hy, _⟩ := (PersimVerif.LandscapeLemmas.findIdx?_spec _ A).2 i hf
    have hlt : i < A.length := by
      rcases List.getElem?_eq_some_iff.mp hy with ⟨h', _⟩; exact h'
    have hne : (i == A.length) = false := by simp; omega
    simp only [hne, Bool.false_eq_true, if_false, hy, cnt_loop_eq]
    by_cases hb : (b' == y.1) = true
    · simp only [hb, if_true]
    · simp only [hb, if_false, Bool.false_eq_true]

theorem pyInsert_eq {β : Type} (i : Nat) (x : β) (A : List β) :
    SrcLib.Sweep.pyInsert i x A = Landscape.pyInsert i x A := rfl

/-- the `duplicate` loop: the source's fuel (`f1`, counts rounds, `none` when exhausted) and the model's (`f2`, returns
    when exhausted) both exceed the number of rounds, which is at most `len(A) - j` -/
theorem dup_loop_eq (b d : α) : ∀ (f2 f1 j : Nat) (A : List (α × α)) (dup : Nat), A.length - j ≤ f2 → f2 < f1 →
    Ref.dup_loop b d f1 j A dup = some (dupLoop (b, d) f2 j A dup)
  | 0, f1, j, A, dup, h, hf => by
    have : A[j]? = none := by simp; omega
    rw [Ref.dup_loop, this]; rfl
  | f2 + 1, f1, j, A, dup, h, hf => by
    rw [Ref.dup_loop, dupLoop]
    cases hj : A[j]? with
    | none => rfl
    | some x =>
      have hlt : j < A.length := by
        rcases List.getElem?_eq_some_iff.mp hj with ⟨h', _⟩; exact h'
      cases f1 with
      | zero => omega
      | succ f1 =>
        obtain ⟨x1, x2⟩ := x
        have hbeq : ((x1, x2) == (b, d)) = (x1 == b && x2 == d) := rfl
        simp only [hbeq]
        by_cases hc : (x1 == b && x2 == d) = true
        · simp only [hc, if_true]
          exact dup_loop_eq b d f2 f1 (j + 1) (A.eraseIdx j) (dup + 1) (by rw [List.length_eraseIdx]; split <;> omega) (by omega)
        · simp only [hc, if_false, Bool.false_eq_true]

/-! ### the `while` loops -/

/-- the test of the inner loop on a finished depth: the loop is left, whatever the fuel -/
theorem inner_loop_exit (h0 : ((0 : α) == 0) = true) (dup fuel : Nat) (A : List (α × α)) (Lpre : List (List (XR α × α)))
    (c : List (α × α)) (d : α) :
    Ref.inner_loop dup fuel A (Lpre.length + dup) (Lpre ++ List.replicate (dup + 1) (closed c)) d =
      some (A, Lpre.length + dup, Lpre ++ List.replicate (dup + 1) (closed c)) := by
  rw [Ref.inner_loop.eq_def]
  have h1 : (Lpre ++ List.replicate (dup + 1) (closed c))[Lpre.length + dup]? = some (closed c) := by
    rw [List.getElem?_append_right (by omega)]
    simp
  have h2 : (closed c).getLast? = some (XR.posInf, (0 : α)) := by simp [closed]
  have h3 : (((XR.posInf : XR α), (0 : α)) != (XR.posInf, 0)) = false := by
    show (!(XR.beq (XR.posInf : XR α) XR.posInf && (0 : α) == 0)) = false
    simp [XR.beq, h0]
  simp only [h1, h2, h3, Bool.false_eq_true, if_false]

theorem inner_loop_eq (h0 : ((0 : α) == 0) = true) : ∀ (fuel dup : Nat) (A : List (α × α)) (Lpre : List (List (XR α × α)))
    (cur : List (α × α)) (b d : α),
    Ref.inner_loop dup fuel A Lpre.length (Lpre ++ [opened cur]) d =
      (inner fuel b d A cur).map fun r => (r.2, Lpre.length + dup, Lpre ++ List.replicate (dup + 1) (closed r.1))
  | fuel, dup, A, Lpre, cur, b, d => by
    rw [Ref.inner_loop.eq_def]
    have h1 : (Lpre ++ [opened cur])[Lpre.length]? = some (opened cur) := by simp
    obtain ⟨last, hlast⟩ : ∃ x, (opened cur).getLast? = some x := by
      cases h : (opened cur).getLast? with
      | none => simp [opened] at h
      | some x => exact ⟨x, rfl⟩
    simp only [h1, hlast, opened_last_ne cur last hlast, if_true]
    cases fuel with
    | zero => rfl
    | succ fuel =>
      simp only [inner]
      by_cases hall : (A.all fun x => decide (x.2 ≤ d)) = true
      · simp only [hall, if_true, modify_last]
        have e : opened cur ++ [(XR.fin d, 0), (XR.posInf, 0)] = closed (cur ++ [(d, 0)]) := by
          simp [closed, opened, emb]
        rw [e, shortcut_loop_eq]
        simp only [List.length_range, Option.map_some]
        exact inner_loop_exit h0 dup fuel A Lpre _ d
      · simp only [hall, if_false, Bool.false_eq_true, pop_loop_eq]
        cases hp : popFirst (fun x => decide (d < x.2)) A with
        | none => rfl
        | some r =>
          obtain ⟨⟨b', d'⟩, A1⟩ := r
          simp only [Option.map_some, ind_loop_eq, pyInsert_eq]
          erw [insert_index_eq A1 b' d _ rfl]
          by_cases hlt : d < b' <;> by_cases hle : d ≤ b' <;>
            simp only [hlt, hle, if_true, if_false, modify_last, opened_snoc] <;>
            exact inner_loop_eq h0 fuel dup _ Lpre _ b' d'

/-- **the loops of the source are the loops of the model**, for every coefficient type whose `0 == 0` holds: `L` holds the
    finished depths with their sentinels, `landscape_idx` is their number -/
theorem outer_loop_eq (h0 : ((0 : α) == 0) = true) : ∀ (fuel : Nat) (A : List (α × α)) (Lm : List (List (α × α))) (fired : Nat),
    Ref.outer_loop fuel A Lm.length (Lm.map closed) = (outer fuel A Lm fired).map fun o => o.cps.map closed
  | fuel, [], Lm, fired => by
    rw [Ref.outer_loop.eq_def, outer]; rfl
  | 0, x :: A, Lm, fired => by
    rw [Ref.outer_loop.eq_def, outer]; rfl
  | fuel + 1, (b, d) :: A, Lm, fired => by
    rw [Ref.outer_loop.eq_def, outer]
    simp only [List.isEmpty_cons, Bool.not_false, if_true, List.getElem?_cons_zero, List.eraseIdx_cons_zero]
    rw [dup_loop_eq b d A.length (A.length + 1) 0 A 0 (by omega) (by omega)]
    have e : Lm.map closed ++ [[(XR.negInf, (0 : α)), (XR.fin b, 0), (XR.fin ((b + d) / 2), (d - b) / 2)]] =
        Lm.map closed ++ [opened [(b, 0), ((b + d) / 2, (d - b) / 2)]] := rfl
    have hl : Lm.length = (Lm.map closed).length := by simp
    simp only [e]
    rw [hl, inner_loop_eq h0 _ _ _ _ _ b d]
    cases inner ((dupLoop (b, d) A.length 0 A 0).1.length + 1) b d (dupLoop (b, d) A.length 0 A 0).1
        [(b, 0), ((b + d) / 2, (d - b) / 2)] with
    | none => rfl
    | some r =>
      obtain ⟨cur, A2⟩ := r
      simp only [Option.map_some]
      have := outer_loop_eq h0 fuel A2 (Lm ++ cur :: List.replicate (dupLoop (b, d) A.length 0 A 0).2 cur)
        (fired + (dupLoop (b, d) A.length 0 A 0).2)
      simp only [List.length_append, List.length_cons, List.length_replicate, List.map_append, List.map_cons,
        List.map_replicate] at this
      rw [← this]
      congr 1
      omega

example : ((0 : Nat) == 0) = true := rfl

end

/-! ### the sort key, and the whole method over a linear ordered field -/

section
variable {K : Type} [Field K] [LinearOrder K] [IsStrictOrderedRing K]

/-- `[x[0], -x[1]]` compared as Python compares lists is the model's `keyLe` -/
theorem key_lt_eq (p q : K × K) : lexLt [q.1, -q.2] [p.1, -p.2] = !(keyLe p q) := by
  simp only [lexLt, keyLe]
  by_cases h1 : p.1 = q.1
  · have h1' : q.1 = p.1 := h1.symm
    by_cases h2 : p.2 = q.2
    · simp [h1, h2]
    · have h2' : ¬ q.2 = p.2 := fun h => h2 h.symm
      simp [h1, h2']
  · have h1' : ¬ q.1 = p.1 := fun h => h1 h.symm
    simp [h1, h1']

omit [Field K] [LinearOrder K] [IsStrictOrderedRing K] in
theorem insertBy_eq {β : Type} (lt le : β → β → Bool) (h : ∀ a b, lt b a = !(le a b)) (x : β) : ∀ l : List β,
    insertBy lt x l = insSorted le x l
  | [] => rfl
  | y :: ys => by
    simp only [insertBy, insSorted, h, insertBy_eq lt le h x ys]
    cases le x y <;> rfl

theorem sorted_eq (A : List (K × K)) : pySortedBy (fun x => [x.1, -x.2]) A = stableSort keyLe A := by
  unfold pySortedBy stableSort
  induction A with
  | nil => rfl
  | cons x l ih =>
    simp only [List.foldr_cons, ih]
    exact insertBy_eq _ keyLe (fun a b => key_lt_eq a b) x _

/-- **the translated method is the model's sweep** -/
theorem compute_landscape_eq_model (bars : List (K × K)) :
    Ref.compute_landscape bars =
      (sweep bars).map fun o => (o.cps.length, o.cps.map fun c => c.map fun p => (XR.fin p.1, p.2)) := by
  unfold Ref.compute_landscape sweep
  simp only [sorted_eq]
  have hlen : (stableSort keyLe bars).length = bars.length :=
    (PersimVerif.LandscapeLemmas.stableSort_perm keyLe bars).length_eq
  have h := outer_loop_eq (α := K) (by simp) (bars.length + 1) (stableSort keyLe bars) [] 0
  simp only [List.length_nil, List.map_nil] at h
  rw [hlen, h]
  cases outer (bars.length + 1) (stableSort keyLe bars) [] 0 with
  | none => rfl
  | some o =>
    simp only [Option.map_some, List.length_map, List.map_map]
    congr 3
    funext c
    exact strip_closed c

/-- the translated method never gets stuck on finite bars: no exception of the translated statements, no unbound
    `b_prime`, no loop out of fuel (from the model's `sweep_total`) -/
theorem compute_landscape_isSome (bars : List (K × K)) : (Ref.compute_landscape bars).isSome = true := by
  obtain ⟨o, ho⟩ := PersimVerif.LandscapeLemmas.sweep_total bars
  rw [compute_landscape_eq_model, ho]; rfl

end

end PersimVerif.SrcBridge.Sweep
