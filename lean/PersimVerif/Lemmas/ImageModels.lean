import PersimVerif.Model.Image
import PersimVerif.Model.Transformers

/-!
# The three models of `_ensure_iterable` / `PersistenceImager.transform` agree

`persim/images.py` `_ensure_iterable` and `transform` are modelled three times, each time with what one
property needs:

* `Imager.ensureIterable` on `Imager.Input` (Model/Imager.lean) — C12 (and C18's `fit`): which diagrams a `fit`
  sees;
* `Image.ensureIterable`, `Image.transform` on `Image.Input` (Model/Image.lean) — C04/C11: the pixel content of
  every image of the output, with `_transform` as the parameter `one` (it may reject);
* `Transformers.imagerTransform` on `Imager.Input` (Model/Transformers.lean) — C18: only the container shape of
  the output, the per-diagram image being an abstract total function `img`.

The lemmas below say that these are the same function: `toImage` translates the input type, `toOutput` the
output type, and with the same per-diagram image the three agree on every input.
-/
namespace PersimVerif.ImageModels
open PersimVerif

variable {α : Type}

/-- the same argument, in the input type of the other model -/
def toImage : Imager.Input α → Image.Input α
  | .single d => .dgm d
  | .coll ds => .coll ds

/-- the same result, in the output type of the other model -/
def toOutput : Transformers.Output (Image.Mat α) → Image.Output α
  | .image i => .img i
  | .images l => .imgs l

/-- `_ensure_iterable`: C12's model and C04/C11's model return the same list of diagrams and the same flag -/
theorem ensureIterable_agree (x : Imager.Input α) :
    Image.ensureIterable (toImage x) = Imager.ensureIterable x := by
  match x with
  | .single [] => rfl
  | .single (_ :: _) => rfl
  | .coll [] => rfl
  | .coll ([] :: _) => rfl
  | .coll ((_ :: _) :: _) => rfl

private theorem mapM_ok (f : List (Image.Pt α) → Image.Mat α) (ds : List (List (Image.Pt α))) :
    ds.mapM (fun d => (Except.ok (f d) : Except Image.Err (Image.Mat α))) = .ok (ds.map f) := by
  induction ds with
  | nil => rfl
  | cons d t ih => simp only [List.mapM_cons, ih, List.map_cons]; rfl

/-- `transform`: when `_transform` succeeds on every diagram (`one d = ok (f d)`, which C04's
    `pixel_is_weighted_mass` proves for every well-formed mesh), C04/C11's `Image.transform` returns exactly the
    container that C18's `imagerTransform` describes — zeros of the resolution for an empty input, the bare image
    for one diagram, the list of images in order for a collection — for every `n_jobs`. -/
theorem transform_agree [Zero α] (f : List (Image.Pt α) → Image.Mat α) (rx ry : Nat) (nj : Option Nat)
    (s : Imager.State α) (skew : Bool) (x : Imager.Input α) :
    Image.transform (fun d => .ok (f d)) rx ry nj (toImage x) =
      .ok (toOutput (Transformers.imagerTransform (fun _ _ d => f d) (fun _ _ => Image.zeros rx ry) s skew x)) := by
  match x with
  | .single [] => rfl
  | .coll [] => rfl
  | .single (p :: t) =>
    cases nj <;>
      simp [Image.transform, toImage, Image.Input.len, Image.ensureIterable, Image.firstFirst,
        Transformers.imagerTransform, toOutput, List.mapM_cons, bind, Except.bind, pure, Except.pure]
  | .coll (d :: ds) =>
    have h := mapM_ok f (d :: ds)
    have he : Image.ensureIterable (Image.Input.coll (d :: ds)) = (d :: ds, false) := by
      cases d <;> rfl
    have hl : (Image.Input.coll (d :: ds)).len ≠ 0 := by simp [Image.Input.len]
    simp only [toImage, Image.transform, hl, if_false, he]
    cases nj <;> simp only [h] <;> rfl

end PersimVerif.ImageModels
