import PersimVerif.Model.Approx
import Mathlib.Algebra.Order.Field.Basic
import Mathlib.Algebra.Order.AbsoluteValue.Basic
import Mathlib.Tactic.Linarith
import Mathlib.Tactic.FieldSimp
import Mathlib.Tactic.Ring

/-!
# The grid and the snapping step (helpers for C08)

`linspace`, `argmin` (first minimum), `snapIdx`, `dictIndex` of `Model/Approx.lean` over a linear
ordered field `K`.
-/
namespace PersimVerif.ApproxLemmas
open PersimVerif.PL PersimVerif.Approx List

set_option linter.unusedSectionVars false

variable {K : Type} [Field K] [LinearOrder K] [IsStrictOrderedRing K]

theorem absv_eq_abs (x : K) : absv x = |x| := by simp [absv, abs_eq_max_neg]

/-! ### the grid -/

theorem linspace_length (s e : K) (n : Nat) : (linspace s e n).length = n := by
  simp [linspace]

theorem linspace_getElem? (s e : K) (n i : Nat) (hi : i < n) :
    (linspace s e n)[i]? = some (node s e n i) := by
  simp [linspace, hi]

theorem linspace_getElem (s e : K) (n i : Nat) (hi : i < (linspace s e n).length) :
    (linspace s e n)[i] = node s e n i := by
  simp [linspace]

theorem mem_linspace {s e : K} {n : Nat} {x : K} :
    x ∈ linspace s e n ↔ ∃ i, i < n ∧ node s e n i = x := by
  simp [linspace]

theorem stepOf_nonneg {s e : K} (h : s ≤ e) (n : Nat) : 0 ≤ stepOf s e n := by
  unfold stepOf
  apply div_nonneg (by linarith) (Nat.cast_nonneg _)

theorem stepOf_pos {s e : K} (h : s < e) {n : Nat} (hn : 2 ≤ n) : 0 < stepOf s e n := by
  unfold stepOf
  apply div_pos (by linarith)
  have : 0 < n - 1 := by omega
  exact_mod_cast this

theorem stepOf_eq_zero {s : K} (n : Nat) : stepOf s s n = 0 := by simp [stepOf]

theorem node_zero (s e : K) (n : Nat) : node s e n 0 = s := by simp [node]

theorem node_last (s e : K) {n : Nat} (hn : 2 ≤ n) : node s e n (n - 1) = e := by
  have h : ((n - 1 : Nat) : K) ≠ 0 := by
    have : 0 < n - 1 := by omega
    exact_mod_cast this.ne'
  simp only [node, stepOf]
  field_simp
  ring

theorem node_succ (s e : K) (n i : Nat) : node s e n (i + 1) = node s e n i + stepOf s e n := by
  simp only [node]; push_cast; ring

theorem node_sub_node (s e : K) (n i j : Nat) :
    node s e n i - node s e n j = ((i : K) - (j : K)) * stepOf s e n := by
  simp only [node]; ring

theorem node_mono {s e : K} (h : s ≤ e) (n : Nat) {i j : Nat} (hij : i ≤ j) :
    node s e n i ≤ node s e n j := by
  have h0 := stepOf_nonneg h n
  have : (i : K) ≤ (j : K) := by exact_mod_cast hij
  have := node_sub_node s e n j i
  nlinarith

theorem node_injective {s e : K} (h : s < e) {n : Nat} (hn : 2 ≤ n) {i j : Nat}
    (hij : node s e n i = node s e n j) : i = j := by
  have h0 := stepOf_pos h hn
  have h1 := node_sub_node s e n i j
  rw [hij, sub_self] at h1
  have : (i : K) - (j : K) = 0 := by
    rcases mul_eq_zero.mp h1.symm with h2 | h2
    · exact h2
    · exact absurd h2 h0.ne'
  exact_mod_cast sub_eq_zero.mp this

/-- every point of `[start, stop]` has a node within half a step (no floor needed: walk up the grid) -/
theorem exists_near_node {s e : K} (hse : s ≤ e) (n : Nat) (x : K) (hs : s ≤ x) :
    ∀ m : Nat, x ≤ node s e n m → ∃ j, j ≤ m ∧ |node s e n j - x| ≤ stepOf s e n / 2 := by
  have h0 := stepOf_nonneg hse n
  intro m
  induction m with
  | zero =>
    intro hx
    refine ⟨0, le_rfl, ?_⟩
    rw [node_zero] at hx ⊢
    have : s - x = 0 := by linarith
    rw [this, abs_zero]; linarith
  | succ m ih =>
    intro hx
    by_cases hm : x ≤ node s e n m
    · obtain ⟨j, hj, hb⟩ := ih hm
      exact ⟨j, by omega, hb⟩
    · rw [not_le] at hm
      rw [node_succ] at hx
      by_cases hhalf : x - node s e n m ≤ stepOf s e n / 2
      · refine ⟨m, by omega, ?_⟩
        rw [abs_sub_comm, abs_of_nonneg (by linarith)]; exact hhalf
      · rw [not_le] at hhalf
        refine ⟨m + 1, le_rfl, ?_⟩
        rw [node_succ, abs_of_nonneg (by linarith)]
        linarith

/-! ### `np.argmin`: the first minimum -/

theorem argminAux_spec (a : K) (t : List K) :
    (argminAux a t).1 < (a :: t).length ∧ (a :: t)[(argminAux a t).1]? = some (argminAux a t).2 ∧
      (∀ x ∈ a :: t, (argminAux a t).2 ≤ x) ∧
      (∀ j x, j < (argminAux a t).1 → (a :: t)[j]? = some x → (argminAux a t).2 < x) := by
  induction t generalizing a with
  | nil => simp [argminAux]
  | cons b t ih =>
    obtain ⟨h1, h2, h3, h4⟩ := ih b
    simp only [argminAux]
    split
    · rename_i hlt
      refine ⟨by simpa using h1, by simpa using h2, ?_, ?_⟩
      · intro x hx
        rcases List.mem_cons.mp hx with rfl | hx
        · exact hlt.le
        · exact h3 x hx
      · intro j x hj hx
        cases j with
        | zero => simp at hx; rw [← hx]; exact hlt
        | succ j => exact h4 j x (by simpa using hj) (by simpa using hx)
    · rename_i hnlt
      rw [not_lt] at hnlt
      refine ⟨by simp, by simp, ?_, ?_⟩
      · intro x hx
        rcases List.mem_cons.mp hx with rfl | hx
        · exact le_rfl
        · exact le_trans hnlt (h3 x hx)
      · intro j x hj; simp at hj

/-- `argmin` of a non-empty list: in range, a minimum, and the first one -/
theorem argmin_spec (l : List K) (hne : l ≠ []) :
    ∃ h : argmin l < l.length, (∀ x ∈ l, l[argmin l] ≤ x) ∧
      (∀ j (hj : j < l.length), j < argmin l → l[argmin l] < l[j]) := by
  cases l with
  | nil => exact absurd rfl hne
  | cons a t =>
    obtain ⟨h1, h2, h3, h4⟩ := argminAux_spec a t
    have hv : (a :: t)[(argminAux a t).1] = (argminAux a t).2 := by
      have := List.getElem?_eq_getElem h1
      rw [this] at h2
      exact Option.some.inj h2
    refine ⟨h1, ?_, ?_⟩
    · intro x hx; simp only [argmin]; rw [hv]; exact h3 x hx
    · intro j hj hlt
      simp only [argmin] at hlt ⊢
      rw [hv]
      exact h4 j _ hlt (List.getElem?_eq_getElem hj)

/-! ### snapping a coordinate -/

theorem snapIdx_lt (s e : K) {n : Nat} (hn : 1 ≤ n) (x : K) : snapIdx (linspace s e n) x < n := by
  have hne : (linspace s e n).map (fun g => absv (g - x)) ≠ [] := by
    intro h
    have := congrArg List.length h
    simp [linspace_length] at this
    omega
  obtain ⟨h, _⟩ := argmin_spec _ hne
  simpa [snapIdx, linspace_length] using h

/-- the snapped node is at least as close to `x` as every node -/
theorem snapIdx_min (s e : K) {n : Nat} (hn : 1 ≤ n) (x : K) (j : Nat) (hj : j < n) :
    |node s e n (snapIdx (linspace s e n) x) - x| ≤ |node s e n j - x| := by
  have hne : (linspace s e n).map (fun g => absv (g - x)) ≠ [] := by
    intro h
    have := congrArg List.length h
    simp [linspace_length] at this
    omega
  obtain ⟨h, hmin, _⟩ := argmin_spec _ hne
  have hm : absv (node s e n j - x) ∈ (linspace s e n).map (fun g => absv (g - x)) :=
    List.mem_map.mpr ⟨node s e n j, mem_linspace.mpr ⟨j, hj, rfl⟩, rfl⟩
  have := hmin _ hm
  simp only [List.getElem_map, linspace_getElem, absv_eq_abs] at this
  simpa [snapIdx, absv_eq_abs] using this

/-- `np.argmin` tie-break: no earlier node is as close as the snapped one -/
theorem snapIdx_first (s e : K) {n : Nat} (hn : 1 ≤ n) (x : K) (j : Nat)
    (hj : j < snapIdx (linspace s e n) x) :
    |node s e n (snapIdx (linspace s e n) x) - x| < |node s e n j - x| := by
  have hlt := snapIdx_lt s e hn x
  have hne : (linspace s e n).map (fun g => absv (g - x)) ≠ [] := by
    intro h
    have := congrArg List.length h
    simp [linspace_length] at this
    omega
  obtain ⟨h, _, hfirst⟩ := argmin_spec _ hne
  have := hfirst j (by simp [linspace_length]; omega) (by simpa [snapIdx] using hj)
  simp only [List.getElem_map, linspace_getElem, absv_eq_abs] at this
  simpa [snapIdx, absv_eq_abs] using this

/-! ### the dictionary lookup `dict_grid[...]` -/

private theorem dictFold_spec (grid : List K) (i : Nat) (m : Nat) (hm : m ≤ grid.length) :
    let r := (List.range m).foldl (fun acc j => if grid[j]? = grid[i]? then j else acc) i
    grid[r]? = grid[i]? ∧ (i < grid.length → r < grid.length) := by
  induction m with
  | zero => simp
  | succ m ih =>
    obtain ⟨h1, h2⟩ := ih (by omega)
    simp only [List.range_succ, List.foldl_append, List.foldl_cons, List.foldl_nil]
    split
    · rename_i heq
      exact ⟨heq, fun _ => by omega⟩
    · exact ⟨h1, h2⟩

/-- the looked-up index holds the same node value … -/
theorem dictIndex_val (grid : List K) (i : Nat) : grid[dictIndex grid i]? = grid[i]? :=
  (dictFold_spec grid i grid.length le_rfl).1

/-- … and is in range -/
theorem dictIndex_lt (grid : List K) (i : Nat) (hi : i < grid.length) : dictIndex grid i < grid.length :=
  (dictFold_spec grid i grid.length le_rfl).2 hi

/-- if the last node equals node `i`, the lookup returns the last index -/
theorem dictIndex_of_last_eq (grid : List K) (i m : Nat) (hlen : grid.length = m + 1)
    (h : grid[m]? = grid[i]?) : dictIndex grid i = m := by
  simp only [dictIndex, hlen, List.range_succ, List.foldl_append, List.foldl_cons, List.foldl_nil, h,
    ↓reduceIte]

/-- on a grid without repeated values the lookup is the identity -/
theorem dictIndex_eq_self (grid : List K) (i : Nat) (hi : i < grid.length)
    (hinj : ∀ a b, a < grid.length → b < grid.length → grid[a]? = grid[b]? → a = b) :
    dictIndex grid i = i :=
  hinj _ _ (dictIndex_lt grid i hi) hi (dictIndex_val grid i)

theorem gridIndex_lt (s e : K) {n : Nat} (hn : 1 ≤ n) (x : K) : gridIndex (linspace s e n) x < n := by
  have := dictIndex_lt (linspace s e n) (snapIdx (linspace s e n) x)
    (by rw [linspace_length]; exact snapIdx_lt s e hn x)
  rwa [linspace_length] at this

/-- the node at the looked-up index is the snapped node -/
theorem node_gridIndex (s e : K) {n : Nat} (hn : 1 ≤ n) (x : K) :
    node s e n (gridIndex (linspace s e n) x) = node s e n (snapIdx (linspace s e n) x) := by
  have h := dictIndex_val (linspace s e n) (snapIdx (linspace s e n) x)
  rw [linspace_getElem? s e n _ (snapIdx_lt s e hn x)] at h
  have h' := linspace_getElem? s e n _ (gridIndex_lt s e hn x)
  unfold gridIndex at h'
  rw [h] at h'
  exact (Option.some.inj h').symm

/-- on a constant grid (`start = stop`) every coordinate is looked up at the last index -/
theorem gridIndex_const (s : K) {n : Nat} (hn : 1 ≤ n) (x : K) : gridIndex (linspace s s n) x = n - 1 := by
  apply dictIndex_of_last_eq _ _ (n - 1) (by rw [linspace_length]; omega)
  rw [linspace_getElem? s s n _ (by omega), linspace_getElem? s s n _ (snapIdx_lt s s hn x)]
  simp [node, stepOf_eq_zero]

/-- **snap error**: a coordinate inside `[start, stop]` is snapped to a node at most half a step away -/
theorem snap_error_node {s e : K} {n : Nat} (hn : 2 ≤ n) (x : K) (hs : s ≤ x) (he : x ≤ e) :
    |node s e n (gridIndex (linspace s e n) x) - x| ≤ stepOf s e n / 2 := by
  have hse : s ≤ e := le_trans hs he
  rw [node_gridIndex s e (by omega) x]
  obtain ⟨j, hj, hb⟩ := exists_near_node hse n x hs (n - 1) (by rw [node_last s e hn]; exact he)
  exact le_trans (snapIdx_min s e (by omega) x j (by omega)) hb

/-- a coordinate that is a node is snapped to itself -/
theorem snap_fixed_node {s e : K} {n : Nat} (hn : 1 ≤ n) (j : Nat) (hj : j < n) :
    node s e n (gridIndex (linspace s e n) (node s e n j)) = node s e n j := by
  rw [node_gridIndex s e hn]
  have := snapIdx_min s e hn (node s e n j) j hj
  rw [sub_self, abs_zero] at this
  have := abs_nonpos_iff.mp this
  linarith

end PersimVerif.ApproxLemmas
