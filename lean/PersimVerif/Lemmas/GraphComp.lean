import PersimVerif.Lemmas.GraphRelabel
/-!
  C17 helper lemmas, part 4 (core Lean only): connected components labelled by first vertex, the first
  largest one, and the block `makeDist` selects.
-/
namespace PersimVerif.Graph

/-! ### small list facts -/

theorem find?_range_spec (p : Nat → Bool) (v : Nat) :
    match (List.range v).find? p with
    | some u => u < v ∧ p u = true ∧ ∀ w, w < u → p w = false
    | none => ∀ w, w < v → p w = false := by
  induction v with
  | zero => simp
  | succ v ih =>
    rw [List.range_succ, List.find?_append]
    cases h : (List.range v).find? p with
    | some u =>
      rw [h] at ih
      simp only [Option.some_or]
      exact ⟨by omega, ih.2.1, ih.2.2⟩
    | none =>
      rw [h] at ih
      simp only [Option.none_or]
      by_cases hv : p v = true
      · have e : [v].find? p = some v := by simp [hv]
        rw [e]
        exact ⟨by omega, hv, ih⟩
      · have e : [v].find? p = none := by simp [hv]
        rw [e]
        intro w hw
        rcases Nat.lt_or_ge w v with h1 | h1
        · exact ih w h1
        · have : w = v := by omega
          subst this
          simpa using hv

theorem foldl_max_ge (l : List Nat) (a : Nat) : a ≤ l.foldl max a ∧ ∀ x ∈ l, x ≤ l.foldl max a := by
  induction l generalizing a with
  | nil => simp
  | cons b l ih =>
    simp only [List.foldl_cons, List.mem_cons]
    have := ih (max a b)
    refine ⟨by omega, ?_⟩
    rintro x (rfl | hx)
    · omega
    · exact this.2 x hx

theorem foldl_max_mem (l : List Nat) (a : Nat) : l.foldl max a = a ∨ l.foldl max a ∈ l := by
  induction l generalizing a with
  | nil => simp
  | cons b l ih =>
    simp only [List.foldl_cons, List.mem_cons]
    rcases ih (max a b) with h | h
    · rw [h]
      rcases Nat.le_total a b with h' | h'
      · right; left; omega
      · left; omega
    · right; right; exact h

theorem le_maxList {l : List Nat} {x : Nat} (h : x ∈ l) : x ≤ maxList l := (foldl_max_ge l 0).2 x h

theorem maxList_le {l : List Nat} {b : Nat} (h : ∀ x ∈ l, x ≤ b) : maxList l ≤ b := by
  rcases foldl_max_mem l 0 with h' | h'
  · unfold maxList; omega
  · exact h _ h'

theorem maxList_mem {l : List Nat} (h : l ≠ []) : maxList l ∈ l := by
  rcases foldl_max_mem l 0 with h' | h'
  · cases l with
    | nil => exact absurd rfl h
    | cons b l =>
      have hb : b ≤ maxList (b :: l) := le_maxList (by simp)
      have : b = 0 := by unfold maxList at hb; omega
      unfold maxList
      rw [h', this]
      simp
  · exact h'

/-! ### reachability is an equivalence on the vertices -/

section comp
variable (rows : BMat) (hsym : Symm rows)

/-- reachability read off the BFS matrix -/
abbrev Reach (u v : Nat) : Prop := reachable (bfsAll rows) u v = true

theorem reach_iff (u v : Nat) : Reach rows u v ↔ ∃ d, dist rows u v = some d := by
  simp [Reach, reachable, dist, Option.isSome_iff_exists]

include hsym

theorem reach_refl {v : Nat} (hv : v < rows.length) : Reach rows v v :=
  (reach_iff rows v v).2 ⟨0, dist_self rows hsym hv⟩

theorem reach_symm {u v : Nat} (h : Reach rows u v) : Reach rows v u := by
  rw [reach_iff] at h ⊢
  rwa [dist_symm rows hsym]

omit hsym in
theorem reach_lt {u v : Nat} (h : Reach rows u v) : u < rows.length ∧ v < rows.length := by
  obtain ⟨d, hd⟩ := (reach_iff rows u v).1 h
  refine ⟨?_, ?_⟩
  · rcases Nat.lt_or_ge u rows.length with h' | h'
    · exact h'
    · rw [dist_of_ge rows (Or.inl h')] at hd; exact absurd hd (by simp)
  · rcases Nat.lt_or_ge v rows.length with h' | h'
    · exact h'
    · rw [dist_of_ge rows (Or.inr h')] at hd; exact absurd hd (by simp)

theorem reach_trans {u v w : Nat} (h1 : Reach rows u v) (h2 : Reach rows v w) : Reach rows u w := by
  have l1 := reach_lt rows h1
  have l2 := reach_lt rows h2
  obtain ⟨a, ha⟩ := (reach_iff rows u v).1 h1
  obtain ⟨b, hb⟩ := (reach_iff rows v w).1 h2
  obtain ⟨c, _, hc⟩ := dist_triangle rows hsym l1.1 l1.2 l2.2 ha hb
  exact (reach_iff rows u w).2 ⟨c, hc⟩

/-! ### representatives and labels -/

theorem rep_spec {v : Nat} (hv : v < rows.length) :
    rep (bfsAll rows) v ≤ v ∧ Reach rows (rep (bfsAll rows) v) v ∧
      ∀ w, w < rep (bfsAll rows) v → ¬ Reach rows w v := by
  have := find?_range_spec (fun u => reachable (bfsAll rows) u v) v
  unfold rep
  cases h : (List.range v).find? (fun u => reachable (bfsAll rows) u v) with
  | some u =>
    rw [h] at this
    simp only [Option.getD_some]
    exact ⟨by omega, this.2.1, fun w hw => by simpa [Reach] using this.2.2 w hw⟩
  | none =>
    rw [h] at this
    simp only [Option.getD_none]
    exact ⟨Nat.le_refl v, reach_refl rows hsym hv, fun w hw => by simpa [Reach] using this w hw⟩

theorem rep_lt {v : Nat} (hv : v < rows.length) : rep (bfsAll rows) v < rows.length :=
  Nat.lt_of_le_of_lt (rep_spec rows hsym hv).1 hv

theorem rep_eq_of_reach {u v : Nat} (h : Reach rows u v) : rep (bfsAll rows) u = rep (bfsAll rows) v := by
  have l := reach_lt rows h
  have su := rep_spec rows hsym l.1
  have sv := rep_spec rows hsym l.2
  have h1 : Reach rows (rep (bfsAll rows) v) u := reach_trans rows hsym sv.2.1 (reach_symm rows hsym h)
  have h2 : Reach rows (rep (bfsAll rows) u) v := reach_trans rows hsym su.2.1 h
  rcases Nat.lt_trichotomy (rep (bfsAll rows) u) (rep (bfsAll rows) v) with hlt | heq | hgt
  · exact absurd h2 (sv.2.2 _ hlt)
  · exact heq
  · exact absurd h1 (su.2.2 _ hgt)

theorem reach_of_rep_eq {u v : Nat} (hu : u < rows.length) (hv : v < rows.length)
    (h : rep (bfsAll rows) u = rep (bfsAll rows) v) : Reach rows u v := by
  have su := rep_spec rows hsym hu
  have sv := rep_spec rows hsym hv
  exact reach_trans rows hsym (reach_symm rows hsym su.2.1) (h ▸ sv.2.1)

theorem rep_rep {v : Nat} (hv : v < rows.length) :
    rep (bfsAll rows) (rep (bfsAll rows) v) = rep (bfsAll rows) v :=
  rep_eq_of_reach rows hsym (rep_spec rows hsym hv).2.1

omit hsym in
theorem rep_zero : rep (bfsAll rows) 0 = 0 := by simp [rep]

end comp

/-- number of component representatives below `k` -/
def countRoots (D : DMat) (k : Nat) : Nat := ((List.range k).filter fun u => rep D u == u).length

theorem countRoots_succ (D : DMat) (k : Nat) :
    countRoots D (k + 1) = countRoots D k + if rep D k = k then 1 else 0 := by
  unfold countRoots
  rw [List.range_succ, List.filter_append, List.length_append]
  by_cases h : rep D k = k <;> simp [h]

theorem countRoots_mono (D : DMat) {a b : Nat} (h : a ≤ b) : countRoots D a ≤ countRoots D b := by
  induction h with
  | refl => exact Nat.le_refl _
  | step _ ih => rw [countRoots_succ]; omega

theorem countRoots_lt (D : DMat) {a b : Nat} (h : a < b) (hr : rep D a = a) : countRoots D a < countRoots D b := by
  have h1 := countRoots_mono D (show a + 1 ≤ b from h)
  rw [countRoots_succ, if_pos hr] at h1
  omega

theorem label_eq (D : DMat) (v : Nat) : label D v = countRoots D (rep D v) := rfl

theorem numComponents_eq (D : DMat) : numComponents D = countRoots D D.length := rfl

section comp2
variable (rows : BMat) (hsym : Symm rows)
include hsym

theorem label_eq_iff {a b : Nat} (ha : a < rows.length) (hb : b < rows.length) :
    label (bfsAll rows) a = label (bfsAll rows) b ↔ rep (bfsAll rows) a = rep (bfsAll rows) b := by
  constructor
  · intro h
    rw [label_eq, label_eq] at h
    rcases Nat.lt_trichotomy (rep (bfsAll rows) a) (rep (bfsAll rows) b) with hlt | heq | hgt
    · have := countRoots_lt (bfsAll rows) hlt (rep_rep rows hsym ha); omega
    · exact heq
    · have := countRoots_lt (bfsAll rows) hgt (rep_rep rows hsym hb); omega
  · intro h; rw [label_eq, label_eq, h]

theorem label_lt {v : Nat} (hv : v < rows.length) : label (bfsAll rows) v < numComponents (bfsAll rows) := by
  rw [label_eq, numComponents_eq, length_bfsAll]
  exact countRoots_lt _ (rep_lt rows hsym hv) (rep_rep rows hsym hv)

omit hsym in
theorem label_zero : label (bfsAll rows) 0 = 0 := by
  rw [label_eq, rep_zero]; rfl

omit hsym in
@[simp] theorem length_labels : (labels (bfsAll rows)).length = rows.length := by simp [labels]

omit hsym in
theorem labels_getElem? {v : Nat} (hv : v < rows.length) :
    (labels (bfsAll rows))[v]? = some (label (bfsAll rows) v) := by
  simp [labels, hv]

omit hsym in
theorem mem_members (l v : Nat) :
    v ∈ members (labels (bfsAll rows)) l ↔ v < rows.length ∧ label (bfsAll rows) v = l := by
  unfold members
  rw [List.mem_filter, List.mem_range, length_labels]
  constructor
  · rintro ⟨hv, h⟩
    rw [labels_getElem? rows hv] at h
    exact ⟨hv, by simpa using h⟩
  · rintro ⟨hv, h⟩
    rw [labels_getElem? rows hv]
    exact ⟨hv, by simpa using h⟩

omit hsym in
theorem members_sorted (ls : List Nat) (l : Nat) : (members ls l).Pairwise (· < ·) :=
  List.Pairwise.filter _ List.pairwise_lt_range

omit hsym in
theorem count_labels_pos_iff (l : Nat) :
    0 < (labels (bfsAll rows)).count l ↔ ∃ v, v < rows.length ∧ label (bfsAll rows) v = l := by
  rw [List.count_pos_iff]
  simp only [labels, List.mem_map, List.mem_range, length_bfsAll]

/-- the first largest component is not empty -/
theorem largestComponent_ne_nil (hn : 0 < rows.length) : largestComponent (bfsAll rows) ≠ [] := by
  have hc : 0 < numComponents (bfsAll rows) := Nat.lt_of_le_of_lt (Nat.zero_le _) (label_lt rows hsym hn)
  let sz := sizes (labels (bfsAll rows)) (numComponents (bfsAll rows))
  have hne : sz ≠ [] := by
    intro h
    have : sz.length = 0 := by rw [h]; rfl
    simp [sz, sizes] at this
    omega
  have hmem : maxList sz ∈ sz := maxList_mem hne
  have hlt : largestLabel (bfsAll rows) < sz.length := List.idxOf_lt_length_of_mem hmem
  have hget : sz[largestLabel (bfsAll rows)] = maxList sz := List.getElem_idxOf hlt
  have h0 : sz[0]'(by simp [sz, sizes]; omega) ≤ maxList sz := le_maxList (List.getElem_mem _)
  have hs0 : sz[0]'(by simp [sz, sizes]; omega) = (labels (bfsAll rows)).count 0 := by simp [sz, sizes]
  have hsl : sz[largestLabel (bfsAll rows)] = (labels (bfsAll rows)).count (largestLabel (bfsAll rows)) := by
    simp [sz, sizes]
  have hpos0 : 0 < (labels (bfsAll rows)).count 0 :=
    (count_labels_pos_iff rows 0).2 ⟨0, hn, label_zero rows⟩
  have hpos : 0 < (labels (bfsAll rows)).count (largestLabel (bfsAll rows)) := by omega
  obtain ⟨v, hv, hl⟩ := (count_labels_pos_iff rows _).1 hpos
  intro hnil
  have : v ∈ largestComponent (bfsAll rows) := (mem_members rows _ v).2 ⟨hv, hl⟩
  rw [hnil] at this
  exact absurd this (by simp)

/-- any two vertices of the selected component reach each other -/
theorem reach_of_mem_largest {a b : Nat} (ha : a ∈ largestComponent (bfsAll rows))
    (hb : b ∈ largestComponent (bfsAll rows)) : Reach rows a b := by
  obtain ⟨ha1, ha2⟩ := (mem_members rows _ a).1 ha
  obtain ⟨hb1, hb2⟩ := (mem_members rows _ b).1 hb
  exact reach_of_rep_eq rows hsym ha1 hb1 ((label_eq_iff rows hsym ha1 hb1).1 (ha2.trans hb2.symm))

end comp2
end PersimVerif.Graph
