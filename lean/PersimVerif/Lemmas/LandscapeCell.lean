import PersimVerif.Lemmas.LandscapeAffine
import PersimVerif.Lemmas.LandscapeOrder

/-!
# Helper lemmas for C03, part 3: one accepted cell is correct at every `t` inside it and every depth
-/
set_option linter.unusedSectionVars false

namespace PersimVerif.LandscapeLemmas
open PersimVerif.PL PersimVerif.Landscape

variable {K : Type} [Field K] [LinearOrder K] [IsStrictOrderedRing K]

theorem cellOrder_perm (bars : List (K × K)) (l r : K) : (cellOrder bars l r).Perm bars := by
  unfold cellOrder
  have h := (stableSort_perm cellLe (bars.map fun p => (tentAt l p, tentAt r p, p))).map
    (fun x : K × K × (K × K) => x.2.2)
  rw [List.map_map] at h
  have e : ((fun x : K × K × (K × K) => x.2.2) ∘ fun p => (tentAt l p, tentAt r p, p)) = id := by
    funext p; rfl
  rw [e, List.map_id] at h
  exact h

theorem evalDepth_none {cps : List (List (K × K))} {k : Nat} (h : cps[k]? = none) (t : K) :
    evalDepth cps k t = 0 := by
  unfold evalDepth; rw [h]

theorem evalDepth_some {cps : List (List (K × K))} {k : Nat} {c : List (K × K)} (h : cps[k]? = some c) (t : K) :
    evalDepth cps k t = evalPL c t := by
  unfold evalDepth; rw [h]

/-- depth `k` of a candidate whose lists are well formed is affine on a cell without cut inside -/
theorem evalDepth_affine {bars : List (K × K)} {cps : List (List (K × K))}
    (hwf : ∀ c ∈ cps, wellFormed c = true) {l r : K} (hlr : l < r)
    (hin : ∀ e ∈ cuts bars cps, e ≤ l ∨ r ≤ e) (k : Nat) :
    AffineOn (fun s => evalDepth cps k s) l r := by
  cases hk : cps[k]? with
  | none =>
    apply affineOn_congr hlr.le (g := fun _ => 0) _ (affineOn_zero l r)
    intro t _ _; exact evalDepth_none hk t
  | some c =>
    have hc : c ∈ cps := List.mem_of_getElem? hk
    apply affineOn_congr hlr.le (g := evalPL c) _
      (evalPL_affine (hwf c hc) hlr (fun p hp => hin _ (crit_events_mem bars hc hp)))
    intro t _ _; exact evalDepth_some hk t

/-- the `k`-th entry of an order of the bars is affine on a cell without cut inside -/
theorem kthTent_affine {bars π : List (K × K)} (cps : List (List (K × K))) (hπ : π.Perm bars) {l r : K}
    (hlr : l < r) (hin : ∀ e ∈ cuts bars cps, e ≤ l ∨ r ≤ e) (k : Nat) :
    AffineOn (fun s => (π.map (tentAt s)).getD k 0) l r := by
  have key : ∀ s : K, (π.map (tentAt s)).getD k 0 = match π[k]? with
      | some p => tentAt s p
      | none => 0 := by
    intro s
    rw [List.getD_eq_getElem?_getD, List.getElem?_map]
    cases π[k]? <;> rfl
  cases hk : π[k]? with
  | none =>
    apply affineOn_congr hlr.le (g := fun _ => 0) _ (affineOn_zero l r)
    intro t _ _; rw [key, hk]
  | some p =>
    have hp : p ∈ bars := hπ.subset (List.mem_of_getElem? hk)
    obtain ⟨e1, e2, e3⟩ := bar_events_mem cps hp
    apply affineOn_congr hlr.le (g := fun s => tent p.1 p.2 s) _
      (tent_affine (hin _ e1) (hin _ e2) (hin _ e3))
    intro t _ _; rw [key, hk]; rfl

/-- **one accepted cell**: inside it the candidate is `eps`-close to the landscape at every depth -/
theorem cell_sound {eps : K} {bars : List (K × K)} {cps : List (List (K × K))} {K' : Nat}
    (heps : 0 ≤ eps) (hK : max bars.length cps.length ≤ K')
    (hwf : ∀ c ∈ cps, wellFormed c = true) {l r : K} (hlr : l < r)
    (hin : ∀ e ∈ cuts bars cps, e ≤ l ∨ r ≤ e)
    (hok : cellOK eps bars cps K' l r = true) {t : K} (h1 : l ≤ t) (h2 : t ≤ r) (k : Nat) :
    evalDepth cps k t - landscape bars k t ≤ eps ∧ landscape bars k t - evalDepth cps k t ≤ eps := by
  have hπ := cellOrder_perm bars l r
  generalize hπdef : cellOrder bars l r = π at hπ
  simp only [cellOK, hπdef, Bool.and_eq_true, List.all_eq_true, List.mem_range] at hok
  obtain ⟨⟨hdl, hdr⟩, hall⟩ := hok
  -- the order is descending at every point of the cell
  have hs : ∀ s, l ≤ s → s ≤ r → (π.map (tentAt s)).Pairwise (fun a b => b ≤ a) := by
    intro s hs1 hs2
    have pl := List.pairwise_map.mp (descB_pairwise hdl)
    have pr := List.pairwise_map.mp (descB_pairwise hdr)
    apply List.pairwise_map.mpr
    refine (pl.and pr).imp_of_mem ?_
    intro p q hp hq hpq
    obtain ⟨a1, a2, a3⟩ := bar_events_mem cps (hπ.subset hp)
    obtain ⟨b1, b2, b3⟩ := bar_events_mem cps (hπ.subset hq)
    exact affine_le (f := fun s => tent p.1 p.2 s) (g := fun s => tent q.1 q.2 s)
      (tent_affine (hin _ a1) (hin _ a2) (hin _ a3)) (tent_affine (hin _ b1) (hin _ b2) (hin _ b3))
      hlr hs1 hs2 hpq.1 hpq.2
  have hL : ∀ s, l ≤ s → s ≤ r → landscape bars k s = (π.map (tentAt s)).getD k 0 :=
    fun s hs1 hs2 => landscape_eq_of_order hπ s (hs s hs1 hs2) k
  rw [hL t h1 h2]
  by_cases hk : k < K'
  · obtain ⟨cl, cr⟩ := hall k hk
    rw [closeB_iff] at cl cr
    exact affine_close (f := fun s => evalDepth cps k s) (g := fun s => (π.map (tentAt s)).getD k 0)
      (evalDepth_affine hwf hlr hin k) (kthTent_affine cps hπ hlr hin k) hlr h1 h2 cl.1 cl.2 cr.1 cr.2
  · have hk' : K' ≤ k := not_lt.mp hk
    have h3 : cps[k]? = none := List.getElem?_eq_none (by omega)
    have h4 : (π.map (tentAt t)).getD k 0 = 0 := by
      rw [List.getD_eq_getElem?_getD, List.getElem?_eq_none]
      · rfl
      · rw [List.length_map, hπ.length_eq]; omega
    rw [evalDepth_none h3, h4]
    simp [heps]

end PersimVerif.LandscapeLemmas
