import PersimVerif.Lemmas.BottleneckOrder
import Mathlib.Data.List.Nodup
import Mathlib.Data.List.Perm.Subperm
import Mathlib.Data.List.Range
import Mathlib.Tactic.Linarith

/-!
# Matchings of the bipartite graphs handed to Hopcroft–Karp; vertex covers; the oracle contract
-/
namespace PersimVerif.Bottleneck

/-- `(i, j)` is an edge: `j ∈ graph[str(i)]` -/
def Edge (g : Graph) (i j : ℕ) : Prop := ∃ a, g[i]? = some a ∧ j ∈ a

/-- a matching of `g`: pairs are edges, no row twice, no column twice -/
structure IsMatching (g : Graph) (m : Matching) : Prop where
  edges : ∀ p ∈ m, Edge g p.1 p.2
  rows : (m.map Prod.fst).Nodup
  cols : (m.map Prod.snd).Nodup

/-- a maximum-cardinality matching -/
def IsMaxMatching (g : Graph) (m : Matching) : Prop :=
  IsMatching g m ∧ ∀ m', IsMatching g m' → m'.length ≤ m.length

/-- **the Hopcroft–Karp contract** (the only thing assumed about the `oracle` parameter) -/
def OracleMax (oracle : Graph → Matching) : Prop := ∀ g, IsMaxMatching g (oracle g)

theorem edgeB_iff (g : Graph) (i j : ℕ) : edgeB g i j = true ↔ Edge g i j := by
  unfold edgeB Edge
  cases h : g[i]? with
  | none => simp
  | some a => simp

theorem isMatchingB_iff (g : Graph) (m : Matching) : isMatchingB g m = true ↔ IsMatching g m := by
  unfold isMatchingB
  simp only [Bool.and_eq_true, List.all_eq_true, edgeB_iff, decide_eq_true_eq]
  exact ⟨fun ⟨⟨h1, h2⟩, h3⟩ => ⟨h1, h2, h3⟩, fun ⟨h1, h2, h3⟩ => ⟨⟨h1, h2⟩, h3⟩⟩

theorem Edge.lt_length {g : Graph} {i j : ℕ} (h : Edge g i j) : i < g.length := by
  obtain ⟨a, ha, _⟩ := h
  exact (List.getElem?_eq_some_iff.mp ha).1

section Threshold
variable {K : Type} [LinearOrder K]

theorem length_thresholdGraph (n : ℕ) (D : ℕ → ℕ → Ext K) (d : Ext K) :
    (thresholdGraph n D d).length = n := by simp [thresholdGraph]

theorem edge_threshold (n : ℕ) (D : ℕ → ℕ → Ext K) (d : Ext K) (i j : ℕ) :
    Edge (thresholdGraph n D d) i j ↔ i < n ∧ j < n ∧ D i j ≤ d := by
  unfold Edge thresholdGraph
  constructor
  · rintro ⟨a, ha, hj⟩
    rw [List.getElem?_eq_some_iff] at ha
    obtain ⟨hi, ha⟩ := ha
    simp only [List.length_map, List.length_range] at hi
    simp only [List.getElem_map, List.getElem_range] at ha
    subst ha
    simp only [List.mem_filter, List.mem_range, decide_eq_true_eq] at hj
    exact ⟨hi, hj.1, hj.2⟩
  · rintro ⟨hi, hj, hd⟩
    refine ⟨(List.range n).filter fun j => decide (D i j ≤ d), ?_, ?_⟩
    · rw [List.getElem?_eq_some_iff]
      exact ⟨by simpa using hi, by simp⟩
    · simp only [List.mem_filter, List.mem_range, decide_eq_true_eq]
      exact ⟨hj, hd⟩

/-- **threshold graphs grow with `d`** -/
theorem matching_mono (n : ℕ) (D : ℕ → ℕ → Ext K) {d d' : Ext K} (h : d ≤ d') {m : Matching}
    (hm : IsMatching (thresholdGraph n D d) m) : IsMatching (thresholdGraph n D d') m := by
  refine ⟨fun p hp => ?_, hm.rows, hm.cols⟩
  have := hm.edges p hp
  rw [edge_threshold] at this ⊢
  exact ⟨this.1, this.2.1, le_trans this.2.2 h⟩

end Threshold

/-- a duplicate-free list of numbers below `n` has at most `n` elements -/
theorem length_le_of_nodup_lt {l : List ℕ} {n : ℕ} (hn : l.Nodup) (hl : ∀ x ∈ l, x < n) : l.length ≤ n := by
  have : l ⊆ List.range n := fun x hx => List.mem_range.mpr (hl x hx)
  simpa using (List.subperm_of_subset hn this).length_le

/-- … and if it has exactly `n` elements, every number below `n` occurs -/
theorem mem_of_nodup_lt_full {l : List ℕ} {n : ℕ} (hn : l.Nodup) (hl : ∀ x ∈ l, x < n)
    (hlen : l.length = n) {k : ℕ} (hk : k < n) : k ∈ l := by
  have hsub : l ⊆ List.range n := fun x hx => List.mem_range.mpr (hl x hx)
  have hp : l.Perm (List.range n) :=
    (List.subperm_of_subset hn hsub).perm_of_length_le (by simp [hlen])
  exact hp.mem_iff.mpr (List.mem_range.mpr hk)

theorem IsMatching.length_le {g : Graph} {m : Matching} (hm : IsMatching g m) : m.length ≤ g.length := by
  have := length_le_of_nodup_lt hm.rows (n := g.length) (by
    intro x hx
    obtain ⟨p, hp, rfl⟩ := List.mem_map.mp hx
    exact (hm.edges p hp).lt_length)
  simpa using this

/-- pairs with the same row coincide -/
theorem IsMatching.row_unique {g : Graph} {m : Matching} (hm : IsMatching g m) {i j j' : ℕ}
    (h : (i, j) ∈ m) (h' : (i, j') ∈ m) : j = j' := by
  have := List.inj_on_of_nodup_map hm.rows h h' rfl
  exact (Prod.mk.inj this).2

theorem IsMatching.col_unique {g : Graph} {m : Matching} (hm : IsMatching g m) {i i' j : ℕ}
    (h : (i, j) ∈ m) (h' : (i', j) ∈ m) : i = i' := by
  have := List.inj_on_of_nodup_map hm.cols h h' rfl
  exact (Prod.mk.inj this).1

/-- the feasibility test of the loop, under the oracle contract, says exactly
    "the graph has a perfect matching" -/
theorem perfectB_oracle_iff {oracle : Graph → Matching} (ho : OracleMax oracle) (g : Graph) :
    perfectB g.length (oracle g) = true ↔ ∃ m, IsMatching g m ∧ m.length = g.length := by
  obtain ⟨h1, h2⟩ := ho g
  simp only [perfectB, beq_iff_eq]
  constructor
  · intro h; exact ⟨oracle g, h1, by omega⟩
  · rintro ⟨m, hm, hlen⟩
    have := h2 m hm
    have := h1.length_le
    omega

/-! ### vertex covers -/

theorem checkCover_sound {g : Graph} {R C : List ℕ} (h : checkCover g R C = true) {i j : ℕ}
    (he : Edge g i j) : i ∈ R ∨ j ∈ C := by
  obtain ⟨a, ha, hj⟩ := he
  unfold checkCover at h
  rw [List.all_eq_true] at h
  have hmem : (a, i) ∈ g.zipIdx := by
    rw [List.mem_zipIdx_iff_getElem?]
    simpa using ha
  have := h (a, i) hmem
  simp only [Bool.or_eq_true, List.contains_eq_mem, decide_eq_true_eq, List.all_eq_true] at this
  rcases this with h | h
  · exact Or.inl h
  · exact Or.inr (h j hj)

/-- weak duality: a matching is no larger than a vertex cover -/
theorem matching_le_cover {g : Graph} {R C : List ℕ} (hc : ∀ i j, Edge g i j → i ∈ R ∨ j ∈ C)
    {m : Matching} (hm : IsMatching g m) : m.length ≤ R.length + C.length := by
  classical
  have hsplit := List.length_eq_length_filter_add (l := m) (fun p => decide (p.1 ∈ R))
  have h1 : (m.filter fun p => decide (p.1 ∈ R)).length ≤ R.length := by
    have hnd : ((m.filter fun p => decide (p.1 ∈ R)).map Prod.fst).Nodup :=
      hm.rows.sublist (List.Sublist.map _ List.filter_sublist)
    have hsub : (m.filter fun p => decide (p.1 ∈ R)).map Prod.fst ⊆ R := by
      intro x hx
      obtain ⟨p, hp, rfl⟩ := List.mem_map.mp hx
      simpa using (List.mem_filter.mp hp).2
    simpa using (List.subperm_of_subset hnd hsub).length_le
  have h2 : (m.filter fun p => !decide (p.1 ∈ R)).length ≤ C.length := by
    have hnd : ((m.filter fun p => !decide (p.1 ∈ R)).map Prod.snd).Nodup :=
      hm.cols.sublist (List.Sublist.map _ List.filter_sublist)
    have hsub : (m.filter fun p => !decide (p.1 ∈ R)).map Prod.snd ⊆ C := by
      intro x hx
      obtain ⟨p, hp, rfl⟩ := List.mem_map.mp hx
      obtain ⟨hpm, hpr⟩ := List.mem_filter.mp hp
      have hpr' : p.1 ∉ R := by simpa using hpr
      rcases hc p.1 p.2 (hm.edges p hpm) with h | h
      · exact absurd h hpr'
      · exact h
    simpa using (List.subperm_of_subset hnd hsub).length_le
  omega

end PersimVerif.Bottleneck
