import PersimVerif.Model.Plot
/-
  Runtime library of the source translator of the PLOTTING functions (harness/translator/py2lean_plot.py, DESIGN.md 3.2):
  the Lean meaning of the matplotlib calls, Python builtins and NumPy idioms that the generated definitions of
  `Generated/SrcPlot.lean` use as TABLE ENTRIES (each with the convention stated at its definition).  Core Lean only.
  Part of the translator's conventions (trusted like them); the lemmas relating these definitions to `Model/Plot.lean`
  are in `Lemmas/SrcBridgePlot.lean`.

  A plotting function is read as a function from its arguments and the state of the figure BEFORE the call to the state
  AFTER it (`SFig`): the artists added so far, each tagged with the axes it was added to, and what the `set_…` calls stored.
  Styling arguments are carried along AS VALUES (`Mpl`): the positional arguments after the data and the keyword arguments
  other than `label`, in source order; a styling argument that is an opaque parameter of the function (`size`, `ax_color`,
  `alpha`) is the value `param "<name>"`.  `styleMpl` says which styling arguments each abstract style of the model stands
  for (the table the harness's read-back check `style_ok` uses); it is injective (`SrcBridge.Plot.mpl_injective`), so equality
  of a translated figure with `SFig.after fig (model figure)` loses nothing.
-/
namespace PersimVerif.SrcPlot
open PersimVerif.Plot

/-! ### styling arguments, artists, the state of a figure -/

/-- a styling argument: a string / non-negative integer constant (possibly held in a local variable), or an opaque
    parameter of the translated function, named -/
inductive StyleVal where
  | str (s : String)
  | num (n : Nat)
  | param (name : String)
  deriving DecidableEq, Repr

/-- the styling arguments of one matplotlib call: positional arguments after the data, keyword arguments other than `label` -/
structure Mpl where
  pos : List StyleVal
  kw : List (String × StyleVal)
  deriving DecidableEq, Repr

/-- which matplotlib arguments an abstract style of `Model/Plot.lean` stands for (the comments at `Plot.Style`) -/
def styleMpl : Style → Mpl
  | .horizon => ⟨[], [("c", .param "ax_color")]⟩
  | .diagonal => ⟨[.str "--"], [("c", .param "ax_color")]⟩
  | .infLine => ⟨[.str "--"], [("c", .str "k")]⟩
  | .matchMax => ⟨[.str "C3"], [("linewidth", .num 2), ("linestyle", .str "-")]⟩
  | .matchOther => ⟨[.str "C2"], [("linewidth", .num 1), ("linestyle", .str "--")]⟩
  | .wass => ⟨[.str "g"], []⟩
  | .landscape => ⟨[], [("alpha", .param "alpha")]⟩

/-- `ax.scatter(xs, ys, size, label=…, edgecolor="none")` (the comment at `Plot.Artist.scatter`) -/
def scatterMpl : Mpl := ⟨[.param "size"], [("edgecolor", .str "none")]⟩

/-- `ax.legend(loc="lower right")` of `plot_diagrams` -/
def legendMpl : Mpl := ⟨[], [("loc", .str "lower right")]⟩

/-- an artist as the source adds it: the axes handle, the data, the styling arguments as written, the `label` keyword -/
inductive SArtist (α : Type) where
  | scatter (ax : Axes) (pts : List (α × α)) (st : Mpl) (label : Option String)
  | line (ax : Axes) (xs ys : List α) (st : Mpl) (label : Option String)

/-- the state of the figure: artists in the order they were added; the last value each setter stored, with the axes handle
    it was called on (`none`: never called) -/
structure SFig (α : Type) where
  artists : List (SArtist α)
  xlim : Option (Axes × α × α)
  ylim : Option (Axes × α × α)
  xlabel : Option (Axes × String)
  ylabel : Option (Axes × String)
  title : Option (Axes × String)
  legend : Option (Axes × Mpl)

section
variable {α : Type}

/-- fresh axes -/
def SFig.empty : SFig α := ⟨[], none, none, none, none, none, none⟩

/-- `ax.plot(…)` / `ax.scatter(…)` / `plt.plot(…)`: one more artist -/
def SFig.add (f : SFig α) (a : SArtist α) : SFig α := { f with artists := f.artists ++ [a] }

/-- `ax.set_xlim([a, b])` -/
def SFig.set_xlim (f : SFig α) (ax : Axes) (a b : α) : SFig α := { f with xlim := some (ax, a, b) }

/-- `ax.set_ylim([a, b])` -/
def SFig.set_ylim (f : SFig α) (ax : Axes) (a b : α) : SFig α := { f with ylim := some (ax, a, b) }

/-- `ax.set_xlabel(s)` -/
def SFig.set_xlabel (f : SFig α) (ax : Axes) (s : String) : SFig α := { f with xlabel := some (ax, s) }

/-- `ax.set_ylabel(s)` -/
def SFig.set_ylabel (f : SFig α) (ax : Axes) (s : String) : SFig α := { f with ylabel := some (ax, s) }

/-- `ax.set_title(s)` -/
def SFig.set_title (f : SFig α) (ax : Axes) (s : String) : SFig α := { f with title := some (ax, s) }

/-- `ax.legend(…)` -/
def SFig.set_legend (f : SFig α) (ax : Axes) (st : Mpl) : SFig α := { f with legend := some (ax, st) }

/-- an artist of the model, as the source adds it -/
def SArtist.ofModel : Artist α → SArtist α
  | .scatter ax pts label => .scatter ax pts scatterMpl (some label)
  | .line ax xs ys st label => .line ax xs ys (styleMpl st) label

/-- the state after a diagram plot of the model (`m`) on a figure that was in state `f`: the artists are appended; limits are
    stored; labels, title and legend are stored when the model sets them (all on the GIVEN axes) -/
def SFig.after (f : SFig α) (m : Fig α) : SFig α :=
  { artists := f.artists ++ m.artists.map SArtist.ofModel
    xlim := some (Axes.given, m.xlim.1, m.xlim.2)
    ylim := some (Axes.given, m.ylim.1, m.ylim.2)
    xlabel := match m.xlabel with | some s => some (Axes.given, s) | none => f.xlabel
    ylabel := match m.ylabel with | some s => some (Axes.given, s) | none => f.ylabel
    title := match m.title with | some s => some (Axes.given, s) | none => f.title
    legend := if m.legend then some (Axes.given, legendMpl) else f.legend }

/-- the state after the model's artists `as` were added (the 2-D landscape plots, whose model is the list of lines) -/
def SFig.afterArtists (f : SFig α) (as : List (Artist α)) : SFig α :=
  { f with artists := f.artists ++ as.map SArtist.ofModel }

/-! ### arguments that are one of several Python types -/

/-- `if not isinstance(x, list): x = [x]` on `diagrams` (an ndarray or a list of ndarrays) -/
def listOfArg : DgmsArg α → List (Dgm α)
  | .single d => [d]
  | .many ds => ds

/-- `if labels is None: labels = e` on `labels` (`None`, a string or a list of strings): afterwards a string or a list -/
def labelsOrElse (l : Labels) (e : List String) : String ⊕ List String :=
  match l with
  | .default => .inr e
  | .one s => .inl s
  | .many ls => .inr ls

/-- `if not isinstance(labels, list): labels = [labels] * n` on a string or a list of strings -/
def broadcastStr (l : String ⊕ List String) (n : Nat) : List String :=
  match l with
  | .inl s => List.replicate n s
  | .inr ls => ls

/-- `"$H_{{{}}}$".format(i)` -/
def hLabel (i : Nat) : String := "$H_{" ++ toString i ++ "}$"

/-- `f"$\lambda_{{{depth}}}$"` -/
def lamLabel (k : Nat) : String := "$\\lambda_{" ++ toString k ++ "}$"

/-- `r"$\infty$"` -/
def infText : String := "$\\infty$"

/-- truth value of an argument that is `None` or a list (`if plot_only:`): a non-empty list -/
def truthy {β : Type} : Option (List β) → Bool
  | some (_ :: _) => true
  | _ => false

/-- `if x:` / `if not x:` on an argument that is `None` or a value that is never falsy in the model's type (`xy_range`: a list of
    four numbers; the empty list `[]`, falsy but not `None`, is not a value of `Option (α × α × α × α)`): the value when the
    argument is TRUTHY.  Defined by cases (not as the identity) so that `match truthyVal x with …` -- the truthiness test -- and
    `match x with …` -- the test `x is None` -- are different texts that `rfl` does not identify. -/
def truthyVal {β : Type} : Option β → Option β
  | some v => some v
  | none => none

/-- the elements of an argument that is `None` or a list, where the source iterates over it (reached only when it is
    truthy; `None` has no elements) -/
def seqOf {β : Type} : Option (List β) → List β
  | some l => l
  | none => []

/-- `[xs[i] for i in idx]` with Python indexing (`Plot.pyGet`); `none` = `IndexError` -/
def compGet {β : Type} (xs : List β) (idx : List Int) : Option (List β) := idx.mapM (pyGet xs)

/-! ### NumPy idioms on diagrams: an `(n, 2)` float array whose second column may hold `inf` (`Plot.Dgm`) -/

/-- an entry that may be `inf`, where a number is drawn or computed with: `infv` stands for what IEEE arithmetic / matplotlib
    make of `inf` there.  It is a parameter of every generated definition and the obligations hold for EVERY value of it,
    i.e. no infinite entry reaches such a place. -/
def fin (infv : α) : Option α → α
  | some x => x
  | none => infv

/-- `dgm.astype(np.float32, copy=True)`: every entry is cast (`inf` stays `inf`); a NEW array -/
def astypeF32 (cast : α → α) (d : Dgm α) : Dgm α := d.map fun p => (cast p.1, p.2.map cast)

/-- `np.concatenate(arrays)` of `(n_i, 2)` arrays; `none` = `ValueError` (need at least one array) -/
def npConcatenate : List (Dgm α) → Option (Dgm α)
  | [] => none
  | d :: ds => some (d :: ds).flatten

/-- `a.flatten()` of an `(n, 2)` array, row-major -/
def flatten2 (d : Dgm α) : List (Option α) := d.flatMap fun p => [some p.1, p.2]

/-- `np.any(np.isinf(v))` (births are finite, `none` is `+inf`) -/
def anyIsinf (v : List (Option α)) : Bool := v.any fun x => x.isNone

/-- `v[np.isfinite(v)]` -/
def selectFinite (v : List (Option α)) : List α := v.filterMap id

/-- `np.min(v)`; `none` = `ValueError` (zero-size array) -/
def npMin [Min α] (v : List α) : Option α := v.min?

/-- `np.max(v)`; `none` = `ValueError` (zero-size array) -/
def npMax [Max α] (v : List α) : Option α := v.max?

/-- `dgm[:, 1] -= dgm[:, 0]` (in place; `inf - b` is `inf`) -/
def colSubInPlace [Sub α] (d : Dgm α) : Dgm α := d.map fun p => (p.1, p.2.map fun e => e - p.1)

/-- `dgm[np.isinf(dgm)] = v` (in place; births are finite) -/
def setWhereInf (d : Dgm α) (v : α) : Dgm α := d.map fun p => (p.1, some (fin v p.2))

/-- `dgm[:, 0]` -/
def colBirth (d : Dgm α) : List α := d.map fun p => p.1

/-- `dgm[:, 1]` (may hold `inf`) -/
def colDeath (d : Dgm α) : List (Option α) := d.map fun p => p.2

/-- a column that may hold `inf`, where it is drawn -/
def finL (infv : α) (v : List (Option α)) : List α := v.map (fin infv)

/-- `np.isfinite(v)` -/
def isfiniteMask (v : List (Option α)) : List Bool := v.map fun x => x.isSome

/-- `a[mask]` for a Boolean mask over the rows: the rows at which the mask is `True`, in order (a NEW array) -/
def maskRows {β : Type} : List β → List Bool → List β
  | x :: xs, b :: bs => if b then x :: maskRows xs bs else maskRows xs bs
  | _, _ => []

/-- `a.size` of an `(n, 2)` array -/
def npSize (d : Dgm α) : Nat := 2 * d.length

/-- `np.array([[0, 0]])` -/
def zeroRow [Zero α] : Dgm α := [(0, some 0)]

/-- the offsets of `ax.scatter(xs, ys, …)` -/
def offsets (xs ys : List α) : List (α × α) := xs.zip ys

/-! ### the rotation of the matching plots -/

/-- a 2x2 array `np.array([[a, b], [c, d]])` -/
structure Mat2 (α : Type) where
  a : α
  b : α
  c : α
  d : α

/-- `R.T` -/
def Mat2.T (m : Mat2 α) : Mat2 α := ⟨m.a, m.c, m.b, m.d⟩

/-- `v.dot(M)` for a 2-vector -/
def vecDot [Add α] [Mul α] (v : α × α) (m : Mat2 α) : α × α := (v.1 * m.a + v.2 * m.c, v.1 * m.b + v.2 * m.d)

/-- `dgm.dot(M)` for an `(n, 2)` array: every row times `M` -/
def dotRows [Add α] [Mul α] (infv : α) (d : Dgm α) (m : Mat2 α) : List (α × α) :=
  d.map fun p => vecDot (p.1, fin infv p.2) m

/-! ### matchings: an `(m, 3)` array whose first two columns hold integers (`Plot.Row`) -/

/-- `matching[:, 2]` -/
def colDist (m : List (Row α)) : List α := m.map fun r => r.2.2

/-- `enumerate(xs)` -/
def pyEnumerateFrom {β : Type} : Nat → List β → List (Nat × β)
  | _, [] => []
  | k, x :: xs => (k, x) :: pyEnumerateFrom (k + 1) xs

def pyEnumerate {β : Type} (xs : List β) : List (Nat × β) := pyEnumerateFrom 0 xs

/-! ### 2-D landscape plots -/

/-- what the plots read of a `PersLandscapeExact`, as the object is when it is passed in (it may have been built with
    `compute=False`): `depths` = the stored `critical_pairs` (what iterating a COMPUTED object yields: `__getitem__(0)`,
    `__getitem__(1)`, … until `IndexError`), `max_depth` = the stored attribute, and `fromDgms` = the list that
    `compute_landscape()` computes from `self.dgms` when nothing is stored (the sweep of Generated/SrcSweep.lean applied to the
    object's diagram: `sweep o.dgms` of `SrcLib.Landscape.ExactObj.compute_landscape`, here a field of the object) -/
structure LandExact (α : Type) where
  depths : List (List (α × α))
  max_depth : Int
  fromDgms : List (List (α × α))

/-- `landscape.compute_landscape()` as the STATE TRANSFORMER it is: `if self.critical_pairs: return …` (nothing changes when a
    landscape is stored), otherwise `self.max_depth = len(L)`, `self.critical_pairs = […]` (the same representation as
    `SrcLib.Landscape.ExactObj.compute_landscape`, with `max_depth`, which the plots read, written too) -/
def LandExact.compute_landscape (o : LandExact α) : LandExact α :=
  if o.depths.isEmpty then { o with depths := o.fromDgms, max_depth := (o.fromDgms.length : Int) } else o

/-- the same for a `PersLandscapeApprox`: the rows of the stored `values`, `max_depth`, `start`, `stop`, and `fromDgms` = the rows
    of the array that `compute_landscape()` computes from `self.dgms` on the grid when `values` is empty (`ramp o.dgms …` of
    `SrcLib.Landscape.GridObj.compute_landscape`) -/
structure LandApprox (α : Type) where
  depths : List (List α)
  max_depth : Int
  start : α
  stop : α
  fromDgms : List (List α)

/-- `landscape.compute_landscape()`: `if self.values.size: return`, otherwise `self.values = L`, `self.max_depth = len(L)` -/
def LandApprox.compute_landscape (o : LandApprox α) : LandApprox α :=
  if o.depths.all (·.isEmpty) then { o with depths := o.fromDgms, max_depth := (o.fromDgms.length : Int) } else o

/-- `if not depth_range: depth_range = range(stop)` on `None`-or-a-list-of-depths (a `range` object is the list of its elements) -/
def rangeOr (dr : Option (List Nat)) (stop : Int) : List Nat :=
  if truthy dr then seqOf dr else List.range stop.toNat

/-- truth value of `None`-or-a-string (`if title:`): a non-empty string -/
def truthyStr : Option String → Bool
  | some s => s != ""
  | none => false

/-- a `None`-or-a-string where a string is passed on (reached only when it is truthy) -/
def strOf : Option String → String
  | some s => s
  | none => ""

/-- what the 2-D landscape plots do after their lines: `ax.legend()`, `if title: ax.set_title(title)`,
    `if labels: ax.set_xlabel(labels[0]); ax.set_ylabel(labels[1])` (on a figure in state `f`, given axes) -/
def SFig.landAfter (f : SFig α) (title : Option String) (labels : Option (List String)) : SFig α :=
  { f with
    legend := some (Axes.given, ⟨[], []⟩)
    title := if truthyStr title then some (Axes.given, strOf title) else f.title
    xlabel := if truthy labels then some (Axes.given, ((seqOf labels)[0]?).getD "") else f.xlabel
    ylabel := if truthy labels then some (Axes.given, ((seqOf labels)[1]?).getD "") else f.ylabel }

/-- `np.array(l)[:, 0]`, `np.array(l)[:, 1]` for a list of pairs -/
def pairsCol0 (l : List (α × α)) : List α := l.map fun p => p.1
def pairsCol1 (l : List (α × α)) : List α := l.map fun p => p.2

end
end PersimVerif.SrcPlot
