import PersimVerif.Model.Image
/-!
  Structural lemmas about the model of `_transform` (no algebra, no Mathlib): what the slices,
  the meshgrid / flatten / reshape round trip and the accumulation loop compute, in closed form
  over the list of *pixel rectangles* `pairs bs × pairs ps`.
-/
namespace PersimVerif.Image

/-- consecutive mesh points: `[(l₀,l₁), (l₁,l₂), …]` — one entry per pixel along an axis -/
def pairs {α : Type} (l : List α) : List (α × α) := l.zip l.tail

/-- the inclusion–exclusion corner combination of `G` on the rectangle `q × r`
    (`q = (b_i, b_{i+1})`, `r = (p_j, p_{j+1})`), in the order the code writes it -/
def rect {α : Type} [Add α] [Sub α] (G : α → α → α) (q r : α × α) : α :=
  G q.2 r.2 - G q.1 r.2 - G q.2 r.1 + G q.1 r.1

section lists
variable {α β γ : Type}

@[simp] theorem pairs_nil : pairs ([] : List α) = [] := rfl
@[simp] theorem pairs_singleton (a : α) : pairs [a] = [] := rfl
@[simp] theorem pairs_cons_cons (a b : α) (t : List α) : pairs (a :: b :: t) = (a, b) :: pairs (b :: t) := rfl

theorem length_pairs (l : List α) : (pairs l).length = l.length - 1 := by
  simp only [pairs, List.length_zip, List.length_tail]; omega

theorem tail_eq_map_snd_pairs : ∀ (l : List α), l.tail = (pairs l).map Prod.snd
  | [] => rfl
  | [_] => rfl
  | a :: b :: t => by
    have ih := tail_eq_map_snd_pairs (b :: t)
    simp only [List.tail_cons] at ih
    simp only [List.tail_cons, pairs_cons_cons, List.map_cons, ← ih]

theorem dropLast_eq_map_fst_pairs : ∀ (l : List α), l.dropLast = (pairs l).map Prod.fst
  | [] => rfl
  | [_] => rfl
  | a :: b :: t => by
    have ih := dropLast_eq_map_fst_pairs (b :: t)
    simp only [List.dropLast_cons_cons, pairs_cons_cons, List.map_cons, ih]

theorem zipWith_map_same (f : β → β → γ) (g h : α → β) (l : List α) :
    List.zipWith f (l.map g) (l.map h) = l.map fun x => f (g x) (h x) := by
  induction l with
  | nil => rfl
  | cons a t ih => simp only [List.map_cons, List.zipWith_cons_cons, ih]

/-- `pairs` gives the two consecutive entries, by index -/
theorem getElem?_pairs (l : List α) (i : Nat) (x y : α) :
    (pairs l)[i]? = some (x, y) ↔ l[i]? = some x ∧ l[i + 1]? = some y := by
  simp only [pairs, List.getElem?_zip_eq_some, List.getElem?_tail]

end lists

section matrices
variable {α : Type}

/-- a matrix given entrywise over two index lists -/
def tabulate {κ ι : Type} (Q : List κ) (R : List ι) (g : κ → ι → α) : Mat α :=
  Q.map fun q => R.map fun r => g q r

theorem matZip_tabulate {κ ι : Type} (f : α → α → α) (Q : List κ) (R : List ι) (g h : κ → ι → α) :
    matZip f (tabulate Q R g) (tabulate Q R h) = tabulate Q R fun q r => f (g q r) (h q r) := by
  simp only [matZip, tabulate, zipWith_map_same]

theorem scale_tabulate [Mul α] {κ ι : Type} (w : α) (Q : List κ) (R : List ι) (g : κ → ι → α) :
    scale w (tabulate Q R g) = tabulate Q R fun q r => w * g q r := by
  simp only [scale, tabulate, List.map_map, Function.comp_def]

theorem zeros_eq_tabulate [Zero α] {κ ι : Type} (Q : List κ) (R : List ι) :
    zeros Q.length R.length = tabulate Q R fun _ _ => (0 : α) := by
  simp only [zeros, tabulate, List.map_const']

/-- the four slices of an outer-product-shaped table combine to the corner combination on each pixel -/
theorem inclExcl_outer [Add α] [Sub α] (G : α → α → α) (bs ps : List α) :
    inclExcl (bs.map fun b => ps.map (G b)) = tabulate (pairs bs) (pairs ps) (rect G) := by
  have hT : ∀ b : α, (ps.map (G b)).tail = (pairs ps).map fun r => G b r.2 := by
    intro b; rw [← List.map_tail, tail_eq_map_snd_pairs, List.map_map]; rfl
  have hD : ∀ b : α, (ps.map (G b)).dropLast = (pairs ps).map fun r => G b r.1 := by
    intro b; rw [← List.map_dropLast, dropLast_eq_map_fst_pairs, List.map_map]; rfl
  have ha : ((bs.map fun b => ps.map (G b)).tail.map List.tail)
      = tabulate (pairs bs) (pairs ps) fun q r => G q.2 r.2 := by
    rw [← List.map_tail, tail_eq_map_snd_pairs]
    simp only [List.map_map, Function.comp_def, hT, tabulate]
  have hb : ((bs.map fun b => ps.map (G b)).dropLast.map List.tail)
      = tabulate (pairs bs) (pairs ps) fun q r => G q.1 r.2 := by
    rw [← List.map_dropLast, dropLast_eq_map_fst_pairs]
    simp only [List.map_map, Function.comp_def, hT, tabulate]
  have hc : ((bs.map fun b => ps.map (G b)).tail.map List.dropLast)
      = tabulate (pairs bs) (pairs ps) fun q r => G q.2 r.1 := by
    rw [← List.map_tail, tail_eq_map_snd_pairs]
    simp only [List.map_map, Function.comp_def, hD, tabulate]
  have hd : ((bs.map fun b => ps.map (G b)).dropLast.map List.dropLast)
      = tabulate (pairs bs) (pairs ps) fun q r => G q.1 r.1 := by
    rw [← List.map_dropLast, dropLast_eq_map_fst_pairs]
    simp only [List.map_map, Function.comp_def, hD, tabulate]
  simp only [inclExcl, ha, hb, hc, hd, matZip_tabulate]
  rfl

/-- one `pers_img += w * (…)` on a tabulated image -/
theorem accumulate_outer [Add α] [Sub α] [Mul α] (acc : α × α → α × α → α) (w : α)
    (G : α → α → α) (bs ps : List α) :
    accumulate (tabulate (pairs bs) (pairs ps) acc) w (bs.map fun b => ps.map (G b))
      = tabulate (pairs bs) (pairs ps) fun q r => acc q r + w * rect G q r := by
  simp only [accumulate, inclExcl_outer, scale_tabulate, matZip_tabulate]

end matrices

section reshape
variable {α : Type}

theorem reshapeC_flatten_rows (rows : List (List α)) (c : Nat) (h : ∀ row ∈ rows, row.length = c) :
    reshapeC rows.length c rows.flatten = rows := by
  induction rows with
  | nil => rfl
  | cons row rest ih =>
    have hr : row.length = c := h row (by simp)
    have ih' := ih (fun x hx => h x (by simp [hx]))
    simp only [List.length_cons, List.flatten_cons, reshapeC]
    rw [List.take_left' hr, List.drop_left' hr, ih']

/-- meshgrid(indexing="ij") → flatten("C") → elementwise kernel → reshape("C") is the table `F b_i p_j` -/
theorem reshape_vectorize_flatMesh (f : α → α → α) (bs ps : List α) :
    reshapeC bs.length ps.length (List.zipWith f (flatMesh bs ps).1 (flatMesh bs ps).2)
      = bs.map fun b => ps.map (f b) := by
  have hrow : ∀ (b : α) (u : List α), List.zipWith f (u.map fun _ => b) u = u.map (f b) := by
    intro b u
    induction u with
    | nil => rfl
    | cons p u ihp => simp only [List.map_cons, List.zipWith_cons_cons, ihp]
  have hz : List.zipWith f (flatMesh bs ps).1 (flatMesh bs ps).2
      = (bs.map fun b => ps.map (f b)).flatten := by
    simp only [flatMesh, flattenC, meshgridIJ]
    induction bs with
    | nil => rfl
    | cons b t ih =>
      simp only [List.map_cons, List.flatten_cons]
      rw [List.zipWith_append (by simp), ih, hrow]
  rw [hz]
  have := reshapeC_flatten_rows (bs.map fun b => ps.map (f b)) ps.length (by
    intro row hrow
    obtain ⟨b, _, rfl⟩ := List.mem_map.mp hrow
    simp)
  simpa using this

theorem length_vectorize_flatMesh (f : α → α → α) (bs ps : List α) :
    (List.zipWith f (flatMesh bs ps).1 (flatMesh bs ps).2).length = bs.length * ps.length := by
  simp only [flatMesh, flattenC, meshgridIJ, List.length_zipWith]
  induction bs with
  | nil => simp
  | cons b t ih =>
    simp only [List.map_cons, List.flatten_cons, List.length_append, List.length_map, List.length_cons] at ih ⊢
    rw [Nat.succ_mul]; omega

end reshape

section loops
set_option linter.unusedSectionVars false
variable {α : Type} [Add α] [Sub α] [Mul α] [Div α] [Zero α]

/-- the image in closed form over the pixel rectangles, accumulating in the code's order (from 0, left to right) -/
def imageFold {P : Type} (F : P → α → α → α) (bs ps : List α) (pws : List (P × α)) : Mat α :=
  tabulate (pairs bs) (pairs ps) fun q r =>
    pws.foldl (fun acc pw => acc + pw.2 * rect (F pw.1) q r) 0

theorem zeros_of_meshOk {rx ry : Nat} {bs ps : List α} (h : meshOk rx ry bs ps) :
    (zeros rx ry : Mat α) = tabulate (pairs bs) (pairs ps) fun _ _ => (0 : α) := by
  have h1 : (pairs bs).length = rx := by rw [length_pairs, h.1]; rfl
  have h2 : (pairs ps).length = ry := by rw [length_pairs, h.2]; rfl
  rw [← zeros_eq_tabulate, h1, h2]

theorem generalStep_vectorize {P : Type} (F : P → α → α → α) {rx ry : Nat} {bs ps : List α}
    (h : meshOk rx ry bs ps) (img : Mat α) (pw : P × α) :
    generalStep (vectorize F) rx ry (flatMesh bs ps).1 (flatMesh bs ps).2 img pw
      = .ok (accumulate img pw.2 (bs.map fun b => ps.map (F pw.1 b))) := by
  have hl := length_vectorize_flatMesh (F pw.1) bs ps
  have hr := reshape_vectorize_flatMesh (F pw.1) bs ps
  rw [h.1, h.2] at hl hr
  simp only [generalStep, reshape?, vectorize, hl, if_true, hr]
  rfl

/-- **the general loop in closed form** (elementwise kernel, mesh of `resolution + 1` points) -/
theorem generalPath_vectorize {P : Type} (F : P → α → α → α) {rx ry : Nat} {bs ps : List α}
    (h : meshOk rx ry bs ps) (pws : List (P × α)) :
    generalPath (vectorize F) rx ry bs ps pws = .ok (imageFold F bs ps pws) := by
  have key : ∀ (pws : List (P × α)) (acc : α × α → α × α → α),
      pws.foldlM (generalStep (vectorize F) rx ry (flatMesh bs ps).1 (flatMesh bs ps).2)
          (tabulate (pairs bs) (pairs ps) acc)
        = (.ok (tabulate (pairs bs) (pairs ps) fun q r =>
            pws.foldl (fun a pw => a + pw.2 * rect (F pw.1) q r) (acc q r)) : Except Err (Mat α)) := by
    intro pws
    induction pws with
    | nil => intro acc; rfl
    | cons pw t ih =>
      intro acc
      rw [List.foldlM_cons, generalStep_vectorize F h, accumulate_outer]
      exact ih _
  simp only [generalPath, h, if_true, zeros_of_meshOk h]
  exact key pws _

theorem generalPath_shape {P : Type} (kvec : P → List α → List α → List α) {rx ry : Nat}
    {bs ps : List α} (h : ¬ meshOk rx ry bs ps) (pws : List (P × α)) :
    generalPath kvec rx ry bs ps pws = .error .shape := by
  simp only [generalPath, h, if_false]

/-- the product kernel as the fast loop writes it: `ncdf_p * ncdf_b` -/
def fastKernel (Φ : α → α) (s : α) (mu : Pt α) (b p : α) : α :=
  Φ ((p - mu.2) / s) * Φ ((b - mu.1) / s)

/-- **the isotropic loop in closed form** -/
theorem fastPath_closed (sqrt Φ : α → α) (v : α) {rx ry : Nat} {bs ps : List α}
    (h : meshOk rx ry bs ps) (pws : List (Pt α × α)) :
    fastPath sqrt Φ v rx ry bs ps pws = .ok (imageFold (fastKernel Φ (sqrt v)) bs ps pws) := by
  have step : ∀ (img : Mat α) (pw : Pt α × α), fastStep Φ (sqrt v) bs ps img pw
      = accumulate img pw.2 (bs.map fun b => ps.map (fastKernel Φ (sqrt v) pw.1 b)) := by
    intro img pw
    simp only [fastStep, List.map_map, Function.comp_def]
    rfl
  have key : ∀ (pws : List (Pt α × α)) (acc : α × α → α × α → α),
      pws.foldl (fastStep Φ (sqrt v) bs ps) (tabulate (pairs bs) (pairs ps) acc)
        = tabulate (pairs bs) (pairs ps) fun q r =>
            pws.foldl (fun a pw => a + pw.2 * rect (fastKernel Φ (sqrt v) pw.1) q r) (acc q r) := by
    intro pws
    induction pws with
    | nil => intro acc; rfl
    | cons pw t ih =>
      intro acc
      rw [List.foldl_cons, step, accumulate_outer]
      exact ih _
  simp only [fastPath, h, if_true, zeros_of_meshOk h]
  exact congrArg _ (key pws _)

theorem fastPath_shape (sqrt Φ : α → α) (v : α) {rx ry : Nat} {bs ps : List α}
    (h : ¬ meshOk rx ry bs ps) (pws : List (Pt α × α)) :
    fastPath sqrt Φ v rx ry bs ps pws = .error .shape := by
  simp only [fastPath, h, if_false]

end loops

section shape
variable {α : Type}

theorem tabulate_length {κ ι : Type} (Q : List κ) (R : List ι) (g : κ → ι → α) :
    (tabulate Q R g).length = Q.length := by simp [tabulate]

theorem tabulate_row_length {κ ι : Type} (Q : List κ) (R : List ι) (g : κ → ι → α) :
    ∀ row ∈ tabulate Q R g, row.length = R.length := by
  intro row h
  obtain ⟨q, _, rfl⟩ := List.mem_map.mp h
  simp

/-- entry `(i, j)` of a tabulated matrix -/
theorem pixel?_tabulate {κ ι : Type} (Q : List κ) (R : List ι) (g : κ → ι → α) (i j : Nat)
    (q : κ) (r : ι) (hq : Q[i]? = some q) (hr : R[j]? = some r) :
    pixel? (tabulate Q R g) i j = some (g q r) := by
  simp [pixel?, tabulate, List.getElem?_map, hq, hr]

end shape
end PersimVerif.Image
