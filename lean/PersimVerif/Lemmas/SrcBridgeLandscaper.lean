import PersimVerif.Model.Transformers
import PersimVerif.Lemmas.SrcLib
/-
  Bridging lemmas between the translator's library (`SrcLib`: Python's `min/max(…, key=…)`) and
  `Model/Transformers.lean`, used by the generated obligations of `Generated/SrcLandscaper.lean` (C18).
  Hand-written, about model and library definitions only.
-/
namespace PersimVerif.SrcBridge.Landscaper
open PersimVerif.Imager PersimVerif.Transformers PersimVerif.SrcLib

section
variable {α : Type} [LT α] [DecidableLT α]

theorem foldl_min_fst (t : Dgm α) (p : α × α) :
    (t.foldl (fun a q => if q.1 < a.1 then q else a) p).1 = t.foldl (fun a q => if q.1 < a then q.1 else a) p.1 := by
  induction t generalizing p with
  | nil => rfl
  | cons q t ih =>
    simp only [List.foldl]
    rw [ih]
    by_cases h : q.1 < p.1 <;> simp [h]

theorem foldl_max_snd (t : Dgm α) (p : α × α) :
    (t.foldl (fun a q => if a.2 < q.2 then q else a) p).2 = t.foldl (fun a q => if a < q.2 then q.2 else a) p.2 := by
  induction t generalizing p with
  | nil => rfl
  | cons q t ih =>
    simp only [List.foldl]
    rw [ih]
    by_cases h : p.2 < q.2 <;> simp [h]

/-- `min(d, key=itemgetter(0))[0]` is the model's `minBirth` (only the value of the first minimal point is used) -/
theorem pyMinBy_fst (d : Dgm α) : (pyMinBy (fun pt => pt.1) d).map (·.1) = minBirth d := by
  cases d with
  | nil => rfl
  | cons p t => simp only [pyMinBy, minBirth, Option.map, foldl_min_fst]

/-- `max(d, key=itemgetter(1))[1]` is the model's `maxDeath` -/
theorem pyMaxBy_snd (d : Dgm α) : (pyMaxBy (fun pt => pt.2) d).map (·.2) = maxDeath d := by
  cases d with
  | nil => rfl
  | cons p t => simp only [pyMaxBy, maxDeath, Option.map, foldl_max_snd]

end
end PersimVerif.SrcBridge.Landscaper
