import PersimVerif.Lemmas.RowsSound
import Mathlib.Data.List.Perm.Basic
import Mathlib.Data.List.Range
import Mathlib.Data.List.Nodup

/-!
# The rows produced by the two extraction loops (helper lemmas for C06)

`σ` is the assignment the external solver selected, as a list with `σ.Perm (List.range (M+N))`
(a permutation of the row/column indices of the augmented matrix); `D` is any matrix satisfying
`IsAug` (DESIGN.md A.3; the model's own `augD` does).  Under `AllFinite` (all selected entries
finite: a perfect matching of the finite entries) both loops return the same list
`(List.range (M+N)).flatMap (bnG M N D σ)`, which passes `checkCore`.
-/

namespace PersimVerif.Rows
open PersimVerif.Spec
variable {K : Type}

/-! ### generic list facts -/

theorem mapM_eq_some_map {β γ : Type} (f : β → Option γ) (g : β → γ) (l : List β)
    (h : ∀ x ∈ l, f x = some (g x)) : l.mapM f = some (l.map g) := by
  induction l with
  | nil => simp
  | cons a t ih =>
    have ha := h a (by simp)
    have ht := ih (fun x hx => h x (by simp [hx]))
    simp [List.mapM_cons, ha, ht]

theorem countP_flatMap_zero {ι β : Type} (p : β → Bool) (G : ι → List β) (l : List ι)
    (h : ∀ i ∈ l, (G i).countP p = 0) : (l.flatMap G).countP p = 0 := by
  induction l with
  | nil => simp
  | cons a t ih =>
    simp only [List.flatMap_cons, List.countP_append, h a (by simp), zero_add]
    exact ih fun i hi => h i (by simp [hi])

theorem countP_flatMap_unique {ι β : Type} (p : β → Bool) (G : ι → List β) (l : List ι)
    (hl : l.Nodup) (i0 : ι) (h0 : i0 ∈ l) (h1 : (G i0).countP p = 1)
    (h2 : ∀ i ∈ l, i ≠ i0 → (G i).countP p = 0) : (l.flatMap G).countP p = 1 := by
  induction l with
  | nil => simp at h0
  | cons a t ih =>
    simp only [List.flatMap_cons, List.countP_append]
    rw [List.nodup_cons] at hl
    by_cases ha : a = i0
    · subst ha
      rw [h1, countP_flatMap_zero p G t fun i hi => h2 i (by simp [hi]) (by rintro rfl; exact hl.1 hi)]
    · have h0' : i0 ∈ t := by
        rcases List.mem_cons.mp h0 with h | h
        · exact absurd h.symm ha
        · exact h
      rw [h2 a (by simp) ha, ih hl.2 h0' fun i hi => h2 i (by simp [hi]), zero_add]

theorem filter_map_eq_flatMap {β γ : Type} (h : β → γ) (p : γ → Bool) (l : List β) :
    (l.map h).filter p = l.flatMap fun x => if p (h x) then [h x] else [] := by
  induction l with
  | nil => simp
  | cons a t ih =>
    simp only [List.map_cons, List.filter_cons, List.flatMap_cons, ih]
    split <;> simp

/-! ### what a permutation given as a list provides -/

section Perm
variable {n : Nat} {σ : List Nat} (hσ : σ.Perm (List.range n))
include hσ

theorem perm_length : σ.length = n := by rw [hσ.length_eq, List.length_range]

theorem perm_get (i : Nat) (hi : i < n) : ∃ j, σ[i]? = some j ∧ j < n := by
  have hl : i < σ.length := by rw [perm_length hσ]; exact hi
  refine ⟨σ[i], List.getElem?_eq_getElem hl, ?_⟩
  have : σ[i] ∈ List.range n := hσ.mem_iff.mp (List.getElem_mem hl)
  exact List.mem_range.mp this

theorem perm_index (k : Nat) (hk : k < n) : ∃ i, i < n ∧ σ[i]? = some k := by
  have : k ∈ σ := hσ.mem_iff.mpr (List.mem_range.mpr hk)
  obtain ⟨i, hi, he⟩ := List.getElem_of_mem this
  exact ⟨i, by rw [← perm_length hσ]; exact hi, by rw [← he]; exact List.getElem?_eq_getElem hi⟩

theorem perm_inj {i i' k : Nat} (h : σ[i]? = some k) (h' : σ[i']? = some k) : i = i' := by
  have hn : σ.Nodup := hσ.nodup_iff.mpr List.nodup_range
  obtain ⟨hi, he⟩ := List.getElem?_eq_some_iff.mp h
  obtain ⟨hi', he'⟩ := List.getElem?_eq_some_iff.mp h'
  exact (List.Nodup.getElem_inj_iff hn).mp (he.trans he'.symm)

end Perm

/-! ### the augmented matrix and one step of the extraction -/

/-- `D` is the augmented matrix of the cost system `(c, u, v)` (DESIGN.md A.3), `none` = ∞ -/
structure IsAug [Zero K] (M N : Nat) (c : Fin M → Fin N → K) (u : Fin M → K) (v : Fin N → K)
    (D : Nat → Nat → Option K) : Prop where
  ul : ∀ (i : Fin M) (j : Fin N), D i j = some (c i j)
  ur : ∀ (i i' : Fin M), D i (N + i') = if i = i' then some (u i) else none
  ll : ∀ (j j' : Fin N), D (M + j) j' = if j = j' then some (v j) else none
  lr : ∀ (j : Fin N) (i : Fin M), D (M + j) (N + i) = some 0

/-- the rows one iteration of the bottleneck loop appends, given `j = σ[i]` and `d = D[i, j]` -/
def stepRows (M N i j : Nat) (d : K) : List (Row K) :=
  if i < M then [⟨(i : Int), if j ≥ N then -1 else (j : Int), d⟩]
  else if j ≥ N then [] else [⟨-1, (j : Int), d⟩]

theorem bnStep_eq (M N : Nat) (D : Nat → Nat → Option K) (σ : List Nat) (i j : Nat) (e : K)
    (hj : σ[i]? = some j) (he : D i j = some e) : bnStep M N D σ i = some (stepRows M N i j e) := by
  simp only [bnStep, hj, he, stepRows]
  split
  · rfl
  · split <;> rfl

/-- the four blocks: what a finite selected entry `D[i, j]` is and which row it yields -/
theorem step_cases [Zero K] {M N : Nat} {c : Fin M → Fin N → K} {u : Fin M → K} {v : Fin N → K}
    {D : Nat → Nat → Option K} (hD : IsAug M N c u v D) {i j : Nat} {e : K}
    (hi : i < M + N) (hj : j < M + N) (he : D i j = some e) :
    (∃ (a : Fin M) (b : Fin N), i = a ∧ j = b ∧ e = c a b ∧ stepRows M N i j e = [⟨(a : Nat), (b : Nat), e⟩])
    ∨ (∃ a : Fin M, i = a ∧ j = N + a ∧ e = u a ∧ stepRows M N i j e = [⟨(a : Nat), -1, e⟩])
    ∨ (∃ b : Fin N, i = M + b ∧ j = b ∧ e = v b ∧ stepRows M N i j e = [⟨-1, (b : Nat), e⟩])
    ∨ (M ≤ i ∧ N ≤ j ∧ e = 0 ∧ stepRows M N i j e = []) := by
  by_cases hiM : i < M
  · by_cases hjN : j < N
    · left
      refine ⟨⟨i, hiM⟩, ⟨j, hjN⟩, rfl, rfl, ?_, ?_⟩
      · have := hD.ul ⟨i, hiM⟩ ⟨j, hjN⟩
        simp only at this; rw [this] at he; exact (Option.some.inj he).symm
      · simp [stepRows, hiM, hjN]
    · right; left
      have hj' : j - N < M := by omega
      have := hD.ur ⟨i, hiM⟩ ⟨j - N, hj'⟩
      simp only [show N + (j - N) = j by omega] at this
      rw [this] at he
      split at he
      next heq =>
        have hij : i = j - N := by simpa using heq
        refine ⟨⟨i, hiM⟩, rfl, by simp; omega, (Option.some.inj he).symm, ?_⟩
        simp [stepRows, hiM, show N ≤ j by omega]
      · simp at he
  · by_cases hjN : j < N
    · right; right; left
      have hi' : i - M < N := by omega
      have := hD.ll ⟨i - M, hi'⟩ ⟨j, hjN⟩
      simp only [show M + (i - M) = i by omega] at this
      rw [this] at he
      split at he
      next heq =>
        have hij : i - M = j := by simpa using heq
        refine ⟨⟨j, hjN⟩, by simp; omega, rfl, ?_, ?_⟩
        · have := (Option.some.inj he).symm
          rw [this]; congr 1
        · simp [stepRows, hiM, hjN]
      · simp at he
    · right; right; right
      have := hD.lr ⟨i - M, by omega⟩ ⟨j - N, by omega⟩
      simp only [show M + (i - M) = i by omega, show N + (j - N) = j by omega] at this
      rw [this] at he
      exact ⟨by omega, by omega, (Option.some.inj he).symm, by simp [stepRows, hiM, show N ≤ j by omega]⟩


/-- `G i` is what the loop appends in iteration `i` (all selected entries finite) -/
def StepFun (M N : Nat) (D : Nat → Nat → Option K) (σ : List Nat) (G : Nat → List (Row K)) : Prop :=
  ∀ i < M + N, ∃ j e, σ[i]? = some j ∧ D i j = some e ∧ G i = stepRows M N i j e

section Accepted
variable [Zero K] {M N : Nat} {c : Fin M → Fin N → K} {u : Fin M → K} {v : Fin N → K}
  {D : Nat → Nat → Option K} {σ : List Nat} {G : Nat → List (Row K)}

/-- per iteration: the four cases, with `j = σ[i]` in range -/
theorem stepFun_cases (hD : IsAug M N c u v D) (hσ : σ.Perm (List.range (M + N)))
    (hG : StepFun M N D σ G) {i : Nat} (hi : i < M + N) :
    ∃ j e, σ[i]? = some j ∧ D i j = some e ∧
    ((∃ (a : Fin M) (b : Fin N), i = a ∧ j = b ∧ e = c a b ∧ G i = [⟨(a : Nat), (b : Nat), e⟩])
    ∨ (∃ a : Fin M, i = a ∧ j = N + a ∧ e = u a ∧ G i = [⟨(a : Nat), -1, e⟩])
    ∨ (∃ b : Fin N, i = M + b ∧ j = b ∧ e = v b ∧ G i = [⟨-1, (b : Nat), e⟩])
    ∨ (M ≤ i ∧ N ≤ j ∧ e = 0 ∧ G i = [])) := by
  obtain ⟨j, e, hj, he, hg⟩ := hG i hi
  obtain ⟨j', hj', hlt⟩ := perm_get hσ i hi
  have : j' = j := by rw [hj] at hj'; exact (Option.some.inj hj').symm
  subst this
  refine ⟨j', e, hj, he, ?_⟩
  rw [hg]
  exact step_cases hD hi hlt he

/-- every extracted row carries the cost the statement prescribes (so it is well-formed too) -/
theorem extracted_expected (hD : IsAug M N c u v D) (hσ : σ.Perm (List.range (M + N)))
    (hG : StepFun M N D σ G) :
    ∀ r ∈ (List.range (M + N)).flatMap G, expected M N c u v r.i r.j = some r.cost := by
  intro r hr
  obtain ⟨i, hi, hri⟩ := List.mem_flatMap.mp hr
  obtain ⟨j, e, -, -, h⟩ := stepFun_cases hD hσ hG (List.mem_range.mp hi)
  rcases h with ⟨a, b, -, -, rfl, hg⟩ | ⟨a, -, -, rfl, hg⟩ | ⟨b, -, -, rfl, hg⟩ | ⟨-, -, -, hg⟩
  · rw [hg] at hri; rw [List.mem_singleton.mp hri]; exact expected_pair c u v a b
  · rw [hg] at hri; rw [List.mem_singleton.mp hri]; exact expected_left c u v a
  · rw [hg] at hri; rw [List.mem_singleton.mp hri]; exact expected_right c u v b
  · rw [hg] at hri; simp at hri

/-- every extracted row's third entry is a selected entry -/
theorem extracted_cost_selected (hD : IsAug M N c u v D) (hσ : σ.Perm (List.range (M + N)))
    (hG : StepFun M N D σ G) :
    ∀ r ∈ (List.range (M + N)).flatMap G, ∃ i < M + N, selected D σ i = some r.cost := by
  intro r hr
  obtain ⟨i, hi, hri⟩ := List.mem_flatMap.mp hr
  have hi' := List.mem_range.mp hi
  obtain ⟨j, e, hj, he, h⟩ := stepFun_cases hD hσ hG hi'
  refine ⟨i, hi', ?_⟩
  have hs : selected D σ i = some e := by simp [selected, hj, he]
  rcases h with ⟨a, b, -, -, -, hg⟩ | ⟨a, -, -, -, hg⟩ | ⟨b, -, -, -, hg⟩ | ⟨-, -, -, hg⟩
  · rw [hg] at hri; rw [List.mem_singleton.mp hri]; exact hs
  · rw [hg] at hri; rw [List.mem_singleton.mp hri]; exact hs
  · rw [hg] at hri; rw [List.mem_singleton.mp hri]; exact hs
  · rw [hg] at hri; simp at hri

/-- every point of the first diagram is the first entry of exactly one extracted row -/
theorem extracted_rows_once (hD : IsAug M N c u v D) (hσ : σ.Perm (List.range (M + N)))
    (hG : StepFun M N D σ G) (k : Nat) (hk : k < M) :
    ((List.range (M + N)).flatMap G).countP (fun r => r.i == ((k : Nat) : Int)) = 1 := by
  refine countP_flatMap_unique _ G _ List.nodup_range k (List.mem_range.mpr (by omega)) ?_ ?_
  · obtain ⟨j, e, -, -, h⟩ := stepFun_cases hD hσ hG (show k < M + N by omega)
    rcases h with ⟨a, b, ha, -, -, hg⟩ | ⟨a, ha, -, -, hg⟩ | ⟨b, hb, -, -, hg⟩ | ⟨hM, -, -, -⟩
    · rw [hg]; simp [ha]
    · rw [hg]; simp [ha]
    · omega
    · omega
  · intro i hi hne
    obtain ⟨j, e, -, -, h⟩ := stepFun_cases hD hσ hG (List.mem_range.mp hi)
    rcases h with ⟨a, b, ha, -, -, hg⟩ | ⟨a, ha, -, -, hg⟩ | ⟨b, hb, -, -, hg⟩ | ⟨-, -, -, hg⟩
    · rw [hg]; simp; omega
    · rw [hg]; simp; omega
    · rw [hg]; simp
    · rw [hg]; simp

/-- every point of the second diagram is the second entry of exactly one extracted row -/
theorem extracted_cols_once (hD : IsAug M N c u v D) (hσ : σ.Perm (List.range (M + N)))
    (hG : StepFun M N D σ G) (k : Nat) (hk : k < N) :
    ((List.range (M + N)).flatMap G).countP (fun r => r.j == ((k : Nat) : Int)) = 1 := by
  obtain ⟨i0, hi0, hσ0⟩ := perm_index hσ k (show k < M + N by omega)
  refine countP_flatMap_unique _ G _ List.nodup_range i0 (List.mem_range.mpr hi0) ?_ ?_
  · obtain ⟨j, e, hj, -, h⟩ := stepFun_cases hD hσ hG hi0
    have hjk : j = k := by rw [hσ0] at hj; exact (Option.some.inj hj).symm
    rcases h with ⟨a, b, -, hb, -, hg⟩ | ⟨a, -, hja, -, hg⟩ | ⟨b, -, hb, -, hg⟩ | ⟨-, hN, -, -⟩
    · rw [hg]; simp; omega
    · omega
    · rw [hg]; simp; omega
    · omega
  · intro i hi hne
    obtain ⟨j, e, hj, -, h⟩ := stepFun_cases hD hσ hG (List.mem_range.mp hi)
    have hjk : j ≠ k := by
      rintro rfl
      exact hne (perm_inj hσ hj hσ0)
    rcases h with ⟨a, b, -, hb, -, hg⟩ | ⟨a, -, hja, -, hg⟩ | ⟨b, -, hb, -, hg⟩ | ⟨-, -, -, hg⟩
    · rw [hg]; simp; omega
    · rw [hg]; simp
    · rw [hg]; simp; omega
    · rw [hg]; simp

/-- **the extracted rows pass the checker** -/
theorem extracted_checkCore [DecidableEq K] (hD : IsAug M N c u v D)
    (hσ : σ.Perm (List.range (M + N))) (hG : StepFun M N D σ G) :
    checkCore M N c u v ((List.range (M + N)).flatMap G) = true := by
  have hexp := extracted_expected hD hσ hG
  simp only [checkCore, Bool.and_eq_true]
  refine ⟨(structOk_iff _).mpr ⟨fun r hr => ?_, extracted_rows_once hD hσ hG, extracted_cols_once hD hσ hG⟩,
    (costsExact_iff c u v _).mpr hexp⟩
  exact (inRange_iff M N _ _).mpr (inRange_of_expected c u v (hexp r hr))

end Accepted

/-! ### the two extraction loops produce these rows -/

section Loops
variable {M N : Nat} {D : Nat → Nat → Option K} {σ : List Nat}

theorem selected_isSome {i : Nat} (h : (selected D σ i).isSome = true) :
    ∃ j e, σ[i]? = some j ∧ D i j = some e := by
  obtain ⟨e, he⟩ := Option.isSome_iff_exists.mp h
  unfold selected at he
  obtain ⟨j, hj, hd⟩ := Option.bind_eq_some_iff.mp he
  exact ⟨j, e, hj, hd⟩

/-- the rows of iteration `i` as a total function (only used under `AllFinite`) -/
def bnG (M N : Nat) (D : Nat → Nat → Option K) (σ : List Nat) (i : Nat) : List (Row K) :=
  (bnStep M N D σ i).getD []

/-- all selected entries are finite: `σ` is a perfect matching of the finite entries of `D` -/
def AllFinite (M N : Nat) (D : Nat → Nat → Option K) (σ : List Nat) : Prop :=
  ∀ i < M + N, (selected D σ i).isSome = true

theorem stepFun_bnG (hfin : AllFinite M N D σ) : StepFun M N D σ (bnG M N D σ) := by
  intro i hi
  obtain ⟨j, e, hj, he⟩ := selected_isSome (hfin i hi)
  exact ⟨j, e, hj, he, by simp [bnG, bnStep_eq M N D σ i j e hj he]⟩

/-- bottleneck loop = concatenation of the per-iteration rows -/
theorem extractRowsBn_eq (hfin : AllFinite M N D σ) :
    extractRowsBn M N D σ = some ((List.range (M + N)).flatMap (bnG M N D σ)) := by
  unfold extractRowsBn
  rw [mapM_eq_some_map (bnStep M N D σ) (bnG M N D σ)]
  · simp [List.flatMap_def]
  · intro i hi
    obtain ⟨j, e, hj, he, hg⟩ := stepFun_bnG hfin i (List.mem_range.mp hi)
    rw [hg]; exact bnStep_eq M N D σ i j e hj he

/-- re-indexing then filtering one raw Wasserstein row gives exactly the bottleneck loop's row(s) -/
theorem ws_row_eq (M N i j : Nat) (e : K) :
    (if ((wsRewrite M N ⟨(i : Int), (j : Int), e⟩).i + (wsRewrite M N ⟨(i : Int), (j : Int), e⟩).j != -2) = true
      then [wsRewrite M N ⟨(i : Int), (j : Int), e⟩] else []) = stepRows M N i j e := by
  by_cases hi : i < M <;> by_cases hj : N ≤ j
  · have h1 : ¬ ((i : Int) ≥ M) := by omega
    have h2 : (j : Int) ≥ N := by omega
    simp only [wsRewrite, stepRows, h1, h2, hi, hj, if_true, if_false]
    rw [if_pos]; simp; omega
  · have h1 : ¬ ((i : Int) ≥ M) := by omega
    have h2 : ¬ ((j : Int) ≥ N) := by omega
    simp only [wsRewrite, stepRows, h1, h2, hi, hj, if_true, if_false]
    rw [if_pos]; simp; omega
  · have h1 : (i : Int) ≥ M := by omega
    have h2 : (j : Int) ≥ N := by omega
    simp [wsRewrite, stepRows, h1, h2, hi, hj]
  · have h1 : (i : Int) ≥ M := by omega
    have h2 : ¬ ((j : Int) ≥ N) := by omega
    simp only [wsRewrite, stepRows, h1, h2, hi, hj, if_true, if_false]
    rw [if_pos]; simp; omega

/-- the raw Wasserstein row of iteration `i` as a total function -/
def wsR (D : Nat → Nat → Option K) (σ : List Nat) [Zero K] (i : Nat) : Row K :=
  (wsStep D σ i).getD ⟨0, 0, 0⟩

theorem wsStep_eq (i j : Nat) (e : K) (hj : σ[i]? = some j) (he : D i j = some e) :
    wsStep D σ i = some ⟨(i : Int), (j : Int), e⟩ := by
  simp [wsStep, hj, he]

theorem wsRaw_eq [Zero K] (hfin : AllFinite M N D σ) :
    wsRaw M N D σ = some ((List.range (M + N)).map (wsR D σ)) := by
  unfold wsRaw
  apply mapM_eq_some_map
  intro i hi
  obtain ⟨j, e, hj, he⟩ := selected_isSome (hfin i (List.mem_range.mp hi))
  simp [wsR, wsStep_eq i j e hj he]

/-- **both loops extract the same rows** from the same assignment -/
theorem extractRowsWs_eq [Zero K] (hfin : AllFinite M N D σ) :
    extractRowsWs M N D σ = some ((List.range (M + N)).flatMap (bnG M N D σ)) := by
  unfold extractRowsWs
  rw [wsRaw_eq hfin, Option.map_some, List.map_map, filter_map_eq_flatMap]
  congr 1
  apply List.flatMap_congr
  intro i hi
  obtain ⟨j, e, hj, he, hg⟩ := stepFun_bnG hfin i (List.mem_range.mp hi)
  rw [hg]
  simp only [Function.comp, wsR, wsStep_eq i j e hj he, Option.getD_some]
  exact ws_row_eq M N i j e

end Loops

/-! ### aggregates of the extracted rows -/

theorem rowsSum_flatMap [AddCommMonoid K] {ι : Type} (l : List ι) (G : ι → List (Row K)) (f : ι → K)
    (h : ∀ i ∈ l, rowsSum (G i) = f i) : rowsSum (l.flatMap G) = (l.map f).sum := by
  induction l with
  | nil => simp [rowsSum]
  | cons a t ih =>
    have := ih fun i hi => h i (by simp [hi])
    rw [rowsSum_eq_sum_map] at this
    rw [rowsSum_eq_sum_map, List.flatMap_cons, List.map_append, List.sum_append, this,
      ← rowsSum_eq_sum_map, h a (by simp), List.map_cons, List.sum_cons]

section Aggregates
variable {M N : Nat} {c : Fin M → Fin N → K} {u : Fin M → K} {v : Fin N → K}
  {D : Nat → Nat → Option K} {σ : List Nat}

/-- **Wasserstein: the rows sum to the sum of all selected entries** (the dropped
    diagonal–diagonal rows lie in the zero block) -/
theorem extracted_sum [AddCommMonoid K] (hD : IsAug M N c u v D)
    (hσ : σ.Perm (List.range (M + N))) (hfin : AllFinite M N D σ) :
    selectedSum M N D σ = some (rowsSum ((List.range (M + N)).flatMap (bnG M N D σ))) := by
  unfold selectedSum
  rw [wsRaw_eq hfin, Option.map_some, rowsSum_eq_sum_map (List.map _ _), List.map_map]
  congr 1
  symm
  apply rowsSum_flatMap
  intro i hi
  obtain ⟨j, e, hj, he, h⟩ := stepFun_cases hD hσ (stepFun_bnG hfin) (List.mem_range.mp hi)
  simp only [Function.comp, wsR, wsStep_eq i j e hj he, Option.getD_some]
  rcases h with ⟨a, b, -, -, -, hg⟩ | ⟨a, -, -, -, hg⟩ | ⟨b, -, -, -, hg⟩ | ⟨-, -, h0, hg⟩
  · rw [hg]; simp [rowsSum]
  · rw [hg]; simp [rowsSum]
  · rw [hg]; simp [rowsSum]
  · rw [hg, h0]; simp [rowsSum]

/-- **bottleneck: the row maximum is the largest selected entry `d`**.  Non-negativity of the
    costs (`b ≤ d` for every point) is used in exactly one case: the largest selected entry lies in
    the zero block (its row is dropped); then `d = 0` and some kept row must have cost `≥ 0`. -/
theorem extracted_max [LinearOrder K] [Zero K] (hD : IsAug M N c u v D)
    (hσ : σ.Perm (List.range (M + N))) (hfin : AllFinite M N D σ) (hpos : 0 < M + N)
    (hc0 : ∀ i j, 0 ≤ c i j) (hu0 : ∀ i, 0 ≤ u i) (hv0 : ∀ j, 0 ≤ v j) {d : K}
    (hle : ∀ i < M + N, ∀ e, selected D σ i = some e → e ≤ d)
    (hex : ∃ i < M + N, selected D σ i = some d) :
    rowsMax ((List.range (M + N)).flatMap (bnG M N D σ)) = some d := by
  have hG := stepFun_bnG hfin
  rw [rowsMax_eq_some_iff]
  have hall : ∀ r ∈ (List.range (M + N)).flatMap (bnG M N D σ), r.cost ≤ d := by
    intro r hr
    obtain ⟨i, hi, hs⟩ := extracted_cost_selected hD hσ hG r hr
    exact hle i hi _ hs
  refine ⟨?_, hall⟩
  obtain ⟨i, hi, hs⟩ := hex
  obtain ⟨j, e, hj, he, h⟩ := stepFun_cases hD hσ hG hi
  have hed : e = d := by
    have : selected D σ i = some e := by simp [selected, hj, he]
    rw [hs] at this; exact (Option.some.inj this).symm
  have hmem : ∀ r, bnG M N D σ i = [r] → r ∈ (List.range (M + N)).flatMap (bnG M N D σ) := fun r hr =>
    List.mem_flatMap.mpr ⟨i, List.mem_range.mpr hi, by rw [hr]; simp⟩
  rcases h with ⟨a, b, -, -, -, hg⟩ | ⟨a, -, -, -, hg⟩ | ⟨b, -, -, -, hg⟩ | ⟨-, -, h0, -⟩
  · exact ⟨_, hmem _ hg, hed⟩
  · exact ⟨_, hmem _ hg, hed⟩
  · exact ⟨_, hmem _ hg, hed⟩
  · -- the largest selected entry is a zero of the lower-right block: `d = 0`
    have hd0 : d = 0 := by rw [← hed, h0]
    have hne : ∃ r, r ∈ (List.range (M + N)).flatMap (bnG M N D σ) := by
      by_cases hM : 0 < M
      · have := extracted_rows_once hD hσ hG 0 hM
        obtain ⟨r, hr, -⟩ := List.countP_pos_iff.mp (by rw [this]; exact Nat.one_pos)
        exact ⟨r, hr⟩
      · have := extracted_cols_once hD hσ hG 0 (by omega)
        obtain ⟨r, hr, -⟩ := List.countP_pos_iff.mp (by rw [this]; exact Nat.one_pos)
        exact ⟨r, hr⟩
    obtain ⟨r, hr⟩ := hne
    refine ⟨r, hr, le_antisymm (hall r hr) ?_⟩
    rw [hd0]
    rcases expected_cases c u v (extracted_expected hD hσ hG r hr) with
      ⟨x, y, _, _, e'⟩ | ⟨x, _, _, e'⟩ | ⟨y, _, _, e'⟩
    · exact e' ▸ hc0 x y
    · exact e' ▸ hu0 x
    · exact e' ▸ hv0 y

end Aggregates

/-- the executable matrix of the model IS an augmented matrix in the sense of `IsAug` -/
theorem augD_isAug [Zero K] (pc : K × K → K × K → K) (dc : K × K → K) (S T : List (K × K)) :
    IsAug S.length T.length (cOf pc S T) (uOf dc S) (uOf dc T) (augD pc dc S T) where
  ul i j := by
    simp [augD, cOf, i.2, j.2]
  ur i i' := by
    have h1 : ¬ (T.length + (i' : Nat) < T.length) := by omega
    simp only [augD, i.2, if_true, h1, if_false, uOf]
    by_cases h : i = i'
    · subst h; simp
    · have : ¬ ((i' : Nat) = (i : Nat)) := fun e => h (Fin.ext e.symm)
      simp [h, this]
  ll j j' := by
    have h1 : ¬ (S.length + (j : Nat) < S.length) := by omega
    have h2 : S.length + (j : Nat) < S.length + T.length := by omega
    simp only [augD, h1, if_false, h2, if_true, j'.2, uOf]
    by_cases h : j = j'
    · subst h; simp
    · have : ¬ ((j : Nat) = (j' : Nat)) := fun e => h (Fin.ext e)
      simp [h, this]
  lr j i := by
    have h1 : ¬ (S.length + (j : Nat) < S.length) := by omega
    have h2 : S.length + (j : Nat) < S.length + T.length := by omega
    have h3 : ¬ (T.length + (i : Nat) < T.length) := by omega
    have h4 : T.length + (i : Nat) < T.length + S.length := by omega
    simp [augD, h1, h2, h3, h4]

end PersimVerif.Rows
