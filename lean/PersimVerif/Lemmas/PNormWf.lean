import PersimVerif.Lemmas.PNormSup
import PersimVerif.Lemmas.PNormReal
import PersimVerif.Lemmas.PLArithOps

/-!
# C10 helper lemmas, part 6: the class of depth lists C09's operations produce

C09's guard (`PLArith.wfDepth`, class `PLArith.WF`) allows a zero-width step between two copies of
the SAME point (`[[b,0],[b,0],[b,0]]` from a bar of zero length) and a single point `[(x,0)]`.
Dropping the repeated copies (`dedup`) gives a list with strictly increasing abscissae that
represents the same function, has the same set of points, and on which `_p_norm` accumulates the
same value (a zero-width flat segment contributes `|y|^p · 0 = 0`).  So every C10 statement proved
under `StrictAbsc` transfers to the class `WF`.
-/
namespace PersimVerif.PNormLemmas
open PersimVerif.PNorm PersimVerif.PL PersimVerif.PLArith intervalIntegral MeasureTheory

noncomputable section

/-- drop immediate repetitions of a point -/
def dedup : List (ℝ × ℝ) → List (ℝ × ℝ)
  | [] => []
  | [a] => [a]
  | a :: b :: r => if a = b then dedup (b :: r) else a :: dedup (b :: r)

theorem dedup_cons_cons (a b : ℝ × ℝ) (r : List (ℝ × ℝ)) :
    dedup (a :: b :: r) = if a = b then dedup (b :: r) else a :: dedup (b :: r) := by
  simp only [dedup]

/-- the first point stays the first point -/
theorem dedup_cons (a : ℝ × ℝ) (r : List (ℝ × ℝ)) : ∃ r', dedup (a :: r) = a :: r' := by
  induction r generalizing a with
  | nil => exact ⟨[], rfl⟩
  | cons b r ih =>
    rw [dedup_cons_cons]
    by_cases h : a = b
    · subst h; rw [if_pos rfl]; exact ih a
    · rw [if_neg h]; exact ⟨_, rfl⟩

theorem mem_dedup (l : List (ℝ × ℝ)) (pt : ℝ × ℝ) : pt ∈ dedup l ↔ pt ∈ l := by
  induction l with
  | nil => simp [dedup]
  | cons a r ih =>
    cases r with
    | nil => simp [dedup]
    | cons b r' =>
      rw [dedup_cons_cons]
      by_cases h : a = b
      · subst h; rw [if_pos rfl, ih]; simp
      · rw [if_neg h, List.mem_cons, ih]; simp

/-- … and the abscissae become strictly increasing -/
theorem strictAbsc_dedup (l : List (ℝ × ℝ)) (h : Chain l) : StrictAbsc (dedup l) := by
  induction l with
  | nil => exact List.Pairwise.nil
  | cons a r ih =>
    cases r with
    | nil => exact List.pairwise_singleton _ _
    | cons b r' =>
      rw [chain_cons2] at h
      rw [dedup_cons_cons]
      by_cases hab : a = b
      · rw [if_pos hab]; exact ih h.2
      · rw [if_neg hab]
        have hlt : a.1 < b.1 := h.1.resolve_right hab
        obtain ⟨r'', hr⟩ := dedup_cons b r'
        have hs := ih h.2
        rw [hr] at hs ⊢
        refine List.pairwise_cons.mpr ⟨?_, hs⟩
        intro c hc
        rcases List.mem_cons.mp hc with rfl | hc
        · exact hlt
        · exact hlt.trans ((List.pairwise_cons.mp hs).1 c hc)

/-- the sum of the segment terms does not see the repeated points, for every segment-term function
    that gives `0` on a zero-width flat segment -/
theorem segSumG_dedup (term : ℝ → ℝ → ℝ → ℝ → ℝ) (h0 : ∀ x y, term x y x y = 0) (l : List (ℝ × ℝ)) :
    segSumG term (dedup l) = segSumG term l := by
  induction l with
  | nil => rfl
  | cons a r ih =>
    cases r with
    | nil => rfl
    | cons b r' =>
      rw [dedup_cons_cons, segSumG_cons_cons]
      by_cases hab : a = b
      · subst hab; rw [if_pos rfl, ih, h0, zero_add]
      · rw [if_neg hab]
        obtain ⟨r'', hr⟩ := dedup_cons b r'
        rw [hr, segSumG_cons_cons, ← hr, ih]

theorem segSum_eq_segSumG (p : ℕ) (l : List (ℝ × ℝ)) : segSum p l = segSumG (segTermNat p) l := rfl

theorem segTermNat_zero_width (p : ℕ) (x y : ℝ) : segTermNat p x y x y = 0 := by
  rw [segTermNat_flat]; simp

theorem segTermReal_zero_width (p x y : ℝ) : segTermReal p x y x y = 0 := by
  rw [segTermReal_flat]; simp

/-- the represented function does not change either (zero last ordinate: a trailing repeated point
    `(x,y),(x,y)` would otherwise carry the value `y` at `x` that a single point does not) -/
theorem evalPL_dedup (l : List (ℝ × ℝ)) (h : Chain l) (hlast : ∀ q, l.getLast? = some q → q.2 = 0) (t : ℝ) :
    evalPL (dedup l) t = evalPL l t := by
  induction l with
  | nil => rfl
  | cons a r ih =>
    cases r with
    | nil => rfl
    | cons b r' =>
      rw [chain_cons2] at h
      have hlast' : ∀ q, (b :: r').getLast? = some q → q.2 = 0 := by
        intro q hq; apply hlast q; simpa [List.getLast?_cons_cons] using hq
      have ih' := ih h.2 hlast'
      rw [dedup_cons_cons]
      by_cases hab : a = b
      · subst hab
        rw [if_pos rfl, ih']
        obtain ⟨x0, y0⟩ := a
        rw [evalPL_cons_cons]
        by_cases h1 : t < x0
        · rw [if_pos h1]; exact evalPL_eq_zero_of_lt _ t (by simpa [firstX] using h1)
        · rw [if_neg h1]
          by_cases h2 : t ≤ x0
          · rw [if_pos h2]
            have ht : t = x0 := le_antisymm h2 (not_lt.mp h1)
            subst ht
            simp only [segLine, sub_self, mul_zero, zero_div, add_zero]
            cases r' with
            | nil =>
              have := hlast' (t, y0) rfl
              simp only at this
              subst this
              rfl
            | cons c r'' =>
              obtain ⟨x2, y2⟩ := c
              have hc := h.2
              rw [chain_cons2] at hc
              have hle : t ≤ x2 := by
                rcases hc.1 with hlt | heq
                · exact le_of_lt hlt
                · exact le_of_eq (congrArg Prod.fst heq)
              rw [evalPL_on_first_seg le_rfl hle]
              simp [segLine]
          · rw [if_neg h2]
      · rw [if_neg hab]
        have hlt : a.1 < b.1 := h.1.resolve_right hab
        obtain ⟨r'', hr⟩ := dedup_cons b r'
        obtain ⟨x0, y0⟩ := a
        obtain ⟨x1, y1⟩ := b
        rw [hr, evalPL_cons_cons, evalPL_cons_cons, ← hr, ih']

end
end PersimVerif.PNormLemmas

namespace PersimVerif.PNormLemmas
open PersimVerif.PNorm PersimVerif.PL PersimVerif.PLArith intervalIntegral MeasureTheory
noncomputable section

theorem wf_chain_last {l : List (ℝ × ℝ)} (h : WF l) : Chain l ∧ ∀ q, l.getLast? = some q → q.2 = 0 :=
  ⟨h.chain, h.last⟩

theorem evalDepth_map_dedup (cps : List (List (ℝ × ℝ))) (hs : ∀ l ∈ cps, WF l) (k : ℕ) (t : ℝ) :
    evalDepth (cps.map dedup) k t = evalDepth cps k t := by
  unfold evalDepth
  rw [List.getElem?_map]
  cases hk : cps[k]? with
  | none => rfl
  | some l =>
    have hl : l ∈ cps := List.mem_of_getElem? hk
    simp only [Option.map_some]
    exact evalPL_dedup l (hs l hl).chain (hs l hl).last t

theorem strict_map_dedup (cps : List (List (ℝ × ℝ))) (hs : ∀ l ∈ cps, WF l) :
    ∀ l ∈ cps.map dedup, StrictAbsc l := by
  intro l hl
  obtain ⟨l0, hl0, rfl⟩ := List.mem_map.mp hl
  exact strictAbsc_dedup l0 (hs l0 hl0).chain

theorem pNormPow_map_dedup (p : ℕ) (cps : List (List (ℝ × ℝ))) :
    pNormPow p (cps.map dedup) = pNormPow p cps := by
  rw [pNormPow_eq_sum_segSum, pNormPow_eq_sum_segSum, List.map_map]
  congr 1
  apply List.map_congr_left
  intro l _
  simp only [Function.comp, segSum_eq_segSumG]
  exact segSumG_dedup _ (segTermNat_zero_width p) l

theorem pNormPowReal_map_dedup (p : ℝ) (cps : List (List (ℝ × ℝ))) :
    pNormPowReal p (cps.map dedup) = pNormPowReal p cps := by
  have h : ∀ x, pNormPowReal p x = accumulate (segTermReal p) x := fun _ => rfl
  rw [h, h, accumulate_eq_sum_segSumG, accumulate_eq_sum_segSumG, List.map_map]
  congr 1
  apply List.map_congr_left
  intro l _
  simp only [Function.comp]
  exact segSumG_dedup _ (segTermReal_zero_width p) l

theorem sum_integral_map_dedup (φ : ℝ → ℝ) (cps : List (List (ℝ × ℝ))) (hs : ∀ l ∈ cps, WF l) :
    ((cps.map dedup).map fun l => ∫ t, φ |evalPL l t|).sum = (cps.map fun l => ∫ t, φ |evalPL l t|).sum := by
  rw [List.map_map]
  congr 1
  apply List.map_congr_left
  intro l hl
  simp only [Function.comp]
  congr 1
  funext t
  rw [evalPL_dedup l (hs l hl).chain (hs l hl).last t]

/-- no vertical segment in the class `WF` -/
theorem no_vertical_of_wf (cps : List (List (ℝ × ℝ))) (hs : ∀ l ∈ cps, WF l) : hasVerticalSeg cps = false := by
  unfold hasVerticalSeg
  rw [List.any_eq_false]
  intro l hl
  have key : ∀ l : List (ℝ × ℝ), Chain l → ∀ s ∈ segs l, s.1.1 < s.2.1 ∨ s.1 = s.2 := by
    intro l
    induction l with
    | nil => intro _ s h; simp [segs] at h
    | cons a r ih =>
      cases r with
      | nil => intro _ s h; simp [segs] at h
      | cons b r' =>
        intro hc s h
        rw [chain_cons2] at hc
        simp only [segs, List.mem_cons] at h
        rcases h with rfl | h
        · exact hc.1
        · exact ih hc.2 s h
  simp only [Bool.not_eq_true, List.any_eq_false, Bool.and_eq_true, beq_iff_eq, Bool.not_eq_eq_eq_not,
    Bool.not_true, beq_eq_false_iff_ne, ne_eq, not_and, Decidable.not_not]
  intro s hsg heq
  rcases key l (hs l hl).chain s hsg with h | h
  · exact absurd heq h.ne
  · rw [h]

/-- greatest value over all depths for the class `WF` (single points and repeated points included) -/
theorem isGreatest_absValues_wf (cps : List (List (ℝ × ℝ))) (hwf : ∀ l ∈ cps, WF l) (m : ℝ)
    (hmem : m ∈ cps.flatten.map fun pt => |pt.2|)
    (hub : ∀ x ∈ cps.flatten.map fun pt => |pt.2|, x ≤ m) :
    IsGreatest (absValues cps) m := by
  obtain ⟨pt, hpt, rfl⟩ := List.mem_map.mp hmem
  obtain ⟨l, hl, hptl⟩ := List.mem_flatten.mp hpt
  have hev : ∀ l' ∈ cps, ∀ t, evalPL l' t = evalPL (dedup l') t :=
    fun l' hl' t => (evalPL_dedup l' (hwf l' hl').chain (hwf l' hl').last t).symm
  constructor
  · obtain ⟨k, hk, rfl⟩ := List.mem_iff_getElem.mp hl
    refine ⟨(k, pt.1), ?_⟩
    simp only [evalDepth, List.getElem?_eq_getElem hk]
    rw [hev _ hl]
    have hs := strictAbsc_dedup _ (hwf _ hl).chain
    have hptd : pt ∈ dedup cps[k] := (mem_dedup _ pt).mpr hptl
    by_cases h2 : 2 ≤ (dedup cps[k]).length
    · rw [evalPL_at_breakpoint _ hs h2 pt hptd]
    · -- a single point: it is the first point, whose ordinate is 0
      obtain ⟨a, r, hcons⟩ := List.exists_cons_of_ne_nil (hwf _ hl).ne
      obtain ⟨r', hr'⟩ := dedup_cons a r
      rw [hcons] at hptd h2 ⊢
      rw [hr'] at hptd h2 ⊢
      have hr0 : r' = [] := by
        cases r' with
        | nil => rfl
        | cons _ _ => simp at h2
      subst hr0
      have hpa : pt = a := by simpa using hptd
      have ha0 : a.2 = 0 := (hwf _ hl).first a (by rw [hcons]; rfl)
      rw [hpa, ha0]
      obtain ⟨x, y⟩ := a
      simp [evalPL]
  · rintro v ⟨⟨k, t⟩, rfl⟩
    simp only [evalDepth]
    cases hk : cps[k]? with
    | none => simp
    | some l' =>
      have hl' : l' ∈ cps := List.mem_of_getElem? hk
      simp only
      rw [hev _ hl']
      apply evalPL_abs_le _ (strictAbsc_dedup _ (hwf _ hl').chain) _ (abs_nonneg _)
      intro q hq
      have hq' : q ∈ l' := (mem_dedup _ q).mp hq
      exact hub _ (List.mem_map.mpr ⟨q, List.mem_flatten.mpr ⟨l', hl', hq'⟩, rfl⟩)

end
end PersimVerif.PNormLemmas
