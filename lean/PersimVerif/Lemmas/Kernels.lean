import PersimVerif.Model.Kernels
import Mathlib.Algebra.Order.Field.Basic
import Mathlib.Tactic.Linarith
import Mathlib.Tactic.Ring
import Mathlib.Tactic.FieldSimp
import Mathlib.Tactic.Positivity

/-!
# Helper lemmas for C13 (kernels): the clamp to [0,1] and products of monotone [0,1]-valued marginals

Everything is over an arbitrary linear ordered field `K` (so in particular ℚ — every finite float — and ℝ).
-/
set_option linter.unusedSectionVars false

namespace PersimVerif.KernelLemmas

variable {K : Type} [Field K] [LinearOrder K] [IsStrictOrderedRing K]

/-- `clamp01 t = min 1 (max 0 t)`: the CDF of the uniform distribution on [0,1] -/
def clamp01 (t : K) : K := min 1 (max 0 t)

lemma clamp01_nonneg (t : K) : 0 ≤ clamp01 t := le_min zero_le_one (le_max_left 0 t)

lemma clamp01_le_one (t : K) : clamp01 t ≤ 1 := min_le_left 1 _

lemma clamp01_mono : Monotone (clamp01 : K → K) := fun _ _ h =>
  min_le_min le_rfl (max_le_max le_rfl h)

lemma clamp01_of_nonpos {t : K} (h : t ≤ 0) : clamp01 t = 0 := by
  unfold clamp01; rw [max_eq_left h, min_eq_right zero_le_one]

lemma clamp01_of_one_le {t : K} (h : 1 ≤ t) : clamp01 t = 1 := by
  unfold clamp01; rw [max_eq_right (zero_le_one.trans h), min_eq_left h]

lemma clamp01_of_mem {t : K} (h0 : 0 ≤ t) (h1 : t ≤ 1) : clamp01 t = t := by
  unfold clamp01; rw [max_eq_right h0, min_eq_right h1]

/-- the code's `minimum(maximum(t, 0), w)` is `w` times the clamp of `t / w` -/
lemma min_max_eq_mul_clamp {w : K} (hw : 0 < w) (t : K) : min (max t 0) w = w * clamp01 (t / w) := by
  rcases le_total t 0 with h | h
  · have h' : t / w ≤ 0 := div_nonpos_of_nonpos_of_nonneg h hw.le
    rw [max_eq_right h, min_eq_left hw.le, clamp01_of_nonpos h', mul_zero]
  · rcases le_total t w with h2 | h2
    · have h3 : 0 ≤ t / w := div_nonneg h hw.le
      have h4 : t / w ≤ 1 := (div_le_one hw).mpr h2
      rw [max_eq_left h, min_eq_left h2, clamp01_of_mem h3 h4, mul_div_cancel₀ _ hw.ne']
    · have h4 : 1 ≤ t / w := (one_le_div hw).mpr h2
      rw [max_eq_left h, min_eq_right h2, clamp01_of_one_le h4, mul_one]

/-- `x ↦ (x - a) / w` is monotone for `w > 0` -/
lemma sub_div_mono {w : K} (hw : 0 < w) (a : K) : Monotone fun x : K => (x - a) / w := fun _ _ h =>
  div_le_div_of_nonneg_right (sub_le_sub_right h a) hw.le

/-! ### products of two marginals with values in [0,1] -/

lemma prod_mem_unit {a b : K} (ha0 : 0 ≤ a) (ha1 : a ≤ 1) (hb0 : 0 ≤ b) (hb1 : b ≤ 1) :
    0 ≤ a * b ∧ a * b ≤ 1 :=
  ⟨mul_nonneg ha0 hb0, mul_le_one₀ ha1 hb0 hb1⟩

/-- inclusion–exclusion of a product CDF over a rectangle factors -/
lemma rect_factor (a0 a1 b0 b1 : K) :
    a1 * b1 - a0 * b1 - a1 * b0 + a0 * b0 = (a1 - a0) * (b1 - b0) := by ring

end PersimVerif.KernelLemmas
