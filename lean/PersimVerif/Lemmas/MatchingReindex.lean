import PersimVerif.Lemmas.MatchingLaws
import PersimVerif.Lemmas.PermEquiv
import Mathlib.Logic.Equiv.Fin.Basic
import Mathlib.Data.Fin.SuccPred
import Mathlib.Algebra.BigOperators.Fin

/-!
# The matching specification does not depend on how the points are indexed

`Spec.IsBottleneck` / `Spec.IsMinSum` are stated for arbitrary index types.  A bijection of the index
types that respects the three cost functions transports partial matchings with their costs, hence
the two specification values.  This is the bridge from the index-type laws of `Props/C07.lean`
(`Option N` = "one more point", `S ∘ e.symm` = "reordered") to diagrams given as *lists*
(`x :: T`, `l.map f`, `List.Perm`), which is what the models of the code consume
(`Props/C07Model.lean`).
-/
namespace PersimVerif.Spec
open Finset

variable {M N M' N' K : Type}

/-- transport a partial matching along bijections of the two index types -/
def PM.reindex (eM : M ≃ M') (eN : N ≃ N') (p : PM M N) : PM M' N' where
  f i' := (p.f (eM.symm i')).map eN
  g j' := (p.g (eN.symm j')).map eM
  fg := by
    intro i' j'
    simp only [Option.map_eq_some_iff]
    constructor
    · rintro ⟨j, hj, rfl⟩
      exact ⟨eM.symm i', by simpa using (p.fg _ _).mp hj, by simp⟩
    · rintro ⟨i, hi, rfl⟩
      exact ⟨eN.symm j', by simpa using (p.fg _ _).mpr hi, by simp⟩

section costs
variable (eM : M ≃ M') (eN : N ≃ N') (p : PM M N)
  {c : M → N → K} {u : M → K} {v : N → K} {c' : M' → N' → K} {u' : M' → K} {v' : N' → K}

theorem PM.rowCost_reindex (hc : ∀ i j, c' (eM i) (eN j) = c i j) (hu : ∀ i, u' (eM i) = u i) (i : M) :
    (p.reindex eM eN).rowCost c' u' (eM i) = p.rowCost c u i := by
  unfold PM.rowCost PM.reindex
  simp only [Equiv.symm_apply_apply]
  cases p.f i <;> simp [hc, hu]

theorem PM.colCost_reindex [Zero K] (hv : ∀ j, v' (eN j) = v j) (j : N) :
    (p.reindex eM eN).colCost v' (eN j) = p.colCost v j := by
  unfold PM.colCost PM.reindex
  simp only [Equiv.symm_apply_apply]
  cases p.g j <;> simp [hv]

theorem PM.maxLE_reindex [LinearOrder K] [Zero K] (hc : ∀ i j, c' (eM i) (eN j) = c i j)
    (hu : ∀ i, u' (eM i) = u i) (hv : ∀ j, v' (eN j) = v j) {d : K} (h : p.MaxLE c u v d) :
    (p.reindex eM eN).MaxLE c' u' v' d := by
  obtain ⟨h0, hr, hcol⟩ := h
  refine ⟨h0, fun i' => ?_, fun j' hj' => ?_⟩
  · have := hr (eM.symm i')
    rw [← PM.rowCost_reindex eM eN p hc hu] at this
    simpa using this
  · have hg : p.g (eN.symm j') = none := by simpa [PM.reindex] using hj'
    have := hcol _ hg
    rw [← hv] at this
    simpa using this

theorem PM.sumCost_reindex [AddCommMonoid K] [Fintype M] [Fintype N] [Fintype M'] [Fintype N']
    (hc : ∀ i j, c' (eM i) (eN j) = c i j) (hu : ∀ i, u' (eM i) = u i) (hv : ∀ j, v' (eN j) = v j) :
    (p.reindex eM eN).sumCost c' u' v' = p.sumCost c u v := by
  unfold PM.sumCost
  congr 1
  · rw [← Equiv.sum_comp eM]
    exact Finset.sum_congr rfl fun i _ => PM.rowCost_reindex eM eN p hc hu i
  · rw [← Equiv.sum_comp eN]
    exact Finset.sum_congr rfl fun j _ => PM.colCost_reindex eM eN p hv j

end costs

/-- **the bottleneck value does not depend on the indexing** -/
theorem IsBottleneck.reindex [LinearOrder K] [Zero K] (eM : M ≃ M') (eN : N ≃ N')
    {c : M → N → K} {u : M → K} {v : N → K} {c' : M' → N' → K} {u' : M' → K} {v' : N' → K}
    (hc : ∀ i j, c' (eM i) (eN j) = c i j) (hu : ∀ i, u' (eM i) = u i) (hv : ∀ j, v' (eN j) = v j)
    {d : K} (h : IsBottleneck c u v d) : IsBottleneck c' u' v' d := by
  obtain ⟨⟨p, hp⟩, hl⟩ := h
  refine ⟨⟨p.reindex eM eN, PM.maxLE_reindex eM eN p hc hu hv hp⟩, fun q d' hq => ?_⟩
  exact hl (q.reindex eM.symm eN.symm) d'
    (PM.maxLE_reindex eM.symm eN.symm q (fun i j => by rw [← hc]; simp) (fun i => by rw [← hu]; simp)
      (fun j => by rw [← hv]; simp) hq)

theorem isBottleneck_reindex_iff [LinearOrder K] [Zero K] (eM : M ≃ M') (eN : N ≃ N')
    {c : M → N → K} {u : M → K} {v : N → K} {c' : M' → N' → K} {u' : M' → K} {v' : N' → K}
    (hc : ∀ i j, c' (eM i) (eN j) = c i j) (hu : ∀ i, u' (eM i) = u i) (hv : ∀ j, v' (eN j) = v j)
    (d : K) : IsBottleneck c' u' v' d ↔ IsBottleneck c u v d :=
  ⟨IsBottleneck.reindex eM.symm eN.symm (fun i j => by rw [← hc]; simp) (fun i => by rw [← hu]; simp)
      (fun j => by rw [← hv]; simp),
    IsBottleneck.reindex eM eN hc hu hv⟩

/-- **the min-sum value does not depend on the indexing** -/
theorem IsMinSum.reindex [AddCommMonoid K] [LinearOrder K] [Fintype M] [Fintype N] [Fintype M'] [Fintype N']
    (eM : M ≃ M') (eN : N ≃ N')
    {c : M → N → K} {u : M → K} {v : N → K} {c' : M' → N' → K} {u' : M' → K} {v' : N' → K}
    (hc : ∀ i j, c' (eM i) (eN j) = c i j) (hu : ∀ i, u' (eM i) = u i) (hv : ∀ j, v' (eN j) = v j)
    {w : K} (h : IsMinSum c u v w) : IsMinSum c' u' v' w := by
  obtain ⟨⟨p, hp⟩, hl⟩ := h
  refine ⟨⟨p.reindex eM eN, by rw [PM.sumCost_reindex eM eN p hc hu hv, hp]⟩, fun q => ?_⟩
  have := hl (q.reindex eM.symm eN.symm)
  rwa [PM.sumCost_reindex eM.symm eN.symm q (c := c') (u := u') (v := v') (c' := c) (u' := u) (v' := v)
    (fun i j => by rw [← hc]; simp) (fun i => by rw [← hu]; simp) (fun j => by rw [← hv]; simp)] at this

theorem isMinSum_reindex_iff [AddCommMonoid K] [LinearOrder K] [Fintype M] [Fintype N] [Fintype M'] [Fintype N']
    (eM : M ≃ M') (eN : N ≃ N')
    {c : M → N → K} {u : M → K} {v : N → K} {c' : M' → N' → K} {u' : M' → K} {v' : N' → K}
    (hc : ∀ i j, c' (eM i) (eN j) = c i j) (hu : ∀ i, u' (eM i) = u i) (hv : ∀ j, v' (eN j) = v j)
    (w : K) : IsMinSum c' u' v' w ↔ IsMinSum c u v w :=
  ⟨IsMinSum.reindex eM.symm eN.symm (fun i j => by rw [← hc]; simp) (fun i => by rw [← hu]; simp)
      (fun j => by rw [← hv]; simp),
    IsMinSum.reindex eM eN hc hu hv⟩

/-! ### the three list shapes the models need -/

/-- positions of `l.map f` are the positions of `l` -/
def mapIdx {α β : Type} (f : α → β) (l : List α) : Fin l.length ≃ Fin (l.map f).length :=
  finCongr (List.length_map f).symm

theorem get_mapIdx {α β : Type} (f : α → β) (l : List α) (i : Fin l.length) :
    (l.map f).get (mapIdx f l i) = f (l.get i) := by
  simp [mapIdx]

/-- positions of `x :: l`: the new head or a position of `l` -/
def consIdx {α : Type} (x : α) (l : List α) : Option (Fin l.length) ≃ Fin (x :: l).length :=
  (finSuccEquiv l.length).symm

theorem get_consIdx {α : Type} (x : α) (l : List α) (o : Option (Fin l.length)) :
    (x :: l).get (consIdx x l o) = o.elim x l.get := by
  cases o with
  | none =>
    show (x :: l).get ((finSuccEquiv l.length).symm none) = x
    rw [finSuccEquiv_symm_none]; rfl
  | some j =>
    show (x :: l).get ((finSuccEquiv l.length).symm (some j)) = l.get j
    rw [finSuccEquiv_symm_some]; rfl

end PersimVerif.Spec
