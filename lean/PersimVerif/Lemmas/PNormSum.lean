import PersimVerif.Lemmas.PNormSeg
import PersimVerif.Model.PLBase
import Mathlib.MeasureTheory.Integral.IntervalIntegral.Basic

/-!
# C10 helper lemmas, part 2: a whole depth function and a whole landscape

For strictly increasing abscissae the sum of the model's segment terms is the integral of
`|evalPL l|^p` over `[first abscissa, last abscissa]`, and — because `evalPL` vanishes outside —
over the whole real line when `p ≥ 1`.
-/
namespace PersimVerif.PNormLemmas
open PersimVerif.PNorm PersimVerif.PL intervalIntegral MeasureTheory

noncomputable section

/-- strictly increasing abscissae -/
def StrictAbsc (l : List (ℝ × ℝ)) : Prop := l.Pairwise (fun a b => a.1 < b.1)

def firstX : List (ℝ × ℝ) → ℝ
  | [] => 0
  | a :: _ => a.1

def lastX : List (ℝ × ℝ) → ℝ
  | [] => 0
  | [a] => a.1
  | _ :: b :: r => lastX (b :: r)

theorem lastX_eq_getLast (l : List (ℝ × ℝ)) (h : l ≠ []) : lastX l = (l.getLast h).1 := by
  induction l with
  | nil => exact absurd rfl h
  | cons a t ih =>
    cases t with
    | nil => rfl
    | cons b r => simpa [lastX] using ih (by simp)

theorem firstX_eq_head (l : List (ℝ × ℝ)) (h : l ≠ []) : firstX l = (l.head h).1 := by
  cases l with
  | nil => exact absurd rfl h
  | cons a t => rfl

theorem StrictAbsc.tail {a : ℝ × ℝ} {t : List (ℝ × ℝ)} (h : StrictAbsc (a :: t)) : StrictAbsc t :=
  (List.pairwise_cons.mp h).2

theorem StrictAbsc.head_lt {a b : ℝ × ℝ} {t : List (ℝ × ℝ)} (h : StrictAbsc (a :: b :: t)) :
    a.1 < b.1 := (List.pairwise_cons.mp h).1 b (by simp)

theorem StrictAbsc.le_lastX {a : ℝ × ℝ} {t : List (ℝ × ℝ)} (h : StrictAbsc (a :: t)) :
    a.1 ≤ lastX (a :: t) := by
  induction t generalizing a with
  | nil => simp [lastX]
  | cons b r ih => exact le_trans h.head_lt.le (by simpa [lastX] using ih h.tail)

/-! ### `evalPL` on and off the support -/

theorem evalPL_cons_cons (x0 y0 x1 y1 : ℝ) (r : List (ℝ × ℝ)) (t : ℝ) :
    evalPL ((x0, y0) :: (x1, y1) :: r) t
      = if t < x0 then 0 else if t ≤ x1 then segLine x0 y0 x1 y1 t else evalPL ((x1, y1) :: r) t := by
  simp [evalPL, segLine]

theorem evalPL_on_first_seg {x0 y0 x1 y1 : ℝ} {r : List (ℝ × ℝ)} {t : ℝ} (h0 : x0 ≤ t) (h1 : t ≤ x1) :
    evalPL ((x0, y0) :: (x1, y1) :: r) t = segLine x0 y0 x1 y1 t := by
  rw [evalPL_cons_cons, if_neg (not_lt.mpr h0), if_pos h1]

theorem evalPL_after_first_seg {x0 y0 x1 y1 : ℝ} {r : List (ℝ × ℝ)} {t : ℝ} (hx : x0 ≤ x1) (h1 : x1 < t) :
    evalPL ((x0, y0) :: (x1, y1) :: r) t = evalPL ((x1, y1) :: r) t := by
  rw [evalPL_cons_cons, if_neg (not_lt.mpr (hx.trans h1.le)), if_neg (not_le.mpr h1)]

theorem evalPL_eq_zero_of_lt (l : List (ℝ × ℝ)) (t : ℝ) (h : t < firstX l) : evalPL l t = 0 := by
  match l with
  | [] => rfl
  | [_] => rfl
  | (x0, y0) :: (x1, y1) :: r => rw [evalPL_cons_cons, if_pos (by simpa [firstX] using h)]

theorem evalPL_eq_zero_of_gt (l : List (ℝ × ℝ)) (hs : StrictAbsc l) (t : ℝ) (h : lastX l < t) :
    evalPL l t = 0 := by
  induction l with
  | nil => rfl
  | cons a r ih =>
    cases r with
    | nil => rfl
    | cons b r' =>
      obtain ⟨x0, y0⟩ := a
      obtain ⟨x1, y1⟩ := b
      have hlt : x0 < x1 := hs.head_lt
      have h' : lastX ((x1, y1) :: r') < t := by simpa [lastX] using h
      have hx1 : x1 < t := lt_of_le_of_lt hs.tail.le_lastX h'
      rw [evalPL_after_first_seg hlt.le hx1]
      exact ih hs.tail h'

/-! ### the sum of the segment terms of one depth function -/

/-- the terms `_p_norm` adds for one depth function -/
def segSum (p : ℕ) (l : List (ℝ × ℝ)) : ℝ :=
  ((segs l).map fun s => segTermNat p s.1.1 s.1.2 s.2.1 s.2.2).sum

theorem segSum_cons_cons (p : ℕ) (a b : ℝ × ℝ) (r : List (ℝ × ℝ)) :
    segSum p (a :: b :: r) = segTermNat p a.1 a.2 b.1 b.2 + segSum p (b :: r) := by
  simp [segSum, segs]

/-- the integrand -/
def absPow (p : ℕ) (l : List (ℝ × ℝ)) (t : ℝ) : ℝ := |evalPL l t| ^ p

theorem segLine_intervalIntegrable (p : ℕ) (x0 y0 x1 y1 a b : ℝ) :
    IntervalIntegrable (fun t => |segLine x0 y0 x1 y1 t| ^ p) volume a b := by
  apply Continuous.intervalIntegrable
  unfold segLine
  fun_prop

/-- **one depth function**: integrability and `Σ segment terms = ∫_{first}^{last} |evalPL|^p` -/
theorem segSum_eq_integral (p : ℕ) (l : List (ℝ × ℝ)) (hs : StrictAbsc l) :
    IntervalIntegrable (absPow p l) volume (firstX l) (lastX l) ∧
      segSum p l = ∫ t in firstX l..lastX l, absPow p l t := by
  induction l with
  | nil => simp [segSum, segs, firstX, lastX]
  | cons a r ih =>
    cases r with
    | nil => simp [segSum, segs, firstX, lastX]
    | cons b r' =>
      obtain ⟨x0, y0⟩ := a
      obtain ⟨x1, y1⟩ := b
      have hlt : x0 < x1 := hs.head_lt
      obtain ⟨ihI, ihS⟩ := ih hs.tail
      have hlast : x1 ≤ lastX ((x1, y1) :: r') := hs.tail.le_lastX
      simp only [firstX, lastX] at ihI ihS ⊢
      -- first segment
      have e1 : Set.EqOn (fun t => |segLine x0 y0 x1 y1 t| ^ p) (absPow p ((x0, y0) :: (x1, y1) :: r'))
          (Set.uIcc x0 x1) := by
        intro t ht
        rw [Set.uIcc_of_le hlt.le] at ht
        simp only [absPow, evalPL_on_first_seg ht.1 ht.2]
      have i1 : IntervalIntegrable (absPow p ((x0, y0) :: (x1, y1) :: r')) volume x0 x1 :=
        (segLine_intervalIntegrable p x0 y0 x1 y1 x0 x1).congr (e1.mono Set.uIoc_subset_uIcc)
      -- the rest
      have e2 : Set.EqOn (absPow p ((x1, y1) :: r')) (absPow p ((x0, y0) :: (x1, y1) :: r'))
          (Set.uIoc x1 (lastX ((x1, y1) :: r'))) := by
        intro t ht
        rw [Set.uIoc_of_le hlast] at ht
        simp only [absPow, evalPL_after_first_seg hlt.le ht.1]
      have i2 : IntervalIntegrable (absPow p ((x0, y0) :: (x1, y1) :: r')) volume x1
          (lastX ((x1, y1) :: r')) := ihI.congr e2
      refine ⟨i1.trans i2, ?_⟩
      rw [segSum_cons_cons, ← integral_add_adjacent_intervals i1 i2, ← integral_congr e1,
        ← integral_congr_ae (Filter.Eventually.of_forall fun t ht => e2 ht), ← ihS,
        segTermNat_eq_integral p x0 y0 x1 y1 hlt]

/-- `evalPL` vanishes outside `[first, last]`, so for `p ≥ 1` the integral is one over the real line -/
theorem integral_absPow_eq (p : ℕ) (hp : 1 ≤ p) (l : List (ℝ × ℝ)) (hs : StrictAbsc l) :
    ∫ t in firstX l..lastX l, absPow p l t = ∫ t, absPow p l t := by
  have hle : firstX l ≤ lastX l := by
    cases l with
    | nil => simp [firstX, lastX]
    | cons a r => exact hs.le_lastX
  rw [integral_of_le hle, ← integral_Icc_eq_integral_Ioc]
  apply setIntegral_eq_integral_of_forall_compl_eq_zero
  intro t ht
  have hp0 : p ≠ 0 := by omega
  rw [Set.mem_Icc, not_and_or, not_le, not_le] at ht
  rcases ht with ht | ht
  · simp [absPow, evalPL_eq_zero_of_lt l t ht, hp0]
  · simp [absPow, evalPL_eq_zero_of_gt l hs t ht, hp0]

/-! ### the accumulated value -/

theorem foldl_add_eq_sum (l : List ℝ) : l.foldl (· + ·) 0 = l.sum := by
  rw [List.sum_eq_foldl]

theorem pNormPow_eq_sum_segSum (p : ℕ) (cps : List (List (ℝ × ℝ))) :
    pNormPow p cps = (cps.map (segSum p)).sum := by
  unfold pNormPow pNormPowGen accumulate
  rw [foldl_add_eq_sum]
  induction cps with
  | nil => simp [segTerms]
  | cons l r ih =>
    simp only [segTerms, List.flatMap_cons, List.sum_append, List.map_cons, List.sum_cons] at ih ⊢
    rw [ih]
    rfl

end
end PersimVerif.PNormLemmas
