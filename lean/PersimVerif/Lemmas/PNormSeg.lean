import PersimVerif.Model.PNorm
import Mathlib.Analysis.SpecialFunctions.Integrals.Basic

/-!
# C10 helper lemmas, part 1: one segment

`∫ |line|^p` over a segment in closed form (any signs of the end values), and the identification of
the model's three branches (`segTermNat`) with it.
-/
namespace PersimVerif.PNormLemmas
open PersimVerif.PNorm intervalIntegral

noncomputable section

theorem absA_eq_abs (x : ℝ) : absA x = |x| := by
  unfold absA
  split_ifs with h
  · exact (abs_of_neg h).symm
  · exact (abs_of_nonneg (not_lt.mp h)).symm

/-- `∫₀ᵇ |u|^p = b |b|^p / (p+1)` for every real `b` -/
theorem int_abs_pow_zero (p : ℕ) (b : ℝ) :
    ∫ u in (0:ℝ)..b, |u| ^ p = b * |b| ^ p / (p + 1) := by
  rcases le_total 0 b with hb | hb
  · have : ∫ u in (0:ℝ)..b, |u| ^ p = ∫ u in (0:ℝ)..b, u ^ p := by
      apply integral_congr
      intro u hu
      have h0 : 0 ≤ u := by
        rw [Set.uIcc_of_le hb] at hu; exact hu.1
      simp [abs_of_nonneg h0]
    rw [this, integral_pow, abs_of_nonneg hb]
    simp [pow_succ]; ring
  · have : ∫ u in (0:ℝ)..b, |u| ^ p = ∫ u in (0:ℝ)..b, (-u) ^ p := by
      apply integral_congr
      intro u hu
      have h0 : u ≤ 0 := by
        rw [Set.uIcc_of_ge hb] at hu; exact hu.2
      simp [abs_of_nonpos h0]
    rw [this, integral_comp_neg (fun u => u ^ p), integral_pow, abs_of_nonpos hb]
    simp [pow_succ]; ring

/-- `∫ₐᵇ |u|^p = (b |b|^p − a |a|^p) / (p+1)` for all real `a b` -/
theorem int_abs_pow (p : ℕ) (a b : ℝ) :
    ∫ u in a..b, |u| ^ p = (b * |b| ^ p - a * |a| ^ p) / (p + 1) := by
  have hc : Continuous fun u : ℝ => |u| ^ p := (continuous_abs).pow p
  have h := integral_add_adjacent_intervals (μ := MeasureTheory.volume) (hc.intervalIntegrable a 0)
    (hc.intervalIntegrable 0 b)
  rw [← h, integral_symm 0 a, int_abs_pow_zero, int_abs_pow_zero]
  ring

/-- a non-horizontal line `m x + c`: closed form of `∫ |m x + c|^p` between any two abscissae -/
theorem int_abs_line_pow (p : ℕ) (x0 x1 m c : ℝ) (hm : m ≠ 0) :
    ∫ x in x0..x1, |m * x + c| ^ p
      = ((m * x1 + c) * |m * x1 + c| ^ p - (m * x0 + c) * |m * x0 + c| ^ p) / (m * (p + 1)) := by
  have := integral_comp_mul_add (fun u => |u| ^ p) hm c (a := x0) (b := x1)
  rw [this, int_abs_pow, smul_eq_mul]
  field_simp

/-- the interpolating line of a segment, exactly as `evalPL` writes it -/
def segLine (x0 y0 x1 y1 t : ℝ) : ℝ := y0 + (y1 - y0) * (t - x0) / (x1 - x0)

/-- closed form of `∫ |segLine|^p` over a non-horizontal segment, any signs -/
theorem int_segLine_nonflat (p : ℕ) (x0 y0 x1 y1 : ℝ) (hx : x0 ≠ x1) (hy : y0 ≠ y1) :
    ∫ t in x0..x1, |segLine x0 y0 x1 y1 t| ^ p
      = (x1 - x0) * (y1 * |y1| ^ p - y0 * |y0| ^ p) / ((y1 - y0) * (p + 1)) := by
  have hx' : x1 - x0 ≠ 0 := sub_ne_zero.mpr (Ne.symm hx)
  have hy' : y1 - y0 ≠ 0 := sub_ne_zero.mpr (Ne.symm hy)
  set m := (y1 - y0) / (x1 - x0) with hm
  set c := y0 - m * x0 with hc
  have hm0 : m ≠ 0 := div_ne_zero hy' hx'
  have hline : ∀ t, segLine x0 y0 x1 y1 t = m * t + c := by
    intro t; simp only [segLine, hm, hc]; field_simp; ring
  have h0 : m * x0 + c = y0 := by simp only [hc]; ring
  have h1 : m * x1 + c = y1 := by simp only [hm, hc]; field_simp; ring
  simp_rw [hline]
  rw [int_abs_line_pow p x0 x1 m c hm0, h0, h1, hm]
  field_simp

/-- horizontal segment -/
theorem int_segLine_flat (p : ℕ) (x0 y0 x1 : ℝ) :
    ∫ t in x0..x1, |segLine x0 y0 x1 y0 t| ^ p = |y0| ^ p * (x1 - x0) := by
  have : ∀ t, segLine x0 y0 x1 y0 t = y0 := by intro t; simp [segLine]
  simp_rw [this]
  rw [integral_const, smul_eq_mul, mul_comm]

/-- the integral of a non-negative function over an ordered interval is non-negative -/
theorem int_segLine_nonneg (p : ℕ) (x0 y0 x1 y1 : ℝ) (hx : x0 ≤ x1) :
    0 ≤ ∫ t in x0..x1, |segLine x0 y0 x1 y1 t| ^ p :=
  integral_nonneg hx (fun _ _ => pow_nonneg (abs_nonneg _) _)

/-- the stable form of the one-signed branch: `M^p · ratio = (M^(p+1) − a^(p+1)) / (M − a)` -/
theorem oneSigned_ratio (p : ℕ) (a M : ℝ) (ha : 0 ≤ a) (haM : a < M) :
    M ^ p * (if (a / M == 0) = true then 1 else (1 - (a / M) ^ (p + 1)) / (1 - a / M))
      = (M ^ (p + 1) - a ^ (p + 1)) / (M - a) := by
  have hM : 0 < M := lt_of_le_of_lt ha haM
  have hMa : M - a ≠ 0 := (sub_pos.mpr haM).ne'
  by_cases h : a / M = 0
  · have ha0 : a = 0 := by
      rcases div_eq_zero_iff.mp h with h | h
      · exact h
      · exact absurd h hM.ne'
    subst ha0
    simp [pow_succ, hM.ne']
  · have h' : ¬ ((a / M == 0) = true) := by simpa using h
    rw [if_neg h', div_pow]
    have hMp : M ^ (p + 1) ≠ 0 := pow_ne_zero _ hM.ne'
    have e1 : 1 - a ^ (p + 1) / M ^ (p + 1) = (M ^ (p + 1) - a ^ (p + 1)) / M ^ (p + 1) := by
      field_simp
    have e2 : 1 - a / M = (M - a) / M := by field_simp
    rw [e1, e2, div_div_div_eq, pow_succ]
    field_simp

/-- not crossing, not flat: the closed form in terms of the magnitudes of the end values -/
theorem oneSigned_closed (p : ℕ) (y0 y1 : ℝ)
    (hs : (0 ≤ y0 ∧ 0 ≤ y1) ∨ (y0 ≤ 0 ∧ y1 ≤ 0)) :
    (y1 * |y1| ^ p - y0 * |y0| ^ p) / (y1 - y0)
      = (|y1| ^ (p + 1) - |y0| ^ (p + 1)) / (|y1| - |y0|) := by
  rcases hs with ⟨h0, h1⟩ | ⟨h0, h1⟩
  · rw [abs_of_nonneg h0, abs_of_nonneg h1]; simp only [pow_succ]; ring_nf
  · rw [abs_of_nonpos h0, abs_of_nonpos h1]
    have : (-y1) ^ (p + 1) - (-y0) ^ (p + 1) = -(y1 * (-y1) ^ p - y0 * (-y0) ^ p) := by
      simp only [pow_succ]; ring
    rw [this, show -y1 - -y0 = -(y1 - y0) by ring, neg_div_neg_eq]

/-- the test of the sign-crossing branch -/
def crossing (y0 y1 : ℝ) : Prop := (y0 < 0 ∧ 0 < y1) ∨ (0 < y0 ∧ y1 < 0)

theorem segTermNat_flat (p : ℕ) (x0 y0 x1 : ℝ) :
    segTermNat p x0 y0 x1 y0 = |y0| ^ p * (x1 - x0) := by
  simp [segTermNat, segTerm, absA_eq_abs]

theorem segTermNat_cross (p : ℕ) (x0 y0 x1 y1 : ℝ) (hx : x0 ≠ x1) (hc : crossing y0 y1) :
    segTermNat p x0 y0 x1 y1
      = (|y1| ^ (p + 1) + |y0| ^ (p + 1)) / (|(y1 - y0) / (x1 - x0)| * (p + 1)) := by
  have hy : y0 ≠ y1 := by
    rcases hc with ⟨h0, h1⟩ | ⟨h0, h1⟩
    · exact (h0.trans h1).ne
    · exact (h1.trans h0).ne'
  have hx' : x1 - x0 ≠ 0 := sub_ne_zero.mpr (Ne.symm hx)
  have hy' : y1 - y0 ≠ 0 := sub_ne_zero.mpr (Ne.symm hy)
  have hm0 : (y1 - y0) / (x1 - x0) ≠ 0 := div_ne_zero hy' hx'
  have hne : ¬ ((y0 == y1) = true) := by simpa using hy
  simp only [segTermNat, segTerm, absA_eq_abs, if_neg hne]
  unfold crossing at hc
  rw [if_pos hc]
  have e1 : (y1 - y0) / (x1 - x0) * x1 + (y0 - (y1 - y0) / (x1 - x0) * x0) = y1 := by
    field_simp; ring
  have e0 : (y1 - y0) / (x1 - x0) * x0 + (y0 - (y1 - y0) / (x1 - x0) * x0) = y0 := by ring
  have ez : (y1 - y0) / (x1 - x0) * (-(y0 - (y1 - y0) / (x1 - x0) * x0) / ((y1 - y0) / (x1 - x0)))
      + (y0 - (y1 - y0) / (x1 - x0) * x0) = 0 := by
    rw [mul_div_cancel₀ _ hm0]; ring
  rw [e1, e0, ez]
  have hpos : 0 ≤ (|y1| ^ (p + 1) + |y0| ^ (p + 1)) / (|(y1 - y0) / (x1 - x0)| * ((p + 1 : ℕ) : ℝ)) := by
    positivity
  simp only [abs_zero, ne_eq, Nat.add_eq_zero_iff, one_ne_zero, and_false, not_false_eq_true, zero_pow,
    zero_div, mul_zero, sub_zero]
  rw [← add_div, abs_of_nonneg hpos]
  push_cast
  ring

theorem sortedAbs_real (y0 y1 : ℝ) : sortedAbs y0 y1 = (min |y0| |y1|, max |y0| |y1|) := by
  simp only [sortedAbs, absA_eq_abs]
  split_ifs with h
  · rw [min_eq_right h.le, max_eq_left h.le]
  · have h' := not_lt.mp h
    rw [min_eq_left h', max_eq_right h']

theorem G_minmax (p : ℕ) (u v : ℝ) :
    ((max u v) ^ (p + 1) - (min u v) ^ (p + 1)) / (max u v - min u v)
      = (v ^ (p + 1) - u ^ (p + 1)) / (v - u) := by
  rcases le_total u v with h | h
  · rw [max_eq_right h, min_eq_left h]
  · rw [max_eq_left h, min_eq_right h, ← neg_div_neg_eq]; ring_nf

theorem segTermNat_oneSigned (p : ℕ) (x0 y0 x1 y1 : ℝ) (hy : y0 ≠ y1) (hc : ¬ crossing y0 y1) :
    segTermNat p x0 y0 x1 y1
      = (x1 - x0) * ((|y1| ^ (p + 1) - |y0| ^ (p + 1)) / (|y1| - |y0|)) / (p + 1) := by
  have hne : ¬ ((y0 == y1) = true) := by simpa using hy
  simp only [segTermNat, segTerm, if_neg hne]
  have hc0 := hc
  unfold crossing at hc0
  rw [if_neg hc0]
  -- the magnitudes differ
  have habs : |y0| ≠ |y1| := by
    intro h
    rcases abs_eq_abs.mp h with h | h
    · exact hy h
    · apply hc
      rcases lt_trichotomy y1 0 with h1 | h1 | h1
      · right; exact ⟨by linarith, h1⟩
      · exfalso; apply hy; rw [h, h1]; simp
      · left; exact ⟨by linarith, h1⟩
  rw [sortedAbs_real]
  simp only []
  have hlt : min |y0| |y1| < max |y0| |y1| := by
    rcases lt_or_gt_of_ne habs with h | h
    · rw [min_eq_left h.le, max_eq_right h.le]; exact h
    · rw [min_eq_right h.le, max_eq_left h.le]; exact h
  rw [mul_assoc, oneSigned_ratio p _ _ (le_min (abs_nonneg _) (abs_nonneg _)) hlt, G_minmax]
  push_cast; ring

theorem not_crossing_iff (y0 y1 : ℝ) :
    ¬ crossing y0 y1 ↔ (0 ≤ y0 ∧ 0 ≤ y1) ∨ (y0 ≤ 0 ∧ y1 ≤ 0) := by
  unfold crossing
  constructor
  · intro h
    push Not at h
    obtain ⟨h1, h2⟩ := h
    rcases le_or_gt 0 y0 with a | a
    · rcases le_or_gt 0 y1 with b | b
      · exact Or.inl ⟨a, b⟩
      · rcases eq_or_lt_of_le a with e | e
        · right; exact ⟨e.symm.le, b.le⟩
        · exact absurd b (not_lt.mpr (h2 e))
    · rcases le_or_gt y1 0 with b | b
      · exact Or.inr ⟨a.le, b⟩
      · exact absurd b (not_lt.mpr (h1 a))
  · rintro (⟨a, b⟩ | ⟨a, b⟩) (⟨c, d⟩ | ⟨c, d⟩) <;> linarith

/-- **one segment**: the model's term is the integral of `|line|^p` over the segment -/
theorem segTermNat_eq_integral (p : ℕ) (x0 y0 x1 y1 : ℝ) (hx : x0 < x1) :
    segTermNat p x0 y0 x1 y1 = ∫ t in x0..x1, |segLine x0 y0 x1 y1 t| ^ p := by
  have hx' : 0 < x1 - x0 := sub_pos.mpr hx
  by_cases hy : y0 = y1
  · subst hy; rw [segTermNat_flat, int_segLine_flat]
  have hy' : y1 - y0 ≠ 0 := sub_ne_zero.mpr (Ne.symm hy)
  rw [int_segLine_nonflat p x0 y0 x1 y1 hx.ne hy]
  by_cases hc : crossing y0 y1
  · rw [segTermNat_cross p x0 y0 x1 y1 hx.ne hc]
    rcases hc with ⟨h0, h1⟩ | ⟨h0, h1⟩
    · have hm : 0 < (y1 - y0) / (x1 - x0) := div_pos (by linarith) hx'
      rw [abs_of_pos hm, abs_of_pos h1, abs_of_neg h0]
      field_simp; ring
    · have hm : (y1 - y0) / (x1 - x0) < 0 := div_neg_of_neg_of_pos (by linarith) hx'
      rw [abs_of_neg hm, abs_of_neg h1, abs_of_pos h0]
      field_simp; ring
  · rw [segTermNat_oneSigned p x0 y0 x1 y1 hy hc,
      ← oneSigned_closed p y0 y1 ((not_crossing_iff y0 y1).mp hc)]
    field_simp

end
end PersimVerif.PNormLemmas
