import PersimVerif.Model.Bottleneck
import Mathlib.Order.Basic
import Mathlib.Order.Defs.LinearOrder
import Mathlib.Data.List.Basic

/-!
# `Ext K` (a value or `+∞`) is a linear order; `sortUnique` lists every value once, increasingly
-/
namespace PersimVerif.Bottleneck

namespace Ext
variable {K : Type}

@[simp] theorem fin_le_fin [LE K] {a b : K} : (fin a : Ext K) ≤ fin b ↔ a ≤ b := Iff.rfl
@[simp] theorem le_top' [LE K] (x : Ext K) : x ≤ top := by cases x <;> trivial
@[simp] theorem top_le_fin [LE K] (a : K) : ¬ (top : Ext K) ≤ fin a := fun h => h

instance instLinearOrder [LinearOrder K] : LinearOrder (Ext K) where
  le := (· ≤ ·)
  le_refl a := by cases a <;> simp
  le_trans a b c := by
    cases a <;> cases b <;> cases c <;> simp
    exact le_trans
  le_antisymm a b := by
    cases a <;> cases b <;> simp
    exact le_antisymm
  le_total a b := by
    cases a <;> cases b <;> simp
    exact le_total _ _
  toDecidableLE := Ext.instDecidableLE

@[simp] theorem fin_lt_fin [LinearOrder K] {a b : K} : (fin a : Ext K) < fin b ↔ a < b := by
  rw [lt_iff_le_not_ge, lt_iff_le_not_ge]; simp
@[simp] theorem fin_lt_top [LinearOrder K] (a : K) : (fin a : Ext K) < top := by
  rw [lt_iff_le_not_ge]; simp
theorem fin_injective : Function.Injective (fin : K → Ext K) := fun _ _ h => by cases h; rfl

end Ext

section SortLemmas
variable {β : Type} [LinearOrder β]

theorem dedupSorted_spec : ∀ (l : List β), l.Pairwise (· ≤ ·) →
    (dedupSorted l).Pairwise (· < ·) ∧ (∀ x, x ∈ dedupSorted l ↔ x ∈ l)
  | [], _ => by simp [dedupSorted]
  | [x], _ => by simp [dedupSorted]
  | x :: y :: r, h => by
    rw [List.pairwise_cons] at h
    obtain ⟨hx, hyr⟩ := h
    obtain ⟨ih1, ih2⟩ := dedupSorted_spec (y :: r) hyr
    have hxy : x ≤ y := hx y (by simp)
    rw [dedupSorted]
    split
    · rename_i hyx
      have : x = y := le_antisymm hxy hyx
      refine ⟨ih1, fun z => ?_⟩
      rw [ih2]; simp [this]
    · rename_i hyx
      have hlt : x < y := lt_of_le_not_ge hxy hyx
      refine ⟨?_, fun z => ?_⟩
      · rw [List.pairwise_cons]
        refine ⟨fun z hz => ?_, ih1⟩
        rw [ih2] at hz
        rcases List.mem_cons.mp hz with rfl | hz
        · exact hlt
        · exact lt_of_lt_of_le hlt ((List.pairwise_cons.mp hyr).1 z hz)
      · simp only [List.mem_cons, ih2]

theorem sortUnique_pairwise (l : List β) : (sortUnique l).Pairwise (· < ·) := by
  refine (dedupSorted_spec _ ?_).1
  have := List.pairwise_mergeSort (le := fun a b : β => decide (a ≤ b))
    (fun a b c hab hbc => by simp only [decide_eq_true_eq] at *; exact le_trans hab hbc)
    (fun a b => by simp only [Bool.or_eq_true, decide_eq_true_eq]; exact le_total a b) l
  simpa using this

theorem mem_sortUnique (l : List β) (x : β) : x ∈ sortUnique l ↔ x ∈ l := by
  have hs : (l.mergeSort fun a b : β => decide (a ≤ b)).Pairwise (· ≤ ·) := by
    have := List.pairwise_mergeSort (le := fun a b : β => decide (a ≤ b))
      (fun a b c hab hbc => by simp only [decide_eq_true_eq] at *; exact le_trans hab hbc)
      (fun a b => by simp only [Bool.or_eq_true, decide_eq_true_eq]; exact le_total a b) l
    simpa using this
  rw [sortUnique, (dedupSorted_spec _ hs).2, List.mem_mergeSort]

/-- the last element of a strictly increasing list is its maximum -/
theorem getLast?_max : ∀ (l : List β) (b : β), l.Pairwise (· < ·) → l.getLast? = some b →
    b ∈ l ∧ ∀ x ∈ l, x ≤ b
  | [], _, _, h => by simp at h
  | [x], b, _, h => by simp at h; subst h; simp
  | x :: y :: r, b, hp, h => by
    rw [List.pairwise_cons] at hp
    have h' : (y :: r).getLast? = some b := by simpa [List.getLast?_cons_cons] using h
    obtain ⟨hm, hmax⟩ := getLast?_max (y :: r) b hp.2 h'
    refine ⟨List.mem_cons_of_mem _ hm, fun z hz => ?_⟩
    rcases List.mem_cons.mp hz with rfl | hz
    · exact le_of_lt (hp.1 b hm)
    · exact hmax z hz

end SortLemmas
end PersimVerif.Bottleneck
