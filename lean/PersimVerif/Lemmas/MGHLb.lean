import PersimVerif.Lemmas.MGHBasic
import Mathlib.Data.Fintype.Card
import Mathlib.Data.Fintype.Pigeonhole

/-! the lower bound: trivial bound, bounded curvatures are principal, Theorems A and B -/
namespace PersimVerif.MGH
open PersimVerif.MGHSpec

theorem ent_eq_getElem {D : Mat} {i j : ℕ} (hi : i < D.length) (hj : j < D[i].length) :
    ent D i j = D[i][j] := by
  simp [ent, List.getD, hi, hj]

theorem ent_le_matMax (D : Mat) (i j : ℕ) : ent D i j ≤ matMax D := by
  unfold ent matMax
  by_cases hi : i < D.length
  · by_cases hj : j < D[i].length
    · have h1 : D[i][j] ≤ D[i].foldl max 0 := le_foldl_max_of_mem 0 (List.getElem_mem hj)
      have h2 : D[i].foldl max 0 ≤ (D.map fun r => r.foldl max 0).foldl max 0 :=
        le_foldl_max_of_mem 0 (List.mem_map.2 ⟨D[i], List.getElem_mem hi, rfl⟩)
      simp only [List.getD, hi, hj, List.getElem?_eq_getElem, Option.getD_some]
      omega
    · simp [List.getD, hi, hj]
  · simp [List.getD, hi]

theorem matMax_attained {D : Mat} {n : ℕ} (hD : DistMat D n) (hn : 0 < n) :
    ∃ i j, i < n ∧ j < n ∧ ent D i j = matMax D := by
  rcases foldl_max_eq_or_mem (D.map fun r => r.foldl max 0) 0 with h | h
  · exact ⟨0, 0, hn, hn, by rw [show matMax D = 0 from h]; exact (hD.zero_iff 0 0 hn hn).2 rfl⟩
  · obtain ⟨r, hr, e⟩ := List.mem_map.1 h
    rcases foldl_max_eq_or_mem r 0 with h' | h'
    · refine ⟨0, 0, hn, hn, ?_⟩
      rw [show matMax D = 0 from by unfold matMax; rw [← e, h']]
      exact (hD.zero_iff 0 0 hn hn).2 rfl
    · obtain ⟨i, hi, ei⟩ := List.getElem_of_mem hr
      have h'' : r.foldl max 0 ∈ D[i] := by rw [ei]; exact h'
      obtain ⟨j, hj, ej⟩ := List.getElem_of_mem h''
      have hrl := hD.row D[i] (List.getElem_mem hi)
      refine ⟨i, j, hD.len ▸ hi, hrl ▸ hj, ?_⟩
      rw [ent_eq_getElem hi hj, ej]
      exact e

theorem matFn_apply (D : Mat) (n : ℕ) (a b : Fin n) : matFn D n a b = ent D a b := rfl

/-- `|diam X − diam Y| ≤ 2·mGH` and unequal sizes force `2·mGH ≥ 1` -/
theorem trivialLb_le_mGH2 {DX DY : Mat} {n m : ℕ} [NeZero n] [NeZero m] (hX : DistMat DX n)
    (hY : DistMat DY m) : trivialLb DX DY ≤ mGH2 (matFn DX n) (matFn DY m) := by
  have hn : 0 < n := Nat.pos_of_ne_zero (NeZero.ne n)
  have hm : 0 < m := Nat.pos_of_ne_zero (NeZero.ne m)
  -- one direction of the diameter gap
  have gap : ∀ {DX DY : Mat} {n m : ℕ} [NeZero m], DistMat DX n → DistMat DY m → 0 < n →
      matMax DX - matMax DY ≤ minDis (matFn DX n) (matFn DY m) := by
    intro DX DY n m _ hX hY hn
    rw [le_minDis_iff]
    intro f
    obtain ⟨i, j, hi, hj, e⟩ := matMax_attained hX hn
    have h1 := le_dis (matFn DX n) (matFn DY m) f ⟨i, hi⟩ ⟨j, hj⟩
    have h2 := ent_le_matMax DY (f ⟨i, hi⟩) (f ⟨j, hj⟩)
    simp only [matFn_apply, e] at h1
    have := Nat.dist_tri_right' (matMax DX) (ent DY (f ⟨i, hi⟩) (f ⟨j, hj⟩))
    omega
  -- a collision when the source is larger
  have coll : ∀ {DX DY : Mat} {n m : ℕ} [NeZero m], DistMat DX n → DistMat DY m → m < n →
      1 ≤ minDis (matFn DX n) (matFn DY m) := by
    intro DX DY n m _ hX hY hlt
    rw [le_minDis_iff]
    intro f
    obtain ⟨a, b, hab, hfab⟩ := Fintype.exists_ne_map_eq_of_card_lt f (by simpa using hlt)
    have h1 := le_dis (matFn DX n) (matFn DY m) f a b
    simp only [matFn_apply, hfab] at h1
    rw [(hY.zero_iff (f b) (f b) (f b).isLt (f b).isLt).2 rfl, Nat.dist_zero_right] at h1
    have : ent DX a b ≠ 0 := fun h0 =>
      hab (Fin.ext ((hX.zero_iff a b a.isLt b.isLt).1 h0))
    omega
  unfold trivialLb mGH2
  have g1 := gap hX hY hn
  have g2 := gap hY hX hm
  rw [hX.len, hY.len]
  apply max_le
  · unfold absDiff; omega
  · split
    · rename_i hne
      rcases Nat.lt_or_gt_of_ne hne with h | h
      · have := coll hY hX h; omega
      · have := coll hX hY h; omega
    · omega

/-! ### `find_largest_size_bounded_curvature` keeps a principal submatrix with entries ≥ d -/

theorem anyUpperLess_false {K : Mat} {k d : ℕ} (h : anyUpperLess k K d = false) :
    ∀ a (ha : a < K.length) b (hb : b < K[a].length), k + a < b → d ≤ K[a][b] := by
  induction K generalizing k with
  | nil => intro a ha; simp at ha
  | cons r rs ih =>
    simp only [anyUpperLess, Bool.or_eq_false_iff] at h
    obtain ⟨h1, h2⟩ := h
    intro a ha b hb hab
    cases a with
    | zero =>
      simp only [List.getElem_cons_zero] at hb ⊢
      by_contra hlt
      have hmem : r[b] ∈ r.drop (k + 1) := by
        rw [List.mem_iff_getElem]
        refine ⟨b - (k + 1), by simp; omega, ?_⟩
        simp only [List.getElem_drop]
        congr 1; omega
      have : (r.drop (k + 1)).any (fun x => decide (x < d)) = true :=
        List.any_eq_true.2 ⟨r[b], hmem, by simpa using hlt⟩
      rw [h1] at this; exact Bool.false_ne_true this
    | succ a' =>
      simp only [List.getElem_cons_succ] at hb ⊢
      exact ih h2 a' (by simpa using ha) b hb (by omega)

theorem sub_length (D : Mat) (idx : List ℕ) : (sub D idx).length = idx.length := by simp [sub]

theorem sub_getElem (D : Mat) (idx : List ℕ) (a b : ℕ) (ha : a < idx.length) (hb : b < idx.length) :
    ∃ (h1 : a < (sub D idx).length) (h2 : b < (sub D idx)[a].length),
      (sub D idx)[a][b] = ent D idx[a] idx[b] := by
  refine ⟨by simpa [sub] using ha, by simpa [sub] using hb, ?_⟩
  simp [sub, ent]

theorem pairwise_of_anyUpperLess_false {D : Mat} {idx : List ℕ} {d : ℕ}
    (h : anyUpperLess 0 (sub D idx) d = false) : idx.Pairwise fun i j => d ≤ ent D i j := by
  rw [List.pairwise_iff_getElem]
  intro a b ha hb hab
  obtain ⟨h1, h2, e⟩ := sub_getElem D idx a b ha hb
  rw [← e]
  exact anyUpperLess_false h a h1 b h2 (by omega)

theorem eraseIdx_map {α β : Type} (f : α → β) (l : List α) (r : ℕ) :
    (l.map f).eraseIdx r = (l.eraseIdx r).map f := by
  induction l generalizing r with
  | nil => simp
  | cons a l ih =>
    cases r with
    | zero => simp
    | succ r => simp [List.eraseIdx_cons_succ, ih]

theorem delRowCol_sub (D : Mat) (idx : List ℕ) (r : ℕ) :
    delRowCol (sub D idx) r = sub D (idx.eraseIdx r) := by
  unfold delRowCol sub
  rw [eraseIdx_map, List.map_map]
  apply List.map_congr_left
  intro i _
  simp only [Function.comp]
  rw [eraseIdx_map]

/-- a square matrix is its own principal submatrix on all indices -/
theorem sub_range {D : Mat} {n : ℕ} (hlen : D.length = n) (hrow : ∀ r ∈ D, r.length = n) :
    sub D (List.range n) = D := by
  apply List.ext_getElem
  · simp [sub, hlen]
  · intro i h1 h2
    have hr : D[i].length = n := hrow _ (List.getElem_mem h2)
    apply List.ext_getElem
    · simp [sub, hr]
    · intro j h3 h4
      simp [sub, List.getD, h2, h4]

theorem colStats_length_le (K : Mat) (d : ℕ) : (colStats K d).length ≤ K.length := by
  unfold colStats
  have : ∀ (rows : Mat) (acc : List (ℕ × ℕ)),
      (rows.foldl (fun acc row => List.zipWith (fun (cs : ℕ × ℕ) x =>
        if x < d then (cs.1 + 1, cs.2) else (cs.1, cs.2 + x)) acc row) acc).length ≤ acc.length := by
    intro rows
    induction rows with
    | nil => intro acc; simp
    | cons row rows ih =>
      intro acc
      simp only [List.foldl_cons]
      refine le_trans (ih _) ?_
      simp only [List.length_zipWith]
      exact min_le_left _ _
  simpa using this K (List.replicate K.length (0, 0))

theorem argmin_sortKeys_lt (keyMul : ℕ → ℕ → ℤ) {K : Mat} (diam d : ℕ) (hK : K ≠ []) :
    argmin (sortKeys keyMul K diam d) < K.length := by
  have hpos : 0 < K.length := List.length_pos_iff.2 hK
  by_cases hk : sortKeys keyMul K diam d = []
  · rw [hk]; simpa [argmin] using hpos
  · have h1 := argmin_lt hk
    have h2 : (sortKeys keyMul K diam d).length ≤ K.length := by
      unfold sortKeys; rw [List.length_map]; exact colStats_length_le K d
    omega

/-- whatever the sort keys do, the loop returns the principal submatrix of `D` on a sub-list of the
    indices it started from, and the pairwise distances of those indices are all `≥ d` -/
theorem curvLoop_spec (keyMul : ℕ → ℕ → ℤ) (D : Mat) (diam d : ℕ) (fuel : ℕ) (K : Mat)
    (idx : List ℕ) (hK : K = sub D idx) :
    (curvLoop keyMul diam d fuel K idx).2.Sublist idx ∧
      ((curvLoop keyMul diam d fuel K idx).2.Pairwise fun i j => d ≤ ent D i j) ∧
      (curvLoop keyMul diam d fuel K idx).1 = sub D (curvLoop keyMul diam d fuel K idx).2 := by
  induction fuel generalizing K idx with
  | zero => simp [curvLoop, sub]
  | succ fuel ih =>
    simp only [curvLoop]
    split
    · obtain ⟨h1, h2, h3⟩ := ih (delRowCol K (argmin (sortKeys keyMul K diam d)))
        (idx.eraseIdx (argmin (sortKeys keyMul K diam d))) (by rw [hK, delRowCol_sub])
      exact ⟨h1.trans (List.eraseIdx_sublist _ _), h2, h3⟩
    · rename_i hc
      rw [hK] at hc
      exact ⟨List.Sublist.refl _, pairwise_of_anyUpperLess_false (by simpa using hc), hK⟩

/-- the recursion bound of `curvLoop` (the number of rows) is never exhausted -/
theorem curvLoop_fuel_succ (keyMul : ℕ → ℕ → ℤ) (diam d fuel : ℕ) (K : Mat) (idx : List ℕ)
    (h : K.length ≤ fuel) (hidx : idx.length = K.length) :
    curvLoop keyMul diam d (fuel + 1) K idx = curvLoop keyMul diam d fuel K idx := by
  induction fuel generalizing K idx with
  | zero =>
    have : K = [] := List.length_eq_zero_iff.1 (by omega)
    subst this
    have : idx = [] := List.length_eq_zero_iff.1 (by simpa using hidx)
    subst this
    simp [curvLoop, anyUpperLess]
  | succ fuel ih =>
    conv_lhs => rw [curvLoop]
    conv_rhs => rw [curvLoop]
    split
    · rename_i hc
      have hne : K ≠ [] := by
        intro e; subst e; simp [anyUpperLess] at hc
      have hlt := argmin_sortKeys_lt keyMul diam d hne
      apply ih
      · unfold delRowCol
        rw [List.length_map, List.length_eraseIdx, if_pos hlt]
        omega
      · unfold delRowCol
        rw [List.length_map, List.length_eraseIdx, List.length_eraseIdx, hidx]
    · rfl

theorem largestBoundedCurvature_spec (keyMul : ℕ → ℕ → ℤ) {D : Mat} {n : ℕ} (hlen : D.length = n)
    (hrow : ∀ r ∈ D, r.length = n) (diam d : ℕ) :
    (largestBoundedCurvatureIdx keyMul D diam d).Sublist (List.range n) ∧
      ((largestBoundedCurvatureIdx keyMul D diam d).Pairwise fun i j => d ≤ ent D i j) ∧
      (largestBoundedCurvature keyMul D diam d).1 = sub D (largestBoundedCurvatureIdx keyMul D diam d) := by
  unfold largestBoundedCurvatureIdx largestBoundedCurvature
  rw [hlen]
  exact curvLoop_spec keyMul D diam d n D (List.range n) (sub_range hlen hrow).symm

/-! ### Theorems A and B -/

theorem pairwise_mem_ne {α : Type} {R : α → α → Prop} {l : List α} (h : l.Pairwise R) {a b : α}
    (ha : a ∈ l) (hb : b ∈ l) (hab : a ≠ b) : R a b ∨ R b a := by
  obtain ⟨k, hk, ek⟩ := List.getElem_of_mem ha
  obtain ⟨k', hk', ek'⟩ := List.getElem_of_mem hb
  rw [List.pairwise_iff_getElem] at h
  rcases Nat.lt_trichotomy k k' with hlt | heq | hgt
  · left; rw [← ek, ← ek']; exact h k k' hk hk' hlt
  · subst heq; exact absurd (ek.symm.trans ek') hab
  · right; rw [← ek, ← ek']; exact h k' k hk' hk hgt

/-- a map of distortion `< d` is injective on a set of points with pairwise distances `≥ d` -/
theorem injOn_of_dis_lt {DX DY : Mat} {n m : ℕ} (hY : DistMat DY m) {S : List ℕ} {d : ℕ}
    (hP : S.Pairwise fun i j => d ≤ ent DX i j) {f : Fin n → Fin m}
    (hf : dis (matFn DX n) (matFn DY m) f < d) {a b : Fin n} (ha : a.val ∈ S) (hb : b.val ∈ S)
    (hfab : f a = f b) : a = b := by
  by_contra hab
  have hne : a.val ≠ b.val := fun e => hab (Fin.ext e)
  have hyy : ent DY (f b) (f b) = 0 := (hY.zero_iff _ _ (f b).isLt (f b).isLt).2 rfl
  rcases pairwise_mem_ne hP ha hb hne with h | h
  · have h1 := le_dis (matFn DX n) (matFn DY m) f a b
    simp only [matFn_apply, hfab, hyy, Nat.dist_zero_right] at h1
    omega
  · have h1 := le_dis (matFn DX n) (matFn DY m) f b a
    simp only [matFn_apply, hfab, hyy, Nat.dist_zero_right] at h1
    omega

/-- **Theorem A**: more points at pairwise distance `≥ d` than `|Y|` force distortion `≥ d` -/
theorem thmA_core {DX DY : Mat} {n m : ℕ} (hY : DistMat DY m) {S : List ℕ} {d : ℕ}
    (hS : S.Sublist (List.range n)) (hP : S.Pairwise fun i j => d ≤ ent DX i j)
    (hlen : m < S.length) (f : Fin n → Fin m) : d ≤ dis (matFn DX n) (matFn DY m) f := by
  by_contra hlt
  have hlt : dis (matFn DX n) (matFn DY m) f < d := Nat.lt_of_not_le hlt
  have hnd : S.Nodup := hS.nodup List.nodup_range
  have hmem : ∀ k : Fin S.length, S[k] < n := fun k =>
    List.mem_range.1 (hS.subset (List.getElem_mem k.isLt))
  let g : Fin S.length → Fin m := fun k => f ⟨S[k], hmem k⟩
  have hg : Function.Injective g := by
    intro k k' e
    have := injOn_of_dis_lt hY hP hlt (a := ⟨S[k], hmem k⟩) (b := ⟨S[k'], hmem k'⟩)
      (List.getElem_mem k.isLt) (List.getElem_mem k'.isLt) e
    have e' : S[k] = S[k'] := congrArg Fin.val this
    exact Fin.ext ((List.Nodup.getElem_inj_iff hnd).1 e')
  have := Fintype.card_le_of_injective g hg
  simp at this
  omega

/-- **Theorem B (one row)**: a map of distortion `< d` assigns the off-diagonal entries of row `i`
    of the curvature injectively to off-diagonal entries of row `f i` of `DY`, within `< d` -/
theorem thmB_core {DX DY : Mat} {n m : ℕ} (hY : DistMat DY m) {S : List ℕ} {d : ℕ}
    (hP : S.Pairwise fun i j => d ≤ ent DX i j) {i : Fin n} (hi : i.val ∈ S)
    {f : Fin n → Fin m} (hf : dis (matFn DX n) (matFn DY m) f < d) :
    Assignable (ι := {s : Fin n // s.val ∈ S ∧ s ≠ i}) (κ := {y : Fin m // y ≠ f i})
      (fun s => ent DX i s.val) (fun y => ent DY (f i) y.val) d := by
  refine ⟨fun s => ⟨f s.val, fun e => s.2.2 (injOn_of_dis_lt hY hP hf s.2.1 hi e)⟩, ?_, ?_⟩
  · intro s s' e
    have e' : f s.val = f s'.val := congrArg Subtype.val e
    exact Subtype.ext (injOn_of_dis_lt hY hP hf s.2.1 s'.2.1 e')
  · intro s
    exact lt_of_le_of_lt (le_dis (matFn DX n) (matFn DY m) f i s.val) hf

end PersimVerif.MGH
