import PersimVerif.Lemmas.SrcLibPlot
/-
  Bridge between the plot translator's output (Generated/SrcPlot.lean) and the model (Model/Plot.lean).

  `Ref.*` is the REVIEWED Lean text of the shape the translator produces for the current source of persim/visuals.py
  (`src_<def>_eq_ref` in the generated file: generated = Ref, by `rfl`).  Below it, the hand-written proofs that the reviewed
  text equals the model for all inputs.  Core Lean only.
-/
set_option linter.unusedVariables false
set_option linter.unusedSectionVars false

namespace PersimVerif.SrcBridge.Plot
open PersimVerif.Plot PersimVerif.SrcPlot

namespace Ref
section
variable {α : Type} [Add α] [Sub α] [Mul α] [Div α] [Neg α] [Zero α] [OfNat α 1] [OfNat α 2] [OfNat α 4] [OfNat α 5]
  [OfNat α 19] [OfNat α 20] [Min α] [Max α] [LT α] [DecidableLT α]

/-- one round of `for dgm, label in zip(diagrams, labels)` (the names its body only reads, what it re-assigns, the item) -/
def plot_diagrams_round (cast : α → α) (infv : α) (ax_1 : Axes) (xlabel : String) (ylabel_2 : String) (fig : SFig α) (it : (Dgm α) × String) : Except Err (SFig α) :=
  let dgm : Dgm α := it.1
  let label : String := it.2
  let fig_1 : SFig α := fig.add (SArtist.scatter ax_1 (offsets (colBirth dgm) (finL infv (colDeath dgm))) ⟨[.param "size"], [("edgecolor", .str "none")]⟩ (some label))
  let fig_2 : SFig α := fig_1.set_xlabel ax_1 xlabel
  let fig_3 : SFig α := fig_2.set_ylabel ax_1 ylabel_2
  .ok fig_3

/-- `plot_diagrams`, statement by statement: the state of the figure after the call (`.error`: the source raises) -/
def plot_diagrams (cast : α → α) (infv : α) (ax : Axes) (fig : SFig α) (diagrams : DgmsArg α) (plot_only : Option (List Int)) (title : Option String) (xy_range : Option (α × α × α × α)) (labels : Labels) (diagonal : Bool) (lifetime : Bool) (legend : Bool) :
    Except Err (SFig α) :=
  let ax_1 : Axes := ax
  let xlabel : String := "Birth"
  let ylabel : String := "Death"
  let diagrams_1 : List (Dgm α) := listOfArg diagrams
  let labels_1 : String ⊕ List String := labelsOrElse labels ((List.range diagrams_1.length).map (fun i => hLabel i))
  let labels_2 : List String := broadcastStr labels_1 diagrams_1.length
  match (
      if truthy plot_only then
        match compGet diagrams_1 (seqOf plot_only) with
        | none => .error Err.index
        | some diagrams_2 =>
        match compGet labels_2 (seqOf plot_only) with
        | none => .error Err.index
        | some labels_3 =>
        .ok (diagrams_2, labels_3)
      else
        .ok (diagrams_1, labels_2)
      : Except Err ((List (Dgm α)) × (List String))) with
  | .error e => .error e
  | .ok j =>
  let diagrams_3 : List (Dgm α) := j.1
  let labels_4 : List String := j.2
  let diagrams_4 : List (Dgm α) := diagrams_3.map (fun dgm => astypeF32 cast dgm)
  match npConcatenate diagrams_4 with
  | none => .error Err.value
  | some t =>
  let concat_dgms : List (Option α) := flatten2 t
  let has_inf : Bool := anyIsinf concat_dgms
  let finite_dgms : List α := selectFinite concat_dgms
  match (
      match truthyVal xy_range with
      | none => (
          match npMin finite_dgms with
          | none => .error Err.value
          | some t_1 =>
          match npMax finite_dgms with
          | none => .error Err.value
          | some t_2 =>
          let ax_min : α := t_1
          let ax_max : α := t_2
          let x_r : α := ax_max - ax_min
          let buffer : α := if false then 1 else x_r / 5
          let x_down : α := ax_min - (buffer / 2)
          let x_up : α := ax_max + buffer
          let y_down : α := x_down
          let y_up : α := x_up
          .ok (x_down, x_up, y_down, y_up))
      | some xy_range_1 => (
          let x_down_1 : α := xy_range_1.1
          let x_up_1 : α := xy_range_1.2.1
          let y_down_1 : α := xy_range_1.2.2.1
          let y_up_1 : α := xy_range_1.2.2.2
          .ok (x_down_1, x_up_1, y_down_1, y_up_1))
      : Except Err (α × α × α × α)) with
  | .error e => .error e
  | .ok j_1 =>
  let x_down_2 : α := j_1.1
  let x_up_2 : α := j_1.2.1
  let y_down_2 : α := j_1.2.2.1
  let y_up_2 : α := j_1.2.2.2
  let yr : α := y_up_2 - y_down_2
  let j_2 : Bool × α × α × String × (List (Dgm α)) × (SFig α) :=
      if lifetime then
        let diagonal_1 : Bool := false
        let y_down_3 : α := (-yr) * (1 / 20)
        let y_up_3 : α := y_down_3 + yr
        let ylabel_1 : String := "Lifetime"
        let diagrams_5 : List (Dgm α) := diagrams_4.map (fun dgm => colSubInPlace dgm)
        let fig_1 : SFig α := fig.add (SArtist.line ax_1 [x_down_2, x_up_2] [0, 0] ⟨[], [("c", .param "ax_color")]⟩ none)
        (diagonal_1, y_down_3, y_up_3, ylabel_1, diagrams_5, fig_1)
      else
        (diagonal, y_down_2, y_up_2, ylabel, diagrams_4, fig)
  let diagonal_2 : Bool := j_2.1
  let y_down_4 : α := j_2.2.1
  let y_up_4 : α := j_2.2.2.1
  let ylabel_2 : String := j_2.2.2.2.1
  let diagrams_6 : List (Dgm α) := j_2.2.2.2.2.1
  let fig_2 : SFig α := j_2.2.2.2.2.2
  let fig_4 : SFig α :=
      if diagonal_2 then
        let fig_3 : SFig α := fig_2.add (SArtist.line ax_1 [x_down_2, x_up_2] [x_down_2, x_up_2] ⟨[.str "-\x2d"], [("c", .param "ax_color")]⟩ none)
        fig_3
      else
        fig_2
  let j_3 : (List (Dgm α)) × (SFig α) :=
      if has_inf then
        let b_inf : α := y_down_4 + (yr * (19 / 20))
        let fig_5 : SFig α := fig_4.add (SArtist.line ax_1 [x_down_2, x_up_2] [b_inf, b_inf] ⟨[.str "-\x2d"], [("c", .str "k")]⟩ (some "$\\infty$"))
        let diagrams_7 : List (Dgm α) := diagrams_6.map (fun dgm => setWhereInf dgm b_inf)
        (diagrams_7, fig_5)
      else
        (diagrams_6, fig_4)
  let diagrams_8 : List (Dgm α) := j_3.1
  let fig_6 : SFig α := j_3.2
  match (List.zip diagrams_8 labels_4).foldlM (plot_diagrams_round cast infv ax_1 xlabel ylabel_2) fig_6 with
  | .error e => .error e
  | .ok fig_7 =>
  let fig_8 : SFig α := fig_7.set_xlim ax_1 x_down_2 x_up_2
  let fig_9 : SFig α := fig_8.set_ylim ax_1 y_down_4 y_up_4
  let fig_11 : SFig α :=
      match title with
      | none => (fig_9)
      | some title_1 => (
          let fig_10 : SFig α := fig_9.set_title ax_1 title_1
          fig_10)
  let fig_13 : SFig α :=
      if legend == true then
        let fig_12 : SFig α := fig_11.set_legend ax_1 ⟨[], [("loc", .str "lower right")]⟩
        fig_12
      else
        fig_11
  .ok fig_13

/-- one round of `for idx, [i, j, d] in enumerate(matching)` (the names its body only reads, what it re-assigns, the item) -/
def bottleneck_matching_round (cos : α → α) (sin : α → α) (pi : α) (cast : α → α) (infv : α) (ax_1 : Axes) (dgm1_4 : Dgm α) (dgm2_4 : Dgm α) (R : Mat2 α) (dgm1Rot : List (α × α)) (dgm2Rot : List (α × α)) (max_idx : Nat) (fig : SFig α) (it : Nat × (Row α)) : Except Err (SFig α) :=
  let idx : Nat := it.1
  let i : Int := it.2.1
  let j : Int := it.2.2.1
  let d : α := it.2.2.2
  let i_1 : Int := i
  let j_1 : Int := j
  let linestyle : String := "-\x2d"
  let linewidth : Nat := 1
  let c : String := "C2"
  let j_2 : String × Nat × String :=
      if idx == max_idx then
        let linestyle_1 : String := "-"
        let linewidth_1 : Nat := 2
        let c_1 : String := "C3"
        (linestyle_1, linewidth_1, c_1)
      else
        (linestyle, linewidth, c)
  let linestyle_2 : String := j_2.1
  let linewidth_2 : Nat := j_2.2.1
  let c_2 : String := j_2.2.2
  if i_1 != -1 || j_1 != -1 then
    if i_1 == -1 then
      match pyGet dgm2Rot j_1 with
      | none => .error Err.index
      | some t =>
      let diagElem : α × α := (t.1, 0)
      let diagElem_1 : α × α := vecDot diagElem R.T
      match pyGet dgm2_4 j_1 with
      | none => .error Err.index
      | some t_1 =>
      match pyGet dgm2_4 j_1 with
      | none => .error Err.index
      | some t_2 =>
      let fig_1 : SFig α := fig.add (SArtist.line ax_1 [t_1.1, diagElem_1.1] [fin infv t_2.2, diagElem_1.2] ⟨[.str c_2], [("linewidth", .num linewidth_2), ("linestyle", .str linestyle_2)]⟩ none)
      .ok fig_1
    else
      if j_1 == -1 then
        match pyGet dgm1Rot i_1 with
        | none => .error Err.index
        | some t_3 =>
        let diagElem_2 : α × α := (t_3.1, 0)
        let diagElem_3 : α × α := vecDot diagElem_2 R.T
        match pyGet dgm1_4 i_1 with
        | none => .error Err.index
        | some t_4 =>
        match pyGet dgm1_4 i_1 with
        | none => .error Err.index
        | some t_5 =>
        let fig_2 : SFig α := fig.add (SArtist.line ax_1 [t_4.1, diagElem_3.1] [fin infv t_5.2, diagElem_3.2] ⟨[.str c_2], [("linewidth", .num linewidth_2), ("linestyle", .str linestyle_2)]⟩ none)
        .ok fig_2
      else
        match pyGet dgm1_4 i_1 with
        | none => .error Err.index
        | some t_6 =>
        match pyGet dgm2_4 j_1 with
        | none => .error Err.index
        | some t_7 =>
        match pyGet dgm1_4 i_1 with
        | none => .error Err.index
        | some t_8 =>
        match pyGet dgm2_4 j_1 with
        | none => .error Err.index
        | some t_9 =>
        let fig_3 : SFig α := fig.add (SArtist.line ax_1 [t_6.1, t_7.1] [fin infv t_8.2, fin infv t_9.2] ⟨[.str c_2], [("linewidth", .num linewidth_2), ("linestyle", .str linestyle_2)]⟩ none)
        .ok fig_3
  else
    .ok fig

/-- `bottleneck_matching`, statement by statement: the state of the figure after the call (`.error`: the source raises) -/
def bottleneck_matching (plot_diagrams : (α → α) → α → Axes → SFig α → DgmsArg α → Option (List Int) → Option String → Option (α × α × α × α) → Labels → Bool → Bool → Bool → Except Err (SFig α))
    (cos : α → α) (sin : α → α) (pi : α) (cast : α → α) (infv : α) (ax : Axes) (fig : SFig α) (dgm1 : Dgm α) (dgm2 : Dgm α) (matching : List (Row α)) (labels : List String) :
    Except Err (SFig α) :=
  let ax_1 : Axes := ax
  match plot_diagrams cast infv ax_1 fig (DgmsArg.many [dgm1, dgm2]) none none none (Labels.many labels) true false true with
  | .error e => .error e
  | .ok fig_1 =>
  let cp : α := cos (pi / 4)
  let sp : α := sin (pi / 4)
  let R : Mat2 α := ⟨cp, -sp, sp, cp⟩
  let dgm1_2 : Dgm α :=
      if (npSize dgm1) != 0 then
        let dgm1_1 : Dgm α := maskRows dgm1 (isfiniteMask (colDeath dgm1))
        dgm1_1
      else
        dgm1
  let dgm2_2 : Dgm α :=
      if (npSize dgm2) != 0 then
        let dgm2_1 : Dgm α := maskRows dgm2 (isfiniteMask (colDeath dgm2))
        dgm2_1
      else
        dgm2
  let dgm1_4 : Dgm α :=
      if (npSize dgm1_2) == 0 then
        let dgm1_3 : Dgm α := zeroRow
        dgm1_3
      else
        dgm1_2
  let dgm2_4 : Dgm α :=
      if (npSize dgm2_2) == 0 then
        let dgm2_3 : Dgm α := zeroRow
        dgm2_3
      else
        dgm2_2
  let dgm1Rot : List (α × α) := dotRows infv dgm1_4 R
  let dgm2Rot : List (α × α) := dotRows infv dgm2_4 R
  match argmax? (colDist matching) with
  | none => .error Err.value
  | some max_idx =>
  (pyEnumerate matching).foldlM (bottleneck_matching_round cos sin pi cast infv ax_1 dgm1_4 dgm2_4 R dgm1Rot dgm2Rot max_idx) fig_1

/-- one round of `for [i, j, d] in matching` (the names its body only reads, what it re-assigns, the item) -/
def wasserstein_matching_round (cos : α → α) (sin : α → α) (pi : α) (cast : α → α) (infv : α) (ax_1 : Axes) (dgm1_5 : Dgm α) (dgm2_5 : Dgm α) (R : Mat2 α) (dgm1Rot : List (α × α)) (dgm2Rot : List (α × α)) (fig : SFig α) (it : Row α) : Except Err (SFig α) :=
  let i : Int := it.1
  let j : Int := it.2.1
  let d : α := it.2.2
  let i_1 : Int := i
  let j_1 : Int := j
  if i_1 != -1 || j_1 != -1 then
    if i_1 == -1 then
      match pyGet dgm2Rot j_1 with
      | none => .error Err.index
      | some t =>
      let diagElem : α × α := (t.1, 0)
      let diagElem_1 : α × α := vecDot diagElem R.T
      match pyGet dgm2_5 j_1 with
      | none => .error Err.index
      | some t_1 =>
      match pyGet dgm2_5 j_1 with
      | none => .error Err.index
      | some t_2 =>
      let fig_1 : SFig α := fig.add (SArtist.line ax_1 [t_1.1, diagElem_1.1] [fin infv t_2.2, diagElem_1.2] ⟨[.str "g"], []⟩ none)
      .ok fig_1
    else
      if j_1 == -1 then
        match pyGet dgm1Rot i_1 with
        | none => .error Err.index
        | some t_3 =>
        let diagElem_2 : α × α := (t_3.1, 0)
        let diagElem_3 : α × α := vecDot diagElem_2 R.T
        match pyGet dgm1_5 i_1 with
        | none => .error Err.index
        | some t_4 =>
        match pyGet dgm1_5 i_1 with
        | none => .error Err.index
        | some t_5 =>
        let fig_2 : SFig α := fig.add (SArtist.line ax_1 [t_4.1, diagElem_3.1] [fin infv t_5.2, diagElem_3.2] ⟨[.str "g"], []⟩ none)
        .ok fig_2
      else
        match pyGet dgm1_5 i_1 with
        | none => .error Err.index
        | some t_6 =>
        match pyGet dgm2_5 j_1 with
        | none => .error Err.index
        | some t_7 =>
        match pyGet dgm1_5 i_1 with
        | none => .error Err.index
        | some t_8 =>
        match pyGet dgm2_5 j_1 with
        | none => .error Err.index
        | some t_9 =>
        let fig_3 : SFig α := fig.add (SArtist.line ax_1 [t_6.1, t_7.1] [fin infv t_8.2, fin infv t_9.2] ⟨[.str "g"], []⟩ none)
        .ok fig_3
  else
    .ok fig

/-- `wasserstein_matching`, statement by statement: the state of the figure after the call (`.error`: the source raises) -/
def wasserstein_matching (plot_diagrams : (α → α) → α → Axes → SFig α → DgmsArg α → Option (List Int) → Option String → Option (α × α × α × α) → Labels → Bool → Bool → Bool → Except Err (SFig α))
    (cos : α → α) (sin : α → α) (pi : α) (cast : α → α) (infv : α) (ax : Axes) (fig : SFig α) (dgm1 : Dgm α) (dgm2 : Dgm α) (matching : List (Row α)) (labels : List String) :
    Except Err (SFig α) :=
  let ax_1 : Axes := ax
  let cp : α := cos (pi / 4)
  let sp : α := sin (pi / 4)
  let R : Mat2 α := ⟨cp, -sp, sp, cp⟩
  let dgm1_2 : Dgm α :=
      if (npSize dgm1) == 0 then
        let dgm1_1 : Dgm α := zeroRow
        dgm1_1
      else
        dgm1
  let dgm2_2 : Dgm α :=
      if (npSize dgm2) == 0 then
        let dgm2_1 : Dgm α := zeroRow
        dgm2_1
      else
        dgm2
  let shown1 : Dgm α := dgm1_2
  let shown2 : Dgm α := dgm2_2
  let dgm1_3 : Dgm α := maskRows dgm1_2 (isfiniteMask (colDeath dgm1_2))
  let dgm2_3 : Dgm α := maskRows dgm2_2 (isfiniteMask (colDeath dgm2_2))
  let dgm1_5 : Dgm α :=
      if (npSize dgm1_3) == 0 then
        let dgm1_4 : Dgm α := zeroRow
        dgm1_4
      else
        dgm1_3
  let dgm2_5 : Dgm α :=
      if (npSize dgm2_3) == 0 then
        let dgm2_4 : Dgm α := zeroRow
        dgm2_4
      else
        dgm2_3
  let dgm1Rot : List (α × α) := dotRows infv dgm1_5 R
  let dgm2Rot : List (α × α) := dotRows infv dgm2_5 R
  match matching.foldlM (wasserstein_matching_round cos sin pi cast infv ax_1 dgm1_5 dgm2_5 R dgm1Rot dgm2Rot) fig with
  | .error e => .error e
  | .ok fig_1 =>
  plot_diagrams cast infv ax_1 fig_1 (DgmsArg.many [shown1, shown2]) none none none (Labels.many labels) true false true

/-- one round of `for depth, l in enumerate(landscape)` (the names its body only reads, what it re-assigns, the item) -/
def plot_landscape_exact_simple_round (ax_1 : Axes) (depth_range_1 : List Nat) (fig_1 : SFig α) (it : Nat × (List (α × α))) : Except Err (SFig α) :=
  let depth : Nat := it.1
  let l : List (α × α) := it.2
  if !(depth_range_1.contains depth) then
    .ok fig_1
  else
    let ls : List (α × α) := l
    let fig_2 : SFig α := fig_1.add (SArtist.line ax_1 (pairsCol0 ls) (pairsCol1 ls) ⟨[], [("alpha", .param "alpha")]⟩ (some (lamLabel depth)))
    .ok fig_2

/-- `plot_landscape_exact_simple`, statement by statement: the state of the figure after the call (`.error`: the source raises) -/
def plot_landscape_exact_simple (ax : Axes) (fig : SFig α) (landscape : LandExact α) (title : Option String) (labels : Option (List String)) (depth_range : Option (List Nat)) :
    Except Err (SFig α) :=
  let ax_1 : Axes := ax
  let landscape_1 : LandExact α := landscape.compute_landscape
  let depth_range_1 : List Nat := rangeOr depth_range (landscape_1.max_depth + 1)
  match (pyEnumerate landscape_1.depths).foldlM (plot_landscape_exact_simple_round ax_1 depth_range_1) fig with
  | .error e => .error e
  | .ok fig_1 =>
  let fig_2 : SFig α := fig_1.set_legend ax_1 ⟨[], []⟩
  let fig_4 : SFig α :=
      if truthyStr title then
        let fig_3 : SFig α := fig_2.set_title ax_1 (strOf title)
        fig_3
      else
        fig_2
  if truthy labels then
    match (seqOf labels)[0]? with
    | none => .error Err.index
    | some t =>
    let fig_5 : SFig α := fig_4.set_xlabel ax_1 t
    match (seqOf labels)[1]? with
    | none => .error Err.index
    | some t_1 =>
    let fig_6 : SFig α := fig_5.set_ylabel ax_1 t_1
    .ok fig_6
  else
    .ok fig_4

/-- one round of `for depth, l in enumerate(landscape)` (the names its body only reads, what it re-assigns, the item) -/
def plot_landscape_approx_simple_round (natCast : Nat → α) (ax_1 : Axes) (landscape_1 : LandApprox α) (depth_range_1 : List Nat) (fig_1 : SFig α) (it : Nat × (List α)) : Except Err (SFig α) :=
  let depth : Nat := it.1
  let l : List α := it.2
  if !(depth_range_1.contains depth) then
    .ok fig_1
  else
    let domain : List α := linspace natCast landscape_1.start landscape_1.stop l.length
    let fig_2 : SFig α := fig_1.add (SArtist.line ax_1 domain l ⟨[], [("alpha", .param "alpha")]⟩ (some (lamLabel depth)))
    .ok fig_2

/-- `plot_landscape_approx_simple`, statement by statement: the state of the figure after the call (`.error`: the source raises) -/
def plot_landscape_approx_simple (natCast : Nat → α) (ax : Axes) (fig : SFig α) (landscape : LandApprox α) (title : Option String) (labels : Option (List String)) (depth_range : Option (List Nat)) :
    Except Err (SFig α) :=
  let ax_1 : Axes := ax
  let landscape_1 : LandApprox α := landscape.compute_landscape
  let depth_range_1 : List Nat := rangeOr depth_range (landscape_1.max_depth + 1)
  match (pyEnumerate landscape_1.depths).foldlM (plot_landscape_approx_simple_round natCast ax_1 landscape_1 depth_range_1) fig with
  | .error e => .error e
  | .ok fig_1 =>
  let fig_2 : SFig α := fig_1.set_legend ax_1 ⟨[], []⟩
  let fig_4 : SFig α :=
      if truthyStr title then
        let fig_3 : SFig α := fig_2.set_title ax_1 (strOf title)
        fig_3
      else
        fig_2
  if truthy labels then
    match (seqOf labels)[0]? with
    | none => .error Err.index
    | some t =>
    let fig_5 : SFig α := fig_4.set_xlabel ax_1 t
    match (seqOf labels)[1]? with
    | none => .error Err.index
    | some t_1 =>
    let fig_6 : SFig α := fig_5.set_ylabel ax_1 t_1
    .ok fig_6
  else
    .ok fig_4

end
end Ref

/-! ### the idioms of Lemmas/SrcLibPlot.lean against the helpers of Model/Plot.lean -/
section
variable {α : Type} {β : Type}

theorem listOfArg_eq (a : DgmsArg α) : listOfArg a = asList a := by cases a <;> rfl

theorem hLabel_eq : (hLabel : Nat → String) = defaultLabel := rfl

theorem labels_eq (l : Labels) (n : Nat) :
    broadcastStr (labelsOrElse l ((List.range n).map (fun i => hLabel i))) n = labelList n l := by
  cases l <;> rfl

theorem compGet_eq (xs : List β) (idx : List Int) : compGet xs idx = getAll xs idx := by
  induction idx with
  | nil => rfl
  | cons i is ih =>
    simp only [compGet, List.mapM_cons] at ih ⊢
    simp only [getAll, ← ih]
    cases pyGet xs i <;> cases List.mapM (pyGet xs) is <;> rfl

theorem select_eq (xs : List β) (ls : List String) (po : Option (List Int)) :
    (if truthy po then
      match compGet xs (seqOf po) with
      | none => .error Err.index
      | some a =>
      match compGet ls (seqOf po) with
      | none => .error Err.index
      | some b => .ok (a, b)
    else .ok (xs, ls) : Except Err (List β × List String)) = select xs ls po := by
  cases po with
  | none => rfl
  | some l =>
    cases l with
    | nil => rfl
    | cons i is =>
      simp only [truthy, seqOf, select, compGet_eq, if_true]
      cases getAll xs (i :: is) <;> cases getAll ls (i :: is) <;> rfl

theorem npConcatenate_eq (ds : List (Dgm α)) :
    npConcatenate ds = if ds.isEmpty then none else some ds.flatten := by
  cases ds <;> rfl

theorem selectFinite_flatten2 (L : Dgm α) :
    selectFinite (flatten2 L) = L.flatMap fun p => match p.2 with
      | some d => [p.1, d]
      | none => [p.1] := by
  induction L with
  | nil => rfl
  | cons p t ih =>
    simp only [selectFinite, flatten2, List.flatMap_cons, List.filterMap_append] at ih ⊢
    rw [ih]
    obtain ⟨b, d⟩ := p
    cases d <;> rfl

theorem finiteVals_eq (ds : List (Dgm α)) : selectFinite (flatten2 ds.flatten) = finiteVals ds :=
  selectFinite_flatten2 _

theorem anyIsinf_flatten2 (L : Dgm α) : anyIsinf (flatten2 L) = L.any fun p => p.2.isNone := by
  induction L with
  | nil => rfl
  | cons p t ih =>
    simp only [anyIsinf, flatten2, List.flatMap_cons, List.any_append, List.any_cons] at ih ⊢
    rw [ih]
    simp

theorem hasInf_eq (ds : List (Dgm α)) : anyIsinf (flatten2 ds.flatten) = hasInf ds := anyIsinf_flatten2 _


end

section
variable {α : Type} [Add α] [Sub α] [Mul α] [Div α] [Neg α] [Zero α] [OfNat α 1] [OfNat α 2] [OfNat α 4] [OfNat α 5]
  [OfNat α 19] [OfNat α 20] [Min α] [Max α] [LT α] [DecidableLT α]


/-- the range block of `plot_diagrams` is the model's `rangeOf` -/
theorem range_eq (xy_range : Option (α × α × α × α)) (finite_dgms : List α) :
    (match truthyVal xy_range with
      | none => (
          match npMin finite_dgms with
          | none => .error Err.value
          | some t_1 =>
          match npMax finite_dgms with
          | none => .error Err.value
          | some t_2 =>
          let ax_min : α := t_1
          let ax_max : α := t_2
          let x_r : α := ax_max - ax_min
          let buffer : α := if false then 1 else x_r / 5
          let x_down : α := ax_min - (buffer / 2)
          let x_up : α := ax_max + buffer
          let y_down : α := x_down
          let y_up : α := x_up
          .ok (x_down, x_up, y_down, y_up))
      | some xy_range_1 => (
          let x_down_1 : α := xy_range_1.1
          let x_up_1 : α := xy_range_1.2.1
          let y_down_1 : α := xy_range_1.2.2.1
          let y_up_1 : α := xy_range_1.2.2.2
          .ok (x_down_1, x_up_1, y_down_1, y_up_1))
      : Except Err (α × α × α × α)) =
    match rangeOf xy_range finite_dgms with
    | none => .error Err.value
    | some r => .ok (r.xDown, r.xUp, r.yDown, r.yUp) := by
  cases xy_range with
  | some xy => obtain ⟨a, b, c, d⟩ := xy; rfl
  | none =>
    simp only [rangeOf, autoRange, npMin, npMax]
    cases finite_dgms.min? <;> cases finite_dgms.max? <;> rfl

/-- the scatter loop -/
theorem fold_round (cast : α → α) (infv : α) (ax : Axes) (xl yl : String) (l : List (Dgm α × String)) (fig : SFig α) :
    l.foldlM (Ref.plot_diagrams_round cast infv ax xl yl) fig =
      .ok { fig with
        artists := fig.artists ++ l.map (fun dl =>
          SArtist.scatter ax (offsets (colBirth dl.1) (finL infv (colDeath dl.1))) scatterMpl (some dl.2))
        xlabel := if l.isEmpty then fig.xlabel else some (ax, xl)
        ylabel := if l.isEmpty then fig.ylabel else some (ax, yl) } := by
  induction l generalizing fig with
  | nil => simp [List.foldlM]; rfl
  | cons dl t ih =>
    simp only [List.foldlM_cons, Ref.plot_diagrams_round, bind, Except.bind]
    rw [ih]
    simp [SFig.add, SFig.set_xlabel, SFig.set_ylabel, scatterMpl]

theorem offsets_eq (infv : α) (d : Dgm α) :
    offsets (colBirth d) (finL infv (colDeath d)) = d.map fun p => (p.1, fin infv p.2) := by
  simp [offsets, colBirth, finL, colDeath, List.zip_map']

theorem offsets_setWhereInf (infv b : α) (d : Dgm α) :
    offsets (colBirth (setWhereInf d b)) (finL infv (colDeath (setWhereInf d b))) = substInf b d := by
  rw [offsets_eq]
  simp only [setWhereInf, substInf, List.map_map]
  apply List.map_congr_left
  intro p _
  obtain ⟨x, y⟩ := p
  cases y <;> rfl

/-- no infinite death -/
def NoInf (d : Dgm α) : Prop := ∀ p ∈ d, p.2.isSome = true

theorem offsets_noInf (infv b : α) (d : Dgm α) (h : NoInf d) :
    offsets (colBirth d) (finL infv (colDeath d)) = substInf b d := by
  rw [offsets_eq]
  simp only [substInf]
  apply List.map_congr_left
  intro p hp
  obtain ⟨x, y⟩ := p
  cases y with
  | some e => rfl
  | none => exact absurd (h _ hp) (by simp)

theorem noInf_of_hasInf {ds : List (Dgm α)} (h : hasInf ds = false) : ∀ d ∈ ds, NoInf d := by
  intro d hd p hp
  simp only [hasInf, List.any_eq_false, List.mem_flatten] at h
  have := h p ⟨d, hd, hp⟩
  cases hp2 : p.2 with
  | some e => rfl
  | none => simp [hp2] at this

theorem noInf_life (d : Dgm α) (h : NoInf d) : NoInf (colSubInPlace d) := by
  intro p hp
  simp only [colSubInPlace, List.mem_map] at hp
  obtain ⟨q, hq, rfl⟩ := hp
  have := h q hq
  cases hq2 : q.2 with
  | some e => simp
  | none => simp [hq2] at this

theorem colSub_eq : (colSubInPlace : Dgm α → Dgm α) = lifeDgm := rfl
theorem astype_eq (cast : α → α) : (astypeF32 cast : Dgm α → Dgm α) = castDgm cast := rfl


/-! ### `plot_diagrams`: the reviewed text in three stages (linked to `Ref.plot_diagrams` by `rfl`), each against the model -/

/-- stage 1 of `Ref.plot_diagrams`: argument normalisation and the `plot_only` selection; the rest is the continuation `k` -/
def selRef (diagrams : DgmsArg α) (plot_only : Option (List Int)) (labels : Labels)
    (k : List (Dgm α) → List String → Except Err (SFig α)) : Except Err (SFig α) :=
  let diagrams_1 : List (Dgm α) := listOfArg diagrams
  let labels_1 : String ⊕ List String := labelsOrElse labels ((List.range diagrams_1.length).map (fun i => hLabel i))
  let labels_2 : List String := broadcastStr labels_1 diagrams_1.length
  match (
      if truthy plot_only then
        match compGet diagrams_1 (seqOf plot_only) with
        | none => .error Err.index
        | some diagrams_2 =>
        match compGet labels_2 (seqOf plot_only) with
        | none => .error Err.index
        | some labels_3 =>
        .ok (diagrams_2, labels_3)
      else
        .ok (diagrams_1, labels_2)
      : Except Err ((List (Dgm α)) × (List String))) with
  | .error e => .error e
  | .ok j =>
  k j.1 j.2

/-- stage 2: float32 copies, concatenation, `has_inf`, the range; the rest is the continuation `k` -/
def rangeRef (cast : α → α) (xy_range : Option (α × α × α × α)) (diagrams_3 : List (Dgm α)) (labels_4 : List String)
    (k : List (Dgm α) → List String → Bool → α → α → α → α → Except Err (SFig α)) : Except Err (SFig α) :=
  let diagrams_4 : List (Dgm α) := diagrams_3.map (fun dgm => astypeF32 cast dgm)
  match npConcatenate diagrams_4 with
  | none => .error Err.value
  | some t =>
  let concat_dgms : List (Option α) := flatten2 t
  let has_inf : Bool := anyIsinf concat_dgms
  let finite_dgms : List α := selectFinite concat_dgms
  match (
      match truthyVal xy_range with
      | none => (
          match npMin finite_dgms with
          | none => .error Err.value
          | some t_1 =>
          match npMax finite_dgms with
          | none => .error Err.value
          | some t_2 =>
          let ax_min : α := t_1
          let ax_max : α := t_2
          let x_r : α := ax_max - ax_min
          let buffer : α := if false then 1 else x_r / 5
          let x_down : α := ax_min - (buffer / 2)
          let x_up : α := ax_max + buffer
          let y_down : α := x_down
          let y_up : α := x_up
          .ok (x_down, x_up, y_down, y_up))
      | some xy_range_1 => (
          let x_down_1 : α := xy_range_1.1
          let x_up_1 : α := xy_range_1.2.1
          let y_down_1 : α := xy_range_1.2.2.1
          let y_up_1 : α := xy_range_1.2.2.2
          .ok (x_down_1, x_up_1, y_down_1, y_up_1))
      : Except Err (α × α × α × α)) with
  | .error e => .error e
  | .ok j_1 =>
  k diagrams_4 labels_4 has_inf j_1.1 j_1.2.1 j_1.2.2.1 j_1.2.2.2

/-- stage 3 of `Ref.plot_diagrams`: guide lines, infinity substitution, the scatter loop, limits, title, legend -/
def tailRef (cast : α → α) (infv : α) (ax : Axes) (fig : SFig α) (title : Option String) (diagonal lifetime legend : Bool)
    (diagrams_4 : List (Dgm α)) (labels_4 : List String) (has_inf : Bool) (x_down_2 x_up_2 y_down_2 y_up_2 : α) : Except Err (SFig α) :=
  let ax_1 : Axes := ax
  let xlabel : String := "Birth"
  let ylabel : String := "Death"
  let yr : α := y_up_2 - y_down_2
  let j_2 : Bool × α × α × String × (List (Dgm α)) × (SFig α) :=
      if lifetime then
        let diagonal_1 : Bool := false
        let y_down_3 : α := (-yr) * (1 / 20)
        let y_up_3 : α := y_down_3 + yr
        let ylabel_1 : String := "Lifetime"
        let diagrams_5 : List (Dgm α) := diagrams_4.map (fun dgm => colSubInPlace dgm)
        let fig_1 : SFig α := fig.add (SArtist.line ax_1 [x_down_2, x_up_2] [0, 0] ⟨[], [("c", .param "ax_color")]⟩ none)
        (diagonal_1, y_down_3, y_up_3, ylabel_1, diagrams_5, fig_1)
      else
        (diagonal, y_down_2, y_up_2, ylabel, diagrams_4, fig)
  let diagonal_2 : Bool := j_2.1
  let y_down_4 : α := j_2.2.1
  let y_up_4 : α := j_2.2.2.1
  let ylabel_2 : String := j_2.2.2.2.1
  let diagrams_6 : List (Dgm α) := j_2.2.2.2.2.1
  let fig_2 : SFig α := j_2.2.2.2.2.2
  let fig_4 : SFig α :=
      if diagonal_2 then
        let fig_3 : SFig α := fig_2.add (SArtist.line ax_1 [x_down_2, x_up_2] [x_down_2, x_up_2] ⟨[.str "-\x2d"], [("c", .param "ax_color")]⟩ none)
        fig_3
      else
        fig_2
  let j_3 : (List (Dgm α)) × (SFig α) :=
      if has_inf then
        let b_inf : α := y_down_4 + (yr * (19 / 20))
        let fig_5 : SFig α := fig_4.add (SArtist.line ax_1 [x_down_2, x_up_2] [b_inf, b_inf] ⟨[.str "-\x2d"], [("c", .str "k")]⟩ (some "$\\infty$"))
        let diagrams_7 : List (Dgm α) := diagrams_6.map (fun dgm => setWhereInf dgm b_inf)
        (diagrams_7, fig_5)
      else
        (diagrams_6, fig_4)
  let diagrams_8 : List (Dgm α) := j_3.1
  let fig_6 : SFig α := j_3.2
  match (List.zip diagrams_8 labels_4).foldlM (Ref.plot_diagrams_round cast infv ax_1 xlabel ylabel_2) fig_6 with
  | .error e => .error e
  | .ok fig_7 =>
  let fig_8 : SFig α := fig_7.set_xlim ax_1 x_down_2 x_up_2
  let fig_9 : SFig α := fig_8.set_ylim ax_1 y_down_4 y_up_4
  let fig_11 : SFig α :=
      match title with
      | none => (fig_9)
      | some title_1 => (
          let fig_10 : SFig α := fig_9.set_title ax_1 title_1
          fig_10)
  let fig_13 : SFig α :=
      if legend == true then
        let fig_12 : SFig α := fig_11.set_legend ax_1 ⟨[], [("loc", .str "lower right")]⟩
        fig_12
      else
        fig_11
  .ok fig_13


theorem plot_diagrams_split (cast : α → α) (infv : α) (ax : Axes) (fig : SFig α) (diagrams : DgmsArg α) (plot_only : Option (List Int))
    (title : Option String) (xy_range : Option (α × α × α × α)) (labels : Labels) (diagonal lifetime legend : Bool) :
    Ref.plot_diagrams cast infv ax fig diagrams plot_only title xy_range labels diagonal lifetime legend =
      selRef diagrams plot_only labels (fun d l => rangeRef cast xy_range d l (tailRef cast infv ax fig title diagonal lifetime legend)) := rfl

theorem selRef_eq (diagrams : DgmsArg α) (plot_only : Option (List Int)) (labels : Labels)
    (k : List (Dgm α) → List String → Except Err (SFig α)) :
    selRef diagrams plot_only labels k =
      match select (asList diagrams) (labelList (asList diagrams).length labels) plot_only with
      | .error e => .error e
      | .ok sl => k sl.1 sl.2 := by
  unfold selRef
  simp only [listOfArg_eq, labels_eq, compGet_eq]
  rcases plot_only with _ | _ | ⟨i, is⟩
  · rfl
  · rfl
  · simp only [truthy, seqOf, select, if_true]
    cases getAll (asList diagrams) (i :: is) <;> cases getAll (labelList (asList diagrams).length labels) (i :: is) <;> rfl

theorem rangeRef_eq (cast : α → α) (xy_range : Option (α × α × α × α)) (sel : List (Dgm α)) (lab : List String)
    (k : List (Dgm α) → List String → Bool → α → α → α → α → Except Err (SFig α)) :
    rangeRef cast xy_range sel lab k =
      if sel.isEmpty then .error Err.value
      else match rangeOf xy_range (finiteVals (sel.map (castDgm cast))) with
        | none => .error Err.value
        | some r => k (sel.map (castDgm cast)) lab (hasInf (sel.map (castDgm cast))) r.xDown r.xUp r.yDown r.yUp := by
  unfold rangeRef
  simp only [npConcatenate_eq, astype_eq, List.isEmpty_map]
  cases hs : sel.isEmpty with
  | true => rfl
  | false =>
    simp only [Bool.false_eq_true, if_false, finiteVals_eq, hasInf_eq]
    cases xy_range with
    | some xy => obtain ⟨a, b, c, d⟩ := xy; rfl
    | none =>
      simp only [rangeOf, autoRange, npMin, npMax]
      cases (finiteVals (sel.map (castDgm cast))).min? <;> cases (finiteVals (sel.map (castDgm cast))).max? <;> rfl

theorem zip_map_isEmpty {β γ δ : Type} (f : β → γ) (l : List β) (l2 : List δ) :
    (List.zip (l.map f) l2).isEmpty = (List.zip l l2).isEmpty := by
  cases l <;> cases l2 <;> rfl

theorem scat_inf (infv b : α) (ds : List (Dgm α)) (lab : List String) :
    List.map (fun dl => SArtist.scatter Axes.given (offsets (colBirth dl.1) (finL infv (colDeath dl.1))) scatterMpl (some dl.2))
        (List.zip (ds.map (fun dgm => setWhereInf dgm b)) lab) = (scatters b ds lab).map SArtist.ofModel := by
  simp only [scatters, List.zip_map_left, List.map_map]
  apply List.map_congr_left
  intro dl _
  simp only [Function.comp, Prod.map, id, offsets_setWhereInf, SArtist.ofModel]

theorem scat_noinf (infv b : α) (ds : List (Dgm α)) (lab : List String) (h : ∀ d ∈ ds, NoInf d) :
    List.map (fun dl => SArtist.scatter Axes.given (offsets (colBirth dl.1) (finL infv (colDeath dl.1))) scatterMpl (some dl.2))
        (List.zip ds lab) = (scatters b ds lab).map SArtist.ofModel := by
  simp only [scatters, List.map_map]
  apply List.map_congr_left
  intro dl hdl
  simp only [Function.comp, SArtist.ofModel, offsets_noInf infv b dl.1 (h _ (List.of_mem_zip hdl).1)]

theorem noInf_shown (life : Bool) (ds : List (Dgm α)) (h : hasInf ds = false) : ∀ d ∈ shown life ds, NoInf d := by
  cases life with
  | false => exact noInf_of_hasInf h
  | true =>
    intro d hd
    simp only [shown, if_true, List.mem_map] at hd
    obtain ⟨d', hd', rfl⟩ := hd
    exact noInf_life d' (noInf_of_hasInf h d' hd')

theorem tailRef_eq (cast : α → α) (infv : α) (fig : SFig α) (title : Option String) (diagonal lifetime legend : Bool)
    (ds : List (Dgm α)) (lab : List String) (xd xu yd yu : α) (o : Opts α)
    (ho : o.title = title ∧ o.diagonal = diagonal ∧ o.lifetime = lifetime ∧ o.legend = legend) :
    tailRef cast infv Axes.given fig title diagonal lifetime legend ds lab (hasInf ds) xd xu yd yu =
      .ok (SFig.after fig (draw o ds lab ⟨xd, xu, yd, yu⟩)) := by
  obtain ⟨h1, h2, h3, h4⟩ := ho
  unfold tailRef
  cases hinf : hasInf ds
  · have hn := scat_noinf infv (bInfOf lifetime ⟨xd, xu, yd, yu⟩) (shown lifetime ds) lab (noInf_shown lifetime ds hinf)
    cases lifetime <;> cases diagonal <;> cases legend <;> cases title <;>
      simp only [shown, Bool.false_eq_true, if_false, if_true] at hn <;>
      simp only [Bool.false_eq_true, if_false, if_true, fold_round, colSub_eq, hn] <;>
      simp [SFig.after, draw, guideLines, h1, h2, h3, h4, hinf, shown, yDownOf, yUpOf, bInfOf, SFig.set_xlim, SFig.set_ylim,
        SFig.set_title, SFig.set_legend, SFig.add, SArtist.ofModel, styleMpl, legendMpl, zip_map_isEmpty] <;>
      (cases ds <;> cases lab <;> simp)
  · cases lifetime <;> cases diagonal <;> cases legend <;> cases title <;>
      simp only [Bool.false_eq_true, if_false, if_true, fold_round, colSub_eq, scat_inf] <;>
      simp [SFig.after, draw, guideLines, h1, h2, h3, h4, hinf, shown, yDownOf, yUpOf, bInfOf, SFig.set_xlim, SFig.set_ylim,
        SFig.set_title, SFig.set_legend, SFig.add, SArtist.ofModel, styleMpl, legendMpl, zip_map_isEmpty, infLabel] <;>
      (cases ds <;> cases lab <;> simp)

/-- **`plot_diagrams`**: the reviewed text equals the model, for every argument, option, cast, stand-in and initial state -/
theorem plot_diagrams_eq_model (cast : α → α) (infv : α) (fig : SFig α) (diagrams : DgmsArg α) (plot_only : Option (List Int))
    (title : Option String) (xy_range : Option (α × α × α × α)) (labels : Labels) (diagonal lifetime legend : Bool) :
    Ref.plot_diagrams cast infv Axes.given fig diagrams plot_only title xy_range labels diagonal lifetime legend =
      (plotDiagrams cast diagrams ⟨plot_only, title, xy_range, labels, diagonal, lifetime, legend⟩).map (SFig.after fig) := by
  rw [plot_diagrams_split, selRef_eq]
  unfold plotDiagrams
  simp only []
  cases hsel : select (asList diagrams) (labelList (asList diagrams).length labels) plot_only with
  | error e => rfl
  | ok sl =>
    obtain ⟨sel, lab⟩ := sl
    simp only [rangeRef_eq]
    cases he : sel.isEmpty with
    | true => rfl
    | false =>
      simp only [Bool.false_eq_true, if_false]
      cases hr : rangeOf xy_range (finiteVals (sel.map (castDgm cast))) with
      | none => rfl
      | some r =>
        simp only [Except.map]
        exact tailRef_eq cast infv fig title diagonal lifetime legend _ lab r.xDown r.xUp r.yDown r.yUp _ ⟨rfl, rfl, rfl, rfl⟩

/-! ### the matching plots -/

theorem pyGet_map {β γ : Type} (f : β → γ) (xs : List β) (i : Int) : pyGet (xs.map f) i = (pyGet xs i).map f := by
  unfold pyGet
  simp only [List.length_map, List.getElem?_map]
  split
  · rfl
  · split <;> rfl

theorem maskRows_isfinite (d : Dgm α) : maskRows d (isfiniteMask (colDeath d)) = d.filter fun p => p.2.isSome := by
  induction d with
  | nil => rfl
  | cons p t ih =>
    simp only [isfiniteMask, colDeath, List.map_cons, maskRows, List.filter_cons] at ih ⊢
    rw [ih]

theorem asDgm_finitePart (d : Dgm α) : asDgm (finitePart d) = d.filter fun p => p.2.isSome := by
  induction d with
  | nil => rfl
  | cons p t ih =>
    obtain ⟨b, e⟩ := p
    cases e with
    | none => simpa [asDgm, finitePart, List.filter_cons] using ih
    | some e =>
      simp only [asDgm, finitePart, List.filterMap_cons, Option.map_some, List.map_cons, List.filter_cons, Option.isSome_some,
        if_true] at ih ⊢
      rw [ih]

theorem npSize_eq_zero (d : Dgm α) : (npSize d == 0) = d.isEmpty := by
  cases d with
  | nil => rfl
  | cons p t => simp [npSize]

theorem npSize_ne_zero (d : Dgm α) : (npSize d != 0) = !d.isEmpty := by
  cases d with
  | nil => rfl
  | cons p t => simp [npSize]

theorem asDgm_placeholder (F : FDgm α) : asDgm (placeholder F) = if (asDgm F).isEmpty then zeroRow else asDgm F := by
  cases F <;> rfl

/-- the preparation of a diagram in `bottleneck_matching` -/
theorem prep_bn (d : Dgm α) :
    (if (npSize (if (npSize d != 0) = true then maskRows d (isfiniteMask (colDeath d)) else d) == 0) = true then zeroRow
      else (if (npSize d != 0) = true then maskRows d (isfiniteMask (colDeath d)) else d)) =
      asDgm (placeholder (finitePart d)) := by
  rw [asDgm_placeholder, asDgm_finitePart, maskRows_isfinite, npSize_eq_zero, npSize_ne_zero]
  cases d with
  | nil => rfl
  | cons p t => simp

/-- the preparation of a diagram in `wasserstein_matching`: what is shown, what the rows index -/
theorem prep_ws_shown (d : Dgm α) : (if (npSize d == 0) = true then zeroRow else d) = placeholderD d := by
  rw [npSize_eq_zero]; rfl

theorem prep_ws (d : Dgm α) :
    (if (npSize (maskRows (placeholderD d) (isfiniteMask (colDeath (placeholderD d)))) == 0) = true then zeroRow
      else maskRows (placeholderD d) (isfiniteMask (colDeath (placeholderD d)))) =
      asDgm (placeholder (finitePart d)) := by
  have h : placeholder (finitePart (placeholderD d)) = placeholder (finitePart d) := by cases d <;> rfl
  rw [← h, asDgm_placeholder, asDgm_finitePart, maskRows_isfinite, npSize_eq_zero]

theorem prep_ws' (d : Dgm α) :
    placeholderD (maskRows (placeholderD d) (isfiniteMask (colDeath (placeholderD d)))) = asDgm (placeholder (finitePart d)) := by
  rw [← prep_ws d, ← prep_ws_shown]

theorem dotRows_asDgm (infv c s : α) (F : FDgm α) : dotRows infv (asDgm F) ⟨c, -s, s, c⟩ = F.map (rot c s) := by
  simp only [dotRows, asDgm, List.map_map]
  rfl

theorem pyGet_asDgm (F : FDgm α) (i : Int) : pyGet (asDgm F) i = (pyGet F i).map fun q => (q.1, some q.2) := pyGet_map _ F i


/-- the state after one row of a matching plot: the row's segment, if it has one, added in style `st` on the given axes -/
def segFig (fig : SFig α) (st : Mpl) : Option (Bool × List α × List α) → SFig α
  | none => fig
  | some (_, xs, ys) => fig.add (SArtist.line Axes.given xs ys st none)

theorem bn_style (max_idx idx : Nat) :
    (⟨[.str (if (idx == max_idx) = true then ("-", 2, "C3") else ("-\x2d", 1, "C2") : String × Nat × String).2.2],
      [("linewidth", .num (if (idx == max_idx) = true then ("-", 2, "C3") else ("-\x2d", 1, "C2") : String × Nat × String).2.1),
       ("linestyle", .str (if (idx == max_idx) = true then ("-", 2, "C3") else ("-\x2d", 1, "C2") : String × Nat × String).1)]⟩ : Mpl) =
      styleMpl (bnStyle max_idx idx) := by
  unfold bnStyle
  by_cases h : idx = max_idx
  · simp [h, styleMpl]
  · have : (idx == max_idx) = false := by simpa using h
    simp [h, this, styleMpl]

theorem bn_round (cos sin : α → α) (pi : α) (cast : α → α) (infv c s : α) (F1 F2 : FDgm α) (max_idx : Nat) (fig : SFig α)
    (idx : Nat) (i j : Int) (d : α) :
    Ref.bottleneck_matching_round cos sin pi cast infv Axes.given (asDgm F1) (asDgm F2) ⟨c, -s, s, c⟩ (F1.map (rot c s))
        (F2.map (rot c s)) max_idx fig (idx, i, j, d) =
      (segment c s F1 F2 i j).map (segFig fig (styleMpl (bnStyle max_idx idx))) := by
  unfold Ref.bottleneck_matching_round segment
  simp only [pyGet_map, pyGet_asDgm, bn_style]
  cases h1 : (i != -1 || j != -1) <;> cases h2 : (i == -1) <;> cases h3 : (j == -1) <;>
    cases hq : pyGet F2 j <;> cases hp : pyGet F1 i <;>
    simp [Except.map, segFig, fin, vecDot, Mat2.T, foot, rot]

theorem ws_round (cos sin : α → α) (pi : α) (cast : α → α) (infv c s : α) (F1 F2 : FDgm α) (fig : SFig α) (i j : Int) (d : α) :
    Ref.wasserstein_matching_round cos sin pi cast infv Axes.given (asDgm F1) (asDgm F2) ⟨c, -s, s, c⟩ (F1.map (rot c s))
        (F2.map (rot c s)) fig (i, j, d) =
      (segment c s F1 F2 i j).map (segFig fig (styleMpl Style.wass)) := by
  unfold Ref.wasserstein_matching_round segment
  simp only [pyGet_map, pyGet_asDgm]
  cases h1 : (i != -1 || j != -1) <;> cases h2 : (i == -1) <;> cases h3 : (j == -1) <;>
    cases hq : pyGet F2 j <;> cases hp : pyGet F1 i <;>
    simp [Except.map, segFig, fin, vecDot, Mat2.T, foot, rot, styleMpl]

/-- a loop over the rows whose round adds the row's segment is the model's `segments` -/
theorem fold_segments (c s : α) (F1 F2 : FDgm α) (styleOf : Nat → Style) {ι : Type} (rowOf : ι → Nat × Row α)
    (round : SFig α → ι → Except Err (SFig α))
    (hround : ∀ fig it, round fig it =
      (segment c s F1 F2 (rowOf it).2.1 (rowOf it).2.2.1).map (segFig fig (styleMpl (styleOf (rowOf it).1)))) :
    ∀ (items : List ι) (k : Nat) (rows : List (Row α)), items.map rowOf = pyEnumerateFrom k rows → ∀ fig : SFig α,
      items.foldlM round fig =
        (segments c s F1 F2 styleOf (fun _ => Axes.given) k rows).map
          (fun segs => { fig with artists := fig.artists ++ segs.map SArtist.ofModel }) := by
  intro items
  induction items with
  | nil =>
    intro k rows h fig
    cases rows with
    | nil => simp [segments, Except.map, List.foldlM]; rfl
    | cons r t => simp [pyEnumerateFrom] at h
  | cons it t ih =>
    intro k rows h fig
    cases rows with
    | nil => simp [pyEnumerateFrom] at h
    | cons r rs =>
      obtain ⟨i, j, d⟩ := r
      simp only [pyEnumerateFrom, List.map_cons, List.cons.injEq] at h
      obtain ⟨hit, ht⟩ := h
      simp only [List.foldlM_cons, hround, hit, segments, bind, Except.bind]
      cases hseg : segment c s F1 F2 i j with
      | error e => rfl
      | ok seg =>
        simp only [Except.map]
        rw [ih (k + 1) rs ht]
        cases hrest : segments c s F1 F2 styleOf (fun _ => Axes.given) (k + 1) rs with
        | error e => rfl
        | ok rest =>
          cases seg with
          | none => rfl
          | some x =>
            obtain ⟨b, xs, ys⟩ := x
            simp [Except.map, segFig, SFig.add, SArtist.ofModel]

/-- the same for a loop over the rows themselves (no index: one style for all rows) -/
theorem fold_segments_rows (c s : α) (F1 F2 : FDgm α) (st : Style)
    (round : SFig α → Row α → Except Err (SFig α))
    (hround : ∀ fig it, round fig it = (segment c s F1 F2 it.1 it.2.1).map (segFig fig (styleMpl st))) :
    ∀ (rows : List (Row α)) (k : Nat) (fig : SFig α),
      rows.foldlM round fig =
        (segments c s F1 F2 (fun _ => st) (fun _ => Axes.given) k rows).map
          (fun segs => { fig with artists := fig.artists ++ segs.map SArtist.ofModel }) := by
  intro rows
  induction rows with
  | nil => intro k fig; simp [segments, Except.map, List.foldlM]; rfl
  | cons r rs ih =>
    intro k fig
    obtain ⟨i, j, d⟩ := r
    simp only [List.foldlM_cons, hround, segments, bind, Except.bind]
    cases hseg : segment c s F1 F2 i j with
    | error e => rfl
    | ok seg =>
      simp only [Except.map]
      rw [ih (k + 1)]
      cases hrest : segments c s F1 F2 (fun _ => st) (fun _ => Axes.given) (k + 1) rs with
      | error e => rfl
      | ok rest =>
        cases seg with
        | none => rfl
        | some x =>
          obtain ⟨b, xs, ys⟩ := x
          simp [Except.map, segFig, SFig.add, SArtist.ofModel]

/-- what the matching plots need of the `plot_diagrams` they call (the generated one has it: `src_plot_diagrams_eq_model`) -/
def PdOk (pd : (α → α) → α → Axes → SFig α → DgmsArg α → Option (List Int) → Option String → Option (α × α × α × α) → Labels → Bool → Bool → Bool → Except Err (SFig α)) : Prop :=
  ∀ (cast : α → α) (infv : α) (fig : SFig α) (diagrams : DgmsArg α) (plot_only : Option (List Int)) (title : Option String)
    (xy_range : Option (α × α × α × α)) (labels : Labels) (diagonal lifetime legend : Bool),
    pd cast infv Axes.given fig diagrams plot_only title xy_range labels diagonal lifetime legend =
      (plotDiagrams cast diagrams ⟨plot_only, title, xy_range, labels, diagonal, lifetime, legend⟩).map (SFig.after fig)

theorem pdOk_ref : PdOk (Ref.plot_diagrams (α := α)) := plot_diagrams_eq_model

theorem after_append (fig : SFig α) (pd : Fig α) (segs : List (Artist α)) :
    SFig.after fig { pd with artists := pd.artists ++ segs } =
      { SFig.after fig pd with artists := (SFig.after fig pd).artists ++ segs.map SArtist.ofModel } := by
  simp [SFig.after]

theorem after_prepend (fig : SFig α) (pd : Fig α) (segs : List (Artist α)) :
    SFig.after fig { pd with artists := segs ++ pd.artists } =
      SFig.after { fig with artists := fig.artists ++ segs.map SArtist.ofModel } pd := by
  simp [SFig.after]

/-- **`bottleneck_matching`**: the reviewed text equals the model with `c = cos (pi / 4)`, `s = sin (pi / 4)` -/
theorem bottleneck_matching_eq_model
    (pd : (α → α) → α → Axes → SFig α → DgmsArg α → Option (List Int) → Option String → Option (α × α × α × α) → Labels → Bool → Bool → Bool → Except Err (SFig α))
    (hpd : PdOk pd)
    (cos sin : α → α) (pi : α) (cast : α → α) (infv : α) (fig : SFig α) (dgm1 dgm2 : Dgm α)
    (matching : List (Row α)) (labels : List String) :
    Ref.bottleneck_matching pd cos sin pi cast infv Axes.given fig dgm1 dgm2 matching labels =
      (bottleneckMatching cast (cos (pi / 4)) (sin (pi / 4)) dgm1 dgm2 matching labels).map (SFig.after fig) := by
  unfold Ref.bottleneck_matching bottleneckMatching bottleneckMatchingWith
  simp only [hpd _ _ _ _ _ _ _ _ _ _ _, matchOpts, prep_bn, dotRows_asDgm, colDist]
  cases hp : plotDiagrams cast (DgmsArg.many [dgm1, dgm2]) { labels := Labels.many labels } with
  | error e => rfl
  | ok pd =>
    simp only [Except.map]
    cases hm : argmax? (List.map (fun r => r.2.2) matching) with
    | none => rfl
    | some max_idx =>
      simp only []
      rw [fold_segments (cos (pi / 4)) (sin (pi / 4)) (placeholder (finitePart dgm1)) (placeholder (finitePart dgm2))
        (bnStyle max_idx) id _ (fun fig it => by obtain ⟨idx, i, j, d⟩ := it; exact bn_round ..) (pyEnumerate matching) 0 matching
        (by simp [pyEnumerate])]
      cases segments (cos (pi / 4)) (sin (pi / 4)) (placeholder (finitePart dgm1)) (placeholder (finitePart dgm2)) (bnStyle max_idx)
          (fun _ => Axes.given) 0 matching with
      | error e => rfl
      | ok segs => simp only [Except.map, after_append]

/-- **`wasserstein_matching`** -/
theorem wasserstein_matching_eq_model
    (pd : (α → α) → α → Axes → SFig α → DgmsArg α → Option (List Int) → Option String → Option (α × α × α × α) → Labels → Bool → Bool → Bool → Except Err (SFig α))
    (hpd : PdOk pd)
    (cos sin : α → α) (pi : α) (cast : α → α) (infv : α) (fig : SFig α) (dgm1 dgm2 : Dgm α)
    (matching : List (Row α)) (labels : List String) :
    Ref.wasserstein_matching pd cos sin pi cast infv Axes.given fig dgm1 dgm2 matching labels =
      (wassersteinMatching cast (cos (pi / 4)) (sin (pi / 4)) dgm1 dgm2 matching labels).map (SFig.after fig) := by
  unfold Ref.wasserstein_matching wassersteinMatching wassersteinMatchingWith
  simp only [hpd _ _ _ _ _ _ _ _ _ _ _, matchOpts, prep_ws_shown, prep_ws', dotRows_asDgm]
  rw [fold_segments_rows (cos (pi / 4)) (sin (pi / 4)) (placeholder (finitePart dgm1)) (placeholder (finitePart dgm2))
    Style.wass _ (fun fig it => by obtain ⟨i, j, d⟩ := it; exact ws_round ..) matching 0 fig]
  cases segments (cos (pi / 4)) (sin (pi / 4)) (placeholder (finitePart dgm1)) (placeholder (finitePart dgm2)) (fun _ => Style.wass)
      (fun _ => Axes.given) 0 matching with
  | error e => rfl
  | ok segs =>
    simp only [Except.map]
    cases plotDiagrams cast (DgmsArg.many [placeholderD dgm1, placeholderD dgm2]) { labels := Labels.many labels } with
    | error e => rfl
    | ok pd => simp only [after_prepend]

/-! ### the 2-D landscape plots -/

theorem pyEnumerateFrom_eq_zip {β : Type} (l : List β) (k : Nat) :
    pyEnumerateFrom k l = List.zip (List.range' k l.length) l := by
  induction l generalizing k with
  | nil => rfl
  | cons x t ih => simp [pyEnumerateFrom, List.range'_succ, ih]

theorem lamLabel_eq : (lamLabel : Nat → String) = lambdaLabel := rfl

/-- a loop whose round adds one line for a kept depth and nothing for the others -/
theorem fold_lines {β : Type} (keep : Nat → Bool) (mk : Nat × β → SArtist α)
    (round : SFig α → Nat × β → Except Err (SFig α))
    (hround : ∀ fig it, round fig it = if !(keep it.1) then .ok fig else .ok (fig.add (mk it))) :
    ∀ (items : List (Nat × β)) (fig : SFig α),
      items.foldlM round fig = .ok { fig with artists := fig.artists ++ (items.filter fun it => keep it.1).map mk } := by
  intro items
  induction items with
  | nil => intro fig; simp [List.foldlM]; rfl
  | cons it t ih =>
    intro fig
    simp only [List.foldlM_cons, hround, bind, Except.bind]
    cases hk : keep it.1
    · simp [ih, hk]
    · simp [ih, hk, SFig.add]

/-- the depths kept: the model's `keep` and `depth not in depth_range` after the defaulting agree on every depth that exists -/
theorem keep_eq (dr : Option (List Nat)) (maxDepth : Int) (n d : Nat) (hn : n ≤ (maxDepth + 1).toNat) (hd : d < n) :
    (rangeOr dr (maxDepth + 1)).contains d =
      (match dr with
        | some (k :: ks) => fun d => (k :: ks).contains d
        | _ => fun _ => true) d := by
  rcases dr with _ | _ | ⟨k, ks⟩
  · simp [rangeOr, truthy]; omega
  · simp [rangeOr, truthy]; omega
  · simp [rangeOr, truthy, seqOf]

theorem filterMap_map_eq {β γ δ : Type} (L : List β) (p q : β → Bool) (f : β → γ) (g : γ → δ) (h : β → δ)
    (hpq : ∀ x ∈ L, p x = q x) (hgh : ∀ x ∈ L, g (f x) = h x) :
    (L.filterMap fun x => if p x = true then some (f x) else none).map g = (L.filter q).map h := by
  induction L with
  | nil => rfl
  | cons x t ih =>
    have ih' := ih (fun y hy => hpq y (List.mem_cons_of_mem _ hy)) (fun y hy => hgh y (List.mem_cons_of_mem _ hy))
    have h1 := hpq x (List.mem_cons_self ..)
    have h2 := hgh x (List.mem_cons_self ..)
    simp only [List.filterMap_cons, List.filter_cons, ← h1]
    cases hp : p x <;> simp [ih', h2]

theorem landscapeLines_eq (fns : List (List α × List α)) (dr : Option (List Nat)) (maxDepth : Int)
    (hmax : fns.length ≤ (maxDepth + 1).toNat) :
    (landscapeLines fns dr).map SArtist.ofModel =
      ((pyEnumerate fns).filter fun it => (rangeOr dr (maxDepth + 1)).contains it.1).map
        (fun it => SArtist.line Axes.given it.2.1 it.2.2 ⟨[], [("alpha", .param "alpha")]⟩ (some (lamLabel it.1))) := by
  unfold landscapeLines pyEnumerate
  rw [pyEnumerateFrom_eq_zip, ← List.range_eq_range']
  apply filterMap_map_eq
  · intro x hx
    have hlt : x.1 < fns.length := by
      have := (List.of_mem_zip hx).1
      simpa using this
    exact (keep_eq dr maxDepth fns.length x.1 hmax hlt).symm
  · intro x _
    rfl


theorem pyEnumerateFrom_map {β γ : Type} (F : β → γ) (l : List β) (k : Nat) :
    pyEnumerateFrom k (l.map F) = (pyEnumerateFrom k l).map fun it => (it.1, F it.2) := by
  induction l generalizing k with
  | nil => rfl
  | cons x t ih => simp [pyEnumerateFrom, ih]

/-- the tail of both landscape plots: legend, title, axis labels -/
theorem land_tail (f : SFig α) (title : Option String) (labels : Option (List String))
    (hlab : truthy labels = true → 2 ≤ (seqOf labels).length) :
    (let fig_2 : SFig α := f.set_legend Axes.given ⟨[], []⟩
     let fig_4 : SFig α := if truthyStr title then fig_2.set_title Axes.given (strOf title) else fig_2
     if truthy labels then
       match (seqOf labels)[0]? with
       | none => .error Err.index
       | some t =>
       match (seqOf labels)[1]? with
       | none => .error Err.index
       | some t_1 => .ok ((fig_4.set_xlabel Axes.given t).set_ylabel Axes.given t_1)
     else .ok fig_4 : Except Err (SFig α)) = .ok (f.landAfter title labels) := by
  cases ht : truthyStr title <;> cases hl : truthy labels
  · simp [SFig.landAfter, SFig.set_legend, ht, hl]
  · have h2 := hlab hl
    obtain ⟨a, b, rest, hs⟩ : ∃ a b rest, seqOf labels = a :: b :: rest := by
      match h : seqOf labels, h2 with
      | a :: b :: rest, _ => exact ⟨a, b, rest, rfl⟩
      | [_], h2 => simp at h2
      | [], h2 => simp at h2
    simp [SFig.landAfter, SFig.set_legend, SFig.set_xlabel, SFig.set_ylabel, ht, hl, hs]
  · simp [SFig.landAfter, SFig.set_legend, SFig.set_title, ht, hl]
  · have h2 := hlab hl
    obtain ⟨a, b, rest, hs⟩ : ∃ a b rest, seqOf labels = a :: b :: rest := by
      match h : seqOf labels, h2 with
      | a :: b :: rest, _ => exact ⟨a, b, rest, rfl⟩
      | [_], h2 => simp at h2
      | [], h2 => simp at h2
    simp [SFig.landAfter, SFig.set_legend, SFig.set_title, SFig.set_xlabel, SFig.set_ylabel, ht, hl, hs]

/-! `compute_landscape`, the state transformer: what it leaves alone, what it stores for a landscape built with `compute=False` -/

theorem LandApprox.compute_landscape_start (L : LandApprox α) : L.compute_landscape.start = L.start := by
  unfold LandApprox.compute_landscape; split <;> rfl

theorem LandApprox.compute_landscape_stop (L : LandApprox α) : L.compute_landscape.stop = L.stop := by
  unfold LandApprox.compute_landscape; split <;> rfl

theorem LandExact.compute_landscape_lazy (L : LandExact α) (h : L.depths = []) :
    L.compute_landscape = { L with depths := L.fromDgms, max_depth := (L.fromDgms.length : Int) } := by
  unfold LandExact.compute_landscape; simp [h]

theorem LandApprox.compute_landscape_lazy (L : LandApprox α) (h : (L.depths.all (·.isEmpty)) = true) :
    L.compute_landscape = { L with depths := L.fromDgms, max_depth := (L.fromDgms.length : Int) } := by
  unfold LandApprox.compute_landscape; simp only [h, if_true]

/-- a stored landscape is left as it is (`if self.critical_pairs: return`) -/
theorem LandExact.compute_landscape_stored (L : LandExact α) (h : L.depths ≠ []) : L.compute_landscape = L := by
  unfold LandExact.compute_landscape
  cases hd : L.depths with
  | nil => exact absurd hd h
  | cons _ _ => simp

/-- computing twice is computing once (`__getitem__` calls `compute_landscape()` again on every access) -/
theorem LandExact.compute_landscape_idem (L : LandExact α) : L.compute_landscape.compute_landscape = L.compute_landscape := by
  unfold LandExact.compute_landscape
  cases hd : L.depths with
  | nil =>
    simp only [List.isEmpty_nil, if_true]
    cases hf : L.fromDgms <;> simp
  | cons _ _ => simp [hd]

/-- **`plot_landscape_exact_simple`** -/
theorem plot_landscape_exact_simple_eq_model (fig : SFig α) (L : LandExact α) (title : Option String) (labels : Option (List String))
    (dr : Option (List Nat)) (hmax : L.compute_landscape.depths.length ≤ (L.compute_landscape.max_depth + 1).toNat)
    (hlab : truthy labels = true → 2 ≤ (seqOf labels).length) :
    Ref.plot_landscape_exact_simple Axes.given fig L title labels dr =
      .ok ((fig.afterArtists (landscapeExactSimple L.compute_landscape.depths dr)).landAfter title labels) := by
  unfold Ref.plot_landscape_exact_simple
  simp only []
  -- everything after `landscape.compute_landscape()` reads the COMPUTED object
  generalize L.compute_landscape = L at hmax ⊢
  rw [fold_lines (fun d => (rangeOr dr (L.max_depth + 1)).contains d)
    (fun it => SArtist.line Axes.given (pairsCol0 it.2) (pairsCol1 it.2) ⟨[], [("alpha", .param "alpha")]⟩ (some (lamLabel it.1)))
    (Ref.plot_landscape_exact_simple_round Axes.given (rangeOr dr (L.max_depth + 1))) (fun fig it => rfl)]
  have hart : ((pyEnumerate L.depths).filter fun it => (rangeOr dr (L.max_depth + 1)).contains it.1).map
        (fun it => SArtist.line Axes.given (pairsCol0 it.2) (pairsCol1 it.2) ⟨[], [("alpha", .param "alpha")]⟩ (some (lamLabel it.1))) =
      (landscapeExactSimple L.depths dr).map SArtist.ofModel := by
    unfold landscapeExactSimple
    rw [landscapeLines_eq _ dr L.max_depth (by simpa using hmax)]
    simp only [pyEnumerate, pyEnumerateFrom_map, List.filter_map, List.map_map]
    rfl
  rw [hart]
  exact land_tail _ title labels hlab

/-- **`plot_landscape_approx_simple`** -/
theorem plot_landscape_approx_simple_eq_model (natCast : Nat → α) (fig : SFig α) (L : LandApprox α) (title : Option String)
    (labels : Option (List String)) (dr : Option (List Nat))
    (hmax : L.compute_landscape.depths.length ≤ (L.compute_landscape.max_depth + 1).toNat)
    (hlab : truthy labels = true → 2 ≤ (seqOf labels).length) :
    Ref.plot_landscape_approx_simple natCast Axes.given fig L title labels dr =
      .ok ((fig.afterArtists (landscapeApproxSimple natCast L.start L.stop L.compute_landscape.depths dr)).landAfter title labels) := by
  unfold Ref.plot_landscape_approx_simple
  simp only []
  rw [← LandApprox.compute_landscape_start L, ← LandApprox.compute_landscape_stop L]
  generalize L.compute_landscape = L at hmax ⊢
  rw [fold_lines (fun d => (rangeOr dr (L.max_depth + 1)).contains d)
    (fun it => SArtist.line Axes.given (linspace natCast L.start L.stop it.2.length) it.2 ⟨[], [("alpha", .param "alpha")]⟩
      (some (lamLabel it.1)))
    (Ref.plot_landscape_approx_simple_round natCast Axes.given L (rangeOr dr (L.max_depth + 1))) (fun fig it => rfl)]
  have hart : ((pyEnumerate L.depths).filter fun it => (rangeOr dr (L.max_depth + 1)).contains it.1).map
        (fun it => SArtist.line Axes.given (linspace natCast L.start L.stop it.2.length) it.2 ⟨[], [("alpha", .param "alpha")]⟩
          (some (lamLabel it.1))) =
      (landscapeApproxSimple natCast L.start L.stop L.depths dr).map SArtist.ofModel := by
    unfold landscapeApproxSimple
    rw [landscapeLines_eq _ dr L.max_depth (by simpa using hmax)]
    simp only [pyEnumerate, pyEnumerateFrom_map, List.filter_map, List.map_map]
    rfl
  rw [hart]
  exact land_tail _ title labels hlab

/-- a landscape built with `compute=False`: the lines of what `compute_landscape()` computes; `max_depth` is set by the method -/
theorem plot_landscape_exact_simple_lazy (fig : SFig α) (L : LandExact α) (title : Option String) (labels : Option (List String))
    (dr : Option (List Nat)) (hlazy : L.depths = []) (hlab : truthy labels = true → 2 ≤ (seqOf labels).length) :
    Ref.plot_landscape_exact_simple Axes.given fig L title labels dr =
      .ok ((fig.afterArtists (landscapeExactSimple L.fromDgms dr)).landAfter title labels) := by
  have h := plot_landscape_exact_simple_eq_model fig L title labels dr
    (by rw [LandExact.compute_landscape_lazy L hlazy]; simp only []; omega) hlab
  rw [h, LandExact.compute_landscape_lazy L hlazy]

theorem plot_landscape_approx_simple_lazy (natCast : Nat → α) (fig : SFig α) (L : LandApprox α) (title : Option String)
    (labels : Option (List String)) (dr : Option (List Nat)) (hlazy : (L.depths.all (·.isEmpty)) = true)
    (hlab : truthy labels = true → 2 ≤ (seqOf labels).length) :
    Ref.plot_landscape_approx_simple natCast Axes.given fig L title labels dr =
      .ok ((fig.afterArtists (landscapeApproxSimple natCast L.start L.stop L.fromDgms dr)).landAfter title labels) := by
  have h := plot_landscape_approx_simple_eq_model natCast fig L title labels dr
    (by rw [LandApprox.compute_landscape_lazy L hlazy]; simp only []; omega) hlab
  rw [h, LandApprox.compute_landscape_lazy L hlazy]

/-- fewer than two axis labels: `labels[0]` / `labels[1]` raises `IndexError` -/
theorem land_tail_index (f : SFig α) (title : Option String) (labels : Option (List String))
    (hl : truthy labels = true) (h2 : (seqOf labels).length < 2) :
    (let fig_2 : SFig α := f.set_legend Axes.given ⟨[], []⟩
     let fig_4 : SFig α := if truthyStr title then fig_2.set_title Axes.given (strOf title) else fig_2
     if truthy labels then
       match (seqOf labels)[0]? with
       | none => .error Err.index
       | some t =>
       match (seqOf labels)[1]? with
       | none => .error Err.index
       | some t_1 => .ok ((fig_4.set_xlabel Axes.given t).set_ylabel Axes.given t_1)
     else .ok fig_4 : Except Err (SFig α)) = .error Err.index := by
  match h : seqOf labels, h2 with
  | [], _ => simp [hl]
  | [a], _ => simp [hl]
  | a :: b :: rest, h2 => simp at h2; omega

theorem plot_landscape_exact_simple_index (fig : SFig α) (L : LandExact α) (title : Option String) (labels : Option (List String))
    (dr : Option (List Nat)) (hl : truthy labels = true) (h2 : (seqOf labels).length < 2) :
    Ref.plot_landscape_exact_simple Axes.given fig L title labels dr = .error Err.index := by
  unfold Ref.plot_landscape_exact_simple
  simp only []
  generalize L.compute_landscape = L
  rw [fold_lines (fun d => (rangeOr dr (L.max_depth + 1)).contains d)
    (fun it => SArtist.line Axes.given (pairsCol0 it.2) (pairsCol1 it.2) ⟨[], [("alpha", .param "alpha")]⟩ (some (lamLabel it.1)))
    (Ref.plot_landscape_exact_simple_round Axes.given (rangeOr dr (L.max_depth + 1))) (fun fig it => rfl)]
  exact land_tail_index _ title labels hl h2

theorem plot_landscape_approx_simple_index (natCast : Nat → α) (fig : SFig α) (L : LandApprox α) (title : Option String)
    (labels : Option (List String)) (dr : Option (List Nat)) (hl : truthy labels = true) (h2 : (seqOf labels).length < 2) :
    Ref.plot_landscape_approx_simple natCast Axes.given fig L title labels dr = .error Err.index := by
  unfold Ref.plot_landscape_approx_simple
  simp only []
  generalize L.compute_landscape = L
  rw [fold_lines (fun d => (rangeOr dr (L.max_depth + 1)).contains d)
    (fun it => SArtist.line Axes.given (linspace natCast L.start L.stop it.2.length) it.2 ⟨[], [("alpha", .param "alpha")]⟩
      (some (lamLabel it.1)))
    (Ref.plot_landscape_approx_simple_round natCast Axes.given L (rangeOr dr (L.max_depth + 1))) (fun fig it => rfl)]
  exact land_tail_index _ title labels hl h2

/-! ### nothing is lost by comparing through `styleMpl` / `SArtist.ofModel` -/

theorem styleMpl_injective : ∀ a b : Style, styleMpl a = styleMpl b → a = b := by
  intro a b h
  cases a <;> cases b <;> first | rfl | (simp [styleMpl] at h)

theorem ofModel_injective : ∀ a b : Artist α, SArtist.ofModel a = SArtist.ofModel b → a = b := by
  intro a b h
  cases a <;> cases b <;> simp [SArtist.ofModel] at h
  · obtain ⟨h1, h2, h3⟩ := h; subst h1 h2 h3; rfl
  · obtain ⟨h1, h2, h3, h4, h5⟩ := h; subst h1 h2 h3 h5; rw [styleMpl_injective _ _ h4]

end

end PersimVerif.SrcBridge.Plot
