import PersimVerif.Lemmas.SrcLibImage
import PersimVerif.Lemmas.ImageStruct
import PersimVerif.Lemmas.ImageModels
/-
  Bridging lemmas between the image translator's library (`SrcLibImage`: NumPy arrays read entry-wise) and the models
  `Model/Image.lean` (C04, C11), `Model/Imager.lean`, `Model/Transformers.lean` (C18), used by the generated obligations of
  `Generated/SrcImage.lean`.  Hand-written; nothing here mentions a generated definition.  Mathlib-free.

  * part 1: what the entry-wise operations are in the list-of-rows representation of the model (`toMat` of a tabulated
    array, the four slices and `accumulate`, `reshapeC`, the flattened `meshgrid`);
  * part 2: `Ref.*`, the reviewed Lean text of the shape the translator generates for `_transform`, `transform`,
    `fit_transform` (the generated definitions are proved equal to these by `rfl`: `src_<def>_eq_ref`);
  * part 3: `Ref.*` against the models: `transformOne_eq_model` (both paths and the dispatch between them),
    `transform_eq_model`, `transform_eq_image_model`, `fit_transform_eq_model`.
-/
namespace PersimVerif.SrcBridge.Image
open PersimVerif PersimVerif.SrcLib.Image

/-! ## part 1: entry-wise arrays against lists of rows -/

section part1
open PersimVerif.Image

section lists
variable {α β : Type}

/-- a map over a list is the map over its positions -/
theorem map_eq_range_getD (f : α → β) (l : List α) (d : α) :
    l.map f = (List.range l.length).map fun i => f (l.getD i d) := by
  apply List.ext_getElem
  · simp
  · intro i h1 h2
    simp only [List.length_map] at h1
    simp [List.getD_eq_getElem?_getD, List.getElem?_eq_getElem h1]

/-- consecutive positions -/
theorem pairs_range (n : Nat) : pairs (List.range (n + 1)) = (List.range n).map fun i => (i, i + 1) := by
  apply List.ext_getElem
  · simp [length_pairs]
  · intro i h1 h2
    simp only [length_pairs, List.length_range] at h1
    simp [pairs, List.getElem_zip]
    omega

theorem tabulate_map {κ κ' ι ι' : Type} (u : κ' → κ) (v : ι' → ι) (Q : List κ') (R : List ι') (g : κ → ι → α) :
    tabulate (Q.map u) (R.map v) g = tabulate Q R fun q r => g (u q) (v r) := by
  simp only [tabulate, List.map_map, Function.comp_def]

/-- the four slices of a table combine to the corner combination on each pair of consecutive index pairs
    (`ImageStruct.inclExcl_outer` with arbitrary index types) -/
theorem inclExcl_table [Add α] [Sub α] {κ ι : Type} (G : κ → ι → α) (bs : List κ) (ps : List ι) :
    inclExcl (bs.map fun b => ps.map (G b))
      = tabulate (pairs bs) (pairs ps) fun q r => G q.2 r.2 - G q.1 r.2 - G q.2 r.1 + G q.1 r.1 := by
  have hT : ∀ b : κ, (ps.map (G b)).tail = (pairs ps).map fun r => G b r.2 := by
    intro b; rw [← List.map_tail, tail_eq_map_snd_pairs, List.map_map]; rfl
  have hD : ∀ b : κ, (ps.map (G b)).dropLast = (pairs ps).map fun r => G b r.1 := by
    intro b; rw [← List.map_dropLast, dropLast_eq_map_fst_pairs, List.map_map]; rfl
  have ha : ((bs.map fun b => ps.map (G b)).tail.map List.tail)
      = tabulate (pairs bs) (pairs ps) fun q r => G q.2 r.2 := by
    rw [← List.map_tail, tail_eq_map_snd_pairs]
    simp only [List.map_map, Function.comp_def, hT, tabulate]
  have hb : ((bs.map fun b => ps.map (G b)).dropLast.map List.tail)
      = tabulate (pairs bs) (pairs ps) fun q r => G q.1 r.2 := by
    rw [← List.map_dropLast, dropLast_eq_map_fst_pairs]
    simp only [List.map_map, Function.comp_def, hT, tabulate]
  have hc : ((bs.map fun b => ps.map (G b)).tail.map List.dropLast)
      = tabulate (pairs bs) (pairs ps) fun q r => G q.2 r.1 := by
    rw [← List.map_tail, tail_eq_map_snd_pairs]
    simp only [List.map_map, Function.comp_def, hD, tabulate]
  have hd : ((bs.map fun b => ps.map (G b)).dropLast.map List.dropLast)
      = tabulate (pairs bs) (pairs ps) fun q r => G q.1 r.1 := by
    rw [← List.map_dropLast, dropLast_eq_map_fst_pairs]
    simp only [List.map_map, Function.comp_def, hD, tabulate]
  simp only [inclExcl, ha, hb, hc, hd, matZip_tabulate]

end lists

section arrays
variable {α : Type}

theorem toMat_eq_tabulate (A : Arr2 α) : A.toMat = tabulate (List.range A.r) (List.range A.c) A.get := rfl

/-- **one `pers_img += w * (curr[1:, 1:] - curr[:-1, 1:] - curr[1:, :-1] + curr[:-1, :-1])`**, entry-wise against the
    model's slices: for `curr` of shape `(r + 1, c + 1)` and an image of shape `(r, c)` -/
theorem accumulate_toMat [Add α] [Sub α] [Mul α] (r c : Nat) (img curr : Nat → Nat → α) (w : α) :
    accumulate (Arr2.toMat ⟨r, c, img⟩) w (Arr2.toMat ⟨r + 1, c + 1, curr⟩)
      = Arr2.toMat ⟨r, c, fun a b => img a b +
          w * (curr (a + 1) (b + 1) - curr a (b + 1) - curr (a + 1) b + curr a b)⟩ := by
  simp only [toMat_eq_tabulate, accumulate]
  have h := inclExcl_table curr (List.range (r + 1)) (List.range (c + 1))
  simp only [tabulate] at h ⊢
  rw [h]
  simp only [pairs_range, List.map_map, Function.comp_def, scale, matZip, zipWith_map_same]

/-- `np.reshape(v, (r, c), order="C")`: the rows of the model's `reshapeC` are the entries `v[i * c + j]` -/
theorem reshapeC_eq_toMat [Zero α] (r c : Nat) (v : List α) (h : v.length = r * c) :
    reshapeC r c v = Arr2.toMat ⟨r, c, fun i j => v.getD (i * c + j) 0⟩ := by
  induction r generalizing v with
  | zero => rfl
  | succ r ih =>
    have hd : (v.drop c).length = r * c := by
      rw [List.length_drop, h, Nat.succ_mul]; omega
    have hc : c ≤ v.length := by rw [h, Nat.succ_mul]; omega
    simp only [reshapeC, ih (v.drop c) hd, Arr2.toMat, List.range_succ_eq_map, List.map_cons, List.map_map,
      Function.comp_def]
    congr 1
    · apply List.ext_getElem
      · simp [List.length_take, Nat.min_eq_left hc]
      · intro j h1 h2
        simp only [List.length_map, List.length_range] at h2
        have hj : j < v.length := by omega
        simp [List.getD_eq_getElem?_getD, List.getElem?_eq_getElem hj]
    · apply List.map_congr_left
      intro i _
      apply List.map_congr_left
      intro j _
      simp only [List.getD_eq_getElem?_getD, List.getElem?_drop, Nat.succ_eq_add_one]
      congr 2
      rw [Nat.add_mul]; omega

/-- the rows of a table, one after the other (`flatten(order="C")`): entry `k` is `[k / c][k % c]` -/
theorem flatten_toMat (A : Arr2 α) :
    A.toMat.flatten = (List.range (A.r * A.c)).map fun k => A.get (k / A.c) (k % A.c) := by
  obtain ⟨r, c, g⟩ := A
  simp only [Arr2.toMat]
  induction r with
  | zero => simp
  | succ r ih =>
    rw [List.range_succ, List.map_append, List.flatten_append, ih, Nat.succ_mul, List.range_add, List.map_append]
    congr 1
    simp only [List.map_cons, List.map_nil, List.flatten_cons, List.flatten_nil, List.append_nil, List.map_map,
      Function.comp_def]
    apply List.map_congr_left
    intro j hj
    have hj' : j < c := List.mem_range.mp hj
    have hc : 0 < c := by omega
    rw [Nat.mul_comm r c, Nat.mul_add_div hc, Nat.mul_add_mod, Nat.div_eq_of_lt hj', Nat.mod_eq_of_lt hj']
    rfl

/-- the two flat coordinate arrays of the model are the flattened `meshgrid(..., indexing="ij")` read entry-wise -/
theorem flatMesh_fst [Zero α] (bs ps : List α) :
    (flatMesh bs ps).1 = Arr1.toList ⟨bs.length * ps.length, fun k => bs.getD (k / ps.length) 0⟩ := by
  have h : (bs.map fun b => ps.map fun _ => b)
      = Arr2.toMat ⟨bs.length, ps.length, fun a _ => bs.getD a 0⟩ := by
    simp only [Arr2.toMat]
    rw [map_eq_range_getD _ bs 0]
    apply List.map_congr_left
    intro i _
    rw [map_eq_range_getD _ ps 0]
  simp only [flatMesh, flattenC, meshgridIJ, h, flatten_toMat, Arr1.toList]

theorem flatMesh_snd [Zero α] (bs ps : List α) :
    (flatMesh bs ps).2 = Arr1.toList ⟨bs.length * ps.length, fun k => ps.getD (k % ps.length) 0⟩ := by
  have h : (bs.map fun _ => ps)
      = Arr2.toMat ⟨bs.length, ps.length, fun _ b => ps.getD b 0⟩ := by
    simp only [Arr2.toMat]
    rw [map_eq_range_getD _ bs 0]
    apply List.map_congr_left
    intro i _
    conv => lhs; rw [← List.map_id ps, map_eq_range_getD _ ps 0]
    rfl
  simp only [flatMesh, flattenC, meshgridIJ, h, flatten_toMat, Arr1.toList]

theorem zeros_eq_toMat [Zero α] (r c : Nat) : (zeros r c : Mat α) = Arr2.toMat ⟨r, c, fun _ _ => 0⟩ := by
  simp only [zeros, Arr2.toMat, List.map_const', List.length_range]

end arrays
end part1

/-! ## part 2: the reviewed Lean text of the translated functions

Copied from the translator's output on the reviewed source and read against persim/images.py line by line.  `transform` takes
the translated `_transform` (with `sqrt`, `Φ`, `kp_sigma` applied) as the parameter `one`, `fit_transform` the translated
`transform` as `tr`: this file does not import generated text. -/

namespace Ref
open PersimVerif.Imager PersimVerif.Transformers
set_option linter.unusedVariables false

section
variable {α WP KP : Type} [Add α] [Sub α] [Mul α] [Div α] [Zero α] [BEq α]

/-- one round of `for i in range(n)` (the names its body only reads, the accumulated `pers_img`, the index) -/
def fast_round (Φ : α → α) (pers_dgm : List (α × α)) (_bpnts : Arr1 α) (_ppnts : Arr1 α) (wts : List α) (sigma : α) (pers_img : Arr2 α) (i : Nat) : Option (Arr2 α) :=
  match pers_dgm[i]? with
  | none => none
  | some t =>
  let ncdf_b : Arr1 α := ⟨_bpnts.n, fun k => Φ ((_bpnts.get k - t.1) / sigma)⟩
  match pers_dgm[i]? with
  | none => none
  | some t_1 =>
  let ncdf_p : Arr1 α := ⟨_ppnts.n, fun k => Φ ((_ppnts.get k - t_1.2) / sigma)⟩
  let curr_img : Arr2 α := ⟨ncdf_b.n, ncdf_p.n, fun a b => ncdf_p.get b * ncdf_b.get a⟩
  match wts[i]? with
  | none => none
  | some t_2 =>
  match Arr2.iadd? pers_img ⟨curr_img.r - 1, curr_img.c - 1, fun a b => t_2 * (curr_img.get (a + 1) (b + 1) - curr_img.get a (b + 1) - curr_img.get (a + 1) b + curr_img.get a b)⟩ with
  | none => none
  | some pers_img_1 =>
  some pers_img_1

/-- one round of `for i in range(n)` (the names its body only reads, the accumulated `pers_img`, the index) -/
def general_round (pers_dgm : List (α × α)) (resolution : Int × Int) (kernel : Kernel α KP) (kernel_params : KP) (wts : List α) (bb : Arr1 α) (pp : Arr1 α) (pers_img : Arr2 α) (i : Nat) : Option (Arr2 α) :=
  match pers_dgm[i]? with
  | none => none
  | some t =>
  match (Arr1.ofList (kernel.call kernel_params t bb.toList pp.toList)).reshape? (resolution.1 + 1) (resolution.2 + 1) with
  | none => none
  | some curr_img =>
  match wts[i]? with
  | none => none
  | some t_2 =>
  match Arr2.iadd? pers_img ⟨curr_img.r - 1, curr_img.c - 1, fun a b => t_2 * (curr_img.get (a + 1) (b + 1) - curr_img.get a (b + 1) - curr_img.get (a + 1) b + curr_img.get a b)⟩ with
  | none => none
  | some pers_img_1 =>
  some pers_img_1

/-- `_transform(pers_dgm, skew, resolution, weight, weight_params, kernel, kernel_params, _bpnts, _ppnts)`, statement by statement: the image of one diagram (`none`: the source raises) -/
def _transform (sqrt Φ : α → α) (kp_sigma : KP → Image.Sigma α) (pers_dgm : List (α × α)) (skew : Bool) (resolution : Int × Int) (weight : α → α → WP → α) (weight_params : WP) (kernel : Kernel α KP) (kernel_params : KP) (_bpnts _ppnts : Arr1 α) :
    Option (Image.Mat α) :=
  let pers_dgm_1 : List (α × α) := pers_dgm
  match Arr2.zeros? resolution.1 resolution.2 with
  | none => none
  | some pers_img =>
  let n : Nat := pers_dgm_1.length
  let general_flag : Bool := true
  let pers_dgm_3 : List (α × α) := if skew then pers_dgm_1.map (fun r => (r.1, r.2 - r.1)) else pers_dgm_1
  let wts : List α := pers_dgm_3.map (fun r => weight r.1 r.2 weight_params)
  match (
      if kernel.isGaussian then
        let general_flag_1 : Bool := false
        let sigma : Image.Sigma α := kp_sigma kernel_params
        let sigma_1 : α × α × α × α := match sigma with
          | .scalar s => (s, 0, 0, s)
          | .matrix s00 s01 s10 s11 => (s00, s01, s10, s11)
        if sigma_1.1 == sigma_1.2.2.2 && sigma_1.2.1 == 0 then
          let sigma_2 : α := sqrt sigma_1.1
          match (List.range n).foldlM (fast_round Φ pers_dgm_3 _bpnts _ppnts wts sigma_2) pers_img with
          | none => none
          | some pers_img_1 =>
          some (pers_img_1, general_flag_1)
        else
          let general_flag_2 : Bool := true
          some (pers_img, general_flag_2)
      else
        some (pers_img, general_flag)) with
  | none => none
  | some (pers_img_2, general_flag_3) =>
  match (
      if general_flag_3 then
        let bb : Arr2 α := ⟨_bpnts.n, _ppnts.n, fun a b => _bpnts.get a⟩
        let pp : Arr2 α := ⟨_bpnts.n, _ppnts.n, fun a b => _ppnts.get b⟩
        let bb_1 : Arr1 α := ⟨bb.r * bb.c, fun k => bb.get (k / bb.c) (k % bb.c)⟩
        let pp_1 : Arr1 α := ⟨pp.r * pp.c, fun k => pp.get (k / pp.c) (k % pp.c)⟩
        match (List.range n).foldlM (general_round pers_dgm_3 resolution kernel kernel_params wts bb_1 pp_1) pers_img_2 with
        | none => none
        | some pers_img_3 =>
        some pers_img_3
      else
        some pers_img_2) with
  | none => none
  | some pers_img_4 =>
  some pers_img_4.toMat

end

section
variable {α WP KP : Type} [Add α] [Sub α] [Mul α] [Div α] [Zero α] [OfNat α 2] [IntCast α]
  [LT α] [DecidableLT α] [DecidableEq α] [BEq α]

/-- `PersistenceImager.transform(pers_dgms, skew, n_jobs)` on the geometry state `self` (`weight`, …, `kernel_params`: the attributes of the same names) -/
def transform (one : List (α × α) → Bool → Int × Int → (α → α → WP → α) → WP → Kernel α KP → KP → Arr1 α → Arr1 α →
    Option (Image.Mat α)) (self : State α) (weight : α → α → WP → α) (weight_params : WP) (kernel : Kernel α KP) (kernel_params : KP) (pers_dgms : Input α) (skew : Bool) (n_jobs : Option Nat) :
    Option (Output (Image.Mat α)) :=
  let parallelize_2 : Bool := if n_jobs.isSome then true else false
  if inputLen pers_dgms == 0 then
    match Arr2.zeros? self.rx self.ry with
    | none => none
    | some z =>
    some (.image z.toMat)
  else
    let pers_dgms_1 : List (List (α × α)) := (ensureIterable pers_dgms).1
    let singular : Bool := (ensureIterable pers_dgms).2
    match (
        if parallelize_2 then
          match pers_dgms_1.mapM (fun pers_dgm => one pers_dgm skew (self.rx, self.ry) weight weight_params kernel kernel_params (Arr1.ofList (meshB self)) (Arr1.ofList (meshP self))) with
          | none => none
          | some pers_imgs =>
          some pers_imgs
        else
          match pers_dgms_1.mapM (fun pers_dgm => one pers_dgm skew (self.rx, self.ry) weight weight_params kernel kernel_params (Arr1.ofList (meshB self)) (Arr1.ofList (meshP self))) with
          | none => none
          | some pers_imgs_1 =>
          some pers_imgs_1) with
    | none => none
    | some pers_imgs_2 =>
    if singular then
      match pers_imgs_2[0]? with
      | none => none
      | some pers_imgs_4 =>
      some (.image pers_imgs_4)
    else
      some (.images pers_imgs_2)

/-- `PersistenceImager.fit_transform(pers_dgms, skew)`: the state after the call and what it returns (`.error`: `fit` raises) -/
def fit_transform (tr : State α → (α → α → WP → α) → WP → Kernel α KP → KP → Input α → Bool → Option Nat →
    Option (Output (Image.Mat α))) (ceil : α → Int) (copy : Input α → Input α) (self : State α) (weight : α → α → WP → α) (weight_params : WP) (kernel : Kernel α KP) (kernel_params : KP) (pers_dgms : Input α) (skew : Bool) :
    Except PersimVerif.Imager.Err (State α × Option (Output (Image.Mat α))) :=
  let pers_dgms_1 : Input α := copy pers_dgms
  match PersimVerif.Imager.fit ceil self skew pers_dgms_1 with
  | .error e => .error e
  | .ok self_1 =>
  let pers_imgs : Option (Output (Image.Mat α)) := tr self_1 weight weight_params kernel kernel_params pers_dgms_1 skew none
  .ok (self_1, pers_imgs)

end
end Ref

/-! ## part 3: the reviewed text against the models -/

section transformOne
open PersimVerif.Image
set_option linter.unusedSectionVars false
variable {α WP KP : Type} [Add α] [Sub α] [Mul α] [Div α] [Zero α] [BEq α]

/-- the model's `KernelChoice` of a kernel callable and its `sigma` -/
def kernelChoice (isGaussian : Bool) (σ : Sigma α) : KernelChoice α :=
  if isGaussian then .gaussian σ else .other

/-- a loop `for i in range(len(l))` whose body reads `l[i]` is the loop over `l` -/
theorem range_foldlM {β γ : Type} (l : List β) (f : γ → Nat → Option γ) (step : γ → β → Option γ)
    (hf : ∀ acc i x, l[i]? = some x → f acc i = step acc x) (acc : γ) :
    (List.range l.length).foldlM f acc = l.foldlM step acc := by
  induction l generalizing f acc with
  | nil => rfl
  | cons x t ih =>
    rw [List.length_cons, List.range_succ_eq_map, List.foldlM_cons, List.foldlM_cons, hf acc 0 x rfl]
    cases step acc x with
    | none => rfl
    | some acc' =>
      simp only [Option.bind_eq_bind, Option.bind_some, List.foldlM_map]
      exact ih (fun a i => f a (i + 1)) (fun a i y h => hf a (i + 1) y (by simpa using h)) acc'

/-- what a round reads at index `i`: the row and its weight -/
theorem reads_of_withWeights (w : Pt α → α) (bp : List (Pt α)) (i : Nat) (x : Pt α × α)
    (h : (withWeights w bp)[i]? = some x) : bp[i]? = some x.1 ∧ (bp.map w)[i]? = some x.2 := by
  simp only [withWeights, List.getElem?_map, Option.map_eq_some_iff] at h
  obtain ⟨p, hp, rfl⟩ := h
  simp [hp]

/-- one round of the isotropic loop on the entry-wise image, given the row and its weight -/
def fastBody (Φ : α → α) (s : α) (B P : Arr1 α) (img : Arr2 α) (t : α × α) (w : α) : Option (Arr2 α) :=
  Arr2.iadd? img ⟨B.n - 1, P.n - 1, fun a b => w * (Φ ((P.get (b + 1) - t.2) / s) * Φ ((B.get (a + 1) - t.1) / s)
    - Φ ((P.get (b + 1) - t.2) / s) * Φ ((B.get a - t.1) / s) - Φ ((P.get b - t.2) / s) * Φ ((B.get (a + 1) - t.1) / s)
    + Φ ((P.get b - t.2) / s) * Φ ((B.get a - t.1) / s))⟩

theorem fast_round_eq (Φ : α → α) (s : α) (B P : Arr1 α) (w : Pt α → α) (bp : List (Pt α)) (img : Arr2 α) (i : Nat)
    (x : Pt α × α) (h : (withWeights w bp)[i]? = some x) :
    Ref.fast_round Φ bp B P (bp.map w) s img i = fastBody Φ s B P img x.1 x.2 := by
  obtain ⟨h1, h2⟩ := reads_of_withWeights w bp i x h
  simp only [Ref.fast_round, h1, h2, fastBody]
  cases Arr2.iadd? img _ <;> rfl

/-- one round of the general loop on the entry-wise image, given the two flat coordinate lists -/
def generalBody (call : α × α → List α → List α → List α) (resolution : Int × Int) (bbL ppL : List α) (img : Arr2 α)
    (t : α × α) (w : α) : Option (Arr2 α) :=
  match (Arr1.ofList (call t bbL ppL)).reshape? (resolution.1 + 1) (resolution.2 + 1) with
  | none => none
  | some curr_img =>
    Arr2.iadd? img ⟨curr_img.r - 1, curr_img.c - 1, fun a b => w * (curr_img.get (a + 1) (b + 1)
      - curr_img.get a (b + 1) - curr_img.get (a + 1) b + curr_img.get a b)⟩

theorem general_round_eq (resolution : Int × Int) (kernel : Kernel α KP) (kp : KP) (bb pp : Arr1 α) (w : Pt α → α)
    (bp : List (Pt α)) (img : Arr2 α) (i : Nat) (x : Pt α × α) (h : (withWeights w bp)[i]? = some x) :
    Ref.general_round bp resolution kernel kp (bp.map w) bb pp img i
      = generalBody (kernel.call kp) resolution bb.toList pp.toList img x.1 x.2 := by
  obtain ⟨h1, h2⟩ := reads_of_withWeights w bp i x h
  simp only [Ref.general_round, h1, h2, generalBody]
  cases (Arr1.ofList (kernel.call kp x.1 bb.toList pp.toList)).reshape? (resolution.1 + 1) (resolution.2 + 1) with
  | none => rfl
  | some c => simp only []; cases Arr2.iadd? img _ <;> rfl

/-- the entries of the image after one round of the isotropic loop -/
def fastEntry (Φ : α → α) (s : α) (bs ps : List α) (g : Nat → Nat → α) (t : α × α) (w : α) : Nat → Nat → α :=
  fun a b => g a b + w * (Φ ((ps.getD (b + 1) 0 - t.2) / s) * Φ ((bs.getD (a + 1) 0 - t.1) / s)
    - Φ ((ps.getD (b + 1) 0 - t.2) / s) * Φ ((bs.getD a 0 - t.1) / s)
    - Φ ((ps.getD b 0 - t.2) / s) * Φ ((bs.getD (a + 1) 0 - t.1) / s)
    + Φ ((ps.getD b 0 - t.2) / s) * Φ ((bs.getD a 0 - t.1) / s))

theorem fastBody_step (Φ : α → α) (s : α) {rx ry : Nat} {bs ps : List α} (h : meshOk rx ry bs ps)
    (g : Nat → Nat → α) (pw : Pt α × α) :
    fastBody Φ s (Arr1.ofList bs) (Arr1.ofList ps) ⟨rx, ry, g⟩ pw.1 pw.2
        = some ⟨rx, ry, fastEntry Φ s bs ps g pw.1 pw.2⟩ ∧
      Arr2.toMat ⟨rx, ry, fastEntry Φ s bs ps g pw.1 pw.2⟩ = fastStep Φ s bs ps (Arr2.toMat ⟨rx, ry, g⟩) pw := by
  obtain ⟨hb, hp⟩ := h
  constructor
  · simp only [fastBody, Arr2.iadd?, Arr1.ofList, hb, hp, Nat.add_sub_cancel, and_self, if_true]
    rfl
  · have hc : ((bs.map fun b => Φ ((b - pw.1.1) / s)).map fun x => (ps.map fun p => Φ ((p - pw.1.2) / s)).map fun y => y * x)
        = Arr2.toMat ⟨rx + 1, ry + 1, fun a b => Φ ((ps.getD b 0 - pw.1.2) / s) * Φ ((bs.getD a 0 - pw.1.1) / s)⟩ := by
      simp only [Arr2.toMat, List.map_map, Function.comp_def]
      rw [map_eq_range_getD _ bs 0, hb]
      apply List.map_congr_left
      intro i _
      rw [map_eq_range_getD _ ps 0, hp]
    simp only [fastStep, hc, accumulate_toMat]
    rfl

/-- the isotropic loop: it never raises on a mesh of `resolution + 1` points, and its image is the model's fold -/
theorem fast_fold (Φ : α → α) (s : α) {rx ry : Nat} {bs ps : List α} (h : meshOk rx ry bs ps) :
    ∀ (pws : List (Pt α × α)) (g : Nat → Nat → α),
      ∃ g', pws.foldlM (fun img pw => fastBody Φ s (Arr1.ofList bs) (Arr1.ofList ps) img pw.1 pw.2) ⟨rx, ry, g⟩
            = some ⟨rx, ry, g'⟩ ∧
          Arr2.toMat ⟨rx, ry, g'⟩ = pws.foldl (fastStep Φ s bs ps) (Arr2.toMat ⟨rx, ry, g⟩) := by
  intro pws
  induction pws with
  | nil => intro g; exact ⟨g, rfl, rfl⟩
  | cons pw t ih =>
    intro g
    obtain ⟨h1, h2⟩ := fastBody_step Φ s h g pw
    obtain ⟨g', h3, h4⟩ := ih (fastEntry Φ s bs ps g pw.1 pw.2)
    refine ⟨g', ?_, ?_⟩
    · rw [List.foldlM_cons, h1]; exact h3
    · rw [List.foldl_cons, ← h2]; exact h4

theorem toNat_succ (n : Nat) : ((n : Int) + 1).toNat = n + 1 := by omega

/-- the flat array of kernel values the general loop reshapes, for one row -/
def kernelValues (call : α × α → List α → List α → List α) (bs ps : List α) (t : α × α) : List α :=
  call t (Arr1.toList ⟨bs.length * ps.length, fun k => bs.getD (k / ps.length) 0⟩)
    (Arr1.toList ⟨bs.length * ps.length, fun k => ps.getD (k % ps.length) 0⟩)

/-- the entries of the image after one round of the general loop -/
def generalEntry (v : List α) (ry : Nat) (g : Nat → Nat → α) (w : α) : Nat → Nat → α :=
  fun a b => g a b + w * (v.getD ((a + 1) * (ry + 1) + (b + 1)) 0 - v.getD (a * (ry + 1) + (b + 1)) 0
    - v.getD ((a + 1) * (ry + 1) + b) 0 + v.getD (a * (ry + 1) + b) 0)

theorem generalBody_step (call : α × α → List α → List α → List α) (rx ry : Nat) (bs ps : List α)
    (g : Nat → Nat → α) (pw : Pt α × α) :
    if (kernelValues call bs ps pw.1).length = (rx + 1) * (ry + 1) then
      generalBody call ((rx : Int), (ry : Int)) (Arr1.toList ⟨bs.length * ps.length, fun k => bs.getD (k / ps.length) 0⟩)
            (Arr1.toList ⟨bs.length * ps.length, fun k => ps.getD (k % ps.length) 0⟩) ⟨rx, ry, g⟩ pw.1 pw.2
          = some ⟨rx, ry, generalEntry (kernelValues call bs ps pw.1) ry g pw.2⟩ ∧
        generalStep call rx ry (flatMesh bs ps).1 (flatMesh bs ps).2 (Arr2.toMat ⟨rx, ry, g⟩) pw
          = .ok (Arr2.toMat ⟨rx, ry, generalEntry (kernelValues call bs ps pw.1) ry g pw.2⟩)
    else
      generalBody call ((rx : Int), (ry : Int)) (Arr1.toList ⟨bs.length * ps.length, fun k => bs.getD (k / ps.length) 0⟩)
            (Arr1.toList ⟨bs.length * ps.length, fun k => ps.getD (k % ps.length) 0⟩) ⟨rx, ry, g⟩ pw.1 pw.2 = none ∧
        generalStep call rx ry (flatMesh bs ps).1 (flatMesh bs ps).2 (Arr2.toMat ⟨rx, ry, g⟩) pw = .error .reshape := by
  have hn1 : ¬ (((rx : Int) + 1 < 0) ∨ ((ry : Int) + 1 < 0)) := by omega
  split
  · next hl =>
    simp only [kernelValues] at hl
    constructor
    · simp only [generalBody, Arr1.reshape?, hn1, if_false, toNat_succ, Arr1.ofList, hl, if_true, Arr2.iadd?,
        Nat.add_sub_cancel, and_self]
      rfl
    · simp only [generalStep, reshape?, flatMesh_fst, flatMesh_snd, hl, if_true, reshapeC_eq_toMat _ _ _ hl,
        bind, Except.bind, pure, Except.pure, accumulate_toMat]
      rfl
  · next hl =>
    simp only [kernelValues] at hl
    constructor
    · simp only [generalBody, Arr1.reshape?, hn1, if_false, toNat_succ, Arr1.ofList, hl]
    · simp only [generalStep, reshape?, flatMesh_fst, flatMesh_snd, hl, if_false]
      rfl

/-- the general loop: it raises exactly where the model's does (`Err.reshape`), else its image is the model's -/
theorem general_fold (call : α × α → List α → List α → List α) (rx ry : Nat) (bs ps : List α) :
    ∀ (pws : List (Pt α × α)) (g : Nat → Nat → α),
      (pws.foldlM (fun img pw => generalBody call ((rx : Int), (ry : Int))
            (Arr1.toList ⟨bs.length * ps.length, fun k => bs.getD (k / ps.length) 0⟩)
            (Arr1.toList ⟨bs.length * ps.length, fun k => ps.getD (k % ps.length) 0⟩) img pw.1 pw.2) ⟨rx, ry, g⟩).map Arr2.toMat
        = (pws.foldlM (generalStep call rx ry (flatMesh bs ps).1 (flatMesh bs ps).2) (Arr2.toMat ⟨rx, ry, g⟩)).toOption := by
  intro pws
  induction pws with
  | nil => intro g; rfl
  | cons pw t ih =>
    intro g
    have hs := generalBody_step call rx ry bs ps g pw
    split at hs
    · obtain ⟨h1, h2⟩ := hs
      rw [List.foldlM_cons, List.foldlM_cons, h1, h2]
      exact ih _
    · obtain ⟨h1, h2⟩ := hs
      rw [List.foldlM_cons, List.foldlM_cons, h1, h2]
      rfl

theorem zeros_nat (rx ry : Nat) : Arr2.zeros? (α := α) (rx : Int) (ry : Int) = some ⟨rx, ry, fun _ _ => 0⟩ := by
  have h : ¬ (((rx : Int) < 0) ∨ ((ry : Int) < 0)) := by omega
  simp only [Arr2.zeros?, h, if_false, Int.toNat_natCast]

theorem length_withWeights (w : Pt α → α) (bp : List (Pt α)) : (withWeights w bp).length = bp.length := by
  simp [withWeights]

/-- the isotropic loop of the reviewed text, from the zero image -/
theorem fast_loop (Φ : α → α) (s : α) {rx ry : Nat} {bs ps : List α} (h : meshOk rx ry bs ps) (w : Pt α → α)
    (bp : List (Pt α)) :
    ∃ g', (List.range bp.length).foldlM (Ref.fast_round Φ bp (Arr1.ofList bs) (Arr1.ofList ps) (bp.map w) s)
          ⟨rx, ry, fun _ _ => 0⟩ = some ⟨rx, ry, g'⟩ ∧
        Arr2.toMat ⟨rx, ry, g'⟩ = (withWeights w bp).foldl (fastStep Φ s bs ps) (zeros rx ry) := by
  have h0 := range_foldlM (withWeights w bp) (Ref.fast_round Φ bp (Arr1.ofList bs) (Arr1.ofList ps) (bp.map w) s)
    (fun img pw => fastBody Φ s (Arr1.ofList bs) (Arr1.ofList ps) img pw.1 pw.2)
    (fun acc i x hx => fast_round_eq Φ s _ _ w bp acc i x hx) ⟨rx, ry, fun _ _ => 0⟩
  rw [length_withWeights] at h0
  obtain ⟨g', h1, h2⟩ := fast_fold Φ s h (withWeights w bp) (fun _ _ => 0)
  exact ⟨g', h0.trans h1, by rw [h2, zeros_eq_toMat]⟩

/-- the general loop of the reviewed text, from the zero image -/
theorem general_loop (kernel : Kernel α KP) (kp : KP) (rx ry : Nat) (bs ps : List α) (w : Pt α → α) (bp : List (Pt α)) :
    ((List.range bp.length).foldlM (Ref.general_round bp ((rx : Int), (ry : Int)) kernel kp (bp.map w)
          ⟨bs.length * ps.length, fun k => bs.getD (k / ps.length) 0⟩
          ⟨bs.length * ps.length, fun k => ps.getD (k % ps.length) 0⟩) ⟨rx, ry, fun _ _ => 0⟩).map Arr2.toMat
      = ((withWeights w bp).foldlM (generalStep (kernel.call kp) rx ry (flatMesh bs ps).1 (flatMesh bs ps).2)
          (zeros rx ry)).toOption := by
  have h0 := range_foldlM (withWeights w bp) (Ref.general_round bp ((rx : Int), (ry : Int)) kernel kp (bp.map w)
      ⟨bs.length * ps.length, fun k => bs.getD (k / ps.length) 0⟩
      ⟨bs.length * ps.length, fun k => ps.getD (k % ps.length) 0⟩)
    (fun img pw => generalBody (kernel.call kp) ((rx : Int), (ry : Int))
      (Arr1.toList ⟨bs.length * ps.length, fun k => bs.getD (k / ps.length) 0⟩)
      (Arr1.toList ⟨bs.length * ps.length, fun k => ps.getD (k % ps.length) 0⟩) img pw.1 pw.2)
    (fun acc i x hx => general_round_eq _ kernel kp _ _ w bp acc i x hx) ⟨rx, ry, fun _ _ => 0⟩
  rw [length_withWeights] at h0
  rw [h0, zeros_eq_toMat]
  exact general_fold (kernel.call kp) rx ry bs ps (withWeights w bp) _

theorem toBP_eq (skew : Bool) (dgm : List (Pt α)) :
    (if skew = true then dgm.map (fun r => (r.1, r.2 - r.1)) else dgm) = toBP skew dgm := rfl

theorem length_toBP (skew : Bool) (dgm : List (Pt α)) : (toBP skew dgm).length = dgm.length := by
  unfold toBP; split <;> simp

theorem match_match_toMat (F : Option (Arr2 α)) :
    (match (match F with | none => none | some x => some x : Option (Arr2 α)) with
      | none => none
      | some y => some (Arr2.toMat y)) = F.map Arr2.toMat := by
  cases F <;> rfl

/-- **`_transform` is the model's `transformOne`** on a mesh of `resolution + 1` points per axis: for every diagram,
    `skew`, weight, kernel and `sigma` (both paths and the dispatch between them; `none` is the model's `Err.reshape`) -/
theorem transformOne_eq_model (sqrt Φ : α → α) (kp_sigma : KP → Sigma α) (dgm : List (α × α)) (skew : Bool) (rx ry : Nat)
    (weight : α → α → WP → α) (wp : WP) (kernel : Kernel α KP) (kp : KP) (bs ps : List α) (h : meshOk rx ry bs ps) :
    Ref._transform sqrt Φ kp_sigma dgm skew ((rx : Int), (ry : Int)) weight wp kernel kp (Arr1.ofList bs) (Arr1.ofList ps)
      = (transformOne sqrt Φ (fun p => weight p.1 p.2 wp) (kernelChoice kernel.isGaussian (kp_sigma kp)) (kernel.call kp)
          rx ry bs ps skew dgm).toOption := by
  -- the general path, whatever sent the computation there
  have hgen : ∀ w : Pt α → α,
      ((List.range (toBP skew dgm).length).foldlM (Ref.general_round (toBP skew dgm) ((rx : Int), (ry : Int)) kernel kp
          ((toBP skew dgm).map w) ⟨bs.length * ps.length, fun k => bs.getD (k / ps.length) 0⟩
          ⟨bs.length * ps.length, fun k => ps.getD (k % ps.length) 0⟩) ⟨rx, ry, fun _ _ => 0⟩).map Arr2.toMat
      = (generalPath (kernel.call kp) rx ry bs ps (withWeights w (toBP skew dgm))).toOption := by
    intro w
    simp only [generalPath, h, if_true, ← general_loop kernel kp rx ry bs ps w (toBP skew dgm)]
  unfold Ref._transform transformOne
  simp only [zeros_nat, toBP_eq, ← length_toBP skew dgm]
  cases hk : kernel.isGaussian with
  | false =>
    simp only [kernelChoice, dispatch, Bool.false_eq_true, ↓reduceIte]
    exact (match_match_toMat _).trans (hgen _)
  | true =>
    simp only [kernelChoice, ↓reduceIte, dispatch]
    cases hσ : kp_sigma kp with
    | scalar s0 =>
      simp only [Sigma.toMatrix]
      by_cases hc : (s0 == s0 && (0 : α) == 0) = true
      · simp only [hc, ↓reduceIte]
        obtain ⟨g', h1, h2⟩ := fast_loop Φ (sqrt s0) h (fun p => weight p.1 p.2 wp) (toBP skew dgm)
        simp only [h1, Bool.false_eq_true, ↓reduceIte, fastPath, h, ← h2]
        rfl
      · simp only [hc, Bool.false_eq_true, ↓reduceIte]
        exact (match_match_toMat _).trans (hgen _)
    | matrix s00 s01 s10 s11 =>
      simp only [Sigma.toMatrix]
      by_cases hc : (s00 == s11 && s01 == 0) = true
      · simp only [hc, ↓reduceIte]
        obtain ⟨g', h1, h2⟩ := fast_loop Φ (sqrt s00) h (fun p => weight p.1 p.2 wp) (toBP skew dgm)
        simp only [h1, Bool.false_eq_true, ↓reduceIte, fastPath, h, ← h2]
        rfl
      · simp only [hc, Bool.false_eq_true, ↓reduceIte]
        exact (match_match_toMat _).trans (hgen _)

/-- `np.zeros` of a negative dimension raises -/
theorem transformOne_neg_resolution (sqrt Φ : α → α) (kp_sigma : KP → Sigma α) (dgm : List (α × α)) (skew : Bool)
    (resolution : Int × Int) (weight : α → α → WP → α) (wp : WP) (kernel : Kernel α KP) (kp : KP) (B P : Arr1 α)
    (h : resolution.1 < 0 ∨ resolution.2 < 0) :
    Ref._transform sqrt Φ kp_sigma dgm skew resolution weight wp kernel kp B P = none := by
  simp only [Ref._transform, Arr2.zeros?, h, if_true]

/-- non-vacuity of the hypothesis: a mesh of 3 × 2 corners for a resolution of 2 × 1 -/
example : meshOk 2 1 ([0, 1, 2] : List Int) [0, 1] := ⟨rfl, rfl⟩

/-- the reviewed text computes (general path, `Int` arithmetic, kernel `(x - μ₁)(y - μ₂)`, weight = persistence): one point
    `(0, 1)` on the corners `{0,1,2} × {0,1}` puts `1` in each of the two pixels -/
example : Ref._transform (α := Int) (WP := Unit) (KP := Unit) id id (fun _ => .scalar 1) [(0, 1)] true (2, 1)
    (fun _ p _ => p) () ⟨false, fun _ t bb pp => List.zipWith (fun x y => (x - t.1) * (y - t.2)) bb pp⟩ ()
    (Arr1.ofList [0, 1, 2]) (Arr1.ofList [0, 1]) = some [[1], [1]] := by decide

/-- … and on the isotropic path (`sigma = 1`, `Φ = id`, `sqrt = id`) the same image, as the outer product of the 1-D tables -/
example : Ref._transform (α := Int) (WP := Unit) (KP := Unit) id id (fun _ => .scalar 1) [(0, 1)] true (2, 1)
    (fun _ p _ => p) () ⟨true, fun _ _ _ _ => []⟩ ()
    (Arr1.ofList [0, 1, 2]) (Arr1.ofList [0, 1]) = some [[1], [1]] := by decide

/-- a kernel that returns a wrong number of values makes `np.reshape` raise -/
example : Ref._transform (α := Int) (WP := Unit) (KP := Unit) id id (fun _ => .scalar 1) [(0, 1)] true (2, 1)
    (fun _ p _ => p) () ⟨false, fun _ _ _ _ => [1, 2, 3]⟩ ()
    (Arr1.ofList [0, 1, 2]) (Arr1.ofList [0, 1]) = none := by decide

end transformOne

section methods
open PersimVerif.Imager PersimVerif.Transformers
set_option linter.unusedSectionVars false
variable {α WP KP : Type} [Add α] [Sub α] [Mul α] [Div α] [Zero α] [OfNat α 2] [IntCast α]
  [LT α] [DecidableLT α] [DecidableEq α] [BEq α]

/-- `np.zeros(self.resolution)` as an image (`none`: a negative dimension raises) -/
def npZeros (rx ry : Int) : Option (Image.Mat α) := (Arr2.zeros? rx ry).map Arr2.toMat

/-- the first exception among the images of an output is the exception of the call -/
def seqOutput {β : Type} : Output (Option β) → Option (Output β)
  | .image i => i.map .image
  | .images l => (l.mapM fun x => x).map .images

theorem mapM_map_id {β γ : Type} (f : β → Option γ) (l : List β) : (l.map f).mapM (fun x => x) = l.mapM f := by
  induction l with
  | nil => rfl
  | cons a t ih => simp only [List.map_cons, List.mapM_cons, ih]

/-- **`transform` is C18's model**, for every state, input, `skew` and `n_jobs`, whatever the worker `one` is -/
theorem transform_eq_model (one : List (α × α) → Bool → Int × Int → (α → α → WP → α) → WP → Kernel α KP → KP → Arr1 α →
      Arr1 α → Option (Image.Mat α)) (self : State α) (weight : α → α → WP → α) (wp : WP) (kernel : Kernel α KP) (kp : KP)
    (X : Input α) (skew : Bool) (n_jobs : Option Nat) :
    Ref.transform one self weight wp kernel kp X skew n_jobs =
      seqOutput (imagerTransform (fun s sk d => one d sk (s.rx, s.ry) weight wp kernel kp (Arr1.ofList (meshB s))
        (Arr1.ofList (meshP s))) npZeros self skew X) := by
  match X with
  | .single [] =>
    simp only [Ref.transform, inputLen, List.length_nil, BEq.rfl, if_true, imagerTransform, seqOutput, npZeros]
    cases Arr2.zeros? (α := α) self.rx self.ry <;> rfl
  | .coll [] =>
    simp only [Ref.transform, inputLen, List.length_nil, BEq.rfl, if_true, imagerTransform, seqOutput, npZeros]
    cases Arr2.zeros? (α := α) self.rx self.ry <;> rfl
  | .single (p :: t) =>
    have hl : (inputLen (Input.single (p :: t)) == 0) = false := by simp [inputLen]
    simp only [Ref.transform, hl, Bool.false_eq_true, if_false, ensureIterable, imagerTransform, seqOutput]
    cases n_jobs <;>
      simp only [Option.isSome, Bool.false_eq_true, if_true, if_false, List.mapM_cons, List.mapM_nil] <;>
      cases one (p :: t) skew (self.rx, self.ry) weight wp kernel kp (Arr1.ofList (meshB self)) (Arr1.ofList (meshP self)) <;> rfl
  | .coll (d :: ds) =>
    have hl : (inputLen (Input.coll (d :: ds)) == 0) = false := by simp [inputLen]
    simp only [Ref.transform, hl, Bool.false_eq_true, if_false, ensureIterable, imagerTransform, seqOutput, mapM_map_id]
    cases n_jobs <;>
      simp only [Option.isSome, Bool.false_eq_true, if_true, if_false] <;>
      cases List.mapM (fun pers_dgm => one pers_dgm skew (self.rx, self.ry) weight wp kernel kp (Arr1.ofList (meshB self))
        (Arr1.ofList (meshP self))) (d :: ds) <;> rfl

/-- the mesh of a state with a non-negative resolution has `resolution + 1` points per axis -/
theorem meshOk_state (s : State α) (hx : 0 ≤ s.rx) (hy : 0 ≤ s.ry) :
    Image.meshOk s.rx.toNat s.ry.toNat (meshB s) (meshP s) := by
  constructor
  · simp only [meshB, linspace, List.length_map, List.length_range]; omega
  · simp only [meshP, linspace, List.length_map, List.length_range]; omega

theorem mapM_toOption {β γ ε : Type} (f : β → Except ε γ) (l : List β) :
    l.mapM (fun d => (f d).toOption) = (l.mapM f).toOption := by
  induction l with
  | nil => rfl
  | cons a t ih =>
    simp only [List.mapM_cons, ih]
    cases f a with
    | error e => rfl
    | ok b => cases List.mapM f t <;> rfl

theorem npZeros_nonneg (rx ry : Int) (hx : 0 ≤ rx) (hy : 0 ≤ ry) :
    (npZeros rx ry : Option (Image.Mat α)) = some (Image.zeros rx.toNat ry.toNat) := by
  have h : ¬ (rx < 0 ∨ ry < 0) := by omega
  simp only [npZeros, Arr2.zeros?, h, if_false, Option.map_some, zeros_eq_toMat]

/-- **`transform` is C04 / C11's model** `Image.transform` on a state of non-negative resolution, for every `n_jobs`, when
    the worker is the model's per-diagram image `oneM` (which `transformOne_eq_model` provides) -/
theorem transform_eq_image_model (one : List (α × α) → Bool → Int × Int → (α → α → WP → α) → WP → Kernel α KP → KP → Arr1 α →
      Arr1 α → Option (Image.Mat α)) (oneM : List (Image.Pt α) → Except Image.Err (Image.Mat α))
    (self : State α) (weight : α → α → WP → α) (wp : WP) (kernel : Kernel α KP) (kp : KP)
    (X : Input α) (skew : Bool) (n_jobs : Option Nat) (hx : 0 ≤ self.rx) (hy : 0 ≤ self.ry)
    (hone : ∀ d, one d skew ((self.rx.toNat : Int), (self.ry.toNat : Int)) weight wp kernel kp (Arr1.ofList (meshB self))
        (Arr1.ofList (meshP self)) = (oneM d).toOption) :
    (Ref.transform one self weight wp kernel kp X skew n_jobs).map ImageModels.toOutput =
      (Image.transform oneM self.rx.toNat self.ry.toNat n_jobs (ImageModels.toImage X)).toOption := by
  have hrx : ((self.rx.toNat : Int), (self.ry.toNat : Int)) = (self.rx, self.ry) := by
    rw [Int.toNat_of_nonneg hx, Int.toNat_of_nonneg hy]
  rw [hrx] at hone
  rw [transform_eq_model]
  match X with
  | .single [] =>
    simp only [imagerTransform, seqOutput, npZeros_nonneg (α := α) self.rx self.ry hx hy]
    rfl
  | .coll [] =>
    simp only [imagerTransform, seqOutput, npZeros_nonneg (α := α) self.rx self.ry hx hy]
    rfl
  | .single (p :: t) =>
    have he : Image.ensureIterable (Image.Input.dgm (p :: t)) = ([p :: t], true) := rfl
    simp only [imagerTransform, seqOutput, hone, ImageModels.toImage, Image.transform, Image.Input.len,
      List.length_cons, Nat.add_one_ne_zero, if_false, he, List.mapM_cons, List.mapM_nil]
    cases n_jobs <;> cases oneM (p :: t) <;> rfl
  | .coll (d :: ds) =>
    have he : Image.ensureIterable (Image.Input.coll (d :: ds)) = (d :: ds, false) := by
      cases d <;> rfl
    simp only [imagerTransform, seqOutput, hone, mapM_map_id, mapM_toOption, ImageModels.toImage, Image.transform,
      Image.Input.len, List.length_cons, Nat.add_one_ne_zero, if_false, he]
    cases n_jobs <;> simp only [] <;> cases List.mapM oneM (d :: ds) <;> rfl

/-- **`fit_transform` is C18's model**: `deepcopy`, the model's `fit`, then `transform` of the copy with the same `skew`
    on the fitted state, when `tr` with `n_jobs = None` is the model's `transform` (which `transform_eq_model` provides) -/
theorem fit_transform_eq_model (tr : State α → (α → α → WP → α) → WP → Kernel α KP → KP → Input α → Bool → Option Nat →
      Option (Output (Image.Mat α))) (img : State α → Bool → Dgm α → Option (Image.Mat α))
    (ceil : α → Int) (copy : Input α → Input α) (self : State α) (weight : α → α → WP → α) (wp : WP)
    (kernel : Kernel α KP) (kp : KP) (X : Input α) (skew : Bool)
    (htr : ∀ s X sk, tr s weight wp kernel kp X sk none = seqOutput (imagerTransform img npZeros s sk X)) :
    Ref.fit_transform tr ceil copy self weight wp kernel kp X skew =
      (imagerFitTransform ceil img npZeros copy self skew X).map fun r => (r.1, seqOutput r.2) := by
  simp only [Ref.fit_transform, imagerFitTransform, htr]
  cases Imager.fit ceil self skew (copy X) <;> rfl

end methods
end PersimVerif.SrcBridge.Image
