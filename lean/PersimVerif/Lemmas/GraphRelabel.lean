import PersimVerif.Lemmas.GraphBFS
/-!
  C17 helper lemmas, part 3 (core Lean only): principal sub-matrices / relabellings.
  `sub d p M` is `M[p][:, p]`.  The undirected adjacency commutes with it for every index list, the BFS
  matrix commutes with it when `p` is a permutation of the vertices.
-/
namespace PersimVerif.Graph

@[simp] theorem length_sub {α : Type} (d : α) (idx : List Nat) (M : List (List α)) :
    (sub d idx M).length = idx.length := by simp [sub]

theorem row_length_sub {α : Type} (d : α) (idx : List Nat) (M : List (List α)) :
    ∀ r ∈ sub d idx M, r.length = idx.length := by
  intro r hr
  simp only [sub, List.mem_map] at hr
  obtain ⟨i, _, rfl⟩ := hr
  simp

theorem sub_eq_tab {α : Type} (d : α) (idx : List Nat) (M : List (List α)) :
    sub d idx M = tab idx.length idx.length fun a b => ent d M (idx.getD a 0) (idx.getD b 0) := by
  refine mat_ext d (n := idx.length) (m := idx.length) _ _ (by simp) (by simp) (row_length_sub d idx M)
    (row_length_tab _) ?_
  intro a b ha hb
  rw [ent_tab d _ ha hb]
  simp [ent, sub, List.getD_eq_getElem?_getD, List.getElem?_map, List.getElem?_eq_getElem ha,
    List.getElem?_eq_getElem hb]

theorem ent_sub {α : Type} (d : α) (idx : List Nat) (M : List (List α)) {a b : Nat}
    (ha : a < idx.length) (hb : b < idx.length) :
    ent d (sub d idx M) a b = ent d M (idx.getD a 0) (idx.getD b 0) := by
  rw [sub_eq_tab, ent_tab d _ ha hb]

theorem ent_sub_ge {α : Type} (d : α) (idx : List Nat) (M : List (List α)) {a b : Nat}
    (h : idx.length ≤ a ∨ idx.length ≤ b) : ent d (sub d idx M) a b = d := by
  rw [sub_eq_tab]
  rcases h with h | h
  · exact ent_tab_of_ge_left d _ h
  · exact ent_tab_of_ge_right d _ h

/-- a square matrix restricted to all its indices in order is itself -/
theorem sub_range_self {α : Type} (d : α) (M : List (List α)) (n : Nat) (hn : M.length = n)
    (hr : ∀ r ∈ M, r.length = n) : sub d (List.range n) M = M := by
  refine mat_ext d (n := n) (m := n) _ _ (by simp) hn ?_ hr ?_
  · intro r h; simpa using row_length_sub d (List.range n) M r h
  · intro i j hi hj
    rw [ent_sub d _ _ (by simpa using hi) (by simpa using hj)]
    simp [List.getD_eq_getElem?_getD, hi, hj]

theorem getD_lt_of_forall {idx : List Nat} {n : Nat} (h : ∀ x ∈ idx, x < n) {a : Nat} (ha : a < idx.length) :
    idx.getD a 0 < n := by
  have : idx.getD a 0 = idx[a] := by simp [List.getD_eq_getElem?_getD, List.getElem?_eq_getElem ha]
  rw [this]
  exact h _ (List.getElem_mem ha)

/-- the adjacency of a principal sub-matrix is the principal sub-matrix of the adjacency -/
theorem adjOf_sub (A : Mat) (idx : List Nat) (h : ∀ x ∈ idx, x < A.length) :
    adjOf (sub 0 idx A) = sub false idx (adjOf A) := by
  refine mat_ext false (n := idx.length) (m := idx.length) _ _ (by simp) (by simp) ?_ (row_length_sub _ _ _) ?_
  · intro r hr
    have := row_length_tab (n := (sub 0 idx A).length) (m := (sub 0 idx A).length)
      (fun i j => entry (sub 0 idx A) i j != 0 || entry (sub 0 idx A) j i != 0) r hr
    simpa using this
  · intro a b ha hb
    rw [ent_adjOf _ (by simpa using ha) (by simpa using hb), ent_sub false _ _ ha hb,
      ent_adjOf A (getD_lt_of_forall h ha) (getD_lt_of_forall h hb)]
    simp only [entry]
    rw [ent_sub 0 _ _ ha hb, ent_sub 0 _ _ hb ha]

/-! ### relabelling by a permutation -/

section perm
variable (rows : BMat) (p : List Nat) (hp : p.Perm (List.range rows.length))
include hp

theorem perm_length : p.length = rows.length := by simpa using hp.length_eq

theorem perm_lt {i : Nat} (hi : i < rows.length) : p.getD i 0 < rows.length :=
  getD_lt_of_forall (fun x hx => List.mem_range.1 (hp.mem_iff.1 hx)) (by rw [perm_length rows p hp]; exact hi)

theorem perm_inj {i j : Nat} (hi : i < rows.length) (hj : j < rows.length) (h : p.getD i 0 = p.getD j 0) :
    i = j := by
  have hi' : i < p.length := by rw [perm_length rows p hp]; exact hi
  have hj' : j < p.length := by rw [perm_length rows p hp]; exact hj
  have hnd : p.Nodup := hp.nodup_iff.2 List.nodup_range
  have e : p[i] = p[j] := by
    simpa [List.getD_eq_getElem?_getD, List.getElem?_eq_getElem hi', List.getElem?_eq_getElem hj'] using h
  exact (List.getElem_inj hnd).1 e

theorem perm_surj {b : Nat} (hb : b < rows.length) : ∃ j, j < rows.length ∧ p.getD j 0 = b := by
  have : b ∈ p := hp.mem_iff.2 (List.mem_range.2 hb)
  obtain ⟨j, hj, e⟩ := List.mem_iff_getElem.1 this
  refine ⟨j, by rw [← perm_length rows p hp]; exact hj, ?_⟩
  simp [List.getD_eq_getElem?_getD, List.getElem?_eq_getElem hj, e]

theorem adj_sub_iff (i j : Nat) :
    Adj (sub false p rows) i j ↔ i < rows.length ∧ j < rows.length ∧ Adj rows (p.getD i 0) (p.getD j 0) := by
  have hl := perm_length rows p hp
  by_cases hi : i < rows.length
  · by_cases hj : j < rows.length
    · unfold Adj
      rw [ent_sub false _ _ (by omega) (by omega)]
      simp [hi, hj]
    · unfold Adj
      rw [ent_sub_ge false _ _ (Or.inr (by omega))]
      simp [hj]
  · unfold Adj
    rw [ent_sub_ge false _ _ (Or.inl (by omega))]
    simp [hi]

theorem symm_sub (hs : Symm rows) : Symm (sub false p rows) := by
  intro i j
  have hl := perm_length rows p hp
  by_cases hi : i < rows.length
  · by_cases hj : j < rows.length
    · rw [ent_sub false _ _ (by omega) (by omega), ent_sub false _ _ (by omega) (by omega)]
      exact hs _ _
    · rw [ent_sub_ge false _ _ (Or.inr (by omega)), ent_sub_ge false _ _ (Or.inl (by omega))]
  · rw [ent_sub_ge false _ _ (Or.inl (by omega)), ent_sub_ge false _ _ (Or.inr (by omega))]

theorem walk_sub_forward {k i j : Nat} (hi : i < rows.length) (h : Walk (Adj (sub false p rows)) k i j) :
    j < rows.length ∧ Walk (Adj rows) k (p.getD i 0) (p.getD j 0) := by
  induction h with
  | refl => exact ⟨hi, .refl _⟩
  | step _ hr ih =>
    obtain ⟨_, hj, ha⟩ := (adj_sub_iff rows p hp _ _).1 hr
    exact ⟨hj, .step (ih hi).2 ha⟩

theorem walk_sub_backward (hs : Symm rows) {k i b : Nat} (hi : i < rows.length)
    (h : Walk (Adj rows) k (p.getD i 0) b) :
    ∃ j, j < rows.length ∧ p.getD j 0 = b ∧ Walk (Adj (sub false p rows)) k i j := by
  generalize ha : p.getD i 0 = a at h
  induction h with
  | refl => exact ⟨i, hi, ha, .refl _⟩
  | step hw hr ih =>
    obtain ⟨u', hu', eu, hw'⟩ := ih ha
    obtain ⟨j, hj, ej⟩ := perm_surj rows p hp (hr.lt_right hs)
    refine ⟨j, hj, ej, .step hw' ?_⟩
    exact (adj_sub_iff rows p hp _ _).2 ⟨hu', hj, by rw [eu, ej]; exact hr⟩

theorem walk_sub_iff (hs : Symm rows) {k i j : Nat} (hi : i < rows.length) (hj : j < rows.length) :
    Walk (Adj (sub false p rows)) k i j ↔ Walk (Adj rows) k (p.getD i 0) (p.getD j 0) := by
  constructor
  · exact fun h => (walk_sub_forward rows p hp hi h).2
  · intro h
    obtain ⟨j', hj', e, hw⟩ := walk_sub_backward rows p hp hs hi h
    have := perm_inj rows p hp hj' hj e
    rwa [this] at hw

/-- BFS distances commute with a relabelling of the vertices -/
theorem dist_sub (hs : Symm rows) {i j : Nat} (hi : i < rows.length) (hj : j < rows.length) :
    dist (sub false p rows) i j = dist rows (p.getD i 0) (p.getD j 0) := by
  have hl := perm_length rows p hp
  have hl' : (sub false p rows).length = rows.length := by simp [hl]
  apply Option.ext
  intro d
  rw [dist_eq_some_iff _ (symm_sub rows p hp hs) (by omega) (by omega),
    dist_eq_some_iff rows hs (perm_lt rows p hp hi) (perm_lt rows p hp hj)]
  unfold IsDist
  simp only [walk_sub_iff rows p hp hs hi hj]

theorem bfsAll_sub (hs : Symm rows) : bfsAll (sub false p rows) = sub none p (bfsAll rows) := by
  have hl := perm_length rows p hp
  refine mat_ext none (n := rows.length) (m := rows.length) _ _ (by simp [hl]) (by simp [hl]) ?_ ?_ ?_
  · intro r hr; simpa [hl] using row_length_bfsAll _ r hr
  · intro r hr; simpa [hl] using row_length_sub none p _ r hr
  · intro i j hi hj
    rw [ent_sub none _ _ (by omega) (by omega)]
    exact dist_sub rows p hp hs hi hj

end perm
end PersimVerif.Graph
