import PersimVerif.Model.Imager
import PersimVerif.Lemmas.SrcLib
/-
  Bridging lemmas between the translator's library (`SrcLib`) and `Model/Imager.lean`, used by the generated
  obligations of `Generated/SrcImager.lean` (C12).  Hand-written, about model and library definitions only
  (nothing here mentions a generated definition).  Import-free apart from the model.
-/
namespace PersimVerif.SrcBridge.Imager
open PersimVerif.Imager PersimVerif.SrcLib

section
variable {α : Type} [LT α] [DecidableLT α]

/-- `if x < acc: acc = x` on a running minimum that started at `np.inf` is the model's `updMin` -/
theorem updMin_eq (acc : Option α) (x : α) : (if ltTop x acc then some x else acc) = updMin acc x := by
  cases acc with
  | none => rfl
  | some a => simp only [ltTop, updMin]; by_cases h : x < a <;> simp [h]

/-- `if x > acc: acc = x` on a running maximum that started at `-np.inf` is the model's `updMax` -/
theorem updMax_eq (acc : Option α) (x : α) : (if gtBot x acc then some x else acc) = updMax acc x := by
  cases acc with
  | none => rfl
  | some a => simp only [gtBot, updMax]; by_cases h : a < x <;> simp [h]

theorem updMin_isSome (acc : Option α) (x : α) : (updMin acc x).isSome = true := by
  cases acc with
  | none => rfl
  | some a => simp only [updMin]; split <;> rfl

theorem updMax_isSome (acc : Option α) (x : α) : (updMax acc x).isSome = true := by
  cases acc with
  | none => rfl
  | some a => simp only [updMax]; split <;> rfl

variable [Sub α]

/-- all four running extremes are finite -/
def AllSome (e : Ext α) : Prop := e.minB.isSome ∧ e.maxB.isSome ∧ e.minP.isSome ∧ e.maxP.isSome

theorem scan_allSome (skew : Bool) (ds : List (Dgm α)) (e e' : Ext α) (he : AllSome e)
    (h : scan skew e ds = .ok e') : AllSome e' := by
  induction ds generalizing e with
  | nil => simp only [scan] at h; cases h; exact he
  | cons d ds ih =>
    simp only [scan] at h
    split at h
    · exact ih _ ⟨updMin_isSome _ _, updMax_isSome _ _, updMin_isSome _ _, updMax_isSome _ _⟩ h
    · cases h

/-- after one diagram every running extreme of `fit` is finite (they are all still infinite only when there was none) -/
theorem scan_cons_allSome (skew : Bool) (e : Ext α) (d : Dgm α) (ds : List (Dgm α)) (e' : Ext α)
    (h : scan skew e (d :: ds) = .ok e') : AllSome e' := by
  simp only [scan] at h
  split at h
  · exact scan_allSome skew ds _ _ ⟨updMin_isSome _ _, updMax_isSome _ _, updMin_isSome _ _, updMax_isSome _ _⟩ h
  · cases h

end
end PersimVerif.SrcBridge.Imager
