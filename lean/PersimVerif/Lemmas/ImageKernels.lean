import PersimVerif.Model.Image
import PersimVerif.Model.Kernels

/-!
# Bridge between the kernels of `Model/Image.lean` (C04/C11) and of `Model/Kernels.lean` (C13)

`Model/Image.lean` carries its own copies of the two kernels that need no quadrature (`uniformKernel`,
`prodKernel`: the driver evaluates whole images with them), `Model/Kernels.lean` is the model of
`persim/images_kernels.py` that C13's theorems are about.  They are the same functions up to the order
of the arguments — by `rfl`.  These equations let the CDF facts of C13 discharge the kernel hypotheses
of C04 (`hcdf`) and C11 (`hmass`).
-/
namespace PersimVerif.Image

/-- `Image.uniformKernel` is `Kernels.uniform` (arguments: evaluation point, centre, box sides) -/
theorem uniformKernel_eq_uniform {α : Type} [Sub α] [Mul α] [Div α] [Max α] [Min α] [Zero α] [OfNat α 2]
    (width height : α) (mu : Pt α) (x y : α) :
    uniformKernel width height mu x y = Kernels.uniform x y mu.1 mu.2 width height := rfl

/-- `Image.prodKernel` is `Kernels.sbvn` (the zero-covariance branch of `gaussian`) -/
theorem prodKernel_eq_sbvn {α : Type} [Sub α] [Mul α] [Div α] [Neg α] (sqrt Φ : α → α) (vx vy : α)
    (mu : Pt α) (x y : α) :
    prodKernel sqrt Φ vx vy mu x y = Kernels.sbvn Φ sqrt x y mu.1 mu.2 vx vy := rfl

/-- … hence the built-in `gaussian` with `sigma[0][1] = 0`, whatever its other branch -/
theorem prodKernel_eq_gaussian {α : Type} [Sub α] [Mul α] [Div α] [Neg α] [BEq α] [Zero α]
    (h00 : ((0 : α) == 0) = true) (sqrt Φ : α → α) (bvn : α → α → α → α → α → α → α → α) (vx vy : α)
    (mu : Pt α) (x y : α) :
    prodKernel sqrt Φ vx vy mu x y = Kernels.gaussian Φ sqrt bvn x y mu.1 mu.2 vx vy 0 := by
  simp only [Kernels.gaussian, h00, if_true]; rfl

end PersimVerif.Image
