import PersimVerif.Model.PLArith
import Mathlib.Algebra.Order.Field.Basic
import Mathlib.Tactic.Ring
import Mathlib.Tactic.Linarith
import Mathlib.Tactic.FieldSimp
import Mathlib.Tactic.LinearCombination

/-!
# Hinge representation of slope lists (helper lemmas for C09)

`hinge t prev S = Σ (m_i - m_{i-1}) * max 0 (t - x_i)` for a slope list `S = [(x_i, m_i)]`
(`m_{-1} = prev`).  In this representation the merge performed by `sum_slopes` is additive
(`hinge_sumSlopes`, no sortedness needed).
-/
namespace PersimVerif.PLArith
open PersimVerif.PL

set_option linter.unusedSectionVars false

variable {K : Type} [Field K] [LinearOrder K] [IsStrictOrderedRing K]

/-- `Σ (m_i - m_{i-1}) * max 0 (t - x_i)` -/
def hinge (t : K) : K → List (K × K) → K
  | _, [] => 0
  | prev, (x, m) :: r => (m - prev) * max 0 (t - x) + hinge t m r

@[simp] theorem hinge_nil (t p : K) : hinge t p [] = 0 := rfl
@[simp] theorem hinge_cons (t p x m : K) (r : List (K × K)) :
    hinge t p ((x, m) :: r) = (m - p) * max 0 (t - x) + hinge t m r := rfl

/-! ### equations of the model at `K` -/

theorem posToSlope_nil : posToSlope ([] : List (K × K)) = [] := by simp only [posToSlope]
theorem posToSlope_single (p : K × K) : posToSlope [p] = [(p.1, 0)] := by simp only [posToSlope]
theorem posToSlope_cons2 (p q : K × K) (r : List (K × K)) :
    posToSlope (p :: q :: r) =
      if q.1 = p.1 then posToSlope (q :: r)
      else (p.1, (q.2 - p.2) / (q.1 - p.1)) :: posToSlope (q :: r) := by simp only [posToSlope]

theorem slopeToPosAux_cons2 (y0 : K) (p q : K × K) (r : List (K × K)) :
    slopeToPosAux y0 (p :: q :: r) =
      (q.1, y0 + (q.1 - p.1) * p.2) :: slopeToPosAux (y0 + (q.1 - p.1) * p.2) (q :: r) := by
  simp only [slopeToPosAux]

theorem slopeToPos_cons (p : K × K) (r : List (K × K)) :
    slopeToPos (p :: r) = (p.1, 0) :: slopeToPosAux 0 (p :: r) := by simp only [slopeToPos]

/-- **Lemma A**: the merge of `sum_slopes` is additive in the hinge representation. -/
theorem hinge_sumSlopes (t : K) (a b : List (K × K)) (am bm : K) :
    hinge t (am + bm) (sumSlopes am bm a b) = hinge t am a + hinge t bm b := by
  fun_induction sumSlopes am bm a b with
  | case1 => simp
  | case2 am bm bx bm' b ih => simp only [hinge_cons, hinge_nil, ih]; ring
  | case3 am bm ax am' a ih => simp only [hinge_cons, hinge_nil, ih]; ring
  | case4 am bm ax am' a bx bm' b h ih => simp only [hinge_cons, ih]; ring
  | case5 am bm ax am' a bx bm' b h1 h2 ih => simp only [hinge_cons, ih]; ring
  | case6 am bm ax am' a bx bm' b h1 h2 ih =>
    have hx : ax = bx := le_antisymm (not_lt.mp h1) (not_lt.mp h2)
    simp only [hinge_cons, ih, hx]; ring

end PersimVerif.PLArith

namespace PersimVerif.PLArith
open PersimVerif.PL
set_option linter.unusedSectionVars false
variable {K : Type} [Field K] [LinearOrder K] [IsStrictOrderedRing K]

/-- abscissae of a list of pairs -/
abbrev xs (l : List (K × K)) : List K := l.map Prod.fst

/-- strictly increasing abscissae -/
def StrictX (l : List (K × K)) : Prop := (xs l).Pairwise (· < ·)

/-- slope of the last entry (`p` for the empty list) -/
def lastSlope : K → List (K × K) → K
  | p, [] => p
  | _, (_, m) :: r => lastSlope m r

@[simp] theorem lastSlope_nil (p : K) : lastSlope p [] = p := rfl
@[simp] theorem lastSlope_cons (p x m : K) (r : List (K × K)) : lastSlope p ((x, m) :: r) = lastSlope m r := rfl

/-- left of every abscissa all hinges are closed -/
theorem hinge_eq_zero_of_le (t : K) : ∀ (S : List (K × K)) (p : K), (∀ q ∈ S, t ≤ q.1) → hinge t p S = 0
  | [], _, _ => rfl
  | (x, m) :: r, p, h => by
    have hx : t ≤ x := h (x, m) (by simp)
    have : max 0 (t - x) = 0 := max_eq_left (by linarith)
    rw [hinge_cons, this, hinge_eq_zero_of_le t r m (fun q hq => h q (by simp [hq]))]
    ring

/-- changing the incoming slope of a list whose first hinge is open -/
theorem hinge_shift (t p x m : K) (r : List (K × K)) (hx : x ≤ t) :
    hinge t p ((x, m) :: r) = hinge t 0 ((x, m) :: r) - p * (t - x) := by
  have : max 0 (t - x) = t - x := max_eq_right (by linarith)
  simp only [hinge_cons, this]; ring

/-- right of every abscissa the hinge sum is affine with the last slope -/
theorem hinge_beyond (s t : K) (hst : s ≤ t) : ∀ (S : List (K × K)) (p : K), (∀ q ∈ S, q.1 ≤ s) →
    hinge t p S - hinge s p S = (lastSlope p S - p) * (t - s)
  | [], p, _ => by simp
  | (x, m) :: r, p, h => by
    have hx : x ≤ s := h (x, m) (by simp)
    have h1 : max 0 (t - x) = t - x := max_eq_right (by linarith)
    have h2 : max 0 (s - x) = s - x := max_eq_right (by linarith)
    have ih := hinge_beyond s t hst r m (fun q hq => h q (by simp [hq]))
    simp only [hinge_cons, lastSlope_cons, h1, h2]
    linear_combination ih

/-! ### the merge -/

theorem mem_sumSlopes (am bm : K) (a b : List (K × K)) :
    ∀ x ∈ xs (sumSlopes am bm a b), x ∈ xs a ∨ x ∈ xs b := by
  fun_induction sumSlopes am bm a b with
  | case1 => simp
  | case2 am bm bx bm' b ih =>
    intro x hx; simp only [xs, List.map_cons, List.mem_cons] at hx ⊢
    rcases hx with rfl | hx
    · right; left; rfl
    · rcases ih x hx with h | h
      · simp at h
      · right; right; exact h
  | case3 am bm ax am' a ih =>
    intro x hx; simp only [xs, List.map_cons, List.mem_cons] at hx ⊢
    rcases hx with rfl | hx
    · left; left; rfl
    · rcases ih x hx with h | h
      · left; right; exact h
      · simp at h
  | case4 am bm ax am' a bx bm' b h ih =>
    intro x hx; simp only [xs, List.map_cons, List.mem_cons] at hx ih ⊢
    rcases hx with rfl | hx
    · right; left; rfl
    · rcases ih x hx with h | h
      · left; exact h
      · right; right; exact h
  | case5 am bm ax am' a bx bm' b h1 h2 ih =>
    intro x hx; simp only [xs, List.map_cons, List.mem_cons] at hx ih ⊢
    rcases hx with rfl | hx
    · left; left; rfl
    · rcases ih x hx with h | h
      · left; right; exact h
      · right; exact h
  | case6 am bm ax am' a bx bm' b h1 h2 ih =>
    intro x hx; simp only [xs, List.map_cons, List.mem_cons] at hx ih ⊢
    rcases hx with rfl | hx
    · left; left; rfl
    · rcases ih x hx with h | h
      · left; right; exact h
      · right; right; exact h

theorem sumSlopes_mem_left (am bm : K) (a b : List (K × K)) :
    ∀ x ∈ xs a, x ∈ xs (sumSlopes am bm a b) := by
  fun_induction sumSlopes am bm a b with
  | case1 => simp
  | case2 am bm bx bm' b ih => simp
  | case3 am bm ax am' a ih =>
    intro x hx; simp only [xs, List.map_cons, List.mem_cons] at hx ih ⊢
    rcases hx with rfl | hx
    · left; rfl
    · right; exact ih x hx
  | case4 am bm ax am' a bx bm' b h ih =>
    intro x hx; simp only [xs, List.map_cons, List.mem_cons] at hx ih ⊢
    right; exact ih x hx
  | case5 am bm ax am' a bx bm' b h1 h2 ih =>
    intro x hx; simp only [xs, List.map_cons, List.mem_cons] at hx ih ⊢
    rcases hx with rfl | hx
    · left; rfl
    · right; exact ih x hx
  | case6 am bm ax am' a bx bm' b h1 h2 ih =>
    intro x hx; simp only [xs, List.map_cons, List.mem_cons] at hx ih ⊢
    rcases hx with rfl | hx
    · left; rfl
    · right; exact ih x hx

theorem sumSlopes_mem_right (am bm : K) (a b : List (K × K)) :
    ∀ x ∈ xs b, x ∈ xs (sumSlopes am bm a b) := by
  fun_induction sumSlopes am bm a b with
  | case1 => simp
  | case2 am bm bx bm' b ih =>
    intro x hx; simp only [xs, List.map_cons, List.mem_cons] at hx ih ⊢
    rcases hx with rfl | hx
    · left; rfl
    · right; exact ih x hx
  | case3 am bm ax am' a ih => simp
  | case4 am bm ax am' a bx bm' b h ih =>
    intro x hx; simp only [xs, List.map_cons, List.mem_cons] at hx ih ⊢
    rcases hx with rfl | hx
    · left; rfl
    · right; exact ih x hx
  | case5 am bm ax am' a bx bm' b h1 h2 ih =>
    intro x hx; simp only [xs, List.map_cons, List.mem_cons] at hx ih ⊢
    right; exact ih x hx
  | case6 am bm ax am' a bx bm' b h1 h2 ih =>
    have hxx : ax = bx := le_antisymm (not_lt.mp h1) (not_lt.mp h2)
    intro x hx; simp only [xs, List.map_cons, List.mem_cons] at hx ih ⊢
    rcases hx with rfl | hx
    · left; exact hxx.symm
    · right; exact ih x hx

/-- merging two strictly increasing slope lists gives a strictly increasing list -/
theorem strictX_sumSlopes (am bm : K) (a b : List (K × K)) (ha : StrictX a) (hb : StrictX b) :
    StrictX (sumSlopes am bm a b) := by
  unfold StrictX at *
  fun_induction sumSlopes am bm a b with
  | case1 => simp
  | case2 am bm bx bm' b ih =>
    simp only [xs, List.map_cons, List.pairwise_cons] at hb ⊢
    refine ⟨fun x hx => ?_, ih (by simp) hb.2⟩
    rcases mem_sumSlopes _ _ _ _ x hx with h | h
    · simp at h
    · exact hb.1 x h
  | case3 am bm ax am' a ih =>
    simp only [xs, List.map_cons, List.pairwise_cons] at ha ⊢
    refine ⟨fun x hx => ?_, ih ha.2 (by simp)⟩
    rcases mem_sumSlopes _ _ _ _ x hx with h | h
    · exact ha.1 x h
    · simp at h
  | case4 am bm ax am' a bx bm' b h ih =>
    simp only [xs, List.map_cons, List.pairwise_cons] at ha hb ih ⊢
    refine ⟨fun x hx => ?_, ih ha hb.2⟩
    rcases mem_sumSlopes _ _ _ _ x hx with h' | h'
    · simp only [xs, List.map_cons, List.mem_cons] at h'
      rcases h' with rfl | h'
      · exact h
      · exact lt_trans h (ha.1 x h')
    · exact hb.1 x h'
  | case5 am bm ax am' a bx bm' b h1 h2 ih =>
    simp only [xs, List.map_cons, List.pairwise_cons] at ha hb ih ⊢
    refine ⟨fun x hx => ?_, ih ha.2 hb⟩
    rcases mem_sumSlopes _ _ _ _ x hx with h' | h'
    · exact ha.1 x h'
    · simp only [xs, List.map_cons, List.mem_cons] at h'
      rcases h' with rfl | h'
      · exact h2
      · exact lt_trans h2 (hb.1 x h')
  | case6 am bm ax am' a bx bm' b h1 h2 ih =>
    have hxx : ax = bx := le_antisymm (not_lt.mp h1) (not_lt.mp h2)
    simp only [xs, List.map_cons, List.pairwise_cons] at ha hb ih ⊢
    refine ⟨fun x hx => ?_, ih ha.2 hb.2⟩
    rcases mem_sumSlopes _ _ _ _ x hx with h' | h'
    · exact ha.1 x h'
    · exact hxx ▸ hb.1 x h'

theorem lastSlope_sumSlopes (am bm : K) (a b : List (K × K)) :
    lastSlope (am + bm) (sumSlopes am bm a b) = lastSlope am a + lastSlope bm b := by
  fun_induction sumSlopes am bm a b with
  | case1 => simp
  | case2 am bm bx bm' b ih => simpa using ih
  | case3 am bm ax am' a ih => simpa using ih
  | case4 am bm ax am' a bx bm' b h ih => simpa using ih
  | case5 am bm ax am' a bx bm' b h1 h2 ih => simpa using ih
  | case6 am bm ax am' a bx bm' b h1 h2 ih => simpa using ih

theorem sumSlopes_ne_nil_left (am bm : K) (a b : List (K × K)) (h : a ≠ []) : sumSlopes am bm a b ≠ [] := by
  obtain ⟨p, r, rfl⟩ := List.exists_cons_of_ne_nil h
  have := sumSlopes_mem_left am bm (p :: r) b p.1 (by simp)
  intro h0; rw [h0] at this; simp at this

theorem sumSlopes_ne_nil_right (am bm : K) (a b : List (K × K)) (h : b ≠ []) : sumSlopes am bm a b ≠ [] := by
  obtain ⟨p, r, rfl⟩ := List.exists_cons_of_ne_nil h
  have := sumSlopes_mem_right am bm a (p :: r) p.1 (by simp)
  intro h0; rw [h0] at this; simp at this

end PersimVerif.PLArith
