import PersimVerif.Model.Landscape
import Mathlib.Algebra.Order.Field.Basic
import Mathlib.Data.List.Sort
import Mathlib.Tactic.Linarith

/-!
# Helper lemmas for C03, part 2: order statistics and cells (L4, L5 of DESIGN.md Appendix A.1)

* L4: a permutation of `vs` that is `Pairwise (≥)` *is* the descending sort of `vs`, so its `k`-th
  entry is `kth vs k`.
* L5: for a strictly increasing cut list every `t` lies left of all cuts, right of all cuts, or in a
  cell between two consecutive cuts — and no cut lies strictly inside a cell.
* the Boolean adjacent checks `strictAsc`, `descB` give `Pairwise`; `cuts` contains every event.
-/
set_option linter.unusedSectionVars false

namespace PersimVerif.LandscapeLemmas
open PersimVerif.PL PersimVerif.Landscape

variable {K : Type} [Field K] [LinearOrder K] [IsStrictOrderedRing K]

/-! ### L4 -/

theorem sortDesc_pairwise (vs : List K) : (sortDesc vs).Pairwise (fun a b => b ≤ a) := by
  have h := List.pairwise_mergeSort (le := fun (a b : K) => decide (b ≤ a))
    (by intro a b c h1 h2; simp only [decide_eq_true_eq] at *; exact le_trans h2 h1)
    (by intro a b; simp only [Bool.or_eq_true, decide_eq_true_eq]; exact le_total b a) vs
  exact h.imp (by intro a b h; simpa using h)

theorem sortDesc_perm (vs : List K) : (sortDesc vs).Perm vs := List.mergeSort_perm _ _

/-- **L4**: a `Pairwise (≥)` permutation of `vs` is the descending sort of `vs` -/
theorem sortDesc_eq_of_perm_pairwise {vs l : List K} (hp : l.Perm vs) (hs : l.Pairwise (fun a b => b ≤ a)) :
    sortDesc vs = l := by
  apply List.Perm.eq_of_pairwise (le := fun a b => b ≤ a) _ (sortDesc_pairwise vs) hs
    ((sortDesc_perm vs).trans hp.symm)
  intro a b _ _ h1 h2
  exact le_antisymm h2 h1

theorem kth_eq_of_perm_pairwise {vs l : List K} (hp : l.Perm vs) (hs : l.Pairwise (fun a b => b ≤ a))
    (k : Nat) : kth vs k = l.getD k 0 := by
  unfold kth
  rw [sortDesc_eq_of_perm_pairwise hp hs]

/-- the landscape through any order of the bars that is descending at `t` -/
theorem landscape_eq_of_order {bars π : List (K × K)} (hp : π.Perm bars) (t : K)
    (hs : (π.map (tentAt t)).Pairwise (fun a b => b ≤ a)) (k : Nat) :
    landscape bars k t = (π.map (tentAt t)).getD k 0 := by
  unfold landscape
  exact kth_eq_of_perm_pairwise (hp.map _) hs k

theorem landscape_zero_of_all_zero {bars : List (K × K)} {t : K} (h : ∀ p ∈ bars, tentAt t p = 0) (k : Nat) :
    landscape bars k t = 0 := by
  have hall : ∀ v ∈ bars.map (tentAt t), v = 0 := by
    intro v hv
    obtain ⟨p, hp, rfl⟩ := List.mem_map.mp hv
    exact h p hp
  have hs : (bars.map (tentAt t)).Pairwise (fun a b => b ≤ a) := by
    rw [List.pairwise_iff_forall_sublist]
    intro a b hab
    have ha := hall a (hab.subset (by simp))
    have hb := hall b (hab.subset (by simp))
    rw [ha, hb]
  rw [landscape_eq_of_order (List.Perm.refl _) t hs k]
  rw [List.getD_eq_getElem?_getD]
  cases hk : (bars.map (tentAt t))[k]? with
  | none => rfl
  | some v => exact hall v (List.mem_of_getElem? hk)

/-! ### Boolean adjacent checks -/

theorem strictAsc_pairwise : ∀ {E : List K}, strictAsc E = true → E.Pairwise (· < ·)
  | [], _ => List.Pairwise.nil
  | [_], _ => by simp
  | a :: b :: t, h => by
    simp only [strictAsc, Bool.and_eq_true, decide_eq_true_eq] at h
    have ih := strictAsc_pairwise h.2
    rw [List.pairwise_cons]
    refine ⟨?_, ih⟩
    intro x hx
    rcases List.mem_cons.mp hx with rfl | hx
    · exact h.1
    · exact lt_trans h.1 ((List.pairwise_cons.mp ih).1 x hx)

theorem descB_pairwise : ∀ {E : List K}, descB E = true → E.Pairwise (fun a b => b ≤ a)
  | [], _ => List.Pairwise.nil
  | [_], _ => by simp
  | a :: b :: t, h => by
    simp only [descB, Bool.and_eq_true, decide_eq_true_eq] at h
    have ih := descB_pairwise h.2
    rw [List.pairwise_cons]
    refine ⟨?_, ih⟩
    intro x hx
    rcases List.mem_cons.mp hx with rfl | hx
    · exact h.1
    · exact le_trans ((List.pairwise_cons.mp ih).1 x hx) h.1

theorem closeB_iff {eps a b : K} : closeB eps a b = true ↔ a - b ≤ eps ∧ b - a ≤ eps := by
  simp [closeB]

/-! ### the cut list contains every event that matters -/

theorem mem_dedupAdj : ∀ (l : List K) (x : K), x ∈ dedupAdj l ↔ x ∈ l
  | [], x => by simp [dedupAdj]
  | [a], x => by simp [dedupAdj]
  | a :: b :: t, x => by
    have ih := mem_dedupAdj (b :: t) x
    by_cases hab : a = b
    · subst hab
      simp only [dedupAdj, beq_self_eq_true, if_true, ih]
      simp
    · have : (a == b) = false := by simpa using hab
      simp only [dedupAdj, this, Bool.false_eq_true, if_false, List.mem_cons, ih]

omit [Field K] [LinearOrder K] [IsStrictOrderedRing K] in
theorem insSorted_perm {β : Type} (le : β → β → Bool) (x : β) : ∀ l : List β, (insSorted le x l).Perm (x :: l)
  | [] => List.Perm.refl _
  | y :: ys => by
    unfold insSorted
    split
    · exact List.Perm.refl _
    · exact ((insSorted_perm le x ys).cons y).trans (List.Perm.swap x y ys)

omit [Field K] [LinearOrder K] [IsStrictOrderedRing K] in
/-- the model's insertion sort returns a permutation of its input -/
theorem stableSort_perm {β : Type} (le : β → β → Bool) : ∀ l : List β, (stableSort le l).Perm l
  | [] => List.Perm.refl _
  | x :: xs => by
    show (insSorted le x (stableSort le xs)).Perm (x :: xs)
    exact (insSorted_perm le x _).trans ((stableSort_perm le xs).cons x)

theorem mem_cuts {bars : List (K × K)} {cps : List (List (K × K))} {e : K} (h : e ∈ events bars cps) :
    e ∈ cuts bars cps := by
  unfold cuts
  rw [mem_dedupAdj, (stableSort_perm _ _).mem_iff]
  exact h

theorem bar_events_mem {bars : List (K × K)} (cps : List (List (K × K))) {p : K × K} (hp : p ∈ bars) :
    p.1 ∈ cuts bars cps ∧ (p.1 + p.2) / 2 ∈ cuts bars cps ∧ p.2 ∈ cuts bars cps := by
  refine ⟨mem_cuts ?_, mem_cuts ?_, mem_cuts ?_⟩ <;>
  · unfold events
    apply List.mem_append_left
    apply List.mem_append_left
    exact List.mem_flatMap.mpr ⟨p, hp, by simp⟩

theorem crit_events_mem (bars : List (K × K)) {cps : List (List (K × K))} {c : List (K × K)} (hc : c ∈ cps)
    {q : K × K} (hq : q ∈ c) : q.1 ∈ cuts bars cps := by
  apply mem_cuts
  unfold events
  apply List.mem_append_left
  apply List.mem_append_right
  exact List.mem_flatMap.mpr ⟨c, hc, List.mem_map.mpr ⟨q, hq, rfl⟩⟩

/-! ### L5 -/

/-- **L5**: every `t` is left of all cuts, right of all cuts, or in a cell of consecutive cuts, and no
    cut lies strictly inside a cell -/
theorem cells_cover : ∀ {E : List K}, E.Pairwise (· < ·) → ∀ (t : K),
    (∀ e ∈ E, t ≤ e) ∨ (∀ e ∈ E, e ≤ t) ∨
      ∃ lr ∈ E.zip E.tail, lr.1 ≤ t ∧ t ≤ lr.2 ∧ lr.1 < lr.2 ∧ ∀ e ∈ E, e ≤ lr.1 ∨ lr.2 ≤ e
  | [], _, _ => Or.inl (by simp)
  | [a], _, t => by
    rcases le_total t a with h | h
    · exact Or.inl (by simpa using h)
    · exact Or.inr (Or.inl (by simpa using h))
  | a :: b :: rest, hE, t => by
    have hab : a < b := (List.pairwise_cons.mp hE).1 b (by simp)
    have hE' : (b :: rest).Pairwise (· < ·) := (List.pairwise_cons.mp hE).2
    have hb : ∀ e ∈ rest, b < e := (List.pairwise_cons.mp hE').1
    by_cases h1 : t ≤ a
    · left
      intro e he
      rcases List.mem_cons.mp he with rfl | he
      · exact h1
      · exact le_trans h1 ((List.pairwise_cons.mp hE).1 e he).le
    · have h1' : a < t := not_le.mp h1
      by_cases h2 : t ≤ b
      · right; right
        refine ⟨(a, b), by simp, h1'.le, h2, hab, ?_⟩
        intro e he
        rcases List.mem_cons.mp he with rfl | he
        · exact Or.inl le_rfl
        · rcases List.mem_cons.mp he with rfl | he
          · exact Or.inr le_rfl
          · exact Or.inr (hb e he).le
      · have h2' : b < t := not_le.mp h2
        rcases cells_cover hE' t with h | h | ⟨lr, hlr, c1, c2, c3, c4⟩
        · exact absurd (h b (by simp)) h2
        · right; left
          intro e he
          rcases List.mem_cons.mp he with rfl | he
          · exact h1'.le
          · exact h e he
        · right; right
          refine ⟨lr, ?_, c1, c2, c3, ?_⟩
          · simp only [List.tail_cons] at hlr ⊢
            rw [List.zip_cons_cons]
            exact List.mem_cons_of_mem _ hlr
          · intro e he
            rcases List.mem_cons.mp he with rfl | he
            · left
              have hm : lr.1 ∈ b :: rest := (List.of_mem_zip (by simpa using hlr)).1
              exact ((List.pairwise_cons.mp hE).1 _ hm).le
            · exact c4 e he

end PersimVerif.LandscapeLemmas
