import Mathlib.Algebra.BigOperators.Group.List.Basic

/-! helper lemmas on list sums used by C14 / C15 (left folds as sums, exchanging two finite sums) -/
namespace PersimVerif.Lemmas

/-- a left-fold accumulation `acc += f x` is `acc + Σ f x` -/
theorem foldl_add_eq_sum {α β : Type*} [AddCommMonoid β] (f : α → β) (l : List α) (a : β) :
    l.foldl (fun acc x => acc + f x) a = a + (l.map f).sum := by
  induction l generalizing a with
  | nil => simp
  | cons x t ih => simp [ih, add_assoc]

theorem sum_map_zero' {α β : Type*} [AddCommMonoid β] (l : List α) :
    (l.map fun _ => (0 : β)).sum = 0 := by
  induction l with
  | nil => simp
  | cons x t ih => simp

theorem sum_map_add' {α β : Type*} [AddCommMonoid β] (f g : α → β) (l : List α) :
    (l.map fun x => f x + g x).sum = (l.map f).sum + (l.map g).sum := by
  induction l with
  | nil => simp
  | cons x t ih => simp only [List.map_cons, List.sum_cons, ih]; exact add_add_add_comm _ _ _ _

/-- two nested finite sums commute -/
theorem sum_map_sum_comm {α β γ : Type*} [AddCommMonoid γ] (f : α → β → γ) (l1 : List α) (l2 : List β) :
    (l1.map fun a => (l2.map fun b => f a b).sum).sum
      = (l2.map fun b => (l1.map fun a => f a b).sum).sum := by
  induction l1 with
  | nil => simp
  | cons a t ih =>
    simp only [List.map_cons, List.sum_cons, ih]
    rw [← sum_map_add']

/-- a sum of terms that are equal pointwise (on the members of the list) -/
theorem sum_map_congr {α β : Type*} [AddCommMonoid β] {f g : α → β} {l : List α}
    (h : ∀ x ∈ l, f x = g x) : (l.map f).sum = (l.map g).sum := by
  rw [List.map_congr_left h]

end PersimVerif.Lemmas
