import PersimVerif.Props.C05
import PersimVerif.Props.C17

/-!
# Composition of the two layers of `persim/gromov_hausdorff.py` (bridging lemmas for `Props/C05C17.lean`)

`Model/Graph.lean` (C17) models the public `gromov_hausdorff` with `estimate` a PARAMETER `est`;
`Model/MGH.lean` (C05) models `estimate` downwards with the NumPy generator an explicit input.  Both use
`List (List ℕ)` for integer matrices and read an entry the same way (`MGH.ent = Graph.entry`, by `rfl`),
so no conversion function is needed: the matrix `DistResult.dist` that `makeDist` returns IS the matrix
C05's `estimate` takes.  What has to be bridged:

* the generator: C17 threads an abstract RNG state `σ` through `est`; C05 takes the four lists of draws
  of one `estimate` call.  A `Sampler σ` turns a state and the two matrices into those draws and the next
  state; it stands for NumPy's global generator TOGETHER WITH `mapping_sample_size_order` (which only
  decides how many permutations are drawn);
* `Except`: C05's `estimate` can fail (`StopIteration` on an empty sample), `est` is total.  The slots of
  the composed result are `Val = Except MGH.Err ℚ`;
* `DistMat` for the output of `makeDist`, from `C17.fallback_is_metric`;
* the spaces being compared: `IsBlockMetric A d` — `d` is the shortest-path metric on the vertices
  `C17.kept A` that `makeDist` keeps (all of them for a connected graph, the first largest component
  otherwise).
-/
namespace PersimVerif.MGHPublic
open PersimVerif.MGHSpec
open PersimVerif.Graph (Mat DistResult makeDist Input Result isSquare adjOf Adj IsDist Walk Connected collect
  gromovHausdorff)
open PersimVerif.C17 (kept)

/-- the two models read a matrix entry in the same way -/
theorem ent_eq_entry (D : Mat) (i j : ℕ) : MGH.ent D i j = Graph.entry D i j := rfl

/-! ## the generator -/

/-- the draws of ONE call `estimate(DX, DY, mapping_sample_size_order)`: for the direction `X → Y` the
    permutations `np.random.permutation(|X|)` the lazy generator would yield and the first images
    `np.random.choice(|Y|)`, and the same for `Y → X` (exactly the inputs of C05's `MGH.estimate`). -/
structure Draws where
  pXY : List (List ℕ)
  yXY : List ℕ
  pYX : List (List ℕ)
  yYX : List ℕ
  deriving Repr, DecidableEq

/-- NumPy's global generator in state `s` together with `mapping_sample_size_order`, as seen by one call
    `estimate(DX, DY, …)`: the draws it hands out and the state afterwards.  Both may depend on the matrices
    in any way (the real number of draws consumed depends on when the goal distortion is matched). -/
abbrev Sampler (σ : Type) := σ → Mat → Mat → Draws × σ

/-- the contract of `np.random.permutation(n)` (a permutation of `0..n-1`) and `np.random.choice(m)`
    (a value `< m`) for spaces of `n` and `m` points; NO condition on how many draws there are -/
def Draws.Valid (d : Draws) (n m : ℕ) : Prop :=
  (∀ pi ∈ d.pXY, pi.Perm (List.range n)) ∧ (∀ y ∈ d.yXY, y < m) ∧
  (∀ pi ∈ d.pYX, pi.Perm (List.range m)) ∧ (∀ y ∈ d.yYX, y < n)

/-- at least one mapping is sampled in each direction (`ceil(|X|^a · log(|X|+1)^b) ≥ 1`: true for every
    `mapping_sample_size_order` whose float power does not underflow to `0.0` or give NaN) and there is a
    first image for every permutation -/
def Draws.Enough (d : Draws) : Prop :=
  d.pXY ≠ [] ∧ d.pYX ≠ [] ∧ d.pXY.length ≤ d.yXY.length ∧ d.pYX.length ≤ d.yYX.length

variable {σ : Type}

/-- the generator's contract, on the (non-empty) matrices `estimate` is called with -/
def SamplerValid (smp : Sampler σ) : Prop :=
  ∀ s (DX DY : Mat), 0 < DX.length → 0 < DY.length → (smp s DX DY).1.Valid DX.length DY.length

def SamplerEnough (smp : Sampler σ) : Prop :=
  ∀ s (DX DY : Mat), 0 < DX.length → 0 < DY.length → (smp s DX DY).1.Enough

/-! ## the composed model -/

/-- one slot (`lb` or `ub`) of the public result: a non-negative rational, or the exception `estimate` raised -/
abbrev Val := Except MGH.Err ℚ

/-- **`estimate` as C17's dispatch parameter.**  `find_lb` runs first and draws nothing from the generator:
    its slot is always a value.  The `ub` slot is that of C05's `estimateHalf` (= `0.5 * find_ub`), an error
    when `find_ub` raises — then the Python call raises and returns nothing, so a result "is returned" when
    no slot is an error (`public_never_raises`).  `publicEst_ok_iff`: both slots are values exactly when
    C05's `estimateHalf` returns that pair. -/
def publicEst (kmX kmY : ℕ → ℕ → ℤ) (smp : Sampler σ) (s : σ) (DX DY : Mat) : (Val × Val) × σ :=
  let d := (smp s DX DY).1
  ((.ok (((MGH.findLb kmX kmY DX DY : ℕ) : ℚ) / 2),
    (C05.estimateHalf kmX kmY DX DY d.pXY d.yXY d.pYX d.yYX).map Prod.snd), (smp s DX DY).2)

/-- **the model of the public entry point** `gromov_hausdorff(AG, AH=None, mapping_sample_size_order)`:
    C17's dispatch with C05's `estimate`. -/
def publicGH (kmX kmY : ℕ → ℕ → ℤ) (smp : Sampler σ) (inp : Input) (s : σ) :
    Except Graph.Err (Result Val × σ) :=
  gromovHausdorff (publicEst kmX kmY smp) (.ok 0) inp s

section est
variable (kmX kmY : ℕ → ℕ → ℤ) (smp : Sampler σ)

theorem estimateHalf_eq (DX DY : Mat) (pXY : List (List ℕ)) (yXY : List ℕ) (pYX : List (List ℕ))
    (yYX : List ℕ) :
    C05.estimateHalf kmX kmY DX DY pXY yXY pYX yYX =
      (MGH.findUb DX DY pXY yXY pYX yYX (MGH.findLb kmX kmY DX DY)).map fun r =>
        (((MGH.findLb kmX kmY DX DY : ℕ) : ℚ) / 2, ((r.1 : ℕ) : ℚ) / 2) := by
  unfold C05.estimateHalf MGH.estimate
  rcases hu : MGH.findUb DX DY pXY yXY pYX yYX (MGH.findLb kmX kmY DX DY) with e | ⟨ub, k1, k2⟩
  · simp only [hu, Except.map]
  · simp only [hu, Except.map]

/-- the lower-bound slot is `0.5 * find_lb(DX, DY)`: no generator, no `mapping_sample_size_order` -/
theorem publicEst_lb (s : σ) (DX DY : Mat) :
    (publicEst kmX kmY smp s DX DY).1.1 = .ok (((MGH.findLb kmX kmY DX DY : ℕ) : ℚ) / 2) := rfl

/-- both slots are values exactly when C05's `estimate` returns that pair on the sampler's draws -/
theorem publicEst_ok_iff (s : σ) (DX DY : Mat) (lo hi : ℚ) :
    (publicEst kmX kmY smp s DX DY).1 = (.ok lo, .ok hi) ↔
      C05.estimateHalf kmX kmY DX DY (smp s DX DY).1.pXY (smp s DX DY).1.yXY (smp s DX DY).1.pYX
        (smp s DX DY).1.yYX = .ok (lo, hi) := by
  unfold publicEst
  simp only [estimateHalf_eq]
  cases MGH.findUb DX DY (smp s DX DY).1.pXY (smp s DX DY).1.yXY (smp s DX DY).1.pYX (smp s DX DY).1.yYX
      (MGH.findLb kmX kmY DX DY) with
  | error e => simp [Except.map]
  | ok r => simp [Except.map]

/-- and when C05's `estimate` raises, the `ub` slot carries that exception -/
theorem publicEst_error (s : σ) (DX DY : Mat) (e : MGH.Err)
    (h : C05.estimateHalf kmX kmY DX DY (smp s DX DY).1.pXY (smp s DX DY).1.yXY (smp s DX DY).1.pYX
        (smp s DX DY).1.yYX = .error e) :
    (publicEst kmX kmY smp s DX DY).1.2 = .error e := by
  unfold publicEst
  simp only [h, Except.map]

end est

/-! ## what `makeDist` hands to `estimate` -/

/-- `d` is the shortest-path metric of the block of `A` that `makeDist` keeps: the points are the vertices
    `C17.kept A` (all vertices of a connected graph; the FIRST largest component otherwise), in increasing
    order, the distance of two of them is the length of a shortest walk in `A`. -/
def IsBlockMetric (A : Mat) {n : ℕ} (d : Fin n → Fin n → ℕ) : Prop :=
  (kept A).length = n ∧
    ∀ a b : Fin n, IsDist (Adj (adjOf A)) ((kept A).getD a 0) ((kept A).getD b 0) (d a b)

/-- a finite metric with values in `ℕ` -/
structure IsMetric {n : ℕ} (d : Fin n → Fin n → ℕ) : Prop where
  self : ∀ a, d a a = 0
  eq_of_zero : ∀ a b, d a b = 0 → a = b
  symm : ∀ a b, d a b = d b a
  triangle : ∀ a b c, d a c ≤ d a b + d b c

theorem isSquare_of_makeDist {A : Mat} {r : DistResult} (h : makeDist A = .ok r) : isSquare A = true := by
  cases hs : isSquare A with
  | true => rfl
  | false => rw [C17.malformed_rejected A hs] at h; simp at h

/-- **the output of `makeDist` meets the hypotheses of C05** and is the block metric (from
    `C17.fallback_is_metric`) -/
theorem makeDist_facts {A : Mat} {r : DistResult} (h : makeDist A = .ok r) :
    0 < r.dist.length ∧ DistMat r.dist r.dist.length ∧
      IsBlockMetric A (matFn r.dist r.dist.length) ∧ IsMetric (matFn r.dist r.dist.length) := by
  have H := C17.fallback_is_metric A (isSquare_of_makeDist h) r h
  simp only at H
  obtain ⟨⟨h0, _, hrow⟩, hdiag, hsymm, hpos, htri, ⟨hk, _, _, hdist⟩, _⟩ := H
  refine ⟨h0, ⟨rfl, hrow, hsymm, fun i j hi hj => ⟨fun e => hpos i j hi hj e, ?_⟩⟩,
    ⟨hk, fun a b => hdist a b a.isLt b.isLt⟩,
    ⟨fun a => hdiag a a.isLt, fun a b e => Fin.ext (hpos a b a.isLt b.isLt e),
      fun a b => hsymm a b a.isLt b.isLt, fun a b c => htri a b c a.isLt b.isLt c.isLt⟩⟩
  rintro rfl
  exact hdiag i hi

/-- the block metric is unique: it is the matrix `makeDist` returns -/
theorem IsBlockMetric.eq_matFn {A : Mat} {r : DistResult} (h : makeDist A = .ok r) {n : ℕ}
    {d : Fin n → Fin n → ℕ} (hd : IsBlockMetric A d) : r.dist.length = n ∧ d = matFn r.dist n := by
  obtain ⟨_, _, ⟨hk, hdist⟩, _⟩ := makeDist_facts h
  have hn : r.dist.length = n := by rw [← hk, hd.1]
  subst hn
  refine ⟨rfl, ?_⟩
  funext a b
  exact (hd.2 a b).unique (hdist a b)

theorem IsBlockMetric.unique {A : Mat} {n : ℕ} {d d' : Fin n → Fin n → ℕ} (hd : IsBlockMetric A d)
    (hd' : IsBlockMetric A d') : d = d' := by
  funext a b
  exact (hd.2 a b).unique (hd'.2 a b)

/-- a connected graph keeps all its vertices -/
theorem connected_dist_length {A : Mat} {r : DistResult} (h : makeDist A = .ok r)
    (hc : Connected (adjOf A)) : r.warned = false ∧ r.dist.length = A.length := by
  have hsq := isSquare_of_makeDist h
  have hsym := Graph.adjOf_Symm A
  have hinf : Graph.hasInf (Graph.bfsAll (adjOf A)) = false :=
    (Graph.hasInf_false_iff_connected (adjOf A) hsym).2 hc
  obtain ⟨hd, hw, _⟩ := (Graph.makeDist_ok_iff A hsq r).1 h
  have hsel : Graph.selected (Graph.bfsAll (adjOf A)) = List.range A.length := by
    unfold Graph.selected; rw [hinf]; simp
  exact ⟨by rw [hw, hinf], by rw [hd, Graph.blockOf_length, hsel]; simp⟩

/-- a connected graph keeps all its vertices, in order -/
theorem kept_connected {A : Mat} (hc : Connected (adjOf A)) : kept A = List.range A.length := by
  have hinf : Graph.hasInf (Graph.bfsAll (adjOf A)) = false :=
    (Graph.hasInf_false_iff_connected (adjOf A) (Graph.adjOf_Symm A)).2 hc
  unfold kept Graph.selected
  rw [hinf]; simp

/-- for a CONNECTED graph the block metric is the shortest-path metric of the whole graph -/
theorem isBlockMetric_connected {A : Mat} (hc : Connected (adjOf A)) {n : ℕ} (d : Fin n → Fin n → ℕ) :
    IsBlockMetric A d ↔ A.length = n ∧ ∀ a b : Fin n, IsDist (Adj (adjOf A)) a b (d a b) := by
  unfold IsBlockMetric
  rw [kept_connected hc]
  have e : ∀ a : Fin n, A.length = n → (List.range A.length).getD a 0 = a := by
    intro a h
    have := a.isLt
    simp [List.getD_eq_getElem?_getD, h]
  constructor
  · rintro ⟨h1, h2⟩
    have hn : A.length = n := by simpa using h1
    refine ⟨hn, fun a b => ?_⟩
    have := h2 a b
    rwa [e a hn, e b hn] at this
  · rintro ⟨hn, h2⟩
    refine ⟨by simpa using hn, fun a b => ?_⟩
    rw [e a hn, e b hn]
    exact h2 a b

/-! ## the specification side -/

theorem mGH_comm {n m : ℕ} [NeZero n] [NeZero m] (dX : Fin n → Fin n → ℕ) (dY : Fin m → Fin m → ℕ) :
    mGH dX dY = mGH dY dX := by
  unfold mGH mGH2; rw [max_comm]

theorem Isometric.symm' {n m : ℕ} {dX : Fin n → Fin n → ℕ} {dY : Fin m → Fin m → ℕ}
    (h : Isometric dX dY) : Isometric dY dX := by
  obtain ⟨e, he⟩ := h
  refine ⟨e.symm, fun a b => ?_⟩
  have := he (e.symm a) (e.symm b)
  simpa using this.symm

/-- a relabelled matrix `D[p][:, p]` is isometric to `D` -/
theorem isometric_sub_perm (D : Mat) {n : ℕ} (p : List ℕ) (hp : p.Perm (List.range n)) :
    Isometric (matFn D n) (matFn (Graph.sub 0 p D) n) := by
  have hpl : p.length = n := by simpa using hp.length_eq
  have hlt : ∀ x ∈ p, x < n := fun x hx => List.mem_range.1 (hp.mem_iff.1 hx)
  have hnd : p.Nodup := hp.nodup_iff.2 List.nodup_range
  let f : Fin n → Fin n := fun i => ⟨p.getD i 0, Graph.getD_lt_of_forall hlt (by rw [hpl]; exact i.isLt)⟩
  have hinj : Function.Injective f := by
    intro i j hij
    have hi : i.val < p.length := by rw [hpl]; exact i.isLt
    have hj : j.val < p.length := by rw [hpl]; exact j.isLt
    have e : p.getD i 0 = p.getD j 0 := congrArg Fin.val hij
    have e' : p[i.val] = p[j.val] := by
      simpa [List.getD_eq_getElem?_getD, List.getElem?_eq_getElem hi, List.getElem?_eq_getElem hj] using e
    exact Fin.ext ((List.getElem_inj hnd).1 e')
  have hbij : Function.Bijective f := Finite.injective_iff_bijective.1 hinj
  refine Isometric.symm' ⟨Equiv.ofBijective f hbij, fun a b => ?_⟩
  show MGH.ent D (f a) (f b) = MGH.ent (Graph.sub 0 p D) a b
  rw [ent_eq_entry, ent_eq_entry]
  unfold Graph.entry
  rw [Graph.ent_sub 0 p D (by rw [hpl]; exact a.isLt) (by rw [hpl]; exact b.isLt)]

/-! ## the estimator on the matrices of `makeDist` -/

section est
variable (kmX kmY : ℕ → ℕ → ℤ) (smp : Sampler σ)

/-- **C05's bracket, on the spaces `makeDist` describes**: whenever both slots are values they bracket the
    mGH distance of the two block metrics and are half-integers. -/
theorem publicEst_brackets (hv : SamplerValid smp) {G H : Mat} {rX rY : DistResult}
    (hX : makeDist G = .ok rX) (hY : makeDist H = .ok rY) (s : σ) {lo hi : ℚ}
    (h : (publicEst kmX kmY smp s rX.dist rY.dist).1 = (.ok lo, .ok hi))
    {n m : ℕ} [NeZero n] [NeZero m] {dX : Fin n → Fin n → ℕ} {dY : Fin m → Fin m → ℕ}
    (bX : IsBlockMetric G dX) (bY : IsBlockMetric H dY) :
    lo ≤ mGH dX dY ∧ mGH dX dY ≤ hi ∧ ∃ a b : ℕ, lo = (a : ℚ) / 2 ∧ hi = (b : ℚ) / 2 := by
  obtain ⟨hn, rfl⟩ := bX.eq_matFn hX
  obtain ⟨hm, rfl⟩ := bY.eq_matFn hY
  subst hn hm
  obtain ⟨pX, dmX, _, _⟩ := makeDist_facts hX
  obtain ⟨pY, dmY, _, _⟩ := makeDist_facts hY
  obtain ⟨v1, v2, v3, v4⟩ := hv s rX.dist rY.dist pX pY
  exact C05.brackets dmX dmY kmX kmY _ _ _ _ v1 v2 v3 v4 ((publicEst_ok_iff kmX kmY smp s _ _ lo hi).1 h)

/-- with at least one sample per direction `estimate` does not raise -/
theorem publicEst_total (hv : SamplerValid smp) (he : SamplerEnough smp) (s : σ) (DX DY : Mat)
    (hX : 0 < DX.length) (hY : 0 < DY.length) :
    ∃ lo hi : ℚ, (publicEst kmX kmY smp s DX DY).1 = (.ok lo, .ok hi) := by
  obtain ⟨v1, _, v3, _⟩ := hv s DX DY hX hY
  obtain ⟨e1, e2, e3, e4⟩ := he s DX DY hX hY
  have ne : ∀ {k : ℕ} {pi : List ℕ}, 0 < k → pi.Perm (List.range k) → pi ≠ [] := by
    intro k pi hk hp e
    have := hp.length_eq
    rw [e] at this
    simp at this
    omega
  obtain ⟨⟨lo, hi⟩, hr⟩ := C05.estimate_total (DX := DX) (DY := DY) kmX kmY _ _ _ _ e1 e2
    (fun pi hpi => ne hX (v1 pi hpi)) (fun pi hpi => ne hY (v3 pi hpi)) e3 e4
  exact ⟨lo, hi, (publicEst_ok_iff kmX kmY smp s DX DY lo hi).2 hr⟩

end est

/-! ## the dispatch -/

section dispatch
variable {β : Type} (est : σ → Mat → Mat → (β × β) × σ) (zero : β)

/-- what a pair call returns -/
theorem pair_ok_iff (G H : Mat) (s s' : σ) (lb ub : β) :
    gromovHausdorff est zero (.pair G H) s = .ok (.pair lb ub, s') ↔
      ∃ rX rY, makeDist G = .ok rX ∧ makeDist H = .ok rY ∧ est s rX.dist rY.dist = ((lb, ub), s') := by
  rw [Graph.gh_pair_eq]
  cases hG : makeDist G with
  | error e => simp
  | ok rX =>
    cases hH : makeDist H with
    | error e => simp
    | ok rY =>
      simp only [Except.ok.injEq, Prod.mk.injEq, Result.pair.injEq]
      constructor
      · rintro ⟨⟨h1, h2⟩, h3⟩
        exact ⟨rX, rY, rfl, rfl, by rw [← h1, ← h2, ← h3]⟩
      · rintro ⟨rX', rY', h1, h2, h3⟩
        cases h1; cases h2
        rw [h3]; exact ⟨⟨rfl, rfl⟩, rfl⟩

/-- a pair call never returns matrices -/
theorem pair_not_mats (G H : Mat) (s s' : σ) (lbs ubs : List (List β)) :
    gromovHausdorff est zero (.pair G H) s ≠ .ok (.mats lbs ubs, s') := by
  rw [Graph.gh_pair_eq]
  cases makeDist G with
  | error e => simp
  | ok rX =>
    cases makeDist H with
    | error e => simp
    | ok rY => simp

/-- the loop does not fail when every graph it touches has a distance matrix -/
theorem collect_ok (As : List Mat) (ps : List (ℕ × ℕ))
    (hps : ∀ p ∈ ps, (∃ r, makeDist (As.getD p.1 []) = .ok r) ∧ ∃ r, makeDist (As.getD p.2 []) = .ok r)
    (s : σ) : ∃ vals s', collect est As ps s = .ok (vals, s') := by
  induction ps generalizing s with
  | nil => exact ⟨[], s, rfl⟩
  | cons p ps ih =>
    obtain ⟨i, j⟩ := p
    obtain ⟨⟨rX, hX⟩, ⟨rY, hY⟩⟩ := hps (i, j) (List.mem_cons_self ..)
    obtain ⟨vals, s', hc⟩ := ih (fun q hq => hps q (List.mem_cons_of_mem _ hq)) (est s rX.dist rY.dist).2
    refine ⟨(est s rX.dist rY.dist).1 :: vals, s', ?_⟩
    rw [Graph.collect_cons]
    simp only [hX, hY, hc]

/-- a collection call on `N ≥ 2` graphs that all have a distance matrix returns two matrices -/
theorem coll_ok (As : List Mat) (hN : 2 ≤ As.length)
    (hAs : ∀ i, i < As.length → ∃ r, makeDist (As.getD i []) = .ok r) (s : σ) :
    ∃ lbs ubs s', gromovHausdorff est zero (.coll As) s = .ok (.mats lbs ubs, s') := by
  obtain ⟨vals, s', hc⟩ := collect_ok est As (Graph.pairsOf As.length) (fun p hp => by
    obtain ⟨i, j⟩ := p
    obtain ⟨h1, h2⟩ := (Graph.mem_pairsOf As.length i j).1 hp
    exact ⟨hAs i (by omega), hAs j h2⟩) s
  refine ⟨Graph.symmetrise As.length zero (Graph.upperVal zero (Graph.pairsOf As.length) (vals.map Prod.fst)),
    Graph.symmetrise As.length zero (Graph.upperVal zero (Graph.pairsOf As.length) (vals.map Prod.snd)), s', ?_⟩
  unfold gromovHausdorff
  simp only [if_neg (by omega : ¬ As.length < 2), hc]

end dispatch

end PersimVerif.MGHPublic
