import PersimVerif.Lemmas.MGHBasic

/-! the executable exhaustive search of the driver (`mgh.spec`) computes the specification -/
namespace PersimVerif.MGH
open PersimVerif.MGHSpec

theorem mem_allMaps {m n : ℕ} {l : List ℕ} : l ∈ allMaps m n ↔ l.length = n ∧ ∀ y ∈ l, y < m := by
  induction n generalizing l with
  | zero =>
    simp only [allMaps, List.mem_singleton]
    constructor
    · rintro rfl; simp
    · rintro ⟨h, _⟩; exact List.length_eq_zero_iff.1 h
  | succ n ih =>
    simp only [allMaps, List.mem_flatMap, List.mem_map, List.mem_range]
    constructor
    · rintro ⟨f, hf, y, hy, rfl⟩
      obtain ⟨h1, h2⟩ := ih.1 hf
      refine ⟨by simp [h1], ?_⟩
      intro z hz
      rcases List.mem_cons.1 hz with rfl | hz
      · exact hy
      · exact h2 z hz
    · rintro ⟨h1, h2⟩
      cases l with
      | nil => simp at h1
      | cons y f =>
        refine ⟨f, ih.2 ⟨by simpa using h1, fun z hz => h2 z (by simp [hz])⟩, y, h2 y (by simp), rfl⟩

theorem foldl_min_le_init (a : ℕ) (as : List ℕ) : as.foldl min a ≤ a := by
  induction as generalizing a with
  | nil => simp
  | cons b bs ih => exact le_trans (ih (min a b)) (min_le_left _ _)

theorem foldl_min_le_of_mem {a x : ℕ} {as : List ℕ} (h : x ∈ a :: as) : as.foldl min a ≤ x := by
  rcases List.mem_cons.1 h with rfl | h
  · exact foldl_min_le_init _ _
  · induction as generalizing a with
    | nil => simp at h
    | cons b bs ih =>
      simp only [List.foldl_cons]
      rcases List.mem_cons.1 h with rfl | h'
      · exact le_trans (foldl_min_le_init _ _) (min_le_right _ _)
      · exact ih (List.mem_cons_of_mem _ h') h'

theorem foldl_min_mem (a : ℕ) (as : List ℕ) : as.foldl min a ∈ a :: as := by
  induction as generalizing a with
  | nil => simp
  | cons b bs ih =>
    simp only [List.foldl_cons]
    rcases List.mem_cons.1 (ih (min a b)) with h | h
    · rcases min_cases a b with ⟨e, _⟩ | ⟨e, _⟩
      · rw [h, e]; simp
      · rw [h, e]; simp
    · exact List.mem_cons_of_mem _ (List.mem_cons_of_mem _ h)

/-- the list-level distortion is the distortion of the map the list describes -/
theorem disList_eq_dis {DX DY : Mat} {n m : ℕ} (hn : DX.length = n) (l : List ℕ)
    (g : Fin n → Fin m) (hg : ∀ x : Fin n, l.getD x.val 0 = (g x).val) :
    disList DX DY l = dis (matFn DX n) (matFn DY m) g := by
  have hg' : ∀ x : Fin n, l[x.val]?.getD 0 = (g x).val := by
    intro x; simpa [List.getD] using hg x
  unfold disList
  rw [hn]
  apply le_antisymm
  · rw [foldl_max_le_iff]
    refine ⟨Nat.zero_le _, ?_⟩
    intro v hv
    simp only [List.mem_flatMap, List.mem_map, List.mem_range] at hv
    obtain ⟨x, hx, x', hx', rfl⟩ := hv
    have := le_dis (matFn DX n) (matFn DY m) g ⟨x, hx⟩ ⟨x', hx'⟩
    simpa [matFn, absDiff_eq_dist, hg' ⟨x, hx⟩, hg' ⟨x', hx'⟩] using this
  · rw [dis_le_iff]
    intro a b
    apply le_foldl_max_of_mem 0
    simp only [List.mem_flatMap, List.mem_map, List.mem_range]
    refine ⟨a.val, a.isLt, b.val, b.isLt, ?_⟩
    simp [matFn, absDiff_eq_dist, hg' a, hg' b]

/-- **the exhaustive search computes `minDis`** -/
theorem minDisBrute_eq {DX DY : Mat} {n m : ℕ} [NeZero m] (hn : DX.length = n) (hm : DY.length = m) :
    minDisBrute DX DY = some (minDis (matFn DX n) (matFn DY m)) := by
  unfold minDisBrute
  rw [hn, hm]
  -- every function is in the enumeration, and every enumerated list is a function
  have hfun : ∀ g : Fin n → Fin m, List.ofFn (fun i => (g i).val) ∈ allMaps m n ∧
      disList DX DY (List.ofFn fun i => (g i).val) = dis (matFn DX n) (matFn DY m) g := by
    intro g
    refine ⟨mem_allMaps.2 ⟨by simp, ?_⟩, disList_eq_dis hn _ g ?_⟩
    · intro y hy
      obtain ⟨i, rfl⟩ := List.mem_ofFn.1 hy
      exact (g i).isLt
    · intro x
      simp [List.getD, x.isLt]
  have hlist : ∀ l ∈ allMaps m n, ∃ g : Fin n → Fin m,
      disList DX DY l = dis (matFn DX n) (matFn DY m) g := by
    intro l hl
    obtain ⟨h1, h2⟩ := mem_allMaps.1 hl
    refine ⟨fun i => ⟨l[i.val]'(by rw [h1]; exact i.isLt), h2 _ (List.getElem_mem _)⟩,
      disList_eq_dis hn l _ ?_⟩
    intro x
    have : x.val < l.length := by rw [h1]; exact x.isLt
    simp [List.getD, this]
  obtain ⟨g0, hg0⟩ := exists_minDis (matFn DX n) (matFn DY m)
  cases hmap : (allMaps m n).map (disList DX DY) with
  | nil =>
    have := (hfun g0).1
    have : disList DX DY (List.ofFn fun i => (g0 i).val) ∈ (allMaps m n).map (disList DX DY) :=
      List.mem_map.2 ⟨_, this, rfl⟩
    rw [hmap] at this; simp at this
  | cons a as =>
    simp only [Option.some.injEq]
    apply le_antisymm
    · have hmem : dis (matFn DX n) (matFn DY m) g0 ∈ a :: as := by
        rw [← hmap, ← (hfun g0).2]
        exact List.mem_map.2 ⟨_, (hfun g0).1, rfl⟩
      rw [← hg0]
      exact foldl_min_le_of_mem hmem
    · have hmem := foldl_min_mem a as
      rw [← hmap] at hmem
      obtain ⟨l, hl, e⟩ := List.mem_map.1 hmem
      obtain ⟨g, hg⟩ := hlist l hl
      rw [← e, hg]
      exact minDis_le _ _ g

theorem mgh2Brute_eq {DX DY : Mat} {n m : ℕ} [NeZero n] [NeZero m] (hn : DX.length = n)
    (hm : DY.length = m) : mgh2Brute DX DY = some (mGH2 (matFn DX n) (matFn DY m)) := by
  unfold mgh2Brute
  rw [minDisBrute_eq hn hm, minDisBrute_eq hm hn]
  rfl

end PersimVerif.MGH
