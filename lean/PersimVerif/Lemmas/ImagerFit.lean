import PersimVerif.Lemmas.Imager

/-!
# Helper lemmas for C12/C18: what `fit` computes from its data

`colMin/colMax` are the column-wise extremes of one diagram, `scan` accumulates them over the
collection; the result is the exact hull of all points (lower/upper bound *and* attained).
-/
namespace PersimVerif.Imager
set_option linter.unusedSectionVars false

variable {K : Type} [Field K] [LinearOrder K] [IsStrictOrderedRing K] [FloorRing K]

/-! ### one-dimensional running minimum / maximum as the code writes them -/

def lmin (a : K) (l : List K) : K := l.foldl (fun m x => if x < m then x else m) a
def lmax (a : K) (l : List K) : K := l.foldl (fun m x => if m < x then x else m) a

theorem lmin_spec (l : List K) (a : K) :
    lmin a l ≤ a ∧ (∀ x ∈ l, lmin a l ≤ x) ∧ (lmin a l = a ∨ lmin a l ∈ l) := by
  induction l generalizing a with
  | nil => simp [lmin]
  | cons x t ih =>
    have h := ih (if x < a then x else a)
    simp only [lmin, List.foldl_cons] at h ⊢
    obtain ⟨h1, h2, h3⟩ := h
    split_ifs at h1 h2 h3 ⊢ with hxa
    · refine ⟨h1.trans hxa.le, ?_, ?_⟩
      · intro y hy
        rcases List.mem_cons.mp hy with rfl | hy
        · exact h1
        · exact h2 y hy
      · rcases h3 with h3 | h3
        · right; rw [h3]; exact List.mem_cons_self
        · right; exact List.mem_cons_of_mem _ h3
    · refine ⟨h1, ?_, ?_⟩
      · intro y hy
        rcases List.mem_cons.mp hy with rfl | hy
        · exact h1.trans (not_lt.mp hxa)
        · exact h2 y hy
      · rcases h3 with h3 | h3
        · left; exact h3
        · right; exact List.mem_cons_of_mem _ h3

theorem lmax_spec (l : List K) (a : K) :
    a ≤ lmax a l ∧ (∀ x ∈ l, x ≤ lmax a l) ∧ (lmax a l = a ∨ lmax a l ∈ l) := by
  induction l generalizing a with
  | nil => simp [lmax]
  | cons x t ih =>
    have h := ih (if a < x then x else a)
    simp only [lmax, List.foldl_cons] at h ⊢
    obtain ⟨h1, h2, h3⟩ := h
    split_ifs at h1 h2 h3 ⊢ with hxa
    · refine ⟨hxa.le.trans h1, ?_, ?_⟩
      · intro y hy
        rcases List.mem_cons.mp hy with rfl | hy
        · exact h1
        · exact h2 y hy
      · rcases h3 with h3 | h3
        · right; rw [h3]; exact List.mem_cons_self
        · right; exact List.mem_cons_of_mem _ h3
    · refine ⟨h1, ?_, ?_⟩
      · intro y hy
        rcases List.mem_cons.mp hy with rfl | hy
        · exact (not_lt.mp hxa).trans h1
        · exact h2 y hy
      · rcases h3 with h3 | h3
        · left; exact h3
        · right; exact List.mem_cons_of_mem _ h3

/-- the pairwise fold of `colMin` is the two one-dimensional folds -/
theorem foldl_min_proj (t : Dgm K) (a : K × K) :
    t.foldl (fun a q => (if q.1 < a.1 then q.1 else a.1, if q.2 < a.2 then q.2 else a.2)) a
      = (lmin a.1 (t.map Prod.fst), lmin a.2 (t.map Prod.snd)) := by
  induction t generalizing a with
  | nil => simp [lmin]
  | cons q t ih => simp only [List.foldl_cons, ih, List.map_cons, lmin]

theorem foldl_max_proj (t : Dgm K) (a : K × K) :
    t.foldl (fun a q => (if a.1 < q.1 then q.1 else a.1, if a.2 < q.2 then q.2 else a.2)) a
      = (lmax a.1 (t.map Prod.fst), lmax a.2 (t.map Prod.snd)) := by
  induction t generalizing a with
  | nil => simp [lmax]
  | cons q t ih => simp only [List.foldl_cons, ih, List.map_cons, lmax]

/-- `o` is the minimum of `l` (`none` = `+inf` for the empty list) -/
def IsMin (o : Option K) (l : List K) : Prop :=
  match o with
  | none => l = []
  | some a => a ∈ l ∧ ∀ x ∈ l, a ≤ x

def IsMax (o : Option K) (l : List K) : Prop :=
  match o with
  | none => l = []
  | some a => a ∈ l ∧ ∀ x ∈ l, x ≤ a

theorem colMin_spec {d : Dgm K} (hd : d ≠ []) :
    ∃ mn, colMin d = some mn ∧ IsMin (some mn.1) (d.map Prod.fst) ∧ IsMin (some mn.2) (d.map Prod.snd) := by
  cases d with
  | nil => exact absurd rfl hd
  | cons p t =>
    refine ⟨_, rfl, ?_, ?_⟩
    · rw [foldl_min_proj]
      obtain ⟨h1, h2, h3⟩ := lmin_spec (t.map Prod.fst) p.1
      refine ⟨?_, ?_⟩
      · rcases h3 with h3 | h3
        · simp only [List.map_cons]; rw [h3]; exact List.mem_cons_self
        · simp only [List.map_cons]; exact List.mem_cons_of_mem _ h3
      · intro x hx
        simp only [List.map_cons] at hx
        rcases List.mem_cons.mp hx with rfl | hx
        · exact h1
        · exact h2 x hx
    · rw [foldl_min_proj]
      obtain ⟨h1, h2, h3⟩ := lmin_spec (t.map Prod.snd) p.2
      refine ⟨?_, ?_⟩
      · rcases h3 with h3 | h3
        · simp only [List.map_cons]; rw [h3]; exact List.mem_cons_self
        · simp only [List.map_cons]; exact List.mem_cons_of_mem _ h3
      · intro x hx
        simp only [List.map_cons] at hx
        rcases List.mem_cons.mp hx with rfl | hx
        · exact h1
        · exact h2 x hx

theorem colMax_spec {d : Dgm K} (hd : d ≠ []) :
    ∃ mx, colMax d = some mx ∧ IsMax (some mx.1) (d.map Prod.fst) ∧ IsMax (some mx.2) (d.map Prod.snd) := by
  cases d with
  | nil => exact absurd rfl hd
  | cons p t =>
    refine ⟨_, rfl, ?_, ?_⟩
    · rw [foldl_max_proj]
      obtain ⟨h1, h2, h3⟩ := lmax_spec (t.map Prod.fst) p.1
      refine ⟨?_, ?_⟩
      · rcases h3 with h3 | h3
        · simp only [List.map_cons]; rw [h3]; exact List.mem_cons_self
        · simp only [List.map_cons]; exact List.mem_cons_of_mem _ h3
      · intro x hx
        simp only [List.map_cons] at hx
        rcases List.mem_cons.mp hx with rfl | hx
        · exact h1
        · exact h2 x hx
    · rw [foldl_max_proj]
      obtain ⟨h1, h2, h3⟩ := lmax_spec (t.map Prod.snd) p.2
      refine ⟨?_, ?_⟩
      · rcases h3 with h3 | h3
        · simp only [List.map_cons]; rw [h3]; exact List.mem_cons_self
        · simp only [List.map_cons]; exact List.mem_cons_of_mem _ h3
      · intro x hx
        simp only [List.map_cons] at hx
        rcases List.mem_cons.mp hx with rfl | hx
        · exact h1
        · exact h2 x hx

theorem updMin_spec {o : Option K} {l l' : List K} {m : K} (ho : IsMin o l) (hm : IsMin (some m) l') :
    IsMin (updMin o m) (l ++ l') := by
  obtain ⟨hm1, hm2⟩ := hm
  cases o with
  | none =>
    have : l = [] := ho
    subst this
    exact ⟨by simpa using hm1, by simpa using hm2⟩
  | some a =>
    obtain ⟨ha1, ha2⟩ := ho
    simp only [updMin]
    split_ifs with h
    · refine ⟨List.mem_append_right _ hm1, fun x hx => ?_⟩
      rcases List.mem_append.mp hx with hx | hx
      · exact h.le.trans (ha2 x hx)
      · exact hm2 x hx
    · refine ⟨List.mem_append_left _ ha1, fun x hx => ?_⟩
      rcases List.mem_append.mp hx with hx | hx
      · exact ha2 x hx
      · exact (not_lt.mp h).trans (hm2 x hx)

theorem updMax_spec {o : Option K} {l l' : List K} {m : K} (ho : IsMax o l) (hm : IsMax (some m) l') :
    IsMax (updMax o m) (l ++ l') := by
  obtain ⟨hm1, hm2⟩ := hm
  cases o with
  | none =>
    have : l = [] := ho
    subst this
    exact ⟨by simpa using hm1, by simpa using hm2⟩
  | some a =>
    obtain ⟨ha1, ha2⟩ := ho
    simp only [updMax]
    split_ifs with h
    · refine ⟨List.mem_append_right _ hm1, fun x hx => ?_⟩
      rcases List.mem_append.mp hx with hx | hx
      · exact (ha2 x hx).trans h.le
      · exact hm2 x hx
    · refine ⟨List.mem_append_left _ ha1, fun x hx => ?_⟩
      rcases List.mem_append.mp hx with hx | hx
      · exact ha2 x hx
      · exact (hm2 x hx).trans (not_lt.mp h)

theorem skewDgm_ne_nil {skew : Bool} {d : Dgm K} (hd : d ≠ []) : skewDgm skew d ≠ [] := by
  unfold skewDgm
  split
  · simpa using hd
  · exact hd

/-- the four accumulators describe exactly the points seen so far -/
def ExtOf (e : Ext K) (S : List (K × K)) : Prop :=
  IsMin e.minB (S.map Prod.fst) ∧ IsMax e.maxB (S.map Prod.fst) ∧
  IsMin e.minP (S.map Prod.snd) ∧ IsMax e.maxP (S.map Prod.snd)

theorem scan_spec (skew : Bool) (ds : List (Dgm K)) (hne : ∀ d ∈ ds, d ≠ []) (e : Ext K) (S : List (K × K))
    (he : ExtOf e S) :
    ∃ e', scan skew e ds = .ok e' ∧ ExtOf e' (S ++ ds.flatMap (skewDgm skew)) := by
  induction ds generalizing e S with
  | nil => exact ⟨e, rfl, by simpa using he⟩
  | cons d ds ih =>
    have hd : skewDgm skew d ≠ [] := skewDgm_ne_nil (hne d List.mem_cons_self)
    obtain ⟨mn, hmn, hmn1, hmn2⟩ := colMin_spec hd
    obtain ⟨mx, hmx, hmx1, hmx2⟩ := colMax_spec hd
    obtain ⟨h1, h2, h3, h4⟩ := he
    have he' : ExtOf { minB := updMin e.minB mn.1, maxB := updMax e.maxB mx.1,
                       minP := updMin e.minP mn.2, maxP := updMax e.maxP mx.2 } (S ++ skewDgm skew d) := by
      refine ⟨?_, ?_, ?_, ?_⟩ <;> simp only [List.map_append]
      · exact updMin_spec h1 hmn1
      · exact updMax_spec h2 hmx1
      · exact updMin_spec h3 hmn2
      · exact updMax_spec h4 hmx2
    obtain ⟨e', hs, hE⟩ := ih (fun d' hd' => hne d' (List.mem_cons_of_mem _ hd')) _ _ he'
    refine ⟨e', ?_, ?_⟩
    · simp only [scan, hmn, hmx]; exact hs
    · simpa [List.flatMap_cons, List.append_assoc] using hE

/-! ### the data a `fit` call sees -/

/-- all points of the data, in birth–persistence coordinates -/
def fitPoints (skew : Bool) (X : Input K) : List (K × K) :=
  (ensureIterable X).1.flatMap (skewDgm skew)

/-- the data of a `fit` call inside the property's quantifier: at least one diagram, no empty
    diagram, positive spread in birth and in persistence -/
structure FitValid (skew : Bool) (X : Input K) : Prop where
  nonempty : (ensureIterable X).1 ≠ []
  noEmpty : ∀ d ∈ (ensureIterable X).1, d ≠ []
  spreadB : ∃ p ∈ fitPoints skew X, ∃ q ∈ fitPoints skew X, p.1 < q.1
  spreadP : ∃ p ∈ fitPoints skew X, ∃ q ∈ fitPoints skew X, p.2 < q.2

/-- `[a,b] × [c,d]` is the exact hull of a point list -/
structure Hull (P : List (K × K)) (a b c d : K) : Prop where
  a_mem : a ∈ P.map Prod.fst
  b_mem : b ∈ P.map Prod.fst
  c_mem : c ∈ P.map Prod.snd
  d_mem : d ∈ P.map Prod.snd
  bounds : ∀ p ∈ P, a ≤ p.1 ∧ p.1 ≤ b ∧ c ≤ p.2 ∧ p.2 ≤ d

theorem scan_hull {skew : Bool} {X : Input K} (hX : FitValid skew X) :
    ∃ a b c d, scan skew ⟨none, none, none, none⟩ (ensureIterable X).1 = .ok ⟨some a, some b, some c, some d⟩ ∧
      Hull (fitPoints skew X) a b c d ∧ a < b ∧ c < d := by
  obtain ⟨e', hs, hE⟩ := scan_spec skew (ensureIterable X).1 hX.noEmpty ⟨none, none, none, none⟩ []
    ⟨rfl, rfl, rfl, rfl⟩
  simp only [List.nil_append] at hE
  obtain ⟨p, hp, q, hq, hpq⟩ := hX.spreadB
  obtain ⟨p', hp', q', hq', hpq'⟩ := hX.spreadP
  have hP : fitPoints skew X ≠ [] := List.ne_nil_of_mem hp
  obtain ⟨h1, h2, h3, h4⟩ := hE
  rcases e' with ⟨mnB, mxB, mnP, mxP⟩
  change IsMin mnB _ at h1; change IsMax mxB _ at h2; change IsMin mnP _ at h3; change IsMax mxP _ at h4
  have nn : ∀ f : K × K → K, (fitPoints skew X).map f ≠ [] := fun f => by simpa using hP
  cases mnB with
  | none => exact absurd h1 (nn _)
  | some a =>
  cases mxB with
  | none => exact absurd h2 (nn _)
  | some b =>
  cases mnP with
  | none => exact absurd h3 (nn _)
  | some c =>
  cases mxP with
  | none => exact absurd h4 (nn _)
  | some d =>
  refine ⟨a, b, c, d, hs, ⟨h1.1, h2.1, h3.1, h4.1, fun r hr => ?_⟩, ?_, ?_⟩
  · exact ⟨h1.2 _ (List.mem_map_of_mem hr), h2.2 _ (List.mem_map_of_mem hr),
           h3.2 _ (List.mem_map_of_mem hr), h4.2 _ (List.mem_map_of_mem hr)⟩
  · exact (h1.2 _ (List.mem_map_of_mem hp)).trans_lt (hpq.trans_le (h2.2 _ (List.mem_map_of_mem hq)))
  · exact (h3.2 _ (List.mem_map_of_mem hp')).trans_lt (hpq'.trans_le (h4.2 _ (List.mem_map_of_mem hq')))

/-- `fit` on valid data from a consistent state: the two setters on the data's hull -/
theorem fit_inv {s : State K} (hs : Inv s) {skew : Bool} {X : Input K} (hX : FitValid skew X) :
    ∃ a b c d, Hull (fitPoints skew X) a b c d ∧ a < b ∧ c < d ∧
      fit cl s skew X = .ok (afterPers (afterBirth s a b) c d) ∧ Inv (afterPers (afterBirth s a b) c d) := by
  obtain ⟨a, b, c, d, hsc, hH, hab, hcd⟩ := scan_hull hX
  obtain ⟨e1, i1⟩ := setBirth_inv hs hab
  obtain ⟨e2, i2⟩ := setPers_inv i1 hcd
  refine ⟨a, b, c, d, hH, hab, hcd, ?_, i2⟩
  simp only [fit, hsc, e1, e2]

end PersimVerif.Imager
