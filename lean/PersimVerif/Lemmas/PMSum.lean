import PersimVerif.Spec.Matching
import Mathlib.Algebra.BigOperators.Group.Finset.Piecewise
import Mathlib.Algebra.BigOperators.Group.Finset.Sigma

/-!
# Re-indexing a sum over the columns of a partial matching (helper for the Wasserstein bounds of C14 / C15)

Every column `j` is either matched (then it is reached from exactly one row `i` with `f i = some j`) or
unmatched: `Σ_i [f i = some j] X j + Σ_{j unmatched} X j = Σ_j X j`.
-/
namespace PersimVerif.Lemmas
open PersimVerif.Spec Finset

theorem PM.sum_reindex {M N K : Type} [Fintype M] [Fintype N] [AddCommMonoid K]
    (m : PM M N) (X : N → K) :
    (∑ i, (m.f i).elim 0 X) + (∑ j, (m.g j).elim (X j) (fun _ => 0)) = ∑ j, X j := by
  classical
  have hA : ∑ i, (m.f i).elim 0 X =
      ∑ i, ∑ j, if m.f i = some j then X j else 0 := by
    refine sum_congr rfl fun i _ => ?_
    cases h : m.f i with
    | none => simp
    | some j0 => simp [Finset.sum_ite_eq]
  have hB : ∑ j, (m.g j).elim 0 (fun _ => X j) =
      ∑ j, ∑ i, if m.g j = some i then X j else 0 := by
    refine sum_congr rfl fun j _ => ?_
    cases h : m.g j with
    | none => simp
    | some i0 => simp [Finset.sum_ite_eq]
  have hAB : ∑ i, (m.f i).elim 0 X = ∑ j, (m.g j).elim 0 (fun _ => X j) := by
    rw [hA, hB, sum_comm]
    refine sum_congr rfl fun j _ => sum_congr rfl fun i _ => ?_
    simp only [m.fg i j]
  rw [hAB, ← sum_add_distrib]
  refine sum_congr rfl fun j _ => ?_
  cases m.g j <;> simp

end PersimVerif.Lemmas
