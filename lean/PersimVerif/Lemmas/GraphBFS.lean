import PersimVerif.Lemmas.GraphBasic
/-!
  C17 helper lemmas, part 2 (core Lean only): the specification of graph distance by walks, and the
  proof that the level-BFS of the model computes it (including the fuel argument: `n` levels suffice).
-/
namespace PersimVerif.Graph

/-! ### specification: walks -/

/-- `Walk R k s t`: there is a walk `s = v₀, v₁, …, v_k = t` with `R vᵢ vᵢ₊₁` for all `i` -/
inductive Walk (R : Nat → Nat → Prop) : Nat → Nat → Nat → Prop
  | refl (s : Nat) : Walk R 0 s s
  | step {k s u t : Nat} : Walk R k s u → R u t → Walk R (k + 1) s t

/-- `d` is the graph distance from `s` to `t`: a walk of length `d` exists and no shorter one does -/
def IsDist (R : Nat → Nat → Prop) (s t d : Nat) : Prop := Walk R d s t ∧ ∀ j, j < d → ¬ Walk R j s t

theorem Walk.zero_iff {R : Nat → Nat → Prop} {s t : Nat} : Walk R 0 s t ↔ s = t := by
  constructor
  · intro h; cases h; rfl
  · rintro rfl; exact .refl s

theorem Walk.succ_iff {R : Nat → Nat → Prop} {k s t : Nat} :
    Walk R (k + 1) s t ↔ ∃ u, Walk R k s u ∧ R u t := by
  constructor
  · intro h; cases h with | step h1 h2 => exact ⟨_, h1, h2⟩
  · rintro ⟨u, h1, h2⟩; exact .step h1 h2

theorem Walk.trans {R : Nat → Nat → Prop} {a b s t u : Nat} (h1 : Walk R a s t) (h2 : Walk R b t u) :
    Walk R (a + b) s u := by
  induction h2 with
  | refl => exact h1
  | step _ hr ih => exact .step (ih h1) hr

theorem Walk.single {R : Nat → Nat → Prop} {s t : Nat} (h : R s t) : Walk R 1 s t := .step (.refl s) h

theorem Walk.symm {R : Nat → Nat → Prop} (hR : ∀ a b, R a b → R b a) {k s t : Nat} (h : Walk R k s t) :
    Walk R k t s := by
  induction h with
  | refl => exact .refl _
  | step _ hr ih =>
    have := (Walk.single (hR _ _ hr)).trans ih
    rwa [Nat.add_comm] at this

theorem IsDist.unique {R : Nat → Nat → Prop} {s t d d' : Nat} (h : IsDist R s t d) (h' : IsDist R s t d') :
    d = d' := by
  rcases Nat.lt_trichotomy d d' with hlt | heq | hgt
  · exact absurd h.1 (h'.2 d hlt)
  · exact heq
  · exact absurd h'.1 (h.2 d' hgt)

theorem IsDist.symm {R : Nat → Nat → Prop} (hR : ∀ a b, R a b → R b a) {s t d : Nat} (h : IsDist R s t d) :
    IsDist R t s d :=
  ⟨h.1.symm hR, fun j hj hw => h.2 j hj (hw.symm hR)⟩

/-- every walk can be shortened to a distance (well-ordering of ℕ) -/
theorem Walk.exists_isDist {R : Nat → Nat → Prop} {k s t : Nat} (h : Walk R k s t) :
    ∃ d, d ≤ k ∧ IsDist R s t d := by
  induction k using Nat.strongRecOn with
  | _ k ih =>
    by_cases hm : ∃ j, j < k ∧ Walk R j s t
    · obtain ⟨j, hj, hw⟩ := hm
      obtain ⟨d, hd, hD⟩ := ih j hj hw
      exact ⟨d, by omega, hD⟩
    · exact ⟨k, Nat.le_refl k, h, fun j hj hw => hm ⟨j, hj, hw⟩⟩

/-! ### iterated levels -/

/-- `k` BFS levels applied to `B` -/
def ballK (rows : BMat) : Nat → List Bool → List Bool
  | 0, B => B
  | k + 1, B => ballK rows k (ballNext rows B)

theorem ballK_succ (rows : BMat) (k : Nat) (B : List Bool) :
    ballK rows (k + 1) B = ballNext rows (ballK rows k B) := by
  induction k generalizing B with
  | zero => rfl
  | succ k ih => rw [ballK, ih]; rfl

@[simp] theorem length_levels (rows : BMat) (f : Nat) (B : List Bool) : (levels rows f B).length = f := by
  induction f generalizing B with
  | zero => rfl
  | succ f ih => simp [levels, ih]

theorem getElem_levels (rows : BMat) (f : Nat) (B : List Bool) (k : Nat) (h : k < (levels rows f B).length) :
    (levels rows f B)[k] = ballK rows k B := by
  induction f generalizing B k with
  | zero => simp at h
  | succ f ih =>
    cases k with
    | zero => simp [levels, ballK]
    | succ k => simp [levels, ballK, ih]

theorem length_ballK (rows : BMat) (B : List Bool) (hl : rows.length = B.length) (k : Nat) :
    (ballK rows k B).length = B.length := by
  induction k with
  | zero => rfl
  | succ k ih => rw [ballK_succ, length_ballNext, ih]; omega

theorem mem_ballK_succ (rows : BMat) (B : List Bool) (hl : rows.length = B.length) (k t : Nat) :
    Mem (ballK rows (k + 1) B) t ↔ Mem (ballK rows k B) t ∨ ∃ u, Adj rows t u ∧ Mem (ballK rows k B) u := by
  rw [ballK_succ, mem_ballNext rows _ (by rw [length_ballK rows B hl k, hl])]

theorem mem_ballK_mono (rows : BMat) (B : List Bool) (hl : rows.length = B.length) {j k : Nat} (hjk : j ≤ k)
    {t : Nat} (h : Mem (ballK rows j B) t) : Mem (ballK rows k B) t := by
  induction hjk with
  | refl => exact h
  | step _ ih => exact (mem_ballK_succ rows B hl _ t).2 (Or.inl ih)

/-! ### levels are balls of the walk metric -/

/-- rows are symmetric (as every `adjOf A` is) -/
def Symm (rows : BMat) : Prop := ∀ i j, ent false rows i j = ent false rows j i

theorem adjOf_Symm (A : Mat) : Symm (adjOf A) := adjOf_symm A

theorem Symm.adj {rows : BMat} (h : Symm rows) (a b : Nat) : Adj rows a b → Adj rows b a := by
  unfold Adj; rw [h a b]; exact id

theorem Adj.lt_right {rows : BMat} (hs : Symm rows) {u t : Nat} (h : Adj rows u t) : t < rows.length :=
  (hs.adj _ _ h).lt_left

theorem Walk.lt_right {rows : BMat} (hs : Symm rows) {k s t : Nat} (h : Walk (Adj rows) k s t)
    (hsn : s < rows.length) : t < rows.length := by
  cases h with
  | refl => exact hsn
  | step _ hr => exact hr.lt_right hs

theorem mem_ballK_iff (rows : BMat) (hs : Symm rows) {s : Nat} (hsn : s < rows.length) (k t : Nat) :
    Mem (ballK rows k (unit rows.length s)) t ↔ ∃ j, j ≤ k ∧ Walk (Adj rows) j s t := by
  induction k generalizing t with
  | zero =>
    simp only [ballK, mem_unit, Nat.le_zero]
    constructor
    · rintro ⟨_, rfl⟩; exact ⟨0, rfl, .refl _⟩
    · rintro ⟨j, rfl, h⟩
      have := Walk.zero_iff.1 h
      subst this
      exact ⟨hsn, rfl⟩
  | succ k ih =>
    rw [mem_ballK_succ rows _ (by simp)]
    constructor
    · rintro (h | ⟨u, hr, h⟩)
      · obtain ⟨j, hj, hw⟩ := (ih t).1 h
        exact ⟨j, by omega, hw⟩
      · obtain ⟨j, hj, hw⟩ := (ih u).1 h
        exact ⟨j + 1, by omega, .step hw (hs.adj _ _ hr)⟩
    · rintro ⟨j, hj, hw⟩
      cases j with
      | zero => left; exact (ih t).2 ⟨0, by omega, hw⟩
      | succ j =>
        obtain ⟨u, hw', hr⟩ := Walk.succ_iff.1 hw
        right
        exact ⟨u, hs.adj _ _ hr, (ih u).2 ⟨j, by omega, hw'⟩⟩

/-! ### the fuel argument: a set that grows inside `n` elements is stable after `n - 1` steps -/

theorem count_le_of_subset : ∀ (B C : List Bool), B.length = C.length → (∀ t, Mem B t → Mem C t) →
    B.count true ≤ C.count true ∧ (B.count true = C.count true → B = C)
  | [], [], _, _ => by simp
  | [], _ :: _, h, _ => by simp at h
  | _ :: _, [], h, _ => by simp at h
  | b :: B, c :: C, hl, hsub => by
    have ih := count_le_of_subset B C (by simpa using hl) (fun t ht => by
      have := hsub (t + 1) (by simpa using ht)
      simpa using this)
    have h0 : b = true → c = true := fun hb => by
      have := hsub 0 (by simpa using hb)
      simpa using this
    cases b <;> cases c <;> simp_all <;> omega

theorem one_le_count_of_mem {B : List Bool} {t : Nat} (h : Mem B t) : 1 ≤ B.count true := by
  have hlt := h.lt
  have : B[t] = true := by
    simpa [Mem, List.getD_eq_getElem?_getD, List.getElem?_eq_getElem hlt] using h
  exact List.count_pos_iff.2 (this ▸ List.getElem_mem hlt)

/-- either the level sequence has already stopped growing or level `k+1` has at least `k+2` elements -/
theorem grow_or_stable (rows : BMat) (B : List Bool) (hl : rows.length = B.length) (h1 : 1 ≤ B.count true)
    (k : Nat) :
    ballK rows (k + 1) B = ballK rows k B ∨ k + 2 ≤ (ballK rows (k + 1) B).count true := by
  have step : ∀ j, ballK rows (j + 1) B = ballK rows j B ∨
      (ballK rows j B).count true + 1 ≤ (ballK rows (j + 1) B).count true := by
    intro j
    have hc := count_le_of_subset (ballK rows j B) (ballK rows (j + 1) B)
      (by rw [length_ballK rows B hl, length_ballK rows B hl])
      (fun t ht => mem_ballK_mono rows B hl (Nat.le_succ j) ht)
    by_cases he : (ballK rows j B).count true = (ballK rows (j + 1) B).count true
    · left; exact (hc.2 he).symm
    · right; omega
  induction k with
  | zero =>
    rcases step 0 with h | h
    · left; exact h
    · right; simp only [ballK] at h ⊢; omega
  | succ k ih =>
    rcases ih with h | h
    · left; rw [ballK_succ rows (k + 1), h, ← ballK_succ]; exact h
    · rcases step (k + 1) with h' | h'
      · left; exact h'
      · right; omega

theorem stable_from (rows : BMat) (B : List Bool) (k : Nat) (h : ballK rows (k + 1) B = ballK rows k B)
    (m : Nat) : ballK rows (k + m) B = ballK rows k B := by
  induction m with
  | zero => rfl
  | succ m ih => rw [← Nat.add_assoc, ballK_succ, ih, ← ballK_succ, h]

/-- with `n = B.length ≥ 1` vertices, nothing is added after level `n - 1` -/
theorem mem_ballK_fuel (rows : BMat) (B : List Bool) (hl : rows.length = B.length) (h1 : 1 ≤ B.count true)
    (m : Nat) {t : Nat} (h : Mem (ballK rows m B) t) : Mem (ballK rows (B.length - 1) B) t := by
  have hpos : 1 ≤ B.length := Nat.le_trans h1 List.count_le_length
  by_cases hm : m ≤ B.length - 1
  · exact mem_ballK_mono rows B hl hm h
  · have hst : ballK rows (B.length - 1 + 1) B = ballK rows (B.length - 1) B := by
      rcases grow_or_stable rows B hl h1 (B.length - 1) with h' | h'
      · exact h'
      · have := List.count_le_length (a := true) (l := ballK rows (B.length - 1 + 1) B)
        rw [length_ballK rows B hl] at this
        omega
    have := stable_from rows B (B.length - 1) hst (m - (B.length - 1))
    rw [show B.length - 1 + (m - (B.length - 1)) = m by omega] at this
    rwa [this] at h

/-! ### the BFS distance is the walk distance -/

/-- `shortest_path(…)[s, t]` of the model -/
def dist (rows : BMat) (s t : Nat) : Option Nat := ent none (bfsAll rows) s t

@[simp] theorem length_bfsAll (rows : BMat) : (bfsAll rows).length = rows.length := by simp [bfsAll]

theorem row_length_bfsAll (rows : BMat) : ∀ r ∈ bfsAll rows, r.length = rows.length := by
  intro r hr
  simp only [bfsAll, List.mem_map] at hr
  obtain ⟨s, _, rfl⟩ := hr
  simp [distRow]

theorem dist_eq (rows : BMat) {s t : Nat} (hs : s < rows.length) (ht : t < rows.length) :
    dist rows s t = (levels rows rows.length (unit rows.length s)).findIdx? fun B => B.getD t false := by
  have : bfsAll rows = tab rows.length rows.length fun s t =>
      (levels rows rows.length (unit rows.length s)).findIdx? fun B => B.getD t false := by
    simp [bfsAll, tab, distRow]
  rw [dist, this, ent_tab none _ hs ht]

theorem dist_of_ge (rows : BMat) {s t : Nat} (h : rows.length ≤ s ∨ rows.length ≤ t) : dist rows s t = none := by
  have : bfsAll rows = tab rows.length rows.length fun s t =>
      (levels rows rows.length (unit rows.length s)).findIdx? fun B => B.getD t false := by
    simp [bfsAll, tab, distRow]
  rw [dist, this]
  rcases h with h | h
  · exact ent_tab_of_ge_left none _ h
  · exact ent_tab_of_ge_right none _ h

theorem dist_eq_some_iff' (rows : BMat) {s t : Nat} (hs : s < rows.length) (ht : t < rows.length) (d : Nat) :
    dist rows s t = some d ↔
      d < rows.length ∧ Mem (ballK rows d (unit rows.length s)) t ∧
        ∀ j, j < d → ¬ Mem (ballK rows j (unit rows.length s)) t := by
  rw [dist_eq rows hs ht, List.findIdx?_eq_some_iff_getElem]
  simp only [length_levels]
  constructor
  · rintro ⟨h, h1, h2⟩
    refine ⟨h, ?_, ?_⟩
    · simpa [Mem, getElem_levels] using h1
    · intro j hj
      have := h2 j hj
      simpa [Mem, getElem_levels] using this
  · rintro ⟨h, h1, h2⟩
    refine ⟨h, ?_, ?_⟩
    · simpa [Mem, getElem_levels] using h1
    · intro j hj
      have := h2 j hj
      simpa [Mem, getElem_levels] using this

variable (rows : BMat) (hsym : Symm rows)
include hsym

/-- **BFS correctness, part 1**: a finite entry is the length of a shortest walk -/
theorem isDist_of_dist {s t d : Nat} (hs : s < rows.length) (ht : t < rows.length)
    (h : dist rows s t = some d) : IsDist (Adj rows) s t d := by
  obtain ⟨_, h1, h2⟩ := (dist_eq_some_iff' rows hs ht d).1 h
  obtain ⟨j, hj, hw⟩ := (mem_ballK_iff rows hsym hs d t).1 h1
  have hno : ∀ i, i < d → ¬ Walk (Adj rows) i s t := fun i hi hw' =>
    h2 i hi ((mem_ballK_iff rows hsym hs i t).2 ⟨i, Nat.le_refl i, hw'⟩)
  have : j = d := by
    rcases Nat.lt_or_ge j d with hlt | hge
    · exact absurd hw (hno j hlt)
    · omega
  subst this
  exact ⟨hw, hno⟩

/-- **BFS correctness, part 2 (fuel)**: whatever can be reached at all gets a finite entry `≤` the walk -/
theorem dist_of_walk {s t k : Nat} (hs : s < rows.length) (hw : Walk (Adj rows) k s t) :
    ∃ d, d ≤ k ∧ dist rows s t = some d := by
  have ht : t < rows.length := hw.lt_right hsym hs
  have hmem : Mem (ballK rows k (unit rows.length s)) t := (mem_ballK_iff rows hsym hs k t).2 ⟨k, Nat.le_refl k, hw⟩
  have hfuel := mem_ballK_fuel rows (unit rows.length s) (by simp)
    (one_le_count_of_mem ((mem_unit rows.length s s).2 ⟨hs, rfl⟩)) k hmem
  simp only [length_unit] at hfuel
  cases hd : dist rows s t with
  | none =>
    rw [dist_eq rows hs ht, List.findIdx?_eq_none_iff] at hd
    have hlv : rows.length - 1 < (levels rows rows.length (unit rows.length s)).length := by
      simp; omega
    have := hd _ (List.getElem_mem hlv)
    rw [getElem_levels] at this
    unfold Mem at hfuel
    rw [this] at hfuel
    exact absurd hfuel (by simp)
  | some d =>
    refine ⟨d, ?_, rfl⟩
    have hD := isDist_of_dist rows hsym hs ht hd
    rcases Nat.lt_or_ge k d with hlt | hge
    · exact absurd hw (hD.2 k hlt)
    · exact hge

/-- **BFS correctness**: the entry is `some d` exactly when `d` is the walk distance -/
theorem dist_eq_some_iff {s t : Nat} (hs : s < rows.length) (ht : t < rows.length) (d : Nat) :
    dist rows s t = some d ↔ IsDist (Adj rows) s t d := by
  constructor
  · exact isDist_of_dist rows hsym hs ht
  · intro hD
    obtain ⟨d', _, hd'⟩ := dist_of_walk rows hsym hs hD.1
    have := (isDist_of_dist rows hsym hs ht hd').unique hD
    rw [hd', this]

/-- … and `none` (∞) exactly when no walk exists -/
theorem dist_eq_none_iff {s t : Nat} (hs : s < rows.length) (ht : t < rows.length) :
    dist rows s t = none ↔ ∀ k, ¬ Walk (Adj rows) k s t := by
  constructor
  · intro h k hw
    obtain ⟨d, _, hd⟩ := dist_of_walk rows hsym hs hw
    rw [h] at hd
    exact absurd hd (by simp)
  · intro h
    cases hd : dist rows s t with
    | none => rfl
    | some d => exact absurd (isDist_of_dist rows hsym hs ht hd).1 (h d)

omit hsym in
theorem dist_lt {s t d : Nat} (hs : s < rows.length) (ht : t < rows.length) (h : dist rows s t = some d) :
    d < rows.length := ((dist_eq_some_iff' rows hs ht d).1 h).1

/-! ### metric laws of the BFS matrix -/

theorem dist_self {s : Nat} (hs : s < rows.length) : dist rows s s = some 0 :=
  (dist_eq_some_iff rows hsym hs hs 0).2 ⟨.refl s, fun j hj => by omega⟩

theorem dist_symm (s t : Nat) : dist rows s t = dist rows t s := by
  by_cases hs : s < rows.length
  · by_cases ht : t < rows.length
    · apply Option.ext
      intro d
      rw [dist_eq_some_iff rows hsym hs ht, dist_eq_some_iff rows hsym ht hs]
      exact ⟨IsDist.symm hsym.adj, IsDist.symm hsym.adj⟩
    · rw [dist_of_ge rows (Or.inr (Nat.le_of_not_lt ht)), dist_of_ge rows (Or.inl (Nat.le_of_not_lt ht))]
  · rw [dist_of_ge rows (Or.inl (Nat.le_of_not_lt hs)), dist_of_ge rows (Or.inr (Nat.le_of_not_lt hs))]

theorem eq_of_dist_zero {s t : Nat} (hs : s < rows.length) (ht : t < rows.length) (h : dist rows s t = some 0) :
    s = t := Walk.zero_iff.1 (isDist_of_dist rows hsym hs ht h).1

theorem dist_triangle {s t u a b : Nat} (hs : s < rows.length) (ht : t < rows.length)
    (hu : u < rows.length) (h1 : dist rows s t = some a) (h2 : dist rows t u = some b) :
    ∃ c, c ≤ a + b ∧ dist rows s u = some c :=
  dist_of_walk rows hsym hs ((isDist_of_dist rows hsym hs ht h1).1.trans (isDist_of_dist rows hsym ht hu h2).1)

end PersimVerif.Graph
