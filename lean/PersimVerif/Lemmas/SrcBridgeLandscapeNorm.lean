import PersimVerif.Model.PNorm
import PersimVerif.Lemmas.SrcLibLandscape

/-!
# Bridge between the translated norm entry points of the landscape classes and Model/PNorm.lean (C10)

`Generated/SrcPLNorm.lean` (written by harness/translator/py2lean_landscape.py from persim/landscapes/base.py, exact.py,
approximate.py and auxiliary.py on every run) holds `PersLandscape.p_norm` (the validation of `p`, the lazy
`compute_landscape()`, the discarded `sup_norm()` for `p == -1`), `PersLandscapeExact.p_norm / sup_norm`,
`PersLandscapeApprox.p_norm / sup_norm / values_to_pairs`, and what `auxiliary._p_norm` does around its segment loop (the two
nested loops, `result = 0.0`, the final `** (1.0 / p)`), translated statement by statement.  This hand-written file has

* `Ref.*` -- the REVIEWED Lean text of that translation (the generated file proves `generated = Ref.*`, `src_<def>_eq_ref`, by
  `rfl`; generated callees -- among them `p_norm_segment` of Generated/SrcPNorm.lean -- are parameters of the `Ref` definitions);
* the proofs that `Ref.*` equal the models `checkP`, `accumulate` / `pNormGen`, `supNormExact`, `supNormApprox`,
  `valuesToPairs`, `pNormMethod` for EVERY landscape object, computed or lazy (`compute=False`).
Float division is total in the translation (as in Generated/SrcPNorm.lean); where Python raises `ZeroDivisionError` is a
hypothesis of `*_p_norm_eq_model` (no vertical segment, `p != 0`), exactly the guards of `pNormMethod`.
Mathlib-free.
-/
set_option linter.unusedVariables false
set_option linter.unusedSectionVars false
set_option linter.unusedSimpArgs false
set_option linter.constructorNameAsVariable false

namespace PersimVerif.SrcBridge.LandscapeNorm
open PersimVerif.PNorm PersimVerif.SrcLib PersimVerif.SrcLib.Landscape

/-! ## `Ref`: the reviewed Lean text of the translation -/
namespace Ref

section
variable {α β : Type} [Add α] [Sub α] [Mul α] [Div α] [Neg α] [Zero α] [One α] [LT α] [DecidableLT α]
  [BEq α] [OfNat α 2] [Max α]

/-- `PersLandscape.p_norm` (base.py), `self.compute_landscape` / `self.sup_norm` being the subclass's methods -/
def base_p_norm {σ : Type} (compute_landscape : σ → σ) (sup_norm : σ → Except Err (σ × α)) (self : σ) (p : α) :
    Except Err (σ × Option α) :=
  if p < -1 ∨ (-1 < p ∧ p < 0) then
    .error Err.valueError
  else
    let self_1 : σ := compute_landscape self
    if p == -1 then
      match sup_norm self_1 with
      | .error e => .error e
      | .ok t =>
      let self_2 : σ := t.1
      .ok (self_2, some t.2)
    else
      .ok (self_1, none)

/-- one round of `for [[x0, y0], [x1, y1]] in zip(l, l[1:])` of `_p_norm` (`seg`: the translated segment region) -/
def _p_norm_round_2 (seg : α → α → α → α → α → α) (p : α) (result : α) (x0_y0_x1_y1 : (α × α) × (α × α)) : α :=
  let x0 : α := x0_y0_x1_y1.1.1
  let y0 : α := x0_y0_x1_y1.1.2
  let x1 : α := x0_y0_x1_y1.2.1
  let y1 : α := x0_y0_x1_y1.2.2
  let result_1 : α := result + seg p x0 y0 x1 y1
  result_1

/-- one round of `for l in critical_pairs` of `_p_norm` -/
def _p_norm_round (round_2 : α → α → (α × α) × (α × α) → α) (p : α) (result : α) (l : List (α × α)) : α :=
  let result_1 : α := (consecutive l).foldl (round_2 p) result
  result_1

/-- `auxiliary._p_norm` -/
def _p_norm (round : α → α → List (α × α) → α) (pow : α → α → α) (p : α) (critical_pairs : List (List (α × α))) : α :=
  let result : α := 0
  let result_1 : α := critical_pairs.foldl (round p) result
  pow result_1 (1 / p)

/-- `PersLandscapeExact.sup_norm` -/
def exact_sup_norm (sweep : List β → List (List (α × α))) (self : ExactObj α β) : Except Err (ExactObj α β × α) :=
  let self_1 : ExactObj α β := ExactObj.compute_landscape sweep self
  let cvals : List (α × α) := self_1.critical_pairs.flatten
  match pyMaxBy (fun (it : α × α) => it.2) (cvals.map fun q => (absA q.1, absA q.2)) with
  | none => .error Err.valueError
  | some t =>
  .ok (self_1, t.2)

/-- `PersLandscapeExact.p_norm` -/
def exact_p_norm (bp : ExactObj α β → α → Except Err (ExactObj α β × Option α))
    (pn : α → List (List (α × α)) → α) (self : ExactObj α β) (p : α) : Except Err (ExactObj α β × α) :=
  match bp self p with
  | .error e => .error e
  | .ok t =>
  let self_1 : ExactObj α β := t.1
  .ok (self_1, pn p self_1.critical_pairs)

/-- one round of `for vals in self.values` of `values_to_pairs` -/
def values_to_pairs_round (grid_values : List α) (result : List (List (α × α))) (vals : List α) : List (List (α × α)) :=
  let pairs : List (α × α) := grid_values.zip vals
  let result_1 : List (List (α × α)) := result ++ [pairs]
  result_1

/-- `PersLandscapeApprox.values_to_pairs` -/
def values_to_pairs (round : List α → List (List (α × α)) → List α → List (List (α × α)))
    (linspace : α → α → Nat → List α) (ramp : List β → α → α → Nat → List (List α)) (self : GridObj α β) :
    GridObj α β × List (List (α × α)) :=
  let self_1 : GridObj α β := GridObj.compute_landscape ramp self
  let grid_values : List α := linspace self_1.start self_1.stop self_1.num_steps
  let result : List (List (α × α)) := []
  let result_1 : List (List (α × α)) := self_1.values.foldl (round grid_values) result
  (self_1, result_1)

/-- `PersLandscapeApprox.sup_norm` -/
def grid_sup_norm (ramp : List β → α → α → Nat → List (List α)) (self : GridObj α β) : Except Err (GridObj α β × α) :=
  let self_1 : GridObj α β := GridObj.compute_landscape ramp self
  match npMax (self_1.values.map fun r => r.map fun v => absA v).flatten with
  | none => .error Err.valueError
  | some t =>
  .ok (self_1, t)

/-- `PersLandscapeApprox.p_norm` -/
def grid_p_norm (bp : GridObj α β → α → Except Err (GridObj α β × Option α))
    (v2p : GridObj α β → GridObj α β × List (List (α × α))) (pn : α → List (List (α × α)) → α)
    (self : GridObj α β) (p : α) : Except Err (GridObj α β × α) :=
  match bp self p with
  | .error e => .error e
  | .ok t =>
  let self_1 : GridObj α β := t.1
  let t_1 : GridObj α β × List (List (α × α)) := v2p self_1
  let self_2 : GridObj α β := t_1.1
  .ok (self_2, pn p t_1.2)

end
end Ref

/-! ## the reviewed text against the models -/

section
variable {α β : Type} [Add α] [Sub α] [Mul α] [Div α] [Neg α] [Zero α] [One α] [LT α] [DecidableLT α]
  [BEq α] [OfNat α 2] [Max α]

/-- `PersLandscape.p_norm`: the validation is the model's `checkP` -/
theorem base_p_norm_eq_model {σ : Type} (cl : σ → σ) (sn : σ → Except Err (σ × α)) (self : σ) (p : α) :
    Ref.base_p_norm cl sn self p =
      match checkP p with
      | .reject => .error Err.valueError
      | .sup => (sn (cl self)).map fun t => (t.1, some t.2)
      | .norm => .ok (cl self, none) := by
  unfold Ref.base_p_norm checkP
  by_cases h1 : p < -1 ∨ (-1 < p ∧ p < 0)
  · rw [if_pos h1, if_pos h1]
  · rw [if_neg h1, if_neg h1]
    by_cases h2 : (p == -1) = true
    · simp only [h2, if_true]
      cases sn (cl self) <;> rfl
    · simp only [h2, if_false]
      rfl

theorem consecutive_eq_segs : ∀ (l : List (α × α)), consecutive l = segs l
  | [] => rfl
  | [_] => rfl
  | a :: b :: rest => by
    simp only [consecutive, segs]
    rw [consecutive_eq_segs (b :: rest)]

theorem foldl_add_map {γ : Type} (f : γ → α) : ∀ (l : List γ) (init : α),
    l.foldl (fun r s => r + f s) init = (l.map f).foldl (· + ·) init
  | [], _ => rfl
  | x :: l, init => by simp only [List.foldl, List.map_cons]; exact foldl_add_map f l _

theorem foldl_flatMap' {γ δ : Type} (g : δ → α) (f : γ → List δ) : ∀ (l : List γ) (init : α),
    (l.flatMap fun x => (f x).map g).foldl (· + ·) init =
      l.foldl (fun acc x => ((f x).map g).foldl (· + ·) acc) init
  | [], _ => rfl
  | x :: l, init => by
    simp only [List.flatMap_cons, List.foldl_append, List.foldl]
    exact foldl_flatMap' g f l _

/-- the two nested loops of `_p_norm` add up the model's `segTerms` in the model's order -/
theorem p_norm_loops (seg : α → α → α → α → α → α) (pow : α → α → α) (p : α) (cps : List (List (α × α))) :
    Ref._p_norm (Ref._p_norm_round (Ref._p_norm_round_2 seg)) pow p cps = pow (accumulate (seg p) cps) (1 / p) := by
  unfold Ref._p_norm accumulate segTerms
  simp only
  congr 1
  rw [foldl_flatMap' (fun (s : (α × α) × (α × α)) => seg p s.1.1 s.1.2 s.2.1 s.2.2) segs]
  congr 1
  funext acc l
  unfold Ref._p_norm_round
  simp only
  rw [consecutive_eq_segs, ← foldl_add_map]
  rfl

/-- `_p_norm` with the translated segment region `seg = segTerm …`: the model's `pNormGen` -/
theorem p_norm_eq_model (seg : α → α → α → α → α → α) (pow : α → α → α) (expm1 log : α → α)
    (hseg : ∀ p x0 y0 x1 y1, seg p x0 y0 x1 y1 =
      segTerm (fun x => pow x p) (fun x => pow x (p + 1)) (fun r => -(expm1 ((p + 1) * log r))) (p + 1) x0 y0 x1 y1)
    (p : α) (cps : List (List (α × α))) :
    Ref._p_norm (Ref._p_norm_round (Ref._p_norm_round_2 seg)) pow p cps =
      pNormGen (fun r => pow r (1 / p)) (fun x => pow x p) (fun x => pow x (p + 1))
        (fun r => -(expm1 ((p + 1) * log r))) (p + 1) cps := by
  rw [p_norm_loops]
  unfold pNormGen pNormPowGen
  have : seg p = segTerm (fun x => pow x p) (fun x => pow x (p + 1)) (fun r => -(expm1 ((p + 1) * log r))) (p + 1) := by
    funext x0 y0 x1 y1; exact hseg p x0 y0 x1 y1
  rw [this]

/-! ### sup norms -/

theorem foldl_key_max {γ : Type} (key : γ → α) (t : List γ) (p : γ) :
    key (t.foldl (fun a q => if key a < key q then q else a) p) =
      (t.map key).foldl (fun best v => if best < v then v else best) (key p) := by
  induction t generalizing p with
  | nil => rfl
  | cons q t ih =>
    simp only [List.foldl, List.map_cons]
    rw [ih]
    by_cases h : key p < key q <;> simp [h]

theorem compute_idem (sweep : List β → List (List (α × α))) (o : ExactObj α β) :
    ExactObj.compute_landscape sweep (ExactObj.compute_landscape sweep o) = ExactObj.compute_landscape sweep o := by
  unfold ExactObj.compute_landscape
  by_cases h : o.critical_pairs.isEmpty = true
  · simp only [h, if_true]
    split <;> rfl
  · simp [h]

theorem gcompute_idem (ramp : List β → α → α → Nat → List (List α)) (o : GridObj α β) :
    GridObj.compute_landscape ramp (GridObj.compute_landscape ramp o) = GridObj.compute_landscape ramp o := by
  unfold GridObj.compute_landscape
  by_cases h : sizeZero o.values = true
  · simp only [h, if_true]
    split <;> rfl
  · simp [h]

/-- `PersLandscapeExact.sup_norm` is `supNormExact` of the computed critical pairs -/
theorem exact_sup_norm_eq_model (sweep : List β → List (List (α × α))) (self : ExactObj α β) :
    Ref.exact_sup_norm sweep self =
      (supNormExact (ExactObj.compute_landscape sweep self).critical_pairs).map
        fun m => (ExactObj.compute_landscape sweep self, m) := by
  unfold Ref.exact_sup_norm supNormExact
  simp only
  cases h : (ExactObj.compute_landscape sweep self).critical_pairs.flatten with
  | nil => rfl
  | cons a rest =>
    simp only [List.map_cons, pyMaxBy, pyMax, foldl_key_max, List.map_map, Function.comp_def]
    rfl

/-- `PersLandscapeApprox.sup_norm` is `supNormApprox` of the computed values -/
theorem grid_sup_norm_eq_model (ramp : List β → α → α → Nat → List (List α)) (self : GridObj α β) :
    Ref.grid_sup_norm ramp self =
      (supNormApprox (GridObj.compute_landscape ramp self).values).map
        fun m => (GridObj.compute_landscape ramp self, m) := by
  unfold Ref.grid_sup_norm supNormApprox
  simp only
  rw [← List.map_flatten]
  cases h : List.map (fun v => absA v) (GridObj.compute_landscape ramp self).values.flatten with
  | nil =>
    have : List.map absA (GridObj.compute_landscape ramp self).values.flatten = [] := h
    simp only [this]; rfl
  | cons a rest =>
    have : List.map absA (GridObj.compute_landscape ramp self).values.flatten = a :: rest := h
    simp only [this]; rfl

/-! ### `values_to_pairs`, the two `p_norm` methods -/

theorem foldl_append_singleton {γ δ : Type} (f : δ → γ) : ∀ (l : List δ) (acc : List γ),
    l.foldl (fun a x => a ++ [f x]) acc = acc ++ l.map f
  | [], acc => by simp
  | x :: l, acc => by simp [foldl_append_singleton f l]

theorem values_to_pairs_eq_model (linspace : α → α → Nat → List α) (ramp : List β → α → α → Nat → List (List α))
    (self : GridObj α β) :
    Ref.values_to_pairs Ref.values_to_pairs_round linspace ramp self =
      (GridObj.compute_landscape ramp self,
        valuesToPairs (linspace (GridObj.compute_landscape ramp self).start (GridObj.compute_landscape ramp self).stop
            (GridObj.compute_landscape ramp self).num_steps) (GridObj.compute_landscape ramp self).values) := by
  unfold Ref.values_to_pairs valuesToPairs
  simp only
  congr 1
  have : ∀ g : List α, Ref.values_to_pairs_round g = fun a x => a ++ [g.zip x] := fun g => rfl
  rw [this, foldl_append_singleton]
  simp

/-- `PersLandscapeExact.p_norm`, every `p` and every object: validation, lazy computation, the discarded `sup_norm()`
    for `p == -1`, then `_p_norm` on the computed critical pairs -/
theorem exact_p_norm_eq (sweep : List β → List (List (α × α))) (pn : α → List (List (α × α)) → α)
    (bp : ExactObj α β → α → Except Err (ExactObj α β × Option α))
    (sn : ExactObj α β → Except Err (ExactObj α β × α))
    (hb : ∀ o p, bp o p = Ref.base_p_norm (ExactObj.compute_landscape sweep) sn o p)
    (hs : ∀ o, sn o = (supNormExact (ExactObj.compute_landscape sweep o).critical_pairs).map
        fun m => (ExactObj.compute_landscape sweep o, m))
    (self : ExactObj α β) (p : α) :
    Ref.exact_p_norm bp pn self p =
      match checkP p with
      | .reject => .error Err.valueError
      | .sup => (supNormExact (ExactObj.compute_landscape sweep self).critical_pairs).map fun _ =>
          (ExactObj.compute_landscape sweep self, pn p (ExactObj.compute_landscape sweep self).critical_pairs)
      | .norm => .ok (ExactObj.compute_landscape sweep self, pn p (ExactObj.compute_landscape sweep self).critical_pairs) := by
  unfold Ref.exact_p_norm
  rw [hb, base_p_norm_eq_model]
  cases checkP p with
  | reject => rfl
  | norm => rfl
  | sup =>
    simp only [hs, compute_idem]
    cases supNormExact (ExactObj.compute_landscape sweep self).critical_pairs <;> rfl

/-- … and under the guards of the model (`p` not the sup-norm code `-1`, no vertical segment, `p != 0`) it is `pNormMethod` -/
theorem exact_p_norm_eq_model (sweep : List β → List (List (α × α))) (pow : α → α → α) (expm1 log : α → α)
    (pn : α → List (List (α × α)) → α)
    (bp : ExactObj α β → α → Except Err (ExactObj α β × Option α))
    (sn : ExactObj α β → Except Err (ExactObj α β × α))
    (hb : ∀ o p, bp o p = Ref.base_p_norm (ExactObj.compute_landscape sweep) sn o p)
    (hs : ∀ o, sn o = (supNormExact (ExactObj.compute_landscape sweep o).critical_pairs).map
        fun m => (ExactObj.compute_landscape sweep o, m))
    (hpn : ∀ p cps, pn p cps = pNormGen (fun r => pow r (1 / p)) (fun x => pow x p) (fun x => pow x (p + 1))
        (fun r => -(expm1 ((p + 1) * log r))) (p + 1) cps)
    (self : ExactObj α β) (p : α) (hsup : checkP p ≠ .sup)
    (hv : hasVerticalSeg (ExactObj.compute_landscape sweep self).critical_pairs = false) (h0 : (p == 0) = false) :
    (Ref.exact_p_norm bp pn self p).map (·.2) =
      pNormMethod (fun r => pow r (1 / p)) (fun x => pow x p) (fun x => pow x (p + 1))
        (fun r => -(expm1 ((p + 1) * log r))) p (ExactObj.compute_landscape sweep self).critical_pairs := by
  rw [exact_p_norm_eq sweep pn bp sn hb hs]
  unfold pNormMethod
  cases hc : checkP p with
  | reject => rfl
  | sup => exact absurd hc hsup
  | norm => simp [hv, h0, hpn, Except.map]

/-- `PersLandscapeApprox.p_norm`, every `p` and every object -/
theorem grid_p_norm_eq (ramp : List β → α → α → Nat → List (List α)) (linspace : α → α → Nat → List α)
    (pn : α → List (List (α × α)) → α)
    (bp : GridObj α β → α → Except Err (GridObj α β × Option α))
    (sn : GridObj α β → Except Err (GridObj α β × α))
    (v2p : GridObj α β → GridObj α β × List (List (α × α)))
    (hb : ∀ o p, bp o p = Ref.base_p_norm (GridObj.compute_landscape ramp) sn o p)
    (hs : ∀ o, sn o = (supNormApprox (GridObj.compute_landscape ramp o).values).map
        fun m => (GridObj.compute_landscape ramp o, m))
    (hv : ∀ o, v2p o = (GridObj.compute_landscape ramp o,
        valuesToPairs (linspace (GridObj.compute_landscape ramp o).start (GridObj.compute_landscape ramp o).stop
            (GridObj.compute_landscape ramp o).num_steps) (GridObj.compute_landscape ramp o).values))
    (self : GridObj α β) (p : α) :
    Ref.grid_p_norm bp v2p pn self p =
      let o := GridObj.compute_landscape ramp self
      let N := pn p (valuesToPairs (linspace o.start o.stop o.num_steps) o.values)
      match checkP p with
      | .reject => .error Err.valueError
      | .sup => (supNormApprox o.values).map fun _ => (o, N)
      | .norm => .ok (o, N) := by
  unfold Ref.grid_p_norm
  rw [hb, base_p_norm_eq_model]
  cases checkP p with
  | reject => rfl
  | norm => simp only [hv, gcompute_idem]
  | sup =>
    simp only [hs, hv, gcompute_idem]
    cases supNormApprox (GridObj.compute_landscape ramp self).values <;> simp [Except.map, gcompute_idem]

/-- … and under the guards of the model it is `pNormMethod` on `valuesToPairs` of the grid -/
theorem grid_p_norm_eq_model (ramp : List β → α → α → Nat → List (List α)) (linspace : α → α → Nat → List α)
    (pow : α → α → α) (expm1 log : α → α) (pn : α → List (List (α × α)) → α)
    (bp : GridObj α β → α → Except Err (GridObj α β × Option α))
    (sn : GridObj α β → Except Err (GridObj α β × α))
    (v2p : GridObj α β → GridObj α β × List (List (α × α)))
    (hb : ∀ o p, bp o p = Ref.base_p_norm (GridObj.compute_landscape ramp) sn o p)
    (hs : ∀ o, sn o = (supNormApprox (GridObj.compute_landscape ramp o).values).map
        fun m => (GridObj.compute_landscape ramp o, m))
    (hv : ∀ o, v2p o = (GridObj.compute_landscape ramp o,
        valuesToPairs (linspace (GridObj.compute_landscape ramp o).start (GridObj.compute_landscape ramp o).stop
            (GridObj.compute_landscape ramp o).num_steps) (GridObj.compute_landscape ramp o).values))
    (hpn : ∀ p cps, pn p cps = pNormGen (fun r => pow r (1 / p)) (fun x => pow x p) (fun x => pow x (p + 1))
        (fun r => -(expm1 ((p + 1) * log r))) (p + 1) cps)
    (self : GridObj α β) (p : α) (hsup : checkP p ≠ .sup)
    (hvert : hasVerticalSeg (valuesToPairs
        (linspace (GridObj.compute_landscape ramp self).start (GridObj.compute_landscape ramp self).stop
          (GridObj.compute_landscape ramp self).num_steps) (GridObj.compute_landscape ramp self).values) = false)
    (h0 : (p == 0) = false) :
    (Ref.grid_p_norm bp v2p pn self p).map (·.2) =
      pNormMethod (fun r => pow r (1 / p)) (fun x => pow x p) (fun x => pow x (p + 1))
        (fun r => -(expm1 ((p + 1) * log r))) p
        (valuesToPairs (linspace (GridObj.compute_landscape ramp self).start (GridObj.compute_landscape ramp self).stop
          (GridObj.compute_landscape ramp self).num_steps) (GridObj.compute_landscape ramp self).values) := by
  rw [grid_p_norm_eq ramp linspace pn bp sn v2p hb hs hv]
  unfold pNormMethod
  cases hc : checkP p with
  | reject => rfl
  | sup => exact absurd hc hsup
  | norm => simp [hvert, h0, hpn, Except.map]

end

/-! non-vacuity of the guards of `exact_p_norm_eq_model` / `grid_p_norm_eq_model`: `p = 2` on a tent, and on its grid samples -/
example : checkP (2 : Rat) ≠ .sup ∧ hasVerticalSeg ([[(0, 0), (1, 1), (2, 0)]] : List (List (Rat × Rat))) = false ∧
    ((2 : Rat) == 0) = false := by decide
example : hasVerticalSeg (valuesToPairs ([0, 1, 2] : List Rat) [[0, 1, 0]]) = false := by decide
/-- … and the excluded case is inhabited: `p = -1` is the sup-norm code -/
example : checkP (-1 : Rat) = .sup := by decide

end PersimVerif.SrcBridge.LandscapeNorm
