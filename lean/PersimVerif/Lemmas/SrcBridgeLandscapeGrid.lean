import PersimVerif.Model.PLArith
import PersimVerif.Lemmas.SrcLibLandscape

/-!
# Bridge between the translated arithmetic / grid tools of `PersLandscapeApprox` and Model/PLArith.lean (C09)

`Generated/SrcPLGrid.lean` (written by harness/translator/py2lean_landscape.py from persim/landscapes/approximate.py,
base.py and tools.py on every run) holds the guards of `PersLandscape.__add__ / __mul__ / __truediv__`, the methods
`__add__`, `__neg__`, `__sub__`, `__mul__`, `__rmul__`, `__truediv__`, `__getitem__` of `PersLandscapeApprox`, and
`tools.snap_pl`, `lc_approx`, `average_approx`, translated statement by statement.  This hand-written file has

* `Ref.*` -- the REVIEWED Lean text of that translation (the generated file proves `generated = Ref.*`, `src_<def>_eq_ref`, by
  `rfl`; generated callees are parameters of the `Ref` definitions, so this file does not depend on generated text);
* the proofs that `Ref.*` equal the models `Grid.add/neg/sub/mul/div`, `snapPl`, `lcApprox`, `averageApprox` for EVERY
  landscape object, computed or lazy (`compute=False`): the model's operand is the object after `compute_landscape()`;
  `np.linspace` and `np.interp` are the parameters `linspace`, `interp`, instantiated by the model's contract in the
  obligations about `snap_pl`, `lc_approx`, `average_approx`.
Mathlib-free.
-/
set_option linter.unusedVariables false
set_option linter.unusedSectionVars false
set_option linter.unusedSimpArgs false
set_option linter.constructorNameAsVariable false

namespace PersimVerif.SrcBridge.LandscapeGrid
open PersimVerif.PLArith PersimVerif.SrcLib PersimVerif.SrcLib.Landscape

/-- the model's view of a grid landscape object -/
def toModel {α β : Type} (o : GridObj α β) : Grid α := ⟨o.hom_deg, o.start, o.stop, o.num_steps, o.values⟩

/-- the object the constructor makes from grid parameters and values (no diagrams) -/
def ofModel {α β : Type} (g : Grid α) : GridObj α β := ⟨g.homDeg, g.start, g.stop, g.numSteps, g.values, []⟩

/-! ## `Ref`: the reviewed Lean text of the translation -/
namespace Ref

section
variable {α β : Type} [Add α] [Sub α] [Mul α] [Div α] [Neg α] [Zero α] [One α] [LT α] [DecidableLT α]
  [LE α] [DecidableLE α] [Max α] [Min α] [DecidableEq α] [NatCast α]

/-- `PersLandscape.__add__` (base.py): the degree check -/
def base_add (self other : GridObj α β) : Except Err Unit :=
  if self.hom_deg ≠ other.hom_deg then
    .error Err.homDeg
  else
    .ok ()

/-- `PersLandscape.__mul__` (base.py): the type check -/
def base_mul (self : GridObj α β) (other : Scalar α) : Except Err Unit :=
  if !(Scalar.isReal other) then
    .error Err.typeError
  else
    .ok ()

/-- `PersLandscape.__truediv__` (base.py): the zero check -/
def base_truediv (self : GridObj α β) (other : Scalar α) : Except Err Unit :=
  if Scalar.eqZero other then
    .error Err.divZero
  else
    .ok ()

/-- `PersLandscapeApprox.__add__` -/
def grid_add (badd : GridObj α β → GridObj α β → Except Err Unit)
    (uv : List (List α) → List (List α) → List (List α) × List (List α))
    (ramp : List β → α → α → Nat → List (List α)) (self other : GridObj α β) : Except Err (GridObj α β) :=
  match badd self other with
  | .error e => .error e
  | .ok _ =>
  let self_1 : GridObj α β := GridObj.compute_landscape ramp self
  let other_1 : GridObj α β := GridObj.compute_landscape ramp other
  if self_1.start ≠ other_1.start then
    .error Err.start
  else if self_1.stop ≠ other_1.stop then
    .error Err.stop
  else if self_1.num_steps ≠ other_1.num_steps then
    .error Err.numSteps
  else
    let t : List (List α) × List (List α) := uv self_1.values other_1.values
    let self_pad : List (List α) := t.1
    let other_pad : List (List α) := t.2
    GridObj.new Err.bothEmpty Err.startGtStop self_1.hom_deg self_1.start self_1.stop self_1.num_steps (matAdd self_pad other_pad)

/-- `PersLandscapeApprox.__neg__` -/
def grid_neg (ramp : List β → α → α → Nat → List (List α)) (self : GridObj α β) : Except Err (GridObj α β) :=
  let self_1 : GridObj α β := GridObj.compute_landscape ramp self
  GridObj.new Err.bothEmpty Err.startGtStop self_1.hom_deg self_1.start self_1.stop self_1.num_steps (self_1.values.map fun depth_array => depth_array.map fun v => (-1 : α) * v)

/-- `PersLandscapeApprox.__sub__` -/
def grid_sub (neg : GridObj α β → Except Err (GridObj α β))
    (add : GridObj α β → GridObj α β → Except Err (GridObj α β)) (self other : GridObj α β) :
    Except Err (GridObj α β) :=
  match neg other with
  | .error e => .error e
  | .ok t =>
  add self t

/-- the element `other * depth_array` of the comprehension of `__mul__` -/
def grid_mul_elem (other : Scalar α) (depth_array : List α) : Except Err (List α) :=
  match Scalar.val? Err.typeError other with
  | .error e => .error e
  | .ok t =>
  .ok (depth_array.map fun v => t * v)

/-- `PersLandscapeApprox.__mul__` -/
def grid_mul (bmul : GridObj α β → Scalar α → Except Err Unit) (elem : Scalar α → List α → Except Err (List α))
    (ramp : List β → α → α → Nat → List (List α)) (self : GridObj α β) (other : Scalar α) :
    Except Err (GridObj α β) :=
  match bmul self other with
  | .error e => .error e
  | .ok _ =>
  let self_1 : GridObj α β := GridObj.compute_landscape ramp self
  match self_1.values.mapM (elem other) with
  | .error e => .error e
  | .ok t =>
  GridObj.new Err.bothEmpty Err.startGtStop self_1.hom_deg self_1.start self_1.stop self_1.num_steps t

/-- `PersLandscapeApprox.__rmul__` -/
def grid_rmul (mul : GridObj α β → Scalar α → Except Err (GridObj α β)) (self : GridObj α β) (other : Scalar α) :
    Except Err (GridObj α β) :=
  mul self other

/-- `PersLandscapeApprox.__truediv__` -/
def grid_truediv (bdiv : GridObj α β → Scalar α → Except Err Unit)
    (rmul : GridObj α β → Scalar α → Except Err (GridObj α β)) (self : GridObj α β) (other : Scalar α) :
    Except Err (GridObj α β) :=
  match bdiv self other with
  | .error e => .error e
  | .ok _ =>
  match Scalar.val? Err.typeError other with
  | .error e => .error e
  | .ok t =>
  rmul self (Scalar.num (1 / t))

/-- `PersLandscapeApprox.__getitem__` with an integer key -/
def grid_getitem (ramp : List β → α → α → Nat → List (List α)) (self : GridObj α β) (key : Int) :
    Except Err (List α) :=
  let self_1 : GridObj α β := GridObj.compute_landscape ramp self
  match pyGet? self_1.values key with
  | none => .error Err.indexError
  | some t =>
  .ok t

/-- one round of `for funct in pl` of `snap_pl` -/
def snap_pl_round_2 (interp : List (α × α) → α → α) (linspace : α → α → Nat → List α) (grid : List α) (pl : GridObj α β)
    (snapped_landscape : List (List α)) (funct : List α) : List (List α) :=
  let snapped_landscape_1 : List (List α) := snapped_landscape ++ [interpEach interp grid (linspace pl.start pl.stop pl.num_steps) funct]
  snapped_landscape_1

/-- one round of `for pl in pls` of `snap_pl` -/
def snap_pl_round (round_2 : List α → GridObj α β → List (List α) → List α → List (List α))
    (ramp : List β → α → α → Nat → List (List α)) (start stop : α) (num_steps : Nat) (grid : List α)
    (k : List (GridObj α β)) (pl : GridObj α β) : Except Err (List (GridObj α β)) :=
  let snapped_landscape : List (List α) := []
  let pl_1 : GridObj α β := GridObj.compute_landscape ramp pl
  let snapped_landscape_1 : List (List α) := pl_1.values.foldl (round_2 grid pl_1) snapped_landscape
  match GridObj.new Err.bothEmpty Err.startGtStop pl_1.hom_deg start stop num_steps snapped_landscape_1 with
  | .error e => .error e
  | .ok t =>
  let k_1 : List (GridObj α β) := k ++ [t]
  .ok k_1

/-- `tools.snap_pl` -/
def snap_pl (round : α → α → Nat → List α → List (GridObj α β) → GridObj α β → Except Err (List (GridObj α β)))
    (linspace : α → α → Nat → List α) (pls : List (GridObj α β)) (start stop : Option α) (num_steps : Option Nat) :
    Except Err (List (GridObj α β)) :=
  let start_1 : Except Err α :=
    match start with
    | some start_2 => .ok start_2
    | none =>
      match pyMinBy (fun (it : GridObj α β) => it.start) pls with
      | none => .error Err.emptyList
      | some t =>
      let start_2 : α := t.start
      .ok start_2
  match start_1 with
  | .error e => .error e
  | .ok start_3 =>
  let stop_1 : Except Err α :=
    match stop with
    | some stop_2 => .ok stop_2
    | none =>
      match pyMaxBy (fun (it : GridObj α β) => it.stop) pls with
      | none => .error Err.emptyList
      | some t_1 =>
      let stop_2 : α := t_1.stop
      .ok stop_2
  match stop_1 with
  | .error e => .error e
  | .ok stop_3 =>
  let num_steps_1 : Except Err Nat :=
    match num_steps with
    | some num_steps_2 => .ok num_steps_2
    | none =>
      match pyMaxBy (fun (it : GridObj α β) => it.num_steps) pls with
      | none => .error Err.emptyList
      | some t_2 =>
      let num_steps_2 : Nat := t_2.num_steps
      .ok num_steps_2
  match num_steps_1 with
  | .error e => .error e
  | .ok num_steps_3 =>
  let grid : List α := linspace start_3 stop_3 num_steps_3
  let k : List (GridObj α β) := []
  pls.foldlM (round start_3 stop_3 num_steps_3 grid) k

/-- `tools.lc_approx` -/
def lc_approx (snap : List (GridObj α β) → Option α → Option α → Option Nat → Except Err (List (GridObj α β)))
    (rmul : GridObj α β → Scalar α → Except Err (GridObj α β))
    (add : GridObj α β → GridObj α β → Except Err (GridObj α β))
    (landscapes : List (GridObj α β)) (coeffs : List (Scalar α)) (start stop : Option α) (num_steps : Option Nat) :
    Except Err (GridObj α β) :=
  match snap landscapes start stop num_steps with
  | .error e => .error e
  | .ok pl =>
  npSumProducts Err.shape Err.notLandscape rmul add coeffs pl

/-- `tools.average_approx` -/
def average_approx (lc : List (GridObj α β) → List (Scalar α) → Option α → Option α → Option Nat → Except Err (GridObj α β))
    (landscapes : List (GridObj α β)) (start stop : Option α) (num_steps : Option Nat) : Except Err (GridObj α β) :=
  lc landscapes (landscapes.map fun _ => Scalar.num (1 / (landscapes.length : α))) start stop num_steps

end
end Ref

/-! ## the reviewed text against the models -/

section
variable {α β : Type} [Add α] [Sub α] [Mul α] [Div α] [Neg α] [Zero α] [One α] [LT α] [DecidableLT α]
  [LE α] [DecidableLE α] [Max α] [Min α] [DecidableEq α] [NatCast α]

/-- a grid whose `values` have non-zero size: what the constructor returns -/
def Good (g : Grid α) : Prop := sizeZero g.values = false

local notation "C" => GridObj.compute_landscape

theorem compute_fields (ramp : List β → α → α → Nat → List (List α)) (o : GridObj α β) :
    (C ramp o).hom_deg = o.hom_deg ∧ (C ramp o).start = o.start ∧ (C ramp o).stop = o.stop ∧
      (C ramp o).num_steps = o.num_steps := by
  unfold GridObj.compute_landscape
  split <;> exact ⟨rfl, rfl, rfl, rfl⟩

theorem compute_ofModel (ramp : List β → α → α → Nat → List (List α)) (g : Grid α) (h : Good g) :
    C ramp (ofModel g : GridObj α β) = ofModel g := by
  unfold Good at h
  simp [GridObj.compute_landscape, ofModel, h]

theorem toModel_ofModel (g : Grid α) : toModel (ofModel g : GridObj α β) = g := rfl

theorem new_eq_mk' (hd : Nat) (s e : α) (n : Nat) (vals : List (List α)) :
    (GridObj.new Err.bothEmpty Err.startGtStop hd s e n vals : Except Err (GridObj α β)) =
      (Grid.mk' hd s e n vals).map ofModel := by
  unfold GridObj.new Grid.mk' sizeZero
  split
  · rfl
  · split <;> rfl

theorem mk'_good (hd : Nat) (s e : α) (n : Nat) (vals : List (List α)) (g : Grid α)
    (h : Grid.mk' hd s e n vals = .ok g) : Good g := by
  unfold Grid.mk' at h
  split at h
  · cases h
  · split at h
    · cases h
    · cases h; simpa [Good, sizeZero] using ‹¬ (vals.all fun x => x.isEmpty) = true›

theorem base_add_eq (self other : GridObj α β) :
    Ref.base_add self other = if self.hom_deg ≠ other.hom_deg then .error Err.homDeg else .ok () := rfl

theorem base_mul_eq (self : GridObj α β) (s : Scalar α) :
    Ref.base_mul self s = match s with | .num _ => .ok () | .other => .error Err.typeError := by
  cases s <;> rfl

theorem base_truediv_eq (self : GridObj α β) (s : Scalar α) :
    Ref.base_truediv self s = match s with
      | .num c => if c = 0 then .error Err.divZero else .ok ()
      | .other => .ok () := by
  cases s with
  | num c => simp only [Ref.base_truediv, Scalar.eqZero]; by_cases h : c = 0 <;> simp [h]
  | other => rfl

theorem grid_add_eq_model (badd : GridObj α β → GridObj α β → Except Err Unit)
    (uv : List (List α) → List (List α) → List (List α) × List (List α))
    (hb : ∀ a b, badd a b = Ref.base_add a b) (hu : ∀ A B, uv A B = unionVals A B)
    (ramp : List β → α → α → Nat → List (List α)) (self other : GridObj α β) :
    Ref.grid_add badd uv ramp self other =
      (Grid.add (toModel (C ramp self)) (toModel (C ramp other))).map ofModel := by
  obtain ⟨h1, h2, h3, h4⟩ := compute_fields ramp self
  obtain ⟨k1, k2, k3, k4⟩ := compute_fields ramp other
  unfold Ref.grid_add Grid.add
  rw [hb, base_add_eq]
  by_cases hd : self.hom_deg ≠ other.hom_deg
  · have hd' : (toModel (C ramp self)).homDeg ≠ (toModel (C ramp other)).homDeg := by
      simp only [toModel]; rw [h1, k1]; exact hd
    rw [if_pos hd, if_pos hd']; rfl
  · have hd' : ¬ (toModel (C ramp self)).homDeg ≠ (toModel (C ramp other)).homDeg := by
      simp only [toModel]; rw [h1, k1]; exact hd
    rw [if_neg hd, if_neg hd']
    simp only [toModel, hu, new_eq_mk']
    by_cases hs : (C ramp self).start = (C ramp other).start
    · by_cases he : (C ramp self).stop = (C ramp other).stop
      · by_cases hn : (C ramp self).num_steps = (C ramp other).num_steps
        · simp [hs, he, hn]
        · simp [hs, he, hn, Except.map]
      · simp [hs, he, Except.map]
    · simp [hs, Except.map]

theorem grid_neg_eq_model (ramp : List β → α → α → Nat → List (List α)) (self : GridObj α β) :
    Ref.grid_neg ramp self = (Grid.neg (toModel (C ramp self))).map ofModel := by
  unfold Ref.grid_neg Grid.neg
  simp only [new_eq_mk']
  rfl

theorem mapM_ok {γ δ : Type} (f : γ → δ) : ∀ (l : List γ), l.mapM (fun x => (.ok (f x) : Except Err δ)) = .ok (l.map f)
  | [] => rfl
  | x :: l => by
    rw [List.mapM_cons, mapM_ok f l]
    rfl

theorem grid_mul_eq_model (bmul : GridObj α β → Scalar α → Except Err Unit) (elem : Scalar α → List α → Except Err (List α))
    (hb : ∀ a s, bmul a s = Ref.base_mul a s) (he : ∀ s r, elem s r = Ref.grid_mul_elem s r)
    (ramp : List β → α → α → Nat → List (List α)) (self : GridObj α β) (s : Scalar α) :
    Ref.grid_mul bmul elem ramp self s = (Grid.mul (toModel (C ramp self)) s).map ofModel := by
  unfold Ref.grid_mul
  rw [hb, base_mul_eq]
  cases s with
  | other => rfl
  | num c =>
    have : elem (Scalar.num c) = fun r => (.ok (r.map fun v => c * v) : Except Err (List α)) := by
      funext r; rw [he]; rfl
    simp only [this, mapM_ok, new_eq_mk', Grid.mul, Grid.smul]
    rfl

theorem grid_rmul_eq_model (mul : GridObj α β → Scalar α → Except Err (GridObj α β))
    (ramp : List β → α → α → Nat → List (List α))
    (hm : ∀ o s, mul o s = (Grid.mul (toModel (C ramp o)) s).map ofModel) (self : GridObj α β) (s : Scalar α) :
    Ref.grid_rmul mul self s = (Grid.mul (toModel (C ramp self)) s).map ofModel := hm self s

theorem grid_sub_eq_model (neg : GridObj α β → Except Err (GridObj α β))
    (add : GridObj α β → GridObj α β → Except Err (GridObj α β)) (ramp : List β → α → α → Nat → List (List α))
    (hn : ∀ o, neg o = (Grid.neg (toModel (C ramp o))).map ofModel)
    (ha : ∀ o o', add o o' = (Grid.add (toModel (C ramp o)) (toModel (C ramp o'))).map ofModel)
    (self other : GridObj α β) :
    Ref.grid_sub neg add self other =
      (Grid.sub (toModel (C ramp self)) (toModel (C ramp other))).map ofModel := by
  unfold Ref.grid_sub Grid.sub
  rw [hn]
  cases hq : Grid.neg (toModel (C ramp other)) with
  | error e => rfl
  | ok nq =>
    have hg : Good nq := mk'_good _ _ _ _ _ nq (by simpa [Grid.neg] using hq)
    simp only [Except.map, bind, Except.bind]
    rw [ha, compute_ofModel ramp nq hg]
    rfl

theorem grid_truediv_eq_model (bdiv : GridObj α β → Scalar α → Except Err Unit)
    (rmul : GridObj α β → Scalar α → Except Err (GridObj α β)) (ramp : List β → α → α → Nat → List (List α))
    (hb : ∀ a s, bdiv a s = Ref.base_truediv a s)
    (hm : ∀ o s, rmul o s = (Grid.mul (toModel (C ramp o)) s).map ofModel) (self : GridObj α β) (s : Scalar α) :
    Ref.grid_truediv bdiv rmul self s = (Grid.div (toModel (C ramp self)) s).map ofModel := by
  unfold Ref.grid_truediv
  rw [hb, base_truediv_eq]
  cases s with
  | other => rfl
  | num c =>
    simp only [Grid.div, Grid.sdiv]
    by_cases h : c = 0
    · rw [if_pos h, if_pos h]; rfl
    · rw [if_neg h, if_neg h]
      simp only [Scalar.val?]
      rw [hm]; rfl

/-- `self[key]` for an integer key: row `key` of the computed values (Python indexing), `IndexError` beyond -/
theorem grid_getitem_eq_model (ramp : List β → α → α → Nat → List (List α)) (self : GridObj α β) (key : Int) :
    Ref.grid_getitem ramp self key =
      match pyGet? (C ramp self).values key with
      | none => .error Err.indexError
      | some d => .ok d := rfl

/-! ### `snap_pl` -/

theorem foldl_append_singleton {γ δ : Type} (f : δ → γ) : ∀ (l : List δ) (acc : List γ),
    l.foldl (fun a x => a ++ [f x]) acc = acc ++ l.map f
  | [], acc => by simp
  | x :: l, acc => by simp [foldl_append_singleton f l]

theorem foldlM_append_singleton {γ δ : Type} (f : δ → Except Err γ) (l : List δ) (acc : List γ) :
    l.foldlM (fun a x => (f x).map fun t => a ++ [t]) acc = (l.mapM f).map (acc ++ ·) := by
  induction l generalizing acc with
  | nil => simp [List.foldlM, List.mapM_nil, pure, Except.pure, Except.map]
  | cons x l ih =>
    rw [List.foldlM_cons, List.mapM_cons]
    cases hx : f x with
    | error e => rfl
    | ok t =>
      show l.foldlM _ (acc ++ [t]) = _
      rw [ih]
      cases l.mapM f with
      | error e => rfl
      | ok ts => simp [Except.map, pure, Except.pure, bind, Except.bind]

theorem foldl_key_min {γ : Type} (key : γ → α) (t : List γ) (p : γ) :
    key (t.foldl (fun a q => if key q < key a then q else a) p) =
      (t.map key).foldl (fun m y => if y < m then y else m) (key p) := by
  induction t generalizing p with
  | nil => rfl
  | cons q t ih =>
    simp only [List.foldl, List.map_cons]
    rw [ih]
    by_cases h : key q < key p <;> simp [h]

theorem foldl_key_max {γ κ : Type} [LT κ] [DecidableLT κ] (key : γ → κ) (t : List γ) (p : γ) :
    key (t.foldl (fun a q => if key a < key q then q else a) p) =
      (t.map key).foldl (fun m y => if m < y then y else m) (key p) := by
  induction t generalizing p with
  | nil => rfl
  | cons q t ih =>
    simp only [List.foldl, List.map_cons]
    rw [ih]
    by_cases h : key p < key q <;> simp [h]

/-- the model's operand list: every object after `compute_landscape()` -/
def operands (ramp : List β → α → α → Nat → List (List α)) (pls : List (GridObj α β)) : List (Grid α) :=
  pls.map fun o => toModel (C ramp o)

theorem foldl_numSteps (r : List (Grid α)) (n : Nat) :
    r.foldl (fun m q => if m < q.numSteps then q.numSteps else m) n =
      (r.map (·.numSteps)).foldl (fun m y => if m < y then y else m) n := by
  induction r generalizing n with
  | nil => rfl
  | cons q r ih => simp only [List.foldl, List.map_cons]; rw [ih]

theorem round_2_eq (interp' : List (α × α) → α → α) (linspace' : α → α → Nat → List α) (grid : List α) (pl : GridObj α β) :
    Ref.snap_pl_round_2 interp' linspace' grid pl =
      fun a x => a ++ [interpEach interp' grid (linspace' pl.start pl.stop pl.num_steps) x] := rfl

/-- one landscape of `snap_pl` against `snapOne` -/
theorem snap_round_eq (ramp : List β → α → α → Nat → List (List α)) (S E : α) (N : Nat) (pl : GridObj α β)
    (k : List (GridObj α β)) :
    Ref.snap_pl_round (Ref.snap_pl_round_2 (fun pts x => interp x pts) linspace) ramp S E N (linspace S E N) k pl =
      ((snapOne S E N (toModel (C ramp pl))).map (ofModel (β := β))).map fun t => k ++ [t] := by
  unfold Ref.snap_pl_round snapOne
  simp only [new_eq_mk', round_2_eq, foldl_append_singleton, List.nil_append, interpEach, toModel]
  cases Grid.mk' (C ramp pl).hom_deg S E N
      (List.map (fun x => List.map (fun g => interp g ((linspace (C ramp pl).start (C ramp pl).stop (C ramp pl).num_steps).zip x))
        (linspace S E N)) (C ramp pl).values) <;> rfl

theorem mapM_map {γ δ ρ : Type} (f : γ → Except Err δ) (g : δ → ρ) : ∀ (l : List γ),
    l.mapM (fun x => (f x).map g) = (l.mapM f).map (List.map g)
  | [] => rfl
  | x :: l => by
    rw [List.mapM_cons, List.mapM_cons, mapM_map f g l]
    cases f x with
    | error e => rfl
    | ok t =>
      cases l.mapM f with
      | error e => rfl
      | ok ts => rfl

theorem tm_start (ramp : List β → α → α → Nat → List (List α)) (o : GridObj α β) :
    (toModel (C ramp o)).start = o.start := (compute_fields ramp o).2.1
theorem tm_stop (ramp : List β → α → α → Nat → List (List α)) (o : GridObj α β) :
    (toModel (C ramp o)).stop = o.stop := (compute_fields ramp o).2.2.1
theorem tm_numSteps (ramp : List β → α → α → Nat → List (List α)) (o : GridObj α β) :
    (toModel (C ramp o)).numSteps = o.num_steps := (compute_fields ramp o).2.2.2

theorem operands_cons (ramp : List β → α → α → Nat → List (List α)) (p : GridObj α β) (r : List (GridObj α β)) :
    operands ramp (p :: r) = toModel (C ramp p) :: operands ramp r := rfl

theorem operands_start (ramp : List β → α → α → Nat → List (List α)) (r : List (GridObj α β)) :
    (operands ramp r).map (fun x => x.start) = r.map (fun t => t.start) := by
  simp [operands, List.map_map, Function.comp_def, tm_start]
theorem operands_stop (ramp : List β → α → α → Nat → List (List α)) (r : List (GridObj α β)) :
    (operands ramp r).map (fun x => x.stop) = r.map (fun t => t.stop) := by
  simp [operands, List.map_map, Function.comp_def, tm_stop]
theorem operands_numSteps (ramp : List β → α → α → Nat → List (List α)) (r : List (GridObj α β)) :
    (operands ramp r).map (fun x => x.numSteps) = r.map (fun t => t.num_steps) := by
  simp [operands, List.map_map, Function.comp_def, tm_numSteps]

/-- the loop of `snap_pl` against `mapM snapOne` -/
theorem snap_fold (ramp : List β → α → α → Nat → List (List α)) (pls : List (GridObj α β)) (S E : α) (N : Nat) :
    pls.foldlM (Ref.snap_pl_round (Ref.snap_pl_round_2 (fun pts x => interp x pts) linspace) ramp S E N (linspace S E N))
        ([] : List (GridObj α β)) =
      ((operands ramp pls).mapM (snapOne S E N)).map (List.map ofModel) := by
  have hround : Ref.snap_pl_round (Ref.snap_pl_round_2 (fun pts x => interp x pts) linspace) ramp S E N (linspace S E N) =
      fun k pl => ((snapOne S E N (toModel (C ramp pl))).map (ofModel (β := β))).map fun t => k ++ [t] := by
    funext k pl; exact snap_round_eq ramp S E N pl k
  have key : ∀ (r : Except Err (List (GridObj α β))), r.map (fun x => [] ++ x) = r := by
    intro r; cases r <;> simp [Except.map]
  rw [hround, foldlM_append_singleton, mapM_map, key]
  simp only [operands, List.mapM_map]
  rfl

/-- `snap_pl` with the model's `linspace` / `interp` on any list of landscape objects -/
theorem snap_pl_eq_model (ramp : List β → α → α → Nat → List (List α)) (pls : List (GridObj α β))
    (start stop : Option α) (num_steps : Option Nat) :
    Ref.snap_pl (Ref.snap_pl_round (Ref.snap_pl_round_2 (fun pts x => interp x pts) linspace) ramp) linspace
        pls start stop num_steps =
      (snapPl (operands ramp pls) start stop num_steps).map (List.map ofModel) := by
  unfold Ref.snap_pl snapPl
  cases pls with
  | nil =>
    cases start <;> cases stop <;> cases num_steps <;>
      simp [snapParams, operands, pyMinBy, pyMaxBy, bind, Except.bind, pure, Except.pure, throw, throwThe,
        MonadExceptOf.throw, Except.map, List.mapM_nil, List.foldlM]
  | cons p r =>
    cases start <;> cases stop <;> cases num_steps <;>
      simp only [snapParams, operands_cons, pyMinBy, pyMaxBy, bind, Except.bind, pure, Except.pure, minOf, maxOf,
        foldl_key_min, foldl_key_max, foldl_numSteps, operands_start, operands_stop, operands_numSteps,
        tm_start, tm_stop, tm_numSteps] <;>
      rw [snap_fold] <;> rfl

/-! ### `lc_approx`, `average_approx` -/

theorem mul_good (p g : Grid α) (s : Scalar α) (h : p.mul s = .ok g) : Good g := by
  cases s with
  | other => cases h
  | num c => exact mk'_good _ _ _ _ _ g (by simpa [Grid.mul, Grid.smul] using h)

theorem add_good (p q g : Grid α) (h : p.add q = .ok g) : Good g := by
  unfold Grid.add at h
  split at h
  · cases h
  · split at h
    · cases h
    · split at h
      · cases h
      · split at h
        · cases h
        · exact mk'_good _ _ _ _ _ g h

theorem snapOne_good (S E : α) (N : Nat) (p g : Grid α) (h : snapOne S E N p = .ok g) : Good g :=
  mk'_good _ _ _ _ _ g h

theorem mapM_all {γ δ : Type} (f : γ → Except Err δ) (P : δ → Prop) (hf : ∀ x y, f x = .ok y → P y) :
    ∀ (l : List γ) (r : List δ), l.mapM f = .ok r → ∀ y ∈ r, P y
  | [], r, h => by
    simp [List.mapM_nil, pure, Except.pure] at h; subst h; simp
  | x :: l, r, h => by
    rw [List.mapM_cons] at h
    cases hx : f x with
    | error e => rw [hx] at h; cases h
    | ok t =>
      rw [hx] at h
      cases hl : l.mapM f with
      | error e => rw [hl] at h; cases h
      | ok ts =>
        rw [hl] at h
        simp only [bind, Except.bind, pure, Except.pure] at h
        cases h
        intro y hy
        rcases List.mem_cons.mp hy with rfl | hy
        · exact hf x _ hx
        · exact mapM_all f P hf l ts hl y hy

/-- the sum of the products against `sumGrids` -/
theorem sum_fold (ramp : List β → α → α → Nat → List (List α))
    (add : GridObj α β → GridObj α β → Except Err (GridObj α β))
    (ha : ∀ o o', add o o' = (Grid.add (toModel (C ramp o)) (toModel (C ramp o'))).map ofModel) :
    ∀ (r : List (Grid α)) (p : Grid α), Good p → (∀ q ∈ r, Good q) →
      (r.map (ofModel (β := β))).foldlM add (ofModel p) = (r.foldlM (fun (acc q : Grid α) => acc.add q) p).map ofModel
  | [], p, _, _ => rfl
  | q :: r, p, hp, hr => by
    rw [List.map_cons, List.foldlM_cons, List.foldlM_cons, ha, compute_ofModel ramp p hp,
      compute_ofModel ramp q (hr q (by simp)), toModel_ofModel, toModel_ofModel]
    cases hs : p.add q with
    | error e => rfl
    | ok s =>
      simp only [Except.map, bind, Except.bind]
      exact sum_fold ramp add ha r s (add_good p q s hs) (fun q' hq' => hr q' (by simp [hq']))

theorem broadcast_map {γ : Type} (cs : List γ) (ps : List (Grid α)) :
    Landscape.broadcast Err.shape cs (ps.map (ofModel (β := β))) =
      (Landscape.broadcast Err.shape cs ps).map (List.map fun cp => (cp.1, ofModel cp.2)) := by
  unfold Landscape.broadcast
  by_cases h : cs.length = ps.length
  · simp [h, Except.map, List.zip_map_right]
  · simp only [List.length_map, h, if_false]
    match cs, ps with
    | [c], ps => simp [Except.map, List.map_map, Function.comp_def]
    | [], [p] => simp [Except.map]
    | c :: c' :: cs, [p] => simp [Except.map, List.map_map, Function.comp_def]
    | [], [] => simp at h
    | [], p :: p' :: ps => rfl
    | c :: c' :: cs, [] => rfl
    | c :: c' :: cs, p :: p' :: ps => rfl

theorem broadcast_eq_model (cs : List (Scalar α)) (ps : List (Grid α)) :
    Landscape.broadcast Err.shape cs ps = PLArith.broadcast cs ps := by
  unfold Landscape.broadcast PLArith.broadcast
  by_cases h : cs.length = ps.length
  · rw [if_pos h, if_pos h]
  · rw [if_neg h, if_neg h]
    rcases cs with _ | ⟨c, _ | ⟨c', cs⟩⟩ <;> rcases ps with _ | ⟨p, _ | ⟨p', ps⟩⟩ <;> rfl

theorem broadcast_mem {γ δ : Type} (cs : List γ) (ps : List δ) (pairs : List (γ × δ))
    (h : Landscape.broadcast Err.shape cs ps = .ok pairs) : ∀ cp ∈ pairs, cp.2 ∈ ps := by
  unfold Landscape.broadcast at h
  split at h
  · cases h
    intro cp hcp
    exact (List.of_mem_zip hcp).2
  · split at h
    · cases h; intro cp hcp; simp at hcp; obtain ⟨a, ha, rfl⟩ := hcp; exact ha
    · cases h; intro cp hcp; simp at hcp; obtain ⟨a, ha, rfl⟩ := hcp; simp
    · cases h

/-- `lc_approx` on any list of landscape objects and any coefficients -/
theorem lc_approx_eq_model (ramp : List β → α → α → Nat → List (List α))
    (snap : List (GridObj α β) → Option α → Option α → Option Nat → Except Err (List (GridObj α β)))
    (rmul : GridObj α β → Scalar α → Except Err (GridObj α β))
    (add : GridObj α β → GridObj α β → Except Err (GridObj α β))
    (hsnap : ∀ pls s e n, snap pls s e n = (snapPl (operands ramp pls) s e n).map (List.map ofModel))
    (hm : ∀ o s, rmul o s = (Grid.mul (toModel (C ramp o)) s).map ofModel)
    (ha : ∀ o o', add o o' = (Grid.add (toModel (C ramp o)) (toModel (C ramp o'))).map ofModel)
    (landscapes : List (GridObj α β)) (coeffs : List (Scalar α)) (start stop : Option α) (num_steps : Option Nat) :
    Ref.lc_approx snap rmul add landscapes coeffs start stop num_steps =
      (lcApprox (operands ramp landscapes) coeffs start stop num_steps).map ofModel := by
  unfold Ref.lc_approx lcApprox
  rw [hsnap]
  cases hps : snapPl (operands ramp landscapes) start stop num_steps with
  | error e => rfl
  | ok ps =>
    have hgood : ∀ q ∈ ps, Good q := by
      unfold snapPl at hps
      cases hsp : snapParams (operands ramp landscapes) start stop num_steps with
      | error e => rw [hsp] at hps; cases hps
      | ok SEN =>
        obtain ⟨S, E, N⟩ := SEN
        rw [hsp] at hps
        exact mapM_all (snapOne S E N) Good (fun x y h => snapOne_good S E N x y h) _ ps hps
    simp only [Except.map, bind, Except.bind]
    unfold npSumProducts
    rw [broadcast_map, broadcast_eq_model]
    cases hbc : PLArith.broadcast coeffs ps with
    | error e => rfl
    | ok pairs =>
      have hpg : ∀ cp ∈ pairs, Good cp.2 := fun cp hcp =>
        hgood _ (broadcast_mem coeffs ps pairs (by rw [broadcast_eq_model]; exact hbc) cp hcp)
      simp only [Except.map]
      have hprods : (List.map (fun cp => (cp.1, (ofModel cp.2 : GridObj α β))) pairs).mapM (fun cp => rmul cp.2 cp.1) =
          (pairs.mapM fun (cp : Scalar α × Grid α) => cp.2.mul cp.1).map (List.map ofModel) := by
        rw [List.mapM_map]
        have : ∀ (l : List (Scalar α × Grid α)), (∀ cp ∈ l, Good cp.2) →
            l.mapM (fun cp => rmul (ofModel cp.2 : GridObj α β) cp.1) =
              (l.mapM fun (cp : Scalar α × Grid α) => cp.2.mul cp.1).map (List.map ofModel) := by
          intro l hl
          induction l with
          | nil => rfl
          | cons cp l ih =>
            rw [List.mapM_cons, List.mapM_cons, hm, compute_ofModel ramp cp.2 (hl cp (by simp)), toModel_ofModel,
              ih (fun c hc => hl c (by simp [hc]))]
            cases cp.2.mul cp.1 with
            | error e => rfl
            | ok t =>
              cases l.mapM fun (cp : Scalar α × Grid α) => cp.2.mul cp.1 with
              | error e => rfl
              | ok ts => rfl
        exact this pairs hpg
      rw [hprods]
      cases hpr : pairs.mapM fun (cp : Scalar α × Grid α) => cp.2.mul cp.1 with
      | error e => rfl
      | ok prods =>
        have hprg : ∀ g ∈ prods, Good g :=
          mapM_all (fun cp : Scalar α × Grid α => cp.2.mul cp.1) Good (fun x y h => mul_good x.2 y x.1 h) pairs prods hpr
        cases prods with
        | nil => rfl
        | cons p r =>
          simp only [Except.map, List.map_cons, sumGrids]
          exact sum_fold ramp add ha r p (hprg p (by simp)) (fun q hq => hprg q (by simp [hq]))

/-- `average_approx` on any list of landscape objects -/
theorem average_approx_eq_model (ramp : List β → α → α → Nat → List (List α))
    (lc : List (GridObj α β) → List (Scalar α) → Option α → Option α → Option Nat → Except Err (GridObj α β))
    (hl : ∀ pls cs s e n, lc pls cs s e n = (lcApprox (operands ramp pls) cs s e n).map ofModel)
    (landscapes : List (GridObj α β)) (start stop : Option α) (num_steps : Option Nat) :
    Ref.average_approx lc landscapes start stop num_steps =
      (averageApprox (operands ramp landscapes) start stop num_steps).map ofModel := by
  unfold Ref.average_approx averageApprox
  rw [hl]
  simp [operands, List.map_map, Function.comp_def]

end
end PersimVerif.SrcBridge.LandscapeGrid
