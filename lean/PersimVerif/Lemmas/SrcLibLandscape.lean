import PersimVerif.Model.PLArith
import PersimVerif.Lemmas.SrcLib
/-
  Runtime library of the landscape translator (harness/translator/py2lean_landscape.py, DESIGN.md 3.2): the Lean meaning
  of the Python / NumPy values and operations that the generated definitions of `Generated/SrcPLExact.lean`,
  `SrcPLGrid.lean`, `SrcPLNorm.lean` and `SrcPLVec.lean` use directly.  Mathlib-free (only Model/PLArith.lean, for the type
  `Scalar`, and `SrcLib` for Python's `min/max(…, key=…)`).  Part of the translator's conventions (trusted like them);
  the bridging lemmas that relate the generated definitions to the models are in `Lemmas/SrcBridgeLandscape*.lean`.

  Landscape OBJECTS are records of the attributes the translated methods read (`ExactObj`, `GridObj`; `dgms` is the
  selected diagram, of rows of any type `β`).  Their two library operations stand for source text that is pinned where it
  is translated or pinned as text:
    * `compute_landscape`: the LAZY computation `self.compute_landscape()` -- nothing when the landscape is already stored
      (`if self.critical_pairs: return` / `if self.values.size: return`, the early exits pinned by
      `src_compute_landscape_skeleton` of Generated/SrcSweep.lean and `src_ramps_skeleton` of Generated/SrcApprox.lean),
      otherwise what the method computes from `self.dgms` (and the grid), the parameter `sweep` / `ramp`;
    * `new`: the constructor call with `critical_pairs=` / `values=` and NO diagrams (the `__init__` texts are pinned:
      `src_exact_init_skeleton`, `src_approx_init_skeleton`): `ValueError` when both are empty, `ValueError` for
      `start > stop`; `dgms` stays the empty default, and `compute_landscape()` at its end returns at once.
-/
namespace PersimVerif.SrcLib.Landscape
open PersimVerif.PLArith (Scalar)
open PersimVerif.SrcLib

/-! ### `PersLandscapeExact` -/

/-- the attributes of a `PersLandscapeExact` that the translated code reads -/
structure ExactObj (α β : Type) where
  hom_deg : Nat
  dgms : List β
  critical_pairs : List (List (α × α))

/-- `self.compute_landscape()`: `if self.critical_pairs: return`, else `self.critical_pairs = <sweep of self.dgms>` -/
def ExactObj.compute_landscape {α β : Type} (sweep : List β → List (List (α × α))) (o : ExactObj α β) : ExactObj α β :=
  if o.critical_pairs.isEmpty then { o with critical_pairs := sweep o.dgms } else o

/-- `PersLandscapeExact(hom_deg=h, critical_pairs=c)` -/
def ExactObj.new {α β ε : Type} (bothEmpty : ε) (hom_deg : Nat) (critical_pairs : List (List (α × α))) :
    Except ε (ExactObj α β) :=
  if critical_pairs.isEmpty then .error bothEmpty else .ok ⟨hom_deg, [], critical_pairs⟩

/-! ### `PersLandscapeApprox` -/

/-- the attributes of a `PersLandscapeApprox` that the translated code reads (`values`: the rows of the 2-D array) -/
structure GridObj (α β : Type) where
  hom_deg : Nat
  start : α
  stop : α
  num_steps : Nat
  values : List (List α)
  dgms : List β

/-- `A.size == 0` for the rows of a 2-D array -/
def sizeZero {α : Type} (A : List (List α)) : Bool := A.all (·.isEmpty)

/-- `self.compute_landscape()`: `if self.values.size: return`, else `self.values = <ramps of self.dgms on the grid>` -/
def GridObj.compute_landscape {α β : Type} (ramp : List β → α → α → Nat → List (List α)) (o : GridObj α β) : GridObj α β :=
  if sizeZero o.values then { o with values := ramp o.dgms o.start o.stop o.num_steps } else o

/-- `PersLandscapeApprox(start=s, stop=e, num_steps=n, hom_deg=h, values=v)` -/
def GridObj.new {α β ε : Type} [LT α] [DecidableLT α] (bothEmpty startGtStop : ε) (hom_deg : Nat) (start stop : α)
    (num_steps : Nat) (values : List (List α)) : Except ε (GridObj α β) :=
  if sizeZero values then .error bothEmpty
  else if stop < start then .error startGtStop
  else .ok ⟨hom_deg, start, stop, num_steps, values, []⟩

/-! ### Python values -/

/-- an element of `itertools.zip_longest(L, M)` (fill value `None`; neither list contains `None`) -/
inductive These (β γ : Type) where
  | both (a : β) (b : γ)
  | left (a : β)       -- `(a, None)`: `M` is exhausted
  | right (b : γ)      -- `(None, b)`: `L` is exhausted

/-- `itertools.zip_longest(L, M)` -/
def zipLongest {β γ : Type} : List β → List γ → List (These β γ)
  | [], bs => bs.map .right
  | as, [] => as.map .left
  | a :: as, b :: bs => .both a b :: zipLongest as bs

/-- `zip(l, l[1:])` -/
def consecutive {γ : Type} : List γ → List (γ × γ)
  | a :: b :: rest => (a, b) :: consecutive (b :: rest)
  | _ => []

/-- `l[k]` for a Python int `k` (negative: from the end); `none` = IndexError -/
def pyGet? {γ : Type} (l : List γ) (k : Int) : Option γ :=
  if 0 ≤ k then l[k.toNat]? else if 0 ≤ (l.length : Int) + k then l[((l.length : Int) + k).toNat]? else none

/-- `isinstance(x, numbers.Real)` -/
def Scalar.isReal {α : Type} : Scalar α → Bool
  | .num _ => true
  | .other => false

/-- `x == 0.0` for any Python value (`"a" == 0.0` is `False`) -/
def Scalar.eqZero {α : Type} [Zero α] [DecidableEq α] : Scalar α → Bool
  | .num c => decide (c = 0)
  | .other => false

/-- a Python value as an operand of float arithmetic: TypeError unless it is a number -/
def Scalar.val? {α ε : Type} (typeError : ε) : Scalar α → Except ε α
  | .num c => .ok c
  | .other => .error typeError

/-! ### NumPy -/

/-- `np.interp(G, xp, fp)`: every abscissa of `G` interpolated on the nodes `zip(xp, fp)` (`interp`: one abscissa) -/
def interpEach {α : Type} (interp : List (α × α) → α → α) (G xp fp : List α) : List α :=
  G.map fun g => interp (xp.zip fp) g

/-- `np.max(A)` of the flattened array; `none` = ValueError (zero-size array) -/
def npMax {α : Type} [Max α] : List α → Option α
  | [] => none
  | a :: rest => some (rest.foldl max a)

/-- NumPy broadcasting of two 1-D arrays against each other -/
def broadcast {γ δ ε : Type} (shape : ε) (cs : List γ) (ps : List δ) : Except ε (List (γ × δ)) :=
  if cs.length = ps.length then .ok (cs.zip ps)
  else match cs, ps with
    | [c], _ => .ok (ps.map fun p => (c, p))
    | _, [p] => .ok (cs.map fun c => (c, p))
    | _, _ => .error shape

/-- `np.sum(np.array(C) * np.array(P))` for a list `C` of numbers and a list `P` of landscape objects (a 1-D object
    array): the two arrays are broadcast, `c * p` is `p.__rmul__(c)` entry by entry (all products first), and `np.sum`
    adds them with `+` (`__add__`) from the first on.  The sum of NO products is the number 0, not a landscape: outside
    the result type (`notLandscape`, as in Model/PLArith.lean). -/
def npSumProducts {γ σ ε : Type} (shape notLandscape : ε) (rmul : σ → γ → Except ε σ) (add : σ → σ → Except ε σ)
    (cs : List γ) (ps : List σ) : Except ε σ :=
  match broadcast shape cs ps with
  | .error e => .error e
  | .ok pairs =>
    match pairs.mapM (fun cp => rmul cp.2 cp.1) with
    | .error e => .error e
    | .ok [] => .error notLandscape
    | .ok (p :: r) => r.foldlM add p

end PersimVerif.SrcLib.Landscape
