import PersimVerif.Model.PLArith
import Mathlib.Algebra.Order.Field.Basic
import Mathlib.Algebra.BigOperators.Group.List.Basic
import Mathlib.Tactic.Ring
import Mathlib.Tactic.Linarith
import Mathlib.Tactic.FieldSimp

/-!
# Grid-side lemmas for C09: padded sums, scalar maps, compatibility checks, snap / lc / average
-/
namespace PersimVerif.PLArith
open PersimVerif.PL
set_option linter.unusedSectionVars false
variable {K : Type} [Field K] [LinearOrder K] [IsStrictOrderedRing K]

/-- every row has `n` samples -/
def Rect (n : Nat) (A : List (List K)) : Prop := ∀ r ∈ A, r.length = n

/-- the guard for a grid landscape (what the constructor and `np.array` guarantee) -/
structure Grid.WF (p : Grid K) : Prop where
  ne : p.values ≠ []
  pos : 0 < p.numSteps
  rect : Rect p.numSteps p.values
  le : p.start ≤ p.stop

/-- same degree and same grid -/
def Compat (p q : Grid K) : Prop :=
  p.homDeg = q.homDeg ∧ p.start = q.start ∧ p.stop = q.stop ∧ p.numSteps = q.numSteps

/-! ### `valAt` -/

theorem valAt_nil (k j : Nat) : valAt ([] : List (List K)) k j = 0 := by simp [valAt]
theorem valAt_zero (a : List K) (A : List (List K)) (j : Nat) : valAt (a :: A) 0 j = a.getD j 0 := by simp [valAt]
theorem valAt_succ (a : List K) (A : List (List K)) (k j : Nat) : valAt (a :: A) (k + 1) j = valAt A k j := by
  simp [valAt]

theorem valAt_of_length_le (A : List (List K)) (k j : Nat) (h : A.length ≤ k) : valAt A k j = 0 := by
  simp [valAt, List.getElem?_eq_none h]

theorem getD_replicate_zero (n j : Nat) : (List.replicate n (0 : K)).getD j 0 = 0 := by
  by_cases h : j < n
  · simp [List.getD_eq_getElem?_getD, h]
  · simp [List.getD_eq_getElem?_getD, h]

theorem valAt_zeroRows (m n k j : Nat) : valAt (zeroRows m n : List (List K)) k j = 0 := by
  unfold valAt zeroRows
  by_cases h : k < m
  · simp only [List.getElem?_replicate, h, if_true]; exact getD_replicate_zero n j
  · simp [h]

theorem valAt_append (A B : List (List K)) (k j : Nat) :
    valAt (A ++ B) k j = if k < A.length then valAt A k j else valAt B (k - A.length) j := by
  unfold valAt
  by_cases h : k < A.length
  · simp [h, List.getElem?_append_left h]
  · simp [h, List.getElem?_append_right (not_lt.mp h)]

theorem valAt_pad (A : List (List K)) (m n k j : Nat) : valAt (A ++ zeroRows m n) k j = valAt A k j := by
  rw [valAt_append]
  split
  · rfl
  · rename_i h
    rw [valAt_zeroRows, valAt_of_length_le A k j (not_lt.mp h)]

theorem getD_zipWith_add : ∀ (a b : List K) (j : Nat), a.length = b.length →
    (List.zipWith (· + ·) a b).getD j 0 = a.getD j 0 + b.getD j 0
  | [], [], j, _ => by simp
  | x :: a, y :: b, 0, _ => by simp
  | x :: a, y :: b, j + 1, h => by
    simpa using getD_zipWith_add a b j (by simpa using h)
  | [], _ :: _, _, h => by simp at h
  | _ :: _, [], _, h => by simp at h

theorem valAt_matAdd (n : Nat) : ∀ (A B : List (List K)) (k j : Nat), A.length = B.length → Rect n A → Rect n B →
    valAt (matAdd A B) k j = valAt A k j + valAt B k j
  | [], [], k, j, _, _, _ => by simp [matAdd, valAt_nil]
  | a :: A, b :: B, 0, j, _, ha, hb => by
    simp only [matAdd, List.zipWith_cons_cons, valAt_zero]
    exact getD_zipWith_add a b j (by rw [ha a (by simp), hb b (by simp)])
  | a :: A, b :: B, k + 1, j, h, ha, hb => by
    simp only [matAdd, List.zipWith_cons_cons, valAt_succ]
    exact valAt_matAdd n A B k j (by simpa using h) (fun r hr => ha r (by simp [hr])) (fun r hr => hb r (by simp [hr]))
  | [], _ :: _, _, _, h, _, _ => by simp at h
  | _ :: _, [], _, _, h, _, _ => by simp at h

theorem rect_matAdd (n : Nat) (A B : List (List K)) (ha : Rect n A) (hb : Rect n B) : Rect n (matAdd A B) := by
  intro r hr
  unfold matAdd at hr
  obtain ⟨i, hi, rfl⟩ := List.mem_iff_getElem.mp hr
  simp only [List.length_zipWith] at hi
  simp only [List.getElem_zipWith, List.length_zipWith]
  rw [ha _ (List.getElem_mem _), hb _ (List.getElem_mem _)]
  simp

theorem rect_pad (n m : Nat) (A : List (List K)) (ha : Rect n A) : Rect n (A ++ zeroRows m n) := by
  intro r hr
  rcases List.mem_append.mp hr with h | h
  · exact ha r h
  · unfold zeroRows at h
    rw [(List.mem_replicate.mp h).2]; simp

theorem width_eq (n : Nat) (A : List (List K)) (hne : A ≠ []) (ha : Rect n A) : width A = n := by
  obtain ⟨a, A', rfl⟩ := List.exists_cons_of_ne_nil hne
  simp [width, ha a (by simp)]

/-- `union_vals` then `+`: samplewise sum, a missing row counting as zeros -/
theorem unionVals_spec (n : Nat) (A B : List (List K)) (hA : A ≠ []) (hB : B ≠ []) (ha : Rect n A) (hb : Rect n B) :
    let AB := unionVals A B
    Rect n (matAdd AB.1 AB.2) ∧ (matAdd AB.1 AB.2).length = max A.length B.length ∧
      ∀ k j, valAt (matAdd AB.1 AB.2) k j = valAt A k j + valAt B k j := by
  intro AB
  have hw1 := width_eq n A hA ha
  have hw2 := width_eq n B hB hb
  by_cases h1 : A.length < B.length
  · have e : AB = (A ++ zeroRows (B.length - A.length) n, B) := by
      simp only [AB, unionVals, if_pos h1, hw1]
    rw [e]
    have hr := rect_pad n (B.length - A.length) A ha
    have hlen : (A ++ zeroRows (B.length - A.length) n : List (List K)).length = B.length := by
      simp [zeroRows]; omega
    refine ⟨rect_matAdd n _ _ hr hb, ?_, fun k j => ?_⟩
    · simp only [matAdd, List.length_zipWith, hlen]; omega
    · rw [valAt_matAdd n _ _ k j hlen hr hb, valAt_pad]
  · by_cases h2 : B.length < A.length
    · have e : AB = (A, B ++ zeroRows (A.length - B.length) n) := by
        simp only [AB, unionVals, if_neg h1, if_pos h2, hw2]
      rw [e]
      have hr := rect_pad n (A.length - B.length) B hb
      have hlen : A.length = (B ++ zeroRows (A.length - B.length) n : List (List K)).length := by
        simp [zeroRows]; omega
      refine ⟨rect_matAdd n _ _ ha hr, ?_, fun k j => ?_⟩
      · simp only [matAdd, List.length_zipWith, ← hlen]; omega
      · rw [valAt_matAdd n _ _ k j hlen ha hr, valAt_pad]
    · have e : AB = (A, B) := by simp only [AB, unionVals, if_neg h1, if_neg h2]
      rw [e]
      have hlen : A.length = B.length := by omega
      refine ⟨rect_matAdd n _ _ ha hb, ?_, fun k j => valAt_matAdd n A B k j hlen ha hb⟩
      simp only [matAdd, List.length_zipWith]; omega

theorem valAt_map (f : K → K) (hf : f 0 = 0) (A : List (List K)) (k j : Nat) :
    valAt (A.map fun row => row.map f) k j = f (valAt A k j) := by
  unfold valAt
  rw [List.getElem?_map]
  cases hA : A[k]? with
  | none => simp [hf]
  | some row =>
    simp only [Option.map_some]
    rw [List.getD_eq_getElem?_getD, List.getD_eq_getElem?_getD, List.getElem?_map]
    cases row[j]? <;> simp [hf]

theorem rect_map (n : Nat) (f : K → K) (A : List (List K)) (ha : Rect n A) : Rect n (A.map fun row => row.map f) := by
  intro r hr
  obtain ⟨r', hr', rfl⟩ := List.mem_map.mp hr
  simp [ha r' hr']

/-! ### the constructor check and the operators -/

theorem Grid.mk'_ok (hd : Nat) (s e : K) (n : Nat) (vals : List (List K)) (hne : vals ≠ []) (hn : 0 < n)
    (hr : Rect n vals) (hle : s ≤ e) : Grid.mk' hd s e n vals = .ok ⟨hd, s, e, n, vals⟩ := by
  obtain ⟨a, A, rfl⟩ := List.exists_cons_of_ne_nil hne
  have ha : a ≠ [] := by
    intro h0; have := hr a (by simp); rw [h0] at this; simp at this; omega
  unfold Grid.mk'
  have : ((a :: A).all fun x => x.isEmpty) = false := by
    simp only [List.all_cons, Bool.and_eq_false_imp]
    intro h; simp [ha] at h
  rw [this]
  simp [not_lt.mpr hle]

theorem Grid.add_spec (p q : Grid K) (hp : p.WF) (hq : q.WF) (hc : Compat p q) :
    ∃ r, p.add q = .ok r ∧ r.WF ∧ Compat r p ∧ r.values.length = max p.values.length q.values.length ∧
      ∀ k j, valAt r.values k j = valAt p.values k j + valAt q.values k j := by
  obtain ⟨h1, h2, h3, h4⟩ := hc
  have hqr : Rect p.numSteps q.values := by rw [h4]; exact hq.rect
  obtain ⟨r1, r2, r3⟩ := unionVals_spec p.numSteps p.values q.values hp.ne hq.ne hp.rect hqr
  have hne : matAdd (unionVals p.values q.values).1 (unionVals p.values q.values).2 ≠ [] := by
    intro h0
    have hl := r2; rw [h0] at hl
    have : 0 < p.values.length := List.length_pos_iff.mpr hp.ne
    simp only [List.length_nil] at hl; omega
  refine ⟨⟨p.homDeg, p.start, p.stop, p.numSteps,
    matAdd (unionVals p.values q.values).1 (unionVals p.values q.values).2⟩, ?_, ⟨hne, hp.pos, r1, hp.le⟩,
    ⟨rfl, rfl, rfl, rfl⟩, r2, r3⟩
  unfold Grid.add
  rw [if_neg (not_not.mpr h1), if_neg (not_not.mpr h2), if_neg (not_not.mpr h3), if_neg (not_not.mpr h4)]
  exact Grid.mk'_ok _ _ _ _ _ hne hp.pos r1 hp.le

theorem Grid.map_spec (f : K → K) (hf : f 0 = 0) (p : Grid K) (hp : p.WF) :
    ∃ r, Grid.mk' p.homDeg p.start p.stop p.numSteps (p.values.map fun row => row.map f) = .ok r ∧ r.WF ∧
      Compat r p ∧ r.values.length = p.values.length ∧ ∀ k j, valAt r.values k j = f (valAt p.values k j) := by
  refine ⟨⟨p.homDeg, p.start, p.stop, p.numSteps, p.values.map fun row => row.map f⟩, ?_,
    ⟨by simpa using hp.ne, hp.pos, rect_map _ f _ hp.rect, hp.le⟩,
    ⟨rfl, rfl, rfl, rfl⟩, by simp, valAt_map f hf p.values⟩
  exact Grid.mk'_ok _ _ _ _ _ (by simpa using hp.ne) hp.pos (rect_map _ f _ hp.rect) hp.le

theorem Grid.neg_spec (p : Grid K) (hp : p.WF) :
    ∃ r, p.neg = .ok r ∧ r.WF ∧ Compat r p ∧ r.values.length = p.values.length ∧
      ∀ k j, valAt r.values k j = -valAt p.values k j := by
  obtain ⟨r, e, w, c, l, v⟩ := Grid.map_spec (fun v => (-1 : K) * v) (by simp) p hp
  exact ⟨r, e, w, c, l, fun k j => by rw [v]; ring⟩

theorem Grid.smul_spec (c : K) (p : Grid K) (hp : p.WF) :
    ∃ r, p.smul c = .ok r ∧ r.WF ∧ Compat r p ∧ r.values.length = p.values.length ∧
      ∀ k j, valAt r.values k j = c * valAt p.values k j :=
  Grid.map_spec (fun v => c * v) (by simp) p hp

theorem Grid.sdiv_spec (p : Grid K) (c : K) (hp : p.WF) (hc : c ≠ 0) :
    ∃ r, p.sdiv c = .ok r ∧ r.WF ∧ Compat r p ∧ r.values.length = p.values.length ∧
      ∀ k j, valAt r.values k j = valAt p.values k j / c := by
  obtain ⟨r, e, w, cm, l, v⟩ := Grid.smul_spec (1 / c) p hp
  refine ⟨r, ?_, w, cm, l, fun k j => by rw [v]; field_simp⟩
  unfold Grid.sdiv; rw [if_neg hc]; exact e

theorem Compat.symm {p q : Grid K} (h : Compat p q) : Compat q p := ⟨h.1.symm, h.2.1.symm, h.2.2.1.symm, h.2.2.2.symm⟩
theorem Compat.trans {p q r : Grid K} (h : Compat p q) (h' : Compat q r) : Compat p r :=
  ⟨h.1.trans h'.1, h.2.1.trans h'.2.1, h.2.2.1.trans h'.2.2.1, h.2.2.2.trans h'.2.2.2⟩

theorem Grid.sub_spec (p q : Grid K) (hp : p.WF) (hq : q.WF) (hc : Compat p q) :
    ∃ r, p.sub q = .ok r ∧ r.WF ∧ Compat r p ∧ r.values.length = max p.values.length q.values.length ∧
      ∀ k j, valAt r.values k j = valAt p.values k j - valAt q.values k j := by
  obtain ⟨nq, e1, w1, c1, l1, v1⟩ := Grid.neg_spec q hq
  obtain ⟨r, e2, w2, c2, l2, v2⟩ := Grid.add_spec p nq hp w1 (hc.trans c1.symm)
  refine ⟨r, ?_, w2, c2, by rw [l2, l1], fun k j => by rw [v2, v1]; ring⟩
  unfold Grid.sub; rw [e1]; exact e2

end PersimVerif.PLArith
