/-
  Runtime library of the sweep translator (harness/translator/py2lean_sweep.py, DESIGN.md 3.2): the Lean meaning of the
  few Python values and builtins that the generated definitions of `Generated/SrcSweep.lean` use directly.
  Import-free.  Part of the translator's conventions (trusted like them); the bridging lemmas that relate the generated
  definitions to `Model/Landscape.lean` are in `Lemmas/SrcBridgeSweep.lean`.
-/
namespace PersimVerif.SrcLib.Sweep

/-- a float that may be `-np.inf` / `np.inf`: the first coordinate of the critical points the sweep collects (the
    sentinels `[-np.inf, 0]`, `[np.inf, 0]` are the only non-finite ones it writes) -/
inductive XR (α : Type) where
  | negInf : XR α
  | fin (a : α) : XR α
  | posInf : XR α
  deriving Repr

/-- `==` of two such floats: an infinity equals only itself -/
def XR.beq {α : Type} [BEq α] : XR α → XR α → Bool
  | .negInf, .negInf => true
  | .fin a, .fin b => a == b
  | .posInf, .posInf => true
  | _, _ => false

instance {α : Type} [BEq α] : BEq (XR α) := ⟨XR.beq⟩

/-- Python `<` of two lists: the first position at which the entries are not `==` decides by `<`; if there is none the
    shorter list is the smaller -/
def lexLt {κ : Type} [BEq κ] [LT κ] [DecidableLT κ] : List κ → List κ → Bool
  | [], [] => false
  | [], _ :: _ => true
  | _ :: _, [] => false
  | a :: as, b :: bs => if a == b then lexLt as bs else decide (a < b)

/-- insertion of `x` behind every element that is not greater (`lt x y` false), in front of the first greater one -/
def insertBy {β : Type} (lt : β → β → Bool) (x : β) : List β → List β
  | [] => [x]
  | y :: ys => if lt y x then y :: insertBy lt x ys else x :: y :: ys

/-- `sorted(l, key=key)` with list-valued keys: Python's sort is stable and compares keys by `<` only; this is the
    insertion sort from the right, which returns the same list whenever `<` on the keys is a strict weak order -/
def pySortedBy {β κ : Type} [BEq κ] [LT κ] [DecidableLT κ] (key : β → List κ) (l : List β) : List β :=
  l.foldr (insertBy fun a b => lexLt (key a) (key b)) []

/-- `A.insert(ind, x)` (Python clamps the index to the length) -/
def pyInsert {β : Type} (ind : Nat) (x : β) (A : List β) : List β := A.take ind ++ x :: A.drop ind

/-- `x == np.inf` for a death that may be infinite (`none` = `np.inf`) -/
def isInf {α : Type} (x : Option α) : Bool := x.isNone

end PersimVerif.SrcLib.Sweep
