import PersimVerif.Spec.Matching
import Mathlib.Algebra.BigOperators.Group.Finset.Basic
import Mathlib.Algebra.Order.BigOperators.Group.Finset
import Mathlib.Algebra.BigOperators.Option
import Mathlib.Logic.Equiv.Defs
import Mathlib.Tactic.Linarith
import Mathlib.Tactic.Ring

/-!
# Laws of the partial-matching specification (used by C07; independent of any algorithm)

Everything is stated for arbitrary index types and arbitrary cost functions `c u v`; the two
concrete cost systems (L∞ with `(d-b)/2`, Euclidean with `(d-b)/√2`) are instantiated in
`Props/C07.lean`.
-/
namespace PersimVerif.Spec
open Finset

variable {M N K : Type}

namespace PM

/-! ### reversing a matching -/

theorem maxLE_symm [LinearOrder K] [Zero K] (p : PM M N) (c : M → N → K) (u : M → K) (v : N → K) (d : K) :
    p.symm.MaxLE (fun j i => c i j) v u d ↔ p.MaxLE c u v d := by
  unfold MaxLE rowCost symm
  constructor
  · rintro ⟨h0, hr, hc⟩
    refine ⟨h0, fun i => ?_, fun j hj => ?_⟩
    · cases hfi : p.f i with
      | none => simpa using hc i hfi
      | some j =>
        have := hr j
        simp only [(p.fg i j).mp hfi] at this
        simpa using this
    · have := hr j
      simpa [hj] using this
  · rintro ⟨h0, hr, hc⟩
    refine ⟨h0, fun j => ?_, fun i hi => ?_⟩
    · cases hgj : p.g j with
      | none => simpa using hc j hgj
      | some i =>
        have := hr i
        simp only [(p.fg i j).mpr hgj] at this
        simpa using this
    · have := hr i
      simpa [hi] using this

end PM

/-- **symmetry of the bottleneck cost** -/
theorem IsBottleneck.symm [LinearOrder K] [Zero K] {c : M → N → K} {u : M → K} {v : N → K} {d : K}
    (h : IsBottleneck c u v d) : IsBottleneck (fun j i => c i j) v u d := by
  obtain ⟨⟨p, hp⟩, hl⟩ := h
  refine ⟨⟨p.symm, (PM.maxLE_symm p c u v d).mpr hp⟩, fun q d' hq => ?_⟩
  have : q.symm.MaxLE c u v d' := by
    have := (PM.maxLE_symm q.symm c u v d').symm
    -- q.symm.symm = q definitionally on fields
    have e : q.symm.symm = q := rfl
    rw [e] at this
    exact this.mp hq
  exact hl _ _ this

/-- **non-negativity of the bottleneck cost** -/
theorem IsBottleneck.nonneg [LinearOrder K] [Zero K] {c : M → N → K} {u : M → K} {v : N → K} {d : K}
    (h : IsBottleneck c u v d) : 0 ≤ d := by
  obtain ⟨⟨p, hp⟩, _⟩ := h
  exact hp.1

/-- the bottleneck cost is unique -/
theorem IsBottleneck.unique [LinearOrder K] [Zero K] {c : M → N → K} {u : M → K} {v : N → K} {d d' : K}
    (h : IsBottleneck c u v d) (h' : IsBottleneck c u v d') : d = d' := by
  obtain ⟨⟨p, hp⟩, hl⟩ := h
  obtain ⟨⟨p', hp'⟩, hl'⟩ := h'
  exact le_antisymm (hl _ _ hp') (hl' _ _ hp)

/-- the matching induced by a bijection -/
def PM.ofEquiv (e : M ≃ N) : PM M N :=
  ⟨fun i => some (e i), fun j => some (e.symm j), by
    intro i j; simp only [Option.some.injEq]
    constructor
    · rintro rfl; simp
    · rintro rfl; simp⟩

/-- **zero between a diagram and any reordering of itself** (bottleneck): a bijection along which
    every pair cost vanishes forces the value 0. -/
theorem isBottleneck_zero_of_equiv [LinearOrder K] [Zero K] (c : M → N → K) (u : M → K) (v : N → K)
    (e : M ≃ N) (h0 : ∀ i, c i (e i) = 0) : IsBottleneck c u v 0 := by
  refine ⟨⟨PM.ofEquiv e, le_refl _, fun i => ?_, fun j hj => ?_⟩, fun p d' hp => hp.1⟩
  · simp [PM.rowCost, PM.ofEquiv, h0]
  · simp [PM.ofEquiv] at hj

end PersimVerif.Spec
