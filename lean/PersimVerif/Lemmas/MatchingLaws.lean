import PersimVerif.Spec.Matching
import Mathlib.Algebra.BigOperators.Group.Finset.Basic
import Mathlib.Algebra.Order.BigOperators.Group.Finset
import Mathlib.Algebra.BigOperators.Option
import Mathlib.Logic.Equiv.Defs
import Mathlib.Tactic.Linarith
import Mathlib.Tactic.Ring
import Mathlib.Tactic.Abel
import Mathlib.Data.Fintype.BigOperators
import Mathlib.Tactic.FieldSimp
import Mathlib.Tactic.Positivity
import Mathlib.Tactic.GCongr
import Mathlib.Algebra.BigOperators.Ring.Finset
import Mathlib.Algebra.Order.Field.Basic
import Mathlib.Algebra.BigOperators.Group.Finset.Piecewise

/-!
# Laws of the partial-matching specification (used by C07; independent of any algorithm)

Everything is stated for arbitrary index types and arbitrary cost functions `c u v`; the two
concrete cost systems (L∞ with `(d-b)/2`, Euclidean with `(d-b)/√2`) are instantiated in
`Props/C07.lean`.
-/
namespace PersimVerif.Spec
open Finset

variable {M N K : Type}

namespace PM

/-! ### reversing a matching -/

@[simp] theorem symm_f (p : PM M N) (j : N) : p.symm.f j = p.g j := rfl
@[simp] theorem symm_g (p : PM M N) (i : M) : p.symm.g i = p.f i := rfl
@[simp] theorem symm_symm (p : PM M N) : p.symm.symm = p := rfl

theorem rowCost_some (p : PM M N) (c : M → N → K) (u : M → K) {i : M} {j : N} (h : p.f i = some j) :
    p.rowCost c u i = c i j := by simp [rowCost, h]

theorem rowCost_none (p : PM M N) (c : M → N → K) (u : M → K) {i : M} (h : p.f i = none) :
    p.rowCost c u i = u i := by simp [rowCost, h]

theorem maxLE_symm [LinearOrder K] [Zero K] (p : PM M N) (c : M → N → K) (u : M → K) (v : N → K) (d : K) :
    p.symm.MaxLE (fun j i => c i j) v u d ↔ p.MaxLE c u v d := by
  unfold MaxLE
  constructor
  · rintro ⟨h0, hr, hc⟩
    refine ⟨h0, fun i => ?_, fun j hj => ?_⟩
    · cases hfi : p.f i with
      | none => rw [rowCost_none _ _ _ hfi]; exact hc i hfi
      | some j =>
        rw [rowCost_some _ _ _ hfi]
        have := hr j
        rwa [rowCost_some p.symm _ _ (show p.symm.f j = some i from (p.fg i j).mp hfi)] at this
    · have := hr j
      rwa [rowCost_none p.symm _ _ (show p.symm.f j = none from hj)] at this
  · rintro ⟨h0, hr, hc⟩
    refine ⟨h0, fun j => ?_, fun i hi => ?_⟩
    · cases hgj : p.g j with
      | none => rw [rowCost_none p.symm _ _ (show p.symm.f j = none from hgj)]; exact hc j hgj
      | some i =>
        rw [rowCost_some p.symm _ _ (show p.symm.f j = some i from hgj)]
        have := hr i
        rwa [rowCost_some _ _ _ ((p.fg i j).mpr hgj)] at this
    · have := hr i
      rwa [rowCost_none _ _ _ (show p.f i = none from hi)] at this

end PM

/-- **symmetry of the bottleneck cost** -/
theorem IsBottleneck.symm [LinearOrder K] [Zero K] {c : M → N → K} {u : M → K} {v : N → K} {d : K}
    (h : IsBottleneck c u v d) : IsBottleneck (fun j i => c i j) v u d := by
  obtain ⟨⟨p, hp⟩, hl⟩ := h
  refine ⟨⟨p.symm, (PM.maxLE_symm p c u v d).mpr hp⟩, fun q d' hq => ?_⟩
  have : q.symm.MaxLE c u v d' := (PM.maxLE_symm q.symm c u v d').mp (by simpa using hq)
  exact hl _ _ this

/-- **non-negativity of the bottleneck cost** -/
theorem IsBottleneck.nonneg [LinearOrder K] [Zero K] {c : M → N → K} {u : M → K} {v : N → K} {d : K}
    (h : IsBottleneck c u v d) : 0 ≤ d := by
  obtain ⟨⟨p, hp⟩, _⟩ := h
  exact hp.1

/-- the bottleneck cost is unique -/
theorem IsBottleneck.unique [LinearOrder K] [Zero K] {c : M → N → K} {u : M → K} {v : N → K} {d d' : K}
    (h : IsBottleneck c u v d) (h' : IsBottleneck c u v d') : d = d' := by
  obtain ⟨⟨p, hp⟩, hl⟩ := h
  obtain ⟨⟨p', hp'⟩, hl'⟩ := h'
  exact le_antisymm (hl _ _ hp') (hl' _ _ hp)

/-- the matching induced by a bijection -/
def PM.ofEquiv (e : M ≃ N) : PM M N :=
  ⟨fun i => some (e i), fun j => some (e.symm j), by
    intro i j; simp only [Option.some.injEq]
    constructor
    · rintro rfl; simp
    · rintro rfl; simp⟩

/-- **zero between a diagram and any reordering of itself** (bottleneck): a bijection along which
    every pair cost vanishes forces the value 0. -/
theorem isBottleneck_zero_of_equiv [LinearOrder K] [Zero K] (c : M → N → K) (u : M → K) (v : N → K)
    (e : M ≃ N) (h0 : ∀ i, c i (e i) = 0) : IsBottleneck c u v 0 := by
  refine ⟨⟨PM.ofEquiv e, le_refl _, fun i => ?_, fun j hj => ?_⟩, fun p d' hp => hp.1⟩
  · simp [PM.rowCost, PM.ofEquiv, h0]
  · simp [PM.ofEquiv] at hj


set_option linter.unusedSectionVars false
/-! ### min–sum: symmetry -/
section Sum
variable [Fintype M] [Fintype N] [DecidableEq M] [DecidableEq N]

namespace PM
variable [AddCommMonoid K]

/-- the matched part of the row costs, as a double sum over pairs -/
theorem sum_matched_eq (p : PM M N) (c : M → N → K) :
    (∑ i, match p.f i with | some j => c i j | none => 0)
      = ∑ i, ∑ j, if p.f i = some j then c i j else 0 := by
  refine Finset.sum_congr rfl fun i _ => ?_
  cases h : p.f i with
  | none => simp
  | some j0 => simp

theorem rowCost_split (p : PM M N) (c : M → N → K) (u : M → K) (i : M) :
    p.rowCost c u i = (match p.f i with | some j => c i j | none => 0)
      + (match p.f i with | some _ => 0 | none => u i) := by
  unfold rowCost; cases p.f i <;> simp

theorem sumCost_symm (p : PM M N) (c : M → N → K) (u : M → K) (v : N → K) :
    p.symm.sumCost (fun j i => c i j) v u = p.sumCost c u v := by
  unfold sumCost colCost
  simp only [rowCost_split, Finset.sum_add_distrib, symm_f, symm_g]
  have hm : (∑ j, match p.g j with | some i => c i j | none => 0)
      = ∑ i, match p.f i with | some j => c i j | none => 0 := by
    rw [sum_matched_eq p c]
    have := sum_matched_eq p.symm (fun j i => c i j)
    simp only [symm_f] at this
    rw [this, Finset.sum_comm]
    refine Finset.sum_congr rfl fun i _ => Finset.sum_congr rfl fun j _ => ?_
    simp only [← p.fg i j]
  rw [hm, add_assoc, add_assoc]
  congr 1
  exact add_comm _ _

end PM

/-- **symmetry of the min–sum cost** -/
theorem IsMinSum.symm [AddCommMonoid K] [LinearOrder K] {c : M → N → K} {u : M → K} {v : N → K} {w : K}
    (h : IsMinSum c u v w) : IsMinSum (fun j i => c i j) v u w := by
  obtain ⟨⟨p, hp⟩, hl⟩ := h
  refine ⟨⟨p.symm, by rw [PM.sumCost_symm, hp]⟩, fun q => ?_⟩
  have := hl q.symm
  rwa [← PM.sumCost_symm q.symm, PM.symm_symm] at this

theorem IsMinSum.unique [AddCommMonoid K] [LinearOrder K] {c : M → N → K} {u : M → K} {v : N → K}
    {w w' : K} (h : IsMinSum c u v w) (h' : IsMinSum c u v w') : w = w' := by
  obtain ⟨⟨p, hp⟩, hl⟩ := h
  obtain ⟨⟨p', hp'⟩, hl'⟩ := h'
  exact le_antisymm (hp' ▸ hl p') (hp ▸ hl' p)


/-! ### min–sum: non-negativity, zero on reorderings -/

theorem PM.sumCost_nonneg [AddCommMonoid K] [PartialOrder K] [IsOrderedAddMonoid K]
    (p : PM M N) {c : M → N → K} {u : M → K} {v : N → K}
    (hc : ∀ i j, 0 ≤ c i j) (hu : ∀ i, 0 ≤ u i) (hv : ∀ j, 0 ≤ v j) : 0 ≤ p.sumCost c u v := by
  unfold PM.sumCost
  refine add_nonneg (Finset.sum_nonneg fun i _ => ?_) (Finset.sum_nonneg fun j _ => ?_)
  · unfold PM.rowCost; cases p.f i <;> simp [hc, hu]
  · unfold PM.colCost; cases p.g j <;> simp [hv]

/-- **non-negativity of the min–sum cost** (all costs ≥ 0) -/
theorem IsMinSum.nonneg [AddCommMonoid K] [LinearOrder K] [IsOrderedAddMonoid K]
    {c : M → N → K} {u : M → K} {v : N → K} {w : K}
    (hc : ∀ i j, 0 ≤ c i j) (hu : ∀ i, 0 ≤ u i) (hv : ∀ j, 0 ≤ v j) (h : IsMinSum c u v w) : 0 ≤ w := by
  obtain ⟨⟨p, hp⟩, _⟩ := h
  exact hp ▸ p.sumCost_nonneg hc hu hv

/-- **zero between a diagram and any reordering of itself** (min–sum) -/
theorem isMinSum_zero_of_equiv [AddCommMonoid K] [LinearOrder K] [IsOrderedAddMonoid K]
    (c : M → N → K) (u : M → K) (v : N → K)
    (hc : ∀ i j, 0 ≤ c i j) (hu : ∀ i, 0 ≤ u i) (hv : ∀ j, 0 ≤ v j)
    (e : M ≃ N) (h0 : ∀ i, c i (e i) = 0) : IsMinSum c u v 0 := by
  refine ⟨⟨PM.ofEquiv e, ?_⟩, fun p => p.sumCost_nonneg hc hu hv⟩
  unfold PM.sumCost PM.rowCost PM.colCost
  simp [PM.ofEquiv, h0]

end Sum

/-! ### one side empty -/

/-- against the empty diagram the bottleneck cost is the least `d ≥ 0` above all diagonal costs,
    i.e. `max(0, max_i u i)` — "max persistence / 2" for the L∞ cost system -/
theorem isBottleneck_empty_right [LinearOrder K] [Zero K] [IsEmpty N] (c : M → N → K) (u : M → K)
    (v : N → K) (d : K) :
    IsBottleneck c u v d ↔ (0 ≤ d ∧ ∀ i, u i ≤ d) ∧ ∀ d', 0 ≤ d' → (∀ i, u i ≤ d') → d ≤ d' := by
  have hrow : ∀ (p : PM M N) i, p.rowCost c u i = u i := by
    intro p i
    cases h : p.f i with
    | none => exact PM.rowCost_none _ _ _ h
    | some j => exact (IsEmpty.false j).elim
  constructor
  · rintro ⟨⟨p, h0, hr, _⟩, hl⟩
    refine ⟨⟨h0, fun i => hrow p i ▸ hr i⟩, fun d' hd' hu => hl PM.empty d' ⟨hd', fun i => ?_, fun j => (IsEmpty.false j).elim⟩⟩
    rw [hrow]; exact hu i
  · rintro ⟨⟨h0, hu⟩, hl⟩
    refine ⟨⟨PM.empty, h0, fun i => by rw [hrow]; exact hu i, fun j => (IsEmpty.false j).elim⟩, fun p d' hp => ?_⟩
    exact hl d' hp.1 fun i => hrow p i ▸ hp.2.1 i

/-- against the empty diagram the min–sum cost is the total diagonal cost — "total persistence / √2" -/
theorem isMinSum_empty_right [AddCommMonoid K] [LinearOrder K] [Fintype M] [Fintype N] [IsEmpty N]
    (c : M → N → K) (u : M → K) (v : N → K) : IsMinSum c u v (∑ i, u i) := by
  have hs : ∀ p : PM M N, p.sumCost c u v = ∑ i, u i := by
    intro p
    unfold PM.sumCost
    have : (∑ j : N, p.colCost v j) = 0 := by
      apply Finset.sum_eq_zero; intro j; exact (IsEmpty.false j).elim
    rw [this, add_zero]
    refine Finset.sum_congr rfl fun i _ => ?_
    cases h : p.f i with
    | none => exact PM.rowCost_none _ _ _ h
    | some j => exact (IsEmpty.false j).elim
  exact ⟨⟨PM.empty, hs _⟩, fun p => (hs p).ge⟩

/-! ### bottleneck ≤ min–sum -/

section Compare
variable [Fintype M] [Fintype N] [DecidableEq M] [DecidableEq N] [AddCommMonoid K] [LinearOrder K]
  [IsOrderedAddMonoid K]

/-- a single row cost is at most the total, when all costs are non-negative -/
theorem PM.rowCost_le_sumCost (p : PM M N) {c : M → N → K} {u : M → K} {v : N → K}
    (hc : ∀ i j, 0 ≤ c i j) (hu : ∀ i, 0 ≤ u i) (hv : ∀ j, 0 ≤ v j) (i : M) :
    p.rowCost c u i ≤ p.sumCost c u v := by
  unfold PM.sumCost
  have h1 : p.rowCost c u i ≤ ∑ i, p.rowCost c u i :=
    Finset.single_le_sum (f := fun i => p.rowCost c u i)
      (fun k _ => by unfold PM.rowCost; cases p.f k <;> simp [hc, hu]) (Finset.mem_univ i)
  have h2 : 0 ≤ ∑ j, p.colCost v j :=
    Finset.sum_nonneg fun j _ => by unfold PM.colCost; cases p.g j <;> simp [hv]
  calc p.rowCost c u i ≤ ∑ i, p.rowCost c u i := h1
    _ ≤ (∑ i, p.rowCost c u i) + ∑ j, p.colCost v j := le_add_of_nonneg_right h2

theorem PM.colCost_le_sumCost (p : PM M N) {c : M → N → K} {u : M → K} {v : N → K}
    (hc : ∀ i j, 0 ≤ c i j) (hu : ∀ i, 0 ≤ u i) (hv : ∀ j, 0 ≤ v j) (j : N) :
    p.colCost v j ≤ p.sumCost c u v := by
  unfold PM.sumCost
  have h1 : p.colCost v j ≤ ∑ j, p.colCost v j :=
    Finset.single_le_sum (f := fun j => p.colCost v j)
      (fun k _ => by unfold PM.colCost; cases p.g k <;> simp [hv]) (Finset.mem_univ j)
  have h2 : 0 ≤ ∑ i, p.rowCost c u i :=
    Finset.sum_nonneg fun k _ => by unfold PM.rowCost; cases p.f k <;> simp [hc, hu]
  calc p.colCost v j ≤ ∑ j, p.colCost v j := h1
    _ ≤ (∑ i, p.rowCost c u i) + ∑ j, p.colCost v j := le_add_of_nonneg_left h2

/-- **the bottleneck cost never exceeds the min–sum cost** when the bottleneck cost system is
    pointwise below the min–sum one and everything is non-negative -/
theorem bottleneck_le_minSum {cB cW : M → N → K} {uB uW : M → K} {vB vW : N → K} {d w : K}
    (hcB : ∀ i j, cB i j ≤ cW i j) (huB : ∀ i, uB i ≤ uW i) (hvB : ∀ j, vB j ≤ vW j)
    (hc : ∀ i j, 0 ≤ cW i j) (hu : ∀ i, 0 ≤ uW i) (hv : ∀ j, 0 ≤ vW j)
    (hB : IsBottleneck cB uB vB d) (hW : IsMinSum cW uW vW w) : d ≤ w := by
  obtain ⟨⟨p, hp⟩, _⟩ := hW
  refine hB.least p w ⟨hp ▸ p.sumCost_nonneg hc hu hv, fun i => ?_, fun j hj => ?_⟩
  · have h1 : p.rowCost cB uB i ≤ p.rowCost cW uW i := by
      unfold PM.rowCost; cases p.f i <;> simp [hcB, huB]
    exact h1.trans (hp ▸ p.rowCost_le_sumCost hc hu hv i)
  · have h2 : p.colCost vW j = vW j := by unfold PM.colCost; rw [hj]
    exact (hvB j).trans (h2 ▸ hp ▸ p.colCost_le_sumCost hc hu hv j)

end Compare

/-! ### positive homogeneity -/
section Scale
variable [Field K] [LinearOrder K] [IsStrictOrderedRing K]

theorem PM.rowCost_smul (p : PM M N) (c : M → N → K) (u : M → K) (l : K) (i : M) :
    p.rowCost (fun i j => l * c i j) (fun i => l * u i) i = l * p.rowCost c u i := by
  unfold PM.rowCost; cases p.f i <;> rfl

theorem PM.maxLE_smul (p : PM M N) (c : M → N → K) (u : M → K) (v : N → K) {l : K} (hl : 0 < l) (d : K) :
    p.MaxLE (fun i j => l * c i j) (fun i => l * u i) (fun j => l * v j) (l * d) ↔ p.MaxLE c u v d := by
  unfold PM.MaxLE
  simp only [PM.rowCost_smul, mul_le_mul_iff_right₀ hl]
  constructor
  · rintro ⟨h0, h1, h2⟩; exact ⟨by nlinarith, h1, h2⟩
  · rintro ⟨h0, h1, h2⟩; exact ⟨by positivity, h1, h2⟩

/-- **the bottleneck cost scales linearly** when all costs are rescaled by `l > 0` -/
theorem IsBottleneck.smul {c : M → N → K} {u : M → K} {v : N → K} {d l : K} (hl : 0 < l)
    (h : IsBottleneck c u v d) :
    IsBottleneck (fun i j => l * c i j) (fun i => l * u i) (fun j => l * v j) (l * d) := by
  obtain ⟨⟨p, hp⟩, hle⟩ := h
  refine ⟨⟨p, (p.maxLE_smul c u v hl d).mpr hp⟩, fun q d' hq => ?_⟩
  have e : d' = l * (d' / l) := by field_simp
  rw [e] at hq
  have := hle q _ ((q.maxLE_smul c u v hl _).mp hq)
  calc l * d ≤ l * (d' / l) := by gcongr
    _ = d' := e.symm

theorem PM.sumCost_smul [Fintype M] [Fintype N] (p : PM M N) (c : M → N → K) (u : M → K) (v : N → K) (l : K) :
    p.sumCost (fun i j => l * c i j) (fun i => l * u i) (fun j => l * v j) = l * p.sumCost c u v := by
  unfold PM.sumCost
  rw [mul_add, Finset.mul_sum, Finset.mul_sum]
  congr 1
  · exact Finset.sum_congr rfl fun i _ => p.rowCost_smul c u l i
  · refine Finset.sum_congr rfl fun j _ => ?_
    unfold PM.colCost; cases p.g j <;> simp

/-- **the min–sum cost scales linearly** (any `l ≥ 0`) -/
theorem IsMinSum.smul [Fintype M] [Fintype N] {c : M → N → K} {u : M → K} {v : N → K} {w l : K}
    (hl : 0 ≤ l) (h : IsMinSum c u v w) :
    IsMinSum (fun i j => l * c i j) (fun i => l * u i) (fun j => l * v j) (l * w) := by
  obtain ⟨⟨p, hp⟩, hle⟩ := h
  refine ⟨⟨p, by rw [p.sumCost_smul, hp]⟩, fun q => ?_⟩
  rw [q.sumCost_smul]
  exact mul_le_mul_of_nonneg_left (hle q) hl

end Scale

/-! ### adding a point on the diagonal changes nothing

The extended diagram has index type `Option N`; `none` is the added point.  Its own diagonal
cost is `0`, and matching a point `i` to it costs at least what sending `i` to the diagonal
costs (`u i ≤ c' i none`: the diagonal cost is 1-Lipschitz and vanishes on the diagonal). -/
section Diagonal

/-- forget the added point: whoever was matched to it goes to the diagonal instead -/
def PM.restrictOpt (p : PM M (Option N)) : PM M N where
  f i := match p.f i with
    | some (some j) => some j
    | _ => none
  g j := p.g (some j)
  fg i j := by
    rw [← p.fg i (some j)]
    cases h : p.f i with
    | none => simp
    | some o => cases o <;> simp

/-- keep the matching, leave the added point unmatched -/
def PM.extendOpt (p : PM M N) : PM M (Option N) where
  f i := (p.f i).map some
  g
    | some j => p.g j
    | none => none
  fg i o := by
    cases o with
    | none => cases p.f i <;> simp
    | some j =>
      simp only [← p.fg i j]
      cases p.f i <;> simp

variable [LinearOrder K] [Zero K]

theorem PM.maxLE_restrictOpt (p : PM M (Option N)) (c : M → Option N → K) (u : M → K) (v : Option N → K)
    (hlip : ∀ i, u i ≤ c i none) {d : K} (h : p.MaxLE c u v d) :
    p.restrictOpt.MaxLE (fun i j => c i (some j)) u (fun j => v (some j)) d := by
  obtain ⟨h0, hr, hc⟩ := h
  refine ⟨h0, fun i => ?_, fun j hj => hc (some j) hj⟩
  have := hr i
  unfold PM.rowCost at this ⊢
  unfold PM.restrictOpt
  cases hf : p.f i with
  | none => simpa [hf] using this
  | some o =>
    cases o with
    | none => simp only [hf] at this ⊢; exact (hlip i).trans this
    | some j => simpa [hf] using this

theorem PM.maxLE_extendOpt (p : PM M N) (c : M → Option N → K) (u : M → K) (v : Option N → K)
    (hv0 : v none = 0) {d : K} (h : p.MaxLE (fun i j => c i (some j)) u (fun j => v (some j)) d) :
    p.extendOpt.MaxLE c u v d := by
  obtain ⟨h0, hr, hc⟩ := h
  refine ⟨h0, fun i => ?_, fun o ho => ?_⟩
  · have := hr i
    unfold PM.rowCost at this ⊢
    unfold PM.extendOpt
    cases hf : p.f i <;> simpa [hf] using this
  · cases o with
    | none => rw [hv0]; exact h0
    | some j => exact hc j ho

/-- **the bottleneck cost ignores an added diagonal point** -/
theorem isBottleneck_option_iff (c : M → Option N → K) (u : M → K) (v : Option N → K)
    (hv0 : v none = 0) (hlip : ∀ i, u i ≤ c i none) (d : K) :
    IsBottleneck c u v d ↔ IsBottleneck (fun i j => c i (some j)) u (fun j => v (some j)) d := by
  constructor
  · rintro ⟨⟨p, hp⟩, hl⟩
    exact ⟨⟨p.restrictOpt, p.maxLE_restrictOpt c u v hlip hp⟩,
      fun q d' hq => hl _ _ (q.maxLE_extendOpt c u v hv0 hq)⟩
  · rintro ⟨⟨p, hp⟩, hl⟩
    exact ⟨⟨p.extendOpt, p.maxLE_extendOpt c u v hv0 hp⟩,
      fun q d' hq => hl _ _ (q.maxLE_restrictOpt c u v hlip hq)⟩

end Diagonal

section DiagonalSum
variable [Fintype M] [Fintype N] [DecidableEq M] [DecidableEq N] [AddCommMonoid K] [LinearOrder K]
  [IsOrderedAddMonoid K]

theorem PM.sumCost_extendOpt (p : PM M N) (c : M → Option N → K) (u : M → K) (v : Option N → K)
    (hv0 : v none = 0) :
    p.extendOpt.sumCost c u v = p.sumCost (fun i j => c i (some j)) u (fun j => v (some j)) := by
  unfold PM.sumCost
  rw [Fintype.sum_option]
  have h1 : ∀ i, p.extendOpt.rowCost c u i = p.rowCost (fun i j => c i (some j)) u i := by
    intro i; unfold PM.rowCost PM.extendOpt; cases hf : p.f i <;> simp [hf]
  have h2 : p.extendOpt.colCost v none = 0 := by simp [PM.colCost, PM.extendOpt, hv0]
  have h3 : ∀ j, p.extendOpt.colCost v (some j) = p.colCost (fun j => v (some j)) j := by
    intro j; unfold PM.colCost PM.extendOpt; cases hg : p.g j <;> simp
  simp only [h1, h2, h3, zero_add]

theorem PM.sumCost_restrictOpt_le (p : PM M (Option N)) (c : M → Option N → K) (u : M → K)
    (v : Option N → K) (hv0 : v none = 0) (hlip : ∀ i, u i ≤ c i none) :
    p.restrictOpt.sumCost (fun i j => c i (some j)) u (fun j => v (some j)) ≤ p.sumCost c u v := by
  unfold PM.sumCost
  rw [Fintype.sum_option]
  have h1 : ∀ i, p.restrictOpt.rowCost (fun i j => c i (some j)) u i ≤ p.rowCost c u i := by
    intro i; unfold PM.rowCost PM.restrictOpt
    cases hf : p.f i with
    | none => simp [hf]
    | some o => cases o with
      | none => simpa [hf] using hlip i
      | some j => simp [hf]
  have h2 : 0 ≤ p.colCost v none := by unfold PM.colCost; cases p.g none <;> simp [hv0]
  have h3 : ∀ j, p.restrictOpt.colCost (fun j => v (some j)) j = p.colCost v (some j) := by
    intro j; unfold PM.colCost PM.restrictOpt; rfl
  simp only [h3]
  calc (∑ i, p.restrictOpt.rowCost (fun i j => c i (some j)) u i) + ∑ j, p.colCost v (some j)
      ≤ (∑ i, p.rowCost c u i) + ∑ j, p.colCost v (some j) := by
        gcongr with i; exact h1 i
    _ ≤ (∑ i, p.rowCost c u i) + (p.colCost v none + ∑ j, p.colCost v (some j)) := by
        gcongr; exact le_add_of_nonneg_left h2

/-- **the min–sum cost ignores an added diagonal point** -/
theorem isMinSum_option_iff (c : M → Option N → K) (u : M → K) (v : Option N → K)
    (hv0 : v none = 0) (hlip : ∀ i, u i ≤ c i none) (w : K) :
    IsMinSum c u v w ↔ IsMinSum (fun i j => c i (some j)) u (fun j => v (some j)) w := by
  constructor
  · rintro ⟨⟨p, hp⟩, hl⟩
    refine ⟨⟨p.restrictOpt, le_antisymm (hp ▸ p.sumCost_restrictOpt_le c u v hv0 hlip) ?_⟩, fun q => ?_⟩
    · have := hl p.restrictOpt.extendOpt
      rwa [PM.sumCost_extendOpt _ c u v hv0] at this
    · have := hl q.extendOpt
      rwa [PM.sumCost_extendOpt _ c u v hv0] at this
  · rintro ⟨⟨p, hp⟩, hl⟩
    refine ⟨⟨p.extendOpt, by rw [PM.sumCost_extendOpt _ c u v hv0, hp]⟩, fun q => ?_⟩
    exact (hl q.restrictOpt).trans (q.sumCost_restrictOpt_le c u v hv0 hlip)

end DiagonalSum

/-! ### triangle inequality (bottleneck) -/
section Triangle
variable {L : Type}

/-- composition of partial matchings -/
def PM.comp (p : PM L M) (q : PM M N) : PM L N where
  f i := (p.f i).bind q.f
  g k := (q.g k).bind p.g
  fg i k := by
    constructor
    · intro h
      cases hp : p.f i with
      | none => simp [hp] at h
      | some j =>
        simp only [hp, Option.bind_some] at h
        simp [(q.fg j k).mp h, (p.fg i j).mp hp]
    · intro h
      cases hq : q.g k with
      | none => simp [hq] at h
      | some j =>
        simp only [hq, Option.bind_some] at h
        simp [(q.fg j k).mpr hq, (p.fg i j).mpr h]

variable [AddCommMonoid K] [LinearOrder K] [IsOrderedAddMonoid K]

/-- **triangle inequality for the bottleneck cost**, for any three cost systems related by the
    triangle inequality of the point cost and the 1-Lipschitz property of the diagonal cost -/
theorem bottleneck_triangle
    {cLM : L → M → K} {cMN : M → N → K} {cLN : L → N → K} {uL : L → K} {uM : M → K} {uN : N → K}
    (htri : ∀ i j k, cLN i k ≤ cLM i j + cMN j k)
    (hL : ∀ i j, uL i ≤ cLM i j + uM j) (hN : ∀ j k, uN k ≤ uM j + cMN j k)
    {d1 d2 d : K} (h1 : IsBottleneck cLM uL uM d1) (h2 : IsBottleneck cMN uM uN d2)
    (h : IsBottleneck cLN uL uN d) : d ≤ d1 + d2 := by
  obtain ⟨⟨p, hp0, hpr, hpc⟩, _⟩ := h1
  obtain ⟨⟨q, hq0, hqr, hqc⟩, _⟩ := h2
  refine h.least (p.comp q) _ ⟨add_nonneg hp0 hq0, fun i => ?_, fun k hk => ?_⟩
  · cases hf : p.f i with
    | none =>
      have hc : (p.comp q).f i = none := by simp [PM.comp, hf]
      have := hpr i; rw [PM.rowCost_none _ _ _ hf] at this
      rw [PM.rowCost_none _ _ _ hc]
      exact this.trans (le_add_of_nonneg_right hq0)
    | some j =>
      have h1 := hpr i; rw [PM.rowCost_some _ _ _ hf] at h1
      cases hg : q.f j with
      | none =>
        have hc : (p.comp q).f i = none := by simp [PM.comp, hf, hg]
        have h2 := hqr j; rw [PM.rowCost_none _ _ _ hg] at h2
        rw [PM.rowCost_none _ _ _ hc]
        exact (hL i j).trans (add_le_add h1 h2)
      | some k =>
        have hc : (p.comp q).f i = some k := by simp [PM.comp, hf, hg]
        have h2 := hqr j; rw [PM.rowCost_some _ _ _ hg] at h2
        rw [PM.rowCost_some _ _ _ hc]
        exact (htri i j k).trans (add_le_add h1 h2)
  · change (q.g k).bind p.g = none at hk
    cases hg : q.g k with
    | none => exact (hqc k hg).trans (le_add_of_nonneg_left hp0)
    | some j =>
      rw [hg, Option.bind_some] at hk
      have h1 := hpc j hk
      have h2 := hqr j; rw [PM.rowCost_some _ _ _ ((q.fg j k).mpr hg)] at h2
      exact (hN j k).trans (add_le_add h1 h2)

end Triangle

/-! ### triangle inequality (min–sum) -/
section TriangleSum
variable {L : Type} [Fintype L] [Fintype M] [Fintype N] [DecidableEq L] [DecidableEq M] [DecidableEq N]
  [AddCommMonoid K] [LinearOrder K] [IsOrderedAddMonoid K]

omit [LinearOrder K] [IsOrderedAddMonoid K] [Fintype L] [DecidableEq L] in
/-- summing a quantity over the matched pairs, from either side -/
theorem PM.sum_matched_comm (p : PM M N) (F : M → N → K) :
    (∑ i, match p.f i with | some j => F i j | none => 0)
      = ∑ j, match p.g j with | some i => F i j | none => 0 := by
  rw [PM.sum_matched_eq p F]
  have := PM.sum_matched_eq p.symm (fun j i => F i j)
  simp only [PM.symm_f] at this
  rw [this, Finset.sum_comm]
  refine Finset.sum_congr rfl fun j _ => Finset.sum_congr rfl fun i _ => ?_
  simp only [← p.fg i j]

/-- the composed matching costs at most the sum of the two -/
theorem PM.sumCost_comp_le (p : PM L M) (q : PM M N)
    {cLM : L → M → K} {cMN : M → N → K} {cLN : L → N → K} {uL : L → K} {uM : M → K} {uN : N → K}
    (htri : ∀ i j k, cLN i k ≤ cLM i j + cMN j k)
    (hL : ∀ i j, uL i ≤ cLM i j + uM j) (hN : ∀ j k, uN k ≤ uM j + cMN j k)
    (hcMN : ∀ j k, 0 ≤ cMN j k) (huM : ∀ j, 0 ≤ uM j) :
    (p.comp q).sumCost cLN uL uN ≤ p.sumCost cLM uL uM + q.sumCost cMN uM uN := by
  have hrq : ∀ j, 0 ≤ q.rowCost cMN uM j := fun j => by
    unfold PM.rowCost; cases q.f j <;> simp [hcMN, huM]
  -- row bound
  have B1 : ∀ i, (p.comp q).rowCost cLN uL i
      ≤ p.rowCost cLM uL i + (match p.f i with | some j => q.rowCost cMN uM j | none => 0) := by
    intro i
    cases hf : p.f i with
    | none =>
      have hc : (p.comp q).f i = none := by simp [PM.comp, hf]
      rw [PM.rowCost_none _ _ _ hc, PM.rowCost_none _ _ _ hf]; simp
    | some j =>
      rw [PM.rowCost_some _ _ _ hf]
      cases hg : q.f j with
      | none =>
        have hc : (p.comp q).f i = none := by simp [PM.comp, hf, hg]
        rw [PM.rowCost_none _ _ _ hc]
        show _ ≤ cLM i j + q.rowCost cMN uM j
        rw [PM.rowCost_none _ _ _ hg]; exact hL i j
      | some k =>
        have hc : (p.comp q).f i = some k := by simp [PM.comp, hf, hg]
        rw [PM.rowCost_some _ _ _ hc]
        show _ ≤ cLM i j + q.rowCost cMN uM j
        rw [PM.rowCost_some _ _ _ hg]; exact htri i j k
  -- column bound
  let G : M → K := fun j => match p.g j with
    | some _ => 0
    | none => uM j + q.rowCost cMN uM j
  have B2 : ∀ k, (p.comp q).colCost uN k
      ≤ q.colCost uN k + (match q.g k with | some j => G j | none => 0) := by
    intro k
    unfold PM.colCost
    cases hg : q.g k with
    | none =>
      have hc : (p.comp q).g k = none := by simp [PM.comp, hg]
      simp [hc]
    | some j =>
      cases hpg : p.g j with
      | some i =>
        have hc : (p.comp q).g k = some i := by simp [PM.comp, hg, hpg]
        simp [hc, G, hpg]
      | none =>
        have hc : (p.comp q).g k = none := by simp [PM.comp, hg, hpg]
        have hq : q.rowCost cMN uM j = cMN j k := PM.rowCost_some _ _ _ ((q.fg j k).mpr hg)
        simp only [hc, G, hpg, hq, zero_add]
        exact hN j k
  -- per middle point
  have PJ : ∀ j, (match p.g j with | some _ => q.rowCost cMN uM j | none => 0)
      + (match q.f j with | some _ => G j | none => 0) ≤ p.colCost uM j + q.rowCost cMN uM j := by
    intro j
    unfold PM.colCost
    cases hpg : p.g j with
    | some i =>
      have hG : G j = 0 := by simp [G, hpg]
      cases q.f j <;> simp [hG]
    | none =>
      have hG : G j = uM j + q.rowCost cMN uM j := by simp [G, hpg]
      cases q.f j with
      | none => simpa using add_nonneg (huM j) (hrq j)
      | some k => simp [hG]
  have S1 : (∑ i, match p.f i with | some j => q.rowCost cMN uM j | none => 0)
      = ∑ j, match p.g j with | some _ => q.rowCost cMN uM j | none => 0 :=
    p.sum_matched_comm (fun _ j => q.rowCost cMN uM j)
  have S2 : (∑ k, match q.g k with | some j => G j | none => 0)
      = ∑ j, match q.f j with | some _ => G j | none => 0 := by
    have := q.symm.sum_matched_comm (fun _ j => G j)
    simpa using this
  unfold PM.sumCost
  calc (∑ i, (p.comp q).rowCost cLN uL i) + ∑ k, (p.comp q).colCost uN k
      ≤ (∑ i, (p.rowCost cLM uL i + (match p.f i with | some j => q.rowCost cMN uM j | none => 0)))
        + ∑ k, (q.colCost uN k + (match q.g k with | some j => G j | none => 0)) :=
        add_le_add (Finset.sum_le_sum fun i _ => B1 i) (Finset.sum_le_sum fun k _ => B2 k)
    _ = (∑ i, p.rowCost cLM uL i) + (∑ k, q.colCost uN k)
        + ∑ j, ((match p.g j with | some _ => q.rowCost cMN uM j | none => 0)
            + (match q.f j with | some _ => G j | none => 0)) := by
        rw [Finset.sum_add_distrib, Finset.sum_add_distrib, Finset.sum_add_distrib, S1, S2]
        abel
    _ ≤ (∑ i, p.rowCost cLM uL i) + (∑ k, q.colCost uN k)
        + ∑ j, (p.colCost uM j + q.rowCost cMN uM j) := by
        exact add_le_add_right (Finset.sum_le_sum fun j _ => PJ j) _
    _ = (∑ i, p.rowCost cLM uL i) + (∑ j, p.colCost uM j)
        + ((∑ j, q.rowCost cMN uM j) + ∑ k, q.colCost uN k) := by
        rw [Finset.sum_add_distrib]; abel

/-- **triangle inequality for the min–sum cost** -/
theorem minSum_triangle
    {cLM : L → M → K} {cMN : M → N → K} {cLN : L → N → K} {uL : L → K} {uM : M → K} {uN : N → K}
    (htri : ∀ i j k, cLN i k ≤ cLM i j + cMN j k)
    (hL : ∀ i j, uL i ≤ cLM i j + uM j) (hN : ∀ j k, uN k ≤ uM j + cMN j k)
    (hcMN : ∀ j k, 0 ≤ cMN j k) (huM : ∀ j, 0 ≤ uM j)
    {w1 w2 w : K} (h1 : IsMinSum cLM uL uM w1) (h2 : IsMinSum cMN uM uN w2)
    (h : IsMinSum cLN uL uN w) : w ≤ w1 + w2 := by
  obtain ⟨⟨p, hp⟩, _⟩ := h1
  obtain ⟨⟨q, hq⟩, _⟩ := h2
  calc w ≤ (p.comp q).sumCost cLN uL uN := h.least _
    _ ≤ p.sumCost cLM uL uM + q.sumCost cMN uM uN := p.sumCost_comp_le q htri hL hN hcMN huM
    _ = w1 + w2 := by rw [hp, hq]

end TriangleSum

end PersimVerif.Spec
