import PersimVerif.Lemmas.MGHBasic

/-! the upper bound: `constructMapping` returns an actual map with its exact distortion;
    the sampling loop therefore never goes below the minimum distortion -/
namespace PersimVerif.MGH
open PersimVerif.MGHSpec

/-- invariant of the `for x in pi[1:]` loop -/
structure MapInv (DX DY : Mat) (n m : ℕ) (mapped : List (ℕ × ℕ)) (dist : ℕ) : Prop where
  inX : ∀ p ∈ mapped, p.1 < n
  inY : ∀ p ∈ mapped, p.2 < m
  bound : ∀ p ∈ mapped, ∀ q ∈ mapped, absDiff (ent DX p.1 q.1) (ent DY p.2 q.2) ≤ dist
  attained : dist = 0 ∨ ∃ p ∈ mapped, ∃ q ∈ mapped, absDiff (ent DX p.1 q.1) (ent DY p.2 q.2) = dist

theorem le_bottleneck (DX DY : Mat) (x y : ℕ) {mapped : List (ℕ × ℕ)} {p : ℕ × ℕ} (hp : p ∈ mapped) :
    absDiff (ent DX x p.1) (ent DY y p.2) ≤ bottleneck DX DY x mapped y := by
  unfold bottleneck
  exact le_foldl_max_of_mem 0 (List.mem_map.2 ⟨p, hp, rfl⟩)

theorem bottleneck_attained (DX DY : Mat) (x y : ℕ) (mapped : List (ℕ × ℕ)) :
    bottleneck DX DY x mapped y = 0 ∨
      ∃ p ∈ mapped, absDiff (ent DX x p.1) (ent DY y p.2) = bottleneck DX DY x mapped y := by
  unfold bottleneck
  rcases foldl_max_eq_or_mem (mapped.map fun p => absDiff (ent DX x p.1) (ent DY y p.2)) 0 with h | h
  · left; exact h
  · right
    obtain ⟨p, hp, e⟩ := List.mem_map.1 h
    exact ⟨p, hp, e⟩

theorem getD_map_range {α : Type} (g : ℕ → α) (m y : ℕ) (a : α) (h : y < m) :
    ((List.range m).map g).getD y a = g y := by
  simp [List.getD, h]

theorem MapInv.step {DX DY : Mat} {n m : ℕ} (hX : DistMat DX n) (hY : DistMat DY m)
    {mapped : List (ℕ × ℕ)} {dist x : ℕ} (hI : MapInv DX DY n m mapped dist) (hx : x < n) (hm : 0 < m) :
    let bs := (List.range DY.length).map (bottleneck DX DY x mapped)
    MapInv DX DY n m (mapped ++ [(x, argmin bs)]) (max (bs.getD (argmin bs) 0) dist) := by
  intro bs
  have hlen : bs.length = m := by simp [bs, hY.len]
  have hy : argmin bs < m := by
    have : bs ≠ [] := by intro e; rw [e] at hlen; simp at hlen; omega
    have := argmin_lt this; omega
  set y := argmin bs with hydef
  have hb : bs.getD y 0 = bottleneck DX DY x mapped y := by
    simp only [bs]; rw [hY.len]; exact getD_map_range _ _ _ _ hy
  rw [hb]
  have hxx : ent DX x x = 0 := (hX.zero_iff x x hx hx).2 rfl
  have hyy : ent DY y y = 0 := (hY.zero_iff y y hy hy).2 rfl
  refine ⟨?_, ?_, ?_, ?_⟩
  · intro p hp
    rcases List.mem_append.1 hp with h | h
    · exact hI.inX p h
    · simp at h; subst h; exact hx
  · intro p hp
    rcases List.mem_append.1 hp with h | h
    · exact hI.inY p h
    · simp at h; subst h; exact hy
  · intro p hp q hq
    rcases List.mem_append.1 hp with h | h <;> rcases List.mem_append.1 hq with h' | h'
    · exact le_trans (hI.bound p h q h') (le_max_right _ _)
    · simp at h'; subst h'
      have := le_bottleneck DX DY x y h
      rw [hX.symm x p.1 hx (hI.inX p h), hY.symm y p.2 hy (hI.inY p h)] at this
      exact le_trans this (le_max_left _ _)
    · simp at h; subst h
      exact le_trans (le_bottleneck DX DY x y h') (le_max_left _ _)
    · simp at h h'; subst h; subst h'
      simp [hxx, hyy, absDiff]
  · rcases bottleneck_attained DX DY x y mapped with h0 | ⟨p, hp, e⟩
    · rw [h0]
      rcases hI.attained with hd | ⟨p, hp, q, hq, e⟩
      · left; simp [hd]
      · right
        refine ⟨p, List.mem_append_left _ hp, q, List.mem_append_left _ hq, ?_⟩
        simp [e]
    · right
      rcases le_total (bottleneck DX DY x mapped y) dist with hle | hle
      · rcases hI.attained with hd | ⟨p', hp', q', hq', e'⟩
        · refine ⟨(x, y), by simp, p, List.mem_append_left _ hp, ?_⟩
          simp only [e]; rw [max_eq_left]; omega
        · refine ⟨p', List.mem_append_left _ hp', q', List.mem_append_left _ hq', ?_⟩
          rw [e', max_eq_right hle]
      · refine ⟨(x, y), by simp, p, List.mem_append_left _ hp, ?_⟩
        simp only [e]; rw [max_eq_left hle]

theorem mapLoop_inv {DX DY : Mat} {n m : ℕ} (hX : DistMat DX n) (hY : DistMat DY m) (hm : 0 < m)
    (rest : List ℕ) (mapped : List (ℕ × ℕ)) (dist : ℕ) (hI : MapInv DX DY n m mapped dist)
    (hrest : ∀ x ∈ rest, x < n) :
    MapInv DX DY n m (mapLoop DX DY rest mapped dist).1 (mapLoop DX DY rest mapped dist).2 ∧
      (mapLoop DX DY rest mapped dist).1.map Prod.fst = mapped.map Prod.fst ++ rest := by
  induction rest generalizing mapped dist with
  | nil => simp [mapLoop, hI]
  | cons x rest ih =>
    simp only [mapLoop]
    have hs := hI.step hX hY (hrest x (by simp)) hm
    obtain ⟨h1, h2⟩ := ih _ _ hs (fun z hz => hrest z (by simp [hz]))
    refine ⟨h1, ?_⟩
    rw [h2]; simp

/-! ### the incremental column selection computes the same loop -/

theorem map_range_getD {α : Type} (DY : Mat) (F : List ℕ → α) :
    (List.range DY.length).map (fun y => F (DY.getD y [])) = DY.map F := by
  apply List.ext_getElem
  · simp
  · intro i h1 h2
    have : i < DY.length := by simpa using h2
    simp [List.getD, this]

theorem mapLoopFast_eq (DX DY : Mat) (rest : List ℕ) (mapped : List (ℕ × ℕ)) (W : Mat) (dist : ℕ)
    (hW : W = DY.map fun rowY => mapped.map fun p => rowY.getD p.2 0) :
    mapLoopFast DX DY rest mapped W dist = mapLoop DX DY rest mapped dist := by
  induction rest generalizing mapped W dist with
  | nil => simp [mapLoopFast, mapLoop]
  | cons x rest ih =>
    simp only [mapLoopFast, mapLoop]
    have hbs : (W.map fun wy => (List.zipWith absDiff
          (mapped.map fun p => (DX.getD x []).getD p.1 0) wy).foldl max 0) =
        (List.range DY.length).map (bottleneck DX DY x mapped) := by
      rw [hW, List.map_map, ← map_range_getD DY]
      apply List.map_congr_left
      intro y _
      simp only [Function.comp, bottleneck, ent]
      congr 1
      rw [List.zipWith_map, List.zipWith_self]
    rw [hbs]
    apply ih
    rw [hW]
    apply List.ext_getElem
    · simp
    · intro i h1 h2
      simp

/-- **`construct_mapping` returns an actual total map together with its exact distortion.** -/
theorem constructMapping_exact {DX DY : Mat} {n m : ℕ} (hX : DistMat DX n) (hY : DistMat DY m)
    {pi : List ℕ} {y0 : ℕ} (hpi : pi.Perm (List.range n)) (hy0 : y0 < m)
    {mapped : List (ℕ × ℕ)} {dist : ℕ} (h : constructMapping DX DY pi y0 = .ok (mapped, dist)) :
    mapped.map Prod.fst = pi ∧
    ∃ f : Fin n → Fin m, (∀ x : Fin n, (x.val, (f x).val) ∈ mapped) ∧
      (∀ p ∈ mapped, ∃ hp : p.1 < n, (f ⟨p.1, hp⟩).val = p.2) ∧
      dis (matFn DX n) (matFn DY m) f = dist := by
  have hm : 0 < m := by omega
  cases pi with
  | nil => simp [constructMapping] at h
  | cons x0 rest =>
    simp only [constructMapping, Except.ok.injEq] at h
    rw [mapLoopFast_eq DX DY rest [(x0, y0)] _ 0 (by simp)] at h
    have hmem : ∀ x ∈ x0 :: rest, x < n := fun x hx => List.mem_range.1 (hpi.mem_iff.1 hx)
    have hx0 : x0 < n := hmem x0 (by simp)
    have h0 : MapInv DX DY n m [(x0, y0)] 0 := by
      refine ⟨by simpa using hx0, by simpa using hy0, ?_, Or.inl rfl⟩
      intro p hp q hq
      simp at hp hq; subst hp; subst hq
      simp [(hX.zero_iff x0 x0 hx0 hx0).2 rfl, (hY.zero_iff y0 y0 hy0 hy0).2 rfl, absDiff]
    have hinv := mapLoop_inv hX hY hm rest [(x0, y0)] 0 h0 (fun x hx => hmem x (by simp [hx]))
    rw [h] at hinv
    obtain ⟨hI, hfst⟩ := hinv
    dsimp only at hI hfst
    simp only [List.map_cons, List.map_nil, List.singleton_append] at hfst
    refine ⟨hfst, ?_⟩
    have hnodup : (mapped.map Prod.fst).Nodup := by
      rw [hfst]; exact hpi.nodup_iff.2 List.nodup_range
    have hex : ∀ x : Fin n, ∃ y : Fin m, (x.val, y.val) ∈ mapped := by
      intro x
      have : x.val ∈ mapped.map Prod.fst := by
        rw [hfst]; exact hpi.mem_iff.2 (List.mem_range.2 x.isLt)
      obtain ⟨p, hp, e⟩ := List.mem_map.1 this
      refine ⟨⟨p.2, hI.inY p hp⟩, ?_⟩
      have : p = (x.val, p.2) := by rw [← e]
      rw [← this]; exact hp
    choose f hf using hex
    have huniq : ∀ p ∈ mapped, ∀ q ∈ mapped, p.1 = q.1 → p = q := by
      intro p hp q hq e
      exact List.inj_on_of_nodup_map hnodup hp hq e
    have hfp : ∀ p ∈ mapped, ∃ hp : p.1 < n, (f ⟨p.1, hp⟩).val = p.2 := by
      intro p hp
      refine ⟨hI.inX p hp, ?_⟩
      have := huniq _ (hf ⟨p.1, hI.inX p hp⟩) p hp rfl
      exact congrArg Prod.snd this
    refine ⟨f, hf, hfp, ?_⟩
    apply le_antisymm
    · rw [dis_le_iff]
      intro a b
      have := hI.bound _ (hf a) _ (hf b)
      simpa [matFn, absDiff_eq_dist] using this
    · rcases hI.attained with hd | ⟨p, hp, q, hq, e⟩
      · omega
      · obtain ⟨hp1, hp2⟩ := hfp p hp
        obtain ⟨hq1, hq2⟩ := hfp q hq
        have := le_dis (matFn DX n) (matFn DY m) f ⟨p.1, hp1⟩ ⟨q.1, hq1⟩
        simp only [matFn, hp2, hq2] at this
        rw [← e, absDiff_eq_dist]; exact this

theorem constructMapping_ok (DX DY : Mat) {pi : List ℕ} (y0 : ℕ) (hpi : pi ≠ []) :
    ∃ r, constructMapping DX DY pi y0 = .ok r := by
  cases pi with
  | nil => exact absurd rfl hpi
  | cons x rest => exact ⟨_, rfl⟩

/-- the running minimum of the sampling loop never goes below the minimum distortion -/
theorem ubLoop_sound {DX DY : Mat} {n m : ℕ} [NeZero m] (hX : DistMat DX n) (hY : DistMat DY m)
    (goal : ℕ) (perms : List (List ℕ)) (y0s : List ℕ) (best : Option ℕ) (k : ℕ)
    (hperms : ∀ pi ∈ perms, pi.Perm (List.range n)) (hy0s : ∀ y ∈ y0s, y < m)
    (hbest : ∀ b, best = some b → minDis (matFn DX n) (matFn DY m) ≤ b)
    {r : ℕ × ℕ} (h : ubLoop DX DY goal perms y0s best k = .ok r) :
    minDis (matFn DX n) (matFn DY m) ≤ r.1 := by
  induction perms generalizing y0s best k with
  | nil =>
    cases best with
    | none => simp [ubLoop] at h
    | some b => simp only [ubLoop, Except.ok.injEq] at h; subst h; exact hbest b rfl
  | cons pi pis ih =>
    cases y0s with
    | nil => simp [ubLoop] at h
    | cons y0 y0s =>
      rcases hc : constructMapping DX DY pi y0 with e | ⟨mp, dist⟩
      · simp [ubLoop, hc] at h
      · obtain ⟨_, f, _, _, hdis⟩ := constructMapping_exact hX hY (hperms pi (by simp))
          (hy0s y0 (by simp)) hc
        have hd : minDis (matFn DX n) (matFn DY m) ≤ dist := hdis ▸ minDis_le _ _ f
        have hb : minDis (matFn DX n) (matFn DY m) ≤ minOpt dist best := by
          cases best with
          | none => exact hd
          | some b => exact le_min hd (hbest b rfl)
        simp only [ubLoop, hc] at h
        by_cases hg : minOpt dist best ≤ goal
        · rw [if_pos hg] at h
          simp only [Except.ok.injEq] at h; subst h; exact hb
        · rw [if_neg hg] at h
          exact ih y0s _ _ (fun p hp => hperms p (by simp [hp])) (fun y hy => hy0s y (by simp [hy]))
            (fun b hbe => by simp only [Option.some.injEq] at hbe; subst hbe; exact hb) h

theorem findUbOfMinDistortion_sound {DX DY : Mat} {n m : ℕ} [NeZero m] (hX : DistMat DX n)
    (hY : DistMat DY m) (perms : List (List ℕ)) (y0s : List ℕ) (goal : ℕ)
    (hperms : ∀ pi ∈ perms, pi.Perm (List.range n)) (hy0s : ∀ y ∈ y0s, y < m)
    {r : ℕ × ℕ} (h : findUbOfMinDistortion DX DY perms y0s goal = .ok r) :
    minDis (matFn DX n) (matFn DY m) ≤ r.1 :=
  ubLoop_sound hX hY goal perms y0s none 0 hperms hy0s (by simp) h

/-- the loop does not fail when there is at least one permutation and a first image for each -/
theorem ubLoop_ok (DX DY : Mat) (goal : ℕ) (perms : List (List ℕ)) (y0s : List ℕ) (best : Option ℕ)
    (k : ℕ) (hne : perms ≠ [] ∨ best ≠ none) (hpne : ∀ pi ∈ perms, pi ≠ [])
    (hlen : perms.length ≤ y0s.length) : ∃ r, ubLoop DX DY goal perms y0s best k = .ok r := by
  induction perms generalizing y0s best k with
  | nil =>
    cases best with
    | none => simp at hne
    | some b => exact ⟨_, rfl⟩
  | cons pi pis ih =>
    cases y0s with
    | nil => simp at hlen
    | cons y0 y0s =>
      obtain ⟨r, hr⟩ := constructMapping_ok DX DY y0 (hpne pi (by simp))
      simp only [ubLoop, hr]
      by_cases hg : minOpt r.2 best ≤ goal
      · rw [if_pos hg]; exact ⟨_, rfl⟩
      · rw [if_neg hg]
        exact ih y0s _ _ (Or.inr (by simp)) (fun p hp => hpne p (by simp [hp]))
          (by simpa using hlen)

end PersimVerif.MGH
