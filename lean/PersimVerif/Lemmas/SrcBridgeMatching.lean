import PersimVerif.Model.Bottleneck
import PersimVerif.Model.Wasserstein
import PersimVerif.Lemmas.SrcLibMatching

/-!
# Bridge between the translated source of `bottleneck` / `wasserstein` behind the augmented matrix and the models

`Generated/SrcBottleneckSearch.lean` and `Generated/SrcWassersteinAssign.lean` (written by harness/translator/py2lean_matching.py
from persim/bottleneck.py and persim/wasserstein.py on every run) hold "Step 2" of `bottleneck` (the bisection over the sorted
distinct entries with the Hopcroft–Karp oracle), its `if return_matching:` extraction loop, and `wasserstein`'s solver call, sum
and vectorised `if matching:` extraction, translated statement by statement.  This hand-written file has

* `Ref.*` — the REVIEWED Lean text of that translation: definitions of exactly the shape the translator emits for the reviewed
  source (same loops, same guards, same order of statements).  The generated files prove `generated = Ref.*`
  (`src_<def>_eq_ref`; every step `rfl`), so these definitions stand for the source as long as those obligations check;
* the proofs that `Ref.*` equal the models of Model/Bottleneck.lean (`thresholdGraph`, `bsearch`, `searchLoop`, `extractRows`)
  and Model/Wasserstein.lean (`lookup`/`optSum` of the selected entries, `rowsOf`, `wasserstein`), for EVERY oracle / solver and
  EVERY matrix:
  - `bisect_left(range(n), x)` (CPython's loop) is `min x n`, so `idx` is `len(ds) / 2` in both branches of `if len(ds) > 1`;
  - the dict `graph` filled in a `range` loop is `thresholdGraph`;
  - the fuel `len(ds) + 1` of the `while` loop is never exhausted (`ds` loses at least one entry per round), and the loop is the
    model's well-founded `bsearch`;
  - the source's extraction loop appends in front-to-back order, the model's `extractRows.go` conses from the back;
  - the column-wise NumPy statements on `ret` compose to the model's single `map`/`filter` over `zip(pairs, selected entries)`.
Mathlib-free.
-/
set_option linter.unusedVariables false
set_option linter.unusedSectionVars false

namespace PersimVerif.SrcBridge.Matching
open PersimVerif.SrcLib.Matching

/-! ## `Ref`: the reviewed Lean text of the translation -/
namespace Ref
open PersimVerif.Bottleneck PersimVerif.Wasserstein

section
variable {α : Type} [LE α] [DecidableLE α]

/-- `for i in range(D.shape[0])` -/
def graph_loop (M : Nat) (N : Nat) (D : Nat → Nat → Ext α) (d : Ext α) (range : List Nat) (graph : List (List Nat)) : Option (List (List Nat)) :=
  match range with
  | [] =>
    some graph
  | i :: rest =>
  match dictPut graph i ((List.range (M + N)).filter fun j => decide (D i j ≤ d)) with
  | none => none
  | some graph_1 =>
  graph_loop M N D d rest graph_1

/-- `while len(ds) >= 1` -/
def bisect_loop (oracle : Graph → Matching) (M : Nat) (N : Nat) (D : Nat → Nat → Ext α) (fuel : Nat) (ds : List (Ext α)) (bdist : Ext α) (matching : Matching) : Option (Ext α × Matching) :=
  if 1 ≤ ds.length then
    match fuel with
    | 0 => none
    | fuel + 1 =>
    let idx := 0
    let idx_2 :=
        if 1 < ds.length then
          let idx_1 := bisectLeftRange ds.length (ds.length / 2)
          idx_1
        else
          idx
    match ds[idx_2]? with
    | none => none
    | some v =>
    let d := v
    let graph := []
    match graph_loop M N D d (List.range (M + N)) graph with
    | none => none
    | some graph_1 =>
    let res := oracle graph_1
    if 2 * res.length = 2 * (M + N) ∧ d ≤ bdist then
      let bdist_1 := d
      let matching_1 := res
      let ds_1 := ds.take idx_2
      bisect_loop oracle M N D fuel ds_1 bdist_1 matching_1
    else
      let ds_2 := ds.drop (idx_2 + 1)
      bisect_loop oracle M N D fuel ds_2 bdist matching
  else
    some (bdist, matching)

/-- "Step 2" of `bottleneck`, from `ds = np.sort(np.unique(D.flatten()))` to the end of the `while` loop, for the oracle `oracle` and the `(M + N) × (M + N)` matrix with entries `D i j`: the values of `bdist`, `matching` at loop exit -/
def bisect (oracle : Graph → Matching) (M : Nat) (N : Nat) (D : Nat → Nat → Ext α) : Option (Ext α × Matching) :=
  let ds := sortUnique (entries (M + N) D)
  match ds.getLast? with
  | none => none
  | some v =>
  let bdist := v
  let matching := []
  match bisect_loop oracle M N D (ds.length + 1) ds bdist matching with
  | none => none
  | some (bdist_1, matching_1) =>
  some (bdist_1, matching_1)

/-- `for i in range(M + N)` -/
def rows_loop (M : Nat) (N : Nat) (D : Nat → Nat → Ext α) (matching : Matching) (range : List Nat) (matchidx : List (Int × Int × Ext α)) : Option (List (Int × Int × Ext α)) :=
  match range with
  | [] =>
    some matchidx
  | i :: rest =>
  match matching.lookup i with
  | none => none
  | some v =>
  let j := v
  let d := D i j
  if i < M then
    if N ≤ j then
      let j_1 := (-1 : Int)
      let matchidx_1 := matchidx ++ [((i : Int), j_1, d)]
      rows_loop M N D matching rest matchidx_1
    else
      let matchidx_2 := matchidx ++ [((i : Int), (j : Int), d)]
      rows_loop M N D matching rest matchidx_2
  else
    if N ≤ j then
      rows_loop M N D matching rest matchidx
    else
      let i_1 := (-1 : Int)
      let matchidx_3 := matchidx ++ [(i_1, (j : Int), d)]
      rows_loop M N D matching rest matchidx_3

/-- the body of `if return_matching:` in front of its `return`: the rows `[i, j, d]` collected in `matchidx` -/
def bn_rows (M : Nat) (N : Nat) (D : Nat → Nat → Ext α) (matching : Matching) : Option (List (Int × Int × Ext α)) :=
  let matchidx := []
  match rows_loop M N D matching (List.range (M + N)) matchidx with
  | none => none
  | some matchidx_1 =>
  some matchidx_1

end

section
variable {α : Type} [Add α] [Zero α]

/-- `matchi, matchj = optimize.linear_sum_assignment(D)`, `matchdist = np.sum(D[matchi, matchj])` for the solver `lsa` -/
def assign (lsa : Mat α → List (Nat × Nat)) (D : Mat α) : Option (List Nat × List Nat × Option α) :=
  let matchi := (lsa D).unzip.1
  let matchj := (lsa D).unzip.2
  match fancy D matchi matchj with
  | none => none
  | some v =>
  let matchdist := optSum v
  some (matchi, matchj, matchdist)

/-- the body of `if matching:` in front of its `return`: the array `ret`, row by row -/
def ws_rows (M : Nat) (N : Nat) (D : Mat α) (matchi : List Nat) (matchj : List Nat) : Option (List (Int × Int × Option α)) :=
  let matchidx := (matchi.zip matchj).map fun (i, j) => (i, j)
  let ret := List.replicate matchidx.length ((0 : Int), (0 : Int), (some 0 : Option α))
  match setCols01 ret matchidx with
  | none => none
  | some ret_1 =>
  match fancy D matchi matchj with
  | none => none
  | some v =>
  match setCol2 ret_1 v with
  | none => none
  | some ret_2 =>
  let ret_3 := ret_2.map fun r => if (M : Int) ≤ r.1 then ((-1 : Int), r.2.1, r.2.2) else r
  let ret_4 := ret_3.map fun r => if (N : Int) ≤ r.2.1 then (r.1, (-1 : Int), r.2.2) else r
  let ret_5 := ret_4.filter fun r => r.1 + r.2.1 != (-2 : Int)
  some ret_5

end
section
variable {α : Type} [Zero α]

/-- the preamble of `bottleneck` on two arrays with `c1`, `c2` columns whose rows are `(birth, death)` with a death that may be non-finite (`none`): the flag, the filtered / substituted diagrams `S`, `T`, their sizes `M`, `N`, and whether the first / second `warnings.warn` was reached -/
def bn_preamble (matching : Bool) (c1 : Nat) (c2 : Nat) (dgm1 : List (α × Option α)) (dgm2 : List (α × Option α)) : Option (Bool × (List (α × Option α)) × Nat × (List (α × Option α)) × Nat × Bool × Bool) :=
  let warn1 := false
  let warn2 := false
  let return_matching := matching
  let S := dgm1
  let M := min S.length (c1 * S.length)
  let (warn1_2, S_2, M_2) :=
      if 0 < c1 * S.length then
        let S_1 := S.filter fun p => p.2.isSome
        if S_1.length < M then
          let warn1_1 := true
          let M_1 := S_1.length
          (warn1_1, S_1, M_1)
        else
          (warn1, S_1, M)
      else
        (warn1, S, M)
  let T := dgm2
  let N := min T.length (c2 * T.length)
  let (warn2_2, T_2, N_2) :=
      if 0 < c2 * T.length then
        let T_1 := T.filter fun p => p.2.isSome
        if T_1.length < N then
          let warn2_1 := true
          let N_1 := T_1.length
          (warn2_1, T_1, N_1)
        else
          (warn2, T_1, N)
      else
        (warn2, T, N)
  let (S_4, M_4) :=
      if M_2 = 0 then
        let S_3 := [(0, some 0)]
        let M_3 := 1
        (S_3, M_3)
      else
        (S_2, M_2)
  if N_2 = 0 then
    let T_3 := [(0, some 0)]
    let N_3 := 1
    some (return_matching, S_4, M_4, T_3, N_3, warn1_2, warn2_2)
  else
    some (return_matching, S_4, M_4, T_2, N_2, warn1_2, warn2_2)
/-- the preamble of `wasserstein` on two arrays with `c1`, `c2` columns whose rows are `(birth, death)` with a death that may be non-finite (`none`): the filtered / substituted diagrams `S`, `T`, their sizes `M`, `N`, and whether the first / second `warnings.warn` was reached -/
def ws_preamble (c1 : Nat) (c2 : Nat) (dgm1 : List (α × Option α)) (dgm2 : List (α × Option α)) : Option ((List (α × Option α)) × Nat × (List (α × Option α)) × Nat × Bool × Bool) :=
  let warn1 := false
  let warn2 := false
  let S := dgm1
  let M := min S.length (c1 * S.length)
  let (warn1_2, S_2, M_2) :=
      if 0 < c1 * S.length then
        let S_1 := S.filter fun p => p.2.isSome
        if S_1.length < M then
          let warn1_1 := true
          let M_1 := S_1.length
          (warn1_1, S_1, M_1)
        else
          (warn1, S_1, M)
      else
        (warn1, S, M)
  let T := dgm2
  let N := min T.length (c2 * T.length)
  let (warn2_2, T_2, N_2) :=
      if 0 < c2 * T.length then
        let T_1 := T.filter fun p => p.2.isSome
        if T_1.length < N then
          let warn2_1 := true
          let N_1 := T_1.length
          (warn2_1, T_1, N_1)
        else
          (warn2, T_1, N)
      else
        (warn2, T, N)
  let (S_4, M_4) :=
      if M_2 = 0 then
        let S_3 := [(0, some 0)]
        let M_3 := 1
        (S_3, M_3)
      else
        (S_2, M_2)
  if N_2 = 0 then
    let T_3 := [(0, some 0)]
    let N_3 := 1
    some (S_4, M_4, T_3, N_3, warn1_2, warn2_2)
  else
    some (S_4, M_4, T_2, N_2, warn1_2, warn2_2)

end

end Ref

/-! ## the preamble of both functions -/
section Preamble
variable {α : Type}

/-- a diagram of finite points as the array it is in the source (every death present) -/
def lift (s : List (α × α)) : List (α × Option α) := s.map fun p => (p.1, some p.2)

/-- the model's finite part (`filterMap`), seen as an array, is the source's `S[np.isfinite(S[:, 1]), :]` -/
theorem lift_filterFinite (d : List (α × Option α)) :
    lift (PersimVerif.Bottleneck.filterFinite d).1 = d.filter fun p => p.2.isSome := by
  induction d with
  | nil => rfl
  | cons p d ih =>
    obtain ⟨b, e⟩ := p
    simp only [PersimVerif.Bottleneck.filterFinite, lift] at ih ⊢
    cases e with
    | none => simpa using ih
    | some e => simp [ih]

theorem lift_finitePart (d : List (α × Option α)) :
    lift (PersimVerif.Wasserstein.finitePart d) = d.filter fun p => p.2.isSome := by
  induction d with
  | nil => rfl
  | cons p d ih =>
    obtain ⟨b, e⟩ := p
    simp only [PersimVerif.Wasserstein.finitePart, lift] at ih ⊢
    cases e with
    | none => simpa using ih
    | some e => simp [ih]

theorem length_lift (s : List (α × α)) : (lift s).length = s.length := by simp [lift]

/-- an array all of whose deaths are finite, as the point list the matrix region reads (rows with a non-finite death dropped) -/
def unlift (s : List (α × Option α)) : List (α × α) := s.filterMap fun p => p.2.map fun e => (p.1, e)

theorem unlift_lift (s : List (α × α)) : unlift (lift s) = s := by
  induction s with
  | nil => rfl
  | cons p s ih => simp only [lift, unlift] at ih ⊢; simp [ih]

/-- `M = min(S.shape[0], S.size)`, the filter under `if S.size > 0:`, the warning and the new `M` under `if S.shape[0] < M:`, for
    an array with `c ≥ 1` columns: the filtered array, its length, and the flag "fewer rows than before" -/
theorem side_eq (c : Nat) (hc : 0 < c) (d : List (α × Option α)) :
    (if 0 < c * d.length then
        if (d.filter fun p => p.2.isSome).length < min d.length (c * d.length) then
          (true, d.filter fun p => p.2.isSome, (d.filter fun p => p.2.isSome).length)
        else (false, d.filter fun p => p.2.isSome, min d.length (c * d.length))
      else (false, d, min d.length (c * d.length)))
    = (decide ((d.filter fun p => p.2.isSome).length < d.length), d.filter fun p => p.2.isSome,
        (d.filter fun p => p.2.isSome).length) := by
  have hmin : min d.length (c * d.length) = d.length := by
    apply Nat.min_eq_left
    calc d.length = 1 * d.length := (Nat.one_mul _).symm
      _ ≤ c * d.length := Nat.mul_le_mul_right _ hc
  have hle : (d.filter fun p => p.2.isSome).length ≤ d.length := List.length_filter_le _ _
  rw [hmin]
  by_cases h0 : 0 < c * d.length
  · rw [if_pos h0]
    by_cases h1 : (d.filter fun p => p.2.isSome).length < d.length
    · rw [if_pos h1]; simp [h1]
    · rw [if_neg h1]; simp [h1]; omega
  · rw [if_neg h0]
    have : d = [] := by
      cases d with
      | nil => rfl
      | cons p d => exact absurd (Nat.mul_pos hc (by simp)) h0
    subst this; simp

/-- the model's two outputs of the finite-death filter, in terms of the source's filtered array -/
theorem filterFinite_eq (d : List (α × Option α)) :
    (d.filter fun p => p.2.isSome) = lift (PersimVerif.Bottleneck.filterFinite d).1 ∧
    decide ((d.filter fun p => p.2.isSome).length < d.length) = (PersimVerif.Bottleneck.filterFinite d).2 := by
  refine ⟨(lift_filterFinite d).symm, ?_⟩
  rw [← lift_filterFinite, length_lift]
  rfl

theorem finitePart_eq (d : List (α × Option α)) :
    (d.filter fun p => p.2.isSome) = lift (PersimVerif.Wasserstein.finitePart d) ∧
    decide ((d.filter fun p => p.2.isSome).length < d.length) = PersimVerif.Wasserstein.warned d := by
  refine ⟨(lift_finitePart d).symm, ?_⟩
  rw [← lift_finitePart, length_lift]
  rfl

section
variable [Zero α]

/-- `if M == 0: S = np.array([[0, 0]]); M = 1` is the model's `withPlaceholder` -/
theorem placeholder_bn (s : List (α × α)) :
    (if (lift s).length = 0 then ([((0 : α), some (0 : α))], 1) else (lift s, (lift s).length)) =
      (lift (PersimVerif.Bottleneck.withPlaceholder s), (PersimVerif.Bottleneck.withPlaceholder s).length) := by
  cases s <;> simp [lift, PersimVerif.Bottleneck.withPlaceholder]

/-- … and `orPlaceholder` of the Wasserstein model -/
theorem placeholder_ws (s : List (α × α)) :
    (if (lift s).length = 0 then ([((0 : α), some (0 : α))], 1) else (lift s, (lift s).length)) =
      (lift (PersimVerif.Wasserstein.orPlaceholder s), (PersimVerif.Wasserstein.orPlaceholder s).length) := by
  cases s <;> simp [lift, PersimVerif.Wasserstein.orPlaceholder]

/-- **the preamble of `bottleneck`** on arrays with `c1, c2 ≥ 1` columns is the model's `filterFinite` / `withPlaceholder`: the
    arrays `S`, `T` are the model's point lists (every death finite), `M`, `N` their lengths, and a warning is issued exactly
    when the model's flag says so; it never raises -/
theorem bn_preamble_eq (matching : Bool) (c1 c2 : Nat) (h1 : 0 < c1) (h2 : 0 < c2) (dgm1 dgm2 : List (α × Option α)) :
    Ref.bn_preamble matching c1 c2 dgm1 dgm2 =
      some (matching,
        lift (PersimVerif.Bottleneck.withPlaceholder (PersimVerif.Bottleneck.filterFinite dgm1).1),
        (PersimVerif.Bottleneck.withPlaceholder (PersimVerif.Bottleneck.filterFinite dgm1).1).length,
        lift (PersimVerif.Bottleneck.withPlaceholder (PersimVerif.Bottleneck.filterFinite dgm2).1),
        (PersimVerif.Bottleneck.withPlaceholder (PersimVerif.Bottleneck.filterFinite dgm2).1).length,
        (PersimVerif.Bottleneck.filterFinite dgm1).2, (PersimVerif.Bottleneck.filterFinite dgm2).2) := by
  unfold Ref.bn_preamble
  simp only [side_eq c1 h1, side_eq c2 h2]
  rw [← (filterFinite_eq dgm1).2, ← (filterFinite_eq dgm2).2, (filterFinite_eq dgm1).1, (filterFinite_eq dgm2).1]
  have p1 := placeholder_bn (PersimVerif.Bottleneck.filterFinite dgm1).1
  have p2 := placeholder_bn (PersimVerif.Bottleneck.filterFinite dgm2).1
  by_cases h : (lift (PersimVerif.Bottleneck.filterFinite dgm2).1).length = 0
  · rw [if_pos h] at p2 ⊢; simp only [Prod.mk.injEq] at p2; simp only [p1, ← p2.1, ← p2.2]
  · rw [if_neg h] at p2 ⊢; simp only [Prod.mk.injEq] at p2; simp only [p1, ← p2.1, ← p2.2]

/-- **the preamble of `wasserstein`**: the same statements, against the Wasserstein model's `finitePart` / `warned` /
    `orPlaceholder` (`prepared`) -/
theorem ws_preamble_eq (c1 c2 : Nat) (h1 : 0 < c1) (h2 : 0 < c2) (dgm1 dgm2 : List (α × Option α)) :
    Ref.ws_preamble c1 c2 dgm1 dgm2 =
      some (lift (PersimVerif.Wasserstein.prepared dgm1), (PersimVerif.Wasserstein.prepared dgm1).length,
        lift (PersimVerif.Wasserstein.prepared dgm2), (PersimVerif.Wasserstein.prepared dgm2).length,
        PersimVerif.Wasserstein.warned dgm1, PersimVerif.Wasserstein.warned dgm2) := by
  unfold Ref.ws_preamble PersimVerif.Wasserstein.prepared
  simp only [side_eq c1 h1, side_eq c2 h2]
  rw [← (finitePart_eq dgm1).2, ← (finitePart_eq dgm2).2, (finitePart_eq dgm1).1, (finitePart_eq dgm2).1]
  have p1 := placeholder_ws (PersimVerif.Wasserstein.finitePart dgm1)
  have p2 := placeholder_ws (PersimVerif.Wasserstein.finitePart dgm2)
  by_cases h : (lift (PersimVerif.Wasserstein.finitePart dgm2)).length = 0
  · rw [if_pos h] at p2 ⊢; simp only [Prod.mk.injEq] at p2; simp only [p1, ← p2.1, ← p2.2]
  · rw [if_neg h] at p2 ⊢; simp only [Prod.mk.injEq] at p2; simp only [p1, ← p2.1, ← p2.2]

end
end Preamble

/-! ## `bottleneck`: Step 2 -/
section Bottleneck
open PersimVerif.Bottleneck
variable {α : Type} [LE α] [DecidableLE α]

/-- CPython's bisection on `range(hi)`, started with everything below `lo` known to be `< x` -/
theorem bisectLeftRange_go (x : Nat) : ∀ (lo hi : Nat), lo ≤ x → lo ≤ hi → bisectLeftRange.go x lo hi = min x hi := by
  intro lo hi
  fun_induction bisectLeftRange.go x lo hi with
  | case1 lo hi h mid hm ih => intro h1 h2; rw [ih (by omega) (by omega)]
  | case2 lo hi h mid hm ih => intro h1 h2; rw [ih (by omega) (by omega)]; omega
  | case3 lo hi h => intro h1 h2; omega

/-- `bisect_left(range(n), x)` is `min x n` -/
theorem bisectLeftRange_eq (n x : Nat) : bisectLeftRange n x = min x n :=
  bisectLeftRange_go x 0 n (Nat.zero_le _) (Nat.zero_le _)

/-- `idx = 0; if len(ds) > 1: idx = bisect_left(range(ds.size), int(ds.size / 2))` is `len(ds) / 2` -/
theorem idx_eq (n : Nat) : (if 1 < n then bisectLeftRange n (n / 2) else 0) = n / 2 := by
  rw [bisectLeftRange_eq]; split <;> omega

/-- the dict `graph` after the `range` loop, started on the keys `'0' … str(k-1)` -/
theorem graph_loop_range' (M N : Nat) (D : Nat → Nat → Ext α) (d : Ext α) :
    ∀ (m k : Nat) (g : List (List Nat)), g.length = k →
      Ref.graph_loop M N D d (List.range' k m) g =
        some (g ++ (List.range' k m).map fun i => (List.range (M + N)).filter fun j => decide (D i j ≤ d)) := by
  intro m
  induction m with
  | zero => intro k g _; simp [List.range', Ref.graph_loop]
  | succ m ih =>
    intro k g hk
    rw [List.range'_succ]
    unfold Ref.graph_loop
    simp only [dictPut, hk, if_true]
    rw [ih (k + 1) _ (by simp [hk])]
    simp

/-- `graph = {}; for i in range(D.shape[0]): graph['{}'.format(i)] = {j for j in range(D.shape[1]) if D[i, j] <= d}` is
    the model's `thresholdGraph` -/
theorem graph_loop_eq (M N : Nat) (D : Nat → Nat → Ext α) (d : Ext α) :
    Ref.graph_loop M N D d (List.range (M + N)) [] = some (thresholdGraph (M + N) D d) := by
  rw [List.range_eq_range', graph_loop_range' M N D d (M + N) 0 [] rfl]
  simp [thresholdGraph, List.range_eq_range']

/-- the `while len(ds) >= 1` loop is the model's `bsearch`; its fuel is never exhausted -/
theorem bisect_loop_eq (oracle : Graph → Matching) (M N : Nat) (D : Nat → Nat → Ext α) :
    ∀ (fuel : Nat) (ds : List (Ext α)) (b : Ext α) (mt : Matching), ds.length ≤ fuel →
      Ref.bisect_loop oracle M N D fuel ds b mt =
        some (bsearch (fun d => oracle (thresholdGraph (M + N) D d)) (perfectB (M + N)) ds (b, mt)) := by
  intro fuel
  induction fuel with
  | zero =>
    intro ds b mt h
    have : ds = [] := List.eq_nil_of_length_eq_zero (by omega)
    subst this
    unfold Ref.bisect_loop
    simp [bsearch]
  | succ fuel ih =>
    intro ds b mt h
    cases ds with
    | nil => unfold Ref.bisect_loop; simp [bsearch]
    | cons d0 ds' =>
      unfold Ref.bisect_loop
      rw [bsearch]
      have h1 : 1 ≤ (d0 :: ds').length := by simp
      have hidx : (d0 :: ds').length / 2 < (d0 :: ds').length := Nat.div_lt_self (by simp) (by decide)
      simp only [h1, if_true, idx_eq, List.getElem?_eq_getElem hidx, graph_loop_eq]
      have hp : ∀ res : Matching, (2 * res.length = 2 * (M + N)) ↔ (perfectB (M + N) res = true) := by
        intro res; simp [perfectB]
      simp only [hp]
      split
      · rw [ih _ _ _ (by simp only [List.length_take, List.length_cons] at *; omega)]
      · rw [ih _ _ _ (by simp only [List.length_drop, List.length_cons] at *; omega)]

/-- **Step 2** of `bottleneck` is the model's `searchLoop`, for every oracle and every matrix -/
theorem bisect_eq_model (oracle : Graph → Matching) (M N : Nat) (D : Nat → Nat → Ext α) :
    Ref.bisect oracle M N D = searchLoop oracle (M + N) D := by
  unfold Ref.bisect searchLoop candidates
  cases h : (sortUnique (entries (M + N) D)).getLast? with
  | none => simp only [h]
  | some b => simp only [h, bisect_loop_eq oracle M N D _ _ b [] (Nat.le_succ _)]

/-! ## `bottleneck`: the extraction loop -/

/-- the `for i in range(M + N)` loop appends front to back what the model's `extractRows.go` conses from the back; a key missing
    from `matching` (KeyError) is `none` on both sides -/
theorem rows_loop_eq (M N : Nat) (D : Nat → Nat → Ext α) (mt : Matching) :
    ∀ (l : List Nat) (acc : List (Int × Int × Ext α)),
      Ref.rows_loop M N D mt l acc = (extractRows.go M N D mt l).map (acc ++ ·) := by
  intro l
  induction l with
  | nil => intro acc; simp [Ref.rows_loop, extractRows.go]
  | cons i rest ih =>
    intro acc
    unfold Ref.rows_loop extractRows.go
    cases hl : mt.lookup i with
    | none => simp
    | some j =>
      simp only [ih]
      cases hg : extractRows.go M N D mt rest with
      | none => simp
      | some rows =>
        simp only [Option.map_some, ge_iff_le]
        split <;> split <;> simp

/-- the body of `if return_matching:` is the model's `extractRows` -/
theorem bn_rows_eq_model (M N : Nat) (D : Nat → Nat → Ext α) (mt : Matching) :
    Ref.bn_rows M N D mt = extractRows M N D mt := by
  unfold Ref.bn_rows extractRows
  simp only [rows_loop_eq]
  cases extractRows.go M N D mt (List.range (M + N)) <;> simp

end Bottleneck

/-! ## `bottleneck`: the model's entry points in terms of the translated statements -/
section BottleneckWhole
open PersimVerif.Bottleneck
variable {α : Type} [Sub α] [Div α] [Neg α] [Zero α] [OfNat α 2] [Max α] [LE α] [DecidableLE α]

/-- the model's `bottleneckCore` is: placeholders, the model's matrix, then the translated Step 2 -/
theorem bottleneckCore_eq (oracle : Graph → Matching) (S T : List (α × α)) :
    bottleneckCore oracle S T =
      Ref.bisect oracle (withPlaceholder S).length (withPlaceholder T).length (augD (withPlaceholder S) (withPlaceholder T)) := by
  rw [bisect_eq_model]; rfl

/-- the model `bottleneckWithMatching` is: the finite-death filter, placeholders, the model's matrix, then the translated Step 2
    and the translated extraction loop (`none` for `none`) -/
theorem bottleneckWithMatching_eq (oracle : Graph → Matching) (dgm1 dgm2 : List (α × Option α)) :
    bottleneckWithMatching oracle dgm1 dgm2 =
      (Ref.bisect oracle (withPlaceholder (filterFinite dgm1).1).length (withPlaceholder (filterFinite dgm2).1).length
          (augD (withPlaceholder (filterFinite dgm1).1) (withPlaceholder (filterFinite dgm2).1))).bind fun r =>
        (Ref.bn_rows (withPlaceholder (filterFinite dgm1).1).length (withPlaceholder (filterFinite dgm2).1).length
          (augD (withPlaceholder (filterFinite dgm1).1) (withPlaceholder (filterFinite dgm2).1)) r.2).map fun rows =>
            (({ value := r.1, matching := r.2, warn1 := (filterFinite dgm1).2, warn2 := (filterFinite dgm2).2 } : Result α), rows) := by
  rw [← bottleneckCore_eq]
  unfold bottleneckWithMatching bottleneck
  simp only [bn_rows_eq_model]
  cases h : bottleneckCore oracle (filterFinite dgm1).1 (filterFinite dgm2).1 with
  | none => simp
  | some r =>
    obtain ⟨b, mt⟩ := r
    simp only [Option.bind_some]
    cases extractRows (withPlaceholder (filterFinite dgm1).1).length (withPlaceholder (filterFinite dgm2).1).length
      (augD (withPlaceholder (filterFinite dgm1).1) (withPlaceholder (filterFinite dgm2).1)) mt <;> rfl

/-- **the whole routine, `matching=True`, as the chain of its translated parts**: preamble (translated), matrix (the model's
    `augD` = the translated `aug_entry`), Step 2 (translated), extraction loop (translated) -/
theorem bottleneck_chain_eq (oracle : Graph → Matching) (c1 c2 : Nat) (h1 : 0 < c1) (h2 : 0 < c2)
    (dgm1 dgm2 : List (α × Option α)) :
    bottleneckWithMatching oracle dgm1 dgm2 =
      (Ref.bn_preamble true c1 c2 dgm1 dgm2).bind fun p =>
        (Ref.bisect oracle p.2.2.1 p.2.2.2.2.1 (augD (unlift p.2.1) (unlift p.2.2.2.1))).bind fun r =>
          (Ref.bn_rows p.2.2.1 p.2.2.2.2.1 (augD (unlift p.2.1) (unlift p.2.2.2.1)) r.2).map fun rows =>
            (({ value := r.1, matching := r.2, warn1 := p.2.2.2.2.2.1, warn2 := p.2.2.2.2.2.2 } : Result α), rows) := by
  rw [bn_preamble_eq true c1 c2 h1 h2, bottleneckWithMatching_eq]
  simp only [Option.bind_some, unlift_lift]

end BottleneckWhole

/-! ## `wasserstein`: the solver call, the sum, the vectorised extraction -/
section Wasserstein
open PersimVerif.Wasserstein
variable {α : Type}

theorem mapM_length {β γ : Type} (f : β → Option γ) :
    ∀ (l : List β) (r : List γ), l.mapM f = some r → r.length = l.length := by
  intro l
  induction l with
  | nil => intro r h; simp at h; subst h; rfl
  | cons a l ih =>
    intro r h
    rw [List.mapM_cons] at h
    cases ha : f a with
    | none => simp [ha] at h
    | some b =>
      cases hl : l.mapM f with
      | none => simp [ha, hl] at h
      | some bs =>
        simp [ha, hl] at h
        subst h
        simp [ih bs hl]

/-- `D[matchi, matchj]` for `matchi, matchj = zip(*pairs)` is the model's `pairs.mapM (lookup D)` -/
theorem fancy_unzip (D : Mat α) (pairs : List (Nat × Nat)) :
    fancy D pairs.unzip.1 pairs.unzip.2 = pairs.mapM fun p => lookup D p.1 p.2 := by
  unfold fancy
  rw [List.zip_unzip]
  simp

/-- `[(i, j) for i, j in zip(matchi, matchj)]` is `pairs` again -/
theorem matchidx_eq (pairs : List (Nat × Nat)) :
    ((pairs.unzip.1.zip pairs.unzip.2).map fun (i, j) => (i, j)) = pairs := by
  rw [List.zip_unzip]; simp

/-- the two column assignments on the fresh `(k, 3)` zero array give the rows `(i, j, D[i, j])` -/
theorem cols_eq (z : Int × Int × Option α) :
    ∀ (pairs : List (Nat × Nat)) (sel : List (Option α)), sel.length = pairs.length →
      List.zipWith (fun r x => (r.1, r.2.1, x))
          (List.zipWith (fun r p => (((p : Nat × Nat).1 : Int), (p.2 : Int), (r : Int × Int × Option α).2.2))
            (List.replicate pairs.length z) pairs) sel
        = (pairs.zip sel).map fun pd => ((pd.1.1 : Int), (pd.1.2 : Int), pd.2) := by
  intro pairs
  induction pairs with
  | nil => intro sel h; simp
  | cons p pairs ih =>
    intro sel h
    cases sel with
    | nil => simp at h
    | cons x sel =>
      simp only [List.length_cons, List.replicate_succ, List.zipWith_cons_cons, List.zip_cons_cons, List.map_cons]
      rw [ih sel (by simpa using h)]

/-- the two masked assignments `ret[ret[:, 0] >= M, 0] = -1`, `ret[ret[:, 1] >= N, 1] = -1`, row by row -/
theorem rewrite_eq (M N : Nat) (p : Nat × Nat) (d : Option α) :
    (fun r : Int × Int × Option α => if (N : Int) ≤ r.2.1 then (r.1, (-1 : Int), r.2.2) else r)
        ((fun r : Int × Int × Option α => if (M : Int) ≤ r.1 then ((-1 : Int), r.2.1, r.2.2) else r)
          ((p.1 : Int), (p.2 : Int), d))
      = ((if p.1 ≥ M then (-1 : Int) else (p.1 : Int)), (if p.2 ≥ N then (-1 : Int) else (p.2 : Int)), d) := by
  simp only [ge_iff_le, Int.ofNat_le]
  split <;> split <;> simp_all

section
variable [Add α] [Zero α]

/-- `matchi, matchj = optimize.linear_sum_assignment(D)`, `matchdist = np.sum(D[matchi, matchj])` -/
theorem assign_eq (lsa : Mat α → List (Nat × Nat)) (D : Mat α) :
    Ref.assign lsa D =
      ((lsa D).mapM fun p => lookup D p.1 p.2).map fun sel => ((lsa D).unzip.1, (lsa D).unzip.2, optSum sel) := by
  unfold Ref.assign
  simp only [fancy_unzip]
  cases (lsa D).mapM fun p => lookup D p.1 p.2 <;> rfl

/-- `matchdist` is the model's value: `optSum` of the selected entries (`none`: an index pair outside the matrix) -/
theorem assign_value_eq (lsa : Mat α → List (Nat × Nat)) (D : Mat α) :
    (Ref.assign lsa D).map (fun r => r.2.2) = ((lsa D).mapM fun p => lookup D p.1 p.2).map optSum := by
  rw [assign_eq]
  cases (lsa D).mapM fun p => lookup D p.1 p.2 <;> rfl

/-- the body of `if matching:` on `matchi, matchj = zip(*pairs)` is the model's `rowsOf` on the selected entries (`none` on both
    sides when an index pair lies outside the matrix) -/
theorem ws_rows_eq (M N : Nat) (D : Mat α) (pairs : List (Nat × Nat)) :
    Ref.ws_rows M N D pairs.unzip.1 pairs.unzip.2 =
      (pairs.mapM fun p => lookup D p.1 p.2).map fun sel => rowsOf M N pairs sel := by
  unfold Ref.ws_rows
  simp only [matchidx_eq, fancy_unzip, setCols01, List.length_replicate, if_true]
  cases h : pairs.mapM fun p => lookup D p.1 p.2 with
  | none => rfl
  | some sel =>
    have hl := mapM_length _ _ _ h
    simp only [setCol2, List.length_zipWith, List.length_replicate, Nat.min_self, hl, if_true, Option.map_some,
      cols_eq _ pairs sel hl, List.map_map, rowsOf]
    congr 2
    apply List.map_congr_left
    intro pd _
    exact rewrite_eq M N pd.1 pd.2

/-- the value and the rows together -/
theorem assign_rows_eq (lsa : Mat α → List (Nat × Nat)) (M N : Nat) (D : Mat α) :
    (Ref.assign lsa D).bind (fun r => (Ref.ws_rows M N D r.1 r.2.1).map fun rows => (r.2.2, rows)) =
      ((lsa D).mapM fun p => lookup D p.1 p.2).map fun sel => (optSum sel, rowsOf M N (lsa D) sel) := by
  rw [assign_eq]
  cases h : (lsa D).mapM fun p => lookup D p.1 p.2 with
  | none => rfl
  | some sel => simp only [Option.map_some, Option.bind_some, ws_rows_eq, h]

end

section
variable [Add α] [Sub α] [Mul α] [Div α] [Zero α] [OfNat α 2]

/-- the model `wasserstein` is: the model's matrix, then the translated statements behind it (`IndexError` for `none`) -/
theorem wasserstein_eq (sqrt : α → α) (lsa : Mat α → List (Nat × Nat)) (d1 d2 : Dgm α) :
    wasserstein sqrt lsa d1 d2 =
      match (Ref.assign lsa (matrixOf sqrt d1 d2)).bind (fun r =>
          (Ref.ws_rows (prepared d1).length (prepared d2).length (matrixOf sqrt d1 d2) r.1 r.2.1).map
            fun rows => (r.2.2, rows)) with
      | none => .error .index
      | some (v, rows) => .ok { value := v, warn1 := warned d1, warn2 := warned d2, rows := rows } := by
  rw [assign_rows_eq]
  unfold wasserstein matrixOf
  simp only []
  cases (lsa (augMatrix sqrt (prepared d1) (prepared d2))).mapM
    fun p => lookup (augMatrix sqrt (prepared d1) (prepared d2)) p.1 p.2 <;> rfl

/-- **the whole routine as the chain of its translated parts**: preamble (translated), matrix (the model's `augMatrix`, whose
    entries are the translated `aug_entry`), solver call and sum (translated), extraction (translated) -/
theorem wasserstein_chain_eq (sqrt : α → α) (lsa : Mat α → List (Nat × Nat)) (c1 c2 : Nat) (h1 : 0 < c1) (h2 : 0 < c2)
    (d1 d2 : Dgm α) :
    wasserstein sqrt lsa d1 d2 =
      match (Ref.ws_preamble c1 c2 d1 d2).bind (fun p =>
          (Ref.assign lsa (augMatrix sqrt (unlift p.1) (unlift p.2.2.1))).bind fun r =>
            (Ref.ws_rows p.2.1 p.2.2.2.1 (augMatrix sqrt (unlift p.1) (unlift p.2.2.1)) r.1 r.2.1).map
              fun rows => (r.2.2, rows, p.2.2.2.2.1, p.2.2.2.2.2)) with
      | none => .error .index
      | some (v, rows, w1, w2) => .ok { value := v, warn1 := w1, warn2 := w2, rows := rows } := by
  rw [ws_preamble_eq c1 c2 h1 h2, wasserstein_eq]
  simp only [Option.bind_some, unlift_lift, matrixOf]
  cases (Ref.assign lsa (augMatrix sqrt (prepared d1) (prepared d2))) with
  | none => rfl
  | some r =>
    simp only [Option.bind_some]
    cases Ref.ws_rows (prepared d1).length (prepared d2).length (augMatrix sqrt (prepared d1) (prepared d2)) r.1 r.2.1 <;> rfl

end
end Wasserstein

end PersimVerif.SrcBridge.Matching
