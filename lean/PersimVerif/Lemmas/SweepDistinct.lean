import PersimVerif.Lemmas.LandscapeSweepTotal

/-!
# Helper lemmas for C03, part 8: inputs on which the repeated-bar shortcut cannot fire

The shortcut of `compute_landscape` fires when the bar at the front of the work list equals the bar just
popped.  Two conditions on the *input* exclude that for the whole run:

* pairwise distinct **births**: the births of the work list never gain a value — the sort permutes, pops
  remove, and Case III re-inserts `(b', d)` with the birth `b'` of the bar it has just popped;
* pairwise distinct **deaths**: the deaths of `current :: work list` never gain a value — Case III swaps
  the deaths (`(b', d')` leaves the list and becomes current, `(b', d)` enters it with the old current death).

So `Nodup` of the births (of the work list), resp. of the deaths (of current bar and work list), is an
invariant of `inner` and `outer`, and under it `dupLoop` counts nothing.
-/
set_option linter.unusedSectionVars false

namespace PersimVerif.LandscapeLemmas
open PersimVerif.PL PersimVerif.Landscape

variable {K : Type} [Field K] [LinearOrder K] [IsStrictOrderedRing K]

/-- the `duplicate` loop counts nothing and leaves the list alone when the first bar of the list (if
    there is one) is not the bar looked for -/
theorem dupLoop_of_head_ne (bd : K × K) : ∀ (A : List (K × K)), (∀ x ∈ A.head?, x ≠ bd) →
    dupLoop bd A.length 0 A 0 = (A, 0)
  | [], _ => by simp [dupLoop]
  | x :: t, h => by
    have hx : x ≠ bd := h x (by simp)
    have hne : (x.1 == bd.1 && x.2 == bd.2) = false := by
      rw [Bool.and_eq_false_iff]
      by_cases h1 : x.1 = bd.1
      · right
        have h2 : x.2 ≠ bd.2 := fun h2 => hx (Prod.ext h1 h2)
        simpa using h2
      · left; simpa using h1
    rw [List.length_cons, dupLoop]
    simp only [List.getElem?_cons_zero, hne, Bool.false_eq_true, if_false]

/-! ### distinct births -/

/-- one pass of the inner loop keeps the births of the work list pairwise distinct -/
theorem inner_births_nodup : ∀ (fuel : Nat) (b d : K) (A cur cur' A2 : List (K × K)),
    (A.map Prod.fst).Nodup → inner fuel b d A cur = some (cur', A2) → (A2.map Prod.fst).Nodup
  | 0, _, _, _, _, _, _, _, h => by simp [inner] at h
  | fuel + 1, b, d, A, cur, cur', A2, hA, h => by
    rw [inner_succ] at h
    by_cases hall : (A.all fun x => decide (x.2 ≤ d)) = true
    · rw [if_pos hall] at h
      simp only [Option.some.injEq, Prod.mk.injEq] at h
      obtain ⟨_, rfl⟩ := h
      exact hA
    · rw [if_neg hall] at h
      cases hpf : popFirst (fun x => decide (d < x.2)) A with
      | none => rw [hpf] at h; simp at h
      | some r =>
        obtain ⟨⟨b', d'⟩, A1⟩ := r
        rw [hpf] at h
        simp only at h
        obtain ⟨pre, post, e, e1, _, _⟩ := popFirst_spec _ A (b', d') A1 hpf
        have hperm : A.Perm ((b', d') :: A1) := by rw [e, e1]; exact List.perm_middle
        have hn : (b' :: A1.map Prod.fst).Nodup := (hperm.map Prod.fst).nodup_iff.mp hA
        have hA1 : (A1.map Prod.fst).Nodup := (List.nodup_cons.mp hn).2
        by_cases h1 : d < b'
        · rw [if_pos h1] at h
          exact inner_births_nodup fuel _ _ _ _ _ _ hA1 h
        · rw [if_neg h1] at h
          by_cases h2 : d ≤ b'
          · rw [if_pos h2] at h
            exact inner_births_nodup fuel _ _ _ _ _ _ hA1 h
          · rw [if_neg h2] at h
            refine inner_births_nodup fuel _ _ _ _ _ _ ?_ h
            have hp2 := (pyInsert_perm (insertPos b' d A1) (b', d) A1).map Prod.fst
            exact hp2.nodup_iff.mpr hn

/-- with pairwise distinct births in the work list the shortcut never fires -/
theorem outer_fired_of_births_nodup : ∀ (fuel : Nat) (A : List (K × K)) (L : List (List (K × K))) (f : Nat)
    (o : Out K), (A.map Prod.fst).Nodup → outer fuel A L f = some o → o.fired = f
  | fuel, [], L, f, o, _, h => by
    have : o = ⟨L, f⟩ := by cases fuel <;> simpa [outer] using h.symm
    rw [this]
  | 0, _ :: _, _, _, _, _, h => by simp [outer] at h
  | fuel + 1, (b, d) :: A, L, f, o, hA, h => by
    rw [outer_succ] at h
    have hA' : b ∉ A.map Prod.fst ∧ (A.map Prod.fst).Nodup := List.nodup_cons.mp hA
    have hd : dupLoop (b, d) A.length 0 A 0 = (A, 0) := by
      apply dupLoop_of_head_ne
      intro x hx hxe
      apply hA'.1
      have hm : x ∈ A := List.mem_of_mem_head? hx
      exact List.mem_map.mpr ⟨x, hm, by rw [hxe]⟩
    rw [hd] at h
    simp only at h
    split at h
    · simp at h
    · rename_i cur A2 hin
      have := outer_fired_of_births_nodup fuel A2 _ _ o (inner_births_nodup _ _ _ _ _ _ _ hA'.2 hin) h
      simpa using this

/-- **pairwise distinct births: the shortcut of the model of `compute_landscape` never fires** -/
theorem sweep_fired_of_births_nodup {bars : List (K × K)} (hb : (bars.map Prod.fst).Nodup) {o : Out K}
    (h : sweep bars = some o) : o.fired = 0 := by
  unfold sweep at h
  exact outer_fired_of_births_nodup _ _ _ _ o
    (((stableSort_perm keyLe bars).map Prod.fst).nodup_iff.mpr hb) h

/-! ### distinct deaths -/

/-- one pass of the inner loop keeps the deaths of current bar and work list pairwise distinct; in
    particular the deaths of the list it leaves are -/
theorem inner_deaths_nodup : ∀ (fuel : Nat) (b d : K) (A cur cur' A2 : List (K × K)),
    (d :: A.map Prod.snd).Nodup → inner fuel b d A cur = some (cur', A2) → (A2.map Prod.snd).Nodup
  | 0, _, _, _, _, _, _, _, h => by simp [inner] at h
  | fuel + 1, b, d, A, cur, cur', A2, hA, h => by
    rw [inner_succ] at h
    by_cases hall : (A.all fun x => decide (x.2 ≤ d)) = true
    · rw [if_pos hall] at h
      simp only [Option.some.injEq, Prod.mk.injEq] at h
      obtain ⟨_, rfl⟩ := h
      exact (List.nodup_cons.mp hA).2
    · rw [if_neg hall] at h
      cases hpf : popFirst (fun x => decide (d < x.2)) A with
      | none => rw [hpf] at h; simp at h
      | some r =>
        obtain ⟨⟨b', d'⟩, A1⟩ := r
        rw [hpf] at h
        simp only at h
        obtain ⟨pre, post, e, e1, _, _⟩ := popFirst_spec _ A (b', d') A1 hpf
        have hperm : A.Perm ((b', d') :: A1) := by rw [e, e1]; exact List.perm_middle
        have hn : (d :: d' :: A1.map Prod.snd).Nodup :=
          ((hperm.map Prod.snd).cons d).nodup_iff.mp hA
        have hA1 : (d' :: A1.map Prod.snd).Nodup := (List.nodup_cons.mp hn).2
        by_cases h1 : d < b'
        · rw [if_pos h1] at h
          exact inner_deaths_nodup fuel _ _ _ _ _ _ hA1 h
        · rw [if_neg h1] at h
          by_cases h2 : d ≤ b'
          · rw [if_pos h2] at h
            exact inner_deaths_nodup fuel _ _ _ _ _ _ hA1 h
          · rw [if_neg h2] at h
            refine inner_deaths_nodup fuel _ _ _ _ _ _ ?_ h
            have hp2 : ((pyInsert (insertPos b' d A1) (b', d) A1).map Prod.snd).Perm (d :: A1.map Prod.snd) :=
              (pyInsert_perm (insertPos b' d A1) (b', d) A1).map Prod.snd
            have hp3 : (d' :: (pyInsert (insertPos b' d A1) (b', d) A1).map Prod.snd).Perm
                (d :: d' :: A1.map Prod.snd) := (hp2.cons d').trans (List.Perm.swap d d' _)
            exact hp3.nodup_iff.mpr hn

/-- with pairwise distinct deaths in the work list the shortcut never fires -/
theorem outer_fired_of_deaths_nodup : ∀ (fuel : Nat) (A : List (K × K)) (L : List (List (K × K))) (f : Nat)
    (o : Out K), (A.map Prod.snd).Nodup → outer fuel A L f = some o → o.fired = f
  | fuel, [], L, f, o, _, h => by
    have : o = ⟨L, f⟩ := by cases fuel <;> simpa [outer] using h.symm
    rw [this]
  | 0, _ :: _, _, _, _, _, h => by simp [outer] at h
  | fuel + 1, (b, d) :: A, L, f, o, hA, h => by
    rw [outer_succ] at h
    have hA' : (d :: A.map Prod.snd).Nodup := hA
    have hd : dupLoop (b, d) A.length 0 A 0 = (A, 0) := by
      apply dupLoop_of_head_ne
      intro x hx hxe
      apply (List.nodup_cons.mp hA').1
      have hm : x ∈ A := List.mem_of_mem_head? hx
      exact List.mem_map.mpr ⟨x, hm, by rw [hxe]⟩
    rw [hd] at h
    simp only at h
    split at h
    · simp at h
    · rename_i cur A2 hin
      have := outer_fired_of_deaths_nodup fuel A2 _ _ o (inner_deaths_nodup _ _ _ _ _ _ _ hA' hin) h
      simpa using this

/-- **pairwise distinct deaths: the shortcut of the model of `compute_landscape` never fires** -/
theorem sweep_fired_of_deaths_nodup {bars : List (K × K)} (hd : (bars.map Prod.snd).Nodup) {o : Out K}
    (h : sweep bars = some o) : o.fired = 0 := by
  unfold sweep at h
  exact outer_fired_of_deaths_nodup _ _ _ _ o
    (((stableSort_perm keyLe bars).map Prod.snd).nodup_iff.mpr hd) h

end PersimVerif.LandscapeLemmas
