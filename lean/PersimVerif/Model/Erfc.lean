/-
  `erfc` and the standard normal CDF at `Float` for the driver (Lean has no `erfc`).
  Used only on the Float side of the correspondence, never in a theorem.
  erf by the positive-term series  2/√π · e^{-x²} · Σ 2ⁿ x^{2n+1}/(2n+1)!!  (no cancellation),
  erfc for x ≥ 2 by the continued fraction  e^{-x²}/√π · 1/(x + (1/2)/(x + 1/(x + (3/2)/(x + …)))).
-/
namespace PersimVerif.Erfc

def sqrtPi : Float := 1.7724538509055160272981674833411

/-- Σ_{n≥0} 2ⁿ x^{2n+1}/(2n+1)!!, summed until the terms vanish (at most 200 terms) -/
def erfSeries (x : Float) : Float := Id.run do
  let mut term := x
  let mut sum := x
  for n in [1:200] do
    term := term * (2.0 * x * x) / (2.0 * n.toFloat + 1.0)
    sum := sum + term
    if term < 1e-18 * sum then break
  return 2.0 / sqrtPi * Float.exp (-(x * x)) * sum

def erfcCF (x : Float) : Float := Id.run do
  let mut t := x
  for i in [0:200] do
    let k := (200 - i).toFloat
    t := x + (k / 2.0) / t
  return Float.exp (-(x * x)) / (sqrtPi * t)

def erfc (x : Float) : Float :=
  if x != x then x
  else if x ≥ 27.0 then 0.0
  else if x ≤ -6.0 then 2.0
  else if x ≥ 2.0 then erfcCF x
  else if x ≥ 0.0 then 1.0 - erfSeries x
  else if x ≥ -2.0 then 1.0 + erfSeries (-x)
  else 2.0 - erfcCF (-x)

/-- `norm_cdf` of persim/images_kernels.py: `erfc(-x/√2)/2` -/
def normCdf (x : Float) : Float := erfc (-x / Float.sqrt 2.0) / 2.0

end PersimVerif.Erfc
