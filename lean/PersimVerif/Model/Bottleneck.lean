/-
  Model of persim/bottleneck.py (`bottleneck`), import-free and polymorphic over core classes.

  line(s) of bottleneck.py                         here
  ------------------------------------------------ ------------------------------------------
  50, 59 np.array(dgm, dtype=float)                 — (the model is dtype-free: its numbers are the values of the
                                                     entries whatever representation the caller used; the conversion
                                                     was added by /repo fix 82ac8af, before it narrow / unsigned
                                                     integer inputs wrapped around in lines 80-82)
  50-67  np.isfinite filter on the death column    `filterFinite` (flag = "warning was issued")
  69-74  `(0,0)` placeholder for an empty side      `withPlaceholder`
  78-97  augmented (M+N)x(M+N) matrix `D`           `augD` (entries `Ext α`, `Ext.top` = np.inf)
  101    `np.sort(np.unique(D.flatten()))`          `candidates` (merge sort + adjacent dedup)
  102    `bdist = ds[-1]`                           `ds.getLast?` (`none` = IndexError, unreachable)
  104-118 the `while len(ds) >= 1` bisect loop       `bsearch`  (idx = len/2, take idx / drop (idx+1),
                                                     guard `len(res) == 2n and d <= bdist`)
  109-111 threshold graph `D[i,j] <= d`             `thresholdGraph`
  112    `HopcroftKarp(graph).maximum_matching()`   the PARAMETER `oracle` (contract: returns a
                                                     maximum-cardinality matching; the two-way dict
                                                     is modelled by its left→right pairs, so
                                                     `len(res)` is `2 * res.length`)
  120-133 `matching=True` row extraction            `extractRows`

  A death coordinate is `Option α`: `none` stands for every non-finite value (`inf`, `-inf`,
  `nan`) — `np.isfinite` treats them alike.  Births are finite (a non-finite birth is outside
  the model; the harness never generates one).  `0.5 * x` is written `x / 2` (the same number in
  exact arithmetic and in binary floating point).

  Besides the model this file holds the executable certificate checkers used by the driver
  (`isMatchingB`, `checkCover`, `certOptB`); their soundness theorems are in Props/C01.lean.
-/
namespace PersimVerif.Bottleneck

/-- a matrix entry / candidate distance: a finite value or `+∞` (`np.inf`) -/
inductive Ext (α : Type) where
  | fin (a : α)
  | top
  deriving Repr

namespace Ext
variable {α : Type}

/-- the order of floats with `np.inf` on top -/
protected def le [LE α] : Ext α → Ext α → Prop
  | fin a, fin b => a ≤ b
  | fin _, top => True
  | top, fin _ => False
  | top, top => True

instance [LE α] : LE (Ext α) := ⟨Ext.le⟩

instance instDecidableLE [LE α] [DecidableLE α] : DecidableLE (Ext α) := fun a b =>
  match a, b with
  | fin a, fin b => inferInstanceAs (Decidable (a ≤ b))
  | fin _, top => isTrue trivial
  | top, fin _ => isFalse (fun h => h)
  | top, top => isTrue trivial

end Ext

/-- the `matching` dict of the code, left→right part: pairs (row, column) -/
abbrev Matching := List (Nat × Nat)

/-- a bipartite graph as the code builds it: `graph[str(i)] = {j | …}` for `i = 0 … n-1` -/
abbrev Graph := List (List Nat)

section Generic
variable {β σ : Type} [LE β] [DecidableLE β]

/-- lines 104-118: the bisect loop.  `probe d` is the Hopcroft–Karp result on the threshold graph
    at `d`, `ok res` is `len(res) == 2 * D.shape[0]`; the state is `(bdist, matching)`. -/
def bsearch (probe : β → σ) (ok : σ → Bool) : List β → β × σ → β × σ
  | [], st => st
  | d0 :: ds', (bdist, mt) =>
    let ds := d0 :: ds'
    -- `idx = 0 if len(ds) <= 1 else bisect_left(range(n), int(n/2))`, i.e. n // 2 in both cases
    let idx := ds.length / 2
    have hidx : idx < ds.length := Nat.div_lt_self (Nat.succ_pos _) (by decide)
    let d := ds[idx]
    let res := probe d
    if ok res = true ∧ d ≤ bdist then bsearch probe ok (ds.take idx) (d, res)
    else bsearch probe ok (ds.drop (idx + 1)) (bdist, mt)
termination_by ds => ds.length
decreasing_by
  · simp only [List.length_take, List.length_cons]; omega
  · simp only [List.length_drop, List.length_cons]; omega

/-- remove repeated neighbours of a sorted list (`np.unique`) -/
def dedupSorted : List β → List β
  | [] => []
  | [x] => [x]
  | x :: y :: r => if y ≤ x then dedupSorted (y :: r) else x :: dedupSorted (y :: r)

/-- line 101: `np.sort(np.unique(·))` -/
def sortUnique (l : List β) : List β :=
  dedupSorted (l.mergeSort fun a b => decide (a ≤ b))

end Generic

section Model
variable {α : Type} [Sub α] [Div α] [Neg α] [Zero α] [OfNat α 2] [Max α] [LE α] [DecidableLE α]

/-- `np.abs` -/
def absM (x : α) : α := max x (-x)

/-- lines 80-82: `np.maximum(|Sb - Tb|, |Sd - Td|)` -/
def linfM (p q : α × α) : α := max (absM (p.1 - q.1)) (absM (p.2 - q.2))

/-- lines 91, 95: `0.5 * (d - b)` -/
def diagM (p : α × α) : α := (p.2 - p.1) / 2

/-- lines 50-58 / 59-67: keep the points with finite death; the flag says a warning was issued
    (`S.shape[0] < M` after filtering). -/
def filterFinite (d : List (α × Option α)) : List (α × α) × Bool :=
  let s := d.filterMap fun p => match p.2 with
    | some e => some (p.1, e)
    | none => none
  (s, decide (s.length < d.length))

/-- lines 69-74 -/
def withPlaceholder (s : List (α × α)) : List (α × α) :=
  if s.isEmpty then [(0, 0)] else s

/-- lines 76-97: entry `(i, j)` of the augmented matrix `D` (meaningful for `i, j < M + N`;
    every access below is inside a `range (M+N)` loop). -/
def augD (S T : List (α × α)) (i j : Nat) : Ext α :=
  if hi : i < S.length then
    if hj : j < T.length then .fin (linfM S[i] T[j])        -- D[0:M, 0:N] = DUL
    else if j - T.length = i then .fin (diagM S[i]) else .top -- D[0:M, N:] = UR
  else
    if hj : j < T.length then
      (if i - S.length = j then .fin (diagM T[j]) else .top)  -- D[M:, 0:N] = UL
    else .fin 0                                               -- lower right: zeros

/-- `D.flatten()` -/
def entries (n : Nat) (D : Nat → Nat → Ext α) : List (Ext α) :=
  (List.range n).flatMap fun i => (List.range n).map fun j => D i j

/-- line 101 -/
def candidates (n : Nat) (D : Nat → Nat → Ext α) : List (Ext α) := sortUnique (entries n D)

/-- lines 109-111: `graph[str(i)] = {j for j in range(n) if D[i, j] <= d}` -/
def thresholdGraph (n : Nat) (D : Nat → Nat → Ext α) (d : Ext α) : Graph :=
  (List.range n).map fun i => (List.range n).filter fun j => decide (D i j ≤ d)

/-- `len(res) == 2 * D.shape[0]` for the two-way dict `res` -/
def perfectB (n : Nat) (res : Matching) : Bool := 2 * res.length == 2 * n

/-- lines 101-118 for a given matrix: `(bdist, matching)` at loop exit;
    `none` = `IndexError` of `ds[-1]` on an empty candidate list (unreachable, `M + N ≥ 2`). -/
def searchLoop (oracle : Graph → Matching) (n : Nat) (D : Nat → Nat → Ext α) :
    Option (Ext α × Matching) :=
  let ds := candidates n D
  match ds.getLast? with
  | none => none
  | some b => some (bsearch (fun d => oracle (thresholdGraph n D d)) (perfectB n) ds (b, []))

/-- lines 69-118 on two diagrams of finite points -/
def bottleneckCore (oracle : Graph → Matching) (S T : List (α × α)) : Option (Ext α × Matching) :=
  let S' := withPlaceholder S
  let T' := withPlaceholder T
  searchLoop oracle (S'.length + T'.length) (augD S' T')

/-- lines 120-133: rows `[i, j, d]` with `-1` for the diagonal; diagonal–diagonal pairs are
    skipped; `none` = `KeyError` (a row of `D` missing from `matching`). -/
def extractRows (M N : Nat) (D : Nat → Nat → Ext α) (mt : Matching) :
    Option (List (Int × Int × Ext α)) :=
  go (List.range (M + N))
where
  go : List Nat → Option (List (Int × Int × Ext α))
    | [] => some []
    | i :: rest =>
      match mt.lookup i with
      | none => none
      | some j =>
        match go rest with
        | none => none
        | some rows =>
          let d := D i j
          if i < M then
            some (((i : Int), (if j ≥ N then -1 else (j : Int)), d) :: rows)
          else if j ≥ N then some rows
          else some (((-1 : Int), (j : Int), d) :: rows)

structure Result (α : Type) where
  /-- `bdist` -/
  value : Ext α
  /-- the dict `matching` at loop exit (left→right pairs) -/
  matching : Matching
  /-- the `dgm1 has points with non-finite death times` warning was issued -/
  warn1 : Bool
  /-- the `dgm2 …` warning was issued -/
  warn2 : Bool

/-- the whole routine, `matching=False` -/
def bottleneck (oracle : Graph → Matching) (dgm1 dgm2 : List (α × Option α)) : Option (Result α) :=
  let (S, w1) := filterFinite dgm1
  let (T, w2) := filterFinite dgm2
  match bottleneckCore oracle S T with
  | none => none
  | some (b, mt) => some ⟨b, mt, w1, w2⟩

/-- the whole routine, `matching=True`: the same distance plus the rows -/
def bottleneckWithMatching (oracle : Graph → Matching) (dgm1 dgm2 : List (α × Option α)) :
    Option (Result α × List (Int × Int × Ext α)) :=
  match bottleneck oracle dgm1 dgm2 with
  | none => none
  | some r =>
    let S := withPlaceholder (filterFinite dgm1).1
    let T := withPlaceholder (filterFinite dgm2).1
    match extractRows S.length T.length (augD S T) r.matching with
    | none => none
    | some rows => some (r, rows)

end Model

/-! ### executable certificate checkers (soundness: Props/C01.lean) -/

/-- `(i, j)` is an edge of `g` -/
def edgeB (g : Graph) (i j : Nat) : Bool :=
  match g[i]? with
  | some a => a.contains j
  | none => false

/-- `m` is a matching of `g`: its pairs are edges, no row and no column is used twice -/
def isMatchingB (g : Graph) (m : Matching) : Bool :=
  m.all (fun p => edgeB g p.1 p.2) && decide (m.map Prod.fst).Nodup && decide (m.map Prod.snd).Nodup

/-- `(R, C)` is a vertex cover of `g`: every edge has its row in `R` or its column in `C` -/
def checkCover (g : Graph) (R C : List Nat) : Bool :=
  g.zipIdx.all fun ai => R.contains ai.2 || ai.1.all fun j => C.contains j

section Cert
variable {α : Type} [LE α] [DecidableLE α]

/-- every entry of `D` that is not `≥ d` is `≤ d'` (so nothing lies strictly between) -/
def gapB (n : Nat) (D : Nat → Nat → Ext α) (d' d : Ext α) : Bool :=
  (List.range n).all fun i => (List.range n).all fun j =>
    decide (d ≤ D i j) || decide (D i j ≤ d')

/-- certified optimum: `m` is a perfect matching of the threshold graph at `d`, and either no
    entry is below `d` (`pred = none`) or `(R, C)` is a vertex cover of size `< n` of the threshold
    graph at a value `d'` such that no entry lies strictly between `d'` and `d`. -/
def certOptB (n : Nat) (D : Nat → Nat → Ext α) (d : Ext α) (m : Matching)
    (pred : Option (Ext α)) (R C : List Nat) : Bool :=
  isMatchingB (thresholdGraph n D d) m && m.length == n &&
  match pred with
  | none => (List.range n).all fun i => (List.range n).all fun j => decide (d ≤ D i j)
  | some d' => gapB n D d' d && checkCover (thresholdGraph n D d') R C && decide (R.length + C.length < n)

end Cert

end PersimVerif.Bottleneck
