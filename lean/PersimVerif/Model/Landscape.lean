import PersimVerif.Model.PLBase
/-
  Model of `persim/landscapes/exact.py` (`PersLandscapeExact.__init__`, `compute_landscape`) and the
  executable certificate checker `certify` of DESIGN.md Appendix A.1.

  Core Lean only (no Mathlib, no Batteries); polymorphic over core classes, so the same definitions
  run at `Rat` in the driver and unfold to ordinary notation over a linear ordered field in
  `Props/C03.lean`.

  Part (a) — `sweep`: the Bubenik–Dlotko sweep exactly as the code writes it, *including* the
  repeated-bar shortcut (`duplicate` counting while the list is being mutated, `L.append(L[-1])`) and a
  count of how often the shortcut fired; the `hom_deg` selection and the removal of a trailing
  infinite bar (only the LAST row is looked at).
  Part (b) — `certifyTol eps bars cps` / `certify bars cps`: cut ℝ at the event abscissae, on every
  cell exhibit an order of the tents that is descending at both cell ends, and compare the k-th tent
  with `evalPL` of the k-th critical-point list at both ends.
-/
namespace PersimVerif.Landscape
open PersimVerif.PL

/-- what the code rejects.  `nonFinite` is not an exception of the code: an infinite death anywhere
    but in the last row makes the code compute with `inf`; such inputs are outside the model. -/
inductive Err where
  | valueError     -- `hom_deg < 0`, or `dgms` empty (and no critical pairs)
  | indexError     -- `dgms[hom_deg]` out of range, or `A[-1]` on an empty diagram
  | nonFinite      -- outside the model (see above)
  | fuel           -- never produced (theorem `exact_never_fuel`): the loops are fuelled with n+1 rounds
  deriving DecidableEq, Repr

/-- result of the sweep: the critical points per depth, and how many times the shortcut fired -/
structure Out (α : Type) where
  cps : List (List (α × α))
  fired : Nat

section
variable {α : Type} [Add α] [Sub α] [Mul α] [Div α] [Zero α] [OfNat α 2] [LT α] [DecidableLT α] [LE α]
  [DecidableLE α] [Max α] [Min α] [BEq α]

/-! ### (a) the sweep -/

/-- `sorted(A, key=lambda x: [x[0], -x[1]])`: `keyLe p q` is `not (key q < key p)`, the test a stable
    sort uses to keep `p` in front of `q`.  Python compares the key lists lexicographically: first
    entries by `==`, then `<`; `-d_q < -d_p` is `d_p < d_q`. -/
def keyLe (p q : α × α) : Bool :=
  if p.1 == q.1 then !(decide (p.2 < q.2)) else !(decide (q.1 < p.1))

/-- insertion of one element before the first element whose key is not smaller (keeps equal keys in
    input order when folded from the right) -/
def insSorted (le : β → β → Bool) (x : β) : List β → List β
  | [] => [x]
  | y :: ys => if le x y then x :: y :: ys else y :: insSorted le x ys

/-- a stable sort (structural, so that closed instances evaluate in the kernel) -/
def stableSort (le : β → β → Bool) (l : List β) : List β := l.foldr (insSorted le) []

/-- the `duplicate` loop: `for j, itemj in enumerate(A): if itemj == [b, d]: duplicate += 1; A.pop(j) else: break`.
    The list is mutated while it is enumerated, so after a pop the iterator moves on to index `j+1`
    of the *shortened* list (every second equal bar is skipped). -/
def dupLoop (bd : α × α) : Nat → Nat → List (α × α) → Nat → List (α × α) × Nat
  | 0, _, A, dup => (A, dup)
  | fuel + 1, j, A, dup =>
    match A[j]? with
    | none => (A, dup)
    | some x => if x.1 == bd.1 && x.2 == bd.2 then dupLoop bd fuel (j + 1) (A.eraseIdx j) (dup + 1) else (A, dup)

/-- first element satisfying `p`, removed from the list (`for i, item in enumerate(A): if …: A.pop(i); break`) -/
def popFirst (p : β → Bool) : List β → Option (β × List β)
  | [] => none
  | x :: xs => if p x then some (x, xs) else (popFirst p xs).map fun (y, r) => (y, x :: r)

/-- index at which `(b', d)` is re-inserted (exact.py, Case III) -/
def insertPos (b' d : α) (A : List (α × α)) : Nat :=
  match A.findIdx? (fun x => decide (b' ≤ x.1)) with
  | none => A.length
  | some ind =>
    match A[ind]? with
    | none => ind
    | some y =>
      if b' == y.1 then ind + ((A.filter fun x => x.1 == b').countP fun x => decide (d < x.2)) else ind

/-- `A.insert(ind, x)` (Python clamps the index to the length) -/
def pyInsert (ind : Nat) (x : β) (A : List β) : List β := A.take ind ++ x :: A.drop ind

/-- the loop `while L[landscape_idx][-1] != [np.inf, 0]` for one landscape function: `cur` are the
    critical points collected so far (without the `±inf` sentinels), `(b,d)` the current bar.
    Returns the finished list and the remaining work list. -/
def inner : Nat → α → α → List (α × α) → List (α × α) → Option (List (α × α) × List (α × α))
  | 0, _, _, _, _ => none
  | fuel + 1, _b, d, A, cur =>
    if A.all (fun x => decide (x.2 ≤ d)) then some (cur ++ [(d, 0)], A)
    else
      match popFirst (fun x => decide (d < x.2)) A with
      | none => none
      | some ((b', d'), A1) =>
        -- Case I
        let cur1 := if d < b' then cur ++ [(d, 0)] else cur
        -- Case II / Case III
        let (cur2, A2) :=
          if d ≤ b' then (cur1 ++ [(b', 0)], A1)
          else (cur1 ++ [((b' + d) / 2, (d - b') / 2)], pyInsert (insertPos b' d A1) (b', d) A1)
        inner fuel b' d' A2 (cur2 ++ [((b' + d') / 2, (d' - b') / 2)])

/-- the loop `while A:`; `L` are the finished depths, `fired` counts `L.append(L[-1])` -/
def outer : Nat → List (α × α) → List (List (α × α)) → Nat → Option (Out α)
  | _, [], L, fired => some ⟨L, fired⟩
  | 0, _ :: _, _, _ => none
  | fuel + 1, (b, d) :: A, L, fired =>
    let (A1, dup) := dupLoop (b, d) A.length 0 A 0
    match inner (A1.length + 1) b d A1 [(b, 0), ((b + d) / 2, (d - b) / 2)] with
    | none => none
    | some (cur, A2) => outer fuel A2 (L ++ cur :: List.replicate dup cur) (fired + dup)

/-- `compute_landscape` on a list of finite bars (after the trailing-infinite-bar step) -/
def sweep (bars : List (α × α)) : Option (Out α) :=
  outer (bars.length + 1) (stableSort keyLe bars) [] 0

/-- `if A[-1][1] == np.inf: A.pop(-1)` — only the last row; `none` is `+inf`.
    An empty diagram raises `IndexError` (`A[-1]`). -/
def dropTrailingInf (D : List (α × Option α)) : Except Err (List (α × Option α)) :=
  match D.getLast? with
  | none => .error .indexError
  | some (_, none) => .ok D.dropLast
  | some (_, some _) => .ok D

/-- all remaining deaths must be finite (else: outside the model) -/
def finiteBars : List (α × Option α) → Except Err (List (α × α))
  | [] => .ok []
  | (_, none) :: _ => .error .nonFinite
  | (b, some d) :: t =>
    match finiteBars t with
    | .ok r => .ok ((b, d) :: r)
    | .error e => .error e

/-- `PersLandscapeExact(dgms=dgms, hom_deg=h)`: the bars the sweep runs on -/
def selectBars (dgms : List (List (α × Option α))) (homDeg : Int) : Except Err (List (α × α)) :=
  if homDeg < 0 then .error .valueError
  else if dgms.isEmpty then .error .valueError
  else match dgms[homDeg.toNat]? with
    | none => .error .indexError
    | some D =>
      match dropTrailingInf D with
      | .error e => .error e
      | .ok D' => finiteBars D'

/-- the whole constructor: `PersLandscapeExact(dgms, hom_deg).critical_pairs` plus the firing count -/
def exact (dgms : List (List (α × Option α))) (homDeg : Int) : Except Err (Out α) :=
  match selectBars dgms homDeg with
  | .error e => .error e
  | .ok bars =>
    match sweep bars with
    | some o => .ok o
    | none => .error .fuel

/-- the sweep with the repeated-bar shortcut removed (every bar gets its own pass): the reference
    algorithm of `sweepNoShortcut_correct` / `sweep_correct_of_not_fired` (Props/C03.lean), also used by the
    driver for diagnostics -/
def outerNoShortcut : Nat → List (α × α) → List (List (α × α)) → Option (List (List (α × α)))
  | _, [], L => some L
  | 0, _ :: _, _ => none
  | fuel + 1, (b, d) :: A, L =>
    match inner (A.length + 1) b d A [(b, 0), ((b + d) / 2, (d - b) / 2)] with
    | none => none
    | some (cur, A2) => outerNoShortcut fuel A2 (L ++ [cur])

def sweepNoShortcut (bars : List (α × α)) : Option (List (List (α × α))) :=
  outerNoShortcut (bars.length + 1) (stableSort keyLe bars) []

/-! ### (b) the certificate checker -/

/-- value of the tent of bar `p` at `t` -/
def tentAt (t : α) (p : α × α) : α := tent p.1 p.2 t

/-- the event abscissae: `b, (b+d)/2, d` of every bar, every critical abscissa of the candidate, and
    `(b_i+d_j)/2` for every pair of bars whose rising edge (of `i`) and falling edge (of `j`) meet, i.e.
    `b_j ≤ b_i ≤ d_j ≤ d_i`.  (Only the first two groups matter for soundness; the crossings make the
    checker complete: between two events no two tents change order.) -/
def events (bars : List (α × α)) (cps : List (List (α × α))) : List α :=
  (bars.flatMap fun p => [p.1, (p.1 + p.2) / 2, p.2]) ++
  (cps.flatMap fun c => c.map fun p => p.1) ++
  (bars.flatMap fun p => (bars.filter fun q =>
      decide (q.1 ≤ p.1) && decide (p.1 ≤ q.2) && decide (q.2 ≤ p.2)).map fun q => (p.1 + q.2) / 2)

/-- drop adjacent repetitions -/
def dedupAdj : List α → List α
  | [] => []
  | [a] => [a]
  | a :: b :: t => if a == b then dedupAdj (b :: t) else a :: dedupAdj (b :: t)

/-- the cut points: events sorted ascending, repetitions removed -/
def cuts (bars : List (α × α)) (cps : List (List (α × α))) : List α :=
  dedupAdj (stableSort (fun a b => decide (a ≤ b)) (events bars cps))

/-- adjacent entries strictly increasing -/
def strictAsc : List α → Bool
  | [] => true
  | [_] => true
  | a :: b :: t => decide (a < b) && strictAsc (b :: t)

/-- adjacent entries non-increasing -/
def descB : List α → Bool
  | [] => true
  | [_] => true
  | a :: b :: t => decide (b ≤ a) && descB (b :: t)

/-- `|a - b| ≤ eps` without `abs` -/
def closeB (eps a b : α) : Bool := decide (a - b ≤ eps) && decide (b - a ≤ eps)

/-- order in which the tents are tried on the cell `[l,r]`: by value at `l`, then by value at `r`, descending -/
def cellLe (x y : α × α × (α × α)) : Bool :=
  if x.1 == y.1 then decide (y.2.1 ≤ x.2.1) else decide (y.1 < x.1)

def cellOrder (bars : List (α × α)) (l r : α) : List (α × α) :=
  (stableSort cellLe (bars.map fun p => (tentAt l p, tentAt r p, p))).map fun x => x.2.2

/-- the check on one cell: the order is descending at both ends, and for every depth `k < K` the k-th
    tent (0 beyond the number of bars) is within `eps` of the candidate's depth `k` (0 beyond its
    number of depths) at both ends -/
def cellOK (eps : α) (bars : List (α × α)) (cps : List (List (α × α))) (K : Nat) (l r : α) : Bool :=
  let π := cellOrder bars l r
  let vl := π.map (tentAt l)
  let vr := π.map (tentAt r)
  descB vl && descB vr &&
    (List.range K).all fun k =>
      closeB eps (evalDepth cps k l) (vl.getD k 0) && closeB eps (evalDepth cps k r) (vr.getD k 0)

/-- the checker with a tolerance (`eps = 0`: exact equality) -/
def certifyTol (eps : α) (bars : List (α × α)) (cps : List (List (α × α))) : Bool :=
  let E := cuts bars cps
  cps.all wellFormed && decide (0 ≤ eps) && strictAsc E &&
    (E.zip E.tail).all fun lr => cellOK eps bars cps (max bars.length cps.length) lr.1 lr.2

/-- **the certificate checker of C03** -/
def certify (bars : List (α × α)) (cps : List (List (α × α))) : Bool := certifyTol 0 bars cps

/-- diagnosis for replays (not part of the verified verdict): first malformed depth, or first cell end
    and depth at which candidate and definition are more than `eps` apart.
    `(kind, k, t, candidate value, definition value)`, kind 0 = malformed depth `k`, 1 = values differ,
    2 = cut list not strictly increasing / order not descending (cannot happen with exact arithmetic). -/
def witness (eps : α) (bars : List (α × α)) (cps : List (List (α × α))) : Option (Nat × Nat × α × α × α) :=
  let E := cuts bars cps
  let K := max bars.length cps.length
  match (List.range cps.length).find? (fun k => !((cps[k]?.map wellFormed).getD true)) with
  | some k => some (0, k, 0, 0, 0)
  | none =>
    if !(strictAsc E) then some (2, 0, 0, 0, 0) else
    (E.zip E.tail).findSome? fun lr =>
      let π := cellOrder bars lr.1 lr.2
      let vl := π.map (tentAt lr.1)
      let vr := π.map (tentAt lr.2)
      if !(descB vl && descB vr) then some (2, 0, lr.1, 0, 0) else
      (List.range K).findSome? fun k =>
        if !(closeB eps (evalDepth cps k lr.1) (vl.getD k 0)) then
          some (1, k, lr.1, evalDepth cps k lr.1, vl.getD k 0)
        else if !(closeB eps (evalDepth cps k lr.2) (vr.getD k 0)) then
          some (1, k, lr.2, evalDepth cps k lr.2, vr.getD k 0)
        else none

end
end PersimVerif.Landscape
