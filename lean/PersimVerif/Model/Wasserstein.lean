/-
  Model of persim/wasserstein.py (`wasserstein`), import-free and polymorphic.

  line of wasserstein.py            model
  ---------------------------------------------------------------------------------------------
  46, 56 np.array(dgm, dtype=float)  — (the model is dtype-free: its numbers are the values of the entries,
                                     whatever representation the caller used; the conversion was added by
                                     /repo fix dcbfa71, before it integer inputs overflowed in line 76)
  47-65  np.isfinite filter, warn   `finitePart`, `warned`
  67-72  (0,0) placeholder          `orPlaceholder`
  76     np.sqrt(np.sum((S[:,None,:] - T[None,:,:])**2, axis=2))
                                    `dist sqrt` = sqrt (dx*dx + dy*dy), coordinate differences first
                                    (`sqrt` is a parameter; since /repo fix 6c9bac1 this is the code's own
                                    operation order — sklearn's expanded form |x|²-2xy+|y|² is gone)
  84, 88 (S[:, 1] - S[:, 0]) / np.sqrt(2)
                                    `diagc sqrt` = (d - b) / sqrt 2, from the coordinate difference (the `/repo`
                                    fix of the diagonal cost: the rotation by pi/4, `d*cos - b*sin`, is gone, and
                                    with it the model's parameters `cp`, `sp`)
  82-89  augmented matrix D         `augEntry`, `augMatrix` (`none` = `np.inf`)
  97     linear_sum_assignment(D)   the parameter `lsa`    (contract: a minimum-cost perfect assignment
                                                            whenever one with finite cost exists)
  98     np.sum(D[matchi, matchj])  `lookup`, `optSum`
  100-110 matching=True rows        `rowsOf`

  A death coordinate is `Option α`: `none` = "not finite" (`+∞`, `−∞`, NaN — everything `np.isfinite`
  rejects).  Births are finite values (a non-finite birth is outside the model).
  The value is an `Option α` as well (`none` = `+∞`, what `np.sum` gives when an `np.inf` entry is
  selected); an index pair outside the matrix is `Err.index` (Python: IndexError).
-/
namespace PersimVerif.Wasserstein

/-- a diagram as the code receives it -/
abbrev Dgm (α : Type) := List (α × Option α)

/-- a cost matrix with `none` = `+∞` -/
abbrev Mat (α : Type) := List (List (Option α))

inductive Err where
  | index
  deriving DecidableEq, Repr

/-- what the routine returns (`rows` only with `matching=True`) and the two warnings it may emit -/
structure Out (α : Type) where
  value : Option α
  warn1 : Bool
  warn2 : Bool
  rows : List (Int × Int × Option α)

section
variable {α : Type}

/-- lines 49 / 59: `S[np.isfinite(S[:, 1]), :]` -/
def finitePart (d : Dgm α) : List (α × α) :=
  d.filterMap fun p => match p.2 with
    | some e => some (p.1, e)
    | none => none

/-- lines 50 / 60: `S.shape[0] < M` → the warning is emitted -/
def warned (d : Dgm α) : Bool := decide ((finitePart d).length < d.length)

/-- a finite diagram seen as an input of the routine -/
def lift (s : List (α × α)) : Dgm α := s.map fun p => (p.1, some p.2)

/-- `D[i, j]`; outer `none` = index out of range -/
def lookup (D : Mat α) (i j : Nat) : Option (Option α) := D[i]? >>= fun r => r[j]?

variable [Add α] [Sub α] [Mul α] [Div α] [Zero α] [OfNat α 2]

/-- lines 67-72: an empty side becomes the single point `(0,0)` -/
def orPlaceholder : List (α × α) → List (α × α)
  | [] => [(0, 0)]
  | p :: s => p :: s

/-- line 76: Euclidean distance of two points, from the coordinate differences (`(S - T)**2` summed, then `np.sqrt`) -/
def dist (sqrt : α → α) (p q : α × α) : α :=
  sqrt ((p.1 - q.1) * (p.1 - q.1) + (p.2 - q.2) * (p.2 - q.2))

/-- lines 84 / 88: the cost of sending `(b, d)` to the diagonal, `(S[:, 1] - S[:, 0]) / np.sqrt(2)` -/
def diagc (sqrt : α → α) (p : α × α) : α := (p.2 - p.1) / sqrt 2

/-- lines 82-89: entry `(i, j)` of the `(M+N) × (M+N)` matrix, `M = |S|`, `N = |T|` -/
def augEntry (sqrt : α → α) (S T : List (α × α)) (i j : Nat) : Option α :=
  if hi : i < S.length then
    if hj : j < T.length then some (dist sqrt S[i] T[j])
    else if j - T.length = i then some (diagc sqrt S[i])
    else none
  else
    if hj : j < T.length then
      if i - S.length = j then some (diagc sqrt T[j])
      else none
    else some 0

def augMatrix (sqrt : α → α) (S T : List (α × α)) : Mat α :=
  List.ofFn (n := S.length + T.length) fun i =>
    List.ofFn (n := S.length + T.length) fun j => augEntry sqrt S T i.val j.val

/-- addition with `none` = `+∞` absorbing -/
def optAdd : Option α → Option α → Option α
  | some a, some b => some (a + b)
  | _, _ => none

/-- line 98: `np.sum` of the selected entries -/
def optSum (l : List (Option α)) : Option α := l.foldl optAdd (some 0)

/-- lines 101-109: the rows returned with `matching=True` -/
def rowsOf (M N : Nat) (pairs : List (Nat × Nat)) (sel : List (Option α)) :
    List (Int × Int × Option α) :=
  ((pairs.zip sel).map fun (p, d) =>
      ((if p.1 ≥ M then (-1 : Int) else (p.1 : Int)), (if p.2 ≥ N then (-1 : Int) else (p.2 : Int)), d)).filter
    fun r => r.1 + r.2.1 != -2

/-- the two diagrams after filtering and placeholder substitution -/
def prepared (d : Dgm α) : List (α × α) := orPlaceholder (finitePart d)

/-- the matrix handed to `linear_sum_assignment` -/
def matrixOf (sqrt : α → α) (d1 d2 : Dgm α) : Mat α :=
  augMatrix sqrt (prepared d1) (prepared d2)

/-- the whole routine; `lsa` returns the list `zip(matchi, matchj)` -/
def wasserstein (sqrt : α → α) (lsa : Mat α → List (Nat × Nat)) (d1 d2 : Dgm α) :
    Except Err (Out α) :=
  let S := prepared d1
  let T := prepared d2
  let D := augMatrix sqrt S T
  let pairs := lsa D
  match pairs.mapM (fun p => lookup D p.1 p.2) with
  | none => .error .index
  | some sel =>
    .ok { value := optSum sel, warn1 := warned d1, warn2 := warned d2,
          rows := rowsOf S.length T.length pairs sel }

/-! ### an exhaustive assignment solver (driver op `ws.exh`; one instance of the parameter `lsa`) -/

variable [LT α] [DecidableLT α]

/-- keep the cheaper of two candidates (the earlier one on ties) -/
def better : Option (α × List Nat) → Option (α × List Nat) → Option (α × List Nat)
  | none, y => y
  | x, none => x
  | some x, some y => if y.1 < x.1 then some y else some x

/-- minimum-cost completion of the remaining rows using columns not in `used`;
    the cost of a row list is `x₀ + (x₁ + (… + 0))` -/
def exhGo : List (List (Option α)) → List Nat → Option (α × List Nat)
  | [], _ => some (0, [])
  | r :: rs, used =>
    (r.zipIdx).foldl (fun best (e, j) =>
      match e with
      | none => best
      | some x =>
        if used.contains j then best
        else match exhGo rs (j :: used) with
          | none => best
          | some (w, cols) => better best (some (x + w, j :: cols))) none

/-- exhaustive `linear_sum_assignment`: `[]` when no finite assignment exists (scipy raises) -/
def exhLsa (D : Mat α) : List (Nat × Nat) :=
  match exhGo D [] with
  | some (_, cols) => (List.range D.length).zip cols
  | none => []

/-! ### exhaustive evaluation of the specification (driver op `spec.ws`)

  independent of the augmented matrix: every point of `S` goes to the diagonal or to a point of
  `T` not used yet; what is left of `T` goes to the diagonal. -/

def minOpt (a b : α) : α := if b < a then b else a

def specGo (c : α × α → α × α → α) (diag : α × α → α) : List (α × α) → List (α × α) → α
  | [], T => (T.map diag).foldl (· + ·) 0
  | s :: S, T =>
    (T.zipIdx).foldl (fun best (t, k) => minOpt best (c s t + specGo c diag S (T.eraseIdx k)))
      (diag s + specGo c diag S T)

end

/-! ### the dual-certificate checker (driver op `cert.dual`, run at `Rat`)

  `cols[i]` is the column assigned to row `i`.  Accepts iff `D` is square, `cols` is a permutation of
  `0..n-1`, every selected entry is finite, `a[i] + b[j] ≤ D[i][j]` for every finite entry, and
  `Σ a + Σ b` equals the cost of the assignment; answers that cost. -/
section
variable {α : Type} [Add α] [Zero α] [LE α] [DecidableLE α] [DecidableEq α]

def listSum (l : List α) : α := l.foldl (· + ·) 0

def isPermOfRange (n : Nat) (cols : List Nat) : Bool :=
  cols.length == n && (List.range n).all fun j => cols.contains j

def dualFeasible (D : Mat α) (n : Nat) (a b : List α) : Bool :=
  (List.range n).all fun i => (List.range n).all fun j =>
    match lookup D i j, a[i]?, b[j]? with
    | some (some x), some ai, some bj => decide (ai + bj ≤ x)
    | some none, some _, some _ => true
    | _, _, _ => false

def dualCheck (D : Mat α) (cols : List Nat) (a b : List α) : Option α :=
  let n := D.length
  if isPermOfRange n cols && dualFeasible D n a b && a.length == n && b.length == n then
    match ((List.range n).zip cols).mapM (fun p => lookup D p.1 p.2) with
    | some sel =>
      match optSum sel with
      | some w => if listSum a + listSum b = w then some w else none
      | none => none
    | none => none
  else none

end
end PersimVerif.Wasserstein
