/-
  Model of the REPRESENTATION layer of persim/gromov_hausdorff.py (property C17), import-free.

    gromov_hausdorff(AG, AH=None, …)                    → `gromovHausdorff`
    make_distance_matrix_from_adjacency_matrix(AG)      → `makeDist`
    cast_distance_matrix_to_optimal_int_type            → `maxEntry` + `optimalIntType`
    determine_optimal_int_type(value)                   → `optimalIntType`
    estimate(DX, DY, mapping_sample_size_order)         → the PARAMETER `est` (modelled by C05)

  What the model's input is.  A graph arrives as the matrix of its entries, `Mat = List (List Nat)`
  (row major).  Nested lists / tuples and dense `ndarray`s of any dtype and any memory layout, `np.matrix`
  (the code makes them one C-contiguous array with `np.ascontiguousarray` before calling csgraph — /repo commit
  fc69e2e; before it a transposed, Fortran-ordered or fancy-indexed, i.e. relabelled, array raised `ValueError`) and scipy
  sparse matrices of every format (CSR/CSC/COO/LIL/DOK/BSR/DIA; the code converts them with `.tocsr()`
  before calling csgraph — /repo commit f0487ca; before it COO/DOK/BSR/DIA inputs with nnz ≥ n²/4 raised
  `ValueError`) are containers of that same matrix; unpacking the container is left to the correspondence
  harness.  The model assumes simple unweighted graphs in the sense of the docstring: entries are finite and
  non-negative (scipy warns on negative weights; NaN/inf/|x| ≤ 1e-8 are "no edge" in a dense array but an
  edge in a sparse one), and a sparse matrix has no explicitly stored zeros (scipy counts a stored 0 as
  an edge; `tocsr()` sums duplicate COO entries, which keeps non-zero-ness for non-negative entries).

  `shortest_path(AG, directed=False, unweighted=True)`:
    * `directed=False`  — i and j are adjacent when the entry is non-zero in EITHER direction: `adjOf`;
    * `unweighted=True` — every non-zero entry is an edge of length 1, whatever its value;
    * diagonal entries (self-loops) stay in `adjOf` as they are in the matrix; they never change a
      distance (theorem `C17.diagonal_irrelevant`).
  The result is the matrix of BFS distances, `none` = ∞.  BFS is run level by level: `ballNext` adds the
  neighbours of the vertices reached so far, `levels` keeps the first `n` levels B₀ ⊆ B₁ ⊆ … ⊆ B₍ₙ₋₁₎
  (fuel = n) and the distance to `t` is the index of the first level containing `t` (`distRow`).

  `connected_components(AG, directed=False)` labels components 0,1,2,… in the order of their smallest
  vertex (`labels`; checked against scipy on every harness case).  `np.unique(…, return_counts=True)`
  returns the labels in increasing order with their counts (`sizes`); `np.argmax` returns the FIRST
  maximum (`argmaxFirst`), so ties in component size go to the component containing the smallest vertex.

  The model rejects what the code rejects (all `ValueError`): `Err.notSquare` for an empty / ragged /
  non-square matrix, `Err.tooLarge` when the largest entry does not fit `int64` or is ∞ (old code),
  `Err.tooFewGraphs` for a collection of fewer than two graphs.

  Index access uses `getD` with a default that is never observed: `makeDist` checks `isSquare` first and
  every later index is `< n` (the theorems are stated for indices in range).
-/
namespace PersimVerif.Graph

abbrev Mat := List (List Nat)
abbrev BMat := List (List Bool)
/-- a matrix of BFS distances, `none` = ∞ (`np.inf` in scipy's result) -/
abbrev DMat := List (List (Option Nat))

inductive Err where
  | notSquare
  | tooLarge
  | tooFewGraphs
  deriving DecidableEq, Repr

/-- the `n×m` table of a function -/
def tab {α : Type} (n m : Nat) (f : Nat → Nat → α) : List (List α) :=
  (List.range n).map fun i => (List.range m).map fun j => f i j

/-- `M[i][j]` (default never observed for indices in range) -/
def ent {α : Type} (d : α) (M : List (List α)) (i j : Nat) : α := (M.getD i []).getD j d

def entry (A : Mat) (i j : Nat) : Nat := ent 0 A i j

/-- what scipy's `validate_graph` demands: two-dimensional, square, at least one vertex
    (`np.max` of an empty matrix raises as well) -/
def isSquare {α : Type} (A : List (List α)) : Bool :=
  A.length != 0 && A.all fun r => r.length == A.length

/-! ### undirected, unweighted adjacency -/

/-- `directed=False, unweighted=True`: adjacent iff the entry is non-zero in either direction -/
def adjOf (A : Mat) : BMat :=
  tab A.length A.length fun i j => entry A i j != 0 || entry A j i != 0

/-- `np.triu(A)`: the upper-triangular part (diagonal kept) -/
def upper (A : Mat) : Mat := tab A.length A.length fun i j => if i ≤ j then entry A i j else 0

/-- `np.triu(A, 1)`: the strictly upper-triangular part -/
def strictUpper (A : Mat) : Mat := tab A.length A.length fun i j => if i < j then entry A i j else 0

/-- `np.maximum(A, A.T)`: the symmetric closure `A ∨ Aᵀ` -/
def symClosure (A : Mat) : Mat := tab A.length A.length fun i j => max (entry A i j) (entry A j i)

/-- `A[np.ix_(idx, idx)]` = `A[idx][:, idx]`: rows AND columns `idx` (a relabelling when `idx` is a
    permutation of the vertices, a principal sub-matrix when it is a subset) -/
def sub {α : Type} (d : α) (idx : List Nat) (M : List (List α)) : List (List α) :=
  idx.map fun i => idx.map fun j => ent d M i j

/-- `A[idx]`: rows only (what the code did before the fix) -/
def rowsOnly {α : Type} (idx : List Nat) (M : List (List α)) : List (List α) :=
  idx.map fun i => M.getD i []

/-! ### BFS by levels -/

/-- does the row of a vertex meet the set `B` (a neighbour already reached)? -/
def hits : List Bool → List Bool → Bool
  | a :: r, b :: s => (a && b) || hits r s
  | _, _ => false

/-- one BFS level: keep what is reached, add every vertex with a reached neighbour -/
def ballNext (rows : BMat) (B : List Bool) : List Bool :=
  List.zipWith (fun row b => b || hits row B) rows B

/-- the start level `{s}` as a characteristic vector -/
def unit (n s : Nat) : List Bool := (List.range n).map fun t => t == s

/-- the first `fuel` levels `B, next B, next (next B), …` -/
def levels (rows : BMat) : Nat → List Bool → List (List Bool)
  | 0, _ => []
  | k + 1, B => B :: levels rows k (ballNext rows B)

/-- BFS distances from `s`: index of the first of the levels B₀ … B₍ₙ₋₁₎ that contains `t` -/
def distRow (rows : BMat) (s : Nat) : List (Option Nat) :=
  let n := rows.length
  let ls := levels rows n (unit n s)
  (List.range n).map fun t => ls.findIdx? fun B => B.getD t false

/-- all-pairs BFS distances: scipy's `shortest_path(…, directed=False, unweighted=True)` -/
def bfsAll (rows : BMat) : DMat := (List.range rows.length).map (distRow rows)

/-- `np.any(np.isinf(DG))` -/
def hasInf (D : DMat) : Bool := D.any fun row => row.any Option.isNone

/-! ### connected components, labelled in the order of their first vertex -/

def reachable (D : DMat) (u v : Nat) : Bool := (ent none D u v).isSome

/-- the smallest vertex of `v`'s component: the first smaller vertex that reaches `v`, else `v` -/
def rep (D : DMat) (v : Nat) : Nat := ((List.range v).find? fun u => reachable D u v).getD v

/-- scipy's label: how many components start before the component of `v` -/
def label (D : DMat) (v : Nat) : Nat :=
  ((List.range (rep D v)).filter fun u => rep D u == u).length

/-- `components_by_vertex` -/
def labels (D : DMat) : List Nat := (List.range D.length).map (label D)

/-- number of components = number of vertices that are the first of their component -/
def numComponents (D : DMat) : Nat := ((List.range D.length).filter fun u => rep D u == u).length

/-- `np.unique(labels, return_counts=True)[1]`: labels are `0 … c-1`, counts in that order -/
def sizes (ls : List Nat) (c : Nat) : List Nat := (List.range c).map fun l => ls.count l

def maxList (l : List Nat) : Nat := l.foldl max 0

/-- `np.argmax`: index of the FIRST maximum -/
def argmaxFirst (l : List Nat) : Nat := l.idxOf (maxList l)

/-- `components[np.argmax(component_sizes)]` -/
def largestLabel (D : DMat) : Nat := argmaxFirst (sizes (labels D) (numComponents D))

/-- the vertices selected by the mask `components_by_vertex == largest_component`, increasing -/
def members (ls : List Nat) (l : Nat) : List Nat :=
  (List.range ls.length).filter fun v => ls[v]? == some l

def largestComponent (D : DMat) : List Nat := members (labels D) (largestLabel D)

/-- after the fix: `DG[mask][:, mask]` -/
def restrict (D : DMat) : DMat := sub none (largestComponent D) D

/-- before the fix: `DG[mask]` -/
def restrictOld (D : DMat) : DMat := rowsOnly (largestComponent D) D

/-! ### integer type -/

inductive IntType where
  | i8 | i16 | i32 | i64
  deriving DecidableEq, Repr

def IntType.bits : IntType → Nat
  | .i8 => 8 | .i16 => 16 | .i32 => 32 | .i64 => 64

/-- `np.iinfo(t).max` -/
def IntType.max (t : IntType) : Nat := 2 ^ (t.bits - 1) - 1

/-- `determine_optimal_int_type`: the first of int8/16/32/64 whose max is ≥ the value -/
def optimalIntType (v : Nat) : Except Err IntType :=
  match [IntType.i8, .i16, .i32, .i64].find? fun t => decide (v ≤ t.max) with
  | some t => .ok t
  | none => .error .tooLarge

def finRow : List (Option Nat) → Option (List Nat)
  | [] => some []
  | none :: _ => none
  | some x :: r => (finRow r).map (x :: ·)

/-- the matrix as integers, if no entry is ∞ -/
def finMat : DMat → Option Mat
  | [] => some []
  | r :: rs => match finRow r, finMat rs with
    | some a, some as => some (a :: as)
    | _, _ => none

/-- `np.max(DX)` -/
def maxEntry (M : Mat) : Nat := maxList (M.map maxList)

/-! ### make_distance_matrix_from_adjacency_matrix -/

structure DistResult where
  /-- the distance matrix handed to `estimate` -/
  dist : Mat
  /-- was "disconnected graph is approximated by its largest connected component" emitted? -/
  warned : Bool
  /-- the dtype of the returned array -/
  intType : IntType
  deriving DecidableEq, Repr

/-- casting: `np.max` of a matrix with an ∞ entry is ∞, which no integer type holds -/
def cast (D : DMat) (warned : Bool) : Except Err DistResult :=
  match finMat D with
  | none => .error .tooLarge
  | some M =>
    match optimalIntType (maxEntry M) with
    | .error e => .error e
    | .ok t => .ok ⟨M, warned, t⟩

def makeDist (A : Mat) : Except Err DistResult :=
  if isSquare A then
    let D := bfsAll (adjOf A)
    if hasInf D then cast (restrict D) true else cast D false
  else .error .notSquare

/-- the code before commit e3ee023 -/
def makeDistOld (A : Mat) : Except Err DistResult :=
  if isSquare A then
    let D := bfsAll (adjOf A)
    if hasInf D then cast (restrictOld D) true else cast D false
  else .error .notSquare

/-! ### gromov_hausdorff: pair / collection dispatch, `estimate` a parameter

  `est s DX DY = ((lb, ub), s')` — `s` is the state of NumPy's global RNG before the call, `s'` after.
-/

/-- `for i in range(N): for j in range(i + 1, N)` -/
def pairsOf (N : Nat) : List (Nat × Nat) :=
  (List.range N).flatMap fun i => (List.range' (i + 1) (N - (i + 1))).map fun j => (i, j)

section
variable {σ β : Type}

/-- the double loop: both distance matrices are recomputed for every pair, then `estimate` -/
def collect (est : σ → Mat → Mat → (β × β) × σ) (As : List Mat) :
    List (Nat × Nat) → σ → Except Err (List (β × β) × σ)
  | [], s => .ok ([], s)
  | (i, j) :: ps, s =>
    match makeDist (As.getD i []) with
    | .error e => .error e
    | .ok DX =>
      match makeDist (As.getD j []) with
      | .error e => .error e
      | .ok DY =>
        let r := est s DX.dist DY.dist
        match collect est As ps r.2 with
        | .error e => .error e
        | .ok (rs, s') => .ok (r.1 :: rs, s')

/-- `lbs[i, j]` for `i < j` after the loop: the value written for the pair `(i, j)` -/
def upperVal (zero : β) (ps : List (Nat × Nat)) (vals : List β) (i j : Nat) : β :=
  vals.getD (ps.idxOf (i, j)) zero

/-- `np.zeros((N, N))`, upper triangle filled, then `lbs[tril] = lbs.T[tril]` -/
def symmetrise (N : Nat) (zero : β) (u : Nat → Nat → β) : List (List β) :=
  tab N N fun i j => if i < j then u i j else if j < i then u j i else zero

inductive Input where
  /-- `gromov_hausdorff(AG, AH)` -/
  | pair (G H : Mat)
  /-- `gromov_hausdorff(As)` (`AH=None`) -/
  | coll (As : List Mat)

inductive Result (β : Type) where
  | pair (lb ub : β)
  | mats (lbs ubs : List (List β))

def gromovHausdorff (est : σ → Mat → Mat → (β × β) × σ) (zero : β) (inp : Input) (s : σ) :
    Except Err (Result β × σ) :=
  match inp with
  | .coll As =>
    if As.length < 2 then .error .tooFewGraphs
    else
      let ps := pairsOf As.length
      match collect est As ps s with
      | .error e => .error e
      | .ok (vals, s') =>
        .ok (.mats (symmetrise As.length zero (upperVal zero ps (vals.map Prod.fst)))
                   (symmetrise As.length zero (upperVal zero ps (vals.map Prod.snd))), s')
  | .pair G H =>
    let ps := pairsOf 2
    match collect est [G, H] ps s with
    | .error e => .error e
    | .ok (vals, s') =>
      .ok (.pair (upperVal zero ps (vals.map Prod.fst) 0 1) (upperVal zero ps (vals.map Prod.snd) 0 1), s')

end
end PersimVerif.Graph
