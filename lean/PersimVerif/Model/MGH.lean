/-
  Model of persim/gromov_hausdorff.py from `estimate` downwards (import-free, core Lean only).

  Distance matrices are `List (List Nat)` (row lists); every quantity of the Python code that is
  "twice a distance" is a `Nat` here (`estimate` returns `0.5 * double_lb, 0.5 * double_ub`; the
  model returns the doubled pair).

  What is a parameter rather than modelled:
    * the NumPy random generator: `constructMapping` receives the permutation `pi` and the first
      image `y0` (`np.random.choice(len(DY))`); `findUbOfMinDistortion` receives the list of
      permutations the lazy `permutations_generator` would yield (its length is the number of
      mappings to sample, `ceil(|X|^a * log(|X|+1)^b)` — a float computation that only decides
      *how many* permutations there are) and the list of first images; `findUb`/`estimate` receive
      one such pair per direction;
    * `keyMul len diam` = the product `len(K) * int(diam_X)` of
      `find_largest_size_bounded_curvature`.  The driver runs the model with the exact product
      (`exactMul`, what the repaired code computes); the theorems hold for *every* `keyMul`, so they
      also cover the unrepaired `Python int * np.int8` product (`wrapMul 8`, `keyMulOld`), which
      only makes the sort keys — and therefore which rows are dropped — arbitrary.

  The model rejects what the code rejects: an empty permutation list is `StopIteration`
  (`Err.stopIteration`); an index outside a matrix is `IndexError` (`Err.index`; the driver checks
  shapes before calling the model so that negative-index wrap-around never arises).
-/
namespace PersimVerif.MGH

abbrev Mat := List (List Nat)

inductive Err where
  | stopIteration
  | index
  | overflow
  deriving DecidableEq, Repr

/-- entry `D[i, j]`; callers guarantee `i, j` in range (driver: shape check; theorems: `Square`) -/
def ent (D : Mat) (i j : Nat) : Nat := (D.getD i []).getD j 0

/-- `|a - b|` on naturals (the code subtracts signed integers and takes `np.abs`) -/
def absDiff (a b : Nat) : Nat := (a - b) + (b - a)

/-- `np.max` of a matrix of non-negative integers (0 for the 1×1 zero matrix) -/
def matMax (D : Mat) : Nat := (D.map fun r => r.foldl max 0).foldl max 0

/-- index of the first minimum, `np.argmin` (0 on an empty list, which the callers never pass) -/
def argminAux {α : Type} [LT α] [DecidableLT α] : List α → Nat → α → Nat → Nat
  | [], _, _, bi => bi
  | x :: xs, k, best, bi => if x < best then argminAux xs (k + 1) x k else argminAux xs (k + 1) best bi

def argmin {α : Type} [LT α] [DecidableLT α] : List α → Nat
  | [] => 0
  | x :: xs => argminAux xs 1 x 0

/-! ### `find_largest_size_bounded_curvature` -/

/-- the principal submatrix on the index list `idx` (what `K` is after the `np.delete` pairs) -/
def sub (D : Mat) (idx : List Nat) : Mat :=
  idx.map fun i => let r := D.getD i []; idx.map fun j => r.getD j 0

/-- `np.any(K[np.triu_indices_from(K, 1)] < d)` -/
def anyUpperLess : Nat → Mat → Nat → Bool
  | _, [], _ => false
  | k, r :: rs, d =>
    ((r.drop (k + 1)).any fun x => decide (x < d)) || anyUpperLess (k + 1) rs d

/-- per column of `K`: (`np.sum(K < d, axis=0)`, `np.sum(np.ma.masked_less(K, d), axis=0).data`),
    accumulated row by row as the axis-0 sums are -/
def colStats (K : Mat) (d : Nat) : List (Nat × Nat) :=
  K.foldl (fun acc row => List.zipWith (fun (cs : Nat × Nat) x =>
      if x < d then (cs.1 + 1, cs.2) else (cs.1, cs.2 + x)) acc row)
    (List.replicate K.length (0, 0))

/-- `K_rows_sortkeys[j] = -sum(K[:,j] < d) * (len(K) * diam_X) + sum(K[:,j] where ≥ d)` -/
def sortKeys (keyMul : Nat → Nat → Int) (K : Mat) (diam d : Nat) : List Int :=
  (colStats K d).map fun cs => (cs.2 : Int) - (cs.1 : Int) * keyMul K.length diam

/-- `K = np.delete(K, r, axis=0); K = np.delete(K, r, axis=1)` -/
def delRowCol (K : Mat) (r : Nat) : Mat := (K.eraseIdx r).map fun row => row.eraseIdx r

/-- the `while np.any(...)` loop.  The state is the curvature `K` itself, as in the code, together
    with the list of the original indices of its rows (ghost: the code does not keep it).  The
    recursion bound is the number of rows; each round removes one, and the loop condition is false
    on fewer than two rows, so the bound is never exhausted before the condition fails
    (`curvature_fuel_irrelevant`); its `0` case is reached only with no rows left, for which the
    answer is the code's. -/
def curvLoop (keyMul : Nat → Nat → Int) (diam d : Nat) : Nat → Mat → List Nat → Mat × List Nat
  | 0, _, _ => ([], [])
  | fuel + 1, K, idx =>
    if anyUpperLess 0 K d then
      let r := argmin (sortKeys keyMul K diam d)
      curvLoop keyMul diam d fuel (delRowCol K r) (idx.eraseIdx r)
    else (K, idx)

/-- `find_largest_size_bounded_curvature(DX, diam_X, d)` and the indices of the rows it keeps -/
def largestBoundedCurvature (keyMul : Nat → Nat → Int) (D : Mat) (diam d : Nat) : Mat × List Nat :=
  curvLoop keyMul diam d D.length D (List.range D.length)

/-- indices of the rows of `DX` kept by `find_largest_size_bounded_curvature(DX, diam_X, d)` -/
def largestBoundedCurvatureIdx (keyMul : Nat → Nat → Int) (D : Mat) (diam d : Nat) : List Nat :=
  (largestBoundedCurvature keyMul D diam d).2

/-! ### distributions -/

/-- one row as the frequency distribution of its entries `maxD, maxD-1, …, 1` (entry 0 omitted) -/
def rowDistribution (maxD : Nat) (row : List Nat) : List Nat :=
  (List.range maxD).map fun c => row.count (maxD - c)

/-- `represent_distance_matrix_rows_as_distributions` -/
def rowsAsDistributions (D : Mat) (maxD : Nat) : Mat := D.map (rowDistribution maxD)

/-- running sums of `b - a` (entry-wise), `np.cumsum(distributions[b] - distributions[a])` -/
def cumDiff : List Nat → List Nat → Int → List Int
  | a :: as, b :: bs, acc => let s := acc + ((b : Int) - (a : Int)); s :: cumDiff as bs s
  | _, _, _ => []

/-- `pairwise_distribution_less_thans[a][b]` -/
def distLess (a b : List Nat) : Bool :=
  let c := cumDiff a b 0
  c.all (fun x => decide (0 ≤ x)) && c.any (fun x => decide (0 < x))

/-- lexicographic `<` on rows (the order `np.unique(..., axis=0)` sorts by) -/
def lexLt : List Nat → List Nat → Bool
  | [], [] => false
  | [], _ :: _ => true
  | _ :: _, [] => false
  | a :: as, b :: bs => if a < b then true else if b < a then false else lexLt as bs

/-- insert into a lex-sorted duplicate-free list, keeping it so -/
def insertUnique (x : List Nat) : Mat → Mat
  | [] => [x]
  | y :: ys => if lexLt x y then x :: y :: ys else if x = y then y :: ys else y :: insertUnique x ys

/-- `find_unique_max_distributions` -/
def uniqueMaxDistributions (ds : Mat) : Mat :=
  (ds.filter fun a => !(ds.any fun b => distLess a b)).foldr insertUnique []

/-! ### `check_assignment_feasibility` -/

/-- scan `l[lo], l[lo+1], …` for the first positive entry, at most `fuel` entries -/
def firstPosFrom (l : List Nat) : Nat → Nat → Option Nat
  | 0, _ => none
  | fuel + 1, lo => if 0 < l.getD lo 0 then some lo else firstPosFrom l fuel (lo + 1)

/-- `next(k for k in range(lo, hi) if l[k] > 0)`, `none` on `StopIteration`; `hi ≤ len(l)` at
    every call site, so the default of `getD` is never used -/
def firstPos (l : List Nat) (lo hi : Nat) : Option Nat := firstPosFrom l (hi - lo) lo

/-- inner helper `next_j(i, min_j)`; `w = d - 1`; the Python upper end
    `min(i + (d-1), len(u) - 1) + 1` equals `min (i + w + 1) (len u)` -/
def nextJ (w : Nat) (ru : List Nat) (i minJ : Nat) : Option Nat :=
  firstPos ru minJ (min (i + w + 1) ru.length)

/-- inner helper `next_i_and_j(min_i, min_j)`; `i - w` is `max (i - (d-1)) 0`, absorbed by the
    `max … min_j` of the code because `min_j ≥ 0` -/
def nextIAndJ (w : Nat) (rv ru : List Nat) (minI minJ : Nat) : Option Nat × Option Nat :=
  match firstPos rv minI rv.length with
  | none => (none, some minJ)
  | some i => (some i, nextJ w ru i (max (i - w) minJ))

/-- the `while i is not None and j is not None` loop; the result is `j is not None` at exit.
    Every round either moves `i` up (keeping `j`) or moves `j` up (keeping `i`), so
    `(len rv - i) + (len ru - j) + 1` rounds suffice: the recursion is on that bound (`fuel`), and the
    `0` case is never reached from `checkAssignmentFeasibility` (`feasLoop_fuel_irrelevant` in
    `Lemmas/MGHGreedy.lean`); its value `true` ("feasible") is the one that confirms no bound. -/
def feasLoop (w : Nat) : Nat → List Nat → List Nat → Nat → Nat → Bool
  | 0, _, _, _, _ => true
  | fuel + 1, rv, ru, i, j =>
    if rv.getD i 0 ≤ ru.getD j 0 then
      match nextIAndJ w (rv.set i 0) (ru.set j (ru.getD j 0 - rv.getD i 0)) i j with
      | (none, _) => true
      | (some _, none) => false
      | (some i', some j') =>
        feasLoop w fuel (rv.set i 0) (ru.set j (ru.getD j 0 - rv.getD i 0)) i' j'
    else
      match nextJ w (ru.set j 0) i j with
      | none => false
      | some j' => feasLoop w fuel (rv.set i (rv.getD i 0 - ru.getD j 0)) (ru.set j 0) i j'

/-- `check_assignment_feasibility(v_distribution, u_distribution, d)` for `d ≥ 1` -/
def checkAssignmentFeasibility (v u : List Nat) (d : Nat) : Bool :=
  let rv := v.reverse
  let ru := u.reverse
  match nextIAndJ (d - 1) rv ru 0 0 with
  | (none, _) => true
  | (some _, none) => false
  | (some i, some j) => feasLoop (d - 1) (rv.length + ru.length + 1) rv ru i j

/-! ### confirming a lower bound with a bounded curvature -/

/-- `confirm_lb_using_bounded_curvature_row`: some kept (maximal, de-duplicated) row of `K`
    is assignable to no row of `DY` -/
def confirmRow (d : Nat) (K DY : Mat) (maxDiam : Nat) : Bool :=
  (uniqueMaxDistributions (rowsAsDistributions K maxDiam)).any fun kd =>
    (rowsAsDistributions DY maxDiam).all fun yd => !checkAssignmentFeasibility kd yd d

/-- `confirm_lb_using_bounded_curvature` -/
def confirmLb (d : Nat) (K DY : Mat) (maxDiam : Nat) : Bool :=
  decide (K.length > DY.length) || confirmRow d K DY maxDiam

/-- one side of the body of the `while d > double_lb` loop -/
def trySide (keyMul : Nat → Nat → Int) (DX DY : Mat) (diamX maxDiam d : Nat) : Bool :=
  decide (d ≤ diamX) &&
    (let K := (largestBoundedCurvature keyMul DX diamX d).1
     decide (K.length > 2) && confirmLb d K DY maxDiam)

/-- the `while d > double_lb` loop, `d` counting down (structural on `d`) -/
def lbLoop (kmX kmY : Nat → Nat → Int) (DX DY : Mat) (diamX diamY maxDiam : Nat) : Nat → Nat → Nat
  | 0, lb => lb
  | d + 1, lb =>
    if d + 1 > lb then
      let lb1 := if trySide kmX DX DY diamX maxDiam (d + 1) then d + 1 else lb
      let lb2 := if d + 1 > lb1 && trySide kmY DY DX diamY maxDiam (d + 1) then d + 1 else lb1
      lbLoop kmX kmY DX DY diamX diamY maxDiam d lb2
    else lb

/-- `trivial_double_lb` -/
def trivialLb (DX DY : Mat) : Nat :=
  max (absDiff (matMax DX) (matMax DY)) (if DX.length ≠ DY.length then 1 else 0)

/-- `find_lb(DX, DY)` -/
def findLb (kmX kmY : Nat → Nat → Int) (DX DY : Mat) : Nat :=
  let diamX := matMax DX
  let diamY := matMax DY
  let maxDiam := max diamX diamY
  lbLoop kmX kmY DX DY diamX diamY maxDiam maxDiam (trivialLb DX DY)

/-! ### upper bound -/

/-- `np.max(np.abs(DX[x, mapped_xs] - DY[y, mapped_xs_images]))` for one candidate `y` -/
def bottleneck (DX DY : Mat) (x : Nat) (mapped : List (Nat × Nat)) (y : Nat) : Nat :=
  (mapped.map fun p => absDiff (ent DX x p.1) (ent DY y p.2)).foldl max 0

/-- the `for x in pi[1:]` loop; `mapped` holds the pairs (point, image) in mapping order -/
def mapLoop (DX DY : Mat) : List Nat → List (Nat × Nat) → Nat → List (Nat × Nat) × Nat
  | [], mapped, dist => (mapped, dist)
  | x :: rest, mapped, dist =>
    let bs := (List.range DY.length).map (bottleneck DX DY x mapped)
    let y := argmin bs
    mapLoop DX DY rest (mapped ++ [(x, y)]) (max (bs.getD y 0) dist)

/-- the same loop with `DY[:, mapped_xs_images]` kept as a state `W` (one column appended per round)
    instead of being re-selected in every round; `mapLoopFast_eq` (Lemmas/MGHUb.lean) proves it equal
    to `mapLoop`.  Only the running time differs (cubic instead of quartic in list steps). -/
def mapLoopFast (DX DY : Mat) : List Nat → List (Nat × Nat) → Mat → Nat → List (Nat × Nat) × Nat
  | [], mapped, _, dist => (mapped, dist)
  | x :: rest, mapped, W, dist =>
    let rowX := DX.getD x []
    let xs := mapped.map fun p => rowX.getD p.1 0
    let bs := W.map fun wy => (List.zipWith absDiff xs wy).foldl max 0
    let y := argmin bs
    let W' := List.zipWith (fun wy rowY => wy ++ [rowY.getD y 0]) W DY
    mapLoopFast DX DY rest (mapped ++ [(x, y)]) W' (max (bs.getD y 0) dist)

/-- `construct_mapping(DX, DY, pi)` with the first image `y0 = np.random.choice(len(DY))`;
    returns the pairs (π(k), image of π(k)) and the distortion -/
def constructMapping (DX DY : Mat) (pi : List Nat) (y0 : Nat) : Except Err (List (Nat × Nat) × Nat) :=
  match pi with
  | [] => .error .index                       -- `pi[0]` on an empty permutation
  | x0 :: rest => .ok (mapLoopFast DX DY rest [(x0, y0)] (DY.map fun rowY => [rowY.getD y0 0]) 0)

/-- `min(distortion, ub_of_min_distortion)` with `none` = `np.inf` -/
def minOpt (dist : Nat) : Option Nat → Nat
  | none => dist
  | some b => min dist b

/-- the sampling loop of `find_ub_of_min_distortion`: `best = none` is `np.inf`.  Stops at the
    first sample whose running minimum is `≤ goal`; returns the minimum and the number of mappings
    constructed. A missing first image for a permutation that is still needed is `Err.index`. -/
def ubLoop (DX DY : Mat) (goal : Nat) : List (List Nat) → List Nat → Option Nat → Nat → Except Err (Nat × Nat)
  | [], _, none, _ => .error .stopIteration
  | [], _, some b, k => .ok (b, k)
  | _ :: _, [], _, _ => .error .index
  | pi :: pis, y0 :: y0s, best, k =>
    match constructMapping DX DY pi y0 with
    | .error e => .error e
    | .ok (_, dist) =>
      let b := minOpt dist best
      if b ≤ goal then .ok (b, k + 1) else ubLoop DX DY goal pis y0s (some b) (k + 1)

/-- `find_ub_of_min_distortion` (value, number of mappings constructed) -/
def findUbOfMinDistortion (DX DY : Mat) (perms : List (List Nat)) (y0s : List Nat) (goal : Nat) :
    Except Err (Nat × Nat) :=
  ubLoop DX DY goal perms y0s none 0

/-- `find_ub(DX, DY, …, double_lb)` with the draws of the two directions -/
def findUb (DX DY : Mat) (permsXY : List (List Nat)) (y0sXY : List Nat)
    (permsYX : List (List Nat)) (y0sYX : List Nat) (doubleLb : Nat) : Except Err (Nat × Nat × Nat) :=
  match findUbOfMinDistortion DX DY permsXY y0sXY doubleLb with
  | .error e => .error e
  | .ok (u1, k1) =>
    match findUbOfMinDistortion DY DX permsYX y0sYX u1 with
    | .error e => .error e
    | .ok (u2, k2) => .ok (max u1 u2, k1, k2)

/-- `estimate(DX, DY, …)`: the pair `(double_lb, double_ub)`; the code returns both times `0.5` -/
def estimate (kmX kmY : Nat → Nat → Int) (DX DY : Mat) (permsXY : List (List Nat)) (y0sXY : List Nat)
    (permsYX : List (List Nat)) (y0sYX : List Nat) : Except Err (Nat × Nat) :=
  let lb := findLb kmX kmY DX DY
  match findUb DX DY permsXY y0sXY permsYX y0sYX lb with
  | .error e => .error e
  | .ok (ub, _, _) => .ok (lb, ub)

/-- `len(K) * int(diam_X)`: the product of the (repaired) code, in unbounded integers -/
def exactMul (len diam : Nat) : Int := ((len * diam : Nat) : Int)

/-- `len(K) * diam_X` in a signed `bits`-bit integer type (`np.int8` scalar times Python int) -/
def wrapMul (bits : Nat) (len diam : Nat) : Int :=
  let m : Int := (2 : Int) ^ bits
  let h : Int := (2 : Int) ^ (bits - 1)
  ((((len * diam : Nat) : Int) + h) % m) - h

/-- the product of the *unrepaired* code on int8 matrices under NumPy 2 (`Python int * np.int8`):
    `OverflowError` when the Python int `len(K)` does not fit int8, silent wrap-around otherwise -/
def keyMulOld (len diam : Nat) : Except Err Int :=
  if len > 127 then .error .overflow else .ok (wrapMul 8 len diam)

/-! ### the unrepaired feasibility test (regression witness only)

  Before the repair `d` reached `check_assignment_feasibility` as an `np.int8` scalar, so under
  NumPy 2 the upper window end `i + (d - 1)` was evaluated in int8 and wrapped beyond 127. -/

/-- reduce an integer into the signed `bits`-bit range -/
def wrapInt (bits : Nat) (x : Int) : Int :=
  let m : Int := (2 : Int) ^ bits
  let h : Int := (2 : Int) ^ (bits - 1)
  ((x + h) % m) - h

def nextJOld (w : Nat) (ru : List Nat) (i minJ : Nat) : Option Nat :=
  firstPos ru minJ (min (wrapInt 8 ((i + w : Nat) : Int)) ((ru.length : Int) - 1) + 1).toNat

def nextIAndJOld (w : Nat) (rv ru : List Nat) (minI minJ : Nat) : Option Nat × Option Nat :=
  match firstPos rv minI rv.length with
  | none => (none, some minJ)
  | some i => (some i, nextJOld w ru i (max (i - w) minJ))

def feasLoopOld (w : Nat) : Nat → List Nat → List Nat → Nat → Nat → Bool
  | 0, _, _, _, _ => true
  | fuel + 1, rv, ru, i, j =>
    if rv.getD i 0 ≤ ru.getD j 0 then
      match nextIAndJOld w (rv.set i 0) (ru.set j (ru.getD j 0 - rv.getD i 0)) i j with
      | (none, _) => true
      | (some _, none) => false
      | (some i', some j') =>
        feasLoopOld w fuel (rv.set i 0) (ru.set j (ru.getD j 0 - rv.getD i 0)) i' j'
    else
      match nextJOld w (ru.set j 0) i j with
      | none => false
      | some j' => feasLoopOld w fuel (rv.set i (rv.getD i 0 - ru.getD j 0)) (ru.set j 0) i j'

/-- `check_assignment_feasibility` of the unrepaired code for an int8 `d` -/
def checkAssignmentFeasibilityOld (v u : List Nat) (d : Nat) : Bool :=
  let rv := v.reverse
  let ru := u.reverse
  match nextIAndJOld (d - 1) rv ru 0 0 with
  | (none, _) => true
  | (some _, none) => false
  | (some i, some j) => feasLoopOld (d - 1) (rv.length + ru.length + 1) rv ru i j

/-! ### exhaustive reference values (used by the driver ops `mgh.spec`, `mgh.feas.exh`) -/

/-- all maps `{0..n-1} → {0..m-1}` as image lists -/
def allMaps (m : Nat) : Nat → List (List Nat)
  | 0 => [[]]
  | n + 1 => (allMaps m n).flatMap fun f => (List.range m).map fun y => y :: f

/-- distortion of the map given as an image list -/
def disList (DX DY : Mat) (f : List Nat) : Nat :=
  ((List.range DX.length).flatMap fun x => (List.range DX.length).map fun x' =>
    absDiff (ent DX x x') (ent DY (f.getD x 0) (f.getD x' 0))).foldl max 0

/-- minimum distortion over all maps (`none` when there is no map) -/
def minDisBrute (DX DY : Mat) : Option Nat :=
  match (allMaps DY.length DX.length).map (disList DX DY) with
  | [] => none
  | a :: as => some (as.foldl min a)

def mgh2Brute (DX DY : Mat) : Option Nat :=
  match minDisBrute DX DY, minDisBrute DY DX with
  | some a, some b => some (max a b)
  | _, _ => none

/-- is there an injective assignment of the entries of `v` to entries of `u` with `|v_k-u_f(k)| < d`?
    (exhaustive search: assign the head of `v` to each remaining admissible entry of `u`) -/
def assignableBrute (d : Nat) : List Nat → List Nat → Bool
  | [], _ => true
  | a :: v, u =>
    (List.range u.length).any fun k =>
      decide (absDiff a (u.getD k 0) < d) && assignableBrute d v (u.eraseIdx k)

/-- expand a distribution (frequencies of `maxD, …, 1`) into the vector it describes -/
def expandDistribution (dist : List Nat) : List Nat :=
  (List.range dist.length).flatMap fun c => List.replicate (dist.getD c 0) (dist.length - c)

end PersimVerif.MGH
